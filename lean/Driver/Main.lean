import Driver.TrVal
import Driver.Entry

def main (args : List String) : IO UInt32 := do
  let stdin ← IO.getStdin
  match args with
  | ["trval"] => TrVal.main stdin
  | ["entry"] => EntryVal.main stdin
  | _ => do IO.eprintln "usage: midriver <trval|entry|...>"; return 2
