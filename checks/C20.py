"""C20 — options, environment parsing and diagnostic output are total and memory-safe
(T2: hand-written models of mi_option_init / _mi_vsnprintf / strlcpy / strlcat / heap_buf_print / out_buf with theorems,
differential correspondence against the real static functions under AddressSanitizer)."""
import os
import vcommon as V

TRUSTED = ['Lean 4 kernel', 'translator extract/translate.py for the string functions of src/libc.c in Gen/Loops.lean (_mi_strlcpy, _mi_strlcat, _mi_strnlen: loops -> whileN, loads through the oracle ld8, stores as effect log), validated on every S line of the harness', 'hand-written models MiVerif/Model/Options.lean and MiVerif/Model/Printf.lean (compared with the real functions on ~50k inputs per run)',
           'harness/c20.c (drives the static functions through #include of src/static.c; exact-size heap buffers under AddressSanitizer)',
           'libc strtol / getenv / va_arg semantics; x86-64 SysV passing of integer and pointer varargs',
           'the model keeps `width` unbounded: agreement with the C size_t needs width fields of <= 18 digits, proved for every internal format (Gen/Formats.lean, regenerated)']

def run(chk):
    chk.trusted = TRUSTED
    chk.assumptions = ['release configuration of src/static.c, gcc -fsanitize=address', 'environment values are NUL-terminated strings (no embedded NUL)',
                       'only the first 64 bytes of an environment value are parsed (a 64-byte well-formed prefix of a longer value is accepted) - scope limit, see DESIGN.md']
    chk.extra['rule'] = ('obligations = theorems of Props/C20.lean; evaluations = lines of harness/c20.c (real function results) recomputed by the Lean models + oracle evaluations; '
                         'distinct = distinct harness lines')
    chk.lean('MiVerif.Props.C20', groups=['Formats', 'Loops'])
    ok, exe, log = V.build_driver()
    if not ok:
        chk.broken_tie('lean driver does not build', log[-1500:]); return
    with V.Scratch() as d:
        h = os.path.join(d, 'c20')
        ok, log = V.cc_harness(os.path.join(V.HARNESS, 'c20.c'), h, flags=list(V.RELEASE) + ['-fsanitize=address', '-DVERIF_STATIC_C="%s/src/static.c"' % V.REPO])
        if not ok:
            chk.broken_tie('C20 harness does not compile against the current tree', log[-1500:]); return
        ff = os.path.join(d, 'formats.hex')
        hexes = [l.split()[2] for l in open(os.path.join(V.LEAN, 'MiVerif', 'Gen', 'Formats.lean')) if l.startswith('-- HEX ')]
        open(ff, 'w').write('\n'.join(hexes) + '\n')
        chk.extra['internal_formats'] = len(hexes)
        rc, out, err = V.run([h, str(chk.seed), '1' if chk.tier == 'thorough' else '0', ff], timeout=1800, env={'ASAN_OPTIONS': 'detect_leaks=0:abort_on_error=0'})
        lines = out.splitlines()
        if rc != 0 or 'DONE' not in out:
            last = [l for l in lines if l][-1:] or ['']
            asan = [l for l in err.splitlines() if 'ERROR: AddressSanitizer' in l or l.strip().startswith('#0') or l.strip().startswith('#1')][:3]
            chk.violation('C20/harness-crash', 'option parsing / output harness crashed under AddressSanitizer (exit %d): %s | after line: %s' % (rc, ' '.join(asan)[:400], last[0][:200]),
                          {'cmd': 'harness/c20 %d' % chk.seed, 'asan': err[-1500:], 'last_line': last[0][:400]})
            return
        for l in lines:
            if l.startswith('FAIL'):
                p = l.split()
                chk.violation('C20/' + p[1], 'real function violates %s: %s' % (p[1], ' '.join(p[2:])[:300]), {'statement': p[1], 'input': ' '.join(p[2:]), 'how_to_run': 'harness/c20.c seed %d' % chk.seed})
            elif l.startswith('STAT evaluations'):
                chk.count(int(l.split()[2]))
        rc2, out2, err2 = V.run([exe, 'c20'], input=out, timeout=900)
        summary = [l for l in out2.splitlines() if l.startswith('c20val cases')]
        diffs = [l for l in out2.splitlines() if l.startswith('DIFF')]
        if summary:
            chk.extra['model_vs_impl_cases'] = int(summary[0].split()[2])
        if rc2 != 0 or diffs or not summary:
            chk.broken_tie('correspondence: the Lean models and the real option parser / writers disagree', '\n'.join(diffs[:10]) or (out2[-400:] + err2[-400:]))
        kinds = {}
        keys = set()
        for l in lines:
            k = l.split(' ', 1)[0]
            if k in ('O', 'P', 'S', 'H', 'H2', 'B'):
                kinds[k] = kinds.get(k, 0) + 1; keys.add(l)
        chk.cov['distinct_nontrivial'] = len(keys)
        chk.extra['line_kinds'] = kinds
        acc = sum(1 for l in lines if l.startswith('O ') and l.endswith(' 2') is False and ' -> 2 ' in l)
        chk.extra['option_values_accepted'] = acc
        chk.extra['option_values_defaulted'] = kinds.get('O', 0) - acc
        for l in [x for x in lines if x.startswith('O ')][::max(1, kinds.get('O', 1) // 3)][:3] + [x for x in lines if x.startswith('P ')][::max(1, kinds.get('P', 1) // 3)][:3]:
            chk.sample(l[:200])
        chk.log('correspondence: %s; kinds %s' % (summary[0] if summary else 'none', kinds))
