// C16 implementation-side oracle, independent of the Lean model: checks the property statements directly on
// the compiled functions of the current tree over their whole relevant domain.
// prints "FAIL <key> <detail>" per violated statement (first few), "STAT <name> <count>", exits 0.
#include VERIF_STATIC_C
#include <stdio.h>
#include <stdlib.h>
static int nfail = 0;
#define FAIL(key, ...) do { if (nfail++ < 40) { printf("FAIL %s ", key); printf(__VA_ARGS__); printf("\n"); } } while (0)
static uint64_t rs = 88172645463325252ULL;
static uint64_t rnd(void) { rs ^= rs << 13; rs ^= rs >> 7; rs ^= rs << 17; return rs; }

int main(int argc, char** argv) {
  uint64_t seed = argc > 1 ? strtoull(argv[1], 0, 10) : 1;
  int thorough = argc > 2 ? atoi(argv[2]) : 0;
  rs ^= seed * 0x9E3779B97F4A7C15ULL; if (rs == 0) rs = 1;
  size_t n_eval = 0;
  // 1-3: bins
  size_t prev_bin = 0;
  for (size_t n = 0; n <= 2 * MI_MEDIUM_OBJ_SIZE_MAX + 64; n++) {
    size_t b = mi_bin(n); n_eval++;
    if (b < prev_bin) FAIL("bin_mono", "n=%zu bin=%zu prev=%zu", n, b, prev_bin);
    prev_bin = b;
    if (n <= MI_MEDIUM_OBJ_SIZE_MAX) {
      size_t bs = _mi_bin_size((uint8_t)b);
      if (b < 1 || b >= MI_BIN_HUGE) FAIL("bin_range", "n=%zu bin=%zu", n, b);
      else {
        if (bs < n) FAIL("bin_ge", "n=%zu bin=%zu bsize=%zu", n, b, bs);
        if (n > 64 && 4 * (bs - n) > bs) FAIL("bin_frag", "n=%zu bsize=%zu", n, bs);
        if (mi_bin(bs) != b) FAIL("bin_of_binSize", "n=%zu bin=%zu bsize=%zu rebin=%zu", n, b, bs, (size_t)mi_bin(bs));
      }
    } else if (b != MI_BIN_HUGE) FAIL("bin_huge", "n=%zu bin=%zu", n, b);
    size_t g = mi_good_size(n);
    if (g < n) FAIL("good_ge", "n=%zu good=%zu", n, g);
    if (mi_good_size(g) != g) FAIL("good_idem", "n=%zu good=%zu goodgood=%zu", n, g, mi_good_size(g));
  }
  for (size_t b = 1; b + 1 < MI_BIN_HUGE; b++) {
    if (_mi_bin_size((uint8_t)b) >= _mi_bin_size((uint8_t)(b + 1))) FAIL("binSize_strictMono", "b=%zu", b);
  }
  for (int k = 17; k < 63; k++) for (int d = -9; d <= 9; d++) {
    size_t n = ((size_t)1 << k) + d; if (n > (size_t)PTRDIFF_MAX) continue; n_eval++;
    if (mi_bin(n) != MI_BIN_HUGE) FAIL("bin_huge", "n=%zu bin=%zu", n, (size_t)mi_bin(n));
    size_t g = mi_good_size(n);
    if (g < n) FAIL("good_ge", "n=%zu good=%zu", n, g);
    if (mi_good_size(g) != g) FAIL("good_idem", "n=%zu", n);
  }
  printf("STAT sizes %zu\n", n_eval);
  // 5: good size equals the usable size of a real allocation (small and medium)
  size_t n_alloc = 0;
  for (size_t n = 0; n <= MI_MEDIUM_OBJ_SIZE_MAX; n += (n < 1100 ? 1 : (thorough ? 7 : 211))) {
    void* p = mi_malloc(n); if (!p) { FAIL("malloc_null", "n=%zu", n); continue; }
    n_alloc++;
    if (mi_usable_size(p) != mi_good_size(n)) FAIL("good_is_usable", "n=%zu usable=%zu good=%zu", n, mi_usable_size(p), mi_good_size(n));
    if (mi_usable_size(p) < n) FAIL("usable_ge", "n=%zu usable=%zu", n, mi_usable_size(p));
    mi_free(p);
  }
  printf("STAT allocs %zu\n", n_alloc);
  // 6: interior pointer -> block start, every bin size, power of two or not, plus odd sizes
  size_t n_un = 0;
  mi_segment_t* seg = (mi_segment_t*)aligned_alloc(MI_SEGMENT_SIZE, MI_SEGMENT_SIZE);
  for (size_t b = 1; b <= MI_BIN_HUGE + 20; b++) {
    size_t bsz = b < MI_BIN_HUGE ? _mi_bin_size((uint8_t)b) : (size_t)(8 * (1 + rnd() % 20000));
    mi_page_t pg; memset(&pg, 0, sizeof(pg)); pg.block_size = bsz;
    pg.block_size_shift = (_mi_is_power_of_two(bsz) ? (uint8_t)mi_ctz(bsz) : 0);
    for (int sp = 0; sp < 3; sp++) {
      pg.page_start = (uint8_t*)seg + 65536 * (1 + sp * 37) + (sp == 0 ? 0 : (rnd() % 512) * 8);
      size_t res = (bsz <= 65536 ? 65536 / bsz : 1); if (res == 0) res = 1;
      size_t idx[6] = {0, 1, res / 2, res - 1, rnd() % res, rnd() % res};
      size_t offs[6] = {0, 1, bsz / 2, bsz - 1, rnd() % bsz, 7};
      for (int i = 0; i < 6; i++) for (int j = 0; j < 6; j++) {
        if (offs[j] >= bsz) continue;
        uint8_t* blk = pg.page_start + idx[i] * bsz; n_un++;
        if (_mi_page_ptr_unalign(&pg, blk + offs[j]) != (mi_block_t*)blk) FAIL("unalign_correct", "bsize=%zu idx=%zu off=%zu", bsz, idx[i], offs[j]);
      }
    }
  }
  printf("STAT unalign %zu\n", n_un);
  // 7: pointer -> segment
  size_t n_ps = 0;
  { size_t S = (size_t)seg; size_t ds[] = {1, 2, 8, 65535, 65536, 65537, MI_SEGMENT_SIZE / 2, MI_SEGMENT_SIZE - 1, MI_SEGMENT_SIZE};
    for (size_t i = 0; i < sizeof(ds) / sizeof(ds[0]); i++) { n_ps++; if ((size_t)_mi_ptr_segment((void*)(S + ds[i])) != S) FAIL("ptr_segment_correct", "S=%zu d=%zu", S, ds[i]); }
    for (int i = 0; i < 20000; i++) { size_t d = 1 + rnd() % MI_SEGMENT_SIZE; n_ps++; if ((size_t)_mi_ptr_segment((void*)(S + d)) != S) FAIL("ptr_segment_correct", "S=%zu d=%zu", S, d); }
    if (_mi_ptr_segment(NULL) != NULL) FAIL("ptr_segment_null", "NULL");
  }
  printf("STAT ptrseg %zu\n", n_ps);
  // 9: fast division
  size_t n_fd = 0;
  for (size_t d = 1; d < (thorough ? 300000u : 70000u); d += (d < 5000 ? 1 : 13)) {
    uint64_t m; size_t s; mi_get_fast_divisor(d, &m, &s);
    size_t ns[8] = {0, 1, d - 1, d, d + 1, 0xFFFFFFFFu, 0xFFFFFFFFu - d, (size_t)(rnd() & 0xFFFFFFFFu)};
    for (int i = 0; i < 8; i++) { n_fd++; if (mi_fast_divide(ns[i], m, s) != ns[i] / d) FAIL("fast_divide_correct", "n=%zu d=%zu got=%zu", ns[i], d, mi_fast_divide(ns[i], m, s)); }
  }
  for (long i = 0; i < (thorough ? 4000000 : 400000); i++) {
    size_t d = 1 + (rnd() >> (32 + rnd() % 31)); if (d >= ((size_t)1 << 32)) d = 0xFFFFFFFFu; size_t n = rnd() & 0xFFFFFFFFu;
    uint64_t m; size_t s; mi_get_fast_divisor(d, &m, &s); n_fd++;
    if (mi_fast_divide(n, m, s) != n / d) FAIL("fast_divide_correct", "n=%zu d=%zu", n, d);
  }
  printf("STAT fastdiv %zu\n", n_fd);
  // 10: span bins, align helpers, overflow multiply
  size_t n_misc = 0;
  size_t pb = 0;
  for (size_t c = 0; c <= MI_SLICES_PER_SEGMENT; c++) {
    size_t b = mi_slice_bin(c); n_misc++;
    if (b > MI_SEGMENT_BIN_MAX) { FAIL("slice_bin_ok", "c=%zu bin=%zu", c, b); continue; }
    if (tld_empty.segments.spans[b].slice_count < c) FAIL("slice_bin_ok", "c=%zu bin=%zu nominal=%zu", c, b, tld_empty.segments.spans[b].slice_count);
    if (b < pb) FAIL("slice_bin_mono", "c=%zu", c);
    pb = b;
  }
  for (long i = 0; i < 200000; i++) {
    size_t sz = rnd() >> (rnd() % 64), a = (i & 1) ? ((size_t)1 << (rnd() % 40)) : 1 + (rnd() >> (24 + rnd() % 40));
    if (sz > SIZE_MAX / 2 || a > SIZE_MAX / 4) continue; n_misc++;
    size_t u = _mi_align_up(sz, a), dn = _mi_align_down(sz, a);
    if (u < sz || u >= sz + a || u % a != 0) FAIL("align_up_spec", "sz=%zu a=%zu r=%zu", sz, a, u);
    if (dn > sz || sz >= dn + a || dn % a != 0) FAIL("align_down_spec", "sz=%zu a=%zu r=%zu", sz, a, dn);
    if (_mi_divide_up(sz, a) != (sz + a - 1) / a) FAIL("divide_up_spec", "sz=%zu a=%zu", sz, a);
    size_t c = rnd() >> (rnd() % 64), s = rnd() >> (rnd() % 64), t = 0;
    bool o = mi_count_size_overflow(c, s, &t);
    unsigned __int128 prod = (unsigned __int128)c * s;
    if (o != (prod > SIZE_MAX)) FAIL("count_size_overflow_iff", "c=%zu s=%zu", c, s);
    if (!o && t != (size_t)prod) FAIL("count_size_overflow_iff", "c=%zu s=%zu total=%zu", c, s, t);
  }
  printf("STAT misc %zu\n", n_misc);
  printf("DONE fails %d\n", nfail);
  return 0;
}
