// OS shim + virtual clock for the white-box harnesses (C07, C11, C13, C18): include BEFORE src/static.c.
// mmap/munmap/mprotect/madvise/clock_gettime of the allocator's prim.c are renamed to the functions below by macros
// (no source change).  The shim forwards to the real system calls, keeps a page-granular record of every mapping
// (state per 4 KiB page: accessible?, purged since the last commit?), logs every call, can refuse the k-th call
// (single or persistent), and serves a virtual monotonic clock.
#ifndef VERIF_OSHIM_H
#define VERIF_OSHIM_H
#define _GNU_SOURCE
#include <sys/mman.h>
#include <time.h>
#include <errno.h>
#include <stdio.h>
#include <stdlib.h>
#include <stdint.h>
#include <string.h>
#include <unistd.h>
#include <pthread.h>

enum { VM_MMAP = 1, VM_MUNMAP = 2, VM_MPROTECT = 3, VM_MADVISE = 4 };
enum { VP_RW = 1, VP_PURGED = 2, VP_EVER_RW = 4 };     // per-page state bits
typedef struct vm_map_s { uintptr_t base; size_t size; uint8_t* st; int live; long id; } vm_map_t;
static vm_map_t vm_maps[8192]; static int vm_nmaps = 0; static long vm_next_id = 0;
typedef struct vm_ev_s { int kind; uintptr_t addr; size_t size; int arg; int ok; long long t_ns; } vm_ev_t;
static vm_ev_t* vm_ev = NULL; static long vm_nev = 0, vm_ev_cap = 0;
static long vm_foreign_unmaps = 0; static uintptr_t vm_foreign_addr = 0; static size_t vm_foreign_size = 0, vm_foreign_covered = 0;   // munmap of memory not (any more) mapped through the shim
static long verif_calls = 0;            // OS requests seen so far (all four kinds)
static long verif_fail_at = -1;         // refuse request number k ...
static int  verif_fail_from = 0;        // ... and every later one
static int  verif_fail_mask = 0x1e;     // which kinds may be refused (bit per VM_*)
static long verif_faults_fired = 0;
static long long verif_now_ns = 1000000000LL;   // virtual clock (starts at 1 s)
static size_t vm_mapped_bytes = 0, vm_peak_mapped = 0;
static pthread_mutex_t vm_mu = PTHREAD_MUTEX_INITIALIZER;   // the bookkeeping is shared by all threads of the harness
#define VM_LOCK() pthread_mutex_lock(&vm_mu)
#define VM_UNLOCK() pthread_mutex_unlock(&vm_mu)
#define VM_PAGE 4096u

static void vm_log(int kind, void* a, size_t n, int arg, int ok) {
  if (vm_nev == vm_ev_cap) { vm_ev_cap = vm_ev_cap ? vm_ev_cap * 2 : 4096; vm_ev = (vm_ev_t*)realloc(vm_ev, vm_ev_cap * sizeof(vm_ev_t)); }
  vm_ev[vm_nev].kind = kind; vm_ev[vm_nev].addr = (uintptr_t)a; vm_ev[vm_nev].size = n; vm_ev[vm_nev].arg = arg; vm_ev[vm_nev].ok = ok; vm_ev[vm_nev].t_ns = verif_now_ns; vm_nev++;
}
static int vm_should_fail(int kind) {
  long k = verif_calls++;
  if (verif_fail_at < 0 || !(verif_fail_mask & (1 << kind))) return 0;
  if (k == verif_fail_at || (verif_fail_from && k >= verif_fail_at)) { verif_faults_fired++; return 1; }
  return 0;
}
static vm_map_t* vm_add(uintptr_t base, size_t size, int prot) {
  vm_map_t* m = NULL;
  for (int i = 0; i < vm_nmaps; i++) if (!vm_maps[i].live) { m = &vm_maps[i]; break; }
  if (m == NULL) { if (vm_nmaps >= 8192) { fprintf(stderr, "oshim: too many mappings\n"); abort(); } m = &vm_maps[vm_nmaps++]; } m->base = base; m->size = size; m->live = 1; m->id = vm_next_id++;
  size_t np = (size + VM_PAGE - 1) / VM_PAGE; m->st = (uint8_t*)malloc(np ? np : 1);
  memset(m->st, (prot & PROT_WRITE) ? (VP_RW | VP_EVER_RW) : VP_PURGED, np);
  vm_mapped_bytes += size; if (vm_mapped_bytes > vm_peak_mapped) vm_peak_mapped = vm_mapped_bytes;
  return m;
}
// apply f to the pages of [a, a+n) that lie in live mappings; returns number of bytes covered
static size_t vm_range(uintptr_t a, size_t n, int op /*1 set rw, 2 set none(purged), 3 purge, 4 unmap*/) {
  size_t covered = 0;
  for (int i = 0; i < vm_nmaps; i++) {
    vm_map_t* m = &vm_maps[i]; if (!m->live) continue;
    uintptr_t lo = a > m->base ? a : m->base, hi = (a + n < m->base + m->size) ? a + n : m->base + m->size;
    if (lo >= hi) continue;
    covered += hi - lo;
    if (op == 4) {
      // unmap [lo,hi): keep the parts before and after as separate mappings
      uintptr_t mb = m->base; size_t ms = m->size; uint8_t* st = m->st;
      m->live = 0; vm_mapped_bytes -= ms;
      if (lo > mb) { vm_map_t* x = vm_add(mb, lo - mb, 0); memcpy(x->st, st, (lo - mb) / VM_PAGE); }
      if (hi < mb + ms) { vm_map_t* x = vm_add(hi, mb + ms - hi, 0); memcpy(x->st, st + (hi - mb) / VM_PAGE, (mb + ms - hi) / VM_PAGE); }
      free(st);
      continue;
    }
    for (uintptr_t p = lo; p < hi; p += VM_PAGE) {
      uint8_t* s = &m->st[(p - m->base) / VM_PAGE];
      if (op == 1) { *s = (uint8_t)((*s | VP_RW | VP_EVER_RW) & ~VP_PURGED); }
      else if (op == 2) { *s = (uint8_t)((*s & ~VP_RW) | VP_PURGED); }
      else if (op == 3) { *s |= VP_PURGED; }
    }
  }
  return covered;
}
static void* verif_mmap(void* a, size_t n, int prot, int flags, int fd, off_t off) {
  VM_LOCK();
  if (vm_should_fail(VM_MMAP)) { vm_log(VM_MMAP, a, n, prot, 0); VM_UNLOCK(); errno = ENOMEM; return MAP_FAILED; }
  void* p = mmap(a, n, prot, flags, fd, off);
  vm_log(VM_MMAP, p, n, prot, p != MAP_FAILED);
  if (p != MAP_FAILED) { if (flags & MAP_FIXED) vm_range((uintptr_t)p, n, 4); vm_add((uintptr_t)p, n, prot); }
  VM_UNLOCK();
  return p;
}
static int verif_munmap(void* a, size_t n) {
  VM_LOCK();
  if (vm_should_fail(VM_MUNMAP)) { vm_log(VM_MUNMAP, a, n, 0, 0); VM_UNLOCK(); errno = EINVAL; return -1; }
  int r = munmap(a, n);
  vm_log(VM_MUNMAP, a, n, 0, r == 0);
  if (r == 0) {
    // the range must be memory that was mapped through this shim and is still mapped: anything else is memory the allocator does not
    // (or no longer) own - e.g. the trimmed-off front of an over-allocation unmapped a second time
    size_t covered = vm_range((uintptr_t)a, n, 4);
    size_t want = n & ~(size_t)(VM_PAGE - 1);
    if (covered < want) { if (vm_foreign_unmaps++ == 0) { vm_foreign_addr = (uintptr_t)a; vm_foreign_size = n; vm_foreign_covered = covered; } }
  }
  VM_UNLOCK();
  return r;
}
static int verif_mprotect(void* a, size_t n, int prot) {
  VM_LOCK();
  if (vm_should_fail(VM_MPROTECT)) { vm_log(VM_MPROTECT, a, n, prot, 0); VM_UNLOCK(); errno = ENOMEM; return -1; }
  int r = mprotect(a, n, prot);
  vm_log(VM_MPROTECT, a, n, prot, r == 0);
  if (r == 0) vm_range((uintptr_t)a, n, (prot & PROT_WRITE) ? 1 : 2);
  VM_UNLOCK();
  return r;
}
static int verif_madvise(void* a, size_t n, int adv) {
  VM_LOCK();
  if (vm_should_fail(VM_MADVISE)) { vm_log(VM_MADVISE, a, n, adv, 0); VM_UNLOCK(); errno = ENOMEM; return -1; }
  int r = madvise(a, n, adv);
  vm_log(VM_MADVISE, a, n, adv, r == 0);
  if (r == 0 && (adv == MADV_DONTNEED
#ifdef MADV_FREE
      || adv == MADV_FREE
#endif
      )) vm_range((uintptr_t)a, n, 3);
  VM_UNLOCK();
  return r;
}
static int verif_clock_gettime(clockid_t c, struct timespec* ts) { (void)c; ts->tv_sec = verif_now_ns / 1000000000LL; ts->tv_nsec = verif_now_ns % 1000000000LL; return 0; }
static void verif_advance_ms(long ms) { verif_now_ns += (long long)ms * 1000000LL; }
static long long verif_now_ms(void) { return verif_now_ns / 1000000LL; }

// queries used by the oracles
static int vm_page_state(uintptr_t p) {      // -1 unmapped, else state bits
  for (int i = 0; i < vm_nmaps; i++) { vm_map_t* m = &vm_maps[i]; if (m->live && p >= m->base && p < m->base + m->size) return m->st[(p - m->base) / VM_PAGE]; }
  return -1;
}
// number of pages in [a,a+n) that are mapped, accessible and not purged since they were last committed
static size_t vm_unpurged_pages(uintptr_t a, size_t n) {
  size_t c = 0; a &= ~(uintptr_t)(VM_PAGE - 1);
  for (uintptr_t p = a; p < a + n; p += VM_PAGE) { int s = vm_page_state(p); if (s >= 0 && (s & VP_RW) && !(s & VP_PURGED)) c++; }
  return c;
}
static long vm_count_events(long from, int kind, int okonly) { long c = 0; for (long i = from; i < vm_nev; i++) if (vm_ev[i].kind == kind && (!okonly || vm_ev[i].ok)) c++; return c; }
// purge events (madvise DONTNEED/FREE, mprotect NONE, mmap FIXED|NONE) overlapping [a,a+n) since event index `from`
static long vm_purge_events_in(long from, uintptr_t a, size_t n) {
  long c = 0;
  for (long i = from; i < vm_nev; i++) {
    vm_ev_t* e = &vm_ev[i]; if (!e->ok) continue;
    int purge = (e->kind == VM_MADVISE) || (e->kind == VM_MPROTECT && !(e->arg & PROT_WRITE)) ;
    if (purge && e->addr < a + n && a < e->addr + e->size) c++;
  }
  return c;
}
static long vm_live_maps(void) { long c = 0; for (int i = 0; i < vm_nmaps; i++) if (vm_maps[i].live) c++; return c; }

#define mmap verif_mmap
#define munmap verif_munmap
#define mprotect verif_mprotect
#define madvise verif_madvise
#define clock_gettime verif_clock_gettime
#endif
