"""Second, small translator (tie T1 for C07): the commit-bookkeeping functions of src/segment.c
(mi_segment_commit, mi_segment_ensure_committed, mi_segment_purge, mi_segment_schedule_purge) -> Lean functions over the state record
`GenC.SegSt` of lean/MiVerif/Gen/CommitPrelude.lean.

What is translated: the statement structure (declarations, calls in program order, if / else chains, early returns, assignments to
segment fields) with the continuation duplicated into the branches of every `if` that does not return (the functions are small).
What is interpreted by the prelude (hand-written, trusted, exercised by the step-wise correspondence of C07): the commit-mask primitives
(mi_commit_mask_*), mi_segment_commit_mask (through the regenerated Gen.mi_segment_commit_mask), the OS calls (_mi_os_commit, _mi_os_purge:
the answer is a parameter of the generated function, one per call site) and the reads of clock / options (parameters).
Statistics calls are dropped.  Anything else makes the translation fail (the group is then replaced by a file that does not compile)."""
import translate as T

MASK_T = 'mi_commit_mask_t'
DROP_CALLS = {'_mi_stat_decrease', '_mi_stat_increase', '_mi_stat_counter_increase', '_mi_warning_message', '_mi_verbose_message'}
FIELDS = {'commit_mask': 'commit', 'purge_mask': 'purge', 'purge_expire': 'expire', 'allow_purge': 'allowPurge', 'allow_decommit': 'allowDecommit'}
FUNCS = ['mi_segment_commit', 'mi_segment_ensure_committed', 'mi_segment_purge', 'mi_segment_schedule_purge']


class Ctx:
    def __init__(self, tu, fname):
        self.tu = tu; self.fname = fname
        self.params = []      # extra parameters (oracle answers, clock, options) in order of first use
        self.n = 0

    def fresh(self, base):
        self.n += 1
        return '%s_%d' % (base, self.n)

    def param(self, name, ty):
        if (name, ty) not in self.params:
            self.params.append((name, ty))
        return name


def strip(e):
    while e.get('kind') in ('ImplicitCastExpr', 'ParenExpr', 'CStyleCastExpr', 'ConstantExpr') and e.get('inner'):
        e = e['inner'][0]
    return e


def is_mask_ptr(e):
    t = e.get('type', {}).get('qualType', '')
    return MASK_T in t and '*' in t


def mask_lvalue(cx, e, env):
    """&local or &segment->field for a mask: returns ('local', cname) or ('field', leanfield)"""
    e = strip(e)
    if e.get('kind') == 'UnaryOperator' and e.get('opcode') == '&':
        x = strip(e['inner'][0])
        if x.get('kind') == 'DeclRefExpr':
            return ('local', x['referencedDecl']['name'])
        if x.get('kind') == 'MemberExpr' and x.get('name') in FIELDS:
            return ('field', FIELDS[x['name']])
    raise T.TranslateError('%s: unsupported mask argument %s' % (cx.fname, e.get('kind')))


def mask_value(cx, e, env):
    k, n = mask_lvalue(cx, e, env)
    return env[n] if k == 'local' else 'σ.%s' % n


def expr(cx, e, env):
    """integer / boolean expression -> (lean term of type Int for numbers, Bool for conditions is handled by cond())"""
    e0 = e; e = strip(e)
    k = e.get('kind')
    if k == 'IntegerLiteral':
        return '(%s : Int)' % e['value']
    if k == 'DeclRefExpr':
        n = e['referencedDecl']['name']
        if n in env:
            return env[n]
        if e['referencedDecl'].get('kind') == 'EnumConstantDecl':
            return cx.tu_enum(n)
        raise T.TranslateError('%s: unknown variable %s' % (cx.fname, n))
    if k == 'MemberExpr' and e.get('name') in FIELDS:
        return 'σ.%s' % FIELDS[e['name']]
    if k == 'BinaryOperator' and e['opcode'] in ('+', '-'):
        return '(%s %s %s)' % (expr(cx, e['inner'][0], env), e['opcode'], expr(cx, e['inner'][1], env))
    if k == 'CallExpr':
        callee = strip(e['inner'][0])['referencedDecl']['name']
        args = e['inner'][1:]
        if callee == '_mi_clock_now':
            return cx.param('now', 'Int')
        if callee == 'mi_option_get':
            opt = strip(args[0])['referencedDecl']['name']
            return cx.param('opt_' + opt.replace('mi_option_', ''), 'Int')
    raise T.TranslateError('%s: unsupported expression %s' % (cx.fname, k))


def cond(cx, e, env):
    """condition -> Lean Bool term"""
    e = strip(e)
    k = e.get('kind')
    if k == 'UnaryOperator' and e['opcode'] == '!':
        return '(!%s)' % cond(cx, e['inner'][0], env)
    if k == 'BinaryOperator' and e['opcode'] in ('||', '&&'):
        return '(%s %s %s)' % (cond(cx, e['inner'][0], env), e['opcode'], cond(cx, e['inner'][1], env))
    if k == 'BinaryOperator' and e['opcode'] in ('==', '!=', '<=', '<', '>=', '>'):
        a, b = expr(cx, e['inner'][0], env), expr(cx, e['inner'][1], env)
        op = {'==': '==', '!=': '!=', '<=': '≤', '<': '<', '>=': '≥', '>': '>'}[e['opcode']]
        return '(decide (%s %s %s))' % (a, op if op not in ('==',) else '=', b) if op != '!=' else '(decide (%s ≠ %s))' % (a, b)
    if k == 'CallExpr':
        callee = strip(e['inner'][0])['referencedDecl']['name']
        args = e['inner'][1:]
        if callee == 'mi_commit_mask_is_empty':
            return '(mEmpty %s)' % mask_value(cx, args[0], env)
        if callee == 'mi_commit_mask_is_full':
            return '(mFull %s)' % mask_value(cx, args[0], env)
        if callee == 'mi_commit_mask_all_set':
            return '(mAllSet %s %s)' % (mask_value(cx, args[0], env), mask_value(cx, args[1], env))
        if callee == 'mi_commit_mask_any_set':
            return '(mAnySet %s %s)' % (mask_value(cx, args[0], env), mask_value(cx, args[1], env))
    if k == 'MemberExpr' and e.get('name') in ('allow_purge', 'allow_decommit'):
        return 'σ.%s' % FIELDS[e['name']]
    if k == 'DeclRefExpr' and e['referencedDecl']['name'] in env and env.get('#bool:' + e['referencedDecl']['name']):
        return env[e['referencedDecl']['name']]
    raise T.TranslateError('%s: unsupported condition %s' % (cx.fname, k))


def returns(stmts):
    """does this statement list always end in a return?"""
    if not stmts:
        return False
    last = stmts[-1]
    if last.get('kind') == 'ReturnStmt':
        return True
    if last.get('kind') == 'CompoundStmt':
        return returns(flat(last))
    if last.get('kind') == 'IfStmt':
        inner = last['inner']
        if len(inner) < 3:
            return False
        return returns(flat(inner[1])) and returns(flat(inner[2]))
    return False


def flat(s):
    if s.get('kind') == 'CompoundStmt':
        return [c for c in s.get('inner', []) if c.get('kind') != 'NullStmt']
    return [s]


def tr(cx, stmts, env, ret_bool, ind):
    """translate a statement list with the given continuation-free tail; returns Lean term lines"""
    pad = '  ' * ind
    if not stmts:
        return [pad + ('(σ, true)' if ret_bool else 'σ')]
    s, rest = stmts[0], stmts[1:]
    k = s.get('kind')
    if k == 'NullStmt':
        return tr(cx, rest, env, ret_bool, ind)
    if k == 'CompoundStmt':
        return tr(cx, flat(s) + rest, env, ret_bool, ind)
    if k == 'ReturnStmt':
        if ret_bool:
            v = strip(s['inner'][0])
            if v.get('kind') == 'IntegerLiteral':
                return [pad + '(σ, %s)' % ('true' if v['value'] != '0' else 'false')]
            if v.get('kind') == 'CallExpr':
                return call_stmt(cx, v, [], env, ret_bool, ind, tail=True)
            raise T.TranslateError('%s: unsupported return value' % cx.fname)
        return [pad + 'σ']
    if k == 'DeclStmt':
        out = []
        env = dict(env)
        for v in s.get('inner', []):
            if v.get('kind') != 'VarDecl':
                raise T.TranslateError('%s: unsupported declaration' % cx.fname)
            name = v['name']; ty = v['type'].get('qualType', '')
            init = [c for c in v.get('inner', [])]
            if MASK_T in ty:
                if init:
                    raise T.TranslateError('%s: mask with initialiser' % cx.fname)
                env[name] = 'mUninit'
            elif init and strip(init[0]).get('kind') == 'CallExpr' and strip(strip(init[0])['inner'][0])['referencedDecl']['name'] == '_mi_os_purge':
                c = strip(init[0]); a = c['inner'][1:]
                nr = cx.param('needsRecommit_%d' % (len([p for p in cx.params if p[0].startswith('needsRecommit')]) + 1), 'Bool')
                gone = cx.param('osGone_%d' % (len([p for p in cx.params if p[0].startswith('osGone')]) + 1), 'Bool')
                lv = cx.fresh(name)
                out.append(pad + 'let r := osPurge σ %s %s %s %s' % (expr(cx, a[0], env), expr(cx, a[1], env), nr, gone))
                out.append(pad + 'let σ := r.1')
                out.append(pad + 'let %s := r.2' % lv)
                env[name] = lv; env['#bool:' + name] = True
            elif init:
                lv = cx.fresh(name)
                out.append(pad + 'let %s := %s' % (lv, expr(cx, init[0], env)))
                env[name] = lv
            else:
                env[name] = '(0 : Int)'
        return out + tr(cx, rest, env, ret_bool, ind)
    if k == 'IfStmt':
        inner = s['inner']
        c = cond(cx, inner[0], env)
        then = flat(inner[1]); els = flat(inner[2]) if len(inner) > 2 else []
        t_lines = tr(cx, then + ([] if returns(then) else rest), env, ret_bool, ind + 1)
        e_lines = tr(cx, els + ([] if (els and returns(els)) else rest), env, ret_bool, ind + 1)
        return [pad + 'if %s then' % c] + t_lines + [pad + 'else'] + e_lines
    if k == 'CallExpr':
        return call_stmt(cx, s, rest, env, ret_bool, ind)
    if k in ('BinaryOperator', 'CompoundAssignOperator') and s['opcode'] in ('=', '+='):
        lhs = strip(s['inner'][0])
        if lhs.get('kind') == 'MemberExpr' and lhs.get('name') == 'purge_expire':
            rhs = expr(cx, s['inner'][1], env)
            if s['opcode'] == '+=':
                rhs = '(σ.expire + %s)' % rhs
            return [pad + 'let σ := { σ with expire := %s }' % rhs] + tr(cx, rest, env, ret_bool, ind)
    raise T.TranslateError('%s: unsupported statement %s' % (cx.fname, k))


def call_stmt(cx, s, rest, env, ret_bool, ind, tail=False):
    pad = '  ' * ind
    callee = strip(s['inner'][0])['referencedDecl']['name']
    args = s['inner'][1:]
    if callee in DROP_CALLS:
        return tr(cx, rest, env, ret_bool, ind)
    env = dict(env)
    if callee == 'mi_segment_commit_mask':
        # (segment, conservative, p, size, &start, &full_size, &mask)
        cons = strip(args[1]); cv = '1' if (cons.get('kind') == 'IntegerLiteral' and cons['value'] != '0') else '0'
        outs = [strip(strip(a)['inner'][0])['referencedDecl']['name'] for a in args[4:7]]
        r = cx.fresh('rng')
        lines = [pad + 'let %s := commitMask σ %s %s %s' % (r, cv, expr(cx, args[2], env), expr(cx, args[3], env))]
        names = [cx.fresh(o) for o in outs]
        lines += [pad + 'let %s := %s.1' % (names[0], r), pad + 'let %s := %s.2.1' % (names[1], r), pad + 'let %s := %s.2.2' % (names[2], r)]
        for o, n in zip(outs, names):
            env[o] = n
        return lines + tr(cx, rest, env, ret_bool, ind)
    if callee == 'mi_commit_mask_create_intersect':
        k, n = mask_lvalue(cx, args[2], env)
        v = '(mInter %s %s)' % (mask_value(cx, args[0], env), mask_value(cx, args[1], env))
        return assign_mask(cx, k, n, v, rest, env, ret_bool, ind)
    if callee in ('mi_commit_mask_set', 'mi_commit_mask_clear'):
        k, n = mask_lvalue(cx, args[0], env)
        op = 'mUnion' if callee.endswith('_set') else 'mDiff'
        v = '(%s %s %s)' % (op, mask_value(cx, args[0], env), mask_value(cx, args[1], env))
        return assign_mask(cx, k, n, v, rest, env, ret_bool, ind)
    if callee in FUNCS:
        # call of another translated function: its extra parameters become ours (suffix keeps call sites apart)
        sub = cx.sub[callee]
        extra = []
        for pn, pt in sub:
            extra.append(cx.param(pn + '_c', pt))
        a = ' '.join([expr(cx, x, env) for x in args[1:]] + extra)
        if callee in cx.bool_fns:
            if tail:
                return [pad + '%s σ %s' % (callee, a)]
            return [pad + 'let σ := (%s σ %s).1' % (callee, a)] + tr(cx, rest, env, ret_bool, ind)
        return [pad + 'let σ := %s σ %s' % (callee, a)] + tr(cx, rest, env, ret_bool, ind)
    if callee == 'mi_segment_try_purge':
        f = cx.param('tryPurge', 'SegSt → SegSt')
        return [pad + 'let σ := %s σ' % f] + tr(cx, rest, env, ret_bool, ind)
    raise T.TranslateError('%s: unsupported call %s' % (cx.fname, callee))


def assign_mask(cx, k, n, v, rest, env, ret_bool, ind):
    pad = '  ' * ind
    if k == 'local':
        lv = cx.fresh(n)
        env = dict(env); env[n] = lv
        return [pad + 'let %s := %s' % (lv, v)] + tr(cx, rest, env, ret_bool, ind)
    return [pad + 'let σ := { σ with %s := %s }' % (n, v)] + tr(cx, rest, env, ret_bool, ind)


def if_os_commit(cx, s, env):
    """`if (!_mi_os_commit(start, full_size, &is_zero)) return false;`"""
    c = strip(s['inner'][0])
    if c.get('kind') == 'UnaryOperator' and c['opcode'] == '!':
        call = strip(c['inner'][0])
        if call.get('kind') == 'CallExpr' and strip(call['inner'][0])['referencedDecl']['name'] == '_mi_os_commit':
            return call
    return None


_tr_plain = tr


def tr(cx, stmts, env, ret_bool, ind):   # noqa: F811  (wrapper that recognises the OS commit call before the generic IfStmt case)
    if stmts and stmts[0].get('kind') == 'IfStmt':
        call = if_os_commit(cx, stmts[0], env)
        if call is not None:
            pad = '  ' * ind
            a = call['inner'][1:]
            ans = cx.param('osOk_%d' % (len([p for p in cx.params if p[0].startswith('osOk')]) + 1), 'Bool')
            then = flat(stmts[0]['inner'][1])
            lines = [pad + 'let r := osCommit σ %s %s %s' % (expr(cx, a[0], env), expr(cx, a[1], env), ans), pad + 'let σ := r.1', pad + 'if (!r.2) then']
            lines += _tr_plain_dispatch(cx, then, env, ret_bool, ind + 1)
            lines += [pad + 'else'] + tr(cx, stmts[1:], env, ret_bool, ind + 1)
            return lines
    return _tr_plain_dispatch(cx, stmts, env, ret_bool, ind)


def _tr_plain_dispatch(cx, stmts, env, ret_bool, ind):
    return _tr_plain(cx, stmts, env, ret_bool, ind)


def translate(tu):
    """returns the Lean source of the group"""
    out = ['-- GENERATED by /verif/extract/masktr.py from %s/src/segment.c (clang AST). DO NOT EDIT.' % tu.repo,
           'import MiVerif.Gen.CommitPrelude', 'set_option linter.unusedVariables false', 'namespace GenC']
    sigs = {}; bool_fns = set()
    order = ['mi_segment_commit', 'mi_segment_ensure_committed', 'mi_segment_purge', 'mi_segment_schedule_purge']
    for fn in order:
        f = tu.FNS.get(fn)
        if f is None:
            raise T.TranslateError('function %s not found' % fn)
        rett = f['type']['qualType'].split('(')[0].strip()
        ret_bool = rett in ('bool', '_Bool')
        if ret_bool:
            bool_fns.add(fn)
        cx = Ctx(tu, fn); cx.sub = sigs; cx.bool_fns = bool_fns
        cx.tu_enum = lambda n: '(%d : Int)' % tu.ENUM[n]
        ps = [c for c in f.get('inner', []) if c.get('kind') == 'ParmVarDecl']
        if ps[0]['name'] != 'segment':
            raise T.TranslateError('%s: first parameter is not the segment' % fn)
        env = {}
        names = []
        for p in ps[1:]:
            env[p['name']] = p['name']; names.append('(%s : Int)' % p['name'])
        body = [c for c in f['inner'] if c.get('kind') == 'CompoundStmt'][0]
        lines = tr(cx, flat(body), env, ret_bool, 1)
        sigs[fn] = list(cx.params)
        extra = ' '.join('(%s : %s)' % (n, t) for n, t in cx.params)
        out.append('def %s (σ : SegSt) %s %s : %s :=' % (fn, ' '.join(names), extra, 'SegSt × Bool' if ret_bool else 'SegSt'))
        out += lines
        out.append('')
    out.append('end GenC')
    return '\n'.join(out) + '\n'
