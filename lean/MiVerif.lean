import MiVerif.Gen.Prelude
import MiVerif.Gen.Arith
