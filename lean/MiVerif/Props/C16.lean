/- C16 — size-class and address arithmetic is sound for every size and address.
   Property theorems only (helper lemmas live in MiVerif/Lemmas).  Every statement is about the
   definitions in MiVerif/Gen/Arith.lean and MiVerif/Gen/Tables.lean, which are regenerated from
   /repo/src on every run. -/
import MiVerif.Gen.Arith
import MiVerif.Gen.Tables
import MiVerif.Lemmas.C16

namespace C16
open Gen

/-- the chosen block size is at least the request (all small and medium sizes) -/
theorem bin_ge (n : Nat) (h : n ≤ MI_MEDIUM_OBJ_SIZE_MAX) : n ≤ _mi_bin_size (mi_bin n) :=
  C16L.bin_ge n h

/-- every larger request (that does not wrap when rounded to words) goes to the huge bin -/
theorem bin_huge (n : Nat) (h : MI_MEDIUM_OBJ_SIZE_MAX < n) (h2 : n < 2^64 - 8) : mi_bin n = MI_BIN_HUGE := by
  rw [C16L.bin_bridge n h2]
  exact C16L.binOfW_huge _ (by unfold MI_MEDIUM_OBJ_SIZE_MAX at h; omega)

/-- size classes are monotone in the request -/
theorem bin_mono (n m : Nat) (h : n ≤ m) (h2 : m < 2^64 - 8) : mi_bin n ≤ mi_bin m := by
  rw [C16L.bin_bridge n (by omega), C16L.bin_bridge m h2]
  exact C16L.binOfW_mono _ _ (by omega)

/-- the block sizes of the bins are strictly increasing up to the huge bin -/
theorem binSize_strictMono (a b : Nat) (ha : 1 ≤ a) (hab : a < b) (hb : b < MI_BIN_HUGE) : _mi_bin_size a < _mi_bin_size b :=
  C16L.binsize_strictMono a b ha hab hb

/-- internal fragmentation is at most 25% above 64 bytes -/
theorem bin_frag (n : Nat) (h64 : 64 < n) (h : n ≤ MI_MEDIUM_OBJ_SIZE_MAX) :
    4 * (_mi_bin_size (mi_bin n) - n) ≤ _mi_bin_size (mi_bin n) :=
  C16L.bin_frag n h64 h

/-- a block size is its own size class: re-requesting the block size chosen for `n` selects the same bin.
    (CORRECTED statement.  The original `∀ b, 1 ≤ b → b < MI_BIN_HUGE → mi_bin (_mi_bin_size b) = b` is false:
    bins 3, 5, 7 are never returned by `mi_bin` (e.g. `mi_bin (_mi_bin_size 3) = mi_bin 24 = 4`), and bins
    49..72 have sizes above MI_MEDIUM_OBJ_SIZE_MAX, which map to the huge bin
    (e.g. `mi_bin (_mi_bin_size 49) = mi_bin 81920 = 73`).) -/
theorem bin_of_binSize (n : Nat) (h : n ≤ MI_MEDIUM_OBJ_SIZE_MAX) : mi_bin (_mi_bin_size (mi_bin n)) = mi_bin n :=
  C16L.bin_idem n h

/-- mi_good_size n ≥ n, for any OS page size that is a power of two ≥ 4 KiB (`ps = 2^k`) -/
theorem good_ge (n k : Nat) (hk : 12 ≤ k) (hk2 : k ≤ 30) (hn : n ≤ 2^63 - 1) :
    n ≤ mi_good_size _mi_bin_size (2^k) n :=
  have _ := hk  -- (the lower bound on the page size is not needed)
  C16L.good_ge n k hk2 hn

/-- mi_good_size is idempotent -/
theorem good_idem (n k : Nat) (hk : 12 ≤ k) (hk2 : k ≤ 30) (hn : n ≤ 2^63 - 1) :
    mi_good_size _mi_bin_size (2^k) (mi_good_size _mi_bin_size (2^k) n) = mi_good_size _mi_bin_size (2^k) n :=
  have _ := hk  -- (the lower bound on the page size is not needed)
  C16L.good_idem n k hk2 hn

/-- interior pointer → block start, for every block size (power of two: shift path; otherwise modulo path),
    every block index and every interior offset.  `shift` is what `mi_page_init` stores: log2 of a power-of-two
    block size, 0 otherwise. -/
theorem unalign_correct (start bsize shift page i o : Nat)
    (hb : 0 < bsize) (ho : o < bsize) (hfit : start + (i + 1) * bsize < 2^63)
    (hshift : (shift ≠ 0 → bsize = 2^shift ∧ shift < 64)) :
    _mi_page_ptr_unalign start shift bsize page (start + i * bsize + o) = start + i * bsize := by
  have _ := hb  -- (implied by `ho`)
  have hfit' : start + (i * bsize + o) < 2^63 := by
    rw [Nat.succ_mul] at hfit; omega
  have hmod : (i * bsize + o) % bsize = o := by
    rw [Nat.mul_add_mod_self_right]; exact Nat.mod_eq_of_lt ho
  rw [Nat.add_assoc, C16L.unalign_eq start bsize shift page (i * bsize + o) hfit' hshift, hmod]
  omega

/-- pointer → segment: every address in (S, S + SEGMENT_SIZE] maps to the segment base S -/
theorem ptr_segment_correct (S p : Nat) (hal : S % MI_SEGMENT_SIZE = 0) (h0 : 0 < S) (hS : S + MI_SEGMENT_SIZE ≤ 2^63)
    (h1 : S < p) (h2 : p ≤ S + MI_SEGMENT_SIZE) : _mi_ptr_segment p = S :=
  C16L.ptr_segment_eq S p hal h0 hS h1 h2

/-- the heap walk's fast division is exact division on its whole domain -/
theorem fast_divide_correct (d n : Nat) (hd : 0 < d) (hd2 : d < 2^32) (hn : n < 2^32) :
    mi_fast_divide n (mi_get_fast_divisor d 1 1).1 (mi_get_fast_divisor d 1 1).2 = n / d := by
  rw [C16L.fast_divisor_gen d hd hd2]
  exact (C16L.fast_divide_gen n d hd hn).trans (C16L.fdiv_correct n d hd hn)

/-- span bins: a span of `c` slices is filed under a bin whose nominal count is ≥ c, the bin index is in range -/
theorem slice_bin_ok (c : Nat) (hc : c ≤ MI_SLICES_PER_SEGMENT) :
    mi_slice_bin c ≤ MI_SEGMENT_BIN_MAX ∧ c ≤ spanQueueTable.getD (mi_slice_bin c) 0 :=
  C16L.slice_bin_ok c hc

/-- span bins are monotone in the slice count -/
theorem slice_bin_mono (a b : Nat) (h : a ≤ b) (hb : b ≤ MI_SLICES_PER_SEGMENT) : mi_slice_bin a ≤ mi_slice_bin b :=
  C16L.slice_bin_mono a b h (by unfold MI_SLICES_PER_SEGMENT at hb; omega)

/-- align-up law (power of two and general alignments) -/
theorem align_up_spec (sz a : Nat) (ha : 0 < a) (h : sz + a < 2^64) :
    sz ≤ _mi_align_up sz a ∧ _mi_align_up sz a < sz + a ∧ _mi_align_up sz a % a = 0 := by
  rw [C16L.align_up_eq sz a ha h]
  obtain ⟨b1, b2⟩ := C16L.div_mul_bounds (sz + a - 1) a ha
  exact ⟨by omega, by omega, Nat.mul_mod_left _ _⟩

/-- align-down law -/
theorem align_down_spec (sz a : Nat) (ha : 0 < a) (h : sz < 2^64) (ha2 : a < 2^64) :
    _mi_align_down sz a ≤ sz ∧ sz < _mi_align_down sz a + a ∧ _mi_align_down sz a % a = 0 := by
  rw [C16L.align_down_eq sz a ha h ha2]
  obtain ⟨b1, b2⟩ := C16L.div_mul_bounds sz a ha
  exact ⟨b1, b2, Nat.mul_mod_left _ _⟩

/-- divide-up law -/
theorem divide_up_spec (sz d : Nat) (hd : 0 < d) (h : sz + d < 2^64) : _mi_divide_up sz d = (sz + d - 1) / d :=
  C16L.divide_up_eq sz d hd h

/-- the overflow-detecting multiply reports overflow exactly when the mathematical product does not fit -/
theorem count_size_overflow_iff (c s t : Nat) (hc : c < 2^64) (hs : s < 2^64) :
    ((mi_count_size_overflow c s t).1 = 1 ↔ 2^64 ≤ c * s) ∧
    ((mi_count_size_overflow c s t).1 = 0 ∨ (mi_count_size_overflow c s t).1 = 1) ∧
    ((mi_count_size_overflow c s t).1 = 0 → (mi_count_size_overflow c s t).2 = c * s) :=
  C16L.count_size c s t hc hs

/-- non-vacuity: concrete instances of the hypotheses above -/
example : (100 : Nat) ≤ MI_MEDIUM_OBJ_SIZE_MAX ∧ mi_bin 100 = 11 ∧ _mi_bin_size 11 = 112 := by decide
example : _mi_page_ptr_unalign 65536 0 48 0 (65536 + 3 * 48 + 17) = 65536 + 3 * 48 := by decide

end C16
