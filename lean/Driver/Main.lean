import Driver.TrVal

def main (args : List String) : IO UInt32 := do
  let stdin ← IO.getStdin
  match args with
  | ["trval"] => TrVal.main stdin
  | _ => do IO.eprintln "usage: midriver <trval|...>"; return 2
