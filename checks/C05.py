"""C05 — re-allocation preserves contents and releases the old block exactly once (T1 over the regenerated entry-point layer + real-allocator oracle)."""
import os
import vcommon as V

TRUSTED = ['Lean 4 kernel', 'translator extract/translate.py (entry-point layer with allocator oracles and effect log), validated against decisions of the real entry points on every run',
           'oracle calls are modelled as pure functions of their arguments (each translated entry point calls an allocator oracle at most once per path)',
           'harness/entry.c (what the generated wrappers are compared with; the implementation-side oracle)']

def entry_harness(chk, d, want=('E', 'R')):
    ok, exe, log = V.build_driver()
    if not ok:
        chk.broken_tie('lean driver does not build (generated signatures changed?)', log[-1500:]); return None
    h = os.path.join(d, 'entry')
    ok, log = V.cc_harness(os.path.join(V.HARNESS, 'entry.c'), h, flags=list(V.RELEASE) + ['-DVERIF_STATIC_C="%s/src/static.c"' % V.REPO])
    if not ok:
        chk.broken_tie('entry harness does not compile against the current tree', log[-1500:]); return None
    limit = 1800 if chk.tier == "thorough" else 180      # a normal run takes 5 - 10 s (quick)
    rc, out, err = V.run([h, str(chk.seed), '1' if chk.tier == 'thorough' else '0'], timeout=limit)
    if rc != 0 or 'DONE' not in out:
        last = [l for l in out.splitlines() if l][-1:] or ['']
        what = 'did not finish within %d s (an entry point hangs)' % limit if rc == 124 else 'crashed (exit %d)' % rc
        chk.violation('%s/entry-crash' % chk.pid, 'entry-point harness %s after: %s %s' % (what, last[0], err[-200:].replace('\n', ' ')),
                      {'cmd': 'harness/entry %d' % chk.seed, 'last_line': last[0]})
        return None
    rc2, out2, err2 = V.run([exe, 'entry'], input=out, timeout=900)
    summary = [l for l in out2.splitlines() if l.startswith('entryval cases')]
    diffs = [l for l in out2.splitlines() if l.startswith('DIFF') or l.startswith('UNPARSED')]
    if summary:
        n = int(summary[0].split()[2]); chk.count(n); chk.extra['wrapper_validation_cases'] = n
    if rc2 != 0 or diffs or not summary:
        chk.broken_tie('entry-point validation: generated wrappers and real entry points decide differently', '\n'.join(diffs[:10]) or (out2[-400:] + err2[-400:]))
    chk.log('entry validation: %s' % (summary[0] if summary else 'no summary'))
    return out

def run(chk):
    chk.trusted = TRUSTED
    chk.assumptions = ['release configuration of src/static.c', 'the operating system grants the moderate requests of the well-formed section (no fault injection here; see C07)',
                       'mi_new_n / mi_new_reallocn abort or throw on overflow by their C++ contract and are not "returns NULL" entry points']
    chk.extra['rule'] = ('obligations = theorems of Props/C05.lean over the regenerated entry-point layer (for every allocator oracle); evaluations = decisions of the real '
                         'entry points compared with the generated wrappers + calls checked by the real-allocator oracle; distinct = distinct (entry point, argument tuple) lines')
    chk.lean('MiVerif.Props.C05', groups=['Entry', 'Tables'])
    with V.Scratch() as d:
        out = entry_harness(chk, d)
        if out is None:
            return
        keys = set()
        for l in out.splitlines():
            p = l.split()
            if not p:
                continue
            if p[0] == 'FAIL':
                key = p[1]
                prop_of = {'realloc_content': 'C05', 'realloc_block_count': 'C05', 'expand_moved': 'C05', 'expand_ok_iff': 'C05', 'realloc_lost_alignment': 'C05'}
                if prop_of.get(key, 'C06') == chk.pid or key in ('usable_lt_size', 'misaligned', 'neighbour_corrupted'):
                    chk.violation('%s/%s' % (chk.pid, key), 'real allocator violates %s: %s' % (key, ' '.join(p[2:])), {'statement': key, 'input': ' '.join(p[2:]), 'how_to_run': 'harness/entry.c, seed %d' % chk.seed})
            elif p[0] == 'STAT':
                chk.extra['oracle_' + p[1]] = int(p[2]); 
                if p[1] == 'evaluations': chk.count(int(p[2]))
            elif p[0] in ('E', 'R'):
                keys.add(l)
        chk.cov['distinct_nontrivial'] = len(keys)
        for l in sorted(keys)[::max(1, len(keys) // 5)][:6]:
            chk.sample(l)
        # growth chains of the zeroing re-allocation family with fully used old blocks (exact size classes): contents of the old block must survive
        h = os.path.join(d, 'c04')
        ok, log = V.cc_harness(os.path.join(V.HARNESS, 'c04.c'), h, flags=list(V.RELEASE) + ['-DVERIF_STATIC_C="%s/src/static.c"' % V.REPO])
        if not ok:
            chk.broken_tie('growth-chain harness does not compile against the current tree', log[-1500:]); return
        jobs = [([h, str(sd), '0', '0'], None, 400) for sd in range(chk.seed, chk.seed + (4 if chk.tier == 'thorough' else 1))]
        for (cmd, _, _), (rc, out, err) in zip(jobs, V.pmap(jobs)):
            args = {'cmd': 'harness/c04 ' + ' '.join(cmd[1:]), 'how_to_run': 'gcc -DNDEBUG -DMI_BUILD_RELEASE -I/repo/include -DVERIF_STATIC_C=\\"/repo/src/static.c\\" harness/c04.c -lpthread; ./a.out ' + ' '.join(cmd[1:])}
            if rc != 0 or 'DONE' not in out:
                chk.violation('C05/growth-chain-crash', 'allocator crashed in the growth-chain workload: %s' % (err or out)[-300:].replace('\n', ' '), args); continue
            for l in out.splitlines():
                q = l.split()
                if q and q[0] == 'FAIL' and q[1] in ('rezalloc_lost_contents', 'rezalloc_lost_alignment', 'rezalloc_failed'):
                    chk.violation('C05/' + q[1], ' '.join(q[2:])[:400], args); break
                if q and q[0] == 'STAT' and q[1] == 'chain_steps':
                    chk.count(int(q[2])); chk.extra['growth_chain_steps'] = chk.extra.get('growth_chain_steps', 0) + int(q[2])
