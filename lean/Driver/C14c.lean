import MiVerif.Model.BitmapCExec
/- trace validator for C14 (concurrent side): the log of every atomic operation on the arena's blocks_inuse fields, recorded from the
   hooked allocator under the deterministic scheduler, must be an execution of the proved bitmap-claim model (`BitmapC.exec`, proved sound) -/
namespace C14cVal
open BitmapC

def hexNat (s : String) : Nat := s.toList.foldl (fun a c => a * 16 + (if '0' ≤ c ∧ c ≤ '9' then c.toNat - 48 else if 'a' ≤ c ∧ c ≤ 'f' then c.toNat - 87 else 0)) 0

structure V where
  st : St
  thr : List (Nat × Own)        -- the run each thread is working on
  pend : List (Nat × Nat × Nat) -- pending free request (thread, idx, n)

def V.runOf (v : V) (t : Nat) : Option Own := (v.thr.find? (·.1 == t)).map (·.2)
def V.setRun (v : V) (t : Nat) (o : Option Own) : V :=
  let rest := v.thr.filter (·.1 != t)
  { v with thr := match o with | some o => (t, o) :: rest | none => rest }

def lowBit (m : Nat) : Nat := ((List.range 64).find? (fun j => m.testBit j)).getD 64
def highBit (m : Nat) : Nat := (((List.range 64).reverse).find? (fun j => m.testBit j)).getD 0
def contiguous (m : Nat) : Bool := m != 0 && (List.range 64).all (fun j => m.testBit j == (lowBit m ≤ j && j ≤ highBit m))
def fieldMatches (s : St) (f val : Nat) : Bool := (List.range 64).all (fun j => s.bits (64 * f + j) == val.testBit j)

def step! (v : V) (l : Lbl) : Except String V :=
  match exec v.st l with
  | some s => .ok { v with st := s }
  | none => .error "the operation is not enabled in the model (a bit that is owned by another claim, a run that is not the thread's, or a wrong phase)"

/-- make sure the thread's run is in the roll-back phase -/
def toRollback (v : V) (t : Nat) (o : Own) : Except String (V × Own) :=
  if o.kind == 2 then .ok (v, o)
  else if o.kind == 1 then do
    let v ← step! v (.fail o)
    let o' : Own := ⟨o.a, o.b, 2⟩
    .ok (v.setRun t (some o'), o')
  else .error "roll-back by a thread whose run is neither being claimed nor rolled back"

def onCas (v : V) (t f old new : Nat) : Except String V := do
  if !fieldMatches v.st f old then throw s!"the field value the CAS expected differs from the model's bits of field {f}"
  let set := new &&& (old ^^^ new)
  let clr := old &&& (old ^^^ new)
  if set == 0 && clr == 0 then return v
  if set != 0 && clr != 0 then throw "a CAS both set and cleared bits"
  if set != 0 then
    if !contiguous set then throw "a CAS set a non-contiguous group of bits"
    let lo := 64 * f + lowBit set; let hi := 64 * f + highBit set + 1
    let (v, o) ← match v.runOf t with
      | some o => pure (v, o)
      | none => do let v ← step! v (.start lo); pure (v.setRun t (some ⟨lo, lo, 1⟩), (⟨lo, lo, 1⟩ : Own))
    if o.b != lo then throw s!"claimed chunk [{lo},{hi}) does not continue the thread's run [{o.a},{o.b})"
    let v ← step! v (.claimTop o hi)
    let v := v.setRun t (some ⟨o.a, hi, 1⟩)
    if !fieldMatches v.st f new then throw "bits after the CAS differ from the model"
    return v
  else
    match v.runOf t with
    | none => throw "a CAS cleared bits although the thread owns no run"
    | some o =>
      let (v, o) ← toRollback v t o
      let lo := 64 * f + lowBit clr; let hi := 64 * f + highBit clr + 1
      if !(contiguous clr && lo == o.a && hi == o.b) then throw s!"roll-back CAS cleared [{lo},{hi}) but the thread's remaining run is [{o.a},{o.b})"
      let v ← step! v (.casClear o)
      let v := v.setRun t none
      if !fieldMatches v.st f new then throw "bits after the roll-back CAS differ from the model"
      return v

def onStore (v : V) (t f val : Nat) : Except String V := do
  if val != 0 then throw "a plain store of a non-zero value to an in-use field"
  match v.runOf t with
  | none => throw "a plain store to an in-use field by a thread that owns no run"
  | some o =>
    let (v, o) ← toRollback v t o
    let v ← step! v (.storeZero o f)
    return v.setRun t (some ⟨o.a, 64 * f, 2⟩)

def onAnd (v : V) (t f old operand : Nat) : Except String V := do
  if !fieldMatches v.st f old then throw s!"the value the fetch-and saw differs from the model's bits of field {f}"
  let clr := old &&& (old ^^^ (old &&& operand))
  let want := (2 ^ 64 - 1) ^^^ (operand &&& (2 ^ 64 - 1))     -- the bits the operation tries to clear
  let (v, o) ← match v.runOf t with
    | some o => pure (v, o)
    | none =>
      match v.pend.find? (·.1 == t) with
      | some (_, idx, n) => do
        let o : Own := ⟨idx, idx + n, 0⟩
        let v ← step! v (.freeStart o)
        pure (v.setRun t (some ⟨idx, idx + n, 3⟩), (⟨idx, idx + n, 3⟩ : Own))
      | none => throw "a fetch-and on an in-use field outside a free"
  if o.kind != 3 then throw "a fetch-and by a thread that is not freeing"
  if want == 0 then return v
  let lo := 64 * f + lowBit want; let hi := 64 * f + highBit want + 1
  if !(contiguous want && lo == o.a && hi ≤ o.b) then throw s!"the free clears [{lo},{hi}) which is not the bottom of the thread's run [{o.a},{o.b})"
  if clr != want then throw "the free cleared bits that were not all set (double free or foreign bits)"
  let v ← step! v (.freeChunk o hi)
  let v := v.setRun t (if hi == o.b then none else some ⟨hi, o.b, 3⟩)
  if !fieldMatches v.st f (old &&& operand) then throw "bits after the fetch-and differ from the model"
  return v

def onClaimEnd (v : V) (t n : Nat) (res : Option Nat) : Except String V := do
  match res, v.runOf t with
  | some idx, some o =>
    if !(o.a == idx && o.b == idx + n && o.kind == 1) then throw s!"the claim returned blocks [{idx},{idx + n}) but the thread's run is [{o.a},{o.b}) in phase {o.kind}"
    let v ← step! v (.finish o)
    return v.setRun t none
  | some idx, none => throw s!"the claim returned block {idx} but the thread set no bits"
  | none, none => return v
  | none, some o =>
    if o.a != o.b then throw s!"a failed claim left the run [{o.a},{o.b}) behind"
    let (v, o) ← toRollback v t o
    let v ← step! v (.casClear o)
    return v.setRun t none

partial def loop (h : IO.FS.Stream) (v : V) (hdr : String) (dead : Bool) (runs ev bad : Nat) : IO (Nat × Nat × Nat) := do
  let line ← h.getLine
  if line.isEmpty then return (runs, ev, bad)
  let line := line.trimAscii.toString
  let ws := (line.splitOn " ").filter (· ≠ "")
  let fresh : V := { st := { bits := fun _ => false, owns := [] }, thr := [], pend := [] }
  match ws with
  | "RUN" :: _ => loop h fresh line false (runs + 1) ev bad
  | ["INIT", f, val] =>
    -- bits that are permanently claimed (beyond the arena's block count): owned by a completed ghost run each
    let vv := hexNat val
    let owns := (List.range 64).filterMap (fun j => if vv.testBit j then some (⟨64 * f.toNat! + j, 64 * f.toNat! + j + 1, 0⟩ : Own) else none)
    let st : St := { bits := fun i => if i / 64 == f.toNat! then vv.testBit (i % 64) else v.st.bits i, owns := owns ++ v.st.owns }
    loop h { v with st := st } hdr dead runs ev bad
  | "T" :: t :: rest =>
    if dead then loop h v hdr dead runs ev bad else
    let t := t.toNat!
    let r : Except String V :=
      match rest with
      | ["B", "claim", _] => .ok v
      | ["X", "claim", n, idx] => onClaimEnd v t n.toNat! (if idx == "-1" then none else some idx.toNat!)
      | ["B", "free", idx, n] => .ok { v with pend := (t, idx.toNat!, n.toNat!) :: v.pend.filter (·.1 != t) }
      | ["X", "free"] => if (v.runOf t).isSome then .error "the free returned with bits of its run still set" else .ok { v with pend := v.pend.filter (·.1 != t) }
      | ["C", f, old, new, ok] => if ok == "1" then onCas v t f.toNat! (hexNat old) (hexNat new) else .ok v
      | ["S", f, val] => onStore v t f.toNat! (hexNat val)
      | ["A", f, old, operand] => onAnd v t f.toNat! (hexNat old) (hexNat operand)
      | _ => .ok v
    match r with
    | .ok v' => loop h v' hdr dead runs (ev + 1) bad
    | .error msg =>
      if bad < 10 then IO.println s!"DIFF {hdr} || event '{line}': {msg}"
      loop h v hdr true runs ev (bad + 1)
  | _ => loop h v hdr dead runs ev bad

def main (stdin : IO.FS.Stream) : IO UInt32 := do
  let (runs, ev, bad) ← loop stdin { st := { bits := fun _ => false, owns := [] }, thr := [], pend := [] } "" false 0 0 0
  IO.println s!"c14cval runs {runs} events {ev} rejected {bad}"
  return (if bad == 0 then 0 else 1)
end C14cVal
