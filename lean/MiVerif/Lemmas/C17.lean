/- helper lemmas for Props/C17: bridge from the generated secure-mode functions to the encode/decode law -/
import MiVerif.Gen.Secure
import MiVerif.Lemmas.PtrEncode

namespace C17L
open GenS PtrEnc

theorem gen_rotl (x s : Nat) : mi_rotl x s = rotl x s := by
  unfold mi_rotl rotl
  have hs : s % 64 < 64 := Nat.mod_lt _ (by decide)
  have e : (64 + 18446744073709551616 - s % 64) % 18446744073709551616 = 64 - s % 64 := by omega
  simp only [e]

theorem gen_rotr (x s : Nat) : mi_rotr x s = rotr x s := by
  unfold mi_rotr rotr
  have hs : s % 64 < 64 := Nat.mod_lt _ (by decide)
  have e : (64 + 18446744073709551616 - s % 64) % 18446744073709551616 = 64 - s % 64 := by omega
  simp only [e]

theorem gen_enc (k1 k0 null p a : Nat) : mi_ptr_encode k1 k0 null p a = enc null p k0 k1 := by
  unfold mi_ptr_encode enc; simp only [gen_rotl]

theorem gen_dec (k0 k1 null x a : Nat) : mi_ptr_decode k0 k1 null x a = dec null x k0 k1 := by
  unfold mi_ptr_decode dec; simp only [gen_rotr]

theorem decode_encode (null p k0 k1 a b : Nat) (hn : null < 2^64) (hp : p < 2^64) (h0 : k0 < 2^64) (h1 : k1 < 2^64) :
    mi_ptr_decode k0 k1 null (mi_ptr_encode k1 k0 null p a) b = if p = 0 ∨ p = null then 0 else p := by
  rw [gen_enc, gen_dec]; exact dec_enc null p k0 k1 hn hp h0 h1

/-- a link that is not the page address itself decodes to itself -/
theorem decode_encode_link (page next k0 k1 a b : Nat) (hpg : page < 2^64) (hnx : next < 2^64)
    (h0 : k0 < 2^64) (h1 : k1 < 2^64) (hne : next ≠ page) :
    mi_ptr_decode k0 k1 page (mi_ptr_encode k1 k0 page next a) b = next := by
  rw [decode_encode page next k0 k1 a b hpg hnx h0 h1]
  by_cases h : next = 0
  · simp [h]
  · simp [h, hne]

theorem and7_of_mod8 (n : Nat) (h : n % 8 = 0) : n &&& 7 = 0 := by
  have := Nat.and_two_pow_sub_one_eq_mod n 3
  simpa [h] using this

theorem and_ffffff00_mod_256 (x : Nat) : (x &&& 4294967040) % 256 = 0 := by
  have e := Nat.and_two_pow_sub_one_eq_mod (x &&& 4294967040) 8
  have e' : (x &&& 4294967040) % 256 = (x &&& 4294967040) &&& 255 := by simpa using e.symm
  rw [e', Nat.and_assoc]
  have : (4294967040 : Nat) &&& 255 = 0 := by decide
  rw [this, Nat.and_zero]

end C17L
