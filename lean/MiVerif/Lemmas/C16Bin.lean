/- helper lemmas for Props/C16: size classes (mi_bin / _mi_bin_size) and span bins (mi_slice_bin) -/
import MiVerif.Lemmas.C16Basic

namespace C16L
open Gen

/-! ### specification of `mi_bin` on word sizes -/

def binOfW (w : Nat) : Nat :=
  if w ≤ 8 then (if w ≤ 1 then 1 else (w + 1) / 2 * 2)
  else if w > 8192 then 73
  else 4 * Nat.log2 (w - 1) + (w - 1) / 2 ^ (Nat.log2 (w - 1) - 2) % 4 - 3

theorem log2_range (v lo hi : Nat) (hv : v ≠ 0) (h1 : 2^lo ≤ v) (h2 : v < 2^(hi+1)) :
    lo ≤ Nat.log2 v ∧ Nat.log2 v ≤ hi := by
  constructor
  · exact (Nat.le_log2 hv).mpr h1
  · have := (Nat.log2_lt hv).mpr h2
    omega

theorem bin_bridge (n : Nat) (h : n < 2^64 - 8) : mi_bin n = binOfW ((n + 7) / 8) := by
  unfold mi_bin binOfW
  rw [wsize_eq n h]
  generalize hw : (n + 7) / 8 = w
  have hwlt : w < 2^61 := by omega
  simp only []
  split
  · split
    · rfl
    · rw [Nat.mod_eq_of_lt (by omega), land_even _ (by omega)]
  · split
    · rfl
    · rename_i h8 h9
      have e1 : (w + 18446744073709551616 - 1) % 18446744073709551616 = w - 1 := by omega
      have hv : w - 1 ≠ 0 := by omega
      rw [e1, bsr_expr (w - 1) hv (by omega)]
      obtain ⟨hb3, hb12⟩ := log2_range (w - 1) 3 12 hv (by omega) (by omega)
      generalize Nat.log2 (w - 1) = b at *
      have e2 : (b + 18446744073709551616 - 2) % 18446744073709551616 = b - 2 := by omega
      rw [e2, land_3]
      have : (w - 1) / 2 ^ (b - 2) % 4 < 4 := Nat.mod_lt _ (by omega)
      omega

/-- shape of the bin of a medium word size -/
theorem binOfW_mid (w : Nat) (h9 : 9 ≤ w) (h : w ≤ 8192) :
    ∃ b q, 3 ≤ b ∧ b ≤ 12 ∧ q < 4 ∧ binOfW w = 4 * b + q - 3 ∧ 2^b ≤ w - 1 ∧ w - 1 < 2^(b+1) ∧
      (4 + q) * 2^(b-2) ≤ w - 1 ∧ w - 1 < (5 + q) * 2^(b-2) := by
  have hv : w - 1 ≠ 0 := by omega
  obtain ⟨hb3, hb12⟩ := log2_range (w - 1) 3 12 hv (by omega) (by omega)
  obtain ⟨hlo, hhi⟩ := log2_bounds hv (rfl : Nat.log2 (w - 1) = _)
  obtain ⟨hq1, hq2⟩ := quad_char (w - 1) _ hv rfl (by omega)
  refine ⟨Nat.log2 (w - 1), (w - 1) / 2 ^ (Nat.log2 (w - 1) - 2) % 4, hb3, hb12, Nat.mod_lt _ (by omega), ?_, hlo, hhi, hq1, hq2⟩
  unfold binOfW
  have c1 : ¬ w ≤ 8 := by omega
  have c2 : ¬ w > 8192 := by omega
  simp only [if_neg c1, if_neg c2]

theorem binOfW_small (w : Nat) (h : w ≤ 8) : 1 ≤ binOfW w ∧ binOfW w ≤ 8 ∧ w ≤ binOfW w ∧
    (binOfW w = 1 ∨ binOfW w % 2 = 0) := by
  unfold binOfW
  simp only [if_pos h]
  split <;> omega

theorem binOfW_le (w : Nat) : binOfW w ≤ 73 := by
  rcases Nat.lt_or_ge 8192 w with h | h
  · unfold binOfW
    have c1 : ¬ w ≤ 8 := by omega
    simp only [if_neg c1, if_pos h]; omega
  · rcases Nat.lt_or_ge w 9 with h8 | h9
    · have := binOfW_small w (by omega); omega
    · obtain ⟨b, q, _, _, _, e, _⟩ := binOfW_mid w h9 h
      omega

theorem binOfW_huge (w : Nat) (h : 8192 < w) : binOfW w = 73 := by
  unfold binOfW
  have c1 : ¬ w ≤ 8 := by omega
  simp only [if_neg c1, if_pos h]

theorem binOfW_mono (w w' : Nat) (hww : w ≤ w') : binOfW w ≤ binOfW w' := by
  rcases Nat.lt_or_ge 8192 w' with h | h
  · rw [binOfW_huge w' h]; exact binOfW_le w
  · rcases Nat.lt_or_ge w' 9 with h8 | h9
    · -- both small
      unfold binOfW
      have c1 : w ≤ 8 := by omega
      have c2 : w' ≤ 8 := by omega
      simp only [if_pos c1, if_pos c2]
      split <;> split <;> omega
    · obtain ⟨b', q', hb3', hb12', hq', e', hlo', hhi', hX', hY'⟩ := binOfW_mid w' h9 h
      rcases Nat.lt_or_ge w 9 with g8 | g9
      · have := binOfW_small w (by omega); omega
      · obtain ⟨b, q, hb3, hb12, hq, e, hlo, hhi, hX, hY⟩ := binOfW_mid w g9 (by omega)
        rw [e, e']
        rcases Nat.lt_trichotomy b b' with hlt | heq | hgt
        · omega
        · subst heq
          rcases Nat.lt_or_ge q' q with hc | hc
          · have : (5 + q') * 2^(b-2) ≤ (4 + q) * 2^(b-2) := Nat.mul_le_mul_right _ (by omega)
            omega
          · omega
        · have : 2^(b'+1) ≤ 2^b := Nat.pow_le_pow_right (by omega) (by omega)
          omega

/-! ### the size table -/

theorem binsize_formula : ∀ b, b < 13 → ∀ q, q < 4 → 3 ≤ b →
    _mi_bin_size (4 * b + q - 3) = 8 * ((5 + q) * 2^(b-2)) := by decide

theorem binsize_small : ∀ b, b < 9 → 1 ≤ b → _mi_bin_size b = 8 * b := by decide

theorem binsize_step : ∀ a, a < 71 → _mi_bin_size (a + 1) < _mi_bin_size (a + 2) := by decide

theorem binsize_strictMono (a b : Nat) (ha : 1 ≤ a) (hab : a < b) (hb : b < 73) :
    _mi_bin_size a < _mi_bin_size b := by
  induction b with
  | zero => omega
  | succ b ih =>
    have hs : _mi_bin_size b < _mi_bin_size (b + 1) := by
      have := binsize_step (b - 1) (by omega)
      have e1 : b - 1 + 1 = b := by omega
      have e2 : b - 1 + 2 = b + 1 := by omega
      rw [e1, e2] at this; exact this
    rcases Nat.lt_or_ge a b with h | h
    · exact Nat.lt_trans (ih h (by omega)) hs
    · have : a = b := by omega
      subst this; exact hs

/-- every bin actually used by `mi_bin` for small/medium sizes is a fixed point -/
theorem bin_fix : ∀ b, b < 49 → 1 ≤ b → (b = 1 ∨ b % 2 = 0 ∨ 8 < b) → mi_bin (_mi_bin_size b) = b := by
  decide

/-! ### properties on the generated `mi_bin` -/

theorem medium_bridge (n : Nat) (h : n ≤ 65536) : mi_bin n = binOfW ((n + 7) / 8) ∧ (n + 7) / 8 ≤ 8192 :=
  ⟨bin_bridge n (by omega), by omega⟩

theorem bin_ge (n : Nat) (h : n ≤ 65536) : n ≤ _mi_bin_size (mi_bin n) := by
  obtain ⟨e, hw⟩ := medium_bridge n h
  rw [e]
  have hn : n ≤ 8 * ((n + 7) / 8) := by omega
  generalize (n + 7) / 8 = w at *
  rcases Nat.lt_or_ge w 9 with h8 | h9
  · obtain ⟨s1, s2, s3, _⟩ := binOfW_small w (by omega)
    rw [binsize_small _ (by omega) s1]; omega
  · obtain ⟨b, q, hb3, hb12, hq, e, hlo, hhi, hX, hY⟩ := binOfW_mid w h9 hw
    rw [e, binsize_formula b (by omega) q hq hb3]
    omega

theorem bin_frag (n : Nat) (h64 : 64 < n) (h : n ≤ 65536) :
    4 * (_mi_bin_size (mi_bin n) - n) ≤ _mi_bin_size (mi_bin n) := by
  obtain ⟨e, hw⟩ := medium_bridge n h
  rw [e]
  have hn : 8 * ((n + 7) / 8 - 1) < n := by omega
  have h9 : 9 ≤ (n + 7) / 8 := by omega
  generalize (n + 7) / 8 = w at *
  obtain ⟨b, q, hb3, hb12, hq, e, hlo, hhi, hX, hY⟩ := binOfW_mid w h9 hw
  rw [e, binsize_formula b (by omega) q hq hb3]
  have e5 : (5 + q) * 2^(b-2) = (4 + q) * 2^(b-2) + 2^(b-2) := by
    have : 5 + q = (4 + q) + 1 := by omega
    rw [this, Nat.succ_mul]
  have h4 : 4 * 2^(b-2) ≤ (4 + q) * 2^(b-2) := Nat.mul_le_mul_right _ (by omega)
  rw [e5] at hY ⊢
  omega

theorem bin_used (n : Nat) (h : n ≤ 65536) :
    1 ≤ mi_bin n ∧ mi_bin n < 49 ∧ (mi_bin n = 1 ∨ mi_bin n % 2 = 0 ∨ 8 < mi_bin n) := by
  obtain ⟨e, hw⟩ := medium_bridge n h
  rw [e]
  generalize (n + 7) / 8 = w at *
  rcases Nat.lt_or_ge w 9 with h8 | h9
  · have := binOfW_small w (by omega); omega
  · obtain ⟨b, q, hb3, hb12, hq, e, _⟩ := binOfW_mid w h9 hw
    omega

theorem bin_idem (n : Nat) (h : n ≤ 65536) : mi_bin (_mi_bin_size (mi_bin n)) = mi_bin n := by
  obtain ⟨u1, u2, u3⟩ := bin_used n h
  exact bin_fix _ u2 u1 u3

theorem binsize_le_medium (b : Nat) (h1 : 1 ≤ b) (h : b < 49) : _mi_bin_size b ≤ 65536 := by
  rcases Nat.lt_or_ge b 48 with hlt | hge
  · have := binsize_strictMono b 48 h1 hlt (by omega)
    have e : _mi_bin_size 48 = 65536 := by decide
    omega
  · have : b = 48 := by omega
    subst this; decide

end C16L
