// C18: delayed purging under a virtual clock, through the OS shim (harness/oshim.h).
//   mode "model"  : direct drive of the arena / segment purge functions; state after every operation is printed and
//                   replayed by the Lean model (PurgeM) -- correspondence T2a
//   mode "oracle" : API-level workloads; checks the property itself on the real allocator (independent of the model):
//                   freed memory is purged by non-forced activity once the delay has passed, immediately with delay 0,
//                   never with delay -1
#include "oshim.h"
#include VERIF_STATIC_C
static int nfail = 0;
#define FAIL(key, ...) do { if (nfail++ < 30) { printf("FAIL %s ", key); printf(__VA_ARGS__); printf("\n"); } } while (0)
static uint64_t rs = 88172645463325252ULL;
static uint64_t rnd(void) { rs ^= rs << 13; rs ^= rs >> 7; rs ^= rs << 17; return rs; }
static long n_eval = 0;

static int arena_pending(mi_arena_t* a) { if (a->blocks_purge == NULL) return 0; for (size_t i = 0; i < a->field_count; i++) if (mi_atomic_load_relaxed(&a->blocks_purge[i]) != 0) return 1; return 0; }

// ------------------------------------------------------------------ model correspondence
static void model_arena(long purge_delay) {
  mi_option_set(mi_option_arena_reserve, 0);
  mi_option_set(mi_option_purge_delay, purge_delay);
  const long delay = mi_arena_purge_delay();
  mi_arena_id_t aid = 0;
  enum { NB = 6 };
  if (mi_reserve_os_memory_ex((size_t)NB * MI_ARENA_BLOCK_SIZE, true, false, true, &aid) != 0) { printf("SKIP arena reserve failed\n"); return; }
  mi_arena_t* arena = mi_arena_from_index(mi_arena_id_index(aid));
  uintptr_t astart = (uintptr_t)arena->start; size_t asize = arena->block_count * MI_ARENA_BLOCK_SIZE;
  printf("AD %ld\n", delay);
  for (int round = 0; round < 4; round++) {
    void* blk[NB]; mi_memid_t mid[NB]; int held = 0;
    for (int i = 0; i < NB; i++) { blk[held] = _mi_arena_alloc_aligned(MI_ARENA_BLOCK_SIZE, MI_SEGMENT_ALIGN, 0, true, false, aid, &mid[held]); if (blk[held]) { memset(blk[held], 1, 4096); held++; } }
    if (held == 0) { printf("SKIP arena alloc failed\n"); return; }
    int guard = 0;
    while ((held > 0 || arena_pending(arena)) && guard++ < 300) {
      long ev0 = vm_nev;
      int op = (held > 0) ? (int)(rnd() % 3) : 1;
      if (op != 1) {
        int k = (int)(rnd() % held);
        _mi_arena_free(blk[k], MI_ARENA_BLOCK_SIZE, MI_ARENA_BLOCK_SIZE, mid[k]);
        blk[k] = blk[held - 1]; mid[k] = mid[held - 1]; held--;
        printf("A free %lld", verif_now_ms());
      } else {
        _mi_arenas_collect(false);
        printf("A attempt %lld", verif_now_ms());
      }
      printf(" -> %lld %lld %d %d\n", (long long)mi_atomic_loadi64_relaxed(&arena->purge_expire), (long long)mi_atomic_loadi64_relaxed(&mi_arenas_purge_expire),
             arena_pending(arena), vm_purge_events_in(ev0, astart, asize) > 0);
      n_eval++;
      long step = (delay > 0 ? (long)(rnd() % (delay + delay / 2 + 2)) : (long)(rnd() % 5));
      if (rnd() % 3 == 0) step = 0;
      verif_advance_ms(step);
      if (held == 0 && delay <= 0) break;
    }
    verif_advance_ms(1 + (long)(rnd() % 7));
  }
}
static void model_segment(long purge_delay) {
  mi_option_set(mi_option_arena_reserve, 0);
  mi_option_set(mi_option_purge_delay, purge_delay);
  const long extend = mi_option_get(mi_option_purge_extend_delay);
  void* keep = mi_malloc(64);
  mi_segment_t* seg = _mi_ptr_segment(keep);
  // the big free span after the first page
  size_t idx = 0, cnt = 0;
  for (size_t i = seg->segment_info_slices; i < seg->slice_entries; ) { mi_slice_t* s = &seg->slices[i]; size_t c = s->slice_count ? s->slice_count : 1; if (s->block_size == 0 && c > cnt) { idx = i; cnt = c; } i += c; }
  printf("GD %ld %ld\n", purge_delay, extend);
  if (cnt < 64) { printf("SKIP no large free span\n"); return; }
  size_t cur = idx + 1, end = idx + cnt - 1;
  uintptr_t sstart = (uintptr_t)seg;
  while (cur + 4 < end) {
    long ev0 = vm_nev;
    int op = (int)(rnd() % 3);
    if (op != 1) {
      size_t n = 1 + (size_t)(rnd() % 3);
      mi_segment_schedule_purge(seg, (uint8_t*)seg + cur * MI_SEGMENT_SLICE_SIZE, n * MI_SEGMENT_SLICE_SIZE);
      cur += n + 1;
      printf("G sched %lld", verif_now_ms());
    } else {
      mi_segment_try_purge(seg, false);
      printf("G try %lld", verif_now_ms());
    }
    printf(" -> %lld %d %d\n", (long long)seg->purge_expire, !mi_commit_mask_is_empty(&seg->purge_mask), vm_purge_events_in(ev0, sstart, MI_SEGMENT_SIZE) > 0);
    n_eval++;
    long step = (purge_delay > 0 ? (long)(rnd() % (purge_delay + purge_delay / 2 + 2)) : (long)(rnd() % 4));
    if (rnd() % 3 == 0) step = 0;
    verif_advance_ms(step);
  }
  mi_free(keep);
}

// ------------------------------------------------------------------ property oracle
typedef struct { uint8_t* p; size_t n; } blk_t;
static blk_t freed[20000]; static int nfreed = 0;
static mi_segment_t* segs[4096]; static int nsegs = 0;
static bool seg_visit(mi_heap_t* h, mi_page_queue_t* pq, mi_page_t* page, void* a1, void* a2) { (void)h; (void)pq; (void)a1; (void)a2;
  mi_segment_t* s = _mi_page_segment(page); for (int i = 0; i < nsegs; i++) if (segs[i] == s) return true; if (nsegs < 4096) segs[nsegs++] = s; return true; }
static int seg_live(mi_segment_t* s) { for (int i = 0; i < nsegs; i++) if (segs[i] == s) return 1; return 0; }
// segments in which the program freed a page after the expiry (the non-forced purge of a segment runs when a page of
// THAT segment is freed or allocated: mi_segment_page_clear / _mi_segment_page_alloc; mi_collect(false) does not visit segments)
static mi_segment_t* touched[4096]; static long long touched_at[4096]; static int ntouched = 0; static int all_touched = 0;
static int seg_touched(mi_segment_t* s) { if (all_touched) return 1; for (int i = 0; i < ntouched; i++) if (touched[i] == s) return 1; return 0; }
static long long seg_touch_time(mi_segment_t* s) { long long t = -1; for (int i = 0; i < ntouched; i++) if (touched[i] == s && touched_at[i] > t) t = touched_at[i]; return t; }
// all freed memory that lies in a free span of a live segment, or in memory that went back to the arena / OS, must be purged
static void check_purged(const char* when, int expect_seg, int expect_arena, long* seg_pages, long* arena_pages) {
  nsegs = 0; mi_heap_visit_pages(mi_heap_get_default(), &seg_visit, NULL, NULL);
  long bad_seg = 0, bad_arena = 0, tot_seg = 0, tot_arena = 0; uintptr_t ex_seg = 0, ex_arena = 0;
  for (int i = 0; i < nfreed; i++) {
    uint8_t* p = freed[i].p; size_t n = freed[i].n;
    mi_segment_t* s = (mi_segment_t*)((uintptr_t)p & ~(uintptr_t)(MI_SEGMENT_SIZE - 1));
    if (seg_live(s)) {
      // inside a live segment: only whole 64 KiB commit chunks that lie in a free span are expected to be purged
      for (uintptr_t c = _mi_align_up((uintptr_t)p, MI_COMMIT_SIZE); c + MI_COMMIT_SIZE <= (uintptr_t)p + n; c += MI_COMMIT_SIZE) {
        size_t si = (c - (uintptr_t)s) / MI_SEGMENT_SLICE_SIZE;
        if (si >= s->slice_entries) break;
        mi_slice_t* sl = mi_slice_first(&s->slices[si]);
        if (sl->block_size != 0) continue;                        // still (part of) a page
        size_t first = (size_t)(sl - s->slices), cnt = sl->slice_count;
        if (si <= first || si + 1 >= first + cnt) continue;       // conservative: interior chunks of the free span only
        // a purge that was scheduled less than the delay ago is not due yet (the memory was re-used and freed again meanwhile)
        // pending: due only once a page of this segment was freed/allocated at or after the expiry (that is when the
        // non-forced mi_segment_try_purge runs); not pending: must have been purged (delay 0: at once)
        int pending = (int)((s->purge_mask.mask[si / MI_COMMIT_MASK_FIELD_BITS] >> (si % MI_COMMIT_MASK_FIELD_BITS)) & 1);
        if (pending && !all_touched && !(s->purge_expire != 0 && s->purge_expire <= seg_touch_time(s))) continue;
        tot_seg += MI_COMMIT_SIZE / VM_PAGE;
        size_t u = vm_unpurged_pages(c, MI_COMMIT_SIZE); if (u) { bad_seg += (long)u; if (!ex_seg) { ex_seg = c;
          if (getenv("C18_DEBUG")) { printf("DBG seg %p expire %lld now %lld touch %lld pending %d commit_bit %d span first %zu cnt %zu si %zu\n", (void*)s, (long long)s->purge_expire, verif_now_ms(), seg_touch_time(s), pending, (int)((s->commit_mask.mask[si / 64] >> (si % 64)) & 1), first, cnt, si);
            for (long e = 0; e < vm_nev; e++) if (vm_ev[e].addr < c + MI_COMMIT_SIZE && c < vm_ev[e].addr + vm_ev[e].size) printf("DBG   ev kind %d addr %p size %zu arg %d ok %d t %lld\n", vm_ev[e].kind, (void*)vm_ev[e].addr, vm_ev[e].size, vm_ev[e].arg, vm_ev[e].ok, vm_ev[e].t_ns / 1000000); } } }
      }
    } else {
      // the segment is gone: arena block (must be purged) or unmapped (fine)
      size_t lo = _mi_align_up((uintptr_t)p, VM_PAGE), hi = ((uintptr_t)p + n) & ~(uintptr_t)(VM_PAGE - 1);
      if (hi > lo) { tot_arena += (long)((hi - lo) / VM_PAGE); size_t u = vm_unpurged_pages(lo, hi - lo); if (u) { bad_arena += (long)u; if (!ex_arena) ex_arena = lo; } }
    }
  }
  *seg_pages = tot_seg; *arena_pages = tot_arena;
  if (expect_seg && bad_seg > 0) FAIL("segment_memory_not_purged", "%s: %ld of %ld pages of free spans still committed and never purged (e.g. %p)", when, bad_seg, tot_seg, (void*)ex_seg);
  if (expect_arena && bad_arena > 0) FAIL("arena_memory_not_purged", "%s: %ld of %ld pages of freed segments still committed and never purged (e.g. %p)", when, bad_arena, tot_arena, (void*)ex_arena);
  n_eval++;
}
static void activity(void) {   // ordinary allocator use: small and medium blocks come and go, then a non-forced collect
  void* q[64];
  for (int i = 0; i < 64; i++) { q[i] = mi_malloc(16 + (size_t)(rnd() % 3000)); if (q[i]) memset(q[i], 3, 16); }
  for (int i = 0; i < 64; i++) mi_free(q[i]);
  void* m = mi_malloc(70000); mi_free(m);
  mi_collect(false);
}
// staggered frees of whole segments, one every half arena delay: a region freed at time t must have been purged by the first
// arena activity at or after t + delay (the pending expiry is never pushed back by later frees)
static void staggered(long purge_delay, long mult) {
  enum { NS = 12 }; static blk_t b[NS]; long long freed_at[NS]; const long D = purge_delay * mult;
  for (int i = 0; i < NS; i++) { size_t n = (size_t)(18 + i % 8) << 20; b[i].p = (uint8_t*)mi_malloc(n); b[i].n = n; if (b[i].p) memset(b[i].p, 0x5A, n); }
  for (int i = 0; i < NS; i++) {
    if (!b[i].p) continue;
    mi_free(b[i].p); freed_at[i] = verif_now_ms();           // the free schedules the purge and runs the non-forced arena purge
    const long long now = verif_now_ms();
    for (int j = 0; j <= i; j++) { if (!b[j].p || freed_at[j] + D > now) continue;
      size_t lo = _mi_align_up((uintptr_t)b[j].p, VM_PAGE), hi = ((uintptr_t)b[j].p + b[j].n) & ~(uintptr_t)(VM_PAGE - 1);
      if (vm_page_state(lo) < 0) continue;                    // unmapped: given back entirely
      size_t u = vm_unpurged_pages(lo, hi - lo); n_eval++;
      if (u > 0) { FAIL("arena_purge_postponed", "region %d (freed at %lld ms, arena delay %ld ms) still has %zu committed pages at %lld ms although the arena was used (a free) after the expiry", j, freed_at[j], D, u, now); return; } }
    verif_advance_ms(D / 2 + 1);
  }
}
static void oracle(long purge_delay, int decommits, int workload) {
  mi_option_set(mi_option_purge_delay, purge_delay);
  mi_option_set(mi_option_purge_decommits, decommits);
  const long mult = mi_option_get(mi_option_arena_purge_mult);
  const long extend = mi_option_get(mi_option_purge_extend_delay);
  void* warm = mi_malloc(100); (void)warm;
  if (workload == 3) { if (purge_delay > 0) staggered(purge_delay, mult); return; }
  static blk_t live[20000]; int nlive = 0;
  if (workload == 0) {         // free whole pages: medium blocks, keep every 40th so that segments stay alive
    for (int i = 0; i < 2400; i++) { size_t n = 20000 + (size_t)(rnd() % 100000); uint8_t* p = (uint8_t*)mi_malloc(n); if (!p) continue; memset(p, 0x5A, n); live[nlive].p = p; live[nlive].n = n; nlive++; }
  } else if (workload == 1) {  // free whole segments: large blocks, each in its own segment
    for (int i = 0; i < 10; i++) { size_t n = (size_t)(18 + i) << 20; uint8_t* p = (uint8_t*)mi_malloc(n); if (!p) continue; memset(p, 0x5A, n); live[nlive].p = p; live[nlive].n = n; nlive++; }
  } else {                     // free everything: a mix
    for (int i = 0; i < 3000; i++) { size_t n = (i % 50 == 0) ? ((size_t)1 << 20) + (size_t)(rnd() % (3 << 20)) : 16 + (size_t)(rnd() % 40000); uint8_t* p = (uint8_t*)mi_malloc(n); if (!p) continue; memset(p, 0x5A, n); live[nlive].p = p; live[nlive].n = n; nlive++; }
  }
  long ev_start = vm_nev;
  int nsched = 0;
  for (int i = 0; i < nlive; i++) { if (workload == 0 && i % 20 == 0) continue; mi_free(live[i].p); if (nfreed < 20000) freed[nfreed++] = live[i]; nsched++; }
  long sp = 0, ap = 0;
  if (purge_delay == 0) {
    all_touched = 1;
    check_purged("delay 0, right after the frees", 1, 1, &sp, &ap);
  } else if (purge_delay < 0) {
    for (int k = 0; k < 20; k++) { verif_advance_ms(50); activity(); }
    long pe = 0; for (long i = ev_start; i < vm_nev; i++) if (vm_ev[i].ok && (vm_ev[i].kind == VM_MADVISE || (vm_ev[i].kind == VM_MPROTECT && !(vm_ev[i].arg & PROT_WRITE)))) pe++;
    if (pe > 0) FAIL("purged_although_disabled", "purge_delay=-1: %ld purge requests reached the OS", pe);
    n_eval++;
  } else {
    // not before the delay: half-way nothing of the arena may have been purged yet (segment purges start at purge_delay)
    verif_advance_ms(purge_delay / 2);
    activity();
    // well after the segment delay (+ one extend per schedule, generously) but before the arena delay
    verif_advance_ms(purge_delay + (long)nsched * extend + 5);
    activity(); activity();
    if (workload == 0) {   // ordinary activity in the segments themselves: free one more page in every segment that keeps at least two
      for (int i = 0; i < nlive; i += 20) {
        mi_segment_t* sg = _mi_ptr_segment(live[i].p); int others = 0;
        if (live[i].p == NULL || seg_touched(sg)) continue;
        for (int j = 0; j < nlive; j += 20) if (j != i && live[j].p && _mi_ptr_segment(live[j].p) == sg) others++;
        if (others == 0) continue;
        size_t used0 = sg->used; mi_free(live[i].p); live[i].p = NULL;
        if (sg->used < used0 && ntouched < 4096) { touched[ntouched] = sg; touched_at[ntouched++] = verif_now_ms(); }   // a page of this segment was really freed (mi_segment_page_clear ran)
      }
    }
    check_purged("after purge_delay without a forced collect", 1, 0, &sp, &ap);
    verif_advance_ms(purge_delay * mult + 5);
    activity(); verif_advance_ms(purge_delay * mult + 5); activity();
    check_purged("after purge_delay*arena_purge_mult without a forced collect", 1, 1, &sp, &ap);
  }
  printf("STAT seg_pages_checked %ld\nSTAT arena_pages_checked %ld\nSTAT purge_events %ld\n", sp, ap, vm_count_events(ev_start, VM_MADVISE, 1) + vm_count_events(ev_start, VM_MPROTECT, 1));
  printf("STAT segments_touched %d\n", ntouched);
  for (int i = 0; i < nlive; i++) if (workload == 0 && i % 20 == 0 && live[i].p) { for (size_t k = 0; k < live[i].n; k += 997) if (live[i].p[k] != 0x5A) { FAIL("live_block_damaged_by_purge", "block %d offset %zu", i, k); break; } mi_free(live[i].p); }
}

int main(int argc, char** argv) {
  if (argc < 4) { fprintf(stderr, "usage: c18 model <seed> <purge_delay> | c18 oracle <seed> <purge_delay> <decommits> <workload>\n"); return 2; }
  uint64_t seed = strtoull(argv[2], 0, 10); long d = atol(argv[3]);
  rs ^= seed * 0x9E3779B97F4A7C15ULL; if (!rs) rs = 1; for (int i = 0; i < 8; i++) rnd();
  if (strcmp(argv[1], "model") == 0) { if (argc > 4 && atoi(argv[4]) == 1) model_segment(d); else model_arena(d); }
  else oracle(d, argc > 4 ? atoi(argv[4]) : 1, argc > 5 ? atoi(argv[5]) : 0);
  printf("STAT evaluations %ld\nDONE\n", n_eval);
  fflush(stdout);
  return 0;
}
