import MiVerif.Lemmas.C13Range
/- C07 helper: the liberal (commit) direction of the range arithmetic of the regenerated mi_segment_commit_mask -/
namespace C07L
open Gen C13L

theorem down_facts (D : Nat) : D / 65536 * 65536 ≤ D ∧ D < D / 65536 * 65536 + 65536 := by omega
theorem up_facts (x : Nat) : x ≤ (x + 65535) / 65536 * 65536 := by omega
theorem no_info_clip (D info : Nat) : ¬ (D ≥ info * 65536 ∧ D / 65536 * 65536 < info * 65536) := by omega
theorem small_mod (info : Nat) (h : info ≤ 512) : info * 65536 % 18446744073709551616 = info * 65536 := Nat.mod_eq_of_lt (by omega)

/-- what the generated function computes once the wrap-arounds are discharged, in terms of the two rounded offsets -/
def body (seg st E SS : Nat) : Nat × Nat × (Nat × Nat) :=
  ((seg + st) % 18446744073709551616,
    if (if E > SS then SS else E) > st then ((if E > SS then SS else E) + 18446744073709551616 - st) % 18446744073709551616 else 0,
    st / 65536,
    (if (if E > SS then SS else E) > st then ((if E > SS then SS else E) + 18446744073709551616 - st) % 18446744073709551616 else 0) / 65536)

theorem body_spec (seg st E SS D size : Nat) (hseg : seg + 33554432 < 18446744073709551616) (hst1 : st ≤ D) (hen1 : D + size ≤ E) (hin : D + size ≤ SS)
    (hSS : SS ≤ 33554432) (hsz : 0 < size) (h1 : st % 65536 = 0) (h2 : E % 65536 = 0) (h3 : SS % 65536 = 0) :
    ∃ en, D + size ≤ en ∧ en ≤ SS ∧ en % 65536 = 0 ∧ st < en ∧ body seg st E SS = (seg + st, en - st, (st / 65536, (en - st) / 65536)) := by
  unfold body
  by_cases h4 : E > SS
  · refine ⟨SS, hin, Nat.le_refl _, h3, by omega, ?_⟩
    have h5 : SS > st := by omega
    have e9 : (SS + 18446744073709551616 - st) % 18446744073709551616 = SS - st := by
      have : SS + 18446744073709551616 - st = (SS - st) + 18446744073709551616 := by omega
      rw [this, Nat.add_mod_right]; exact Nat.mod_eq_of_lt (by omega)
    have e10 : (seg + st) % 18446744073709551616 = seg + st := Nat.mod_eq_of_lt (by omega)
    simp only [if_pos h4, if_pos h5, e9, e10]
  · refine ⟨E, hen1, by omega, h2, by omega, ?_⟩
    have h5 : E > st := by omega
    have e9 : (E + 18446744073709551616 - st) % 18446744073709551616 = E - st := by
      have : E + 18446744073709551616 - st = (E - st) + 18446744073709551616 := by omega
      rw [this, Nat.add_mod_right]; exact Nat.mod_eq_of_lt (by omega)
    have e10 : (seg + st) % 18446744073709551616 = seg + st := Nat.mod_eq_of_lt (by omega)
    simp only [if_neg h4, if_pos h5, e9, e10]

set_option maxRecDepth 16384 in
theorem commit_mask_eq_body (info slices seg D size a b c : Nat)
    (hseg : seg + 33554432 < 2^64) (hin : D + size ≤ slices * 65536) (hs : slices ≤ 512) (hinfo : info ≤ 512) (hsz : 0 < size) :
    mi_segment_commit_mask (0, 0) 0 info (fun _ => slices * 65536) (fun i n => (i, n)) (0, 0) seg 0 (seg + D) size a b c
      = body seg (D / 65536 * 65536) ((D + size + 65535) / 65536 * 65536) (slices * 65536) := by
  unfold mi_segment_commit_mask mi_segment_info_size
  have hDs : D ≤ 33554432 := by omega
  have hSs : D + size ≤ 33554432 := by omega
  have hD : D < 9223372036854775808 := Nat.lt_of_le_of_lt hDs (by decide)
  obtain ⟨b4, b5⟩ : seg + slices * 65536 < 18446744073709551616 ∧ D + size < 18446744073709551616 := by
    have h64 : (2:Nat)^64 = 18446744073709551616 := by decide
    rw [h64] at hseg
    refine ⟨by omega, by omega⟩
  have h64' : (2:Nat)^64 = 18446744073709551616 := by decide
  have e6 := align_up_64k (D + size) (by rw [h64']; omega)
  have e7 := align_down_64k D (by rw [h64']; omega)
  clear h64'
  have e8 : Int.toNat (1 % 4294967296) = 1 := by decide
  have h10 : ¬ ((0:Nat) ≠ 0) := by decide
  have h1 : ¬ ((size = 0 ∨ size > 33554432) ∨ (0 : Nat) = 1) := by omega
  have h2 : ¬ (seg + D ≥ seg + slices * 65536) := by omega
  simp only [pstart_eq seg D hD, Nat.mod_eq_of_lt b4, Nat.mod_eq_of_lt b5, e6, e7, e8,
    if_neg h10, if_neg h1, if_neg h2, small_mod info hinfo, if_neg (no_info_clip D info)]
  unfold body
  by_cases h6 : (if (if (D + size + 65535) / 65536 * 65536 > slices * 65536 then slices * 65536 else (D + size + 65535) / 65536 * 65536) > D / 65536 * 65536
      then ((if (D + size + 65535) / 65536 * 65536 > slices * 65536 then slices * 65536 else (D + size + 65535) / 65536 * 65536) + 18446744073709551616 - D / 65536 * 65536) % 18446744073709551616 else 0) = 0
  · exfalso
    have h64 : (2:Nat)^64 = 18446744073709551616 := by decide
    rw [h64] at hseg
    obtain ⟨en, _, _, _, hlt, heq⟩ := body_spec seg (D / 65536 * 65536) ((D + size + 65535) / 65536 * 65536) (slices * 65536) D size hseg
      (down_facts D).1 (up_facts (D + size)) hin (Nat.le_trans (Nat.mul_le_mul_right _ hs) (by decide)) hsz (Nat.mul_mod_left _ _) (Nat.mul_mod_left _ _) (Nat.mul_mod_left _ _)
    have h7 := congrArg (fun t => t.2.1) heq
    simp only [body] at h7
    rw [h6] at h7
    clear heq h6 e6 e7
    omega
  · rw [if_neg h6]

/-- **committing is liberal**: for conservative = 0 the range committed for a block range inside a normal segment covers it, is
    64 KiB aligned relative to the segment, stays inside the segment, and the mask is exactly that range in 64 KiB units -/
theorem commit_range_covers (info slices seg D size a b c : Nat)
    (hseg : seg + 33554432 < 2^64) (hin : D + size ≤ slices * 65536) (hs : slices ≤ 512) (hinfo : info ≤ 512) (hsz : 0 < size) :
    ∃ st en, st ≤ D ∧ D + size ≤ en ∧ en ≤ slices * 65536 ∧ st % 65536 = 0 ∧ en % 65536 = 0 ∧ st < en ∧
      mi_segment_commit_mask (0, 0) 0 info (fun _ => slices * 65536) (fun i n => (i, n)) (0, 0) seg 0 (seg + D) size a b c
        = (seg + st, en - st, (st / 65536, (en - st) / 65536)) := by
  rw [commit_mask_eq_body info slices seg D size a b c hseg hin hs hinfo hsz]
  have h64 : (2:Nat)^64 = 18446744073709551616 := by decide
  rw [h64] at hseg
  obtain ⟨en, h1, h2, h3, h4, h5⟩ := body_spec seg (D / 65536 * 65536) ((D + size + 65535) / 65536 * 65536) (slices * 65536) D size hseg
    (down_facts D).1 (up_facts (D + size)) hin (by omega) hsz (Nat.mul_mod_left _ _) (Nat.mul_mod_left _ _) (Nat.mul_mod_left _ _)
  exact ⟨_, en, (down_facts D).1, h1, h2, Nat.mul_mod_left _ _, h3, h4, h5⟩
end C07L
