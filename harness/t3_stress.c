// Implementation-side oracle under the deterministic scheduler (C02 / C08 / C09 / C10):
// N virtual threads allocate from their own heaps, write patterns, pass blocks through a shared mailbox, free blocks
// allocated by any thread, collect, (optionally) exit with live blocks which others free later, (optionally) create and
// delete heaps while others free into them.  Shadow model: global table of live blocks with owner-independent patterns.
// FAIL lines: overlap of a returned block with a live block, changed contents of a live block, blocks or pages left
// behind after everything was freed and collected.
// usage: t3_stress <seed> <threads> <ops> <mode> <spurious%> <stay%>   mode bits: 1 thread-exit 2 heap-delete 4 huge/aligned mix 8 reclaim-on-free 16 OS segments 32 forced abandonment 64 no reclaim on allocation
#include "vsched.h"
#include VERIF_STATIC_C
static int nfail = 0;
#define FAIL(key, ...) do { if (nfail++ < 20) { printf("FAIL %s ", key); printf(__VA_ARGS__); printf("\n"); fflush(stdout); } } while (0)
void verif_log(int kind, const volatile void* addr, unsigned long long a, unsigned long long b, int ok) { (void)kind; (void)addr; (void)a; (void)b; (void)ok; }
enum { NSLOT = 256 };
typedef struct { uint8_t* p; size_t n; uint8_t pat; int state; /*0 empty 1 live-held 2 in-mailbox */ int holder; } slot_t;
static slot_t slots[NSLOT];
static int OPS = 150, MODE = 0;
static long n_alloc = 0, n_free_local = 0, n_free_remote = 0, n_collect = 0, n_exit = 0, n_heapdel = 0;
static int overlaps(uint8_t* p, size_t n, int self) { for (int i = 0; i < NSLOT; i++) if (i != self && (slots[i].state == 1 || slots[i].state == 2) && p < slots[i].p + slots[i].n && slots[i].p < p + n) return i; return -1; }
static size_t pick_size(void) { uint64_t r = vs_rnd(); switch (r % 8) { case 0: return 8 + (r >> 8) % 120; case 1: case 2: case 3: return 16 + 16 * ((r >> 8) % 6); case 4: return 200 + (r >> 8) % 2000; case 5: return 5000 + (r >> 8) % 60000; case 6: return (MODE & 4) ? 70000 + (r >> 8) % 400000 : 48; default: return 64; } }
static void do_alloc(int tid, mi_heap_t* h) {
  int i; for (i = 0; i < NSLOT; i++) if (slots[i].state == 0) break; if (i == NSLOT) return;
  slots[i].state = 3;      // reserved while inside the allocator
  size_t n = pick_size(); uint8_t* p;
  if ((MODE & 4) && vs_rnd() % 6 == 0) { size_t al = (size_t)16 << (vs_rnd() % 10); p = (uint8_t*)(h ? mi_heap_malloc_aligned(h, n, al) : mi_malloc_aligned(n, al)); if (p && ((uintptr_t)p % al) != 0) FAIL("misaligned", "n=%zu al=%zu", n, al); }
  else p = (uint8_t*)(h ? mi_heap_malloc(h, n) : mi_malloc(n));
  if (!p) { FAIL("alloc_failed", "t%d n=%zu", tid, n); slots[i].state = 0; return; }
  n_alloc++;
  if (mi_usable_size(p) < n) FAIL("usable_lt_size", "n=%zu", n);
  int o = overlaps(p, n ? n : 1, i); if (o >= 0) FAIL("double_handout", "t%d got %p (n=%zu) overlapping live slot %d (%p, n=%zu, holder t%d)", tid, p, n, o, slots[o].p, slots[o].n, slots[o].holder);
  slots[i].p = p; slots[i].n = n; slots[i].pat = (uint8_t)(1 + vs_rnd() % 250); memset(p, slots[i].pat, n);
  slots[i].holder = tid; slots[i].state = (vs_rnd() % 2) ? 2 : 1;   // half of the blocks go to the mailbox for others to free
}
static void do_free(int tid, int any_holder) {
  int start = (int)(vs_rnd() % NSLOT);
  for (int k = 0; k < NSLOT; k++) { int i = (start + k) % NSLOT;
    if ((slots[i].state == 2) || (slots[i].state == 1 && (slots[i].holder == tid || any_holder))) {
      int st = slots[i].state; slots[i].state = 3; uint8_t* p = slots[i].p; size_t n = slots[i].n;
      for (size_t j = 0; j < n; j++) if (p[j] != slots[i].pat) { FAIL("content_changed", "slot %d (allocated by t%d, n=%zu) byte %zu is %u, expected %u", i, slots[i].holder, n, j, p[j], slots[i].pat); break; }
      if (slots[i].holder == tid) n_free_local++; else n_free_remote++;
      (void)st; mi_free(p); slots[i].state = 0; return; } }
}
static void body(int tid) {
  mi_heap_t* extra = NULL;
  for (int r = 0; r < OPS; r++) { unsigned op = (unsigned)(vs_rnd() % 100);
    if (op < 45) do_alloc(tid, (extra && (vs_rnd() & 1)) ? extra : NULL);
    else if (op < 85) do_free(tid, 0);
    else if (op < 90) { n_collect++; mi_collect((vs_rnd() % 4) == 0); }
    else if (op < 95 && (MODE & 2)) { if (!extra) extra = mi_heap_new(); else { n_heapdel++; mi_heap_delete(extra); extra = NULL; } }
    else vs_yield();
  }
  if (extra) { mi_heap_delete(extra); n_heapdel++; }
  if (tid != 0) {
    if (!(MODE & 1)) { // free what this thread still holds privately before it ends
      for (int i = 0; i < NSLOT; i++) if (slots[i].state == 1 && slots[i].holder == tid) { slots[i].state = 2; } }
    else { for (int i = 0; i < NSLOT; i++) if (slots[i].state == 1 && slots[i].holder == tid) slots[i].state = 2; n_exit++; }
    mi_thread_done();   // same function the pthread destructor calls; blocks in the mailbox stay valid (abandoned pages)
  }
}
static size_t nblocks, nareas; static bool visitor(const mi_heap_t* h, const mi_heap_area_t* a, void* b, size_t bs, void* arg) { (void)h; (void)bs; (void)arg; if (b) nblocks++; else { nareas++; (void)a; } return true; }
int main(int argc, char** argv) {
  uint64_t seed = argc > 1 ? strtoull(argv[1], 0, 10) : 1;
  int nth = argc > 2 ? atoi(argv[2]) : 3; if (nth < 2) nth = 2; if (nth > VS_MAXT) nth = VS_MAXT;
  if (argc > 3) OPS = atoi(argv[3]);
  if (argc > 4) MODE = atoi(argv[4]);
  if (argc > 5) vs_spurious_pct = atoi(argv[5]);
  if (argc > 6) vs_stay_pct = atoi(argv[6]);
  mi_option_set(mi_option_show_errors, 0); mi_option_set(mi_option_verbose, 0);
  if (MODE & 8) { mi_option_set(mi_option_abandoned_reclaim_on_free, 1); }
  if (MODE & 16) { mi_option_set(mi_option_disallow_arena_alloc, 1); }          // OS-allocated segments: abandoned ones live on the sub-process list
  if (MODE & 32) { mi_option_set(mi_option_target_segments_per_thread, 1); }    // forced abandonment of owned segments
  if (MODE & 64) { mi_option_set(mi_option_max_segment_reclaim, 0); }           // only frees adopt (with mode 8)
  void* warm = mi_malloc(8); mi_free(warm);
  vs_init(seed, nth);
  vs_fn bodies[VS_MAXT]; for (int i = 0; i < nth; i++) bodies[i] = body;
  vs_run(bodies);
  // everything still in the table is freed by the main thread (cross-thread for blocks of ended threads)
  for (int i = 0; i < NSLOT; i++) if (slots[i].state == 1 || slots[i].state == 2) { uint8_t* p = slots[i].p;
      for (size_t j = 0; j < slots[i].n; j++) if (p[j] != slots[i].pat) { FAIL("content_changed", "final: slot %d (allocated by t%d) byte %zu", i, slots[i].holder, j); break; }
      mi_free(p); slots[i].state = 0; }
  mi_collect(true); mi_collect(true);
  nblocks = 0; nareas = 0; mi_heap_visit_blocks(mi_heap_get_default(), true, &visitor, NULL);
  // C08/C09 oracle: nothing is left behind in the surviving heap: no live block, and no abandoned segment waits for adoption
  if (nblocks != 0) FAIL("blocks_left_behind", "%zu blocks reported live in the main heap after all were freed", nblocks);
  size_t abandoned = mi_atomic_load_relaxed(&mi_subproc_default.abandoned_count);
  if (abandoned > ((size_t)1 << 40)) FAIL("abandoned_count_underflow", "abandoned_count = %zu (a segment was adopted twice or un-marked twice)", abandoned);
  else if (abandoned != 0) FAIL("abandoned_left_behind", "%zu abandoned segments after everything was freed and collected", abandoned);
  printf("STAT points %ld\nSTAT allocs %ld\nSTAT local_frees %ld\nSTAT remote_frees %ld\nSTAT collects %ld\nSTAT thread_exits %ld\nSTAT heap_deletes %ld\nSTAT areas_left %zu\n", vs_points, n_alloc, n_free_local, n_free_remote, n_collect, n_exit, n_heapdel, nareas);
  printf("DONE fails %d\n", nfail);
  return 0;
}
