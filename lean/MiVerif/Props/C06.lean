/- C06 — malformed or oversized requests fail cleanly.
   Statements about the public entry-point layer as regenerated from alloc.c / alloc-aligned.c /
   alloc-posix.c / page.c (MiVerif/Gen/Entry.lean): the allocator core underneath is an arbitrary
   oracle (every theorem is universally quantified over it), calls with side effects are an effect log.
   "returns NULL and has no effect" is literally "result 0, empty log, for every oracle". -/
import MiVerif.Gen.Entry
import MiVerif.Gen.Tables
import MiVerif.Lemmas.C06

namespace C06
open GenE

variable (gsp : Nat → Nat → Nat) (pmz : Nat → Nat → Nat → Nat → Nat) (gen : Nat → Nat → Nat → Nat → Nat)
  (us : Nat → Nat → Nat) (rdf : Nat → Nat) (pmzd pm : Nat → Nat → Nat → Nat) (bs : Nat → Nat) (ps : Nat)
  (ng : Nat → Nat → Nat → Nat) (pp : Nat → Nat) (dh : Nat)

/-- calloc: an overflowing count*size returns NULL, whatever the allocator underneath would do -/
theorem calloc_overflow (heap count size : Nat) (hc : count < 2^64) (hs : size < 2^64) (h : 2^64 ≤ count * size) :
    mi_heap_calloc gsp pmz gen heap count size = 0 := by
  sorry

/-- calloc: otherwise it is exactly a zeroing allocation of the product -/
theorem calloc_exact (heap count size : Nat) (hc : count < 2^64) (hs : size < 2^64) (h : count * size < 2^64) :
    mi_heap_calloc gsp pmz gen heap count size = mi_heap_zalloc gsp pmz gen heap (count * size) := by
  sorry

theorem mallocn_overflow (heap count size : Nat) (hc : count < 2^64) (hs : size < 2^64) (h : 2^64 ≤ count * size) :
    mi_heap_mallocn gsp pmz gen heap count size = 0 := by
  sorry

/-- reallocn: overflow returns NULL with an empty effect log (old block neither freed nor copied) -/
theorem reallocn_overflow (heap p count size : Nat) (hc : count < 2^64) (hs : size < 2^64) (h : 2^64 ≤ count * size) :
    mi_heap_reallocn us gsp pmz gen heap p count size = (0, []) := by
  sorry

theorem recalloc_overflow (heap p count size : Nat) (hc : count < 2^64) (hs : size < 2^64) (h : 2^64 ≤ count * size) :
    mi_heap_recalloc us gsp pmz gen heap p count size = (0, []) := by
  sorry

theorem calloc_aligned_overflow (heap count size alignment offset : Nat) (hc : count < 2^64) (hs : size < 2^64) (h : 2^64 ≤ count * size) :
    mi_heap_calloc_aligned_at gsp rdf pmzd pm bs ps ng pmz gen pp us heap count size alignment offset = (0, []) := by
  sorry

theorem recalloc_aligned_overflow (heap p count size alignment offset : Nat) (hc : count < 2^64) (hs : size < 2^64) (h : 2^64 ≤ count * size) :
    mi_heap_recalloc_aligned_at us gsp pmz gen rdf pmzd pm bs ps ng pp heap p count size alignment offset = (0, []) := by
  sorry

/-- reallocarray: overflow returns NULL, sets errno to ENOMEM (12) and does nothing else -/
theorem reallocarray_overflow (p count size : Nat) (hc : count < 2^64) (hs : size < 2^64) (h : 2^64 ≤ count * size) :
    mi_reallocarray dh us gsp pmz gen p count size = (0, [("store:__errno_location", [12])]) := by
  sorry

/-- aligned allocation: alignment 0 or not a power of two returns NULL before touching the heap -/
theorem aligned_bad_alignment (heap size alignment offset zero : Nat) (ha : alignment < 2^64)
    (h : alignment = 0 ∨ alignment &&& (alignment - 1) ≠ 0) :
    mi_heap_malloc_zero_aligned_at gsp rdf pmzd pm bs ps ng pmz gen pp us heap size alignment offset zero = (0, []) := by
  sorry

/-- aligned allocation: a size above MI_MAX_ALLOC_SIZE returns NULL before touching the heap -/
theorem aligned_oversize (heap size alignment offset zero : Nat) (hs : size < 2^64) (h : Gen.MI_MAX_ALLOC_SIZE < size) :
    mi_heap_malloc_zero_aligned_at gsp rdf pmzd pm bs ps ng pmz gen pp us heap size alignment offset zero = (0, []) := by
  sorry

/-- the generic allocation path refuses sizes above MI_MAX_ALLOC_SIZE (also after `size + padding` wrapped) -/
theorem find_page_oversize (lh : Nat → Nat → Nat → Nat) (ff : Nat → Nat → Nat) (heap size ha : Nat) (hs : size < 2^64)
    (h : Gen.MI_MAX_ALLOC_SIZE < size) : mi_find_page lh ff heap size ha = 0 := by
  sorry

/-- posix_memalign: invalid arguments give EINVAL (22), the out-parameter keeps its old value, no effect -/
theorem posix_memalign_einval (p alignment size p_in : Nat) (ha : alignment < 2^64)
    (h : p = 0 ∨ alignment % 8 ≠ 0 ∨ alignment = 0 ∨ alignment &&& (alignment - 1) ≠ 0) :
    mi_posix_memalign dh gsp rdf pmzd pm bs ps ng pmz gen pp us p alignment size p_in = (22, p_in, []) := by
  sorry

/-- posix_memalign: whenever it reports an error the out-parameter is unmodified; the codes are 0, EINVAL, ENOMEM -/
theorem posix_memalign_error_keeps_out (p alignment size p_in : Nat) :
    let r := mi_posix_memalign dh gsp rdf pmzd pm bs ps ng pmz gen pp us p alignment size p_in
    (r.1 = 0 ∨ r.1 = 12 ∨ r.1 = 22) ∧ (r.1 ≠ 0 → r.2.1 = p_in) := by
  sorry

/-- pvalloc: a size that overflows when rounded up to the page size returns NULL with no effect -/
theorem pvalloc_overflow (size : Nat) (hps : 0 < ps) (hps2 : ps < 2^64) (h : 2^64 - 1 - ps ≤ size) :
    mi_pvalloc ps dh gsp rdf pmzd pm bs ng pmz gen pp us size = (0, []) := by
  sorry

/-- a failing realloc (NULL result) has an empty effect log: the old block is neither freed, copied from, nor zeroed -/
theorem realloc_fail_keeps_old (heap p newsize zero : Nat)
    (h : (_mi_heap_realloc_zero us gsp pmz gen heap p newsize zero).1 = 0) :
    (_mi_heap_realloc_zero us gsp pmz gen heap p newsize zero).2 = [] := by
  sorry

/-- reallocf: on failure the old block is freed (exactly that) -/
theorem reallocf_frees_on_failure (heap p newsize : Nat) (hp : p ≠ 0)
    (h : (mi_heap_realloc us gsp pmz gen heap p newsize).1 = 0) :
    mi_heap_reallocf us gsp pmz gen heap p newsize = (0, [("mi_free", [p])]) := by
  sorry

/-- non-vacuity: concrete arguments meeting the overflow hypotheses -/
example : (2^63 : Nat) < 2^64 ∧ (2 : Nat) < 2^64 ∧ 2^64 ≤ 2^63 * 2 := by decide
example : Gen.MI_MAX_ALLOC_SIZE < 2^63 ∧ (2^63 : Nat) < 2^64 := by decide
example : (3 : Nat) &&& (3 - 1) ≠ 0 := by decide

end C06
