/- in-bounds lemmas for the bounded writer model (MiVerif/Model/Printf.lean) -/
import MiVerif.Model.Printf
namespace C20L
open PfM

/-- the writer never holds more than `cap` characters and never stored outside what it holds -/
def WInv (w : W) : Prop := w.out.length ≤ w.cap ∧ w.oob = false

theorem outc_cap (w : W) (c : Char) : (outc w c).cap = w.cap := by unfold outc; split <;> rfl
theorem outc_inv (w : W) (c : Char) (h : WInv w) : WInv (outc w c) := by
  unfold outc WInv at *; split <;> simp_all <;> omega
theorem outc_mono (w : W) (c : Char) : w.out.length ≤ (outc w c).out.length := by
  unfold outc; split <;> simp
theorem outc_len (w : W) (c : Char) (h : w.out.length ≤ w.cap) : (outc w c).out.length = min (w.out.length + 1) w.cap := by
  unfold outc; split
  · simp; omega
  · omega

theorem outs_cap (w : W) (s : List Char) : (outs w s).cap = w.cap := by
  unfold outs; induction s generalizing w with
  | nil => rfl
  | cons c s ih => simp only [List.foldl_cons]; rw [ih, outc_cap]
theorem outs_inv (w : W) (s : List Char) (h : WInv w) : WInv (outs w s) := by
  unfold outs; induction s generalizing w with
  | nil => exact h
  | cons c s ih => simp only [List.foldl_cons]; exact ih _ (outc_inv w c h)
theorem outs_mono (w : W) (s : List Char) : w.out.length ≤ (outs w s).out.length := by
  unfold outs; induction s generalizing w with
  | nil => exact Nat.le_refl _
  | cons c s ih => simp only [List.foldl_cons]; exact Nat.le_trans (outc_mono w c) (ih _)
theorem outs_len (w : W) (s : List Char) (h : w.out.length ≤ w.cap) : (outs w s).out.length = min (w.out.length + s.length) w.cap := by
  unfold outs; induction s generalizing w with
  | nil => simp; omega
  | cons c s ih =>
    simp only [List.foldl_cons, List.length_cons]
    have h1 := outc_len w c h
    have h2 : (outc w c).out.length ≤ (outc w c).cap := by rw [outc_cap, h1]; omega
    rw [ih _ h2, outc_cap, h1]; omega

theorem outFill_cap (w : W) (f : Char) (n : Nat) : (outFill w f n).cap = w.cap := outs_cap _ _
theorem outFill_inv (w : W) (f : Char) (n : Nat) (h : WInv w) : WInv (outFill w f n) := outs_inv _ _ h
theorem outFill_len (w : W) (f : Char) (n : Nat) (h : w.out.length ≤ w.cap) : (outFill w f n).out.length = min (w.out.length + n) w.cap := by
  unfold outFill; rw [outs_len w _ h, List.length_replicate]; omega

theorem foldl_set_length {β : Type} (l : List β) (a : List Char) (f : List Char → β → List Char)
    (hf : ∀ a x, (f a x).length = a.length) : (l.foldl f a).length = a.length := by
  induction l generalizing a with
  | nil => rfl
  | cons x l ih => simp only [List.foldl_cons]; rw [ih, hf]

theorem alignRight_cap (w : W) (f : Char) (s l e : Nat) : (alignRight w f s l e).cap = w.cap := by
  unfold alignRight; split
  · rfl
  · split <;> rfl
theorem alignRight_len (w : W) (f : Char) (s l e : Nat) : (alignRight w f s l e).out.length = w.out.length := by
  unfold alignRight; split
  · rfl
  · split
    · rfl
    · simp only
      rw [foldl_set_length _ _ _ (fun a x => by simp), foldl_set_length _ _ _ (fun a x => by simp)]
/-- alignment is in bounds when the text it moves was really written (`start + len + extra` ≤ characters held
    unless the guard `start + len + extra ≥ cap` returns first) -/
theorem alignRight_inv (w : W) (f : Char) (s l e : Nat) (h : WInv w) (hfit : s + l + e < w.cap → s + l + e ≤ w.out.length) :
    WInv (alignRight w f s l e) := by
  refine ⟨by rw [alignRight_len, alignRight_cap]; exact h.1, ?_⟩
  unfold alignRight; split
  · exact h.2
  · split
    · exact h.2
    · rename_i hc; simp only [h.2, Bool.false_or, decide_eq_false_iff_not]; have := hfit (by omega); omega

theorem outPre_cap (w : W) (p : Option Char) : (outPre w p).cap = w.cap := by
  unfold outPre; split
  · exact outc_cap _ _
  · rfl
theorem outPre_inv (w : W) (p : Option Char) (h : WInv w) : WInv (outPre w p) := by
  unfold outPre; split
  · exact outc_inv _ _ h
  · exact h
theorem outPre_mono (w : W) (p : Option Char) : w.out.length ≤ (outPre w p).out.length := by
  unfold outPre; split
  · exact outc_mono _ _
  · exact Nat.le_refl _

theorem digits_cap (b fuel x : Nat) (w : W) : (digits b fuel x w).cap = w.cap := by
  induction fuel generalizing x w with
  | zero => rfl
  | succ n ih =>
    unfold digits; split
    · rfl
    · rw [ih, outc_cap]
theorem digits_inv (b fuel x : Nat) (w : W) (h : WInv w) : WInv (digits b fuel x w) := by
  induction fuel generalizing x w with
  | zero => exact h
  | succ n ih =>
    unfold digits; split
    · exact h
    · exact ih _ _ (outc_inv _ _ h)
theorem digits_mono (b fuel x : Nat) (w : W) : w.out.length ≤ (digits b fuel x w).out.length := by
  induction fuel generalizing x w with
  | zero => exact Nat.le_refl _
  | succ n ih =>
    unfold digits; split
    · exact Nat.le_refl _
    · exact Nat.le_trans (outc_mono _ _) (ih _ _)

theorem outNum_cap (w : W) (x b : Nat) (p : Option Char) : (outNum w x b p).cap = w.cap := by
  unfold outNum; split
  · rw [outc_cap, outPre_cap]
  · simp only; rw [outPre_cap, digits_cap]
theorem outNum_inv (w : W) (x b : Nat) (p : Option Char) (h : WInv w) : WInv (outNum w x b p) := by
  unfold outNum; split
  · exact outc_inv _ _ (outPre_inv _ _ h)
  · have h1 := outPre_inv _ p (digits_inv b 70 x w h)
    have hm : w.out.length ≤ (outPre (digits b 70 x w) p).out.length := Nat.le_trans (digits_mono _ _ _ _) (outPre_mono _ _)
    refine ⟨?_, h1.2⟩
    simp only [List.length_append, List.length_take, List.length_reverse, List.length_drop]
    have := h1.1; rw [outPre_cap, digits_cap] at this ⊢; omega
theorem outNum_mono (w : W) (x b : Nat) (p : Option Char) : w.out.length ≤ (outNum w x b p).out.length := by
  unfold outNum; split
  · exact Nat.le_trans (outPre_mono _ _) (outc_mono _ _)
  · have hm : w.out.length ≤ (outPre (digits b 70 x w) p).out.length := Nat.le_trans (digits_mono _ _ _ _) (outPre_mono _ _)
    simp only [List.length_append, List.length_take, List.length_reverse, List.length_drop]; omega

theorem fillAlign_inv (w : W) (start width : Nat) (fill : Char) (ar : Bool) (h : WInv w) (hs : start ≤ w.out.length) :
    WInv (fillAlign w start width fill ar) ∧ (fillAlign w start width fill ar).cap = w.cap := by
  unfold fillAlign
  simp only
  split
  · split
    · refine ⟨alignRight_inv _ _ _ _ _ (outFill_inv _ _ _ h) ?_, by rw [alignRight_cap, outFill_cap]⟩
      intro hlt
      rw [outFill_cap] at hlt
      rw [outFill_len _ _ _ h.1]; omega
    · exact ⟨outFill_inv _ _ _ h, outFill_cap _ _ _⟩
  · exact ⟨h, rfl⟩

theorem convert_inv (w : W) (sp : Spec) (args : List Arg) (h : WInv w) :
    WInv (convert w sp args).w ∧ (convert w sp args).w.cap = w.cap ∧ (convert w sp args).start ≤ (convert w sp args).w.out.length := by
  unfold convert
  simp only
  split
  · split
    · exact ⟨outs_inv _ _ h, outs_cap _ _, outs_mono _ _⟩
    · exact ⟨h, rfl, Nat.le_refl _⟩
    · exact ⟨h, rfl, Nat.le_refl _⟩
  · split
    · split
      · unfold ptrPrefix
        exact ⟨outNum_inv _ _ _ _ (outs_inv _ _ h), by rw [outNum_cap, outs_cap], outNum_mono _ _ _ _⟩
      · exact ⟨outNum_inv _ _ _ _ h, outNum_cap _ _ _ _, outNum_mono _ _ _ _⟩
    · split
      · exact ⟨outNum_inv _ _ _ _ h, outNum_cap _ _ _ _, outNum_mono _ _ _ _⟩
      · split
        · exact ⟨outc_inv _ _ (outc_inv _ _ h), by rw [outc_cap, outc_cap], Nat.le_trans (outc_mono _ _) (outc_mono _ _)⟩
        · exact ⟨h, rfl, Nat.le_refl _⟩

theorem emit_inv (w : W) (sp : Spec) (args : List Arg) (h : WInv w) : WInv (emit w sp args).1 ∧ (emit w sp args).1.cap = w.cap := by
  unfold emit
  obtain ⟨h1, h2, h3⟩ := convert_inv w sp args h
  have := fillAlign_inv _ (convert w sp args).start (convert w sp args).width (convert w sp args).fill sp.alignright h1 h3
  rw [h2] at this; exact this

theorem go_inv (fuel : Nat) (w : W) (inp : List Char) (args : List Arg) (h : WInv w) :
    WInv (go fuel w inp args) ∧ (go fuel w inp args).cap = w.cap := by
  induction fuel generalizing w inp args with
  | zero => exact ⟨h, rfl⟩
  | succ n ih =>
    unfold go
    split
    · exact ⟨h, rfl⟩
    · split
      · exact ⟨h, rfl⟩
      · rename_i c0 r0
        split
        · split
          · have := ih (outc w c0) r0 args (outc_inv _ _ h); rw [outc_cap] at this; exact this
          · exact ih w r0 args h
        · split
          · exact ⟨h, rfl⟩
          · split
            · exact ⟨h, rfl⟩
            · rename_i sp inp' _
              have he := emit_inv w sp args h
              have := ih _ inp' (emit w sp args).2 he.1
              rw [he.2] at this; exact this

end C20L
