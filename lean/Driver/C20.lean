import MiVerif.Model.Options
import MiVerif.Model.Printf
import MiVerif.Gen.Loops
/- correspondence driver for C20: recomputes every line of harness/c20.c with the Lean models and reports differences -/
namespace C20Val
open PfM

/-- memory of the string harness for the regenerated functions: the destination buffer at 4096, the NUL-terminated source at 8192 -/
def genLd (dest : List Char) (src : List Char) (a : Nat) : Nat :=
  if 4096 ≤ a ∧ a < 4096 + dest.length then (dest.getD (a - 4096) '\x00').toNat
  else if 8192 ≤ a ∧ a < 8192 + src.length then (src.getD (a - 8192) '\x00').toNat else 0
/-- the byte stores of an effect log applied to the destination buffer (a store outside the buffer is dropped: it shows as a difference
    only if the real function wrote there too, which AddressSanitizer would have reported) -/
def genStores (dest : List Char) (eff : List (String × List Nat)) : List Char :=
  eff.foldl (fun d c => match c with
    | ("store8", [a, v]) => if 4096 ≤ a ∧ a < 4096 + d.length then d.set (a - 4096) (Char.ofNat v) else d
    | _ => d) dest

def hexVal (c : Char) : Nat :=
  if '0' ≤ c ∧ c ≤ '9' then c.toNat - 48 else if 'a' ≤ c ∧ c ≤ 'f' then c.toNat - 87 else 0

def unhex (s : String) : List Char :=
  if s == "-" then [] else
  let rec go : List Char → List Char
    | a :: b :: r => Char.ofNat (hexVal a * 16 + hexVal b) :: go r
    | _ => []
  go s.toList

def hexDigit (n : Nat) : Char := if n < 10 then Char.ofNat (48 + n) else Char.ofNat (87 + n)
def toHex (cs : List Char) : String :=
  if cs.isEmpty then "-" else String.ofList (cs.flatMap fun c => [hexDigit (c.toNat / 16 % 16), hexDigit (c.toNat % 16)])

def applyStores (init : List Char) (st : List (Nat × Char)) : List Char := st.foldl (fun a p => a.set p.1 p.2) init

partial def parseArgs : List String → List Arg → Option (List Arg × List String)
  | "s" :: v :: r, acc => parseArgs r (acc ++ [Arg.str (if v == "N" then none else some (unhex v))])
  | "n" :: v :: r, acc => match v.toInt? with | some i => parseArgs r (acc ++ [Arg.num i]) | none => none
  | "->" :: r, acc => some (acc, r)
  | _, _ => none

def checkLine (ws : List String) : Option String :=
  match ws with
  | ["O", isz, dflt, raw, "->", ini, v] =>
    match dflt.toInt?, v.toInt? with
    | some d, some vv =>
      let (i, x) := OptM.parseBuf (isz == "1") d ((((unhex raw).take 64).map OptM.toUpper))
      let ii := match i with | .defaulted => "1" | .initialized => "2"
      if ii == ini && x == vv then none else some s!"model: init={ii} value={x}"
    | _, _ => some "unparsed"
  | "P" :: fmt :: bs :: _n :: rest =>
    match parseArgs rest [] with
    | some (args, [ret, outhex]) =>
      let r := vsnprintf bs.toNat! (unhex fmt) args
      if r.oob then some "model flags an out-of-bounds store"
      else if toString r.len == ret && (toHex r.text == outhex || bs == "0") then none else some s!"model: ret={r.len} out={toHex r.text}"
    | _ => some "unparsed"
  | ["S", "cpy", _, src, n, "->", dest] =>
    let nn := n.toNat!
    let res := applyStores (List.replicate nn '#') (strlcpy (unhex src) nn)
    -- the function regenerated from src/libc.c (Gen/Loops.lean) on the same memory: destination at 4096, source at 8192
    let gres := genStores (List.replicate nn '#') (GenL._mi_strlcpy (genLd (List.replicate nn '#') (unhex src)) 4096 8192 nn)
    if toHex res != dest then some s!"model: {toHex res}"
    else if toHex gres != dest then some s!"generated _mi_strlcpy: {toHex gres}" else none
  | ["S", "cat", dl, src, n, "->", dest] =>
    let nn := n.toNat!; let d := dl.toNat!
    let init := (List.range nn).map fun i => if i < d then 'd' else if i == d then '\x00' else '#'
    let res := applyStores init (strlcat d (unhex src) nn)
    let gres := genStores init (GenL._mi_strlcat (genLd init (unhex src)) 4096 8192 nn)
    if toHex res != dest then some s!"model: {toHex res}"
    else if toHex gres != dest then some s!"generated _mi_strlcat: {toHex gres}" else none
  | ["H", size, used, msg, "->", used', buf] =>
    let sz := size.toNat!
    let (st, u) := heapBufPrint sz used.toNat! (unhex msg)
    let res := applyStores (List.replicate sz '\x00') st
    if toString u == used' && toHex res == buf then none else some s!"model: used={u} buf={toHex res}"
  | ["H2", size, used, msg, "->", used'] =>
    let (_, u) := heapBufPrint size.toNat! used.toNat! (unhex msg)
    if toString u == used' then none else some s!"model: used={u}"
  | ["B", ol, n, "->", nl] =>
    let (_, l) := outBuf ol.toNat! n.toNat!
    if toString l == nl then none else some s!"model: out_len={l}"
  | _ => some "unparsed"

partial def loop (h : IO.FS.Stream) (n d : Nat) : IO (Nat × Nat) := do
  let line ← h.getLine
  if line.isEmpty then return (n, d)
  let line := line.trimAscii.toString
  let ws := (line.splitOn " ").filter (· ≠ "")
  match ws with
  | k :: _ =>
    if k == "O" || k == "P" || k == "S" || k == "H" || k == "H2" || k == "B" then
      match checkLine ws with
      | none => loop h (n + 1) d
      | some msg => do
        if d < 20 then IO.println s!"DIFF {line.take 300} || {msg}"
        loop h (n + 1) (d + 1)
    else loop h n d
  | [] => loop h n d

def main (stdin : IO.FS.Stream) : IO UInt32 := do
  let (n, d) ← loop stdin 0 0
  IO.println s!"c20val cases {n} diffs {d}"
  return (if d == 0 then 0 else 1)

end C20Val
