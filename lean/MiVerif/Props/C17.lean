/- C17 — hardened builds: encoded free-list links, double-free quick check, link cut, padding canary.
   Statements about the secure-configuration (-DMI_SECURE=4) functions as regenerated from
   include/mimalloc/internal.h and src/free.c (MiVerif/Gen/Secure.lean).  Memory reads through computed
   pointers are oracles (`rd_*`), `_mi_error_message(code, …)` is logged as an effect with its code
   (14 = EFAULT, 11 = EAGAIN). -/
import MiVerif.Gen.Secure
import MiVerif.Lemmas.C17

namespace C17
open GenS

/-- encode/decode round trip, for all keys and all 64-bit values: in-page links and the NULL terminator survive -/
theorem decode_encode (null p k0 k1 a b : Nat) (hn : null < 2^64) (hp : p < 2^64) (h0 : k0 < 2^64) (h1 : k1 < 2^64) :
    mi_ptr_decode k0 k1 null (mi_ptr_encode k1 k0 null p a) b = if p = 0 ∨ p = null then 0 else p := by
  exact C17L.decode_encode null p k0 k1 a b hn hp h0 h1

/-- the encoded value always fits a machine word -/
theorem encode_lt (null p k0 k1 a : Nat) : mi_ptr_encode k1 k0 null p a < 2^64 := by
  unfold mi_ptr_encode
  exact Nat.mod_lt _ (by decide)

/-- double free: the quick filter never hides a block that really is on a free list.  If the first word of `block`
    is the encoding of `next` (what `mi_block_set_next` stores) where `next` is NULL or an 8-aligned block of the same
    page, then `mi_check_is_double_free` is exactly the list search `mi_check_is_double_freex` (an oracle here). -/
theorem double_free_not_filtered (k0 k1 page block next a : Nat)
    (rso rbs rsc : Nat → Nat) (freex : Nat → Nat → Nat)
    (hpg : page < 2^64) (hnx : next < 2^64) (h0 : k0 < 2^64) (h1 : k1 < 2^64) (hne : next ≠ page)
    (hnext : next = 0 ∨ (next % 8 = 0 ∧ mi_is_in_same_page rso rbs rsc block next ≠ 0)) :
    mi_check_is_double_free (mi_ptr_encode k1 k0 page next a) k0 k1 rso rbs rsc freex page block = freex page block := by
  unfold mi_check_is_double_free mi_block_nextx
  simp only [C17L.decode_encode_link page next k0 k1 a _ hpg hnx h0 h1 hne]
  have hc : (next &&& 7 = 0) ∧ (next = 0 ∨ mi_is_in_same_page rso rbs rsc block next ≠ 0) := by
    rcases hnext with h | ⟨h8, hs⟩
    · subst h; exact ⟨by simp, Or.inl rfl⟩
    · exact ⟨C17L.and7_of_mod8 next h8, Or.inr hs⟩
  simp only [if_pos hc]

/-- forged link: a first word that decodes to a non-NULL address outside the block's page is reported with
    EFAULT (14) and the list is cut (NULL is returned instead of the forged address) -/
theorem forged_link_cut (w k0 k1 page block : Nat) (rso rbs rsc : Nat → Nat)
    (hdec : mi_ptr_decode k0 k1 page w ((page + 56) % 2^64) ≠ 0)
    (hout : mi_is_in_same_page rso rbs rsc block (mi_ptr_decode k0 k1 page w ((page + 56) % 2^64)) = 0) :
    mi_block_next w k0 k1 rso rbs rsc page block = (0, [("_mi_error_message", [14])]) := by
  unfold mi_block_next mi_block_nextx
  have hc : (mi_ptr_decode k0 k1 page w ((page + 56) % 18446744073709551616) ≠ 0) ∧
      ¬ (mi_is_in_same_page rso rbs rsc block (mi_ptr_decode k0 k1 page w ((page + 56) % 18446744073709551616)) ≠ 0) :=
    ⟨hdec, fun h => h hout⟩
  simp only [if_pos hc, List.nil_append]

/-- a genuine link (NULL, or inside the page) is followed silently -/
theorem genuine_link_followed (k0 k1 page block next a : Nat) (rso rbs rsc : Nat → Nat)
    (hpg : page < 2^64) (hnx : next < 2^64) (h0 : k0 < 2^64) (h1 : k1 < 2^64) (hne : next ≠ page)
    (hnext : next = 0 ∨ mi_is_in_same_page rso rbs rsc block next ≠ 0) :
    mi_block_next (mi_ptr_encode k1 k0 page next a) k0 k1 rso rbs rsc page block = (next, []) := by
  unfold mi_block_next mi_block_nextx
  simp only [C17L.decode_encode_link page next k0 k1 a _ hpg hnx h0 h1 hne]
  have hc : ¬ ((next ≠ 0) ∧ ¬ (mi_is_in_same_page rso rbs rsc block next ≠ 0)) := by
    rcases hnext with h | h
    · exact fun hh => hh.1 h
    · exact fun hh => hh.2 h
  simp only [if_neg hc]

/-- what `mi_block_set_next` stores is exactly that encoding (one store into the block's `next` word) -/
theorem set_next_stores_encoding (k0 k1 page block next : Nat) :
    mi_block_set_next k1 k0 page block next = [("set:next", [block, mi_ptr_encode k1 k0 page next ((page + 56) % 2^64)])] := by
  unfold mi_block_set_next mi_block_set_nextx
  simp only [List.nil_append]

/-- padding: a canary word that differs from the expected one, or a delta larger than the usable block size,
    makes the padding check fail (and the usable size is reported as 0) -/
theorem padding_mismatch_detected (bsize k0 k1 page block : Nat) (rd_delta rd_canary : Nat → Nat)
    (h : rd_canary ((block + mi_page_usable_block_size bsize page) % 2^64) ≠ mi_ptr_encode_canary k1 k0 page block 1
         ∨ mi_page_usable_block_size bsize page < rd_delta ((block + mi_page_usable_block_size bsize page) % 2^64)) :
    (mi_page_decode_padding bsize rd_delta rd_canary k0 k1 page block 1 1).1 = 0 ∧
    mi_page_usable_size_of bsize rd_delta rd_canary k0 k1 page block = 0 := by
  have hc : ¬ ((mi_ptr_encode_canary k1 k0 page block 1 =
        rd_canary ((block + mi_page_usable_block_size bsize page) % 18446744073709551616)) ∧
      rd_delta ((block + mi_page_usable_block_size bsize page) % 18446744073709551616) ≤ mi_page_usable_block_size bsize page) := by
    rcases h with h | h
    · exact fun hh => h hh.1.symm
    · exact fun hh => Nat.not_le_of_gt h hh.2
  unfold mi_page_usable_size_of mi_page_decode_padding
  simp only [if_neg hc]
  simp

/-- padding: an intact trailer decodes to the recorded delta, so the usable size is `bsize - delta` -/
theorem padding_intact_decodes (bsize k0 k1 page block : Nat) (rd_delta rd_canary : Nat → Nat)
    (hc : rd_canary ((block + mi_page_usable_block_size bsize page) % 2^64) = mi_ptr_encode_canary k1 k0 page block 1)
    (hd : rd_delta ((block + mi_page_usable_block_size bsize page) % 2^64) ≤ mi_page_usable_block_size bsize page) :
    mi_page_usable_size_of bsize rd_delta rd_canary k0 k1 page block =
      (mi_page_usable_block_size bsize page + 2^64 - rd_delta ((block + mi_page_usable_block_size bsize page) % 2^64)) % 2^64 := by
  have hc : (mi_ptr_encode_canary k1 k0 page block 1 =
        rd_canary ((block + mi_page_usable_block_size bsize page) % 18446744073709551616)) ∧
      rd_delta ((block + mi_page_usable_block_size bsize page) % 18446744073709551616) ≤ mi_page_usable_block_size bsize page :=
    ⟨hc.symm, hd⟩
  unfold mi_page_usable_size_of mi_page_decode_padding
  simp only [if_pos hc]
  simp

/-- the low byte of the canary is always 0: when the request fills the block completely (delta = 0) the first byte
    past the request is that byte, so writing any non-zero byte there changes the canary word -/
theorem canary_low_byte_zero (k0 k1 page block a : Nat) : mi_ptr_encode_canary k1 k0 page block a % 256 = 0 := by
  unfold mi_ptr_encode_canary
  exact C17L.and_ffffff00_mod_256 _

/-- non-vacuity -/
example : mi_ptr_decode 7 9 4096 (mi_ptr_encode 9 7 4096 65536 1) 1 = 65536 := by decide

end C17
