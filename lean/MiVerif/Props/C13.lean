/- C13 — guarantees hold under every option setting; purging never touches live data.
   Property theorems only.  `Gen.mi_segment_commit_mask` (start / size / mask of the range that is committed or purged for a given
   block range) is regenerated from src/segment.c on every run.  The option settings themselves are universally quantified in the
   models of C01/C03/C04/C05/C12 (they do not mention options at all); what options change is which ranges are committed, purged and
   recommitted, and that is what is proved here and searched by re-running the shadow oracle under option rows in a build where
   decommit really revokes access (MI_DEBUG). -/
import MiVerif.Lemmas.C07Range

namespace C13
open Gen

set_option maxRecDepth 16384 in
/-- **purging is conservative**: for a block range `[seg + D, seg + D + size)` inside a normal segment (after the info slices), the range
    that `mi_segment_purge` / `mi_segment_schedule_purge` hand to the OS (conservative = true) is empty or lies inside the freed range
    — so decommit / reset never reaches a byte of a neighbouring page -/
theorem purge_range_inside_freed_range {α : Type} (e : α) (mk : Nat → Nat → α) (cin : α)
    (info slices seg D size a b c : Nat)
    (hseg : seg + 33554432 < 2^64) (hin : D + size ≤ slices * 65536) (hs : slices ≤ 512)
    (hinfo : info * 65536 ≤ D) (hsz : 0 < size) :
    (mi_segment_commit_mask e 0 info (fun _ => slices * 65536) mk cin seg 1 (seg + D) size a b c).2.1 = 0 ∨
    (seg + D ≤ (mi_segment_commit_mask e 0 info (fun _ => slices * 65536) mk cin seg 1 (seg + D) size a b c).1 ∧
     (mi_segment_commit_mask e 0 info (fun _ => slices * 65536) mk cin seg 1 (seg + D) size a b c).1 +
       (mi_segment_commit_mask e 0 info (fun _ => slices * 65536) mk cin seg 1 (seg + D) size a b c).2.1 ≤ seg + D + size) :=
  C13L.purge_range_inside_freed_range e mk cin info slices seg D size a b c hseg hin hs hinfo hsz

/-- **committing is liberal**: the range that `mi_segment_commit` asks the OS to commit for a block range (conservative = false) covers
    the whole block range, is aligned to the 64 KiB commit unit relative to the segment, stays inside the segment, and the commit mask
    is exactly that range in commit units — so a page handed out after a successful commit is accessible under every option setting
    that makes commits lazy (used by C07 `alloc_accessible`) -/
theorem commit_range_covers_block_range (info slices seg D size a b c : Nat)
    (hseg : seg + 33554432 < 2^64) (hin : D + size ≤ slices * 65536) (hs : slices ≤ 512) (hinfo : info ≤ 512) (hsz : 0 < size) :
    ∃ st en, st ≤ D ∧ D + size ≤ en ∧ en ≤ slices * 65536 ∧ st % 65536 = 0 ∧ en % 65536 = 0 ∧ st < en ∧
      mi_segment_commit_mask (0, 0) 0 info (fun _ => slices * 65536) (fun i n => (i, n)) (0, 0) seg 0 (seg + D) size a b c
        = (seg + st, en - st, (st / 65536, (en - st) / 65536)) :=
  C07L.commit_range_covers info slices seg D size a b c hseg hin hs hinfo hsz

end C13
