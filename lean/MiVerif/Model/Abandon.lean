-- probe: abandoned-segment hand-over (arena bit variant), one segment, any number of threads
inductive Fl where
  | m1 (t : Nat)   -- owner stored thread_id := 0, bit not yet set
  | m2             -- bit set, abandoned_count not yet incremented
  | c1 (t : Nat)   -- fetch_and cleared the bit (was set), count not yet decremented
  | c2 (t : Nat)   -- count decremented, thread_id not yet stored
deriving DecidableEq

def Fl.holds : Fl → Bool
  | .m1 _ => true | .m2 => false | .c1 _ => true | .c2 _ => true
def Fl.isM2 : Fl → Bool | .m1 _ => false | .m2 => true | .c1 _ => false | .c2 _ => false
def Fl.isC1 : Fl → Bool | .m1 _ => false | .m2 => false | .c1 _ => true | .c2 _ => false

structure St where
  owner : Nat
  bit   : Bool
  cnt   : Int
  fl    : List Fl

def b2n (b : Bool) : Nat := if b then 1 else 0

def holders (l : List Fl) : Nat := l.countP Fl.holds
def nM2 (l : List Fl) : Nat := l.countP Fl.isM2
def nC1 (l : List Fl) : Nat := l.countP Fl.isC1

inductive Step : St → St → Prop
  | markStore (s t) : s.owner = t → t ≠ 0 → Step s { s with owner := 0, fl := .m1 t :: s.fl }
  | markOr (s t)   : .m1 t ∈ s.fl → Step s { s with bit := true, fl := .m2 :: s.fl.erase (.m1 t) }
  | markInc (s)    : .m2 ∈ s.fl → Step s { s with cnt := s.cnt + 1, fl := s.fl.erase .m2 }
  | clearAnd (s t) : s.bit = true → t ≠ 0 → Step s { s with bit := false, fl := .c1 t :: s.fl }
  | clearMiss (s)  : s.bit = false → Step s s
  | remark (s t)   : .c1 t ∈ s.fl → Step s { s with bit := true, fl := s.fl.erase (.c1 t) }
  | clearDec (s t) : .c1 t ∈ s.fl → Step s { s with cnt := s.cnt - 1, fl := .c2 t :: s.fl.erase (.c1 t) }
  | clearOwn (s t) : .c2 t ∈ s.fl → Step s { s with owner := t, fl := s.fl.erase (.c2 t) }
  /-- a holder that does not keep the segment (visited by a collect, still in use) marks it again: `thread_id := 0` (it is 0 already),
      then the same or / increment as a fresh mark -/
  | reMarkStore (s t) : .c2 t ∈ s.fl → Step s { s with fl := .m1 t :: s.fl.erase (.c2 t) }
  /-- the new owner stores its id once more (mi_segment_reclaim) -/
  | ownAgain (s t) : s.owner = t → Step s s

structure AInv (s : St) : Prop where
  token : b2n s.bit + holders s.fl + b2n (decide (s.owner ≠ 0)) = 1
  count : s.cnt = (b2n s.bit : Int) - nM2 s.fl + nC1 s.fl
  tids  : ∀ t, (.m1 t ∈ s.fl ∨ .c1 t ∈ s.fl ∨ .c2 t ∈ s.fl) → t ≠ 0

theorem countP_erase_mem {p : Fl → Bool} {l : List Fl} {a : Fl} (h : a ∈ l) :
    (l.erase a).countP p + b2n (p a) = l.countP p := by
  induction l with
  | nil => cases h
  | cons x xs ih =>
    by_cases hx : x = a
    · subst hx; simp [List.countP_cons, b2n]
    · have : a ∈ xs := by cases h with | head => exact absurd rfl hx | tail _ h => exact h
      have e : (x :: xs).erase a = x :: xs.erase a := by
        rw [List.erase_cons_tail]; simpa using hx
      rw [e]; simp only [List.countP_cons]; have := ih this; omega

theorem holders_cons (a l) : holders (a :: l) = holders l + b2n a.holds := by
  simp [holders, List.countP_cons, b2n]
theorem nM2_cons (a l) : nM2 (a :: l) = nM2 l + b2n a.isM2 := by
  simp [nM2, List.countP_cons, b2n]
theorem nC1_cons (a l) : nC1 (a :: l) = nC1 l + b2n a.isC1 := by
  simp [nC1, List.countP_cons, b2n]
theorem holders_erase {a l} (h : a ∈ l) : holders (l.erase a) + b2n a.holds = holders l := countP_erase_mem h
theorem nM2_erase {a l} (h : a ∈ l) : nM2 (l.erase a) + b2n a.isM2 = nM2 l := countP_erase_mem h
theorem nC1_erase {a l} (h : a ∈ l) : nC1 (l.erase a) + b2n a.isC1 = nC1 l := countP_erase_mem h
theorem b2n_true : b2n true = 1 := rfl
theorem b2n_false : b2n false = 0 := rfl
theorem b2n_ne {n : Nat} (h : n ≠ 0) : b2n (decide (n ≠ 0)) = 1 := by simp [b2n, h]
theorem b2n_z : b2n (decide ((0:Nat) ≠ 0)) = 0 := by simp [b2n]
theorem b2n_le (b) : b2n b ≤ 1 := by cases b <;> simp [b2n]

macro "cnt_simp" : tactic => `(tactic|
  simp only [holders_cons, nM2_cons, nC1_cons, Fl.holds, Fl.isM2, Fl.isC1, b2n_true, b2n_false, b2n_z] at *)

macro "tid_tac" h:ident : tactic => `(tactic|
  (intro u hu
   apply $h u
   rcases hu with hu | hu | hu
   · exact Or.inl (by first | exact List.mem_of_mem_erase hu | exact hu)
   · exact Or.inr (Or.inl (by first | exact List.mem_of_mem_erase hu | exact hu))
   · exact Or.inr (Or.inr (by first | exact List.mem_of_mem_erase hu | exact hu))))

theorem mem_ce {x a b : Fl} {l : List Fl} (h : x ∈ a :: l.erase b) (hne : x ≠ a) : x ∈ l := by
  rcases List.mem_cons.1 h with h | h
  · exact absurd h hne
  · exact List.mem_of_mem_erase h

theorem inv_step {s s' : St} (h : AInv s) (st : Step s s') : AInv s' := by
  obtain ⟨htok, hcnt, htid⟩ := h
  cases st with
  | markStore t ho hn =>
    have h1 := b2n_ne (ho ▸ hn : s.owner ≠ 0)
    refine ⟨?_, ?_, ?_⟩
    · show b2n s.bit + holders (.m1 t :: s.fl) + b2n (decide ((0:Nat) ≠ 0)) = 1
      cnt_simp; omega
    · show s.cnt = (b2n s.bit : Int) - nM2 (.m1 t :: s.fl) + nC1 (.m1 t :: s.fl)
      cnt_simp; omega
    · intro u hu
      rcases hu with hu | hu | hu
      · rcases List.mem_cons.1 hu with hu | hu
        · injection hu with hu; subst hu; exact hn
        · exact htid u (Or.inl hu)
      · rcases List.mem_cons.1 hu with hu | hu
        · cases hu
        · exact htid u (Or.inr (Or.inl hu))
      · rcases List.mem_cons.1 hu with hu | hu
        · cases hu
        · exact htid u (Or.inr (Or.inr hu))
  | markOr t hm =>
    have e1 := holders_erase hm; have e2 := nM2_erase hm; have e3 := nC1_erase hm
    have hb : s.bit = false := by
      cases hb : s.bit with
      | false => rfl
      | true => rw [hb] at htok; cnt_simp; omega
    rw [hb] at htok hcnt
    refine ⟨?_, ?_, ?_⟩
    · show b2n true + holders (.m2 :: s.fl.erase (.m1 t)) + b2n (decide (s.owner ≠ 0)) = 1
      cnt_simp; omega
    · show s.cnt = (b2n true : Int) - nM2 (.m2 :: s.fl.erase (.m1 t)) + nC1 (.m2 :: s.fl.erase (.m1 t))
      cnt_simp; omega
    · intro u hu
      apply htid u
      rcases hu with hu | hu | hu
      · exact Or.inl (mem_ce hu (by intro h; cases h))
      · exact Or.inr (Or.inl (mem_ce hu (by intro h; cases h)))
      · exact Or.inr (Or.inr (mem_ce hu (by intro h; cases h)))
  | markInc hm =>
    have e1 := holders_erase hm; have e2 := nM2_erase hm; have e3 := nC1_erase hm
    refine ⟨?_, ?_, ?_⟩
    · show b2n s.bit + holders (s.fl.erase .m2) + b2n (decide (s.owner ≠ 0)) = 1
      cnt_simp; omega
    · show s.cnt + 1 = (b2n s.bit : Int) - nM2 (s.fl.erase .m2) + nC1 (s.fl.erase .m2)
      cnt_simp; omega
    · tid_tac htid
  | clearAnd t hb hn =>
    rw [hb] at htok hcnt
    refine ⟨?_, ?_, ?_⟩
    · show b2n false + holders (.c1 t :: s.fl) + b2n (decide (s.owner ≠ 0)) = 1
      cnt_simp; omega
    · show s.cnt = (b2n false : Int) - nM2 (.c1 t :: s.fl) + nC1 (.c1 t :: s.fl)
      cnt_simp; omega
    · intro u hu
      rcases hu with hu | hu | hu
      · rcases List.mem_cons.1 hu with hu | hu
        · cases hu
        · exact htid u (Or.inl hu)
      · rcases List.mem_cons.1 hu with hu | hu
        · injection hu with hu; subst hu; exact hn
        · exact htid u (Or.inr (Or.inl hu))
      · rcases List.mem_cons.1 hu with hu | hu
        · cases hu
        · exact htid u (Or.inr (Or.inr hu))
  | clearMiss hb => exact ⟨htok, hcnt, htid⟩
  | remark t hm =>
    have e1 := holders_erase hm; have e2 := nM2_erase hm; have e3 := nC1_erase hm
    have hb : s.bit = false := by
      cases hb : s.bit with
      | false => rfl
      | true => rw [hb] at htok; cnt_simp; omega
    rw [hb] at htok hcnt
    refine ⟨?_, ?_, ?_⟩
    · show b2n true + holders (s.fl.erase (.c1 t)) + b2n (decide (s.owner ≠ 0)) = 1
      cnt_simp; omega
    · show s.cnt = (b2n true : Int) - nM2 (s.fl.erase (.c1 t)) + nC1 (s.fl.erase (.c1 t))
      cnt_simp; omega
    · tid_tac htid
  | clearDec t hm =>
    have e1 := holders_erase hm; have e2 := nM2_erase hm; have e3 := nC1_erase hm
    refine ⟨?_, ?_, ?_⟩
    · show b2n s.bit + holders (.c2 t :: s.fl.erase (.c1 t)) + b2n (decide (s.owner ≠ 0)) = 1
      cnt_simp; omega
    · show s.cnt - 1 = (b2n s.bit : Int) - nM2 (.c2 t :: s.fl.erase (.c1 t)) + nC1 (.c2 t :: s.fl.erase (.c1 t))
      cnt_simp; omega
    · intro u hu
      rcases hu with hu | hu | hu
      · exact htid u (Or.inl (mem_ce hu (by intro h; cases h)))
      · exact htid u (Or.inr (Or.inl (mem_ce hu (by intro h; cases h))))
      · rcases List.mem_cons.1 hu with hu | hu
        · injection hu with hu; subst hu; exact htid u (Or.inr (Or.inl hm))
        · exact htid u (Or.inr (Or.inr (List.mem_of_mem_erase hu)))
  | ownAgain t _ => exact ⟨htok, hcnt, htid⟩
  | reMarkStore t hm =>
    have e1 := holders_erase hm; have e2 := nM2_erase hm; have e3 := nC1_erase hm
    refine ⟨?_, ?_, ?_⟩
    · show b2n s.bit + holders (.m1 t :: s.fl.erase (.c2 t)) + b2n (decide (s.owner ≠ 0)) = 1
      cnt_simp; omega
    · show s.cnt = (b2n s.bit : Int) - nM2 (.m1 t :: s.fl.erase (.c2 t)) + nC1 (.m1 t :: s.fl.erase (.c2 t))
      cnt_simp; omega
    · intro u hu
      rcases hu with hu | hu | hu
      · rcases List.mem_cons.1 hu with hu | hu
        · injection hu with hu; subst hu; exact htid u (Or.inr (Or.inr hm))
        · exact htid u (Or.inl (List.mem_of_mem_erase hu))
      · exact htid u (Or.inr (Or.inl (mem_ce hu (by intro h; cases h))))
      · exact htid u (Or.inr (Or.inr (mem_ce hu (by intro h; cases h))))
  | clearOwn t hm =>
    have e1 := holders_erase hm; have e2 := nM2_erase hm; have e3 := nC1_erase hm
    have ht := htid t (Or.inr (Or.inr hm))
    have h1 := b2n_ne ht
    have ho : s.owner = 0 := by
      apply Classical.byContradiction; intro hne
      have := b2n_ne hne
      cnt_simp; omega
    rw [ho] at htok
    refine ⟨?_, ?_, ?_⟩
    · show b2n s.bit + holders (s.fl.erase (.c2 t)) + b2n (decide (t ≠ 0)) = 1
      cnt_simp; omega
    · show s.cnt = (b2n s.bit : Int) - nM2 (s.fl.erase (.c2 t)) + nC1 (s.fl.erase (.c2 t))
      cnt_simp; omega
    · tid_tac htid

/-- at most one thread holds the segment, and an owned segment is neither marked nor held -/
theorem single_adopter {s : St} (h : AInv s) :
    holders s.fl ≤ 1 ∧ (s.owner ≠ 0 → s.bit = false ∧ holders s.fl = 0) := by
  obtain ⟨htok, _, _⟩ := h
  constructor
  · omega
  · intro hne
    have := b2n_ne hne
    cases hb : s.bit
    · exact ⟨rfl, by omega⟩
    · rw [hb, b2n_true] at htok; omega

example : AInv { owner := 7, bit := false, cnt := 0, fl := [] } :=
  ⟨by decide, by decide, by intro t h; simp at h⟩
#print axioms inv_step
#print axioms single_adopter
