/- further lemmas about the page free-list model: remaining micro-steps, the step function, addresses -/
import MiVerif.Model.Page
namespace PageM

theorem freeRemote_inv (p : Page) (h : Inv p) (b : Blk) (hb : b ∈ p.live) : Inv (freeRemote p b) := by
  obtain ⟨hnd, hbd, hc, hcov, hu⟩ := h
  rw [nodup_iff_count] at hnd
  have h1 : 1 ≤ p.live.count b := List.count_pos_iff.mpr hb
  have hlen : (p.live.erase b).length = p.live.length - 1 := List.length_erase_of_mem hb
  have hpos : 1 ≤ p.live.length := List.length_pos_of_mem hb
  refine ⟨?_, ?_, hc, ?_, ?_⟩
  · rw [nodup_iff_count]; intro x; have := hnd x
    simp only [freeRemote, List.count_append, List.count_cons, List.count_erase, beq_iff_eq] at this ⊢
    by_cases hx : b = x
    · subst hx; simp only [if_true]; omega
    · simp only [hx, if_false]; omega
  · intro x hx; apply hbd x
    simp only [freeRemote, List.mem_append, List.mem_cons] at hx ⊢
    rcases hx with ((h2 | h2) | (h2 | h2)) | h2
    · exact Or.inl (Or.inl (Or.inl h2))
    · exact Or.inl (Or.inl (Or.inr h2))
    · subst h2; exact Or.inr hb
    · exact Or.inl (Or.inr h2)
    · exact Or.inr (List.mem_of_mem_erase h2)
  · simp only [freeRemote, List.length_append, List.length_cons, hlen] at hcov ⊢; omega
  · simp only [freeRemote, List.length_cons, hlen]; omega

theorem lfCollectForce_inv (p : Page) (h : Inv p) : Inv (lfCollectForce p) := by
  obtain ⟨hnd, hbd, hc, hcov, hu⟩ := h
  rw [nodup_iff_count] at hnd
  refine ⟨?_, ?_, hc, ?_, hu⟩
  · rw [nodup_iff_count]; intro x; have := hnd x
    simp only [lfCollectForce, List.count_append, List.count_nil] at this ⊢; omega
  · intro x hx; apply hbd x
    simp only [lfCollectForce, List.mem_append, List.not_mem_nil, or_false] at hx ⊢
    rcases hx with ((h2 | h2) | h2) | h2
    · exact Or.inl (Or.inl (Or.inr h2))
    · exact Or.inl (Or.inl (Or.inl h2))
    · exact Or.inl (Or.inr h2)
    · exact Or.inr h2
  · simp only [lfCollectForce, List.length_append, List.length_nil] at hcov ⊢; omega

theorem lfCollect_inv (p : Page) (h : Inv p) : Inv (lfCollect p) := by
  unfold lfCollect
  split
  · rename_i hf
    have := lfCollectForce_inv p h
    simp only [lfCollectForce, hf, List.append_nil] at this
    exact this
  · exact h

/-- micro-operations of a page (single owner thread + remote frees that already completed their push) -/
inductive Op where
  | pop
  | freeLocal (b : Blk)
  | freeRemote (b : Blk)
  | tfCollect
  | lfCollect
  | lfCollectForce
  | extend (n : Nat)

/-- a micro-operation with the guards of the C code (a block can only be freed while live, the free list is only popped when
    non-empty, extension only within `reserved`); an operation whose guard fails leaves the page unchanged -/
def step (p : Page) : Op → Page
  | .pop => match pop p with | some (_, p') => p' | none => p
  | .freeLocal b => if b ∈ p.live then freeLocal p b else p
  | .freeRemote b => if b ∈ p.live then freeRemote p b else p
  | .tfCollect => tfCollect p
  | .lfCollect => lfCollect p
  | .lfCollectForce => lfCollectForce p
  | .extend n => if p.capacity + n ≤ p.reserved then extend p n else p

theorem step_inv (p : Page) (h : Inv p) (op : Op) : Inv (step p op) := by
  cases op with
  | pop =>
    simp only [step]
    cases hp : pop p with
    | none => exact h
    | some r => obtain ⟨b, p'⟩ := r; exact (pop_fresh p h b p' hp).2
  | freeLocal b =>
    simp only [step]; split
    · exact freeLocal_inv p h b ‹_›
    · exact h
  | freeRemote b =>
    simp only [step]; split
    · exact freeRemote_inv p h b ‹_›
    · exact h
  | tfCollect => exact tfCollect_inv p h
  | lfCollect => exact lfCollect_inv p h
  | lfCollectForce => exact lfCollectForce_inv p h
  | extend n =>
    simp only [step]; split
    · exact extend_inv p h n ‹_›
    · exact h

/-- a freshly initialised page: nothing handed out, nothing on any list, capacity 0 -/
def init (reserved : Nat) : Page := { reserved := reserved, capacity := 0, used := 0, free := [], lf := [], tf := [], live := [] }

theorem init_inv (r : Nat) : Inv (init r) :=
  ⟨by simp [init], by intro b hb; simp [init] at hb, Nat.zero_le _, by simp [init], by simp [init]⟩

theorem reachable_inv (r : Nat) (ops : List Op) : Inv (ops.foldl step (init r)) := by
  suffices ∀ p, Inv p → Inv (ops.foldl step p) from this _ (init_inv r)
  induction ops with
  | nil => intro p h; exact h
  | cons op ops ih => intro p h; exact ih _ (step_inv p h op)

/-- executable form of the invariant (evaluated by the driver on snapshots of real pages) -/
def invB (p : Page) : Bool :=
  let all := p.free ++ p.lf ++ p.tf ++ p.live
  all.Nodup && all.all (· < p.capacity) && decide (p.capacity ≤ p.reserved) && decide (all.length = p.capacity) && decide (p.used = p.tf.length + p.live.length)

theorem invB_iff (p : Page) : invB p = true ↔ Inv p := by
  unfold invB
  simp only [Bool.and_eq_true, decide_eq_true_eq, List.all_eq_true]
  constructor
  · rintro ⟨⟨⟨⟨h1, h2⟩, h3⟩, h4⟩, h5⟩
    exact ⟨h1, fun b hb => by simpa using h2 b hb, h3, h4, h5⟩
  · rintro ⟨h1, h2, h3, h4, h5⟩
    exact ⟨⟨⟨⟨h1, fun b hb => by simpa using h2 b hb⟩, h3⟩, h4⟩, h5⟩

/-- what the heap walk reports for a page whose lists were force-collected: every index below `capacity` that is not on the free list, ascending -/
def visitList (p : Page) : List Nat := (List.range p.capacity).filter (fun i => !(p.free.contains i))

/-- address of block `i` of a page whose block area starts at `start` -/
def blockAddr (start bsize i : Nat) : Nat := start + i * bsize

/-- distinct block indices give disjoint byte ranges -/
theorem blocks_disjoint (start bsize i j : Nat) (hij : i < j) :
    blockAddr start bsize i + bsize ≤ blockAddr start bsize j := by
  unfold blockAddr
  have : (i + 1) * bsize ≤ j * bsize := Nat.mul_le_mul_right bsize hij
  rw [Nat.succ_mul] at this; omega

/-- every block of the page lies inside the page's block area -/
theorem block_in_area (start bsize cap res i area : Nat) (hi : i < cap) (hc : cap ≤ res) (ha : res * bsize ≤ area) :
    blockAddr start bsize i + bsize ≤ start + area := by
  unfold blockAddr
  have h1 : (i + 1) * bsize ≤ res * bsize := Nat.mul_le_mul_right bsize (by omega)
  rw [Nat.succ_mul] at h1; omega

end PageM
