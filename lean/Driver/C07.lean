import MiVerif.Model.Commit
import MiVerif.Gen.Commit
import MiVerif.Gen.ArenaGen
/- correspondence driver for C07: every step of the real commit / purge functions of src/segment.c and of the arena allocation / free
   functions of src/arena.c, driven directly with OS refusals injected, is replayed through Model.Commit -/
namespace C07Val
open CommitM

def hexNat (s : String) : Nat := s.toList.foldl (fun a c => a * 16 + (if '0' ≤ c ∧ c ≤ '9' then c.toNat - 48 else if 'a' ≤ c ∧ c ≤ 'f' then c.toNat - 87 else 0)) 0
def ofWords (ws : List Nat) : Mask := fun k => (ws.getD (k / 64) 0).testBit (k % 64)
def eqUpTo (n : Nat) (a b : Mask) : Bool := (List.range n).all (fun k => a k == b k)
def firstDiff (n : Nat) (a b : Mask) : Nat := ((List.range n).find? (fun k => a k != b k)).getD n

structure Obs where
  c : Mask
  p : Mask
  o : Mask

def parseMasks (ws : List String) : Option Obs :=
  -- "| C w*8 | P w*8 | O w*8"
  match ws with
  | "|" :: "C" :: rest =>
    let c := (rest.take 8).map hexNat
    match rest.drop 8 with
    | "|" :: "P" :: rest2 =>
      let p := (rest2.take 8).map hexNat
      match rest2.drop 8 with
      | "|" :: "O" :: rest3 => some { c := ofWords c, p := ofWords p, o := ofWords ((rest3.take 8).map hexNat) }
      | _ => none
    | _ => none
  | _ => none

def segMatches (s : Seg) (ob : Obs) : Bool := eqUpTo 512 s.commit ob.c && eqUpTo 512 s.purge ob.p && eqUpTo s.slices s.os ob.o
def resync (s : Seg) (ob : Obs) : Seg := { s with commit := ob.c, purge := ob.p, os := ob.o }
def describe (s : Seg) (ob : Obs) : String :=
  s!"first differing unit: commit {firstDiff 512 s.commit ob.c} purge {firstDiff 512 s.purge ob.p} os {firstDiff s.slices s.os ob.o} (512 = none)"

/-- one step of the segment trace; returns the next state and an optional complaint -/
def segStep (s : Seg) (name : String) (D size : Nat) (ret : Bool) (calls refused : Nat) (gone : Bool) (ob : Obs) : Seg × Option String :=
  let osOk := refused == 0
  if name == "commit" || name == "ensure" then
    let full := isFull s.commit && isEmpty s.purge
    let asks := if name == "ensure" && full then false else segCommitAsks s D size
    let (s', r) := if name == "commit" then segCommit s D size osOk
                   else match segAlloc s D size osOk with | (t, some _) => (t, true) | (t, none) => (t, false)
    if asks != (calls ≥ 1) then (resync s ob, some s!"the model {if asks then "asks" else "does not ask"} the OS but the code made {calls} requests")
    else if r != ret then (resync s ob, some s!"result: model {r}, code {ret}")
    else if !segMatches s' ob then (resync s ob, some ("state after the step differs; " ++ describe s' ob))
    else (s', none)
  else if name == "purge" then
    let cands := [segPurge s D size false false, segPurge s D size true false, segPurge s D size true gone]
    match cands.find? (fun t => segMatches t ob) with
    | some t => (t, none)
    | none =>
      if segMatches (segPurge s D size false gone) ob then (resync s ob, some "the OS revoked access to the range but the commit mask still records it")
      else (resync s ob, some ("no outcome of the OS purge explains the state after the step; " ++ describe (segPurge s D size true gone) ob))
  else if name == "sched" then
    let s' := segSchedule s D size
    if segMatches s' ob then (s', none) else (resync s ob, some ("state after schedule differs; " ++ describe s' ob))
  else (resync s ob, none)

/-! the same steps through the functions generated from src/segment.c (translator validation for Gen/Commit.lean) -/
def toGen (s : Seg) : GenC.SegSt :=
  { commit := s.commit, purge := s.purge, os := s.os, expire := 1010, allowPurge := true, allowDecommit := true, info := s.info, slices := s.slices, base := s.base }
def genMatches (σ : GenC.SegSt) (slices : Nat) (ob : Obs) : Bool := eqUpTo 512 σ.commit ob.c && eqUpTo 512 σ.purge ob.p && eqUpTo slices σ.os ob.o
def genStep (s : Seg) (name : String) (D size : Nat) (ret : Bool) (refused : Nat) (gone : Bool) (ob : Obs) : Option String :=
  let σ := toGen s
  let p : Int := ((s.base + D : Nat) : Int); let sz : Int := (size : Int)
  let osOk := refused == 0
  if name == "commit" then
    let r := GenC.mi_segment_commit σ p sz osOk 1000 10
    if r.2 != ret then some s!"generated mi_segment_commit returns {r.2}, the code {ret}"
    else if !genMatches r.1 s.slices ob then some "state after the generated mi_segment_commit differs from the code"
    else none
  else if name == "ensure" then
    let r := GenC.mi_segment_ensure_committed σ p sz osOk 1000 10
    if r.2 != ret then some s!"generated mi_segment_ensure_committed returns {r.2}, the code {ret}"
    else if !genMatches r.1 s.slices ob then some "state after the generated mi_segment_ensure_committed differs from the code"
    else none
  else if name == "purge" then
    let cands := [(false, false), (true, false), (true, gone)]
    if cands.any (fun c => genMatches (GenC.mi_segment_purge σ p sz c.1 c.2).1 s.slices ob) then none
    else some "no outcome of the OS purge makes the generated mi_segment_purge agree with the code"
  else if name == "sched" then
    let r := GenC.mi_segment_schedule_purge σ p sz 10 false false 1000 1 id
    if genMatches r s.slices ob then none else some "state after the generated mi_segment_schedule_purge differs from the code"
  else none

/-! arena -/
def maskOf (w : Nat) : Mask := fun k => w.testBit k
structure AObs where
  u : Nat
  c : Nat
  p : Nat
  o : Nat
def aMatches (a : Arena) (ob : AObs) : Bool :=
  eqUpTo 8 a.inuse (maskOf ob.u) && eqUpTo 8 a.committed (maskOf ob.c) && eqUpTo 8 a.purge (maskOf ob.p) && eqUpTo 8 a.os (maskOf ob.o)
def aOf (ob : AObs) : Arena := { inuse := maskOf ob.u, committed := maskOf ob.c, purge := maskOf ob.p, os := maskOf ob.o }
def parseA (ws : List String) : Option AObs :=
  match ws with
  | ["|", "U", u, "C", c, "P", p, "O", o] => some { u := hexNat u, c := hexNat c, p := hexNat p, o := hexNat o }
  | _ => none
def aCollect (a : Arena) (nr og : Bool) : Arena :=
  (List.range 8).foldl (fun b k => if b.purge k && !b.inuse k then aPurge b k 1 nr og else b) a
/-! the arena steps through the functions generated from src/arena.c (translator validation for Gen/ArenaGen.lean) -/
def toGenA (a : Arena) (now : Int) : GenR.ArSt :=
  { inuse := a.inuse, committed := a.committed, purge := a.purge, dirty := fun _ => false, os := a.os, hasCommitted := true, hasPurge := true,
    hasDirty := false, pinned := false, zeroInit := false, expire := 0, gexpire := 0, start := 0 }
def genAMatches (σ : GenR.ArSt) (ob : AObs) : Bool :=
  eqUpTo 8 σ.inuse (maskOf ob.u) && eqUpTo 8 σ.committed (maskOf ob.c) && eqUpTo 8 σ.purge (maskOf ob.p) && eqUpTo 8 σ.os (maskOf ob.o)
def genAlloc (a : Arena) (i nb : Nat) (commit osOk ic : Bool) (ob : AObs) : Option String :=
  let r := GenR.mi_arena_try_alloc_at (toGenA a 1000) (nb : Int) commit true (i : Int) osOk false
  match r.2 with
  | none => some "generated mi_arena_try_alloc_at returns NULL where the code returned a range"
  | some (_, m) =>
    if m.initially_committed != ic then some s!"generated mi_arena_try_alloc_at: initially_committed {m.initially_committed}, the code {ic}"
    else if !genAMatches r.1 ob then some "state after the generated mi_arena_try_alloc_at differs from the code"
    else none
/-- the arena branch of _mi_arena_free through the generated `_mi_arena_free_core` -/
def genFree (a : Arena) (i nb : Nat) (allc : Bool) (mode : Nat) (gone : Bool) (ob : AObs) : Option String :=
  let σ0 := toGenA a 1000
  let delay : Int := if mode = 0 then -1 else if mode = 1 then 0 else 10
  let cands := [(false, false), (true, false), (true, gone)]
  let ok := cands.any (fun c => genAMatches (GenR._mi_arena_free_core σ0 allc (i : Int) (nb : Int) delay false c.1 c.2 c.1 c.2 1000) ob)
  if ok then none else some "no outcome of the OS purge makes the generated _mi_arena_free_core agree with the code"

def splitBar (ws : List String) : List String × List String :=
  (ws.takeWhile (· ≠ "|"), ws.dropWhile (· ≠ "|"))

partial def loop (h : IO.FS.Stream) (seg : Option Seg) (ar : Option Arena) (mode : Nat) (n d : Nat) : IO (Nat × Nat) := do
  let line ← h.getLine
  if line.isEmpty then return (n, d)
  let line := line.trimAscii.toString
  let ws := (line.splitOn " ").filter (· ≠ "")
  let (hd, tl) := splitBar ws
  let complain (msg : String) : IO Unit := do
    if d < 12 then IO.println s!"DIFF {line.take 160} || {msg}"
  match hd with
  | ["I", base, info, slices] =>
    match parseMasks tl with
    | some ob => loop h (some { commit := ob.c, purge := ob.p, os := ob.o, info := info.toNat!, slices := slices.toNat!, base := base.toNat! }) ar mode n d
    | none => loop h seg ar mode n d
  | ["S", name, dd, size, "->", ret, "calls", calls, "refused", refused, "gone", gone] =>
    match seg, parseMasks tl with
    | some s, some ob =>
      let (s', c) := segStep s name dd.toNat! size.toNat! (ret == "1") calls.toNat! refused.toNat! (gone == "1") ob
      let cg := genStep s name dd.toNat! size.toNat! (ret == "1") refused.toNat! (gone == "1") ob
      match c, cg with
      | some msg, _ => complain msg; loop h (some s') ar mode (n + 1) (d + 1)
      | none, some msg => complain ("[Gen/Commit.lean] " ++ msg); loop h (some s') ar mode (n + 1) (d + 1)
      | none, none => loop h (some s') ar mode (n + 1) d
    | _, _ => loop h seg ar mode n d
  | ["I", delay] =>
    match parseA tl with
    | some ob =>
      let dl := delay.toInt!
      loop h seg (some (aOf ob)) (if dl < 0 then 0 else if dl == 0 then 1 else 2) n d
    | none => loop h seg ar mode n d
  | ["A", "alloc", blocks, commit, "->", idx, ic, "calls", _calls, "refused", refused] =>
    match ar, parseA tl with
    | some a, some ob =>
      let i := idx.toNat!; let nb := blocks.toNat!
      if (List.range nb).any (fun k => a.inuse (i + k)) then
        complain "the blocks handed out were in use in the model"; loop h seg (some (aOf ob)) mode (n + 1) (d + 1)
      else
        let (a', r) := aAlloc a i nb (commit == "1") (refused == "0")
        if r != (ic == "1") then do complain s!"initially_committed: model {r}, code {ic}"; loop h seg (some (aOf ob)) mode (n + 1) (d + 1)
        else if !aMatches a' ob then do complain "bitmaps / accessibility after the allocation differ from the model"; loop h seg (some (aOf ob)) mode (n + 1) (d + 1)
        else match genAlloc a i nb (commit == "1") (refused == "0") (ic == "1") ob with
          | some msg => do complain ("[Gen/ArenaGen.lean] " ++ msg); loop h seg (some a') mode (n + 1) (d + 1)
          | none => loop h seg (some a') mode (n + 1) d
    | _, _ => loop h seg ar mode n d
  | "A" :: "alloc" :: _ =>   -- "-> none": nothing may change
    match ar, parseA tl with
    | some a, some ob =>
      if aMatches a ob then loop h seg ar mode (n + 1) d
      else do complain "a failed arena allocation changed the bitmaps"; loop h seg (some (aOf ob)) mode (n + 1) (d + 1)
    | _, _ => loop h seg ar mode n d
  | ["A", "free", idx, blocks, allc, "->", "calls", _calls, "refused", _refused, "gone", gone] =>
    match ar, parseA tl with
    | some a, some ob =>
      let i := idx.toNat!; let nb := blocks.toNat!; let g := gone == "1"
      let cands := [aFree a i nb (allc == "1") mode false false, aFree a i nb (allc == "1") mode true false, aFree a i nb (allc == "1") mode true g]
      match cands.find? (fun t => aMatches t ob) with
      | some t =>
        match genFree a i nb (allc == "1") mode g ob with
        | some msg => do complain ("[Gen/ArenaGen.lean] " ++ msg); loop h seg (some t) mode (n + 1) (d + 1)
        | none => loop h seg (some t) mode (n + 1) d
      | none => complain "no outcome of the OS purge explains the bitmaps / accessibility after the free"; loop h seg (some (aOf ob)) mode (n + 1) (d + 1)
    | _, _ => loop h seg ar mode n d
  | "A" :: "collect" :: _ =>
    match ar, parseA tl with
    | some a, some ob =>
      let cands := [a, aCollect a false false, aCollect a true false, aCollect a true true]
      match cands.find? (fun t => aMatches t ob) with
      | some t => loop h seg (some t) mode (n + 1) d
      | none => complain "no outcome of the OS purge explains the bitmaps / accessibility after the collect"; loop h seg (some (aOf ob)) mode (n + 1) (d + 1)
    | _, _ => loop h seg ar mode n d
  | _ => loop h seg ar mode n d

def main (stdin : IO.FS.Stream) : IO UInt32 := do
  let (n, d) ← loop stdin none none 0 0 0
  IO.println s!"c07val cases {n} diffs {d}"
  return (if d == 0 then 0 else 1)
end C07Val
