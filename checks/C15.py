"""C15 — arena-bound heaps stay inside their arena; exclusive arenas stay private
(T1: the suitability tests regenerated from arena.c + theorems; managed-region arithmetic over the regenerated _mi_align_up;
oracle: arena-mode shadow histories incl. thread exit / adoption / forced collect, and managed regions with canaries)."""
import os
import vcommon as V
from checks import seqcommon

TRUSTED = ['Lean 4 kernel', 'translator extract/translate.py (mi_arena_id_is_suitable, _mi_arena_memid_is_suitable, _mi_align_up), validated on enumerated inputs every run',
           'that every path handing memory to a heap performs the suitability test is not proved: it is what the arena-mode oracle (harness/seq.c flags=1, harness/c15.c) searches for',
           'the hypothesis that reclaimed pages go to a heap with the same arena binding (heap tags all 0) is exercised by the oracle, not proved']

def run(chk):
    chk.trusted = TRUSTED
    chk.assumptions = ['release and MI_DEBUG=2 builds; one exclusive arena of 8 blocks plus managed regions of 70-190 MiB']
    chk.extra['rule'] = ('obligations = theorems of Props/C15.lean over regenerated definitions; evaluations = enumerated suitability cases compared + API calls of the arena-mode histories + managed-region allocations; '
                         'distinct = distinct oracle runs')
    chk.lean('MiVerif.Props.C15', groups=['Arena', 'Arith'])
    okd, exe, log = V.build_driver()
    if not okd:
        chk.broken_tie('lean driver does not build', log[-1500:])
    thorough = chk.tier == 'thorough'
    with V.Scratch() as d:
        h = os.path.join(d, 'c15')
        ok, log = V.cc_harness(os.path.join(V.HARNESS, 'c15.c'), h, flags=list(V.RELEASE) + ['-DVERIF_STATIC_C="%s/src/static.c"' % V.REPO])
        if not ok:
            chk.broken_tie('C15 harness does not compile against the current tree', log[-1500:])
        else:
            for sd in range(chk.seed, chk.seed + (4 if thorough else 2)):
                rc, out, err = V.run([h, str(sd)], timeout=600)
                if rc != 0 or 'DONE' not in out:
                    chk.violation('C15/harness-crash', 'allocator crashed in the managed-region workload (seed %d): %s' % (sd, (err or out)[-300:].replace('\n', ' ')), {'cmd': 'harness/c15 %d' % sd}); continue
                for l in out.splitlines():
                    p = l.split()
                    if p and p[0] == 'FAIL':
                        chk.violation('C15/' + p[1], ' '.join(p[2:])[:300], {'cmd': 'harness/c15 %d' % sd})
                    elif p and p[0] == 'STAT' and p[1] == 'evaluations':
                        chk.count(int(p[2]))
                    elif p and p[0] == 'MR':
                        chk.sample(l)
                if okd:
                    rc2, out2, err2 = V.run([exe, 'c15'], input=out, timeout=300)
                    summ = [l for l in out2.splitlines() if l.startswith('c15val cases')]
                    diffs = [l for l in out2.splitlines() if l.startswith('DIFF')]
                    if summ:
                        chk.extra['translator_validation_cases'] = chk.extra.get('translator_validation_cases', 0) + int(summ[0].split()[2])
                    if rc2 != 0 or diffs or not summ:
                        chk.broken_tie('translator validation: generated suitability tests differ from the compiled ones', '\n'.join(diffs[:6]) or out2[-300:])
        hs = seqcommon.build(chk, d)
        hd = seqcommon.build(chk, d, flags=('-DMI_DEBUG=2',), tag='dbg')
        n = 8 if thorough else 3
        ops = 30000 if thorough else 12000
        if hs:
            seqcommon.run(chk, hs, [(chk.seed * 30 + i, ops, (0, 2, 5)[i % 3], 1) for i in range(n)], ('c15_',))
        if hd:
            seqcommon.run(chk, hd, [(chk.seed * 30 + 7, ops // 2, 0, 1)], ('c15_',), tag='dbg')
