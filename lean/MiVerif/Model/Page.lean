-- probe: sequential page free-list model with `used` counter, invariant and the C01 core lemma
namespace PageM

abbrev Blk := Nat

structure Page where
  reserved : Nat
  capacity : Nat
  used     : Nat
  free     : List Blk
  lf       : List Blk        -- local_free
  tf       : List Blk        -- thread_free (already freed remotely, still counted in `used`)
  live     : List Blk        -- ghost: blocks the program holds

def pop (p : Page) : Option (Blk × Page) :=
  match p.free with
  | [] => none
  | b :: r => some (b, { p with free := r, used := p.used + 1, live := b :: p.live })

def freeLocal (p : Page) (b : Blk) : Page := { p with lf := b :: p.lf, used := p.used - 1, live := p.live.erase b }
def freeRemote (p : Page) (b : Blk) : Page := { p with tf := b :: p.tf, live := p.live.erase b }
def tfCollect (p : Page) : Page := { p with lf := p.tf ++ p.lf, tf := [], used := p.used - p.tf.length }
def lfCollect (p : Page) : Page := if p.free = [] then { p with free := p.lf, lf := [] } else p
def lfCollectForce (p : Page) : Page := { p with free := p.lf ++ p.free, lf := [] }
/-- extend by `n` fresh blocks (policy-abstract: any n with capacity + n ≤ reserved) -/
def extend (p : Page) (n : Nat) : Page :=
  { p with free := (List.range n).map (· + p.capacity) ++ p.free, capacity := p.capacity + n }

structure Inv (p : Page) : Prop where
  nodup : (p.free ++ p.lf ++ p.tf ++ p.live).Nodup
  bound : ∀ b : Nat, b ∈ p.free ++ p.lf ++ p.tf ++ p.live → b < p.capacity
  cap   : p.capacity ≤ p.reserved
  cover : (p.free ++ p.lf ++ p.tf ++ p.live).length = p.capacity
  used  : p.used = p.tf.length + p.live.length

theorem nodup_iff_count {l : List Blk} : l.Nodup ↔ ∀ x, l.count x ≤ 1 := List.nodup_iff_count

/-- C01 core: a popped block was not live, and the invariant is kept -/
theorem pop_fresh (p : Page) (h : Inv p) (b : Blk) (p' : Page) (hp : pop p = some (b, p')) :
    b ∉ p.live ∧ Inv p' := by
  unfold pop at hp
  cases hf : p.free with
  | nil => simp [hf] at hp
  | cons b0 r =>
    simp only [hf, Option.some.injEq, Prod.mk.injEq] at hp
    obtain ⟨rfl, rfl⟩ := hp
    obtain ⟨hnd, hb, hc, hcov, hu⟩ := h
    rw [nodup_iff_count] at hnd
    constructor
    · intro hl
      have := hnd b0
      have h1 : 1 ≤ p.live.count b0 := List.count_pos_iff.mpr hl
      simp only [hf, List.count_append, List.count_cons, beq_self_eq_true, if_true] at this
      omega
    · refine ⟨?_, ?_, hc, ?_, ?_⟩
      · rw [nodup_iff_count]; intro x; have := hnd x
        simp only [hf, List.count_append, List.count_cons] at this ⊢; omega
      · intro x hx; apply hb x
        simp only [hf, List.mem_append, List.mem_cons] at hx ⊢
        rcases hx with ((h1 | h1) | h1) | (h1 | h1)
        · exact Or.inl (Or.inl (Or.inl (Or.inr h1)))
        · exact Or.inl (Or.inl (Or.inr h1))
        · exact Or.inl (Or.inr h1)
        · exact Or.inl (Or.inl (Or.inl (Or.inl h1)))
        · exact Or.inr h1
      · simp only [hf, List.length_append, List.length_cons] at hcov ⊢; omega
      · simp only [List.length_cons]; omega

theorem freeLocal_inv (p : Page) (h : Inv p) (b : Blk) (hb : b ∈ p.live) : Inv (freeLocal p b) := by
  obtain ⟨hnd, hbd, hc, hcov, hu⟩ := h
  rw [nodup_iff_count] at hnd
  have h1 : 1 ≤ p.live.count b := List.count_pos_iff.mpr hb
  have hlen : (p.live.erase b).length = p.live.length - 1 := List.length_erase_of_mem hb
  have hpos : 1 ≤ p.live.length := List.length_pos_of_mem hb
  refine ⟨?_, ?_, hc, ?_, ?_⟩
  · rw [nodup_iff_count]; intro x; have := hnd x
    simp only [freeLocal, List.count_append, List.count_cons, List.count_erase, beq_iff_eq] at this ⊢
    by_cases hx : b = x
    · subst hx; simp only [if_true]; omega
    · simp only [hx, if_false]; omega
  · intro x hx; apply hbd x
    simp only [freeLocal, List.mem_append, List.mem_cons] at hx ⊢
    rcases hx with ((h2 | (h2 | h2)) | h2) | h2
    · exact Or.inl (Or.inl (Or.inl h2))
    · subst h2; exact Or.inr hb
    · exact Or.inl (Or.inl (Or.inr h2))
    · exact Or.inl (Or.inr h2)
    · exact Or.inr (List.mem_of_mem_erase h2)
  · simp only [freeLocal, List.length_append, List.length_cons, hlen] at hcov ⊢; omega
  · simp only [freeLocal, hlen]; omega

theorem tfCollect_inv (p : Page) (h : Inv p) : Inv (tfCollect p) := by
  obtain ⟨hnd, hbd, hc, hcov, hu⟩ := h
  rw [nodup_iff_count] at hnd
  refine ⟨?_, ?_, hc, ?_, ?_⟩
  · rw [nodup_iff_count]; intro x; have := hnd x
    simp only [tfCollect, List.count_append, List.count_nil] at this ⊢; omega
  · intro x hx; apply hbd x
    simp only [tfCollect, List.mem_append, List.not_mem_nil, or_false] at hx ⊢
    rcases hx with (h2 | (h2 | h2)) | h2
    · exact Or.inl (Or.inl (Or.inl h2))
    · exact Or.inl (Or.inr h2)
    · exact Or.inl (Or.inl (Or.inr h2))
    · exact Or.inr h2
  · simp only [tfCollect, List.length_append, List.length_nil] at hcov ⊢; omega
  · simp only [tfCollect, List.length_nil]; omega

theorem extend_inv (p : Page) (h : Inv p) (n : Nat) (hn : p.capacity + n ≤ p.reserved) : Inv (extend p n) := by
  obtain ⟨hnd, hbd, hc, hcov, hu⟩ := h
  have hfresh : ∀ x, x ∈ (List.range n).map (· + p.capacity) → p.capacity ≤ x ∧ x < p.capacity + n := by
    intro x hx; simp only [List.mem_map, List.mem_range] at hx; obtain ⟨k, hk, rfl⟩ := hx; omega
  have hfn : ((List.range n).map (· + p.capacity)).Nodup := by
    unfold List.Nodup
    rw [List.pairwise_map]
    exact List.Pairwise.imp (fun {a b} (hab : a ≠ b) => by omega) List.nodup_range
  refine ⟨?_, ?_, hn, ?_, hu⟩
  · simp only [extend, List.append_assoc]
    rw [List.nodup_append]
    refine ⟨hfn, by simpa [List.append_assoc] using hnd, ?_⟩
    intro (a : Nat) ha (b : Nat) hb' hab
    subst hab
    have h1 : p.capacity ≤ a := (hfresh a ha).1
    have h2 : (a : Nat) < p.capacity := hbd a (by simpa [List.append_assoc] using hb')
    omega
  · intro x hx
    simp only [extend, List.mem_append] at hx
    show x < p.capacity + n
    rcases hx with (((h2 | h2) | h2) | h2) | h2
    · exact (hfresh x h2).2
    · have h3 : (x : Nat) < p.capacity := hbd x (by simp [h2]); omega
    · have h3 : (x : Nat) < p.capacity := hbd x (by simp [h2]); omega
    · have h3 : (x : Nat) < p.capacity := hbd x (by simp [h2]); omega
    · have h3 : (x : Nat) < p.capacity := hbd x (by simp [h2]); omega
  · have hlen : ((List.range n).map (· + p.capacity)).length = n := by simp
    simp only [List.length_append] at hcov
    simp only [extend, List.length_append, hlen]
    omega

end PageM


