-- executable model of option value parsing (mi_option_init, options.c l.608-657)
namespace OptM

def toUpper (c : Char) : Char := if 'a' ≤ c ∧ c ≤ 'z' then Char.ofNat (c.toNat - 32) else c

/-- C strstr(hay, needle) ≠ NULL -/
def isInfix (needle hay : List Char) : Bool :=
  match hay with
  | [] => needle.isEmpty
  | _ :: t => needle.isPrefixOf hay || isInfix needle t

def isSpace (c : Char) : Bool := c = ' ' ∨ c = '\t' ∨ c = '\n' ∨ c = '\x0b' ∨ c = '\x0c' ∨ c = '\r'

def LONG_MAX : Int := 9223372036854775807
def LONG_MIN : Int := -9223372036854775808
def MAX_ALLOC : Nat := 65536 * 4294967294

/-- strtol(s, &end, 10): returns (value, rest); no digits ⇒ (0, s) -/
def strtol (s : List Char) : Int × List Char :=
  let t := s.dropWhile isSpace
  let (neg, t1) := match t with
    | '-' :: r => (true, r)
    | '+' :: r => (false, r)
    | _ => (false, t)
  let ds := t1.takeWhile Char.isDigit
  if ds.isEmpty then (0, s) else
    let mag : Nat := ds.foldl (fun a c => a * 10 + (c.toNat - 48)) 0
    let v : Int := if neg then -(mag : Int) else (mag : Int)
    let v := if v > LONG_MAX then LONG_MAX else if v < LONG_MIN then LONG_MIN else v
    (v, t1.dropWhile Char.isDigit)

inductive Init where | defaulted | initialized deriving Repr, DecidableEq

/-- result: (init state, value); `dflt` is the value before parsing -/
def parse (sizeInKiB : Bool) (dflt : Int) (raw : String) : Init × Int :=
  let buf := (raw.toList.take 64).map toUpper
  if buf.isEmpty || isInfix buf "1;TRUE;YES;ON".toList then (.initialized, 1)
  else if isInfix buf "0;FALSE;NO;OFF".toList then (.initialized, 0)
  else
    let (value, rest) := strtol buf
    let (value, rest) :=
      if sizeInKiB then
        let size : Nat := if value < 0 then 0 else value.toNat
        let (size, overflow, rest) := match rest with
          | 'K' :: r => (size, false, r)
          | 'M' :: r => (size * 1024, decide (size * 1024 ≥ 2^64), r)
          | 'G' :: r => (size * 1024 * 1024, decide (size * 1024 * 1024 ≥ 2^64), r)
          | 'T' :: r => (size * 1024 * 1024 * 1024, decide (size * 1024 * 1024 * 1024 ≥ 2^64), r)
          | r => ((size + 1023) / 1024, false, r)
        let rest := match rest with
          | 'I' :: 'B' :: r => r
          | 'B' :: r => r
          | r => r
        let size := if overflow || size > MAX_ALLOC then MAX_ALLOC / 1024 else size
        let v : Int := if (size : Int) > LONG_MAX then LONG_MAX else (size : Int)
        (v, rest)
      else (value, rest)
    if rest.isEmpty then (.initialized, value) else (.defaulted, dflt)

end OptM

