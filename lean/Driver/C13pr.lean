import MiVerif.Gen.Loops
/- translator validation for the loop translation (C13): replays the `PR` lines of `harness/c07 prange` (the real mi_arena_purge_range:
   start, length, purge mask -> result and the block ranges handed to the OS) through the regenerated function -/
namespace C13prVal

def pairs : List String → List (Nat × Nat)
  | b :: c :: rest => (b.toNat!, c.toNat!) :: pairs rest
  | _ => []

partial def loop (h : IO.FS.Stream) (n d : Nat) : IO (Nat × Nat) := do
  let line ← h.getLine
  if line.isEmpty then return (n, d)
  let line := line.trimAscii.toString
  let ws := (line.splitOn " ").filter (· ≠ "")
  match ws with
  | "PR" :: s :: l :: purge :: "->" :: ret :: rest =>
    let r := GenL.mi_arena_purge_range 0 0 s.toNat! l.toNat! purge.toNat!
    let calls := r.2.map (fun c => match c with
      | ("mi_arena_purge", [_, ridx, cnt]) => (ridx, cnt)
      | _ => (18446744073709551615, 0))
    let ok := toString r.1 == ret && calls == pairs rest
    if !ok && d < 20 then IO.println s!"DIFF {line} || generated: {r.1} {calls}"
    loop h (n + 1) (if ok then d else d + 1)
  | _ => loop h n d

def main (stdin : IO.FS.Stream) : IO UInt32 := do
  let (n, d) ← loop stdin 0 0
  IO.println s!"c13prval cases {n} differences {d}"
  return (if d == 0 then 0 else 1)

end C13prVal
