/- helper file for C13 / C07: range arithmetic of the regenerated mi_segment_commit_mask (both rounding directions).
   (moved out of Props/C13.lean so that the property file holds the statements only)  `Gen.mi_segment_commit_mask` (start / size / mask of the range that is committed or purged for a given
   block range) is regenerated from src/segment.c on every run.  The option settings themselves are universally quantified in the
   models of C01/C03/C04/C05/C12 (they do not mention options at all); what options change is which ranges are committed, purged and
   recommitted, and that is what is proved here and searched by re-running the shadow oracle under option rows in a build where
   decommit really revokes access (MI_DEBUG). -/
import MiVerif.Gen.Arith
import MiVerif.Lemmas.C16

namespace C13L
open Gen

theorem align_down_64k (x : Nat) (hx : x < 2^64) : _mi_align_down x 65536 = x / 65536 * 65536 :=
  C16L.align_down_eq x 65536 (by decide) hx (by decide)

theorem align_up_64k (x : Nat) (hx : x + 65536 < 2^64) : _mi_align_up x 65536 = (x + 65535) / 65536 * 65536 := by
  rw [C16L.align_up_eq x 65536 (by decide) hx]
  have : x + 65536 - 1 = x + 65535 := by omega
  rw [this]

theorem pstart_eq (seg D : Nat) (hD : D < 9223372036854775808) :
    ((sw64 (((seg + D : Nat) : Int) - (seg : Int))).tdiv 1 % 18446744073709551616).toNat = D := by
  have : ((seg + D : Nat) : Int) - (seg : Int) = (D : Int) := by omega
  rw [this, Int.tdiv_one]
  unfold sw64
  have h2 : ((D : Int) + 2^63) % 2^64 - 2^63 = (D : Int) := by
    have : (2:Int)^63 = 9223372036854775808 := by decide
    have : (2:Int)^64 = 18446744073709551616 := by decide
    omega
  rw [h2]; omega

set_option maxRecDepth 16384 in
/-- **purging is conservative**: for a block range `[seg + D, seg + D + size)` inside a normal segment (after the info slices), the range
    that `mi_segment_purge` / `mi_segment_schedule_purge` hand to the OS (conservative = true) is empty or lies inside the freed range
    — so decommit / reset never reaches a byte of a neighbouring page -/
theorem purge_range_inside_freed_range {α : Type} (e : α) (mk : Nat → Nat → α) (cin : α)
    (info slices seg D size a b c : Nat)
    (hseg : seg + 33554432 < 2^64) (hin : D + size ≤ slices * 65536) (hs : slices ≤ 512)
    (hinfo : info * 65536 ≤ D) (hsz : 0 < size) :
    (mi_segment_commit_mask e 0 info (fun _ => slices * 65536) mk cin seg 1 (seg + D) size a b c).2.1 = 0 ∨
    (seg + D ≤ (mi_segment_commit_mask e 0 info (fun _ => slices * 65536) mk cin seg 1 (seg + D) size a b c).1 ∧
     (mi_segment_commit_mask e 0 info (fun _ => slices * 65536) mk cin seg 1 (seg + D) size a b c).1 +
       (mi_segment_commit_mask e 0 info (fun _ => slices * 65536) mk cin seg 1 (seg + D) size a b c).2.1 ≤ seg + D + size) := by
  unfold mi_segment_commit_mask mi_segment_info_size
  have hDs : D ≤ 33554432 := by omega
  have hSs : D + size ≤ 33554432 := by omega
  have hD : D < 9223372036854775808 := Nat.lt_of_le_of_lt hDs (by decide)
  obtain ⟨b2, b3, b4, b5⟩ : slices * 65536 < 18446744073709551616 ∧ info * 65536 < 18446744073709551616 ∧
      seg + slices * 65536 < 18446744073709551616 ∧ D + size < 18446744073709551616 := by
    have h64 : (2:Nat)^64 = 18446744073709551616 := by decide
    rw [h64] at hseg
    refine ⟨by omega, by omega, by omega, by omega⟩
  have h64' : (2:Nat)^64 = 18446744073709551616 := by decide
  have e6 := align_up_64k D (by rw [h64']; omega)
  have e7 := align_down_64k (D + size) (by rw [h64']; omega)
  clear h64'
  have e8 : Int.toNat (1 % 4294967296) = 1 := by decide
  have h10 : (1:Nat) ≠ 0 := by decide
  have h1 : ¬ ((size = 0 ∨ size > 33554432) ∨ (0 : Nat) = 1) := by omega
  have h2 : ¬ (seg + D ≥ seg + slices * 65536) := by omega
  have h3 : ¬ (D ≥ info * 65536 ∧ (D + 65535) / 65536 * 65536 < info * 65536) := by omega
  have h4 : ¬ ((D + size) / 65536 * 65536 > slices * 65536) := by omega
  simp only [pstart_eq seg D hD, Nat.mod_eq_of_lt b3, Nat.mod_eq_of_lt b4, Nat.mod_eq_of_lt b5, e6, e7, e8,
    if_pos h10, if_neg h1, if_neg h2, if_neg h3, if_neg h4]
  clear e6 e7 b2 b3 b4 b5 hD h1 h2 h3 h4
  by_cases h5 : (D + size) / 65536 * 65536 > (D + 65535) / 65536 * 65536
  · have e9 : ((D + size) / 65536 * 65536 + 18446744073709551616 - (D + 65535) / 65536 * 65536) % 18446744073709551616
        = (D + size) / 65536 * 65536 - (D + 65535) / 65536 * 65536 := by
      have : (D + size) / 65536 * 65536 + 18446744073709551616 - (D + 65535) / 65536 * 65536
          = ((D + size) / 65536 * 65536 - (D + 65535) / 65536 * 65536) + 18446744073709551616 := by omega
      rw [this, Nat.add_mod_right]; exact Nat.mod_eq_of_lt (by omega)
    have e10 : (seg + (D + 65535) / 65536 * 65536) % 18446744073709551616 = seg + (D + 65535) / 65536 * 65536 :=
      Nat.mod_eq_of_lt (by have h64 : (2:Nat)^64 = 18446744073709551616 := by decide
                           rw [h64] at hseg; omega)
    have h6 : ¬ ((D + size) / 65536 * 65536 - (D + 65535) / 65536 * 65536 = 0) := by omega
    simp only [if_pos h5, e9, e10, if_neg h6]
    right; omega
  · simp only [if_neg h5, if_true]
    left; trivial

end C13L
