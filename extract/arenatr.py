"""Third small translator (tie T1 for the arena half of C07 / C18): mi_arena_try_alloc_at, mi_arena_purge, mi_arena_schedule_purge of
src/arena.c -> Lean functions over the state record `GenR.ArSt` of lean/MiVerif/Gen/ArenaPrelude.lean.

Translated: statement structure, order of calls, if / else chains, early returns, assignments to memid fields and locals (the continuation is
duplicated into the branches of an `if` that does not return).  Interpreted by the prelude: the bitmap primitives on a range of blocks
(claim / unclaim / is-claimed across, with their out-parameters), the OS calls (answers are parameters, one set per call site), the claim
of the in-use bits (result is a parameter; the claim itself is C14's subject), clock / options / preloading (parameters).  Statistics and
tracking calls are dropped.  Anything else makes the translation fail."""
import translate as T

BM = {'blocks_inuse': 'inuse', 'blocks_committed': 'committed', 'blocks_purge': 'purge', 'blocks_dirty': 'dirty'}
HAS = {'blocks_committed': 'hasCommitted', 'blocks_purge': 'hasPurge', 'blocks_dirty': 'hasDirty'}
DROP = {'_mi_stat_decrease', '_mi_stat_increase', '_mi_stat_counter_increase', '_mi_warning_message', '_mi_verbose_message', '_mi_error_message'}
FUNCS = ['mi_arena_purge', 'mi_arena_schedule_purge', 'mi_arena_try_alloc_at']
BLOCK = 33554432


def strip(e):
    while e.get('kind') in ('ImplicitCastExpr', 'ParenExpr', 'CStyleCastExpr', 'ConstantExpr') and e.get('inner'):
        e = e['inner'][0]
    return e


def is_null(e):
    e = strip(e)
    return e.get('kind') == 'IntegerLiteral' and e.get('value') == '0'


class Cx:
    def __init__(self, fname):
        self.fname = fname; self.params = []; self.n = 0
        self.sub = {}

    def fresh(self, b):
        self.n += 1; return '%s_%d' % (b, self.n)

    def param(self, name, ty):
        if (name, ty) not in self.params:
            self.params.append((name, ty))
        return name

    def site(self, base, ty):
        k = len([p for p in self.params if p[0].startswith(base + '_')]) + 1
        return self.param('%s_%d' % (base, k), ty)

    def err(self, msg):
        raise T.TranslateError('%s: %s' % (self.fname, msg))


def callee(e):
    return strip(e['inner'][0])['referencedDecl']['name']


def member_path(e):
    """arena->blocks_x / arena->memid.is_pinned / memid->initially_zero -> tuple of names from the root variable"""
    e = strip(e); path = []
    while e.get('kind') == 'MemberExpr':
        path.append(e['name']); e = strip(e['inner'][0])
    if e.get('kind') == 'UnaryOperator' and e.get('opcode') == '*':
        e = strip(e['inner'][0])
    if e.get('kind') == 'DeclRefExpr':
        path.append(e['referencedDecl']['name'])
        return tuple(reversed(path))
    return None


def bm_field(cx, e):
    p = member_path(e)
    if p and len(p) == 2 and p[0] == 'arena' and p[1] in BM:
        return BM[p[1]]
    cx.err('unsupported bitmap argument')


def out_name(e):
    e = strip(e)
    if is_null(e):
        return None
    if e.get('kind') == 'UnaryOperator' and e.get('opcode') == '&':
        return strip(e['inner'][0])['referencedDecl']['name']
    return '?'


def iexpr(cx, e, env):
    e = strip(e); k = e.get('kind')
    if k == 'IntegerLiteral':
        return '(%s : Int)' % e['value']
    if k == 'DeclRefExpr':
        n = e['referencedDecl']['name']
        if n in env:
            return env[n]
        cx.err('unknown variable ' + n)
    if k == 'BinaryOperator' and e['opcode'] in ('+', '-'):
        return '(%s %s %s)' % (iexpr(cx, e['inner'][0], env), e['opcode'], iexpr(cx, e['inner'][1], env))
    if k == 'CallExpr':
        c = callee(e); a = e['inner'][1:]
        if c == 'mi_arena_block_size':
            return '(%s * %d)' % (iexpr(cx, a[0], env), BLOCK)
        if c == 'mi_arena_block_start':
            return '(blockStart σ %s)' % iexpr(cx, a[1], env)
        if c == 'mi_arena_purge_delay':
            return cx.param('delay', 'Int')
        if c == '_mi_clock_now':
            return cx.param('now', 'Int')
    cx.err('unsupported integer expression ' + str(k))


def bexpr(cx, e, env, pre):
    """Bool expression; `pre` collects let-lines that must precede the use (out-parameters of calls in conditions)"""
    e = strip(e); k = e.get('kind')
    if k == 'IntegerLiteral':
        return 'true' if e['value'] != '0' else 'false'
    if k == 'UnaryOperator' and e['opcode'] == '!':
        return '(!%s)' % bexpr(cx, e['inner'][0], env, pre)
    if k == 'BinaryOperator' and e['opcode'] in ('&&', '||'):
        return '(%s %s %s)' % (bexpr(cx, e['inner'][0], env, pre), e['opcode'], bexpr(cx, e['inner'][1], env, pre))
    if k == 'BinaryOperator' and e['opcode'] in ('==', '!='):
        l, r = e['inner']
        p = member_path(l)
        if p and len(p) == 2 and p[0] == 'arena' and p[1] in HAS and is_null(r):
            return ('σ.%s' if e['opcode'] == '!=' else '(!σ.%s)') % HAS[p[1]]
    if k == 'BinaryOperator' and e['opcode'] in ('==', '!=', '<', '<=', '>', '>='):
        a, b = iexpr(cx, e['inner'][0], env), iexpr(cx, e['inner'][1], env)
        op = {'==': '=', '!=': '≠', '<': '<', '<=': '≤', '>': '>', '>=': '≥'}[e['opcode']]
        return '(decide (%s %s %s))' % (a, op, b)
    if k == 'MemberExpr':
        p = member_path(e)
        if p == ('arena', 'memid', 'initially_zero'):
            return 'σ.zeroInit'
        if p == ('arena', 'memid', 'is_pinned'):
            return 'σ.pinned'
        if p and p[0] == 'memid' and len(p) == 2:
            return 'm.%s' % p[1]
    if k == 'DeclRefExpr':
        n = e['referencedDecl']['name']
        if n in env and env.get('#b:' + n):
            return env[n]
    if k == 'CallExpr':
        c = callee(e); a = e['inner'][1:]
        if c == '_mi_bitmap_is_claimed_across':
            f = bm_field(cx, a[0]); n = iexpr(cx, a[2], env); i = iexpr(cx, a[3], env)
            o = out_name(a[4]) if len(a) > 4 else None
            if o:
                lv = cx.fresh(o); pre.append('let %s := bmCount σ.%s %s %s' % (lv, f, i, n)); env[o] = lv
            return '(bmAllSet σ.%s %s %s)' % (f, i, n)
        if c == '_mi_preloading':
            return cx.param('preloading', 'Bool')
        if c == '_mi_bitmap_unclaim_across':
            f = bm_field(cx, a[0]); n = iexpr(cx, a[2], env); i = iexpr(cx, a[3], env)
            lv = cx.fresh('all_set'); pre.append('let %s := bmAllSet σ.%s %s %s' % (lv, f, i, n)); pre.append('let σ := { σ with %s := mClr σ.%s %s %s }' % (f, f, i, n))
            return lv
    cx.err('unsupported boolean expression ' + str(k))


def flat(s):
    if s.get('kind') == 'CompoundStmt':
        return [c for c in s.get('inner', []) if c.get('kind') != 'NullStmt']
    return [s]


def returns(stmts):
    if not stmts:
        return False
    last = stmts[-1]
    if last.get('kind') == 'ReturnStmt':
        return True
    if last.get('kind') == 'CompoundStmt':
        return returns(flat(last))
    if last.get('kind') == 'IfStmt' and len(last['inner']) > 2:
        return returns(flat(last['inner'][1])) and returns(flat(last['inner'][2]))
    return False


def contains_return(stmts):
    for s in stmts:
        if s.get('kind') == 'ReturnStmt':
            return True
        if contains_return(s.get('inner', []) if s.get('kind') in ('CompoundStmt', 'IfStmt') else []):
            return True
    return False


def assigned_locals(stmts, env, acc):
    for s in stmts:
        k = s.get('kind')
        if k == 'BinaryOperator' and s.get('opcode') == '=':
            l = strip(s['inner'][0])
            if l.get('kind') == 'DeclRefExpr' and l['referencedDecl']['name'] in env and l['referencedDecl']['name'] not in acc:
                acc.append(l['referencedDecl']['name'])
        if k in ('CompoundStmt', 'IfStmt'):
            assigned_locals(s.get('inner', []), env, acc)
    return acc


def tr(cx, stmts, env, ind):
    pad = '  ' * ind
    if not stmts:
        return [pad + cx.ret_default(env)]
    s, rest = stmts[0], stmts[1:]
    k = s.get('kind')
    if k == 'NullStmt' or (k == 'CStyleCastExpr'):
        return tr(cx, rest, env, ind)
    if k == 'CompoundStmt':
        return tr(cx, flat(s) + rest, env, ind)
    if k == 'ReturnStmt':
        return [pad + cx.ret_value(s, env)]
    env = dict(env)
    if k == 'DeclStmt':
        out = []
        for v in s.get('inner', []):
            name = v['name']; ty = v['type'].get('qualType', ''); init = v.get('inner', [])
            isb = ty.replace('const ', '').strip() in ('bool', '_Bool')
            if not init:
                env[name] = 'false' if isb else '(0 : Int)'
                if isb:
                    env['#b:' + name] = True
            elif isb:
                pre = []; t = bexpr(cx, init[0], env, pre); lv = cx.fresh(name)
                out += [pad + l for l in pre] + [pad + 'let %s := %s' % (lv, t)]; env[name] = lv; env['#b:' + name] = True
            else:
                lv = cx.fresh(name); out.append(pad + 'let %s := %s' % (lv, iexpr(cx, init[0], env))); env[name] = lv
        return out + tr(cx, rest, env, ind)
    if k == 'IfStmt':
        inner = s['inner']; c = strip(inner[0])
        then = flat(inner[1]); els = flat(inner[2]) if len(inner) > 2 else []
        # if (!mi_arena_try_claim(arena, n, &idx)) return NULL;
        if c.get('kind') == 'UnaryOperator' and c['opcode'] == '!' and strip(c['inner'][0]).get('kind') == 'CallExpr':
            call = strip(c['inner'][0]); cn = callee(call); a = call['inner'][1:]
            if cn == 'mi_arena_try_claim':
                ok = cx.param('claimed', 'Bool'); idx = cx.param('claimIdx', 'Int'); o = out_name(a[2])
                env2 = dict(env); env2[o] = idx
                lines = [pad + 'if (!%s) then' % ok] + tr(cx, then, env, ind + 1) + [pad + 'else']
                lines += [pad + '  let σ := { σ with inuse := mSet σ.inuse %s %s }' % (idx, iexpr(cx, a[1], env))]
                return lines + tr(cx, els + rest, env2, ind + 1)
            if cn == '_mi_os_commit_ex':
                ans = cx.site('osOk', 'Bool'); o = out_name(a[2])
                zero = cx.site('commitZero', 'Bool')
                env2 = dict(env)
                if o and o != '?':
                    env2[o] = zero; env2['#b:' + o] = True
                lines = [pad + 'let r := osCommit σ %s %s %s' % (iexpr(cx, a[0], env), iexpr(cx, a[1], env), ans), pad + 'let σ := r.1', pad + 'if (!r.2) then']
                lines += tr(cx, then + ([] if returns(then) else rest), env, ind + 1) + [pad + 'else']
                return lines + tr(cx, els + ([] if (els and returns(els)) else rest), env2, ind + 1)
        # if (CAS(&arena->purge_expire, &expire0, expire))
        if c.get('kind') == 'AtomicExpr' and len(c.get('inner', [])) == 5 and c.get('type', {}).get('qualType') in ('bool', '_Bool'):
            # compare-exchange (the mi_atomic_cas* macros expand to the C11 builtin): inner = [object, order, expected, order, desired]
            a = [c['inner'][0], c['inner'][2], c['inner'][4]]
            tgt = strip(strip(a[0])['inner'][0]) if strip(a[0]).get('kind') == 'UnaryOperator' else None
            if tgt is not None and member_path(tgt) == ('arena', 'purge_expire'):
                exp = out_name(a[1]); des = iexpr(cx, a[2], env)
                env_t = dict(env); env_e = dict(env); lv = cx.fresh(exp); env_e[exp] = lv
                lines = [pad + 'if (decide (σ.expire = %s)) then' % env[exp], pad + '  let σ := { σ with expire := %s }' % des]
                lines += tr(cx, then + ([] if returns(then) else rest), env_t, ind + 1) + [pad + 'else', pad + '  let %s := σ.expire' % lv]
                return lines + tr(cx, els + ([] if (els and returns(els)) else rest), env_e, ind + 1)
        pre = []; ct = bexpr(cx, c, env, pre)
        if rest and not contains_return(then) and not contains_return(els):
            # join point: neither branch returns; the branches change σ, the memid record and some outer locals only
            outs = assigned_locals(then + els, env, [])
            def terminal(e2):
                parts = ['σ'] + (['m'] if env.get('#m') or e2.get('#m') else []) + [e2[o] for o in outs]
                return '(' + ', '.join(parts) + ')' if len(parts) > 1 else parts[0]
            saved = cx.ret_default
            cx.ret_default = terminal
            has_m_after = env.get('#m') or any_m(then + els)
            if has_m_after and not env.get('#m'):
                cx.ret_default = saved; cx.err('memid first assigned inside a branch')
            t_lines = tr(cx, then, env, ind + 1); e_lines = tr(cx, els, env, ind + 1)
            cx.ret_default = saved
            j = cx.fresh('j')
            lines = [pad + l for l in pre] + [pad + 'let %s := if %s then' % (j, ct)] + t_lines + [pad + 'else'] + e_lines
            parts = ['σ'] + (['m'] if env.get('#m') else []) + outs
            env2 = dict(env)
            for i, nm in enumerate(parts):
                proj = j + ''.join('.2' for _ in range(i)) + ('.1' if i < len(parts) - 1 else '') if len(parts) > 1 else j
                if nm in ('σ', 'm'):
                    lines.append(pad + 'let %s := %s' % (nm, proj))
                else:
                    lv = cx.fresh(nm); lines.append(pad + 'let %s := %s' % (lv, proj)); env2[nm] = lv
            return lines + tr(cx, rest, env2, ind)
        lines = [pad + l for l in pre] + [pad + 'if %s then' % ct]
        lines += tr(cx, then + ([] if returns(then) else rest), env, ind + 1) + [pad + 'else']
        return lines + tr(cx, els + ([] if (els and returns(els)) else rest), env, ind + 1)
    if k == 'CallExpr':
        return call_stmt(cx, s, rest, env, ind)
    if k == 'AtomicExpr' and len(s.get('inner', [])) == 5:
        pad2 = pad
        tgt = strip(s['inner'][0])
        if tgt.get('kind') == 'UnaryOperator' and strip(tgt['inner'][0]).get('kind') == 'DeclRefExpr' and strip(tgt['inner'][0])['referencedDecl']['name'] == 'mi_arenas_purge_expire':
            exp = out_name(s['inner'][2]); des = iexpr(cx, s['inner'][4], env)
            return [pad2 + 'let σ := if (decide (σ.gexpire = %s)) then { σ with gexpire := %s } else σ' % (env[exp], des)] + tr(cx, rest, env, ind)
        cx.err('unsupported atomic statement')
    if k == 'BinaryOperator' and s['opcode'] == '=':
        lhs = strip(s['inner'][0]); rhs = strip(s['inner'][1])
        p = member_path(lhs)
        if lhs.get('kind') == 'UnaryOperator' and lhs.get('opcode') == '*' and rhs.get('kind') == 'CallExpr' and callee(rhs) == 'mi_memid_create_arena':
            env['#m'] = True
            return [pad + 'let m : MemId := { initially_committed := false, initially_zero := false, is_pinned := false }'] + tr(cx, rest, env, ind)
        if p and p[0] == 'memid' and len(p) == 2:
            if rhs.get('kind') == 'CallExpr' and callee(rhs) == '_mi_bitmap_claim_across':
                lines, allzero = claim_across(cx, rhs, env, ind)
                return lines + [pad + 'let m := { m with %s := %s }' % (p[1], allzero)] + tr(cx, rest, env, ind)
            pre = []; t = bexpr(cx, rhs, env, pre)
            return [pad + l for l in pre] + [pad + 'let m := { m with %s := %s }' % (p[1], t)] + tr(cx, rest, env, ind)
        if lhs.get('kind') == 'DeclRefExpr' and env.get('#b:' + lhs['referencedDecl']['name']) is not None or (lhs.get('kind') == 'DeclRefExpr' and lhs['referencedDecl']['name'] in env):
            name = lhs['referencedDecl']['name']
            if rhs.get('kind') == 'CallExpr' and callee(rhs) in ('_mi_os_purge', '_mi_os_purge_ex'):
                a = rhs['inner'][1:]
                nr = cx.site('needsRecommit', 'Bool'); gone = cx.site('osGone', 'Bool'); lv = cx.fresh(name)
                env[name] = lv; env['#b:' + name] = True
                return [pad + 'let r := osPurge σ %s %s %s %s' % (iexpr(cx, a[0], env), iexpr(cx, a[1], env), nr, gone), pad + 'let σ := r.1', pad + 'let %s := r.2' % lv] + tr(cx, rest, env, ind)
    cx.err('unsupported statement ' + str(k))


def any_m(stmts):
    for s in stmts:
        if s.get('kind') == 'BinaryOperator' and s.get('opcode') == '=':
            p = member_path(s['inner'][0])
            if p and p[0] == 'memid':
                return True
        if any_m(s.get('inner', []) if s.get('kind') in ('CompoundStmt', 'IfStmt') else []):
            return True
    return False


def claim_across(cx, call, env, ind):
    pad = '  ' * ind
    a = call['inner'][1:]
    f = bm_field(cx, a[0]); n = iexpr(cx, a[2], env); i = iexpr(cx, a[3], env)
    lines = []
    o1 = out_name(a[4]) if len(a) > 4 else None; o2 = out_name(a[5]) if len(a) > 5 else None
    if o1:
        lv = cx.fresh(o1); lines.append(pad + 'let %s := bmAnyZero σ.%s %s %s' % (lv, f, i, n)); env[o1] = lv; env['#b:' + o1] = True
    if o2:
        lv = cx.fresh(o2); lines.append(pad + 'let %s := bmCount σ.%s %s %s' % (lv, f, i, n)); env[o2] = lv
    az = cx.fresh('all_zero'); lines.append(pad + 'let %s := bmAllZero σ.%s %s %s' % (az, f, i, n))
    lines.append(pad + 'let σ := { σ with %s := mSet σ.%s %s %s }' % (f, f, i, n))
    return lines, az


def call_stmt(cx, s, rest, env, ind):
    pad = '  ' * ind
    c = callee(s); a = s['inner'][1:]
    if c in DROP:
        return tr(cx, rest, env, ind)
    if c == '_mi_bitmap_unclaim_across':
        f = bm_field(cx, a[0]); n = iexpr(cx, a[2], env); i = iexpr(cx, a[3], env)
        return [pad + 'let σ := { σ with %s := mClr σ.%s %s %s }' % (f, f, i, n)] + tr(cx, rest, env, ind)
    if c == '_mi_bitmap_claim_across':
        lines, _ = claim_across(cx, s, env, ind)
        return lines + tr(cx, rest, env, ind)
    if c == 'mi_atomic_casi64_strong_acq_rel':
        exp = out_name(a[1]); des = iexpr(cx, a[2], env)
        tgt = strip(a[0])
        if tgt.get('kind') == 'UnaryOperator' and strip(tgt['inner'][0]).get('kind') == 'DeclRefExpr' and strip(tgt['inner'][0])['referencedDecl']['name'] == 'mi_arenas_purge_expire':
            return [pad + 'let σ := if (decide (σ.gexpire = %s)) then { σ with gexpire := %s } else σ' % (env[exp], des)] + tr(cx, rest, env, ind)
    if c in FUNCS and c in cx.sub:
        extra = [cx.param(pn + '_c', pt) for pn, pt in cx.sub[c]]
        args = ' '.join([iexpr(cx, x, env) for x in a[1:]] + extra)
        return [pad + 'let σ := %s σ %s' % (c, args)] + tr(cx, rest, env, ind)
    cx.err('unsupported call ' + c)


def find_free_core(f):
    """the statements of _mi_arena_free's arena branch from the commit-state test up to the release of the in-use bits"""
    def walk(n):
        if n.get('kind') == 'CompoundStmt':
            st = [c for c in n.get('inner', []) if c.get('kind') != 'NullStmt']
            for i, c in enumerate(st):
                if c.get('kind') == 'IfStmt':
                    cond = strip(c['inner'][0])
                    def mentions(e, path):
                        if member_path(e) == path:
                            return True
                        return any(mentions(x, path) for x in e.get('inner', []))
                    if mentions(cond, ('arena', 'memid', 'is_pinned')) and mentions(cond, ('arena', 'blocks_committed')):
                        return st[i:]
        for c in n.get('inner', []):
            r = walk(c)
            if r:
                return r
        return None
    return walk([c for c in f['inner'] if c.get('kind') == 'CompoundStmt'][0])


def translate(tu):
    out = ['-- GENERATED by /verif/extract/arenatr.py from %s/src/arena.c (clang AST). DO NOT EDIT.' % tu.repo,
           'import MiVerif.Gen.ArenaPrelude', 'set_option linter.unusedVariables false', 'namespace GenR']
    sigs = {}
    for fn in FUNCS:
        f = tu.FNS.get(fn)
        if f is None:
            raise T.TranslateError('function %s not found' % fn)
        cx = Cx(fn); cx.sub = sigs
        ps = [c for c in f.get('inner', []) if c.get('kind') == 'ParmVarDecl']
        env = {}; names = []
        for p in ps:
            n = p['name']; ty = p['type'].get('qualType', '')
            if n in ('arena', 'memid'):
                continue
            if n == 'arena_index':
                continue
            if ty in ('bool', '_Bool'):
                env[n] = n; env['#b:' + n] = True; names.append('(%s : Bool)' % n)
            else:
                env[n] = n; names.append('(%s : Int)' % n)
        alloc = (fn == 'mi_arena_try_alloc_at')
        if alloc:
            cx.ret_default = lambda env: '(σ, none)'
            def rv(s, env):
                v = strip(s['inner'][0])
                if is_null(v):
                    return '(σ, none)'
                if v.get('kind') == 'DeclRefExpr' and v['referencedDecl']['name'] == 'p':
                    return '(σ, some (%s, m))' % env['bitmap_index']
                cx.err('unsupported return value')
            cx.ret_value = rv
            rtype = 'ArSt × Option (Int × MemId)'
        else:
            cx.ret_default = lambda env: 'σ'
            cx.ret_value = lambda s, env: 'σ'
            rtype = 'ArSt'
        body = [c for c in f['inner'] if c.get('kind') == 'CompoundStmt'][0]
        lines = tr(cx, flat(body), env, 1)
        sigs[fn] = list(cx.params)
        extra = ' '.join('(%s : %s)' % (n, t) for n, t in cx.params)
        out.append('def %s (σ : ArSt) %s %s : %s :=' % (fn, ' '.join(names), extra, rtype))
        out += lines
        out.append('')
    # the core of _mi_arena_free
    f = tu.FNS.get('_mi_arena_free')
    if f is None:
        raise T.TranslateError('function _mi_arena_free not found')
    core = find_free_core(f)
    if not core:
        raise T.TranslateError('_mi_arena_free: the commit-state / release part was not found')
    cx = Cx('_mi_arena_free'); cx.sub = sigs
    env = {'all_committed': 'all_committed', '#b:all_committed': True, 'bitmap_idx': 'bitmap_idx', 'blocks': 'blocks'}
    cx.ret_default = lambda env: 'σ'
    cx.ret_value = lambda s, env: 'σ'
    lines = tr(cx, core, env, 1)
    extra = ' '.join('(%s : %s)' % (n, t) for n, t in cx.params)
    out.append('/-- `_mi_arena_free`, arena branch, from the commit-state test to the release of the in-use bits (memid decoding, arena lookup and the')
    out.append('    final `mi_arenas_try_purge` are not part of it) -/')
    out.append('def _mi_arena_free_core (σ : ArSt) (all_committed : Bool) (bitmap_idx : Int) (blocks : Int) %s : ArSt :=' % extra)
    out += lines
    out.append('')
    out.append('end GenR')
    return '\n'.join(out) + '\n'
