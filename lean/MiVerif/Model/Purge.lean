/- Decision logic of delayed purging (C18): one arena / one segment, sequential use, time as an integer of
   milliseconds on a virtual clock.  The comparisons are NOT restated here: every `if` of the C code that decides
   whether to purge is taken from MiVerif/Gen/Purge.lean, which is regenerated from arena.c / segment.c on every run
   (guard extraction).  What is hand-written is the sequencing and the state updates between the guards; that part
   is compared with the real functions by harness/c18.c (states after every operation). -/
import MiVerif.Gen.Purge
namespace PurgeM

/-- arena side: `arena->purge_expire`, `mi_arenas_purge_expire`, "some blocks_purge bit is set", and (ghost) the time
    of the first schedule since the last purge -/
structure ASt where
  aexp : Int
  gexp : Int
  pend : Bool
  first : Int
deriving DecidableEq, Repr

def a0 : ASt := { aexp := 0, gexp := 0, pend := false, first := 0 }

/-- `mi_arena_schedule_purge` (called when a block range is freed to the arena); returns (state, purged right now?) -/
def aSchedule (delay now : Int) (s : ASt) : ASt × Bool :=
  if Gen.arenaSchedule_never delay then (s, false)
  else if Gen.arenaSchedule_now delay 0 then (s, true)
  else
    let e := now + delay
    if s.aexp = 0 then
      ({ aexp := e, gexp := if s.gexp = 0 then e else s.gexp, pend := true, first := if s.pend then s.first else now }, false)
    else ({ s with pend := true }, false)

/-- `mi_arenas_try_purge(force = false)` with one unpinned arena, single-threaded (every claimed range is purged in full);
    returns (state, purged?) -/
def aTryPurge (delay now : Int) (s : ASt) : ASt × Bool :=
  if delay ≤ 0 then (s, false)
  else if Gen.arenasTryPurge_skip 0 s.gexp now then (s, false)
  else
    -- mi_arenas_purge_expire := now + delay; visit the arena; all visited => mi_arenas_purge_expire := 0
    if Gen.arenaTryPurge_skip 0 s.aexp now then ({ s with gexp := 0 }, false)
    else ({ aexp := 0, gexp := 0, pend := false, first := s.first }, s.pend)

/-- `_mi_arena_free` of a committed range: schedule, then a non-forced try -/
def aFree (delay now : Int) (s : ASt) : ASt × Bool :=
  let r := aSchedule delay now s
  let r2 := aTryPurge delay now r.1
  (r2.1, r.2 || r2.2)

/-- segment side: `segment->purge_expire`, purge mask non-empty, ghost time of the first schedule -/
structure SSt where
  expire : Int
  pend : Bool
deriving DecidableEq, Repr

def s0 : SSt := { expire := 0, pend := false }

/-- `mi_segment_try_purge(segment, force=false)`; returns (state, purged?) -/
def sTryPurge (now : Int) (s : SSt) : SSt × Bool :=
  if s.expire = 0 ∨ s.pend = false then (s, false)     -- (allow_purge is false exactly when the delay is negative: nothing is ever pending then)
  else if Gen.segTryPurge_skip 0 now 0 s.expire then (s, false)
  else ({ expire := 0, pend := false }, true)

/-- `mi_segment_try_purge(segment, force=true)` -/
def sForcePurge (s : SSt) : SSt × Bool :=
  if s.expire = 0 ∨ s.pend = false then (s, false) else ({ expire := 0, pend := false }, true)

/-- `mi_segment_schedule_purge` for a non-empty committed range; `delay` = purge_delay, `extend` = purge_extend_delay -/
def sSchedule (delay extend now : Int) (s : SSt) : SSt × Bool :=
  if delay < 0 then (s, false)                    -- segment->allow_purge is false
  else if delay = 0 then (s, true)                -- purge directly
  else if Gen.segSchedule_first 0 s.expire then ({ expire := now + delay, pend := true }, false)
  else if Gen.segSchedule_expired now 0 s.expire then
    if Gen.segSchedule_force now 0 s.expire (fun _ => extend) then sForcePurge { s with pend := true }
    else ({ expire := now + extend, pend := true }, false)
  else ({ expire := s.expire + extend, pend := true }, false)

end PurgeM
