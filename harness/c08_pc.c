// C08 oracle (second half of the property): a producer/consumer workload with a bounded number of live blocks runs in bounded memory.
// The owner thread allocates, a helper thread frees (driven by semaphores: deterministic hand-over, no races in the harness itself).
// Patterns:  0 plain hand-over (owner allocates a batch, helper frees all of it)
//            1 first remote free of a page arrives while the page still has room, the owner drains the delayed list, fills the pages,
//              then the helper frees everything except one block per page
//            2 helper frees every second block, the owner the others
// After every round: number of heap areas (pages) of the size class and committed bytes; FAIL when they keep growing.
// usage: c08_pc <pattern> <block size> <rounds>
#include VERIF_STATIC_C
#include <stdio.h>
#include <stdlib.h>
#include <pthread.h>
#include <semaphore.h>
static int nfail = 0;
#define FAIL(key, ...) do { if (nfail++ < 10) { printf("FAIL %s ", key); printf(__VA_ARGS__); printf("\n"); fflush(stdout); } } while (0)
static sem_t sem_go, sem_done; static void** volatile job_ptrs; static volatile size_t job_count; static volatile int job_quit;
static void* helper(void* arg) { (void)arg; for (;;) { sem_wait(&sem_go); if (job_quit) break; for (size_t i = 0; i < job_count; i++) mi_free(job_ptrs[i]); sem_post(&sem_done); } return NULL; }
static void remote_free(void** ptrs, size_t count) { if (count == 0) return; job_ptrs = ptrs; job_count = count; sem_post(&sem_go); sem_wait(&sem_done); }
typedef struct { size_t areas, used, committed; } census_t;
static size_t BS;
static bool visit(const mi_heap_t* heap, const mi_heap_area_t* area, void* block, size_t bsize, void* arg) { (void)heap; (void)block; (void)bsize; census_t* c = (census_t*)arg; c->areas++; c->used += area->used; c->committed += area->committed; return true; }
static census_t census(void) { census_t c = { 0, 0, 0 }; mi_heap_visit_blocks(mi_heap_get_default(), false, &visit, &c); return c; }
enum { MAXB = 60000 };
static void* blk[MAXB]; static void* tofree[MAXB];
int main(int argc, char** argv) {
  int pattern = argc > 1 ? atoi(argv[1]) : 0; BS = argc > 2 ? (size_t)atol(argv[2]) : 64; int rounds = argc > 3 ? atoi(argv[3]) : 8;
  mi_option_set(mi_option_show_errors, 0); mi_option_set(mi_option_verbose, 0);
  sem_init(&sem_go, 0, 0); sem_init(&sem_done, 0, 0);
  pthread_t th; pthread_create(&th, NULL, &helper, NULL);
  size_t per_page = (BS <= 1024 ? (size_t)65536 / BS : (BS <= 131072 ? (size_t)524288 / BS : 1)); if (per_page == 0) per_page = 1;
  size_t npages = (BS <= 1024 ? 40 : (BS <= 131072 ? 12 : 6));
  size_t total = npages * per_page; if (total > MAXB) total = MAXB;
  if (pattern == 1 && per_page < 8) { printf("SKIP pattern 1 needs several blocks per page\nDONE fails 0\n"); return 0; }
  census_t hist[64];
  void* keep[512]; size_t nkeep_prev = 0; static void* keep_prev[4096];
  for (int r = 0; r < rounds && r < 64; r++) {
    size_t n = 0, nfree = 0, nkeep = 0; mi_page_t* cur = NULL;
    for (n = 0; n < total; n++) {
      void* p = mi_malloc(BS); if (!p) { FAIL("alloc_failed", "round %d block %zu", r, n); break; }
      memset(p, 0x3c, BS < 64 ? BS : 64); blk[n] = p;
      if (pattern == 1 && _mi_ptr_page(p) != cur) {      // first block of a page not seen in this round: an early remote free, then drain
        cur = _mi_ptr_page(p);
        void* q = mi_malloc(BS); if (q) { void* one[1] = { q }; remote_free(one, 1); mi_collect(false); }
      }
    }
    // pattern 1 keeps one block per page of every round until the end (a page with a live block cannot simply be released by a collect;
    // the live data grows by one block per page and round, the memory must not grow by one page per page and round)
    if (pattern == 0) { for (size_t i = 0; i < n; i++) tofree[nfree++] = blk[i]; }
    else if (pattern == 1) { mi_page_t* seen[512]; size_t ns = 0;
      for (size_t i = 0; i < n; i++) { mi_page_t* pg = _mi_ptr_page(blk[i]); int s = 0; for (size_t k = 0; k < ns; k++) if (seen[k] == pg) s = 1;
        if (!s && ns < 512 && nkeep < 512) { seen[ns++] = pg; keep[nkeep++] = blk[i]; } else tofree[nfree++] = blk[i]; } }
    else { for (size_t i = 0; i < n; i++) { if (i % 2) tofree[nfree++] = blk[i]; else mi_free(blk[i]); } }
    remote_free(tofree, nfree);
    if (r % 2 == 1) mi_collect(false);
    hist[r] = census();
    printf("R %d areas %zu used %zu committed %zu\n", r, hist[r].areas, hist[r].used, hist[r].committed);
    // every block of the round was freed (by the helper and / or the owner) and the owner collected: the heap holds no pages of them any more
    if (r % 2 == 1 && pattern != 1 && hist[r].used == 0 && hist[r].areas > 2 + hist[0].areas / 8)
      { FAIL("collect_keeps_empty_pages", "pattern %d block size %zu round %d: all %zu blocks were freed and the owner called mi_collect(false), yet the heap still holds %zu areas without a live block", pattern, BS, r, total, hist[r].areas); break; }
    if (r == 0 && pattern == 1 && (hist[0].areas == 0 || total / hist[0].areas < 8)) { printf("SKIP pattern 1 needs several blocks per page\n"); break; }
    for (size_t i = 0; i < nkeep && nkeep_prev < 4096; i++) keep_prev[nkeep_prev++] = keep[i];
    // growth criterion: three increases in a row that together exceed 3/4 of the pages one round needs (the blocks kept by pattern 1
    // legitimately cost about one page per round)
    if (r >= 4 && hist[r].areas > hist[r - 1].areas && hist[r - 1].areas > hist[r - 2].areas && hist[r - 2].areas > hist[r - 3].areas && hist[r].areas - hist[r - 3].areas > 3 * (hist[0].areas / 4 > 2 ? hist[0].areas / 4 : 2))
      { FAIL("producer_consumer_grows", "pattern %d block size %zu: %zu blocks are handed over per round and the live data is bounded, yet the heap holds %zu -> %zu -> %zu -> %zu areas (round %d; %zu after round 1)", pattern, BS, total, hist[r - 3].areas, hist[r - 2].areas, hist[r - 1].areas, hist[r].areas, r, hist[1].areas); break; }
  }
  for (size_t i = 0; i < nkeep_prev; i++) mi_free(keep_prev[i]);
  job_quit = 1; sem_post(&sem_go); pthread_join(th, NULL);
  mi_collect(true);
  census_t end = census();
  if (end.used != 0) FAIL("blocks_left_behind", "pattern %d block size %zu: %zu blocks still used after everything was freed and collected", pattern, BS, end.used);
  printf("STAT rounds %d\nDONE fails %d\n", rounds, nfail);
  return 0;
}
