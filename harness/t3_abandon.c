// T3 trace harness for the abandoned-segment hand-over (C09): one owner thread allocates blocks in a fresh segment S and terminates
// (mi_thread_done); the other virtual threads free S's blocks concurrently (reclaim-on-free) and allocate (reclaim on allocation).
// Every atomic operation on S's owner id, on S's bit in the arena's abandoned bitmap and on the sub-process counter is logged:
//   E <tid> store <0|tid> | E <tid> or <old-bit> | E <tid> and <old-bit> | E <tid> inc | E <tid> dec
// and replayed through the proved-sound validator of Model.Abandon by the Lean driver.
// usage: t3_abandon <seed> <threads> <mode> <spurious%> <stay%>    mode bit 1: reclaim only on free (max_segment_reclaim=0)
#include "vsched.h"
#include VERIF_STATIC_C
static int nfail = 0;
#define FAIL(key, ...) do { if (nfail++ < 20) { printf("FAIL %s ", key); printf(__VA_ARGS__); printf("\n"); fflush(stdout); } } while (0)
static mi_segment_t* S = NULL; static volatile void* S_field = NULL; static size_t S_mask = 0;
static int pending[VS_MAXT];   // 1: this thread just set S's bit (next add is S's), 2: just cleared S's bit or tried to (next sub / owner store is S's)
static int tracing = 0;
void verif_log(int kind, const volatile void* addr, unsigned long long a, unsigned long long b, int ok) {
  (void)ok;
  if (!tracing || S == NULL || vs_tid < 0) return;
  int t = vs_tid;
  if (addr == (volatile void*)&S->thread_id) { if (kind == 4) { printf("E %d store %llu\n", t + 1, a ? (unsigned long long)(t + 1) : 0ULL); if (a != 0) pending[t] = 0; } return; }
  if (addr == S_field) {
    if (kind == 8 && (b & S_mask)) { printf("E %d or %d\n", t + 1, (int)((a & S_mask) != 0)); pending[t] = 1; return; }
    if (kind == 7 && ((~b) & S_mask)) { printf("E %d and %d\n", t + 1, (int)((a & S_mask) != 0)); pending[t] = 2; return; }
    if (kind == 7 || kind == 8) { pending[t] = 0; }      // an operation on another segment's bit in the same field
    return;
  }
  if (addr == (volatile void*)&mi_subproc_default.abandoned_count) {
    if (kind == 6 && pending[t] == 1) { printf("E %d inc\n", t + 1); pending[t] = 0; }
    else if (kind == 11 && pending[t] == 2) { printf("E %d dec\n", t + 1); }
    return;
  }
  if (kind == 7 || kind == 8) pending[t] = 0;            // and/or on some other bitmap word: the thread has moved on
}
enum { NB = 40 };
static uint8_t* blk[NB]; static volatile int nready = 0; static volatile int next_free = 0;
static void owner_body(int tid) {
  for (int i = 0; i < NB; i++) { blk[i] = (uint8_t*)mi_malloc(3000); memset(blk[i], 0x40 + i, 3000); }
  S = _mi_ptr_segment(blk[0]);
  size_t ai; mi_bitmap_index_t bi;
  if (S->memid.memkind != MI_MEM_ARENA) { printf("SKIP segment not from an arena\n"); nready = 1; mi_thread_done(); return; }
  mi_arena_memid_indices(S->memid, &ai, &bi);
  mi_arena_t* arena = mi_arena_from_index(ai);
  S_field = &arena->blocks_abandoned[mi_bitmap_index_field(bi)]; S_mask = (size_t)1 << mi_bitmap_index_bit_in_field(bi);
  printf("INIT owner %d\n", tid + 1);
  tracing = 1;
  mi_thread_done();          // abandons S (all its pages hold live blocks)
  nready = 1;
}
static void other_body(int tid) {
  int guard = 0;
  while (!nready && guard++ < 200000) vs_yield();
  for (int r = 0; r < 60; r++) {
    unsigned op = (unsigned)(vs_rnd() % 10);
    if (op < 7) { int i = next_free; if (i < NB) { next_free = i + 1; uint8_t* p = blk[i];
        if (p[0] != 0x40 + i || p[2999] != 0x40 + i) FAIL("content_changed", "block %d of the terminated thread", i);
        mi_free(p); } }
    else if (op < 9) { void* q = mi_malloc(100 + (size_t)(vs_rnd() % 5000)); if (q) { memset(q, 1, 100); mi_free(q); } }
    else vs_yield();
  }
  if (tid != 0) mi_thread_done();
}
static bool count_live(const mi_heap_t* h, const mi_heap_area_t* a, void* b, size_t sz, void* arg) { (void)h; (void)a; (void)sz; if (b != NULL) (*(long*)arg)++; return true; }
int main(int argc, char** argv) {
  uint64_t seed = argc > 1 ? strtoull(argv[1], 0, 10) : 1; int nth = argc > 2 ? atoi(argv[2]) : 4; if (nth < 3) nth = 3; if (nth > VS_MAXT) nth = VS_MAXT;
  int mode = argc > 3 ? atoi(argv[3]) : 0; if (argc > 4) vs_spurious_pct = atoi(argv[4]); if (argc > 5) vs_stay_pct = atoi(argv[5]);
  setvbuf(stdout, NULL, _IOLBF, 0);   // the events before a crash are part of the replay
  mi_option_set(mi_option_show_errors, 0); mi_option_set(mi_option_verbose, 0);
  mi_option_set(mi_option_abandoned_reclaim_on_free, 1);
  if (mode & 1) mi_option_set(mi_option_max_segment_reclaim, 0);
  void* warm = mi_malloc(8); mi_free(warm);
  vs_init(seed, nth);
  vs_fn bodies[VS_MAXT]; bodies[0] = other_body; bodies[1] = owner_body; for (int i = 2; i < nth; i++) bodies[i] = other_body;
  vs_run(bodies);
  tracing = 0;
  for (int i = next_free; i < NB; i++) mi_free(blk[i]);
  mi_collect(true); mi_collect(true);
  size_t abandoned = mi_atomic_load_relaxed(&mi_subproc_default.abandoned_count);
  if (abandoned > ((size_t)1 << 40)) FAIL("abandoned_count_underflow", "abandoned_count = %zu", abandoned);
  else if (abandoned != 0) FAIL("abandoned_left_behind", "%zu abandoned segments after everything was freed and collected", abandoned);
  long live = 0; mi_heap_visit_blocks(mi_heap_get_default(), true, &count_live, &live);
  if (live != 0) FAIL("blocks_left_behind", "%ld blocks are still live in the surviving thread's heap although every block was freed", live);
  printf("done points %ld fails %d\n", vs_points, nfail); fflush(stdout);
  return 0;
}
