/- C02 — no double hand-out or corruption under concurrent alloc and cross-thread free.
   Model: MiVerif/Model/Delayed.lean — one page, its owner thread and any number of in-flight remote frees, one
   transition per atomic operation of free.c / page.c (including failed and spurious weak CAS).  `Reach` is any finite
   interleaving.  The model is tied to the code by trace validation (Driver/DelayedValidate.lean: logs of the hooked
   real allocator under the deterministic scheduler are replayed through `exec`, proved sound w.r.t. `Step`). -/
import MiVerif.Lemmas.DelayedReach
import MiVerif.Lemmas.DelayedSound
import MiVerif.Lemmas.C02

namespace C02
open Delayed

/-- the invariant holds in every state of every interleaving -/
theorem inv_reachable {s0 s : St} (h0 : Inv s0) (hr : Reach s0 s) : Inv s :=
  inv_reach h0 hr

/-- conservation: in every reachable state every block is in exactly one place
    (page thread-free list, heap delayed list, owner's taken-over list, block in progress, free, local-free, live, or held by an in-flight free) -/
theorem conservation {s0 s : St} (h0 : Inv s0) (hr : Reach s0 s) : (allBlocks s).Nodup :=
  (inv_reach h0 hr).nodup

/-- no atomic step of any thread loses or invents a block -/
theorem step_keeps_blocks {s s' : St} (h : Step s s') (hi : Inv s) : ∀ b, b ∈ allBlocks s' ↔ b ∈ allBlocks s :=
  have _ := hi; step_mem h

/-- no double hand-out: the block an allocation is about to return is not live, not held by any in-flight free and on no other list -/
theorem malloc_fresh {s0 s : St} (h0 : Inv s0) (hr : Reach s0 s) {b : Blk} {rest : List Blk} (hf : s.free = b :: rest) :
    b ∉ s.live ∧ b ∉ held s.fl ∧ b ∉ s.tf ∧ b ∉ s.dl ∧ b ∉ s.pend ∧ b ∉ s.own.map (·.1) ∧ b ∉ s.lf ∧ b ∉ rest :=
  malloc_fresh_of_nodup (inv_reach h0 hr).nodup hf

/-- a block becomes live only by being popped from the head of the free list -/
theorem live_only_by_malloc {s s' : St} (h : Step s s') {b : Blk} (hb : b ∈ s'.live) (hnb : b ∉ s.live) :
    s.free.head? = some b :=
  Delayed.live_only_by_malloc h hb hnb

/-- a freed block is handed out again at most once: after the allocation that returns `b`, `b` is on no list -/
theorem handed_out_once {s0 s : St} (h0 : Inv s0) (hr : Reach s0 s) {b : Blk} (hb : b ∈ s.live) :
    b ∉ s.free ∧ b ∉ s.lf ∧ b ∉ s.tf ∧ b ∉ s.dl ∧ b ∉ s.pend ∧ b ∉ held s.fl ∧ s.live.count b = 1 :=
  live_unique_of_nodup (inv_reach h0 hr).nodup hb

/-- the delayed-freeing state is held by exactly one in-flight free, in every reachable state -/
theorem freeing_flag_exclusive {s0 s : St} (h0 : Inv s0) (hr : Reach s0 s) :
    (s.flag = .freeing → nFreeing s.fl = 1) ∧ (s.flag ≠ .freeing → nFreeing s.fl = 0) :=
  (inv_reach h0 hr).freeing1

/-- every log accepted by the trace validator is an execution of the model, so all of the above hold along it -/
theorem accepted_log_is_execution {s : St} {ls : List Lbl} {s' : St} (h : ls.foldlM exec s = some s') : Reach s s' :=
  foldlM_exec_reach h

/-- non-vacuity: a concrete initial state satisfies the invariant (40 live blocks, 24 free, nothing in flight) -/
example : Inv { tf := [], flag := .use, dl := [], pend := [], own := [], free := [40, 41, 42], lf := [], live := [0, 1, 2], fl := [] } := by
  refine ⟨by decide, by decide, ?_, ?_, by decide, by decide⟩ <;> simp

end C02
