import MiVerif.Model.BitSeq
/- correspondence driver for C14: every step of the real bitmap functions is checked against the sequential specification -/
namespace C14Val
open BitSeq
def hexNat (s : String) : Nat := s.toList.foldl (fun a c => a * 16 + (if '0' ≤ c ∧ c ≤ '9' then c.toNat - 48 else if 'a' ≤ c ∧ c ≤ 'f' then c.toNat - 87 else 0)) 0
partial def loop (h : IO.FS.Stream) (n d : Nat) : IO (Nat × Nat) := do
  let line ← h.getLine
  if line.isEmpty then return (n, d)
  let line := line.trimAscii.toString
  let ws := (line.splitOn " ").filter (· ≠ "")
  match ws with
  | ["B", b0, b1, b2, "|", op, x, y, "->", ok, idx, "|", "A", a0, a1, a2] =>
    let before := ofFields [hexNat b0, hexNat b1, hexNat b2]
    let after := ofFields [hexNat a0, hexNat a1, hexNat a2]
    let okb := ok == "1"
    let good :=
      if op == "claim" then claimOk before after okb idx.toNat! y.toNat!
      else if op == "tryclaim" then claimOk before after okb x.toNat! y.toNat!
      else if op == "unclaim" then unclaimOk before after okb x.toNat! y.toNat!
      else after == before
    if !good && d < 15 then IO.println s!"DIFF {line} || the step is not allowed by the claim/unclaim specification"
    loop h (n + 1) (if good then d else d + 1)
  | _ => loop h n d
def main (stdin : IO.FS.Stream) : IO UInt32 := do
  let (n, d) ← loop stdin 0 0
  IO.println s!"c14val cases {n} diffs {d}"
  return (if d == 0 then 0 else 1)
end C14Val
