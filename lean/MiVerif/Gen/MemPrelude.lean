/- memory mode of the translator (DESIGN.md 2.1): a write buffer over an arbitrary initial memory -/
abbrev Mem := List ((String × Nat) × Nat)
def rdm (rd0 : String → Nat → Nat) (m : Mem) (f : String) (a : Nat) : Nat :=
  match m.find? (fun e => e.1 == (f, a)) with
  | some e => e.2
  | none => rd0 f a
def wrm (m : Mem) (f : String) (a v : Nat) : Mem := ((f, a), v) :: m
