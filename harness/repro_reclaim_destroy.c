#include "/repo/src/static.c"
#include <stdio.h>
#include <pthread.h>
static void* blk[8];
static void* body(void* a){ for(int i=0;i<8;i++){ blk[i]=mi_malloc(1000); memset(blk[i],0x77,1000);} return NULL; }
int main(){ void* w=mi_malloc(10); (void)w;
  pthread_t t; pthread_create(&t,NULL,body,NULL); pthread_join(t,NULL);
  mi_heap_t* H=mi_heap_new();
  // allocate different size classes from H so that it needs fresh pages (and may reclaim the abandoned segment)
  // H needs fresh segments: every new segment request first tries to reclaim an abandoned one
  for (int i=0;i<3000;i++) { void* q=mi_heap_malloc(H, 60000); (void)q; }
  int inH=0; for(int i=0;i<8;i++) if(mi_heap_contains_block(H,blk[i])) inH++;
  printf("blocks of the exited thread now owned by the destroyable heap H: %d of 8 (no_reclaim=%d)\n", inH, (int)H->no_reclaim);
  mi_heap_destroy(H);
  void* z[4000]; for(int i=0;i<4000;i++){ z[i]=mi_malloc(1000); memset(z[i],0,1000);} 
  int bad=0; for(int i=0;i<8;i++) for(int k=0;k<1000;k++) if(((unsigned char*)blk[i])[k]!=0x77){bad++;break;}
  printf("live blocks of the exited thread damaged after mi_heap_destroy(H): %d of 8\n", bad);
  return bad!=0; }
