import MiVerif.Gen.Arith
/-! C07 — commit bookkeeping under OS refusals.
    Two small machines at the granularity of the bookkeeping units, with the outcome of every OS request a parameter
    (so a theorem over all outcome arguments is a theorem over all fault sequences):
    * `Seg`  : commit_mask / purge_mask of one segment (units of MI_COMMIT_SIZE = 64 KiB) against `os` = "every OS page of the unit
               is accessible"; operations mi_segment_commit, mi_segment_purge, mi_segment_ensure_committed as in src/segment.c, with
               the range arithmetic taken from the *regenerated* `Gen.mi_segment_commit_mask`;
    * `Arena`: blocks_inuse / blocks_committed / blocks_purge of one arena (units of 32 MiB blocks) against `os`;
               mi_arena_try_alloc_at, _mi_arena_free, mi_arena_purge as in src/arena.c. -/
namespace CommitM

abbrev Mask := Nat → Bool
def setR (m : Mask) (i n : Nat) : Mask := fun k => if i ≤ k ∧ k < i + n then true else m k
def clrR (m : Mask) (i n : Nat) : Mask := fun k => if i ≤ k ∧ k < i + n then false else m k
def allSet (m : Mask) (i n : Nat) : Bool := (List.range n).all (fun k => m (i + k))
def anySet (m : Mask) (i n : Nat) : Bool := (List.range n).any (fun k => m (i + k))

theorem allSet_iff (m : Mask) (i n : Nat) : allSet m i n = true ↔ ∀ k, i ≤ k → k < i + n → m k = true := by
  unfold allSet
  rw [List.all_eq_true]
  constructor
  · intro h k h1 h2
    have := h (k - i) (List.mem_range.2 (by omega))
    have e : i + (k - i) = k := by omega
    rw [e] at this; exact this
  · intro h k hk
    exact h (i + k) (by omega) (by have := List.mem_range.1 hk; omega)

@[simp] theorem setR_in (m : Mask) (i n k : Nat) (h1 : i ≤ k) (h2 : k < i + n) : setR m i n k = true := by simp [setR, h1, h2]
@[simp] theorem clrR_in (m : Mask) (i n k : Nat) (h1 : i ≤ k) (h2 : k < i + n) : clrR m i n k = false := by simp [clrR, h1, h2]
theorem setR_out (m : Mask) (i n k : Nat) (h : ¬ (i ≤ k ∧ k < i + n)) : setR m i n k = m k := by simp [setR, h]
theorem clrR_out (m : Mask) (i n k : Nat) (h : ¬ (i ≤ k ∧ k < i + n)) : clrR m i n k = m k := by simp [clrR, h]
theorem setR_of (m : Mask) (i n k : Nat) (h : m k = true) : setR m i n k = true := by unfold setR; split <;> simp [h]
theorem clrR_true (m : Mask) (i n k : Nat) (h : clrR m i n k = true) : m k = true := by
  unfold clrR at h; split at h
  · cases h
  · exact h

/-! ### segment -/
structure Seg where
  commit : Mask
  purge  : Mask
  os     : Mask      -- os k : every OS page of commit unit k of the segment is accessible
  info   : Nat       -- segment_info_slices
  slices : Nat       -- segment_slices
  base   : Nat       -- address of the segment

/-- start address, size and mask (first bit, count) for a block range at offset `D`: the regenerated function of src/segment.c -/
def rangeOf (s : Seg) (conservative D size : Nat) : Nat × Nat × (Nat × Nat) :=
  Gen.mi_segment_commit_mask (0, 0) 0 s.info (fun _ => s.slices * 65536) (fun i n => (i, n)) (0, 0) s.base conservative (s.base + D) size 0 0 0

/-- mi_segment_commit; `osOk` is the answer of `_mi_os_commit` (consulted only if the request is made) -/
def segCommit (s : Seg) (D size : Nat) (osOk : Bool) : Seg × Bool :=
  let r := rangeOf s 0 D size
  let i := r.2.2.1; let n := r.2.2.2
  if n = 0 ∨ r.2.1 = 0 then (s, true)
  else if allSet s.commit i n then ({ s with purge := clrR s.purge i n }, true)
  else if osOk then ({ s with commit := setR s.commit i n, os := setR s.os i n, purge := clrR s.purge i n }, true)
  else (s, false)

/-- does mi_segment_commit ask the OS at all? (so the harness knows whether the injected outcome was consumed) -/
def segCommitAsks (s : Seg) (D size : Nat) : Bool :=
  let r := rangeOf s 0 D size
  !(r.2.2.2 = 0 ∨ r.2.1 = 0) && !allSet s.commit r.2.2.1 r.2.2.2

/-- mi_segment_purge (allow_purge = true); `needsRecommit` is the answer of `_mi_os_purge`, `osGone` whether the OS really revoked access -/
def segPurge (s : Seg) (D size : Nat) (needsRecommit osGone : Bool) : Seg :=
  let r := rangeOf s 1 D size
  let i := r.2.2.1; let n := r.2.2.2
  if n = 0 ∨ r.2.1 = 0 then s
  else if anySet s.commit i n then
    { s with commit := if needsRecommit then clrR s.commit i n else s.commit,
             os := if osGone then clrR s.os i n else s.os,
             purge := clrR s.purge i n }
  else { s with purge := clrR s.purge i n }

/-- mi_segment_schedule_purge with a positive delay that has not expired: the committed part of the (conservative) range is registered -/
def segSchedule (s : Seg) (D size : Nat) : Seg :=
  let r := rangeOf s 1 D size
  let i := r.2.2.1; let n := r.2.2.2
  if n = 0 ∨ r.2.1 = 0 then s
  else { s with purge := fun k => if i ≤ k ∧ k < i + n then (s.commit k || s.purge k) else s.purge k }

def isFull (m : Mask) : Bool := allSet m 0 512
def isEmpty (m : Mask) : Bool := !anySet m 0 512

/-- mi_segment_ensure_committed followed by handing out the span (mi_segment_span_allocate): `none` = no page is handed out -/
def segAlloc (s : Seg) (D size : Nat) (osOk : Bool) : Seg × Option (Nat × Nat) :=
  if isFull s.commit && isEmpty s.purge then (s, some (D, size))
  else
    let r := segCommit s D size osOk
    if r.2 then (r.1, some (D, size)) else (r.1, none)

/-- the bookkeeping never claims more than the OS granted -/
def SInv (s : Seg) : Prop := ∀ k, s.commit k = true → s.os k = true

inductive SOp where
  | commit (D size : Nat) (osOk : Bool)
  | purge (D size : Nat) (needsRecommit osGone : Bool)
  | alloc (D size : Nat) (osOk : Bool)
  | sched (D size : Nat)

/-- what the OS layer promises about a purge: access is revoked only when it also reports that a re-commit is needed -/
def SOp.honest : SOp → Prop
  | .purge _ _ nr og => og = true → nr = true
  | _ => True

def sStep (s : Seg) : SOp → Seg
  | .commit D size ok => (segCommit s D size ok).1
  | .purge D size nr og => segPurge s D size nr og
  | .alloc D size ok => (segAlloc s D size ok).1
  | .sched D size => segSchedule s D size

/-! ### arena -/
structure Arena where
  inuse : Mask
  committed : Mask
  purge : Mask
  os : Mask          -- os k : every OS page of arena block k is accessible

/-- mi_arena_try_alloc_at after a successful claim of blocks [i, i+n); the Bool is memid.initially_committed -/
def aAlloc (a : Arena) (i n : Nat) (commit osOk : Bool) : Arena × Bool :=
  let a := { a with inuse := setR a.inuse i n, purge := clrR a.purge i n }
  if commit then
    if allSet a.committed i n then (a, true)
    else
      -- the bits are claimed, the OS is asked, and on a refusal the bits are cleared again
      if osOk then ({ a with committed := setR a.committed i n, os := setR a.os i n }, true)
      else ({ a with committed := clrR a.committed i n }, false)
  else
    if allSet a.committed i n then (a, true)
    else ({ a with committed := clrR a.committed i n }, false)

/-- mi_arena_purge -/
def aPurge (a : Arena) (i n : Nat) (needsRecommit osGone : Bool) : Arena :=
  { a with committed := if needsRecommit then clrR a.committed i n else a.committed,
           os := if osGone then clrR a.os i n else a.os,
           purge := clrR a.purge i n }

/-- first part of _mi_arena_free: a range that is not entirely committed is recorded as uncommitted -/
def aMark (a : Arena) (i n : Nat) (allCommitted : Bool) : Arena :=
  if allCommitted then a else { a with committed := clrR a.committed i n }
/-- mi_arena_schedule_purge; `mode` 0: purging disabled, 1: purge now, otherwise: schedule -/
def aSched (a : Arena) (i n : Nat) (mode : Nat) (needsRecommit osGone : Bool) : Arena :=
  if mode = 0 then a else if mode = 1 then aPurge a i n needsRecommit osGone else { a with purge := setR a.purge i n }
/-- _mi_arena_free of blocks [i, i+n): `allCommitted` = (committed_size == size) -/
def aFree (a : Arena) (i n : Nat) (allCommitted : Bool) (mode : Nat) (needsRecommit osGone : Bool) : Arena :=
  let b := aSched (aMark a i n allCommitted) i n mode needsRecommit osGone
  { b with inuse := clrR b.inuse i n }

/-- free blocks that are recorded as committed are accessible -/
def AInv (a : Arena) : Prop := ∀ k, a.inuse k = false → a.committed k = true → a.os k = true

inductive AOp where
  | alloc (i n : Nat) (commit osOk : Bool)
  | free (i n : Nat) (allCommitted : Bool) (mode : Nat) (needsRecommit osGone : Bool)
  | purge (i n : Nat) (needsRecommit osGone : Bool)

def aStep (a : Arena) : AOp → Arena
  | .alloc i n c ok => (aAlloc a i n c ok).1
  | .free i n allc mode nr og => aFree a i n allc mode nr og
  | .purge i n nr og => aPurge a i n nr og

/-- what the caller (a segment being freed) and the OS layer guarantee for one step: `allCommitted` is passed only for a range that
    is accessible, and access is revoked by a purge only when a re-commit is reported as needed -/
def AOp.ok (a : Arena) : AOp → Prop
  | .alloc _ _ _ _ => True
  | .free i n allc _ nr og => (og = true → nr = true) ∧ (allc = true → ∀ k, i ≤ k → k < i + n → a.os k = true)
  | .purge _ _ nr og => og = true → nr = true

def AOk : Arena → List AOp → Prop
  | _, [] => True
  | a, op :: ops => op.ok a ∧ AOk (aStep a op) ops

end CommitM
