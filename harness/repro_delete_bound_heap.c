#include "/repo/src/static.c"
#include <stdio.h>
int main(){ mi_arena_id_t id; if (mi_reserve_os_memory_ex((size_t)8*MI_ARENA_BLOCK_SIZE,false,false,true,&id)!=0) return 2;
  mi_heap_t* A=mi_heap_new_in_arena(id); mi_heap_t* B=mi_heap_new_in_arena(id);
  void* a=mi_heap_malloc(A,100); void* b=mi_heap_malloc(B,200);
  printf("same segment: %d\n", _mi_ptr_segment(a)==_mi_ptr_segment(b));
  mi_heap_delete(A);
  printf("after delete: segment thread_id %s, page heap of a = %p\n", _mi_ptr_segment(a)->thread_id==_mi_thread_id()?"ours":"abandoned/other", (void*)mi_page_heap(_mi_ptr_page(a)));
  fflush(stdout);
  mi_free(a);
  printf("freed a without crash\n"); mi_free(b); return 0; }
