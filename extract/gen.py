"""Generation of lean/MiVerif/Gen/*.lean from the current /repo tree (tie T1).
Each *group* is one generated Lean file.  A group that cannot be generated is replaced by a file that does
not compile, so every theorem depending on it stops checking (never a stale definition)."""
import os, sys, json, subprocess, hashlib, time, traceback
sys.path.insert(0, os.path.dirname(os.path.abspath(__file__)))
import translate as T

RELEASE = ('-DNDEBUG', '-DMI_BUILD_RELEASE')
SECURE = ('-DNDEBUG', '-DMI_BUILD_RELEASE', '-DMI_SECURE=4')

ARITH = '''_mi_wsize_from_size mi_bin _mi_align_up _mi_align_down _mi_divide_up _mi_clamp _mi_is_power_of_two
mi_mul_overflow mi_count_size_overflow mi_slice_bin8 mi_slice_bin _mi_os_good_alloc_size _mi_ptr_segment
mi_segment_calculate_slices _mi_page_ptr_unalign mi_malloc_is_naturally_aligned mi_get_fast_divisor mi_fast_divide
mi_bitmap_mask_ mi_rotl mi_rotr mi_ptr_encode mi_ptr_decode mi_ptr_encode_canary mi_good_size mi_arena_purge_delay
mi_bitmap_index_field mi_bitmap_index_bit_in_field mi_block_count_of_size mi_arena_block_size
_mi_segment_page_start_from_slice mi_page_block_size mi_page_usable_block_size mi_slice_first
mi_bsr mi_clz mi_ctz mi_os_page_align_areax mi_segment_info_size mi_align_up_ptr mi_align_down_ptr
mi_slice_index mi_segment_commit_mask'''.split()

ENTRY = '''mi_mul_overflow mi_count_size_overflow _mi_is_power_of_two _mi_align_up _mi_wsize_from_size mi_bin mi_clz mi_good_size
mi_heap_malloc mi_heap_zalloc mi_heap_calloc mi_calloc mi_heap_mallocn mi_mallocn _mi_heap_malloc_zero _mi_heap_malloc_zero_ex mi_malloc mi_zalloc
mi_heap_malloc_small mi_malloc_small mi_zalloc_small mi_heap_malloc_small_zero mi_find_page
_mi_heap_realloc_zero mi_heap_realloc mi_heap_reallocn mi_heap_reallocf mi_heap_rezalloc mi_heap_recalloc
mi_realloc mi_reallocn mi_reallocf mi_rezalloc mi_recalloc mi_expand
mi_reallocarray mi_reallocarr mi_posix_memalign mi_memalign mi_valloc mi_pvalloc mi_aligned_alloc
mi_malloc_is_naturally_aligned mi_heap_malloc_zero_aligned_at mi_heap_malloc_zero_aligned_at_generic mi_heap_malloc_zero_aligned_at_overalloc
mi_heap_malloc_aligned_at mi_heap_malloc_aligned mi_heap_zalloc_aligned_at mi_heap_zalloc_aligned mi_heap_calloc_aligned_at mi_heap_calloc_aligned
mi_malloc_aligned_at mi_malloc_aligned mi_zalloc_aligned_at mi_zalloc_aligned mi_calloc_aligned_at mi_calloc_aligned
mi_heap_realloc_zero_aligned_at mi_heap_realloc_zero_aligned mi_heap_realloc_aligned_at mi_heap_realloc_aligned mi_heap_rezalloc_aligned_at mi_heap_rezalloc_aligned
mi_heap_recalloc_aligned_at mi_heap_recalloc_aligned mi_realloc_aligned_at mi_realloc_aligned mi_rezalloc_aligned_at mi_rezalloc_aligned mi_recalloc_aligned_at mi_recalloc_aligned
mi_heap_strdup mi_heap_strndup mi_strdup mi_strndup mi_free_size mi_free_size_aligned mi_free_aligned mi_cfree mi_malloc_size mi_malloc_usable_size mi_malloc_good_size mi_usable_size
mi_heap_alloc_new mi_heap_alloc_new_n mi_new mi_new_n mi_new_nothrow'''.split()

SECURE_FNS = '''mi_rotl mi_rotr mi_ptr_encode mi_ptr_decode mi_ptr_encode_canary mi_block_nextx mi_block_set_nextx mi_block_next mi_block_set_next
mi_is_in_same_page mi_check_is_double_free mi_page_decode_padding _mi_padding_shrink mi_page_usable_size_of mi_page_block_size mi_page_usable_block_size
_mi_ptr_page _mi_segment_page_start mi_page_to_slice _mi_segment_page_start_from_slice _mi_align_up _mi_ptr_segment _mi_segment_page_of mi_slice_first mi_slice_to_page'''.split()

GROUPS = {
    # name: dict(kind, ...)
    'Arith': dict(kind='translate', flags=RELEASE, names=ARITH, mem=False),
    'Tables': dict(kind='tables', flags=RELEASE),
    'Secure': dict(kind='translate', flags=SECURE, names=SECURE_FNS, namespace='GenS', log_errors=True),
    'Os': dict(kind='translate', flags=RELEASE, names=['_mi_os_free_ex', '_mi_os_good_alloc_size', '_mi_align_up', 'mi_memkind_is_os', '_mi_os_free', 'mi_align_up_ptr', 'mi_os_prim_alloc_aligned', '_mi_os_alloc_aligned_at_offset'], mem=False, namespace='GenO'),
    'Arena': dict(kind='translate', flags=RELEASE, names=['mi_arena_id_is_suitable', '_mi_arena_memid_is_suitable', 'mi_arena_id_index', 'mi_arena_id_create', '_mi_arena_id_none', 'mi_block_count_of_size', 'mi_arena_block_size', 'mi_arena_size'], mem=False, namespace='GenA', strict=False),
    'Purge': dict(kind='custom', flags=RELEASE, fn='gen_purge'),
    # functions with `while` loops (-> whileN): mi_arena_purge_range (two nested loops; its calls of mi_arena_purge as effect log) and
    # mi_page_free_list_extend (the stores that thread the fresh blocks into the free list as effect log), the commit-mask loops of
    # segment.c, the bounded string functions of libc.c (stores as effect log, loads through the oracle ld8)
    'Loops': dict(kind='translate', flags=RELEASE, names=['mi_bitmap_index_create_ex', 'mi_bitmap_index_create', 'mi_arena_purge_range', 'mi_page_block_at', 'mi_page_free_list_extend', 'mi_commit_mask_create', '_mi_commit_mask_committed_size', '_mi_strnlen', '_mi_strlcpy', '_mi_strlcat'], mem=False, namespace='GenL'),
    'Formats': dict(kind='custom', flags=RELEASE, fn='gen_formats'),
    'Override': dict(kind='custom', flags=RELEASE + ('-DMI_MALLOC_OVERRIDE', '-DMI_SHARED_LIB', '-DMI_SHARED_LIB_EXPORT'), fn='gen_override'),
    'Commit': dict(kind='custom', flags=RELEASE, fn='gen_commit'),
    'ArenaGen': dict(kind='custom', flags=RELEASE, fn='gen_arena'),
    'Entry': dict(kind='translate', flags=RELEASE, names=ENTRY, mem=False, explicit_in=('mi_posix_memalign',), namespace='GenE'),
}

def c_unescape(lit):
    """value of a C string literal as clang prints it (with quotes, possibly several concatenated pieces)"""
    out = []; i = 0; n = len(lit); instr = False
    while i < n:
        ch = lit[i]
        if not instr:
            if ch == '"': instr = True
            i += 1; continue
        if ch == '"':
            instr = False; i += 1; continue
        if ch == '\\':
            i += 1; e = lit[i]
            simple = {'n': '\n', 't': '\t', 'r': '\r', '0': '\0', '\\': '\\', '"': '"', "'": "'", 'a': '\a', 'b': '\b', 'f': '\f', 'v': '\v', '?': '?'}
            if e == 'x':
                j = i + 1
                while j < n and lit[j] in '0123456789abcdefABCDEF': j += 1
                out.append(chr(int(lit[i + 1:j], 16) & 0xff)); i = j; continue
            if e in '01234567':
                j = i
                while j < n and j < i + 3 and lit[j] in '01234567': j += 1
                out.append(chr(int(lit[i:j], 8) & 0xff)); i = j; continue
            out.append(simple.get(e, e)); i += 1; continue
        out.append(ch); i += 1
    return ''.join(out)


def lean_str(s):
    r = []
    for ch in s:
        o = ord(ch)
        if ch == '"': r.append('\\"')
        elif ch == '\\': r.append('\\\\')
        elif ch == '\n': r.append('\\n')
        elif ch == '\t': r.append('\\t')
        elif ch == '\r': r.append('\\r')
        elif 32 <= o < 127: r.append(ch)
        else: r.append('\\x%02x' % (o & 0xff))
    return '"' + ''.join(r) + '"'


PURGE_GUARDS = [
    # (lean name, C function, identifiers of the condition, kwargs, doc)
    ('arenasTryPurge_skip', 'mi_arenas_try_purge', ['force', 'arenas_expire', 'now'], {}, 'early exit of mi_arenas_try_purge'),
    ('arenaTryPurge_skip', 'mi_arena_try_purge', ['force', 'expire', 'now'], {}, 'early exit of mi_arena_try_purge'),
    ('arenaSchedule_never', 'mi_arena_schedule_purge', ['delay'], {'index': 0}, 'mi_arena_schedule_purge: purging not allowed at all'),
    ('arenaSchedule_now', 'mi_arena_schedule_purge', ['delay'], {'index': 1, 'then_any': True, 'allow_extra': True}, 'mi_arena_schedule_purge: purge directly'),
    ('segTryPurge_skip', 'mi_segment_try_purge', ['force', 'now', 'segment'], {'allow_extra': True}, 'not-yet-expired exit of mi_segment_try_purge'),
    ('segSchedule_first', 'mi_segment_schedule_purge', ['segment'], {'index': 1, 'then_any': True, 'allow_extra': True}, 'mi_segment_schedule_purge: no purge pending yet'),
    ('segSchedule_expired', 'mi_segment_schedule_purge', ['now', 'segment'], {'index': 0, 'then_any': True, 'allow_extra': True}, 'mi_segment_schedule_purge: pending purge already expired'),
    ('segSchedule_force', 'mi_segment_schedule_purge', ['now', 'segment'], {'index': 1, 'then_any': True, 'allow_extra': True}, 'mi_segment_schedule_purge: expired long enough to purge at once'),
]


def gen_purge(tu, spec):
    """decision points of the purge machinery as Lean predicates (guard extraction, DESIGN.md 2.1)"""
    L = ['-- GENERATED by /verif/extract/gen.py (guard extraction from %s/src/arena.c and segment.c). DO NOT EDIT.' % tu.repo,
         'import MiVerif.Gen.Prelude', HEADER, 'namespace Gen']
    for name, fn, ids, kw, doc in PURGE_GUARDS:
        ps, c = T.extract_guard(tu, fn, ids, **kw)
        L.append('/-- %s -/' % doc)
        L.append('def %s %s : Bool :=\n  decide (%s)' % (name, ps, c))
    L.append('end Gen')
    return '\n'.join(L) + '\n'


def gen_formats(tu, spec):
    """every string literal of the translation unit that contains a '%' (the formats the allocator passes to its own printf)"""
    found = set()
    def walk(n):
        if n.get('kind') == 'StringLiteral':
            v = c_unescape(n.get('value', ''))
            if '%' in v and len(v) < 400:
                found.add(v)
        for c in n.get('inner', []):
            walk(c)
    for f in tu.FNS.values():
        walk(f)
    if not found:
        raise T.TranslateError('no format strings found')
    L = ['-- GENERATED by /verif/extract/gen.py from the string literals of %s/src/static.c. DO NOT EDIT.' % tu.repo, 'namespace Gen',
         'def internalFormats : List String := [']
    L.append(',\n'.join('  ' + lean_str(v) for v in sorted(found)))
    L.append(']')
    def lean_char(ch):
        o = ord(ch)
        if ch == "'": return "'\\''"
        if ch == '\\': return "'\\\\'"
        if ch == '\n': return "'\\n'"
        if ch == '\t': return "'\\t'"
        if ch == '\r': return "'\\r'"
        if 32 <= o < 127: return "'%s'" % ch
        return "'\\x%02x'" % (o & 0xff)
    L.append('/-- the same table as character lists (cheap to evaluate in the kernel) -/')
    L.append('def internalFormatChars : List (List Char) := [')
    L.append(',\n'.join('  [' + ', '.join(lean_char(c) for c in v) + ']' for v in sorted(found)))
    L.append(']\nend Gen')
    L += ['-- HEX ' + v.encode('latin-1', 'replace').hex() for v in sorted(found)]
    return '\n'.join(L) + '\n'


def override_build_dir(repo):
    import vcommon
    return os.path.join(vcommon.CACHE, 'override', vcommon.repo_hash())


def build_override_artifacts(repo):
    """cmake build of the shared library and the single override object from the current tree (cached per source hash)"""
    d = override_build_dir(repo)
    so = os.path.join(d, 'libmimalloc.so'); obj = os.path.join(d, 'mimalloc.o')
    if os.path.exists(so) and os.path.exists(obj):
        return so, obj
    import shutil
    root = os.path.dirname(d)
    if os.path.isdir(root):
        for old in os.listdir(root):
            shutil.rmtree(os.path.join(root, old), ignore_errors=True)
    os.makedirs(d, exist_ok=True)
    b = os.path.join(d, 'b')
    p = subprocess.run(['cmake', '-G', 'Ninja', '-S', repo, '-B', b, '-DCMAKE_BUILD_TYPE=Release', '-DMI_BUILD_TESTS=OFF'], capture_output=True, text=True)
    if p.returncode != 0:
        raise T.TranslateError('cmake configure failed: ' + (p.stdout + p.stderr)[-1500:])
    p = subprocess.run(['cmake', '--build', b, '-j', '16'], capture_output=True, text=True)
    if p.returncode != 0:
        raise T.TranslateError('cmake build failed: ' + (p.stdout + p.stderr)[-1500:])
    real = os.path.realpath(os.path.join(b, 'libmimalloc.so'))
    if not os.path.exists(real) or not os.path.exists(os.path.join(b, 'mimalloc.o')):
        raise T.TranslateError('the cmake build did not produce libmimalloc.so and mimalloc.o')
    shutil.copy(real, so); shutil.copy(os.path.join(b, 'mimalloc.o'), obj)
    shutil.rmtree(b, ignore_errors=True)
    return so, obj


def gen_override(tu, spec):
    """(1) the dynamic symbols defined by the libmimalloc.so and the global symbols of the mimalloc.o that cmake builds from the current tree;
       (2) for every function defined in src/alloc-override.c: the function it forwards to (alias attribute, or the single call in its body) and which of its
           parameters it passes on, read from the clang AST of the translation unit compiled with MI_MALLOC_OVERRIDE"""
    so, obj = build_override_artifacts(tu.repo)
    def syms(args):
        p = subprocess.run(['nm'] + args, capture_output=True, text=True)
        if p.returncode != 0:
            raise T.TranslateError('nm failed: ' + p.stderr[-500:])
        out = []
        for l in p.stdout.splitlines():
            q = l.split()
            if len(q) >= 3 and q[1] in 'TWtwi':
                if q[1] in 'TWi':
                    out.append(q[2].split('@')[0])
        return sorted(set(out))
    exp_so = syms(['-D', '--defined-only', so]); exp_obj = syms(['--defined-only', '--extern-only', obj])
    fw = []; odd = []
    def strip(e):
        while e.get('kind') in ('ImplicitCastExpr', 'ParenExpr', 'CStyleCastExpr') and e.get('inner'):
            e = e['inner'][0]
        return e
    curfile = None
    for o in tu.ast.get('inner', []):
        loc = o.get('loc', {})
        f = loc.get('file') or loc.get('expansionLoc', {}).get('file') or loc.get('spellingLoc', {}).get('file')
        if f:
            curfile = f
        if o.get('kind') != 'FunctionDecl' or not (curfile or '').endswith('alloc-override.c'):
            continue
        name = o['name']
        params = [c['name'] for c in o.get('inner', []) if c.get('kind') == 'ParmVarDecl' and 'name' in c]
        nparams = len([c for c in o.get('inner', []) if c.get('kind') == 'ParmVarDecl'])
        alias = [c for c in o.get('inner', []) if c.get('kind') == 'AliasAttr']
        body = [c for c in o.get('inner', []) if c.get('kind') == 'CompoundStmt']
        if alias:
            # clang 14 does not print the aliasee in the JSON dump: take it from the source text of the attribute
            a = alias[0]; rng = a.get('range', {})
            b0 = rng.get('begin', {}); e0 = rng.get('end', {})
            target = None
            for key in ('spellingLoc', 'expansionLoc'):
                pass
            target = a.get('aliasee')
            if target is None:
                target = _alias_from_source(tu.repo, o)
            if target is None:
                odd.append(name + ': alias target not found'); continue
            fw.append((name, target, list(range(nparams))))
        elif body:
            calls = []
            def walk(n):
                if n.get('kind') == 'CallExpr':
                    calls.append(n); return
                for c in n.get('inner', []):
                    walk(c)
            walk(body[0])
            if len(calls) != 1:
                odd.append('%s: %d calls in the body' % (name, len(calls))); continue
            c = calls[0]; callee = strip(c['inner'][0])
            if callee.get('kind') != 'DeclRefExpr':
                odd.append(name + ': indirect call'); continue
            idx = []
            for a in c['inner'][1:]:
                a = strip(a)
                if a.get('kind') == 'DeclRefExpr' and a['referencedDecl'].get('kind') == 'ParmVarDecl' and a['referencedDecl']['name'] in params:
                    idx.append(params.index(a['referencedDecl']['name']))
                else:
                    idx.append(99)
            fw.append((name, callee['referencedDecl']['name'], idx))
    if not fw:
        raise T.TranslateError('no forwarding functions found in alloc-override.c (is MI_MALLOC_OVERRIDE honoured?)')
    fw = sorted(set((a, b, tuple(c)) for a, b, c in fw))
    L = ['-- GENERATED by /verif/extract/gen.py: symbols of the cmake-built libmimalloc.so / mimalloc.o and the forwards of src/alloc-override.c (clang AST). DO NOT EDIT.',
         'namespace GenV',
         'def exportedSo : List String := [' + ', '.join(lean_str(x) for x in exp_so) + ']',
         'def exportedObj : List String := [' + ', '.join(lean_str(x) for x in exp_obj) + ']',
         '/-- (overriding symbol, function it forwards to, indices of its own parameters it passes on in order; 99 = something else) -/',
         'def forwards : List (String × String × List Nat) := [',
         ',\n'.join('  (%s, %s, [%s])' % (lean_str(a), lean_str(b), ', '.join(str(i) for i in c)) for a, b, c in fw), ']',
         'def notUnderstood : List String := [' + ', '.join(lean_str(x) for x in odd) + ']',
         'end GenV']
    return '\n'.join(L) + '\n'


def gen_commit(tu, spec):
    """the commit-bookkeeping functions of src/segment.c over GenC.SegSt (extract/masktr.py)"""
    import masktr
    return masktr.translate(tu)


def gen_arena(tu, spec):
    """mi_arena_try_alloc_at / mi_arena_purge / mi_arena_schedule_purge of src/arena.c over GenR.ArSt (extract/arenatr.py)"""
    import arenatr
    return arenatr.translate(tu)


def _alias_from_source(repo, fdecl):
    """MI_FORWARD*(fun, ...) on the line of the declaration: the alias target is its first argument"""
    import re
    loc = fdecl.get('loc', {})
    loc = loc.get('expansionLoc', loc)
    line = loc.get('line')
    if line is None:
        rng = fdecl.get('range', {}).get('begin', {}); rng = rng.get('expansionLoc', rng); line = rng.get('line')
    try:
        src = open(os.path.join(repo, 'src', 'alloc-override.c')).read().splitlines()
    except OSError:
        return None
    if line is None:
        return None
    for l in src[line - 1: line + 1]:
        m = re.search(r'MI_FORWARD0?2?1?\w*\(\s*(\w+)', l)
        if m and fdecl['name'] in l:
            return m.group(1)
    return None


HEADER = 'set_option linter.unusedVariables false\nset_option maxRecDepth 4096'

TABLES_C = r'''
#include "%(repo)s/src/static.c"
#include <stdio.h>
int main(void){
  printf("binsizes");
  for (size_t i=0;i<=MI_BIN_FULL;i++) printf(" %%zu", _mi_heap_empty.pages[i].block_size);
  printf("\n");
  printf("const MI_BIN_HUGE %%zu\n", (size_t)MI_BIN_HUGE);
  printf("const MI_BIN_FULL %%zu\n", (size_t)MI_BIN_FULL);
  printf("const MI_SEGMENT_SIZE %%zu\n", (size_t)MI_SEGMENT_SIZE);
  printf("const MI_SEGMENT_SLICE_SIZE %%zu\n", (size_t)MI_SEGMENT_SLICE_SIZE);
  printf("const MI_SLICES_PER_SEGMENT %%zu\n", (size_t)MI_SLICES_PER_SEGMENT);
  printf("const MI_SMALL_OBJ_SIZE_MAX %%zu\n", (size_t)MI_SMALL_OBJ_SIZE_MAX);
  printf("const MI_MEDIUM_OBJ_SIZE_MAX %%zu\n", (size_t)MI_MEDIUM_OBJ_SIZE_MAX);
  printf("const MI_MEDIUM_OBJ_WSIZE_MAX %%zu\n", (size_t)MI_MEDIUM_OBJ_WSIZE_MAX);
  printf("const MI_LARGE_OBJ_SIZE_MAX %%zu\n", (size_t)MI_LARGE_OBJ_SIZE_MAX);
  printf("const MI_MAX_ALLOC_SIZE %%zu\n", (size_t)MI_MAX_ALLOC_SIZE);
  printf("const MI_MAX_ALIGN_SIZE %%zu\n", (size_t)MI_MAX_ALIGN_SIZE);
  printf("const MI_MAX_ALIGN_GUARANTEE %%zu\n", (size_t)MI_MAX_ALIGN_GUARANTEE);
  printf("const MI_BLOCK_ALIGNMENT_MAX %%zu\n", (size_t)MI_BLOCK_ALIGNMENT_MAX);
  printf("const MI_SMALL_SIZE_MAX %%zu\n", (size_t)MI_SMALL_SIZE_MAX);
  printf("const MI_PADDING_SIZE %%zu\n", (size_t)MI_PADDING_SIZE);
  printf("const MI_ARENA_BLOCK_SIZE %%zu\n", (size_t)MI_ARENA_BLOCK_SIZE);
  printf("const MI_SEGMENT_BIN_MAX %%zu\n", (size_t)MI_SEGMENT_BIN_MAX);
  printf("const MI_MAX_SLICE_OFFSET_COUNT %%zu\n", (size_t)MI_MAX_SLICE_OFFSET_COUNT);
  printf("const MI_COMMIT_SIZE %%zu\n", (size_t)MI_COMMIT_SIZE);
  printf("const MI_MINIMAL_COMMIT_SIZE %%zu\n", (size_t)MI_MINIMAL_COMMIT_SIZE);
  printf("const MI_COMMIT_MASK_BITS %%zu\n", (size_t)MI_COMMIT_MASK_BITS);
  printf("const MI_MAX_BLOCKS %%zu\n", (size_t)(MI_SMALL_PAGE_SIZE / sizeof(void*)));
  printf("const sizeof_mi_segment_t %%zu\n", sizeof(mi_segment_t));
  printf("const sizeof_mi_slice_t %%zu\n", sizeof(mi_slice_t));
  printf("const offsetof_slices %%zu\n", offsetof(mi_segment_t, slices));
  printf("spanq");
  for (size_t i=0;i<=MI_SEGMENT_BIN_MAX;i++) printf(" %%zu", tld_empty.segments.spans[i].slice_count);
  printf("\n");
  printf("optdefaults");
  for (int i=0;i<_mi_option_last;i++) printf(" %%ld", options[i].value);
  printf("\n");
  return 0; }
'''

def gen_tables(repo, flags, work):
    src = os.path.join(work, 'tables.c'); exe = os.path.join(work, 'tables')
    open(src, 'w').write(TABLES_C % {'repo': repo})
    p = subprocess.run(['gcc', '-w', '-O0', '-I' + repo + '/include'] + list(flags) + [src, '-o', exe, '-lpthread'], capture_output=True, text=True)
    if p.returncode != 0:
        raise T.TranslateError('tables program does not compile: ' + p.stderr[-1200:])
    out = subprocess.run([exe], capture_output=True, text=True, timeout=60).stdout
    L = ['-- GENERATED by /verif/extract/gen.py by running a program that includes %s/src/static.c. DO NOT EDIT.' % repo, 'namespace Gen']
    for l in out.splitlines():
        p = l.split()
        if p[0] == 'binsizes':
            L.append('def binSizeTable : List Nat := [%s]' % ', '.join(p[1:]))
            L.append('def _mi_bin_size (bin : Nat) : Nat := binSizeTable.getD bin 0')
        elif p[0] == 'spanq':
            L.append('def spanQueueTable : List Nat := [%s]' % ', '.join(p[1:]))
        elif p[0] == 'optdefaults':
            L.append('def optionDefaults : List Int := [%s]' % ', '.join(p[1:]))
        elif p[0] == 'const':
            L.append('def %s : Nat := %s' % (p[1], p[2]))
    L.append('end Gen')
    return '\n'.join(L) + '\n'


def stub(group, msg):
    msg = msg.replace('-/', '- /')
    return '/- TRANSLATION FAILED for group %s:\n%s\n-/\n#check (translation_of_group_%s_failed : Nat)\n' % (group, msg, group)


def generate(repo, outdir, cache, groups=None, force=False):
    import vcommon
    os.makedirs(outdir, exist_ok=True)
    h = vcommon.repo_hash()
    cdir = os.path.join(cache, 'gen', h)
    status_file = os.path.join(cdir, 'status.json')
    want = list(GROUPS) if groups is None else list(groups)
    status = {}
    if os.path.exists(status_file) and not force:
        status = json.load(open(status_file))
    todo = [g for g in want if g not in status]
    if todo:
        os.makedirs(cdir, exist_ok=True)
        tus = {}
        for g in todo:
            spec = GROUPS[g]
            try:
                if spec['kind'] == 'tables':
                    txt = gen_tables(repo, spec['flags'], cdir)
                else:
                    key = tuple(spec['flags'])
                    if key not in tus:
                        tus[key] = T.TU(repo=repo, flags=spec['flags'], workdir=cdir)
                    tu = tus[key]
                    if spec['kind'] == 'translate':
                        txt, bad = tu.translate(spec['names'], mem=spec.get('mem', False), explicit_in=spec.get('explicit_in', ()),
                                                namespace=spec.get('namespace', 'Gen'), log_errors=spec.get('log_errors', False), imports=spec.get('imports', ('MiVerif.Gen.Prelude',)), strict=spec.get('strict', True),
                                                header=HEADER)
                    elif spec['kind'] == 'custom':
                        txt = globals()[spec['fn']](tu, spec)
                    else:
                        raise T.TranslateError('unknown group kind')
                status[g] = None
            except T.TranslateError as e:
                txt = stub(g, str(e)); status[g] = str(e)[:2000]
            except Exception as e:
                txt = stub(g, traceback.format_exc()); status[g] = 'internal translator error: ' + repr(e)[:500]
            open(os.path.join(cdir, g + '.lean'), 'w').write(txt)
        json.dump(status, open(status_file, 'w'))
    for g in want:
        vcommon.write_if_changed(os.path.join(outdir, g + '.lean'), open(os.path.join(cdir, g + '.lean')).read())
    # drop old cache generations (keep the 3 most recent)
    try:
        gd = os.path.join(cache, 'gen')
        ds = sorted(os.listdir(gd), key=lambda d: os.path.getmtime(os.path.join(gd, d)))
        import shutil
        for d in ds[:-3]:
            if d != h:
                shutil.rmtree(os.path.join(gd, d), ignore_errors=True)
    except OSError:
        pass
    return {g: status.get(g) for g in want}


if __name__ == '__main__':
    sys.path.insert(0, os.path.join(os.path.dirname(os.path.dirname(os.path.abspath(__file__))), 'lib'))
    import vcommon
    res = vcommon.regenerate(force='--force' in sys.argv)
    for g, e in res.items():
        print('gen', g, 'ok' if e is None else 'FAILED: ' + e)
    sys.exit(0)
