"""shared by C01, C03, C10, C12, C13, C15: the sequential shadow-model oracle harness/seq.c on the real allocator"""
import os
import vcommon as V

def build(chk, d, flags=V.RELEASE, tag='rel'):
    h = os.path.join(d, 'seq_' + tag)
    ok, log = V.cc_harness(os.path.join(V.HARNESS, 'seq.c'), h, flags=list(flags) + ['-DVERIF_STATIC_C="%s/src/static.c"' % V.REPO])
    if not ok:
        chk.broken_tie('sequential oracle (%s build) does not compile against the current tree' % tag, log[-1500:]); return None
    return h

def run(chk, h, jobs, prefixes, tag='rel', known_suffix=None, timeout=600, crash_key=None):
    """jobs: list of (seed, ops, row, flags); prefixes: FAIL-key prefixes that belong to this property (others are reported by their own check).
    A crash of the allocator is a violation of every property that uses this oracle."""
    if chk.tier != 'thorough':
        timeout = min(timeout, 300)      # a quick run of the oracle takes 5 - 60 s; a hang is reported as a crash (exit 124) after this
    cmds = [([h, str(sd), str(ops), str(row), str(fl)], None, timeout) for sd, ops, row, fl in jobs]
    outs = V.pmap(cmds)
    n = 0
    for (cmd, _, _), (rc, out, err) in zip(cmds, outs):
        args = {'cmd': 'harness/seq ' + ' '.join(cmd[1:]), 'build': tag, 'seed': cmd[1], 'ops': cmd[2], 'option_row': cmd[3], 'flags': cmd[4],
                'how_to_run': 'gcc -O1 -I/repo/include -DVERIF_STATIC_C=\\"/repo/src/static.c\\" [-DNDEBUG -DMI_BUILD_RELEASE | -DMI_DEBUG=2] harness/seq.c -lpthread; ./a.out ' + ' '.join(cmd[1:])}
        if rc != 0 or 'DONE' not in out:
            last = [l for l in out.splitlines() if l][-1:] or ['']
            chk.violation(crash_key(cmd) if crash_key else '%s/seq-crash' % chk.pid, 'allocator crashed / asserted in the sequential history (%s build, seed %s, %s ops, option row %s, flags %s; exit %d): %s %s' %
                          (tag, cmd[1], cmd[2], cmd[3], cmd[4], rc, last[0][:200], err[-300:].replace('\n', ' ')), args)
            continue
        seen = set()
        for l in out.splitlines():
            p = l.split()
            if not p:
                continue
            if p[0] == 'FAIL' and any(p[1].startswith(x) for x in prefixes) and p[1] not in seen:
                seen.add(p[1])
                chk.violation('%s/%s' % (chk.pid, p[1]), '(%s build, seed %s, option row %s, flags %s) %s' % (tag, cmd[1], cmd[3], cmd[4], ' '.join(p[2:])[:400]), args)
            elif p[0] == 'STAT' and p[1] == 'evaluations':
                chk.count(int(p[2])); n += int(p[2])
        chk.distinct(('seq', tag) + tuple(cmd[1:]))
    chk.extra['seq_oracle_runs_' + tag] = chk.extra.get('seq_oracle_runs_' + tag, 0) + len(cmds)
    chk.extra['seq_oracle_api_calls_' + tag] = chk.extra.get('seq_oracle_api_calls_' + tag, 0) + n
    return n
