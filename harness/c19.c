// C19 run-time check (C side): run with LD_PRELOAD=<libmimalloc.so> or linked with mimalloc.o (-rdynamic).
// For every pair (allocating entry point, releasing / resizing / querying entry point) and several sizes: the block comes from the
// mimalloc heap (mi_is_in_heap_region), its usable size agrees between malloc_usable_size and mi_usable_size, and the release really
// returns it to that heap (the number of live blocks reported by mi_heap_visit_blocks drops by one).  Plus the documented return codes.
#define _GNU_SOURCE
#include <stdio.h>
#include <stdlib.h>
#include <string.h>
#include <errno.h>
#include <stdint.h>
#include <stdbool.h>
#include <malloc.h>
#include <dlfcn.h>
#include <limits.h>
#ifdef C19_STATIC
#include <mimalloc.h>
#endif
static int nfail = 0; static long npairs = 0;
#define FAIL(key, ...) do { if (nfail++ < 40) { printf("FAIL %s ", key); printf(__VA_ARGS__); printf("\n"); fflush(stdout); } } while (0)
typedef bool (*visit_fn)(const void* heap, const void* area, void* block, size_t block_size, void* arg);
static bool (*p_in_region)(const void*); static size_t (*p_usable)(const void*); static void* (*p_heap_default)(void); static bool (*p_visit)(const void*, bool, visit_fn, void*);
static void (*p_cfree)(void*); static void* (*p_libc_malloc)(size_t); static void (*p_libc_free)(void*); static void* (*p_libc_memalign)(size_t, size_t); static void* (*p_reallocarray)(void*, size_t, size_t);
static bool counter(const void* h, const void* a, void* b, size_t bs, void* arg) { (void)h; (void)a; (void)bs; if (b) (*(long*)arg)++; return true; }
static long live(void) { long n = 0; p_visit(p_heap_default(), true, &counter, &n); return n; }
static size_t cur_n;
static void* a_malloc(size_t n) { return malloc(n); }
static void* a_calloc(size_t n) { return calloc(1, n); }
static void* a_calloc2(size_t n) { return calloc(n, 1); }
static void* a_realloc0(size_t n) { return realloc(NULL, n); }
static void* a_posix_memalign(size_t n) { void* p = NULL; int e = posix_memalign(&p, 64, n); return e == 0 ? p : NULL; }
static void* a_aligned_alloc(size_t n) { return aligned_alloc(64, (n + 63) / 64 * 64); }
static void* a_memalign(size_t n) { return memalign(128, n); }
static void* a_valloc(size_t n) { return valloc(n); }
static void* a_pvalloc(size_t n) { return pvalloc(n); }
static void* a_reallocarray(size_t n) { return p_reallocarray ? p_reallocarray(NULL, n, 1) : malloc(n); }
static void* a_strdup(size_t n) { char* s = (char*)malloc(n + 1); memset(s, 'x', n); s[n] = 0; char* d = strdup(s); free(s); return d; }
static void* a_strndup(size_t n) { char* s = (char*)malloc(n + 9); memset(s, 'y', n + 8); s[n + 8] = 0; char* d = strndup(s, n); free(s); return d; }
static void* a_realpath(size_t n) { (void)n; return realpath("/tmp/.", NULL); }
static void* a_grown(size_t n) { void* p = malloc(n / 2 + 1); return realloc(p, n + 1); }
static void* a_libc_malloc(size_t n) { return p_libc_malloc ? p_libc_malloc(n) : malloc(n); }
static void* a_libc_memalign(size_t n) { return p_libc_memalign ? p_libc_memalign(256, n) : malloc(n); }
static struct { const char* name; void* (*fn)(size_t); int exact; } A[] = {
  { "malloc", a_malloc, 1 }, { "calloc(1,n)", a_calloc, 1 }, { "calloc(n,1)", a_calloc2, 1 }, { "realloc(NULL,n)", a_realloc0, 1 }, { "posix_memalign", a_posix_memalign, 1 },
  { "aligned_alloc", a_aligned_alloc, 1 }, { "memalign", a_memalign, 1 }, { "valloc", a_valloc, 1 }, { "pvalloc", a_pvalloc, 1 }, { "reallocarray(NULL,n,1)", a_reallocarray, 1 },
  { "strdup", a_strdup, 1 }, { "strndup", a_strndup, 1 }, { "realpath(path,NULL)", a_realpath, 0 }, { "realloc(grown)", a_grown, 1 }, { "__libc_malloc", a_libc_malloc, 1 }, { "__libc_memalign", a_libc_memalign, 1 } };
static void r_free(void* p) { free(p); }
static void r_cfree(void* p) { if (p_cfree) p_cfree(p); else free(p); }
static void r_realloc_free(void* p) { void* q = realloc(p, cur_n * 2 + 100); if (!q) { FAIL("realloc_failed", "n=%zu", cur_n); free(p); return; } if (!p_in_region(q)) FAIL("realloc_result_foreign", "n=%zu", cur_n); free(q); }
static void r_realloc_shrink_free(void* p) { void* q = realloc(p, cur_n / 3 + 1); if (!q) { free(p); return; } free(q); }
static void r_reallocarray_free(void* p) { void* q = p_reallocarray ? p_reallocarray(p, 3, cur_n + 1) : realloc(p, 3 * (cur_n + 1)); if (!q) { FAIL("reallocarray_failed", "n=%zu", cur_n); free(p); return; } free(q); }
static void r_usable_free(void* p) { size_t u = malloc_usable_size(p); memset(p, 0x11, u); free(p); }
static void r_libc_free(void* p) { if (p_libc_free) p_libc_free(p); else free(p); }
static void r_realloc0(void* p) { void* q = realloc(p, 0); if (q) free(q); }
static struct { const char* name; void (*fn)(void*); } R[] = { { "free", r_free }, { "cfree", r_cfree }, { "realloc(grow)+free", r_realloc_free }, { "realloc(shrink)+free", r_realloc_shrink_free }, { "reallocarray+free", r_reallocarray_free },
  { "malloc_usable_size+write+free", r_usable_free }, { "__libc_free", r_libc_free }, { "realloc(p,0)", r_realloc0 } };
int main(void) {
#ifdef C19_STATIC
  p_in_region = (bool (*)(const void*))&mi_is_in_heap_region; p_usable = (size_t (*)(const void*))&mi_usable_size; p_heap_default = (void* (*)(void))&mi_heap_get_default; p_visit = (bool (*)(const void*, bool, visit_fn, void*))&mi_heap_visit_blocks;
#else
  p_in_region = (bool (*)(const void*))dlsym(RTLD_DEFAULT, "mi_is_in_heap_region"); p_usable = (size_t (*)(const void*))dlsym(RTLD_DEFAULT, "mi_usable_size");
  p_heap_default = (void* (*)(void))dlsym(RTLD_DEFAULT, "mi_heap_get_default"); p_visit = (bool (*)(const void*, bool, visit_fn, void*))dlsym(RTLD_DEFAULT, "mi_heap_visit_blocks");
#endif
  if (!p_in_region || !p_usable || !p_heap_default || !p_visit) { printf("SKIP mimalloc is not loaded into this process\n"); return 0; }
  p_cfree = (void (*)(void*))dlsym(RTLD_DEFAULT, "cfree"); p_libc_malloc = (void* (*)(size_t))dlsym(RTLD_DEFAULT, "__libc_malloc"); p_libc_free = (void (*)(void*))dlsym(RTLD_DEFAULT, "__libc_free");
  p_libc_memalign = (void* (*)(size_t, size_t))dlsym(RTLD_DEFAULT, "__libc_memalign"); p_reallocarray = (void* (*)(void*, size_t, size_t))dlsym(RTLD_DEFAULT, "reallocarray");
  static const size_t SZ[] = { 1, 24, 32, 200, 1000, 1024, 9000, 65536, 70000, 300000, 5000000, 40000000 };   // 32, 1024, 65536: exact size classes (a copy that forgets its terminator does not fit)
  for (size_t si = 0; si < sizeof(SZ) / sizeof(SZ[0]); si++) for (size_t ai = 0; ai < sizeof(A) / sizeof(A[0]); ai++) for (size_t ri = 0; ri < sizeof(R) / sizeof(R[0]); ri++) {
    size_t n = SZ[si]; cur_n = n; npairs++;
    long before = live();
    uint8_t* p = (uint8_t*)A[ai].fn(n);
    if (!p) { FAIL("alloc_failed", "%s(%zu)", A[ai].name, n); continue; }
    if (!p_in_region(p)) { FAIL("not_served_by_mimalloc", "%s(%zu) returned %p which is not in the mimalloc heap (so %s would be handed foreign memory)", A[ai].name, n, (void*)p, R[ri].name); continue; }
    size_t want = A[ai].exact ? n : strlen((char*)p) + 1; cur_n = want;
    if (A[ai].fn == a_strdup || A[ai].fn == a_strndup) {   // the copy has n characters and its terminator: n + 1 bytes inside the block
      if (strlen((char*)p) != n || p[n] != 0) FAIL("strdup_result", "%s of a string of %zu characters: strlen %zu", A[ai].name, n, strlen((char*)p));
      want = n + 1; cur_n = want;
    }
    size_t u1 = malloc_usable_size(p), u2 = p_usable(p);
    if (u1 != u2 || u1 < want) FAIL("usable_size_disagrees", "%s(%zu): malloc_usable_size %zu, mi_usable_size %zu", A[ai].name, n, u1, u2);
    if (A[ai].exact) memset(p, 0x5a, want);
    long mid = live();
    if (mid != before + 1) FAIL("live_count_after_alloc", "%s(%zu): live blocks %ld -> %ld", A[ai].name, n, before, mid);
    R[ri].fn(p);
    long after = live();
    if (after != before) FAIL("not_released_to_mimalloc", "%s(%zu) then %s: live blocks %ld -> %ld -> %ld (the release did not reach the allocator that owns the block)", A[ai].name, n, R[ri].name, before, mid, after);
  }
  // documented return values
  { void* p = (void*)0x1234; int e = posix_memalign(&p, 3, 100); if (e != EINVAL) FAIL("posix_memalign_code", "alignment 3: returned %d, expected EINVAL", e);
    e = posix_memalign(&p, 0, 100); if (e != EINVAL) FAIL("posix_memalign_code", "alignment 0: returned %d, expected EINVAL", e);
    e = posix_memalign(&p, sizeof(void*) * 3, 100); if (e != EINVAL) FAIL("posix_memalign_code", "alignment 24: returned %d, expected EINVAL", e);
    e = posix_memalign(&p, 2, 100); if (e != EINVAL) { FAIL("posix_memalign_code", "alignment 2 (not a multiple of sizeof(void*)): returned %d, expected EINVAL", e); if (e == 0) free(p); }
    e = posix_memalign(&p, 4, 100); if (e != EINVAL) { FAIL("posix_memalign_code", "alignment 4 (not a multiple of sizeof(void*)): returned %d, expected EINVAL", e); if (e == 0) free(p); }
    if (p != (void*)0x1234) FAIL("posix_memalign_code", "the output pointer was changed by a failing call");
    int saved = errno = 0; e = posix_memalign(&p, 64, (size_t)PTRDIFF_MAX - 1000); if (e != ENOMEM) FAIL("posix_memalign_code", "huge size: returned %d, expected ENOMEM", e); (void)saved;
    void* q = NULL; e = posix_memalign(&q, 4096, 10); if (e != 0 || !q || ((uintptr_t)q % 4096) != 0 || !p_in_region(q)) FAIL("posix_memalign_result", "e=%d q=%p", e, q); free(q); }
  if (p_reallocarray) { errno = 0; void* q = p_reallocarray(NULL, SIZE_MAX / 2, 4); if (q != NULL) FAIL("reallocarray_overflow", "returned non-NULL"); else if (errno != ENOMEM) FAIL("reallocarray_errno", "errno %d, expected ENOMEM", errno);
    void* keep = malloc(100); memset(keep, 7, 100); errno = 0; q = p_reallocarray(keep, SIZE_MAX / 3, 5); if (q != NULL) FAIL("reallocarray_overflow", "returned non-NULL"); if (((uint8_t*)keep)[50] != 7) FAIL("reallocarray_overflow", "old block changed"); free(keep); }
  { void* q = calloc(SIZE_MAX / 2, 3); if (q != NULL) FAIL("calloc_overflow", "returned non-NULL"); }
  { void* q = memalign(1 << 16, 100); if (!q || ((uintptr_t)q % (1 << 16)) != 0) FAIL("memalign_alignment", "%p", q); free(q);
    q = valloc(10); if (!q || ((uintptr_t)q % 4096) != 0) FAIL("valloc_alignment", "%p", q); free(q);
    q = pvalloc(4097); if (!q || ((uintptr_t)q % 4096) != 0 || malloc_usable_size(q) < 8192) FAIL("pvalloc_rounding", "%p usable %zu", q, q ? malloc_usable_size(q) : 0); free(q);
    q = aligned_alloc(256, 1024); if (!q || ((uintptr_t)q % 256) != 0) FAIL("aligned_alloc_alignment", "%p", q); free(q); }
  printf("STAT pairs %ld\nDONE fails %d\n", npairs, nfail);
  return 0;
}
