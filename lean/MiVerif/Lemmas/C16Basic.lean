/- helper lemmas for Props/C16: word-arithmetic facts and bridges from the generated
   definitions (explicit `% 2^64` wrap-around) to clean specifications -/
import MiVerif.Gen.Arith
import MiVerif.Gen.Tables

namespace C16L
open Gen

theorem h64 : (2:Nat)^64 = 18446744073709551616 := by decide
theorem h63 : (2:Nat)^63 = 9223372036854775808 := by decide

/-! ### wrap-around elimination -/

theorem wrap_sub (x y : Nat) (hy : y ≤ x) (hx : x < 18446744073709551616) :
    (x + 18446744073709551616 - y) % 18446744073709551616 = x - y := by
  have e : x + 18446744073709551616 - y = (x - y) + 18446744073709551616 := by omega
  rw [e, Nat.add_mod_right]
  exact Nat.mod_eq_of_lt (by omega)

theorem wrap_sub1 (x : Nat) (h0 : 0 < x) (hx : x < 18446744073709551616) :
    (x + 18446744073709551616 - 1) % 18446744073709551616 = x - 1 :=
  wrap_sub x 1 h0 hx

/-! ### bit masks -/

theorem and_hi_mask (x k : Nat) (hk : k ≤ 64) (hx : x < 2^64) :
    x &&& (2^64 - 2^k) = x / 2^k * 2^k := by
  apply Nat.eq_of_testBit_eq
  intro i
  have hm : 2^64 - 2^k = (2^(64-k) - 1) * 2^k := by
    have : 2^64 = 2^(64-k) * 2^k := by rw [← Nat.pow_add]; congr 1; omega
    rw [Nat.sub_mul, ← this]; simp
  rw [Nat.testBit_and, hm, Nat.testBit_mul_two_pow, Nat.testBit_mul_two_pow, Nat.testBit_two_pow_sub_one, Nat.testBit_div_two_pow]
  by_cases hik : k ≤ i
  · simp only [hik, decide_true, Bool.true_and]
    have e : i - k + k = i := by omega
    rw [e]
    by_cases hi : i < 64
    · have : i - k < 64 - k := by omega
      simp [this]
    · have : ¬ (i - k < 64 - k) := by omega
      simp only [this, decide_false, Bool.and_false]
      have : x < 2^i := Nat.lt_of_lt_of_le hx (Nat.pow_le_pow_right (by omega) (by omega))
      exact (Nat.testBit_lt_two_pow this).symm
  · simp [hik]

theorem land_3 (x : Nat) : x &&& 3 = x % 4 :=
  Nat.and_two_pow_sub_one_eq_mod x 2

theorem land_even (x : Nat) (h : x < 2^64) : x &&& 18446744073709551614 = x / 2 * 2 :=
  and_hi_mask x 1 (by omega) h

/-- bit `k` of a number in `[2^k, 2^(k+1))` is set -/
theorem testBit_top (x k : Nat) (h1 : 2^k ≤ x) (h2 : x < 2^(k+1)) : x.testBit k = true := by
  rw [Nat.testBit_eq_decide_div_mod_eq]
  have : x / 2^k = 1 := by
    apply Nat.div_eq_of_lt_le
    · omega
    · rw [Nat.pow_succ] at h2; omega
  simp [this]

/-- the classic power-of-two test -/
theorem pow2_of_and_pred (a : Nat) (ha : 0 < a) (h : a &&& (a - 1) = 0) : a = 2^(Nat.log2 a) := by
  have ha0 : a ≠ 0 := by omega
  have h1 : 2^(Nat.log2 a) ≤ a := Nat.log2_self_le ha0
  have h2 : a < 2^(Nat.log2 a + 1) := Nat.lt_log2_self
  rcases Nat.lt_or_ge (2^(Nat.log2 a)) a with hlt | hge
  · exfalso
    have t1 : a.testBit (Nat.log2 a) = true := Nat.testBit_log2 ha0
    have t2 : (a - 1).testBit (Nat.log2 a) = true :=
      testBit_top (a - 1) _ (by omega) (by omega)
    have t3 : (a &&& (a - 1)).testBit (Nat.log2 a) = true := by
      rw [Nat.testBit_and, t1, t2]; rfl
    rw [h] at t3
    simp at t3
  · omega

theorem and_pred_pow2 (k : Nat) : 2^k &&& (2^k - 1) = 0 := by
  rw [Nat.and_two_pow_sub_one_eq_mod, Nat.mod_self]

/-! ### count leading zeros / bit scan reverse -/

theorem log2_lt64 (w : Nat) (h0 : w ≠ 0) (h : w < 2^64) : Nat.log2 w < 64 :=
  (Nat.log2_lt h0).mpr h

theorem clz_eq (w : Nat) (h0 : w ≠ 0) (h : w < 2^64) : mi_clz w = 63 - Nat.log2 w := by
  unfold mi_clz __builtin_clzl
  have hl := log2_lt64 w h0 h
  simp only [h0, if_false]
  omega

theorem bsr_expr (w : Nat) (h0 : w ≠ 0) (h : w < 2^64) :
    (63 + 18446744073709551616 - mi_clz w) % 18446744073709551616 = Nat.log2 w := by
  rw [clz_eq w h0 h]
  have hl := log2_lt64 w h0 h
  omega

theorem bsr_eq (w : Nat) (h0 : w ≠ 0) (h : w < 2^64) : mi_bsr w = Nat.log2 w := by
  unfold mi_bsr
  simp only [h0, if_false]
  exact bsr_expr w h0 h

theorem log2_bounds {v b : Nat} (hv : v ≠ 0) (h : Nat.log2 v = b) : 2^b ≤ v ∧ v < 2^(b+1) := by
  subst h
  exact ⟨Nat.log2_self_le hv, Nat.lt_log2_self⟩

/-- position of `v` inside its binade, in quarters: with `b = log2 v` and `q = (v / 2^(b-2)) % 4`
    we have `(4+q)·2^(b-2) ≤ v < (5+q)·2^(b-2)` -/
theorem quad_char (v b : Nat) (hv : v ≠ 0) (hb : Nat.log2 v = b) (h2 : 2 ≤ b) :
    (4 + v / 2^(b-2) % 4) * 2^(b-2) ≤ v ∧ v < (5 + v / 2^(b-2) % 4) * 2^(b-2) := by
  obtain ⟨hlo, hhi⟩ := log2_bounds hv hb
  have hP : 0 < 2^(b-2) := Nat.two_pow_pos _
  have e4 : 2^b = 4 * 2^(b-2) := by
    have : b = 2 + (b - 2) := by omega
    conv => lhs; rw [this, Nat.pow_add]
  have e8 : 2^(b+1) = 8 * 2^(b-2) := by rw [Nat.pow_succ, e4]; omega
  rw [e4] at hlo; rw [e8] at hhi
  generalize 2^(b-2) = P at *
  have t4 : 4 ≤ v / P := (Nat.le_div_iff_mul_le hP).mpr hlo
  have t8 : v / P < 8 := (Nat.div_lt_iff_lt_mul hP).mpr hhi
  have et : 4 + v / P % 4 = v / P := by omega
  have et5 : 5 + v / P % 4 = v / P + 1 := by omega
  rw [et, et5, Nat.add_mul, Nat.one_mul]
  have hd := Nat.div_add_mod v P
  have hm := Nat.mod_lt v hP
  rw [Nat.mul_comm] at hd
  omega

/-! ### word size, alignment, division -/

theorem wsize_eq (n : Nat) (h : n < 2^64 - 8) : _mi_wsize_from_size n = (n + 7) / 8 := by
  unfold _mi_wsize_from_size; omega

theorem div_mul_bounds (x a : Nat) (ha : 0 < a) : x / a * a ≤ x ∧ x < x / a * a + a := by
  have hd := Nat.div_add_mod x a
  have hm := Nat.mod_lt x ha
  rw [Nat.mul_comm] at hd
  omega

theorem align_up_eq (sz a : Nat) (ha : 0 < a) (h : sz + a < 2^64) :
    _mi_align_up sz a = (sz + a - 1) / a * a := by
  unfold _mi_align_up
  rw [h64] at h
  have ha64 : a < 18446744073709551616 := by omega
  have e1 : (a + 18446744073709551616 - 1) % 18446744073709551616 = a - 1 := wrap_sub1 a ha ha64
  have e2 : (sz + (a - 1)) % 18446744073709551616 = sz + a - 1 := by
    have : sz + (a - 1) = sz + a - 1 := by omega
    rw [this]; exact Nat.mod_eq_of_lt (by omega)
  have hle := (div_mul_bounds (sz + a - 1) a ha).1
  simp only [e1, e2]
  split
  · rename_i hp
    have hk := pow2_of_and_pred a ha hp
    generalize Nat.log2 a = k at hk
    have hk64 : k < 64 := by
      rcases Nat.lt_or_ge k 64 with hc | hc
      · exact hc
      · have : 2^64 ≤ 2^k := Nat.pow_le_pow_right (by omega) hc
        rw [h64] at this; omega
    have e3 : (18446744073709551615 - (a - 1)) % 18446744073709551616 = 2^64 - 2^k := by
      rw [h64, ← hk]
      have : 18446744073709551615 - (a - 1) = 18446744073709551616 - a := by omega
      rw [this]; exact Nat.mod_eq_of_lt (by omega)
    rw [e3, and_hi_mask _ k (by omega) (by rw [h64]; omega), ← hk]
  · exact Nat.mod_eq_of_lt (by omega)

theorem align_down_eq (sz a : Nat) (ha : 0 < a) (h : sz < 2^64) (ha2 : a < 2^64) :
    _mi_align_down sz a = sz / a * a := by
  unfold _mi_align_down
  rw [h64] at h ha2
  have e1 : (a + 18446744073709551616 - 1) % 18446744073709551616 = a - 1 := wrap_sub1 a ha ha2
  have hle := (div_mul_bounds sz a ha).1
  simp only [e1]
  split
  · rename_i hp
    have hk := pow2_of_and_pred a ha hp
    generalize Nat.log2 a = k at hk
    have hk64 : k < 64 := by
      rcases Nat.lt_or_ge k 64 with hc | hc
      · exact hc
      · have : 2^64 ≤ 2^k := Nat.pow_le_pow_right (by omega) hc
        rw [h64] at this; omega
    have e3 : (18446744073709551615 - (a - 1)) % 18446744073709551616 = 2^64 - 2^k := by
      rw [h64, ← hk]
      have : 18446744073709551615 - (a - 1) = 18446744073709551616 - a := by omega
      rw [this]; exact Nat.mod_eq_of_lt (by omega)
    rw [e3, and_hi_mask _ k (by omega) (by rw [h64]; omega), ← hk]
  · exact Nat.mod_eq_of_lt (by omega)

theorem divide_up_eq (sz d : Nat) (hd : 0 < d) (h : sz + d < 2^64) :
    _mi_divide_up sz d = (sz + d - 1) / d := by
  unfold _mi_divide_up
  rw [h64] at h
  have hd0 : d ≠ 0 := by omega
  have e1 : (sz + d) % 18446744073709551616 = sz + d := Nat.mod_eq_of_lt h
  have e2 := wrap_sub1 (sz + d) (by omega) h
  simp only [hd0, if_false, e1, e2]

/-! ### signed pointer difference -/

theorem sw64_small (D : Nat) (hD : D < 9223372036854775808) : sw64 (D : Int) = (D : Int) := by
  unfold sw64
  have : (2:Int)^63 = 9223372036854775808 := by decide
  have : (2:Int)^64 = 18446744073709551616 := by decide
  omega

theorem pdiff_eq (base D : Nat) (hD : D < 9223372036854775808) :
    ((sw64 (((base + D : Nat) : Int) - (base : Int))).tdiv 1 % 18446744073709551616).toNat = D := by
  have : ((base + D : Nat) : Int) - (base : Int) = (D : Int) := by omega
  rw [this, Int.tdiv_one, sw64_small D hD]
  omega

end C16L
