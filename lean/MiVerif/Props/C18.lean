/- C18 — unused memory is purged after the configured delay without a forced collect.
   Property theorems only.  Model: MiVerif/Model/Purge.lean; every purge decision (`if`) in it is the predicate
   regenerated from arena.c / segment.c (MiVerif/Gen/Purge.lean), so a changed comparison changes these theorems'
   subject.  Times are milliseconds of the virtual clock (non-negative integers); `delay` is
   purge_delay * arena_purge_mult for arenas and purge_delay for segments. -/
import MiVerif.Lemmas.ArenaGenProofs
import MiVerif.Gen.Commit
import MiVerif.Model.Purge

namespace C18
open PurgeM

/-- invariant of the arena expiry bookkeeping (one arena, sequential use) -/
structure AInv (delay : Int) (s : ASt) : Prop where
  same : s.gexp = s.aexp
  pend : s.pend = true → s.aexp = s.first + delay ∧ 0 ≤ s.first
  npend : s.pend = false → s.aexp = 0

theorem a0_inv (delay : Int) : AInv delay a0 := ⟨rfl, (fun h => by cases h), fun _ => rfl⟩

theorem aSchedule_inv {delay now : Int} {s : ASt} (hd : 0 < delay) (hn : 0 ≤ now) (h : AInv delay s) :
    AInv delay (aSchedule delay now s).1 := by
  obtain ⟨h1, h2, h3⟩ := h
  unfold aSchedule
  have e1 : Gen.arenaSchedule_never delay = false := by simp [Gen.arenaSchedule_never]; omega
  have e2 : Gen.arenaSchedule_now delay 0 = false := by simp [Gen.arenaSchedule_now]; omega
  simp only [e1, e2, Bool.false_eq_true, if_false]
  by_cases ha : s.aexp = 0
  · have hg : s.gexp = 0 := by omega
    have hp : s.pend = false := by
      cases hp : s.pend
      · rfl
      · have := h2 hp; omega
    simp only [ha, hg, hp, if_true, Bool.false_eq_true, if_false]
    exact ⟨rfl, fun _ => ⟨rfl, hn⟩, (fun h => by cases h)⟩
  · simp only [ha, if_false]
    refine ⟨h1, fun _ => ?_, (fun h => by cases h)⟩
    cases hp : s.pend
    · exact absurd (h3 hp) ha
    · exact h2 hp

theorem aTryPurge_inv {delay now : Int} {s : ASt} (h : AInv delay s) : AInv delay (aTryPurge delay now s).1 := by
  obtain ⟨h1, h2, h3⟩ := h
  unfold aTryPurge
  split
  · exact ⟨h1, h2, h3⟩
  · split
    · exact ⟨h1, h2, h3⟩
    · rename_i hs
      simp only [Gen.arenasTryPurge_skip, ne_eq, not_true_eq_false, not_false_eq_true, true_and, decide_eq_true_eq] at hs
      have : Gen.arenaTryPurge_skip 0 s.aexp now = false := by
        simp only [Gen.arenaTryPurge_skip, ne_eq, not_true_eq_false, not_false_eq_true, true_and, decide_eq_false_iff_not]
        omega
      simp only [this, Bool.false_eq_true, if_false]
      exact ⟨rfl, (fun h => by cases h), fun _ => rfl⟩

/-- **arena purge happens**: blocks scheduled at `first` are purged by the first non-forced attempt
    (`_mi_arena_free`, `mi_collect(false)`) at or after `first + delay` — no forced collect needed -/
theorem arena_purge_due {delay now : Int} {s : ASt} (hd : 0 < delay) (h : AInv delay s)
    (hp : s.pend = true) (hnow : s.first + delay ≤ now) :
    (aTryPurge delay now s).1.pend = false ∧ (aTryPurge delay now s).2 = true := by
  obtain ⟨h1, h2, _⟩ := h
  have ha := h2 hp
  unfold aTryPurge
  have e0 : ¬ delay ≤ 0 := by omega
  have e1 : Gen.arenasTryPurge_skip 0 s.gexp now = false := by
    simp only [Gen.arenasTryPurge_skip, ne_eq, not_true_eq_false, not_false_eq_true, true_and, decide_eq_false_iff_not]; omega
  have e2 : Gen.arenaTryPurge_skip 0 s.aexp now = false := by
    simp only [Gen.arenaTryPurge_skip, ne_eq, not_true_eq_false, not_false_eq_true, true_and, decide_eq_false_iff_not]; omega
  simp only [e0, e1, e2, Bool.false_eq_true, if_false]
  exact ⟨trivial, hp⟩

/-- and nothing is purged before the delay has passed -/
theorem arena_purge_not_early {delay now : Int} {s : ASt} (h : AInv delay s)
    (hp : s.pend = true) (hnow : now < s.first + delay) : aTryPurge delay now s = (s, false) := by
  obtain ⟨h1, h2, _⟩ := h
  have ha := h2 hp
  unfold aTryPurge
  split
  · rfl
  · have e1 : Gen.arenasTryPurge_skip 0 s.gexp now = true := by
      simp only [Gen.arenasTryPurge_skip, ne_eq, not_true_eq_false, not_false_eq_true, true_and, decide_eq_true_eq]; omega
    simp only [e1, if_true]

inductive AOp where
  | free (t : Int)       -- a committed range is freed to the arena at time t (`_mi_arena_free`)
  | attempt (t : Int)    -- non-forced `mi_collect` / other call of `mi_arenas_try_purge(false, _)` at time t

def aStep (delay : Int) (s : ASt) : AOp → ASt
  | .free t => (aFree delay t s).1
  | .attempt t => (aTryPurge delay t s).1

/-- the invariant holds in every state reachable by frees and non-forced attempts at non-negative times -/
theorem arena_reachable_inv (delay : Int) (hd : 0 < delay) (ops : List AOp)
    (ht : ∀ op ∈ ops, match op with | .free t => 0 ≤ t | .attempt t => 0 ≤ t) :
    AInv delay (ops.foldl (aStep delay) a0) := by
  suffices ∀ s, AInv delay s → AInv delay (ops.foldl (aStep delay) s) from this a0 (a0_inv delay)
  induction ops with
  | nil => intro s h; exact h
  | cons op ops ih =>
    intro s h
    simp only [List.foldl_cons]
    apply ih (fun o ho => ht o (by simp [ho]))
    cases op with
    | free t =>
      have := ht (.free t) (by simp)
      exact aTryPurge_inv (aSchedule_inv hd this h)
    | attempt t => exact aTryPurge_inv h

/-- delay 0: freed memory is purged as soon as it becomes unused (arena and segment) -/
theorem delay0_immediate (now extend : Int) (a : ASt) (s : SSt) :
    (aSchedule 0 now a).2 = true ∧ (sSchedule 0 extend now s).2 = true := by
  refine ⟨?_, ?_⟩
  · simp [aSchedule, Gen.arenaSchedule_never, Gen.arenaSchedule_now]
  · simp [sSchedule]

/-- delay −1: the purge machinery never purges and never even schedules -/
theorem delay_neg_never (delay now extend : Int) (hd : delay < 0) (a : ASt) (s : SSt) :
    aSchedule delay now a = (a, false) ∧ aTryPurge delay now a = (a, false) ∧ sSchedule delay extend now s = (s, false) := by
  refine ⟨?_, ?_, ?_⟩
  · simp [aSchedule, Gen.arenaSchedule_never, hd]
  · simp [aTryPurge]; omega
  · simp [sSchedule, hd]

/-- **segment purge happens**: a pending purge whose expiry has passed is carried out by the next non-forced
    `mi_segment_try_purge` (called from page free / page allocation / collect on that segment) -/
theorem segment_purge_due (now : Int) (s : SSt) (hp : s.pend = true) (he : 0 < s.expire) (hnow : s.expire ≤ now) :
    sTryPurge now s = ({ expire := 0, pend := false }, true) := by
  unfold sTryPurge
  have e0 : ¬ (s.expire = 0 ∨ s.pend = false) := by simp [hp]; omega
  have e1 : Gen.segTryPurge_skip 0 now 0 s.expire = false := by
    simp only [Gen.segTryPurge_skip, ne_eq, not_true_eq_false, not_false_eq_true, true_and, decide_eq_false_iff_not]; omega
  simp only [e0, e1, if_false, Bool.false_eq_true]

theorem segment_purge_not_early (now : Int) (s : SSt) (hnow : now < s.expire) : sTryPurge now s = (s, false) := by
  unfold sTryPurge
  split
  · rfl
  · have e1 : Gen.segTryPurge_skip 0 now 0 s.expire = true := by
      simp only [Gen.segTryPurge_skip, ne_eq, not_true_eq_false, not_false_eq_true, true_and, decide_eq_true_eq]; exact hnow
    simp only [e1, if_true]

/-- scheduling keeps "pending ⇒ a positive expiry is set", and every schedule moves the expiry at most
    `max delay extend` beyond `max (old expiry) now`: frees can postpone a purge only by the configured amounts -/
theorem segment_schedule_bound (delay extend now : Int) (s : SSt) (hd : 0 < delay) (he : 0 ≤ extend) (hn : 0 ≤ now)
    (hext : extend < 2^62) (hnow : now < 2^62) (hexp : s.expire < 2^62) (hexp0 : 0 ≤ s.expire)
    (hinv : s.pend = true → 0 < s.expire) :
    ((sSchedule delay extend now s).1.pend = true → 0 < (sSchedule delay extend now s).1.expire) ∧
    (sSchedule delay extend now s).1.expire ≤ max s.expire now + max delay extend := by
  unfold sSchedule
  have e0 : ¬ delay < 0 := by omega
  have e1 : ¬ delay = 0 := by omega
  simp only [e0, e1, if_false]
  split
  · simp only; refine ⟨fun _ => by omega, by omega⟩
  · rename_i hf
    simp only [Gen.segSchedule_first, decide_eq_true_eq] at hf
    split
    · rename_i hx
      simp only [Gen.segSchedule_expired, decide_eq_true_eq] at hx
      split
      · unfold sForcePurge; simp only
        split
        · rename_i hc; simp at hc; exact absurd hc hf
        · simp only; refine ⟨fun h => (by cases h), by omega⟩
      · simp only; refine ⟨fun _ => by omega, by omega⟩
    · rename_i hx
      simp only [Gen.segSchedule_expired, decide_eq_true_eq] at hx
      simp only; refine ⟨fun _ => by omega, by omega⟩

-- non-vacuity: the witness history "free at 0 with delay 10, attempt at 20" satisfies the hypotheses and purges
example : AInv 10 (aFree 10 0 a0).1 ∧ (aFree 10 0 a0).1.pend = true ∧ (aTryPurge 10 20 (aFree 10 0 a0).1).2 = true := by
  refine ⟨⟨by decide, fun _ => by decide, (fun h => by revert h; decide)⟩, by decide, by decide⟩
example : sTryPurge 15 (sSchedule 10 1 0 s0).1 = ({ expire := 0, pend := false }, true) := by decide

/-- the same bound over `mi_segment_schedule_purge` as *generated from src/segment.c* (Gen/Commit.lean): every schedule with a positive
    delay moves the expiry at most `max delay extend` beyond `max (old expiry) now` and never makes it negative -/
theorem generated_segment_schedule_bound (σ : GenC.SegSt) (p size delay now ext : Int) (nr og : Bool) (tp : GenC.SegSt → GenC.SegSt)
    (hd : 0 < delay) (he : 0 ≤ ext) (hn : 0 < now) (hexp : 0 ≤ σ.expire) (htp : ∀ τ, (tp τ).expire = 0) :
    (GenC.mi_segment_schedule_purge σ p size delay nr og now ext tp).expire ≤ max σ.expire now + max delay ext ∧
    0 ≤ (GenC.mi_segment_schedule_purge σ p size delay nr og now ext tp).expire := by
  unfold GenC.mi_segment_schedule_purge
  simp only []
  have hd0 : ¬ (delay = 0) := by omega
  split
  · exact ⟨by omega, hexp⟩
  · simp only [decide_eq_true_eq, hd0, if_false]
    split
    · exact ⟨by omega, hexp⟩
    · split
      · exact ⟨by simp only []; omega, by simp only []; omega⟩
      · split
        · split
          · rw [htp]; exact ⟨by omega, by omega⟩
          · exact ⟨by simp only []; omega, by simp only []; omega⟩
        · exact ⟨by simp only []; omega, by simp only []; omega⟩

/-- ... and the first registration of a purge (no expiry pending, the range contains a whole commit unit) expires exactly `delay` after now -/
theorem generated_segment_first_registration (σ : GenC.SegSt) (p size delay now ext : Int) (nr og : Bool) (tp : GenC.SegSt → GenC.SegSt)
    (hd : 0 < delay) (hallow : σ.allowPurge = true) (h0 : σ.expire = 0)
    (hne : (GenC.mEmpty (GenC.commitMask σ 1 p size).2.2 || decide ((GenC.commitMask σ 1 p size).2.1 = 0)) = false) :
    (GenC.mi_segment_schedule_purge σ p size delay nr og now ext tp).expire = now + delay := by
  unfold GenC.mi_segment_schedule_purge
  have hd0 : ¬ (delay = 0) := by omega
  simp only [hallow, Bool.not_true, Bool.false_eq_true, if_false, decide_eq_true_eq, hd0, hne, h0, if_true]

/-- over `mi_arena_schedule_purge` as *generated from src/arena.c* (Gen/ArenaGen.lean): with a positive delay a pending arena expiry is never
    changed by a later free, and a new one is exactly `now + delay` — so freed arena memory becomes due `delay` after the FIRST free -/
theorem generated_arena_schedule_expire (σ : GenR.ArSt) (idx n delay : Int) (nr1 g1 nr2 g2 : Bool) (now : Int) (hd : 0 < delay) :
    (GenR.mi_arena_schedule_purge σ idx n delay false nr1 g1 nr2 g2 now).expire = (if σ.expire = 0 then now + delay else σ.expire) :=
  C07A.gen_schedule_expire σ idx n delay nr1 g1 nr2 g2 now hd

end C18
