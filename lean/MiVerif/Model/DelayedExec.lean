import MiVerif.Model.Delayed
namespace Delayed

inductive Lbl where
  | start (b : Blk) | load (b : Blk) | cas2fail (b : Blk) | cas2push (b : Blk) | cas2delay (b : Blk)
  | load4 (b : Blk) | cas4fail (b : Blk) | cas4ok (b : Blk) | load5 (b : Blk) | cas5fail (b : Blk) | cas5ok (b : Blk)
  | tfCollect | lfCollect | malloc | freeLocal (b : Blk) | takeDl | procStart | procSetUse | procNever | procGiveUp | procFree
deriving Repr

/-- first flight working on block `b` -/
def findB : List Flight → Blk → Option (List Flight × Flight × List Flight)
  | [], _ => none
  | x :: xs, b => if x.b = b then some ([], x, xs) else
      match findB xs b with
      | some (pre, y, post) => some (x :: pre, y, post)
      | none => none

theorem findB_spec {l : List Flight} {b : Blk} {pre post : List Flight} {x : Flight}
    (h : findB l b = some (pre, x, post)) : l = pre ++ x :: post ∧ x.b = b := by
  induction l generalizing pre with
  | nil => simp [findB] at h
  | cons y ys ih =>
    simp only [findB] at h
    split at h
    · rename_i hy; cases h; exact ⟨rfl, hy⟩
    · cases hf : findB ys b with
      | none => simp [hf] at h
      | some r =>
        obtain ⟨p, z, q⟩ := r
        simp [hf] at h
        obtain ⟨h1, h2, h3⟩ := h
        subst h1 h2 h3
        have := ih hf
        exact ⟨by rw [this.1]; rfl, this.2⟩

def exec (s : St) : Lbl → Option St
  | .start b => if b ∈ s.live then some { s with live := s.live.erase b, fl := ⟨b, .r1⟩ :: s.fl } else none
  | .load b => match findB s.fl b with
      | some (pre, ⟨_, .r1⟩, post) => some { s with fl := pre ++ ⟨b, .r2 s.tf s.flag⟩ :: post }
      | _ => none
  | .cas2fail b => match findB s.fl b with
      | some (pre, ⟨_, .r2 _ _⟩, post) => some { s with fl := pre ++ ⟨b, .r2 s.tf s.flag⟩ :: post }
      | _ => none
  | .cas2push b => match findB s.fl b with
      | some (pre, ⟨_, .r2 hh ff⟩, post) =>
          if s.tf = hh ∧ s.flag = ff ∧ ff ≠ .use then some { s with tf := b :: s.tf, fl := pre ++ post } else none
      | _ => none
  | .cas2delay b => match findB s.fl b with
      | some (pre, ⟨_, .r2 hh ff⟩, post) =>
          if s.tf = hh ∧ s.flag = ff ∧ ff = .use then some { s with flag := .freeing, fl := pre ++ ⟨b, .r4load⟩ :: post } else none
      | _ => none
  | .load4 b => match findB s.fl b with
      | some (pre, ⟨_, .r4load⟩, post) => some { s with fl := pre ++ ⟨b, .r4 s.dl⟩ :: post }
      | _ => none
  | .cas4fail b => match findB s.fl b with
      | some (pre, ⟨_, .r4 _⟩, post) => some { s with fl := pre ++ ⟨b, .r4 s.dl⟩ :: post }
      | _ => none
  | .cas4ok b => match findB s.fl b with
      | some (pre, ⟨_, .r4 d⟩, post) =>
          if s.dl = d then some { s with dl := b :: s.dl, fl := pre ++ ⟨b, .r5load⟩ :: post } else none
      | _ => none
  | .load5 b => match findB s.fl b with
      | some (pre, ⟨_, .r5load⟩, post) => some { s with fl := pre ++ ⟨b, .r5 s.tf s.flag⟩ :: post }
      | _ => none
  | .cas5fail b => match findB s.fl b with
      | some (pre, ⟨_, .r5 _ _⟩, post) => some { s with fl := pre ++ ⟨b, .r5 s.tf s.flag⟩ :: post }
      | _ => none
  | .cas5ok b => match findB s.fl b with
      | some (pre, ⟨_, .r5 hh ff⟩, post) =>
          if s.tf = hh ∧ s.flag = ff then some { s with flag := .no, fl := pre ++ post } else none
      | _ => none
  | .tfCollect => some { s with tf := [], lf := s.tf ++ s.lf }
  | .lfCollect => if s.free = [] then some { s with free := s.lf, lf := [] } else none
  | .malloc => match s.free with
      | b :: rest => some { s with free := rest, live := b :: s.live }
      | [] => none
  | .freeLocal b => if b ∈ s.live then some { s with live := s.live.erase b, lf := b :: s.lf } else none
  | .takeDl => if s.pend = [] ∧ s.own = [] then some { s with pend := s.dl, dl := [] } else none
  | .procStart => match s.pend with
      | b :: rest => if s.own = [] then some { s with pend := rest, own := [(b,false)] } else none
      | [] => none
  | .procSetUse => match s.own with
      | [(b,false)] => if s.flag ≠ .freeing ∧ s.flag ≠ .never then some { s with flag := .use, own := [(b,true)] } else none
      | _ => none
  | .procNever => match s.own with
      | [(b,false)] => if s.flag = .never then some { s with own := [(b,true)] } else none
      | _ => none
  | .procGiveUp => match s.own with
      | [(b,false)] => some { s with dl := b :: s.dl, own := [] }
      | _ => none
  | .procFree => match s.own with
      | [(b,true)] => some { s with lf := b :: s.lf, own := [] }
      | _ => none

end Delayed
