/- Function-level correspondence for the generated secure-mode functions (Gen/Secure.lean) against the compiled
   functions called on real blocks by harness/c17.c; memory-read oracles are the values the harness read. -/
import MiVerif.Gen.Secure
open GenS

namespace SecureVal
def eval (fn : String) (a : List Nat) : Option String :=
  match fn, a with
  | "samepage", [p, q, so, bs, sc] =>
      some (toString (mi_is_in_same_page (fun _ => so) (fun _ => bs) (fun _ => sc) p q))
  | "next", [w, k0, k1, page, block, so, bs, sc] =>
      some (toString (mi_block_next w k0 k1 (fun _ => so) (fun _ => bs) (fun _ => sc) page block).1)
  | "dfree", [w, k0, k1, page, block, so, bs, sc, fx] =>
      some (toString (mi_check_is_double_free w k0 k1 (fun _ => so) (fun _ => bs) (fun _ => sc) (fun _ _ => fx) page block))
  | "pad", [bs, delta, canary, k0, k1, page, block] =>
      let r := mi_page_decode_padding bs (fun _ => delta) (fun _ => canary) k0 k1 page block 1 1
      some s!"{r.1} {r.2.1} {r.2.2} {mi_page_usable_size_of bs (fun _ => delta) (fun _ => canary) k0 k1 page block}"
  | _, _ => none

def main (stdin : IO.FS.Stream) : IO UInt32 := do
  let mut n := 0
  let mut bad := 0
  let mut unparsed := 0
  repeat
    let line ← stdin.getLine
    if line.isEmpty then break
    let l := line.trimAscii.toString
    if !l.startsWith "T " then continue
    match (l.drop 2).toString.splitOn " -> " with
    | [lhs, want] =>
      match lhs.splitOn " " with
      | fn :: args =>
        n := n + 1
        match eval fn (args.map String.toNat!) with
        | some r => if r != want then
                      bad := bad + 1
                      if bad ≤ 20 then IO.println s!"DIFF {l}  lean={r}"
        | none => unparsed := unparsed + 1; if unparsed ≤ 5 then IO.println s!"UNPARSED {l}"
      | [] => pure ()
    | _ => unparsed := unparsed + 1
  IO.println s!"secureval cases {n} differences {bad} unparsed {unparsed}"
  return (if bad = 0 ∧ unparsed = 0 then 0 else 1)
end SecureVal
