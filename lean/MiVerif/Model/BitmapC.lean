-- probe: concurrent bitmap claims (arena blocks_inuse), abstract bits + ghost ownership intervals
namespace BitmapC

/-- an owner of a contiguous run of bits `[a, b)`; `kind`: 0 = completed claim / reserved, 1 = claiming, 2 = rolling back, 3 = freeing -/
structure Own where
  a : Nat
  b : Nat
  kind : Nat
deriving DecidableEq

structure St where
  bits : Nat → Bool
  owns : List Own

def covers (o : Own) (i : Nat) : Prop := o.a ≤ i ∧ i < o.b

def setRange (f : Nat → Bool) (lo hi : Nat) (v : Bool) : Nat → Bool :=
  fun i => if lo ≤ i ∧ i < hi then v else f i

inductive Step : St → St → Prop where
  /-- a thread starts an across-claim attempt (owns nothing yet) at position `a` -/
  | start (s) (a : Nat) : Step s { s with owns := ⟨a, a, 1⟩ :: s.owns }
  /-- successful CAS of the next chunk `[b, b')`: all its bits were 0 -/
  | claimTop (s) (pre post) (o : Own) (b' : Nat) (h : s.owns = pre ++ o :: post) (hk : o.kind = 1)
      (hb : o.b < b') (hfree : ∀ i, o.b ≤ i → i < b' → s.bits i = false) :
      Step s { bits := setRange s.bits o.b b' true, owns := pre ++ ⟨o.a, b', 1⟩ :: post }
  /-- a CAS found a bit set (or failed spuriously): switch to roll-back -/
  | fail (s) (pre post) (o : Own) (h : s.owns = pre ++ o :: post) (hk : o.kind = 1) :
      Step s { s with owns := pre ++ ⟨o.a, o.b, 2⟩ :: post }
  /-- roll-back of an intermediate field by a plain `store 0`: clears the WHOLE field `[64k, 64k+64)`;
      the code does this only for fields it claimed 0 → FULL, i.e. the field is the top of its own run -/
  | storeZero (s) (pre post) (o : Own) (k : Nat) (h : s.owns = pre ++ o :: post) (hk : o.kind = 2)
      (htop : o.b = 64 * k + 64) (hin : o.a ≤ 64 * k) :
      Step s { bits := setRange s.bits (64 * k) (64 * k + 64) false, owns := pre ++ ⟨o.a, 64 * k, 2⟩ :: post }
  /-- roll-back of the initial field by CAS: clears exactly the remaining own bits -/
  | casClear (s) (pre post) (o : Own) (h : s.owns = pre ++ o :: post) (hk : o.kind = 2) :
      Step s { bits := setRange s.bits o.a o.b false, owns := pre ++ post }
  /-- all chunks claimed: the run becomes a completed allocation -/
  | finish (s) (pre post) (o : Own) (h : s.owns = pre ++ o :: post) (hk : o.kind = 1) :
      Step s { s with owns := pre ++ ⟨o.a, o.b, 0⟩ :: post }
  /-- freeing a completed allocation: field by field from the bottom (`fetch_and`) -/
  | freeStart (s) (pre post) (o : Own) (h : s.owns = pre ++ o :: post) (hk : o.kind = 0) :
      Step s { s with owns := pre ++ ⟨o.a, o.b, 3⟩ :: post }
  | freeChunk (s) (pre post) (o : Own) (a' : Nat) (h : s.owns = pre ++ o :: post) (hk : o.kind = 3)
      (ha : o.a < a') (ha' : a' ≤ o.b) :
      Step s { bits := setRange s.bits o.a a' false, owns := pre ++ (if a' = o.b then [] else [⟨a', o.b, 3⟩]) ++ post }

def ind (o : Own) (i : Nat) : Nat := if o.a ≤ i ∧ i < o.b then 1 else 0
def cnt (l : List Own) (i : Nat) : Nat := (l.map (ind · i)).sum

@[simp] theorem cnt_nil (i : Nat) : cnt [] i = 0 := rfl
@[simp] theorem cnt_cons (o : Own) (l : List Own) (i : Nat) : cnt (o :: l) i = ind o i + cnt l i := by
  simp [cnt]
@[simp] theorem cnt_append (l₁ l₂ : List Own) (i : Nat) : cnt (l₁ ++ l₂) i = cnt l₁ i + cnt l₂ i := by
  simp [cnt]

/-- every bit is owned exactly as often as it is set (set ⇒ exactly one owner, clear ⇒ none); runs are well-formed -/
structure Inv (s : St) : Prop where
  count : ∀ i, cnt s.owns i = (if s.bits i = true then 1 else 0)
  wf    : ∀ o ∈ s.owns, o.a ≤ o.b

theorem mem_mid {pre post : List Own} {o : Own} : o ∈ pre ++ o :: post := by simp

theorem wf_replace {l pre post : List Own} {o o' : Own} (h : l = pre ++ o :: post)
    (hwf : ∀ x ∈ l, x.a ≤ x.b) (ho' : o'.a ≤ o'.b) : ∀ x ∈ pre ++ o' :: post, x.a ≤ x.b := by
  intro x hx
  simp only [List.mem_append, List.mem_cons] at hx
  rcases hx with hx | rfl | hx
  · exact hwf x (by rw [h]; simp [hx])
  · exact ho'
  · exact hwf x (by rw [h]; simp [hx])

theorem inv_step {s s' : St} (hinv : Inv s) (hstep : Step s s') : Inv s' := by
  obtain ⟨hc, hwf⟩ := hinv
  cases hstep with
  | start a =>
    refine ⟨?_, ?_⟩
    · intro i; have hi := hc i
      simp only [cnt_cons, ind]
      have : ¬ (a ≤ i ∧ i < a) := by omega
      simp only [this, if_false]; omega
    · intro x hx; rcases List.mem_cons.mp hx with rfl | hx
      · exact Nat.le_refl _
      · exact hwf x hx
  | claimTop pre post o b' h hk hb hfree =>
    have hab : o.a ≤ o.b := hwf o (by rw [h]; exact mem_mid)
    refine ⟨?_, wf_replace h hwf (by show o.a ≤ b'; omega)⟩
    intro i; have hi := hc i
    simp only [h, cnt_append, cnt_cons, ind, setRange] at hi ⊢
    by_cases hr : o.b ≤ i ∧ i < b'
    · have hb0 := hfree i hr.1 hr.2
      have h1 : o.a ≤ i ∧ i < b' := by omega
      have h2 : ¬ (o.a ≤ i ∧ i < o.b) := by omega
      simp only [h2, if_false, hb0] at hi
      simp only [h1, hr, and_self, if_true]
      simp at hi ⊢; omega
    · by_cases h3 : o.a ≤ i ∧ i < o.b
      · have h4 : o.a ≤ i ∧ i < b' := by omega
        simp only [h3, and_self, if_true] at hi; simp only [hr, if_false]; simp only [h4, and_self, if_true]; exact hi
      · have h4 : ¬ (o.a ≤ i ∧ i < b') := by omega
        simp only [h3, if_false] at hi; simp only [hr, if_false]; simp only [h4, if_false]; exact hi
  | fail pre post o h hk =>
    have hab : o.a ≤ o.b := hwf o (by rw [h]; exact mem_mid)
    refine ⟨?_, wf_replace h hwf hab⟩
    intro i; have hi := hc i
    simp only [h, cnt_append, cnt_cons, ind] at hi ⊢; exact hi
  | finish pre post o h hk =>
    have hab : o.a ≤ o.b := hwf o (by rw [h]; exact mem_mid)
    refine ⟨?_, wf_replace h hwf hab⟩
    intro i; have hi := hc i
    simp only [h, cnt_append, cnt_cons, ind] at hi ⊢; exact hi
  | freeStart pre post o h hk =>
    have hab : o.a ≤ o.b := hwf o (by rw [h]; exact mem_mid)
    refine ⟨?_, wf_replace h hwf hab⟩
    intro i; have hi := hc i
    simp only [h, cnt_append, cnt_cons, ind] at hi ⊢; exact hi
  | storeZero pre post o k h hk htop hin =>
    refine ⟨?_, wf_replace h hwf (by show o.a ≤ 64 * k; exact hin)⟩
    intro i; have hi := hc i
    simp only [h, cnt_append, cnt_cons, ind, setRange] at hi ⊢
    by_cases hr : 64 * k ≤ i ∧ i < 64 * k + 64
    · -- bit i lies in the cleared field: it was owned by `o` (top of its run), so nobody else owned it
      have h1 : o.a ≤ i ∧ i < o.b := by omega
      have h2 : ¬ (o.a ≤ i ∧ i < 64 * k) := by omega
      have hle : (if s.bits i = true then 1 else 0) ≤ 1 := by split <;> omega
      simp only [h1, and_self, if_true] at hi
      simp only [h2, hr, and_self, if_true, if_false]
      simp; omega
    · by_cases h3 : o.a ≤ i ∧ i < o.b
      · have h4 : o.a ≤ i ∧ i < 64 * k := by omega
        simp only [h3, and_self, if_true] at hi; simp only [hr, if_false]; simp only [h4, and_self, if_true]; exact hi
      · have h4 : ¬ (o.a ≤ i ∧ i < 64 * k) := by omega
        simp only [h3, if_false] at hi; simp only [hr, if_false]; simp only [h4, if_false]; exact hi
  | casClear pre post o h hk =>
    refine ⟨?_, ?_⟩
    · intro i; have hi := hc i
      simp only [h, cnt_append, cnt_cons, ind, setRange] at hi ⊢
      by_cases hr : o.a ≤ i ∧ i < o.b
      · have hle : (if s.bits i = true then 1 else 0) ≤ 1 := by split <;> omega
        simp only [hr, and_self, if_true] at hi; simp only [hr, and_self, if_true]
        simp; omega
      · simp only [hr, if_false] at hi; simp only [hr, if_false]; omega
    · intro x hx; apply hwf x; rw [h]; simp only [List.mem_append, List.mem_cons] at hx ⊢
      rcases hx with hx | hx
      · exact Or.inl hx
      · exact Or.inr (Or.inr hx)
  | freeChunk pre post o a' h hk ha ha' =>
    refine ⟨?_, ?_⟩
    · intro i; have hi := hc i
      simp only [h, cnt_append, cnt_cons, ind, setRange] at hi ⊢
      by_cases hend : a' = o.b
      · subst hend
        simp only [if_true, cnt_nil, Nat.add_zero]
        by_cases hr : o.a ≤ i ∧ i < o.b
        · have hle : (if s.bits i = true then 1 else 0) ≤ 1 := by split <;> omega
          simp only [hr, and_self, if_true] at hi; simp only [hr, and_self, if_true]
          simp; omega
        · simp only [hr, if_false] at hi; simp only [hr, if_false]; omega
      · simp only [hend, if_false, cnt_cons, cnt_nil, ind, Nat.add_zero]
        by_cases hr : o.a ≤ i ∧ i < a'
        · have h1 : o.a ≤ i ∧ i < o.b := by omega
          have h2 : ¬ (a' ≤ i ∧ i < o.b) := by omega
          have hle : (if s.bits i = true then 1 else 0) ≤ 1 := by split <;> omega
          simp only [h1, and_self, if_true] at hi; simp only [hr, h2, and_self, if_true, if_false]
          simp; omega
        · by_cases h3 : o.a ≤ i ∧ i < o.b
          · have h4 : a' ≤ i ∧ i < o.b := by omega
            simp only [h3, and_self, if_true] at hi; simp only [hr, if_false]; simp only [h4, and_self, if_true]; omega
          · have h4 : ¬ (a' ≤ i ∧ i < o.b) := by omega
            simp only [h3, if_false] at hi; simp only [hr, if_false]; simp only [h4, if_false]; omega
    · intro x hx
      have hab : o.a ≤ o.b := hwf o (by rw [h]; exact mem_mid)
      simp only [List.mem_append, List.mem_cons] at hx
      rcases hx with (hx | hx) | hx
      · exact hwf x (by rw [h]; simp [hx])
      · by_cases hend : a' = o.b
        · simp [hend] at hx
        · simp only [hend, if_false, List.mem_cons, List.mem_nil_iff, or_false] at hx
          subst hx; exact ha'
      · exact hwf x (by rw [h]; simp [hx])

/-- two different completed claims never share a bit -/
theorem claims_disjoint {s : St} (h : Inv s) (i : Nat) : cnt s.owns i ≤ 1 := by
  have := h.count i; split at this <;> omega

/-- when nothing is owned any more, every bit is clear -/
theorem all_free_again {s : St} (h : Inv s) (hn : s.owns = []) (i : Nat) : s.bits i = false := by
  have := h.count i
  rw [hn] at this
  simp only [cnt_nil] at this
  cases hb : s.bits i with
  | false => rfl
  | true => rw [hb] at this; simp at this

end BitmapC
#print axioms BitmapC.inv_step
#print axioms BitmapC.all_free_again
