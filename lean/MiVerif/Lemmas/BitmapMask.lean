/- `mi_bitmap_mask_` and the bitmap index functions as regenerated from src/bitmap.h / bitmap.c (`Gen`): the mask of a claim is
   exactly the bit range the models (`BitSeq`, `BitmapC`) speak about.  Helper lemmas for Props/C14. -/
import MiVerif.Gen.Arith
import MiVerif.Lemmas.MaskLoop

namespace BitmapMaskL

/-- for a non-empty claim the generated mask is the field mask of the commit-mask loop (same expression in the source) -/
theorem mask_eq_fieldMask (count bitidx : Nat) (hc : 1 ≤ count) :
    Gen.mi_bitmap_mask_ count bitidx = MaskL.fieldMask count bitidx := by
  unfold Gen.mi_bitmap_mask_ MaskL.fieldMask
  by_cases h : count ≥ 64
  · rw [if_pos h, if_pos h]
  · rw [if_neg h, if_neg h, if_neg (by omega)]

theorem mask_bit (count bitidx j : Nat) (hc : 1 ≤ count) (hfit : bitidx + count ≤ 64) (hj : j < 64) :
    (Gen.mi_bitmap_mask_ count bitidx).testBit j = decide (bitidx ≤ j ∧ j < bitidx + count) := by
  rw [mask_eq_fieldMask count bitidx hc]; exact MaskL.fieldMask_bit count bitidx j hc hfit hj

theorem mask_lt (count bitidx : Nat) : Gen.mi_bitmap_mask_ count bitidx < 2^64 := by
  have e64 : (2:Nat)^64 = 18446744073709551616 := by decide
  unfold Gen.mi_bitmap_mask_
  split
  · rw [e64]; omega
  · split
    · exact Nat.two_pow_pos 64
    · rw [e64]; exact Nat.mod_lt _ (by omega)

end BitmapMaskL
