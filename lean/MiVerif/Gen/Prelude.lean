/- Fixed primitives the generated definitions (`MiVerif/Gen/*.lean`) refer to.
   Semantics assumed for compiler builtins are part of the trusted base (DESIGN.md §8). -/
def sw8 (x : Int) : Int := ((x + 2^7) % 2^8) - 2^7
def sw16 (x : Int) : Int := ((x + 2^15) % 2^16) - 2^15
def sw32 (x : Int) : Int := ((x + 2^31) % 2^32) - 2^31
def sw64 (x : Int) : Int := ((x + 2^63) % 2^64) - 2^63
def landS (a b : Int) : Int := Int.ofNat (Int.toNat (a % 2^64) &&& Int.toNat (b % 2^64))
/-- `__builtin_clzl` for x ≠ 0 (undefined for 0 in C; callers guard). -/
def __builtin_clzl (x : Nat) : Int := 63 - Nat.log2 x
def ctzAux : Nat → Nat → Nat
  | 0, _ => 0
  | f+1, x => if x % 2 = 1 then 0 else 1 + ctzAux f (x / 2)
/-- `__builtin_ctzl` for x ≠ 0. -/
def __builtin_ctzl (x : Nat) : Int := ctzAux 64 x
def popAux : Nat → Nat → Nat
  | 0, _ => 0
  | f+1, x => x % 2 + popAux f (x / 2)
def __builtin_popcountl (x : Nat) : Int := popAux 64 x
/-- `__builtin_umull_overflow a b &r` = (overflow flag, low 64 bits). -/
def umull_overflow (a b : Nat) : Nat × Nat := (if a * b ≥ 2^64 then 1 else 0, (a * b) % 2^64)

/-- memory-mode write buffer: later writes shadow earlier ones and the initial memory `rd0`. -/
abbrev Mem := List ((String × Nat) × Nat)
def rdm (rd0 : String → Nat → Nat) (m : Mem) (f : String) (a : Nat) : Nat :=
  match m.lookup (f, a) with
  | some v => v
  | none => rd0 f a
def wrm (m : Mem) (f : String) (a : Nat) (v : Nat) : Mem := ((f, a), v) :: m

/-- `while (c) body` over the tuple of variables the body assigns, with fuel (the translator passes 2^64, more iterations than any
    loop over a `size_t` counter can make; safety statements are proved for every fuel by `whileN_inv`). -/
def whileN {σ : Type} : Nat → (σ → Bool) → (σ → σ) → σ → σ
  | 0, _, _, s => s
  | n + 1, c, body, s => if c s then whileN n c body (body s) else s

/-- loop invariant rule: what the body preserves while the condition holds, holds when the loop stops (for every fuel) -/
theorem whileN_inv {σ : Type} (P : σ → Prop) (c : σ → Bool) (body : σ → σ)
    (hstep : ∀ s, P s → c s = true → P (body s)) : ∀ (n : Nat) (s : σ), P s → P (whileN n c body s) := by
  intro n
  induction n with
  | zero => intro s h; exact h
  | succ n ih =>
    intro s h
    unfold whileN
    by_cases hc : c s = true
    · rw [if_pos hc]; exact ih _ (hstep s h hc)
    · rw [if_neg hc]; exact h
