"""C10 — first-class heaps: delete migrates, destroy frees exactly its own blocks
(T2: ownership model with theorems; direct-drive correspondence of the real heap functions and ownership queries; sequential shadow
oracle; T3: scheduler stress with heap deletion racing remote frees)."""
import os
import vcommon as V
from checks import seqcommon, t3common

TRUSTED = ['Lean 4 kernel', 'hand-written ownership model MiVerif/Model/Heap.lean (compared with mi_heap_contains_block / mi_heap_check_owned / mi_heap_get_default after every operation)',
           'the concurrent clause relies on the delayed-free protocol (C02/C08 theorems: the delayed-freeing state has one holder and is waited out) and on sequentially consistent atomics; it is searched by the scheduler oracle, the absorb window itself is not modelled',
           'with target_segments_per_thread > 0 pages migrate between heaps (known finding) - the ownership checks are not applied in those option rows']

def run(chk):
    chk.trusted = TRUSTED
    chk.assumptions = ['release configuration for the correspondence; release and MI_DEBUG builds for the oracles', 'heaps made by mi_heap_new_in_arena do not allow destroy (documented fall-back to delete)']
    chk.extra['rule'] = ('obligations = theorems of Props/C10.lean; evaluations = heap operations replayed by the model + API calls of the shadow oracle + scheduler runs; distinct = oracle / scheduler runs')
    chk.lean('MiVerif.Props.C10')
    okd, exe, log = V.build_driver()
    if not okd:
        chk.broken_tie('lean driver does not build', log[-1500:])
    thorough = chk.tier == 'thorough'
    with V.Scratch() as d:
        h = os.path.join(d, 'c10')
        ok, log = V.cc_harness(os.path.join(V.HARNESS, 'c10.c'), h, flags=list(V.RELEASE) + ['-DVERIF_STATIC_C="%s/src/static.c"' % V.REPO])
        if not ok:
            chk.broken_tie('C10 harness does not compile against the current tree', log[-1500:])
        else:
            jobs = [([h, str(sd), '4000'], None, 300) for sd in range(chk.seed, chk.seed + (10 if thorough else 4))]
            outs = V.pmap(jobs)
            tot = 0
            for (cmd, _, _), (rc, out, err) in zip(jobs, outs):
                if rc != 0 or 'DONE' not in out:
                    last = [l for l in out.splitlines() if l][-1:] or ['']
                    chk.violation('C10/heap-program-crash', 'allocator crashed in a heap program (seed %s) after: %s %s' % (cmd[1], last[0][:160], err[-200:].replace('\n', ' ')), {'cmd': 'harness/c10 ' + ' '.join(cmd[1:])}); continue
                for l in out.splitlines():
                    if l.startswith('FAIL'):
                        p = l.split(); chk.violation('C10/' + p[1], ' '.join(p[2:])[:300], {'cmd': 'harness/c10 ' + ' '.join(cmd[1:])})
                if okd:
                    rc2, out2, err2 = V.run([exe, 'c10'], input=out, timeout=300)
                    summ = [l for l in out2.splitlines() if l.startswith('c10val cases')]
                    diffs = [l for l in out2.splitlines() if l.startswith('DIFF')]
                    if summ:
                        tot += int(summ[0].split()[2])
                    if rc2 != 0 or diffs or not summ:
                        chk.broken_tie('correspondence: ownership answered by the real heap queries differs from HeapM (seed %s)' % cmd[1], '\n'.join(diffs[:5])[:1500] or out2[-300:])
                for l in [x for x in out.splitlines() if x.startswith('H delete') or x.startswith('H destroy')][:1]:
                    chk.sample(l[:200])
            chk.count(tot); chk.extra['heap_operations_replayed'] = tot
        hs = seqcommon.build(chk, d)
        hd = seqcommon.build(chk, d, flags=('-DMI_DEBUG=2',), tag='dbg')
        n = 8 if thorough else 3
        ops = 30000 if thorough else 12000
        if hs:
            seqcommon.run(chk, hs, [(chk.seed * 50 + i, ops, 0, i % 2) for i in range(n)], ('c10_',))
        if hd:
            seqcommon.run(chk, hd, [(chk.seed * 50 + 9, ops // 2, 0, 0)], ('c10_',), tag='dbg')
        # concurrent clause: heap deletion racing remote frees under the deterministic scheduler
        t3common.stress(chk, d, 200 if not thorough else 1500, modes=(2, 6), ops=200, keys=('double_handout', 'content_changed', 'blocks_left_behind', 'abandoned_left_behind', 'alloc_failed'))
