/-! Hand-written prelude of the generated file Gen/ArenaGen.lean (extract/arenatr.py): the arena state the functions of src/arena.c
    work on (one bit per 32 MiB arena block), the interpretation of the bitmap primitives on a block range, and of the OS calls. -/
namespace GenR

abbrev Mask := Nat → Bool

structure MemId where
  initially_committed : Bool
  initially_zero : Bool
  is_pinned : Bool
deriving DecidableEq, Repr

structure ArSt where
  inuse : Mask
  committed : Mask
  purge : Mask
  dirty : Mask
  os : Mask                 -- ghost: every OS page of the block is accessible
  hasCommitted : Bool       -- arena->blocks_committed != NULL
  hasPurge : Bool
  hasDirty : Bool
  pinned : Bool             -- arena->memid.is_pinned
  zeroInit : Bool           -- arena->memid.initially_zero
  expire : Int              -- arena->purge_expire
  gexpire : Int             -- mi_arenas_purge_expire
  start : Nat               -- arena->start

def inRange (i n : Int) (k : Nat) : Bool := decide (i ≤ (k : Int) ∧ (k : Int) < i + n)
/-- _mi_bitmap_claim_across: set the bits of the range -/
def mSet (m : Mask) (i n : Int) : Mask := fun k => if inRange i n k then true else m k
/-- _mi_bitmap_unclaim_across: clear the bits of the range -/
def mClr (m : Mask) (i n : Int) : Mask := fun k => if inRange i n k then false else m k
def bmAllSet (m : Mask) (i n : Int) : Bool := (List.range n.toNat).all (fun j => m (i.toNat + j))
def bmAllZero (m : Mask) (i n : Int) : Bool := (List.range n.toNat).all (fun j => !m (i.toNat + j))
def bmAnyZero (m : Mask) (i n : Int) : Bool := (List.range n.toNat).any (fun j => !m (i.toNat + j))
def bmCount (m : Mask) (i n : Int) : Int := (((List.range n.toNat).filter (fun j => m (i.toNat + j))).length : Int)

def blockStart (σ : ArSt) (idx : Int) : Int := (σ.start : Int) + idx * 33554432
/-- the arena blocks covered by the address range [p, p + size) -/
def blocksOf (σ : ArSt) (p size : Int) : Int × Int := ((p - (σ.start : Int)) / 33554432, size / 33554432)

/-- _mi_os_commit_ex with the OS's answer -/
def osCommit (σ : ArSt) (p size : Int) (ok : Bool) : ArSt × Bool :=
  if ok then ({ σ with os := mSet σ.os (blocksOf σ p size).1 (blocksOf σ p size).2 }, true) else (σ, false)
/-- _mi_os_purge / _mi_os_purge_ex with the OS layer's answer and whether access was really revoked -/
def osPurge (σ : ArSt) (p size : Int) (needsRecommit gone : Bool) : ArSt × Bool :=
  ({ σ with os := if gone then mClr σ.os (blocksOf σ p size).1 (blocksOf σ p size).2 else σ.os }, needsRecommit)

end GenR
