// C15: (a) the real suitability tests on enumerated inputs -> compared with GenA (translator validation);
//      (b) memory handed to mi_manage_os_memory_ex is only used inside the bounds given (oracle); a bound heap returns NULL when full
#include VERIF_STATIC_C
#include <stdio.h>
#include <sys/mman.h>
static int nfail = 0;
#define FAIL(key, ...) do { if (nfail++ < 30) { printf("FAIL %s ", key); printf(__VA_ARGS__); printf("\n"); } } while (0)
static uint64_t rs = 88172645463325252ULL;
static uint64_t rnd(void) { rs ^= rs << 13; rs ^= rs >> 7; rs ^= rs << 17; return rs; }
int main(int argc, char** argv) {
  uint64_t seed = argc > 1 ? strtoull(argv[1], 0, 10) : 1; rs ^= seed * 0x9E3779B97F4A7C15ULL; if (!rs) rs = 1; for (int i = 0; i < 8; i++) rnd();
  long n_eval = 0;
  for (int a = 0; a <= 4; a++) for (int ex = 0; ex <= 1; ex++) for (int r = 0; r <= 4; r++) { printf("AS %d %d %d -> %d\n", a, ex, r, (int)mi_arena_id_is_suitable(a, ex, r)); n_eval++; }
  for (int k = 0; k <= 7; k++) for (int a = 0; a <= 3; a++) for (int ex = 0; ex <= 1; ex++) for (int r = 0; r <= 3; r++) {
    mi_memid_t m = _mi_memid_create((mi_memkind_t)k); m.mem.arena.id = a; m.mem.arena.is_exclusive = ex; if (k != MI_MEM_ARENA) { m.mem.os.base = NULL; m.mem.os.size = 0; m.mem.arena.id = a; m.mem.arena.is_exclusive = ex; }
    printf("MS %d %d %d %d -> %d\n", k, a, ex, r, (int)_mi_arena_memid_is_suitable(m, r)); n_eval++; }
  // managed regions with unaligned starts
  for (int t = 0; t < 3; t++) {
    size_t total = (size_t)400 << 20; uint8_t* base = (uint8_t*)mmap(NULL, total, PROT_READ | PROT_WRITE, MAP_PRIVATE | MAP_ANONYMOUS | MAP_NORESERVE, -1, 0);
    if (base == MAP_FAILED) { printf("SKIP mmap\n"); break; }
    size_t off = 4096 * (1 + (size_t)(rnd() % 5000)); size_t size = ((size_t)70 << 20) + 4096 * (size_t)(rnd() % 30000);
    uint8_t* start = base + off;
    memset(start - 4096, 0xC3, 4096); memset(start + size, 0xC3, 4096);   // canaries just outside the region
    mi_arena_id_t id = 0;
    bool ok = mi_manage_os_memory_ex(start, size, true, false, true, -1, true, &id); n_eval++;
    if (!ok) { printf("MR %zu %zu -> rejected\n", (size_t)start, size); continue; }
    size_t asz = 0; uint8_t* astart = (uint8_t*)mi_arena_area(id, &asz);
    printf("MR %zu %zu -> %zu %zu\n", (size_t)start, size, (size_t)astart, asz);
    if (astart < start || astart + asz > start + size) FAIL("c15_managed_region_bounds", "region [%p,+%zu) arena area [%p,+%zu)", (void*)start, size, (void*)astart, asz);
    mi_heap_t* h = mi_heap_new_in_arena(id); long got = 0, nulls = 0;
    for (int i = 0; i < 400; i++) { size_t n = (size_t)(1 << 20) + (size_t)(rnd() % (2 << 20)); uint8_t* p = (uint8_t*)mi_heap_malloc(h, n); n_eval++;
      if (p == NULL) { nulls++; continue; } got++;
      if (p < start || p + n > start + size) FAIL("c15_outside_managed_region", "block [%p,+%zu) outside the region [%p,+%zu) given to mi_manage_os_memory_ex", (void*)p, n, (void*)start, size);
      memset(p, 0x11, n); }
    if (nulls == 0) FAIL("c15_no_null_when_full", "400 x 1-3 MiB from a %zu MiB arena-bound heap never returned NULL (fell back to the OS?)", size >> 20);
    for (size_t i = 0; i < 4096; i++) if (start[-4096 + (long)i] != 0xC3 || start[size + i] != 0xC3) { FAIL("c15_wrote_outside_managed_region", "canary byte %zu changed", i); break; }
    // an unbound heap never gets memory of this exclusive arena
    for (int i = 0; i < 200; i++) { uint8_t* q = (uint8_t*)mi_malloc(100000); n_eval++; if (q >= start && q < start + size) { FAIL("c15_exclusive_leaked", "mi_malloc returned %p inside the exclusive managed region", (void*)q); break; } mi_free(q); }
    printf("STAT managed_blocks %ld\nSTAT managed_nulls %ld\n", got, nulls);
  }
  printf("STAT evaluations %ld\nDONE\n", n_eval); fflush(stdout);
  return 0;
}
