"""C12 — heap walking reports exactly the live blocks
(T2: exactness theorems over the page model; the walk of real pages is compared with the model by direct drive; T1: the fast
division of the walk is the regenerated function proved exact in C16; the shadow oracle compares whole-heap walks with the live set)."""
import os
import vcommon as V
from checks import seqcommon

TRUSTED = ['Lean 4 kernel', 'hand-written page model (MiVerif/Model/Page.lean), compared with the real _mi_heap_area_visit_blocks after every walk',
           'translator extract/translate.py for mi_get_fast_divisor / mi_fast_divide (validated in C16)',
           'the free-block bitmap and the ctz loop of the walk are covered by the correspondence, not modelled bit by bit',
           'abandoned-block visiting (mi_abandoned_visit_blocks) is exercised by the oracle only when MIMALLOC_VISIT_ABANDONED is set: not claimed by the theorem']

def run(chk):
    chk.trusted = TRUSTED
    chk.assumptions = ['no pending cross-thread frees at the time of the walk (the property\'s premise): the walk force-collects the page first', 'release configuration']
    chk.extra['rule'] = ('obligations = theorems of Props/C12.lean; evaluations = page walks and micro-steps replayed by the model + whole-heap walks compared with the shadow live set; '
                         'distinct = distinct oracle runs')
    chk.lean('MiVerif.Props.C12', groups=['Arith', 'Tables'])
    okd, exe, log = V.build_driver()
    if not okd:
        chk.broken_tie('lean driver does not build', log[-1500:])
    thorough = chk.tier == 'thorough'
    with V.Scratch() as d:
        h = os.path.join(d, 'c01')
        ok, log = V.cc_harness(os.path.join(V.HARNESS, 'c01.c'), h, flags=list(V.RELEASE) + ['-DVERIF_STATIC_C="%s/src/static.c"' % V.REPO])
        if not ok:
            chk.broken_tie('page-walk harness does not compile against the current tree', log[-1500:])
        else:
            jobs = [([h, 'page', str(sd), '8000'], None, 300) for sd in range(chk.seed, chk.seed + (10 if thorough else 4))]
            outs = V.pmap(jobs)
            walks = steps = 0
            for (cmd, _, _), (rc, out, err) in zip(jobs, outs):
                if rc != 0 or 'DONE' not in out:
                    chk.violation('C12/walk-crash', 'allocator crashed when pages were walked directly (%s): %s' % (' '.join(cmd[1:]), (err or out)[-300:].replace('\n', ' ')), {'cmd': 'harness/c01 ' + ' '.join(cmd[1:])}); continue
                walks += sum(1 for l in out.splitlines() if l.startswith('PG visit'))
                if okd:
                    rc2, out2, err2 = V.run([exe, 'c01'], input=out, timeout=600)
                    summ = [l for l in out2.splitlines() if l.startswith('c01val steps')]
                    bad = [l for l in out2.splitlines() if l.startswith('DIFF') or l.startswith('INVARIANT')]
                    if summ:
                        steps += int(summ[0].split()[2])
                    if rc2 != 0 or bad or not summ:
                        chk.broken_tie('correspondence: the walk of a real page differs from PageM.visitList (or a micro-step differs)', '\n'.join(bad[:6])[:1500] or (out2[-300:] + err2[-300:]))
                for l in [x for x in out.splitlines() if x.startswith('PG visit')][:1]:
                    chk.sample(l[:200])
            chk.count(steps); chk.extra['page_walks_compared'] = walks; chk.extra['micro_steps_replayed'] = steps
            if walks == 0:
                chk.broken_tie('correspondence', 'no page walk was compared')
        hs = seqcommon.build(chk, d)
        if hs:
            n = 8 if thorough else 3
            seqcommon.run(chk, hs, [(chk.seed * 20 + i, 30000 if thorough else 12000, 0, i % 2) for i in range(n)], ('c12_',))
