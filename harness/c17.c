// C17 — hardened configuration (compile with -DMI_SECURE=4): implementation-side oracle + function-level
// correspondence lines for the generated secure-mode functions (Gen/Secure.lean).
//  T lines:  "T samepage p q so bs sc -> r", "T next w k0 k1 page block so bs sc -> r",
//            "T dfree w k0 k1 page block so bs sc fx -> r", "T pad bsize delta canary k0 k1 page block -> ok delta bsize usable"
//  FAIL lines: a second free not reported as EAGAIN, an overflowing byte not reported as EFAULT, a forged link
//            followed instead of reported, a block handed out twice / outside the heap after a detected error.
#include VERIF_STATIC_C
#include <stdio.h>
#include <unistd.h>
#include <stdlib.h>
#include <errno.h>
static int nfail = 0;
#define FAIL(key, ...) do { if (nfail++ < 40) { printf("FAIL %s ", key); printf(__VA_ARGS__); printf("\n"); } } while (0)
static uint64_t rs = 88172645463325252ULL;
static uint64_t rnd(void) { rs ^= rs << 13; rs ^= rs >> 7; rs ^= rs << 17; return rs; }
static int errs[64]; static int nerr = 0;
static void on_error(int err, void* arg) { (void)arg; if (nerr < 64) errs[nerr] = err; nerr++; }
static int saw(int code) { for (int i = 0; i < nerr && i < 64; i++) if (errs[i] == code) return 1; return 0; }

enum { NLIVE = 3000 };
static struct { uint8_t* p; size_t n; uint8_t pat; } live[NLIVE];
static int nlive = 0;
static int find_live(void* p) { for (int i = 0; i < nlive; i++) if (live[i].p == (uint8_t*)p) return i; return -1; }
static int overlaps_live(uint8_t* p, size_t n) { for (int i = 0; i < nlive; i++) if (p < live[i].p + live[i].n && live[i].p < p + n) return i; return -1; }
static void* xalloc(size_t n, const char* ctx) {
  uint8_t* p = (uint8_t*)mi_malloc(n); if (!p) { FAIL("alloc_failed", "%s n=%zu", ctx, n); return NULL; }
  if (!mi_is_in_heap_region(p)) FAIL("outside_heap", "%s p=%p", ctx, p);
  if (!mi_check_owned(p)) FAIL("outside_heap_areas", "%s p=%p not in an area of the heap", ctx, p);
  int o = overlaps_live(p, n ? n : 1); if (o >= 0) FAIL("double_handout", "%s: block %p (n=%zu) overlaps live block %d (%p,%zu)", ctx, p, n, o, live[o].p, live[o].n);
  if (mi_usable_size(p) < n) FAIL("usable_lt_size", "%s n=%zu usable=%zu", ctx, n, mi_usable_size(p));
  if (nlive < NLIVE) { live[nlive].p = p; live[nlive].n = n; live[nlive].pat = (uint8_t)(1 + rnd() % 200); memset(p, live[nlive].pat, n); nlive++; }
  return p;
}
static void xfree_idx(int i) { for (size_t k = 0; k < live[i].n; k++) if (live[i].p[k] != live[i].pat) { FAIL("content_changed", "block %d at %zu", i, k); break; } mi_free(live[i].p); live[i] = live[--nlive]; }

static size_t n_t = 0;
static void tlines(void* pv) {    // function-level correspondence on a real block
#ifdef C17_DEBUG_BUILD
  (void)pv; return;
#endif
  uint8_t* p = (uint8_t*)pv; mi_page_t* page = _mi_ptr_page(p); mi_segment_t* seg = _mi_ptr_segment(p); mi_block_t* block = (mi_block_t*)p;
  mi_slice_t* slice0 = &seg->slices[((uint8_t*)p - (uint8_t*)seg) >> MI_SEGMENT_SLICE_SHIFT];
  size_t so = slice0->slice_offset, bs = page->block_size, sc = ((mi_slice_t*)page)->slice_count;
  size_t k0 = page->keys[0], k1 = page->keys[1];
  uint8_t* qs[5] = { p + 8, page->page_start, page->page_start + (size_t)page->capacity * bs - 8, (uint8_t*)seg + 16, (uint8_t*)(rnd() | 8) };
  for (int i = 0; i < 5; i++) { printf("T samepage %zu %zu %zu %zu %zu -> %d\n", (size_t)p, (size_t)qs[i], so, bs, sc, (int)mi_is_in_same_page(p, qs[i])); n_t++; }
  size_t saved = block->next;
  size_t ws[4] = { saved, mi_ptr_encode(page, page->page_start, page->keys), mi_ptr_encode(page, NULL, page->keys), (size_t)rnd() };
  for (int i = 0; i < 4; i++) { block->next = ws[i]; int before = nerr;
    mi_block_t* nx = mi_block_next(page, block); nerr = before;     // (reports of this probe are not part of the history)
    printf("T next %zu %zu %zu %zu %zu %zu %zu %zu -> %zu\n", ws[i], k0, k1, (size_t)page, (size_t)block, so, bs, sc, (size_t)nx); n_t++;
    bool fx = mi_check_is_double_freex(page, block); nerr = before;
    bool df = mi_check_is_double_free(page, block); nerr = before;
    printf("T dfree %zu %zu %zu %zu %zu %zu %zu %zu %d -> %d\n", ws[i], k0, k1, (size_t)page, (size_t)block, so, bs, sc, (int)fx, (int)df); n_t++; }
  block->next = saved;
  { size_t delta = 0, bsz = 0; bool ok = mi_page_decode_padding(page, block, &delta, &bsz); const mi_padding_t* pad = (mi_padding_t*)((uint8_t*)block + mi_page_usable_block_size(page));
    printf("T pad %zu %zu %zu %zu %zu %zu %zu -> %d %zu %zu %zu\n", bs, (size_t)pad->delta, (size_t)pad->canary, k0, k1, (size_t)page, (size_t)block, (int)ok, delta, bsz, mi_page_usable_size_of(page, block)); n_t++; }
}

int main(int argc, char** argv) {
  uint64_t seed = argc > 1 ? strtoull(argv[1], 0, 10) : 1;
  int rounds = argc > 2 ? atoi(argv[2]) : 300;
  rs ^= seed * 0x9E3779B97F4A7C15ULL; if (rs == 0) rs = 1;
  mi_option_set(mi_option_show_errors, 0); mi_option_set(mi_option_max_errors, 0); mi_option_set(mi_option_max_warnings, 0); mi_option_set(mi_option_verbose, 0);
  mi_register_error(&on_error, NULL);
  alarm(rounds > 1000 ? 600 : 150);   // a followed forged link can put the allocator into an endless loop: die instead (reported as a crash)
  size_t n_double = 0, n_over = 0, n_forge = 0, n_forge_seg = 0, n_ops = 0;
  static const size_t SZ[] = { 1, 8, 15, 16, 24, 40, 48, 100, 120, 128, 200, 500, 1000, 2000, 5000, 9000, 20000, 70000 };
  for (int r = 0; r < rounds; r++) {
    // ordinary activity
    for (int k = 0; k < 30; k++) { n_ops++; if (nlive > 200 && rnd() % 3 == 0) xfree_idx((int)(rnd() % nlive)); else xalloc(SZ[rnd() % 18] + rnd() % 8, "history"); }
    if (nlive < 3) continue;
    int which = r % 3;
#ifdef C17_DEBUG_BUILD
    which = r % 2;   // debug builds: detection of double free and overflow only (assertions after a forged link are outside the claim)
#endif
    if (which == 0) {           // second free of a thread-local block whose area still holds another live block
      size_t n = SZ[rnd() % 14]; uint8_t* a = (uint8_t*)xalloc(n, "df-a"); uint8_t* b = (uint8_t*)xalloc(n, "df-b"); if (!a || !b) continue;
      if (_mi_ptr_page(a) != _mi_ptr_page(b)) continue;   // need another live block in the same area
      tlines(a);
      int ia = find_live(a); live[ia] = live[--nlive];  // a leaves the shadow: first free is legitimate
      mi_free(a); nerr = 0; mi_free(a); n_double++;
      if (!saw(EAGAIN)) FAIL("double_free_not_reported", "size=%zu block=%p errors=%d", n, a, nerr);
      nerr = 0;
      for (int k = 0; k < 40; k++) xalloc(n, "after-double-free");       // a must come back at most once
    } else if (which == 1) {    // a foreign byte just past the requested size
      size_t n = SZ[rnd() % 16] + rnd() % 8; uint8_t* a = (uint8_t*)mi_malloc(n); if (!a) continue;
      size_t us = mi_usable_size(a); if (us != n) { FAIL("secure_usable_is_requested", "n=%zu usable=%zu", n, us); }
      tlines(a);
      uint8_t old = a[n]; uint8_t v = (uint8_t)(rnd() % 256); if (v == old) v ^= 0x5A; a[n] = v; nerr = 0; mi_free(a); n_over++;
      if (!saw(EFAULT)) FAIL("overflow_not_reported", "size=%zu wrote %u over %u at offset %zu, errors=%d", n, v, old, n, nerr);
      nerr = 0;
      for (int k = 0; k < 10; k++) xalloc(n, "after-overflow");
    } else {                    // a free-list link overwritten by the program
      size_t n = SZ[rnd() % 12]; uint8_t* a = (uint8_t*)xalloc(n, "fl-a"); uint8_t* keep = (uint8_t*)xalloc(n, "fl-keep"); if (!a || !keep) continue;
      int ia = find_live(a); live[ia] = live[--nlive]; mi_free(a);
      uint64_t forged = rnd();
      if (rnd() % 2) {   // a well-formed encoded link to a live block in ANOTHER page of the same segment (only the same-page test can refuse it)
        mi_page_t* pg = _mi_ptr_page(a);
        for (int j = 0; j < nlive; j++) { uint8_t* t = live[j].p; if (_mi_ptr_segment(t) == _mi_ptr_segment(a) && _mi_ptr_page(t) != pg) { forged = (uint64_t)mi_ptr_encode(pg, t, pg->keys); n_forge_seg++; break; } } }
      *(uint64_t*)a = forged; nerr = 0; n_forge++;
      int reported = 0;
      for (int k = 0; k < 6000 && !reported; k++) { xalloc(n, "after-forged-link"); if (saw(EFAULT)) reported = 1; if (nlive > NLIVE - 10) break; }
      if (!reported) { // the allocator may legitimately not have reached the block yet; force collection and drain the page
        mi_collect(true); for (int k = 0; k < 2000 && !reported && nlive < NLIVE - 10; k++) { xalloc(n, "after-forged-link"); if (saw(EFAULT)) reported = 1; } }
      if (!reported && nlive < NLIVE - 10) FAIL("forged_link_not_reported", "size=%zu forged=%llu", n, (unsigned long long)forged);
      nerr = 0;
      while (nlive > 400) xfree_idx((int)(rnd() % nlive));
    }
  }
  while (nlive > 0) xfree_idx(nlive - 1);
  printf("STAT ops %zu\nSTAT double_frees %zu\nSTAT overflows %zu\nSTAT forged_links %zu\nSTAT forged_links_same_segment %zu\nSTAT tlines %zu\n", n_ops, n_double, n_over, n_forge, n_forge_seg, n_t);
  printf("DONE fails %d\n", nfail);
  return 0;
}
