/- executable specification of the sequential bitmap operations (C14): what a claim / unclaim may do to the bits.
   Used by the driver to check every step of the real _mi_bitmap_* functions (harness/c14.c mode seq). -/
namespace BitSeq

abbrev Bits := List Bool

def ofFields (fs : List Nat) : Bits := fs.flatMap fun f => (List.range 64).map f.testBit

def allClear (b : Bits) (i n : Nat) : Bool := (List.range n).all fun k => b.getD (i + k) true == false
def allSet (b : Bits) (i n : Nat) : Bool := (List.range n).all fun k => b.getD (i + k) false == true
def setRange (b : Bits) (i n : Nat) (v : Bool) : Bits := b.mapIdx fun j x => if i ≤ j ∧ j < i + n then v else x

/-- a (try-)claim of `cnt` bits: on success the run was entirely clear and exactly it is set; on failure nothing changed
    (nothing is left reserved after a roll-back) -/
def claimOk (before after : Bits) (ok : Bool) (idx cnt : Nat) : Bool :=
  if ok then allClear before idx cnt && after == setRange before idx cnt true && decide (idx + cnt ≤ before.length)
  else after == before

/-- an unclaim clears exactly the run; the result says whether all its bits had been set -/
def unclaimOk (before after : Bits) (all : Bool) (idx cnt : Nat) : Bool :=
  after == setRange before idx cnt false && all == allSet before idx cnt

end BitSeq
