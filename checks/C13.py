"""C13 — guarantees hold under every option setting; purging never touches live data
(T1: the purge / commit range arithmetic regenerated from segment.c + theorem; the oracles of C01-C05/C12 re-run under a pairwise
covering array of option rows, in the release build (content check: a purge of live data zeroes it) and in the MI_DEBUG build where
decommit really revokes access (a stray access faults); T1 again: the generated mi_segment_purge / mi_arena_purge /
mi_arena_schedule_purge only touch the range they were given (frame theorems); the real segment / arena commit and purge functions driven
directly, without refusals, under purge delays 0 / 10 / off with per-page accessibility recorded by the OS shim)."""
import os
import vcommon as V
from checks import seqcommon

TRUSTED = ['Lean 4 kernel', 'translator extract/translate.py (mi_segment_commit_mask, _mi_align_up/_mi_align_down; validated against the compiled functions in C16\'s translator validation)',
           'extract/translate.py for mi_arena_purge_range in Gen/Loops.lean (nested while loops -> whileN), validated against the running function (harness/c07 prange -> Driver/C13pr)',
           'translators extract/masktr.py (mi_segment_purge) and extract/arenatr.py (mi_arena_purge, mi_arena_schedule_purge) with their hand-written preludes Gen/CommitPrelude.lean, Gen/ArenaPrelude.lean (bitmap primitives and OS calls interpreted on unit / block ranges); validated step by step against the running functions by the C07 check',
           'the models of C01/C03/C04/C05/C12 do not mention options: their theorems hold for every setting; what options change (which ranges get committed / purged / recommitted, arena use) is proved for the range arithmetic only and searched by the option-row oracle for the rest',
           'hardware accessibility is observed, not proved: SIGSEGV in the MI_DEBUG build, zeroed contents in the release build']

ROWS = 12

def run(chk):
    chk.trusted = TRUSTED
    chk.assumptions = ['12 option rows = pairwise covering array over purge_delay {-1,0,1,10}, purge_decommits, eager_commit, eager_commit_delay, arena_eager_commit {0,1,2}, disallow_arena_alloc, arena_reserve {64 MiB, 1 GiB}, abandoned_reclaim_on_free, target_segments_per_thread {0,2}',
                       'time-dependent purging (delays 1 and 10 ms) uses the real clock in this oracle; the virtual-clock treatment is C18']
    chk.extra['rule'] = ('obligations = theorems of Props/C13.lean over regenerated definitions; evaluations = API calls of the shadow oracle summed over option rows and builds; distinct = (row, build, seed) runs')
    chk.lean('MiVerif.Props.C13', groups=['Arith', 'Commit', 'ArenaGen', 'Loops'])
    thorough = chk.tier == 'thorough'
    with V.Scratch() as d:
        hs = seqcommon.build(chk, d)
        hd = seqcommon.build(chk, d, flags=('-DMI_DEBUG=2',), tag='dbg')
        pre = ('c01_', 'c03_', 'c04_', 'c05_', 'c12_', 'c10_heap_changed')   # c10_heap_changed_by_forced_abandon: known finding (rows with target_segments_per_thread > 0)     # every guarantee re-checked per row; the known finding keeps its own key
        rows = list(range(1, ROWS + 1))
        drows = rows if thorough else [r for r in rows if (r + chk.seed) % 2 == 0]      # MI_DEBUG build: quick runs half of the rows, rotating with the seed
        ops = 30000 if thorough else 10000
        if hs:
            seqcommon.run(chk, hs, [(chk.seed * 70 + r, ops, r, 0) for r in rows] + [(chk.seed * 70 + 50 + r, ops, r, 1) for r in rows[:2]], pre)
        if hd:
            # row 3 (reset instead of decommit + lazy commit) in the MI_DEBUG build: known finding (the debug-only memset of _mi_os_reset
            # touches the uncommitted part of a partially committed span); any crash of that row is reported under that key
            seqcommon.run(chk, hd, [(chk.seed * 70 + 20 + r, ops // 2, r, 0) for r in drows], pre, tag='dbg', timeout=900,
                          crash_key=lambda cmd: 'C13/debug_reset_touches_uncommitted' if cmd[3] == '3' else 'C13/seq-crash')
        chk.extra['option_rows_run'] = rows
        # ---- lazy commit / purge of segments and arenas driven directly (the C07 harness without refusals): after every step no unit
        # or block recorded as committed may be inaccessible and a range handed out as committed must be writable; purge delays 0 / 10 / off
        jobs = []
        for tag, flags in (('rel', list(V.RELEASE)), ('dbg', ['-DMI_DEBUG=2'])):
            h = os.path.join(d, 'c07_' + tag)
            ok, log = V.cc_harness(os.path.join(V.HARNESS, 'c07.c'), h, flags=flags + ['-DVERIF_STATIC_C="%s/src/static.c"' % V.REPO])
            if not ok:
                chk.broken_tie('commit / purge direct-drive harness (%s) does not compile against the current tree' % tag, log[-1500:]); continue
            for sd in range(chk.seed, chk.seed + (6 if thorough else 2)):
                jobs.append((tag, [h, 'seg', str(sd), '400']))
                for dl in ('0', '10', '-1'):
                    jobs.append((tag, [h, 'arena', str(sd), '300', dl]))
        outs = V.pmap([(['env', 'C07_NOINJECT=1'] + cmd, None, 300) for _, cmd in jobs])
        nsteps = 0
        for (tag, cmd), (rc, out, err) in zip(jobs, outs):
            args = {'build': tag, 'cmd': 'C07_NOINJECT=1 harness/c07 ' + ' '.join(cmd[1:])}
            if rc != 0 or 'DONE' not in out:
                chk.violation('C13/commit-drive-crash', 'segment / arena commit and purge functions crashed when driven directly (%s build, %s): %s' % (tag, ' '.join(cmd[1:]), (err or out)[-300:].replace('\n', ' ')), args); continue
            for l in out.splitlines():
                if l.startswith('FAIL'):
                    chk.violation('C13/' + l.split()[1], 'real allocator, %s build, %s (no refusals): %s' % (tag, ' '.join(cmd[1:]), l[5:300]), args)
                elif l[:2] in ('S ', 'A '):
                    nsteps += 1; chk.count()
        chk.extra['commit_purge_direct_drive_steps'] = nsteps
        # ---- translator validation of the loop translation: the real mi_arena_purge_range (start, length, purge mask -> result and the
        # block ranges handed to the OS) against the regenerated function (Gen/Loops.lean) through the compiled Lean driver
        okd, exe, dlog = V.build_driver()
        hrel = os.path.join(d, 'c07_rel')
        if not okd:
            chk.broken_tie('lean driver does not build', dlog[-1500:])
        elif os.path.exists(hrel):
            pj = [([hrel, 'prange', str(sd), '3000'], None, 300) for sd in range(chk.seed, chk.seed + (6 if thorough else 2))]
            ncase = 0
            for (cmd, _, _), (rc, out, err) in zip(pj, V.pmap(pj)):
                args = {'cmd': 'harness/c07 ' + ' '.join(cmd[1:]), 'how_to_run': 'harness/c07 %s | lean/.lake/build/bin/midriver c13pr' % ' '.join(cmd[1:])}
                if rc != 0 or 'DONE' not in out:
                    chk.violation('C13/purge-range-crash', 'mi_arena_purge_range crashed when driven directly (%s): %s' % (' '.join(cmd[1:]), (err or out)[-300:].replace('\n', ' ')), args); continue
                if 'SKIP' in out:
                    chk.log('purge-range drive skipped: ' + [l for l in out.splitlines() if l.startswith('SKIP')][0]); continue
                for l in out.splitlines():
                    if 'FAIL ' in l:
                        f = l[l.index('FAIL'):]
                        chk.violation('C13/' + f.split()[1], 'real mi_arena_purge_range (%s): %s' % (' '.join(cmd[1:]), f[5:300]), args)
                rc2, out2, err2 = V.run([exe, 'c13pr'], input=out, timeout=300)
                summ = [l for l in out2.splitlines() if l.startswith('c13prval cases')]
                dl = [l for l in out2.splitlines() if l.startswith('DIFF')]
                if summ:
                    ncase += int(summ[0].split()[2]); chk.count(int(summ[0].split()[2]))
                if rc2 != 0 or dl or not summ:
                    chk.broken_tie('translator validation: regenerated mi_arena_purge_range and the real function disagree (%s)' % ' '.join(cmd[1:]), ((dl or [err2 or out2])[0])[:500] + ' | ' + args['how_to_run'])
            chk.extra['purge_range_cases_compared'] = ncase
            chk.log('purge-range translator validation: %d cases' % ncase)
            if ncase == 0 and not chk.broken and not chk.violations:
                chk.broken_tie('purge-range translator validation', 'no case was compared')
        chk.log('commit / purge direct drive without refusals: %d steps' % nsteps)
