import MiVerif.Gen.Prelude
import MiVerif.Gen.Arith
import MiVerif.Gen.Tables
import MiVerif.Gen.Entry
