import MiVerif.Model.Purge
/- correspondence driver for C18: replays the operation log of harness/c18.c (mode "model") through PurgeM -/
namespace C18Val
open PurgeM

structure St where
  adelay : Int := 0
  a : ASt := a0
  sdelay : Int := 0
  extend : Int := 0
  s : SSt := s0
  n : Nat := 0
  d : Nat := 0

def b2s (b : Bool) : String := if b then "1" else "0"

partial def loop (h : IO.FS.Stream) (st : St) : IO St := do
  let line ← h.getLine
  if line.isEmpty then return st
  let line := line.trimAscii.toString
  let ws := (line.splitOn " ").filter (· ≠ "")
  match ws with
  | ["AD", d] => loop h { st with adelay := d.toInt!, a := a0 }
  | ["GD", d, e] => loop h { st with sdelay := d.toInt!, extend := e.toInt!, s := s0 }
  | ["A", op, t, "->", aexp, gexp, pend, purged] =>
    let r := if op == "free" then aFree st.adelay t.toInt! st.a else aTryPurge st.adelay t.toInt! st.a
    let ok := toString r.1.aexp == aexp && toString r.1.gexp == gexp && b2s r.1.pend == pend && b2s r.2 == purged
    if !ok && st.d < 20 then IO.println s!"DIFF {line} || model: {r.1.aexp} {r.1.gexp} {b2s r.1.pend} {b2s r.2}"
    -- resynchronise on the implementation's state so that one disagreement is reported once
    let a' : ASt := { aexp := aexp.toInt!, gexp := gexp.toInt!, pend := pend == "1", first := if pend == "1" && !st.a.pend then t.toInt! else r.1.first }
    loop h { st with a := if ok then r.1 else a', n := st.n + 1, d := if ok then st.d else st.d + 1 }
  | ["G", op, t, "->", expire, pend, purged] =>
    let r := if op == "sched" then sSchedule st.sdelay st.extend t.toInt! st.s else sTryPurge t.toInt! st.s
    let ok := toString r.1.expire == expire && b2s r.1.pend == pend && b2s r.2 == purged
    if !ok && st.d < 20 then IO.println s!"DIFF {line} || model: {r.1.expire} {b2s r.1.pend} {b2s r.2}"
    let s' : SSt := { expire := expire.toInt!, pend := pend == "1" }
    loop h { st with s := if ok then r.1 else s', n := st.n + 1, d := if ok then st.d else st.d + 1 }
  | _ => loop h st

def main (stdin : IO.FS.Stream) : IO UInt32 := do
  let st ← loop stdin {}
  IO.println s!"c18val cases {st.n} diffs {st.d}"
  return (if st.d == 0 then 0 else 1)

end C18Val
