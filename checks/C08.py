"""C08 — remotely freed memory is never lost (T3)."""
import vcommon as V
from checks import t3common

TRUSTED = ['Lean 4 kernel', 'atomics are sequentially consistent in the model (C11 weak-memory effects and data races on non-atomic fields are outside the model)',
           'hooks/verif_hooks.h + harness/vsched.h (deterministic scheduler), harness/t3_delayed.c (event log), Driver/DelayedValidate.lean (mapping of logged events to model labels; owner-local steps placed from the observed list heads)',
           'the model covers one page with its owner and any number of remote frees; other pages/heaps are covered by the scheduler stress oracle only']

def run(chk):
    chk.trusted = TRUSTED
    chk.assumptions = ['sequentially consistent atomics', 'x86-64 Linux, hooked build (MI_VERIF_HOOKS) in MI_DEBUG=3 and release configurations']
    chk.extra['rule'] = ('obligations = theorems of Props/C08.lean (all interleavings of the protocol model); evaluations = scheduler runs of the real allocator; a run is distinct by its '
                         'event log / (seed, mode, number of scheduling points); traces_validated_against_impl = logs accepted as model executions by the proved-sound validator')
    chk.lean('MiVerif.Props.C08')
    n = 24 if chk.tier == 'quick' else 400
    with V.Scratch() as d:
        t3common.delayed_traces(chk, d, n)
        t3common.stress(chk, d, 60 if chk.tier == 'quick' else 600, modes=(0, 4), keys=("blocks_left_behind", "abandoned_left_behind", "lost_block", "alloc_failed"))
