import MiVerif.Gen.Loops
/-! `_mi_commit_mask_committed_size` as regenerated from src/segment.c (a `for` loop over the eight fields with a bit-counting `for`
    loop inside): it reports the whole size only for a full mask. -/
namespace CSizeL
open GenL

abbrev M : Nat := 18446744073709551616

/-- number of set bits among the low `n` bits -/
def pc : Nat → Nat → Nat
  | 0, _ => 0
  | n + 1, m => m % 2 + pc n (m / 2)

theorem pc_zero (n : Nat) : pc n 0 = 0 := by
  induction n with
  | zero => rfl
  | succ n ih => simp [pc, ih]

theorem pc_le (n m : Nat) : pc n m ≤ n := by
  induction n generalizing m with
  | zero => simp [pc]
  | succ n ih => have := ih (m / 2); have := Nat.mod_lt m (by decide : 0 < 2); simp only [pc]; omega

/-- all `n` low bits are set only in `2^n - 1` -/
theorem pc_full (n m : Nat) (hm : m < 2^n) (h : pc n m = n) : m = 2^n - 1 := by
  induction n generalizing m with
  | zero => simp at hm; omega
  | succ n ih =>
    simp only [pc] at h
    have h1 := pc_le n (m / 2)
    have h2 := Nat.mod_lt m (by decide : 0 < 2)
    have hdiv : m / 2 < 2^n := by
      rw [Nat.pow_succ] at hm; omega
    have := ih (m / 2) hdiv (by omega)
    have hm2 : m % 2 = 1 := by omega
    have := Nat.div_add_mod m 2
    rw [Nat.pow_succ]
    have hp : 0 < 2^n := Nat.two_pow_pos n
    omega

/-- the bit-counting loop adds the number of set bits -/
theorem inner_exact (c : Nat × Nat → Bool) (body : Nat × Nat → Nat × Nat)
    (hc : ∀ s, c s = decide (s.2 ≠ 0))
    (hbody : ∀ s, body s = ((if (s.2 &&& 1) ≠ 0 then (((s.1 + 1)) % M) else s.1), s.2 / 2^1)) :
    ∀ (n fuel count mask : Nat), mask < 2^n → n ≤ fuel → count + n < M →
      (whileN fuel c body (count, mask)).1 = count + pc n mask := by
  intro n
  induction n with
  | zero =>
    intro fuel count mask hm _ _
    have : mask = 0 := by simp at hm; omega
    subst this
    cases fuel with
    | zero => simp [whileN, pc]
    | succ f => unfold whileN; rw [hc]; simp [pc]
  | succ n ih =>
    intro fuel count mask hm hf hcnt
    by_cases h0 : mask = 0
    · subst h0
      rw [pc_zero]
      cases fuel with
      | zero => simp [whileN]
      | succ f => unfold whileN; rw [hc]; simp
    · cases fuel with
      | zero => omega
      | succ f =>
        unfold whileN
        rw [hc]
        simp only [ne_eq, h0, not_false_eq_true, decide_true, if_true]
        rw [hbody]
        simp only []
        have hdiv : mask / 2^1 < 2^n := by
          rw [Nat.pow_succ] at hm; simp only [Nat.pow_one]; omega
        have hand : mask &&& 1 = mask % 2 := Nat.and_one_is_mod mask
        have h2 := Nat.mod_lt mask (by decide : 0 < 2)
        rw [hand]
        by_cases hb : mask % 2 = 0
        · simp only [hb, ne_eq, not_true_eq_false, if_false]
          rw [ih f count (mask / 2^1) hdiv (by omega) (by omega)]
          simp only [pc, hb, Nat.pow_one]; omega
        · have hb1 : mask % 2 = 1 := by omega
          have hne : ¬ (mask % 2 = 0) := hb
          simp only [ne_eq, hne, not_false_eq_true, if_true]
          have hc1 : (count + 1) % M = count + 1 := Nat.mod_eq_of_lt (by omega)
          rw [hc1, ih f (count + 1) (mask / 2^1) hdiv (by omega) (by omega)]
          simp only [pc, hb1, Nat.pow_one]; omega

def sumFrom (g : Nat → Nat) : Nat → Nat → Nat
  | _, 0 => 0
  | i, k + 1 => g i + sumFrom g (i + 1) k

theorem sumFrom_le (g : Nat → Nat) (hg : ∀ i, g i ≤ 64) : ∀ k i, sumFrom g i k ≤ 64 * k := by
  intro k
  induction k with
  | zero => intro i; simp [sumFrom]
  | succ k ih => intro i; have := ih (i + 1); have := hg i; simp only [sumFrom]; omega

/-- the sum reaches its maximum only when every term does -/
theorem sumFrom_full (g : Nat → Nat) (hg : ∀ i, g i ≤ 64) : ∀ k i, sumFrom g i k = 64 * k → ∀ j, i ≤ j → j < i + k → g j = 64 := by
  intro k
  induction k with
  | zero => intro i _ j h1 h2; omega
  | succ k ih =>
    intro i h j h1 h2
    simp only [sumFrom] at h
    have hle := sumFrom_le g hg k (i + 1)
    have hgi := hg i
    by_cases hj : j = i
    · subst hj; omega
    · exact ih (i + 1) (by omega) j (by omega) (by omega)

/-- the loop over the fields adds up the contributions `g i` of fields `i … 7` -/
theorem outer_exact (g : Nat → Nat) (hg : ∀ i, g i ≤ 64) (c : Nat × Nat → Bool) (body : Nat × Nat → Nat × Nat)
    (hc : ∀ s, c s = decide (s.2 < 8))
    (hbody : ∀ s, s.1 ≤ 512 → s.2 < 8 → body s = (s.1 + g s.2, s.2 + 1)) :
    ∀ (k fuel count i : Nat), i + k = 8 → k ≤ fuel → count ≤ 64 * i →
      (whileN fuel c body (count, i)).1 = count + sumFrom g i k := by
  intro k
  induction k with
  | zero =>
    intro fuel count i hi _ _
    have : i = 8 := by omega
    subst this
    cases fuel with
    | zero => simp [whileN, sumFrom]
    | succ f => unfold whileN; rw [hc]; simp [sumFrom]
  | succ k ih =>
    intro fuel count i hi hf hcount
    cases fuel with
    | zero => omega
    | succ f =>
      have hi8 : i < 8 := by omega
      unfold whileN
      rw [hc]
      simp only [hi8, decide_true, if_true]
      rw [hbody (count, i) (by simp only []; omega) hi8]
      simp only []
      have := hg i
      rw [ih f (count + g i) (i + 1) (by omega) (by omega) (by omega)]
      simp only [sumFrom]; omega

/-- the address of field `i` as the generated code computes it -/
def fieldAddr (cm i : Nat) : Nat := ((((cm + 0) % M) + i * 8) % M)

/-- contribution of one field: 64 for a full field, else the number of set bits -/
def contrib (ld64 : Nat → Nat) (cm i : Nat) : Nat :=
  if ld64 (fieldAddr cm i) = 18446744073709551615 then 64 else pc 64 (ld64 (fieldAddr cm i))

theorem contrib_le (ld64 : Nat → Nat) (cm i : Nat) : contrib ld64 cm i ≤ 64 := by
  unfold contrib; split
  · exact Nat.le_refl _
  · exact pc_le 64 _

theorem two64 : (2:Nat)^64 = M := by decide

theorem contrib_full (ld64 : Nat → Nat) (cm i : Nat) (hw : ld64 (fieldAddr cm i) < M) (h : contrib ld64 cm i = 64) :
    ld64 (fieldAddr cm i) = 18446744073709551615 := by
  unfold contrib at h
  split at h
  · assumption
  · have hw' : ld64 (fieldAddr cm i) < 2^64 := by rw [two64]; exact hw
    have := pc_full 64 _ hw' h
    rw [this]

/-- one round of the loop over the fields, as generated, adds the contribution of its field -/
theorem outer_body (ld64 : Nat → Nat) (cm : Nat) (hw : ∀ i, i < 8 → ld64 (fieldAddr cm i) < M)
    (body : Nat × Nat → Nat × Nat)
    (hb : ∀ s, body s =
      ((if (18446744073709551615 - ld64 (fieldAddr cm s.2)) % M = 0 then (((s.1 + 64)) % M, ld64 (fieldAddr cm s.2))
        else
          ((whileN 18446744073709551616 (fun st_ => decide (st_.2 ≠ 0))
              (fun st_ => ((if (st_.2 &&& 1) ≠ 0 then (((st_.1 + 1)) % M) else st_.1), st_.2 / 2^1)) (s.1, ld64 (fieldAddr cm s.2))).1,
           (whileN 18446744073709551616 (fun st_ => decide (st_.2 ≠ 0))
              (fun st_ => ((if (st_.2 &&& 1) ≠ 0 then (((st_.1 + 1)) % M) else st_.1), st_.2 / 2^1)) (s.1, ld64 (fieldAddr cm s.2))).2)).1,
       (((s.2 + 1)) % M))) :
    ∀ s, s.1 ≤ 512 → s.2 < 8 → body s = (s.1 + contrib ld64 cm s.2, s.2 + 1) := by
  intro s hs1 hs2
  have hwv := hw s.2 hs2
  rw [hb]
  have hi1 : (s.2 + 1) % M = s.2 + 1 := Nat.mod_eq_of_lt (by unfold M; omega)
  rw [hi1]
  congr 1
  unfold contrib
  by_cases hfull : ld64 (fieldAddr cm s.2) = 18446744073709551615
  · have : (18446744073709551615 - ld64 (fieldAddr cm s.2)) % M = 0 := by rw [hfull]; decide
    rw [if_pos this, if_pos hfull]
    exact Nat.mod_eq_of_lt (by unfold M; omega)
  · have : ¬ ((18446744073709551615 - ld64 (fieldAddr cm s.2)) % M = 0) := by
      unfold M at hwv ⊢; omega
    rw [if_neg this, if_neg hfull]
    have hw' : ld64 (fieldAddr cm s.2) < 2^64 := by rw [two64]; exact hwv
    exact inner_exact _ _ (fun t => rfl) (fun t => rfl) 64 18446744073709551616 s.1 _ hw' (by decide) (by unfold M; omega)

/-- **exact value**: `(total / 512) * Σ contributions` -/
theorem committed_size_eq (ld64 : Nat → Nat) (cm total : Nat) (hw : ∀ i, i < 8 → ld64 (fieldAddr cm i) < M) :
    _mi_commit_mask_committed_size ld64 cm total = ((total / 512) * sumFrom (contrib ld64 cm) 0 8) % M := by
  unfold _mi_commit_mask_committed_size
  simp only []
  congr 2
  have h := outer_exact (contrib ld64 cm) (contrib_le ld64 cm)
  have h2 := h _ _ (by intro s; rfl) (outer_body ld64 cm hw _ (by intro s; rfl)) 8 18446744073709551616 0 0 (by omega) (by decide) (by omega)
  rw [Nat.zero_add] at h2
  exact h2

/-- **the whole size is reported only for a full mask** -/
theorem total_only_if_full (ld64 : Nat → Nat) (cm total : Nat) (hw : ∀ i, i < 8 → ld64 (fieldAddr cm i) < M)
    (hdiv : total % 512 = 0) (hpos : 0 < total) (hlt : total < M)
    (h : _mi_commit_mask_committed_size ld64 cm total = total) :
    ∀ i, i < 8 → ld64 (fieldAddr cm i) = 18446744073709551615 := by
  rw [committed_size_eq ld64 cm total hw] at h
  have hS := sumFrom_le (contrib ld64 cm) (contrib_le ld64 cm) 8 0
  have htot : total = total / 512 * 512 := by have := Nat.div_add_mod total 512; omega
  have hu : 0 < total / 512 := by omega
  generalize hSdef : sumFrom (contrib ld64 cm) 0 8 = S at h hS
  generalize hudef : total / 512 = u at h htot hu
  have hle : u * S ≤ u * 512 := Nat.mul_le_mul_left u (by omega)
  have hmod : (u * S) % M = u * S := Nat.mod_eq_of_lt (by omega)
  rw [hmod] at h
  have hS512 : S = 512 := Nat.eq_of_mul_eq_mul_left hu (by omega)
  intro i hi
  apply contrib_full ld64 cm i (hw i hi)
  exact sumFrom_full (contrib ld64 cm) (contrib_le ld64 cm) 8 0 (by rw [hSdef, hS512]) i (by omega) (by omega)

/-- … and a full mask reports the whole size -/
theorem full_reports_total (ld64 : Nat → Nat) (cm total : Nat) (hfull : ∀ i, i < 8 → ld64 (fieldAddr cm i) = 18446744073709551615)
    (hdiv : total % 512 = 0) (hlt : total < M) :
    _mi_commit_mask_committed_size ld64 cm total = total := by
  rw [committed_size_eq ld64 cm total (fun i hi => by rw [hfull i hi]; decide)]
  have hc : ∀ i, i < 8 → contrib ld64 cm i = 64 := fun i hi => by unfold contrib; rw [if_pos (hfull i hi)]
  have hS : sumFrom (contrib ld64 cm) 0 8 = 512 := by
    simp only [sumFrom]
    rw [hc 0 (by decide), hc 1 (by decide), hc 2 (by decide), hc 3 (by decide), hc 4 (by decide), hc 5 (by decide), hc 6 (by decide), hc 7 (by decide)]
  rw [hS]
  have := Nat.div_add_mod total 512
  have e : total / 512 * 512 = total := by omega
  rw [e]; exact Nat.mod_eq_of_lt hlt

end CSizeL
