import MiVerif.Gen.Loops
/-! `mi_arena_purge_range` as regenerated from src/arena.c (two nested `while` loops, `whileN`): every `mi_arena_purge` it issues lies
    inside the bit range it was given and covers only bits that are set in the purge mask. -/
namespace PurgeRangeL
open GenL

/-- a logged call that is acceptable for the range `[s, s + len)` of field `idx` under the purge mask -/
def Good (arena idx s len purge : Nat) (c : String × List Nat) : Prop :=
  ∃ b cnt, c = ("mi_arena_purge", [arena, mi_bitmap_index_create idx b, cnt]) ∧ s ≤ b ∧ 0 < cnt ∧ b + cnt ≤ s + len ∧
    ∀ j, j < cnt → purge &&& ((1 * 2^((b + j) % 18446744073709551616)) % 18446744073709551616) ≠ 0

/-- inner loop: counts the set bits from `bitidx` on, never past `endidx` -/
theorem inner_inv (purge bitidx endidx : Nat) (he : endidx ≤ 64) (hb : bitidx < endidx) (n : Nat) :
    let count := whileN n (fun st_ =>
        let count := st_
        decide (((((bitidx + count)) % 18446744073709551616) < endidx) ∧ ((purge &&& (((1 * 2^(((bitidx + count)) % 18446744073709551616))) % 18446744073709551616)) ≠ 0)))
      (fun st_ =>
        let count := st_
        let count := (((count + 1)) % 18446744073709551616)
        count) 0
    bitidx + count ≤ endidx ∧ ∀ j, j < count → purge &&& ((1 * 2^((bitidx + j) % 18446744073709551616)) % 18446744073709551616) ≠ 0 := by
  intro count
  apply whileN_inv (fun count => bitidx + count ≤ endidx ∧ ∀ j, j < count → purge &&& ((1 * 2^((bitidx + j) % 18446744073709551616)) % 18446744073709551616) ≠ 0)
  · intro c ⟨h1, h2⟩ hc
    simp only [decide_eq_true_eq] at hc
    obtain ⟨hlt, hbit⟩ := hc
    have hm : (bitidx + c) % 18446744073709551616 = bitidx + c := Nat.mod_eq_of_lt (by omega)
    rw [hm] at hlt
    have hc1 : (c + 1) % 18446744073709551616 = c + 1 := Nat.mod_eq_of_lt (by omega)
    simp only [hc1]
    refine ⟨by omega, ?_⟩
    intro j hj
    by_cases hjc : j < c
    · exact h2 j hjc
    · have : j = c := by omega
      subst this; exact hbit
  · exact ⟨by omega, fun j hj => absurd hj (Nat.not_lt_zero j)⟩

theorem calls_good (arena idx startidx bitlen purge : Nat) (h : startidx + bitlen ≤ 64) :
    ∀ c ∈ (mi_arena_purge_range arena idx startidx bitlen purge).2, Good arena idx startidx bitlen purge c := by
  unfold mi_arena_purge_range
  have hend : (startidx + bitlen) % 18446744073709551616 = startidx + bitlen := Nat.mod_eq_of_lt (by omega)
  simp only [hend]
  -- outer invariant on (eff_out, all_purged, bitidx)
  have key := whileN_inv (σ := List (String × List Nat) × Nat × Nat)
    (fun st => startidx ≤ st.2.2 ∧ ∀ c ∈ st.1, Good arena idx startidx bitlen purge c)
  refine (key _ _ ?_ 18446744073709551616 _ ⟨Nat.le_refl _, fun c hc => by cases hc⟩).2
  intro st ⟨hs, hg⟩ hc
  simp only [decide_eq_true_eq] at hc
  have hin := inner_inv purge st.2.2 (startidx + bitlen) h hc 18446744073709551616
  simp only [] at hin
  generalize whileN 18446744073709551616 _ _ 0 = count at hin ⊢
  obtain ⟨hle, hbits⟩ := hin
  have hc1 : (count + 1) % 18446744073709551616 = count + 1 := Nat.mod_eq_of_lt (by omega)
  have hb1 : (st.2.2 + (count + 1)) % 18446744073709551616 = st.2.2 + (count + 1) := Nat.mod_eq_of_lt (by omega)
  simp only [hc1, hb1]
  by_cases hpos : count > 0
  · simp only [if_pos hpos]
    refine ⟨by omega, ?_⟩
    intro c hcm
    rcases List.mem_append.mp hcm with h1 | h1
    · exact hg c h1
    · simp only [List.mem_singleton] at h1
      exact ⟨st.2.2, count, h1, hs, hpos, by omega, hbits⟩
  · simp only [if_neg hpos]
    exact ⟨by omega, hg⟩

theorem and_pow_ne_zero (x k : Nat) (h : x &&& 2^k ≠ 0) : x.testBit k = true := by
  cases hb : x.testBit k
  · exfalso; apply h
    apply Nat.eq_of_testBit_eq
    intro i
    rw [Nat.testBit_and, Nat.testBit_two_pow, Nat.zero_testBit]
    by_cases hi : k = i
    · subst hi; simp [hb]
    · simp [hi]
  · rfl

theorem bit_of_mask (x k : Nat) (hk : k < 64) (h : x &&& ((1 * 2^(k % 18446744073709551616)) % 18446744073709551616) ≠ 0) :
    x.testBit k = true := by
  have hk1 : k % 18446744073709551616 = k := Nat.mod_eq_of_lt (by omega)
  have hp : (1 * 2^k) % 18446744073709551616 = 2^k := by
    rw [Nat.one_mul]
    exact Nat.mod_eq_of_lt (by
      have : (18446744073709551616:Nat) = 2^64 := by decide
      rw [this]; exact Nat.pow_lt_pow_right (by decide) hk)
  rw [hk1, hp] at h
  exact and_pow_ne_zero x k h

theorem index_create_eq (idx b : Nat) (hi : idx * 64 + b < 18446744073709551616) : mi_bitmap_index_create idx b = idx * 64 + b := by
  unfold mi_bitmap_index_create mi_bitmap_index_create_ex
  rw [Nat.mod_eq_of_lt (by omega : idx * 64 < 18446744073709551616), Nat.mod_eq_of_lt hi]

/-- readable form: block indices instead of bitmap indices, `testBit` instead of masks -/
theorem calls_inside (arena idx startidx bitlen purge : Nat) (h : startidx + bitlen ≤ 64) (hi : idx * 64 + 64 < 18446744073709551616) :
    ∀ c ∈ (mi_arena_purge_range arena idx startidx bitlen purge).2,
      ∃ b cnt, c = ("mi_arena_purge", [arena, idx * 64 + b, cnt]) ∧ startidx ≤ b ∧ 0 < cnt ∧ b + cnt ≤ startidx + bitlen ∧
        ∀ j, j < cnt → purge.testBit (b + j) = true := by
  intro c hc
  obtain ⟨b, cnt, h1, h2, h3, h4, h5⟩ := calls_good arena idx startidx bitlen purge h c hc
  refine ⟨b, cnt, ?_, h2, h3, h4, fun j hj => bit_of_mask purge (b + j) (by omega) (h5 j hj)⟩
  rw [h1, index_create_eq idx b (by omega)]

end PurgeRangeL
