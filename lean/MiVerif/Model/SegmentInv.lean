import MiVerif.Model.Segment
namespace SegM

/-- walk the spans from slice 0: list of (start, count, used) -/
def spans (g : Seg) : List (Nat × Nat × Bool) :=
  let rec go (fuel i : Nat) (acc : List (Nat × Nat × Bool)) : List (Nat × Nat × Bool) :=
    match fuel with
    | 0 => acc.reverse
    | fuel+1 =>
      if i ≥ g.entries then acc.reverse else
        let s := get g i
        if s.count = 0 then ((i, 0, false) :: acc).reverse   -- broken tiling marker
        else go fuel (i + s.count) ((i, s.count, s.bs > 0) :: acc)
  go (g.entries + 1) 0 []

def spanOk (g : Seg) (sp : Nat × Nat × Bool) : Bool :=
  let (s, c, u) := sp
  let first := get g s
  let l := s + c - 1
  decide (c > 0) && decide (first.off = 0) && decide (s + c ≤ g.entries) &&
  (if c > 1 then
     let last := get g l
     decide (last.off = c - 1) && decide (last.count = 0) && (if u then decide (last.bs = 1) else decide (last.bs = 0))
   else true) &&
  (if u then (List.range (min (c - 1) 255)).all (fun k =>
      let f := get g (s + k + 1)
      decide (f.off = k + 1) && decide (f.count = 0) && decide (f.bs = 1))
   else
      -- free span: in exactly the queue of its bin, once
      decide ((g.queues[sliceBin8 c]!).count s = 1))

def tilingOk (g : Seg) : Bool :=
  let sp := spans g
  sp.all (spanOk g) &&
  -- spans end exactly at entries
  (match sp.getLast? with | some (s, c, _) => decide (s + c = g.entries) | none => false) &&
  -- queues contain only free span starts, all queues together have as many entries as there are free spans
  decide (((List.range 36).map (fun b => (g.queues[b]!).length)).sum = (sp.filter (fun x => !x.2.2)).length) &&
  -- used counter = used spans minus the info span
  decide (g.used + 1 = (sp.filter (fun x => x.2.2)).length) &&
  -- no two adjacent free spans (coalescing is complete)
  (sp.zip (sp.drop 1)).all (fun (a, b) => a.2.2 || b.2.2)

end SegM

