import MiVerif.Lemmas.C07Range
/-! shape of the result of the regenerated mi_segment_commit_mask for both rounding directions: whenever the size is not 0, the start
    address is `segment + st` for an offset `st` inside the segment and the mask is exactly (st / 64 KiB, size / 64 KiB) -/
namespace C07L
open Gen C13L

/-- the part of the generated function after the two roundings, with the rounded offsets as plain variables -/
def tailOf (seg infoSz segsize pstart st0 en0 : Nat) : Nat × Nat × (Nat × Nat) :=
  let start := if pstart ≥ infoSz ∧ st0 < infoSz then infoSz else st0
  let end_ := if en0 > segsize then segsize else en0
  let fs := if end_ > start then (end_ + 18446744073709551616 - start) % 18446744073709551616 else 0
  if fs = 0 then ((seg + start) % 18446744073709551616, fs, (0, 0))
  else ((seg + start) % 18446744073709551616, fs, (start / 65536, fs / 65536))

theorem tailOf_shape (seg infoSz segsize pstart st0 en0 : Nat) (hseg : seg + 33554432 < 18446744073709551616)
    (hss : segsize ≤ 33554432) :
    (tailOf seg infoSz segsize pstart st0 en0).2.1 = 0 ∨
    ∃ st, st + (tailOf seg infoSz segsize pstart st0 en0).2.1 ≤ segsize ∧ (tailOf seg infoSz segsize pstart st0 en0).1 = seg + st ∧
      (tailOf seg infoSz segsize pstart st0 en0).2.2 = (st / 65536, (tailOf seg infoSz segsize pstart st0 en0).2.1 / 65536) := by
  unfold tailOf
  simp only []
  generalize hs : (if pstart ≥ infoSz ∧ st0 < infoSz then infoSz else st0) = start
  generalize he : (if en0 > segsize then segsize else en0) = end_
  have hend : end_ ≤ segsize := by rw [← he]; split <;> omega
  by_cases hgt : end_ > start
  · have e9 : (end_ + 18446744073709551616 - start) % 18446744073709551616 = end_ - start := by
      have : end_ + 18446744073709551616 - start = (end_ - start) + 18446744073709551616 := by omega
      rw [this, Nat.add_mod_right]; exact Nat.mod_eq_of_lt (by omega)
    have e10 : (seg + start) % 18446744073709551616 = seg + start := Nat.mod_eq_of_lt (by omega)
    have hne : ¬ (end_ - start = 0) := by omega
    simp only [if_pos hgt, e9, e10, if_neg hne]
    right
    exact ⟨start, by omega, rfl, rfl⟩
  · simp only [if_neg hgt, if_true]
    left; trivial

set_option maxRecDepth 16384 in
/-- the generated function is `tailOf` of its two roundings (conservative or liberal) -/
theorem commit_mask_eq_tail (info slices seg D size cons a b c : Nat)
    (hseg : seg + 33554432 < 2^64) (hD : D < slices * 65536) (hs : slices ≤ 512) (hsz : 0 < size) (hsz2 : size ≤ 33554432) :
    mi_segment_commit_mask (0, 0) 0 info (fun _ => slices * 65536) (fun i n => (i, n)) (0, 0) seg cons (seg + D) size a b c
      = tailOf seg (info * 65536 % 18446744073709551616) (slices * 65536) D
          (if cons ≠ 0 then _mi_align_up D 65536 else _mi_align_down D 65536)
          (if cons ≠ 0 then _mi_align_down ((D + size) % 18446744073709551616) 65536 else _mi_align_up ((D + size) % 18446744073709551616) 65536) := by
  unfold mi_segment_commit_mask mi_segment_info_size tailOf
  have hDs : D ≤ 33554432 := by omega
  have hD' : D < 9223372036854775808 := Nat.lt_of_le_of_lt hDs (by decide)
  have b4 : seg + slices * 65536 < 18446744073709551616 := by
    have h64 : (2:Nat)^64 = 18446744073709551616 := by decide
    rw [h64] at hseg; omega
  have e8 : Int.toNat (1 % 4294967296) = 1 := by decide
  have h1 : ¬ ((size = 0 ∨ size > 33554432) ∨ (0 : Nat) = 1) := by omega
  have h2 : ¬ (seg + D ≥ seg + slices * 65536) := by omega
  simp only [pstart_eq seg D hD', Nat.mod_eq_of_lt b4, e8, if_neg h1, if_neg h2]
  by_cases hc : cons ≠ 0
  · simp only [if_pos hc]
  · simp only [if_neg hc]

end C07L
