/- C09 — thread exit: live blocks survive; abandoned memory is adopted once, never leaked.
   Property theorems only.  Model: MiVerif/Model/Abandon.lean — the hand-over of one abandoned segment at the granularity of the atomic
   operations of src/arena-abandon.c / src/segment.c (owner id := 0; fetch-or of the abandoned bit; increment of abandoned_count; fetch-and
   clearing the bit; decrement; owner id := adopter; re-mark of a foreign segment; missed clear), any number of threads.  The executable
   validator `exec` is proved sound w.r.t. the step relation.  Blocks surviving the exit and being freeable by other threads is the
   cross-thread free protocol of C02/C08 (pages of an abandoned segment carry the never-delayed flag: frees push on the page list).
   Tie 1: the log of every atomic operation on one abandoned arena segment, recorded from the hooked allocator under the deterministic
   scheduler (harness/t3_abandon.c), is replayed through `exec` (Driver/C09.lean); a log that is not a model execution is the replay.
   Tie 2: scheduler stress oracle on the real allocator with explicit mi_thread_done in virtual threads, arena and OS-list configurations,
   reclaim-on-free, forced abandonment. -/
import MiVerif.Model.AbandonExec

namespace C09

/-- the hand-over invariant holds in every state reached by any interleaving of the atomic steps of any number of threads:
    [bit set] + #threads holding the segment + [owner ≠ 0] = 1, and abandoned_count = [bit] − #(bit set, not yet counted) + #(bit cleared, not yet discounted) -/
theorem handover_invariant {s s' : St} (h : AInv s) (st : Step s s') : AInv s' := inv_step h st

/-- **adopted at most once**: at most one thread holds an abandoned segment between its successful clear and its re-mark / take-over,
    and a segment with an owner is neither marked abandoned nor held by anyone else -/
theorem adopted_by_at_most_one {s : St} (h : AInv s) :
    holders s.fl ≤ 1 ∧ (s.owner ≠ 0 → s.bit = false ∧ holders s.fl = 0) := single_adopter h

/-- **not leaked by the hand-over**: when no operation is in flight, the segment is either owned by a thread or marked abandoned
    (so a later collect finds it), never neither; and the abandoned counter is exact -/
theorem never_in_limbo {s : St} (h : AInv s) (hq : s.fl = []) :
    ((s.owner ≠ 0 ∧ s.bit = false) ∨ (s.owner = 0 ∧ s.bit = true)) ∧ s.cnt = (b2n s.bit : Int) := by
  obtain ⟨htok, hcnt, _⟩ := h
  rw [hq] at htok hcnt
  simp only [holders, nM2, nC1, List.countP_nil, Nat.add_zero] at htok hcnt
  refine ⟨?_, by simpa using hcnt⟩
  by_cases ho : s.owner = 0
  · right; refine ⟨ho, ?_⟩
    cases hb : s.bit
    · rw [hb, ho] at htok; simp [b2n] at htok
    · rfl
  · left; refine ⟨ho, ?_⟩
    have := b2n_ne ho
    cases hb : s.bit
    · rfl
    · rw [hb, b2n_true] at htok; omega

/-- every log accepted by the executable validator is an execution of the model, so the invariant holds in every state along it -/
theorem validated_runs_satisfy_invariant {s s' : St} {ls : List Lbl} (hi : AInv s) (h : run s ls = some s') : AInv s' := run_inv hi h

-- non-vacuity: exit of thread 7, two threads race for the adoption, thread 9 wins; the double win is not an execution
example : (run { owner := 7, bit := false, cnt := 0, fl := [] } [.markStore 7, .markOr 7, .clearAnd 9, .markInc, .clearDec 9, .clearOwn 9]).map (fun s => (s.owner, s.bit, s.cnt)) = some (9, false, 0) := by decide
example : run { owner := 7, bit := false, cnt := 0, fl := [] } [.markStore 7, .markOr 7, .markInc, .clearAnd 9, .clearAnd 8] = none := by decide

end C09
