#!/usr/bin/env python3
"""writes MANIFEST.json from the table below (single source of truth for what is claimed)"""
import json, os
HERE = os.path.dirname(os.path.dirname(os.path.abspath(__file__)))
PROPS = [json.loads(l)['id'] for l in open(os.path.join(HERE, 'properties.jsonl'))]
TB = ('Lean 4.33 kernel (+ leanchecker in the thorough tier); axioms propext, Classical.choice, Quot.sound only; '
      'the C->Lean translator extract/translate.py (validated against the compiled functions on every run); ')
CLAIMED = {
    # id: (technique, level text, level note, design ref)
    'C16': ('Lean 4 theorems over definitions regenerated from the C source by a translator (validated against the compiled functions)',
            'Every statement of the property (block size >= request, monotone bins, <=25% fragmentation, good_size idempotent, interior pointer -> block start, pointer -> segment, fast division, span bins, align/divide/overflow helpers) is a Lean theorem, for all inputs, about definitions that extract/translate.py regenerates from /repo/src on every run; the translator is validated on ~370k inputs against the compiled functions; an exhaustive C oracle searches the failing input when a theorem stops checking.',
            TB + 'builtin semantics of clz/ctz/umull_overflow; release configuration; mi_good_size = usable size of mi_malloc is checked by the oracle on the real allocator (exhaustive up to 1100, sampled above), not proved.',
            'DESIGN.md §4 C16'),
    'C06': ('Lean 4 theorems over the entry-point layer regenerated from the C source (allocator core as universally quantified oracles, side effects as an effect log)',
            'Overflowing count*size, sizes above MI_MAX_ALLOC_SIZE, alignments 0 / non-power-of-two, posix_memalign EINVAL/ENOMEM with untouched out-parameter, pvalloc overflow, reallocarray errno, failing realloc leaves the old block alone: each is a theorem "result NULL and empty effect log for every allocator underneath" about wrappers regenerated from alloc.c/alloc-aligned.c/alloc-posix.c/page.c on every run; the generated wrappers are compared with ~10k decisions of the real entry points; a real-allocator oracle checks that failing calls change neither the live set nor block contents and that well-formed moderate requests succeed.',
            TB + 'allocator oracles are pure functions (one call per path); the converse "well-formed requests succeed when the OS grants memory" is checked on the real allocator, not proved; mi_new_n abort/throw is out of scope.',
            'DESIGN.md §4 C06'),
    'C05': ('Lean 4 theorems over the realloc family regenerated from the C source (effect log: memzero / memcpy / free in order)',
            'In-place exactly when the new size fits with <=50% waste; on a move min(old usable, new) bytes are copied before the single free of the old block; the old block is freed iff a different non-NULL pointer is returned; NULL input = allocation; zero size = minimal block; failing realloc has an empty effect log; reallocf frees on failure; mi_expand never moves and succeeds iff new <= usable; aligned variants keep (p+offset) aligned — theorems for every allocator oracle over definitions regenerated from alloc.c / alloc-aligned.c; decisions of the real realloc/expand are compared with the generated predicates; contents, usable size, alignment and live-block counts are checked on the real allocator.',
            TB + 'the allocator underneath realloc (malloc/free/usable_size) is an oracle here and is the subject of C01; memcpy semantics assumed.',
            'DESIGN.md §4 C05'),
    'C17': ('Lean 4 theorems over the secure-mode link-encoding / double-free / padding functions regenerated from the C source, plus function-level correspondence on real blocks',
            'decode(encode p) = p for all keys and words (NULL and in-page links survive), the double-free quick filter never hides a block whose first word is a genuine encoded link, a link decoding outside the page is reported EFAULT and cut, genuine links are followed, set_next stores exactly the encoding, a wrong canary or oversized delta fails the padding check, the canary low byte is 0: theorems about definitions regenerated from internal.h/free.c in the -DMI_SECURE=4 configuration; the generated functions are compared with the compiled ones on real blocks (2.8k comparisons per run); a secure-build and a debug-build oracle inject double frees, overflowing bytes and forged links into histories and check the error codes, no double hand-out and no address outside the heap afterwards.',
            TB + 'the list walk of mi_check_is_double_freex and the fill-byte loop of mi_verify_padding are exercised by the harness, not modelled; exclusions as in the property text.',
            'DESIGN.md §4 C17'),
    'C02': ('Lean 4 invariant proof over all interleavings of an atomic-step protocol model + trace validation of the hooked real allocator under a deterministic scheduler',
            'Model.Delayed has one transition per atomic operation of the cross-thread free protocol (incl. failed/spurious weak CAS); proved for every interleaving and any number of in-flight frees: every block is in exactly one place (conservation), the block an allocation returns is on no other list and not live, blocks become live only by a pop of the free list, the delayed-freeing state has exactly one holder. Tie: the real allocator runs with every atomic operation as a scheduling point; its event logs on the page/heap words are replayed through an executable validator proved sound w.r.t. the step relation (an accepted log is a model execution); a scheduler stress oracle (shadow live set with patterns, MI_DEBUG=3 and release) searches failing schedules.',
            TB + 'sequentially consistent atomics (weak memory and data races on non-atomic fields outside the model); the event-to-label mapping of the validator; one page per validated trace, other pages via the stress oracle.',
            'DESIGN.md §4 C02'),
    'C08': ('Lean 4 invariant proof over all interleavings (delayed-free flag invariant, never-lost, quiescent drain) + trace validation + end-of-run oracle under the scheduler',
            'Proved for every interleaving: the documented NO_DELAYED_FREE invariant, a pushed block stays pending until the flag is reset, no step loses or invents a block, from any quiescent reachable state the owner alone can drain so that every non-live block is on its free/local-free list (all freed => page empty), and an in-flight remote free can always complete. Tie as C02 (validated traces); oracles: blocks held by the program == page->used after a forced collect, no live block and no abandoned segment left after everything was freed.',
            TB + 'sequentially consistent atomics; "bounded memory however long it runs" is only covered by the end-of-run oracles (no fairness assumption is modelled) — stated as partial in DESIGN.md.',
            'DESIGN.md §4 C08'),
    'C20': ('Lean 4 theorems over executable models of the option parser and the bounded writers (in-bounds invariant for every format, argument list and buffer size), tied to the real static functions by differential correspondence under AddressSanitizer',
            'Proved: the option-value parser is total and ends either INITIALIZED or DEFAULTED with the default untouched; an accepted value is empty, a whole boolean word or ws* [+-]? digits+ [K|M|G|T]? [iB|B]? (malformed => default kept); decimal values saturate at LONG_MAX/LONG_MIN; sizes give the documented KiB value saturating at MI_MAX_ALLOC_SIZE/KiB also when the multiplication or the digits overflow; only 64 bytes are parsed; _mi_vsnprintf never stores outside its buffer, terminates inside it and returns a length < bufsize for every format, argument list and buffer size; strlcpy/strlcat/mi_heap_buf_print (caller buffer of any size)/mi_out_buf store in bounds. Tie: ~67k results of the real mi_option_init, _mi_snprintf (every internal format from the AST x buffer sizes 0..40,64,100,257 x argument variants), strlcpy/strlcat, mi_heap_buf_print, mi_out_buf are recomputed by the models every run; exact-size ASan buffers, mi_stats_get_json for all sizes, mi_stats_print/mi_options_print and an independent grammar oracle search violations.',
            'Lean 4.33 kernel (+ leanchecker in the thorough tier); axioms propext, Classical.choice, Quot.sound only; hand-written models (not generated): their agreement with the code is sampled by the correspondence run; libc strtol/getenv/va_arg semantics; width fields of more than 18 digits are outside the claim (proved absent from every internal format; the C code overflows pointer arithmetic there); a 64-byte well-formed prefix of a longer environment value is accepted (values are truncated to 64 bytes before parsing).',
            'DESIGN.md §4 C20'),
    'C18': ('Lean 4 decision-logic theorems over purge guards regenerated from the C source (guard extraction) + direct-drive correspondence of the purge functions and an OS-shim oracle under a virtual clock',
            'Proved (one arena / one segment, sequential): the expiry bookkeeping invariant holds in every state reachable by frees and non-forced attempts; blocks scheduled at t are purged by the first non-forced attempt at or after t + delay*mult and not earlier; a pending segment purge whose expiry passed is carried out by the next non-forced mi_segment_try_purge and not earlier; every schedule moves the expiry at most max(delay, extend) beyond max(old expiry, now); delay 0 purges at once; delay -1 never purges or schedules. Every comparison in these theorems is the predicate extracted from arena.c / segment.c on this run. Tie: ~3.7k operations of the real mi_arena_schedule_purge/_mi_arena_free/mi_arenas_try_purge/mi_segment_schedule_purge/mi_segment_try_purge under the virtual clock are replayed by the model (state after every operation); the oracle runs 48 configuration rows (purge_delay -1/0/3/10 x decommit/reset x 3 workloads x seeds) through the OS shim and checks ~1.1M pages of freed memory for purge requests without any forced collect.',
            TB + 'only the guards are regenerated, the sequencing between them is hand-written and compared with the code; several arenas sharing the global expiry are not covered by the theorem (partial); a segment is purged without force only when one of its own pages is freed or allocated after the expiry (that is what the code offers as ordinary activity) and the oracle expects exactly that.',
            'DESIGN.md §4 C18'),
}
NOT_YET = 'check not built yet (work in progress in this session; see DESIGN.md §12 implementation order)'
def main():
    checks = []
    for pid in PROPS:
        if pid in CLAIMED:
            tech, text, note, ref = CLAIMED[pid]
            checks.append({'property_id': pid, 'quick_cmd': 'bin/check %s --tier quick' % pid, 'thorough_cmd': 'bin/check %s --tier thorough' % pid,
                           'evidence_file': 'evidence/%s.json' % pid, 'replay_cmd_template': 'bin/check %s --replay {path}' % pid,
                           'engine': 'miverif', 'level_claimed': {'category': 'proof', 'text': text, 'design_ref': ref}, 'level_note': note, 'technique': tech})
    m = {'version': 1, 'setup_cmd': 'bin/setup',
         'hooks': {'guard': 'MI_VERIF_HOOKS', 'enable': 'checks compile /repo/src/static.c with -DMI_VERIF_HOOKS=\'"/verif/hooks/verif_hooks.h"\' (scheduler points at every atomic operation)',
                   'baseline_off_cmd': 'bin/baseline-off', 'source_commits': [], 'add_only': True},
         'engines': [{'name': 'miverif', 'path': 'bin/check', 'serves_properties': sorted(CLAIMED), 'kind_free_text': 'Lean 4 theorems over models regenerated from / compared with the C source (translator, white-box correspondence harnesses, trace validation)'}],
         'checks': checks,
         'notes': 'Machine-checked proof in Lean 4; see DESIGN.md. Every check regenerates lean/MiVerif/Gen from /repo, rebuilds the property module, audits axioms, and runs the correspondence / oracle harnesses against the current tree.',
         'not_applicable': [{'property_id': p, 'reason': NOT_YET} for p in PROPS if p not in CLAIMED]}
    hooks_file = os.path.join(HERE, 'hooks', 'source_commits.txt')
    if os.path.exists(hooks_file):
        m['hooks']['source_commits'] = [l.strip() for l in open(hooks_file) if l.strip()]
    json.dump(m, open(os.path.join(HERE, 'MANIFEST.json'), 'w'), indent=1)
if __name__ == '__main__':
    main()
