import MiVerif.Gen.ArenaGen
/-! invariants of the arena functions as *generated from src/arena.c* (Gen/ArenaGen.lean, extract/arenatr.py) -/
namespace C07A
open GenR

/-- free blocks that are recorded as committed are accessible -/
def AInvG (σ : ArSt) : Prop := ∀ k, σ.inuse k = false → σ.committed k = true → σ.os k = true

theorem mSet_in (m : Mask) (i n : Int) (k : Nat) (h : inRange i n k = true) : mSet m i n k = true := by simp [mSet, h]
theorem mSet_out (m : Mask) (i n : Int) (k : Nat) (h : inRange i n k = false) : mSet m i n k = m k := by simp [mSet, h]
theorem mClr_in (m : Mask) (i n : Int) (k : Nat) (h : inRange i n k = true) : mClr m i n k = false := by simp [mClr, h]
theorem mClr_out (m : Mask) (i n : Int) (k : Nat) (h : inRange i n k = false) : mClr m i n k = m k := by simp [mClr, h]
theorem mSet_of (m : Mask) (i n : Int) (k : Nat) (h : m k = true) : mSet m i n k = true := by unfold mSet; split <;> simp [h]
theorem mClr_true (m : Mask) (i n : Int) (k : Nat) (h : mClr m i n k = true) : m k = true ∧ inRange i n k = false := by
  unfold mClr at h
  cases hr : inRange i n k
  · rw [hr] at h; simpa using h
  · rw [hr] at h; simp at h

/-- the blocks an OS call on `[blockStart idx, + n blocks)` is about are exactly the blocks `idx .. idx + n` -/
theorem blocksOf_start (σ : ArSt) (idx n : Int) : blocksOf σ (blockStart σ idx) (n * 33554432) = (idx, n) := by
  unfold blocksOf blockStart
  have h1 : ((σ.start : Int) + idx * 33554432 - (σ.start : Int)) = idx * 33554432 := by omega
  rw [h1, Int.mul_ediv_cancel _ (by decide), Int.mul_ediv_cancel _ (by decide)]

theorem blocksOf_start' (σ τ : ArSt) (hst : τ.start = σ.start) (idx n : Int) : blocksOf τ (blockStart σ idx) (n * 33554432) = (idx, n) := by
  unfold blocksOf blockStart
  rw [hst]
  have h1 : ((σ.start : Int) + idx * 33554432 - (σ.start : Int)) = idx * 33554432 := by omega
  rw [h1, Int.mul_ediv_cancel _ (by decide), Int.mul_ediv_cancel _ (by decide)]

theorem range_iff (i n : Int) (hi : 0 ≤ i) (hn : 0 ≤ n) (k : Nat) : inRange i n k = true ↔ ∃ j, j < n.toNat ∧ k = i.toNat + j := by
  unfold inRange
  simp only [decide_eq_true_eq]
  constructor
  · intro h; exact ⟨k - i.toNat, by omega, by omega⟩
  · rintro ⟨j, hj, rfl⟩; omega

theorem bmAllSet_iff (m : Mask) (i n : Int) (hi : 0 ≤ i) (hn : 0 ≤ n) : bmAllSet m i n = true ↔ ∀ k, inRange i n k = true → m k = true := by
  unfold bmAllSet
  rw [List.all_eq_true]
  constructor
  · intro h k hk
    obtain ⟨j, hj, rfl⟩ := (range_iff i n hi hn k).1 hk
    exact h j (List.mem_range.2 hj)
  · intro h j hj
    exact h _ ((range_iff i n hi hn _).2 ⟨j, List.mem_range.1 hj, rfl⟩)

theorem bmAnyZero_false (m : Mask) (i n : Int) (hi : 0 ≤ i) (hn : 0 ≤ n) (h : bmAnyZero m i n = false) : ∀ k, inRange i n k = true → m k = true := by
  intro k hk
  obtain ⟨j, hj, rfl⟩ := (range_iff i n hi hn k).1 hk
  unfold bmAnyZero at h
  have := List.any_eq_false.1 h j (List.mem_range.2 hj)
  simpa using this

-- names for the intermediate states of the generated `mi_arena_try_alloc_at` (in the order `extract_lets` finds them)
set_option hygiene false in
macro "alloc_lets" : tactic => `(tactic|
  extract_lets s1 p m0 m1 s1p jp s2 m2 az s2d m2z jd s3 m3 m3c ac0 anyu alr allz s3c csz stat cz0 r s4 m3f s4u m3z m3n s3u jc s5 m5)

/-- what `mi_arena_try_alloc_at` may change once the claim succeeded: the in-use bits of the claimed range are set, committed bits change
    only inside the range, accessibility only grows -/
theorem gen_alloc_frame (σ : ArSt) (n : Int) (commit : Bool) (idx : Int) (ok cz : Bool) :
    (mi_arena_try_alloc_at σ n commit true idx ok cz).1.inuse = mSet σ.inuse idx n ∧
    (∀ k, inRange idx n k = false → (mi_arena_try_alloc_at σ n commit true idx ok cz).1.committed k = σ.committed k) ∧
    (∀ k, σ.os k = true → (mi_arena_try_alloc_at σ n commit true idx ok cz).1.os k = true) := by
  unfold mi_arena_try_alloc_at
  split
  · rename_i h; simp at h
  · alloc_lets
    have e2 : s2 = s1p ∨ s2 = s1 := by simp only [s2, jp]; split <;> simp
    have e3 : s3 = s2d ∨ s3 = s2 := by simp only [s3, jd]; split <;> simp
    have e4 : s4 = { s3c with os := mSet s3c.os (blocksOf s3c p csz).1 (blocksOf s3c p csz).2 } ∨ s4 = s3c := by
      simp only [s4, r, osCommit]; split <;> simp
    have e5 : s5 = s3 ∨ s5 = s4u ∨ s5 = s4 ∨ s5 = s3c ∨ s5 = s3u := by
      simp only [s5, jc]; (repeat' split) <;> simp
    -- facts about the stages
    have i2 : s2.inuse = mSet σ.inuse idx n ∧ s2.committed = σ.committed ∧ s2.os = σ.os := by rcases e2 with e | e <;> rw [e] <;> exact ⟨rfl, rfl, rfl⟩
    have i3 : s3.inuse = mSet σ.inuse idx n ∧ s3.committed = σ.committed ∧ s3.os = σ.os := by
      rcases e3 with e | e
      · rw [e]; exact ⟨i2.1, i2.2.1, i2.2.2⟩
      · rw [e]; exact i2
    have i3c : s3c.inuse = mSet σ.inuse idx n ∧ s3c.committed = mSet σ.committed idx n ∧ s3c.os = σ.os := ⟨i3.1, by show mSet s3.committed idx n = _; rw [i3.2.1], i3.2.2⟩
    have i4 : s4.inuse = mSet σ.inuse idx n ∧ s4.committed = mSet σ.committed idx n ∧ (∀ k, σ.os k = true → s4.os k = true) := by
      rcases e4 with e | e
      · rw [e]; exact ⟨i3c.1, i3c.2.1, fun k hk => mSet_of _ _ _ _ (by rw [i3c.2.2]; exact hk)⟩
      · rw [e]; exact ⟨i3c.1, i3c.2.1, fun k hk => by rw [i3c.2.2]; exact hk⟩
    refine ⟨?_, ?_, ?_⟩
    · show s5.inuse = _
      rcases e5 with e | e | e | e | e <;> rw [e]
      · exact i3.1
      · exact i4.1
      · exact i4.1
      · exact i3c.1
      · exact i3.1
    · intro k hk
      show s5.committed k = _
      rcases e5 with e | e | e | e | e <;> rw [e]
      · rw [i3.2.1]
      · show mClr s4.committed idx n k = _; rw [mClr_out _ _ _ _ hk, i4.2.1, mSet_out _ _ _ _ hk]
      · rw [i4.2.1, mSet_out _ _ _ _ hk]
      · rw [i3c.2.1, mSet_out _ _ _ _ hk]
      · show mClr s3.committed idx n k = _; rw [mClr_out _ _ _ _ hk, i3.2.1]
    · intro k hk
      show s5.os k = true
      rcases e5 with e | e | e | e | e <;> rw [e]
      · rw [i3.2.2]; exact hk
      · exact i4.2.2 k hk
      · exact i4.2.2 k hk
      · rw [i3c.2.2]; exact hk
      · show s3.os k = true; rw [i3.2.2]; exact hk

/-- **generated mi_arena_try_alloc_at keeps the invariant**, whatever the claim and the OS answer -/
theorem gen_alloc_inv (σ : ArSt) (n : Int) (commit claimed : Bool) (idx : Int) (ok cz : Bool) (h : AInvG σ) :
    AInvG (mi_arena_try_alloc_at σ n commit claimed idx ok cz).1 := by
  cases claimed
  · unfold mi_arena_try_alloc_at; simpa using h
  · obtain ⟨f1, f2, f3⟩ := gen_alloc_frame σ n commit idx ok cz
    intro k hk1 hk2
    rw [f1] at hk1
    cases hr : inRange idx n k
    · rw [mSet_out _ _ _ _ hr] at hk1
      rw [f2 k hr] at hk2
      exact f3 k (h k hk1 hk2)
    · rw [mSet_in _ _ _ _ hr] at hk1; cases hk1

/-- **a range handed out as initially committed is accessible (generated code)**: for an arena that tracks its commit state, if the
    generated mi_arena_try_alloc_at returns a memid with `initially_committed`, every block of the range is accessible — with any answer
    of the OS to the commit request -/
theorem gen_alloc_accessible (σ : ArSt) (n : Int) (commit : Bool) (idx : Int) (ok cz : Bool) (h : AInvG σ)
    (hi : 0 ≤ idx) (hn : 0 ≤ n) (hc : σ.hasCommitted = true) (hfree : ∀ k, inRange idx n k = true → σ.inuse k = false)
    (b : Int) (m : MemId) (hres : (mi_arena_try_alloc_at σ n commit true idx ok cz).2 = some (b, m)) (hm : m.initially_committed = true) :
    ∀ k, inRange idx n k = true → (mi_arena_try_alloc_at σ n commit true idx ok cz).1.os k = true := by
  intro k hk
  unfold mi_arena_try_alloc_at at hres ⊢
  split
  · rename_i hh; simp at hh
  · rename_i hh
    rw [if_neg hh] at hres
    revert hres
    alloc_lets
    intro hres
    have e2 : s2 = s1p ∨ s2 = s1 := by simp only [s2, jp]; split <;> simp
    have e3 : s3 = s2d ∨ s3 = s2 := by simp only [s3, jd]; split <;> simp
    have i2 : s2.inuse = mSet σ.inuse idx n ∧ s2.committed = σ.committed ∧ s2.os = σ.os ∧ s2.hasCommitted = σ.hasCommitted ∧ s2.start = s1.start := by
      rcases e2 with e | e <;> rw [e] <;> exact ⟨rfl, rfl, rfl, rfl, rfl⟩
    have i3 : s3.committed = σ.committed ∧ s3.os = σ.os ∧ s3.hasCommitted = σ.hasCommitted ∧ s3.start = s1.start := by
      rcases e3 with e | e
      · rw [e]; exact ⟨i2.2.1, i2.2.2.1, i2.2.2.2.1, i2.2.2.2.2⟩
      · rw [e]; exact ⟨i2.2.1, i2.2.2.1, i2.2.2.2.1, i2.2.2.2.2⟩
    have hm5 : m5.initially_committed = true := by
      simp only [Option.some.injEq, Prod.mk.injEq] at hres; rw [hres.2]; exact hm
    have hcom : ∀ k, inRange idx n k = true → σ.committed k = true → σ.os k = true := fun k hk hc' => h k (hfree k hk) hc'
    have hp : blocksOf s3c p csz = (idx, n) := blocksOf_start' s1 s3c i3.2.2.2 idx n
    show s5.os k = true
    simp only [s5, m5, jc] at hm5 ⊢
    have hhc : (!s3.hasCommitted) = false := by rw [i3.2.2.1, hc]; rfl
    simp only [hhc, Bool.false_eq_true, if_false] at hm5 ⊢
    split at hm5
    · rename_i hcm
      simp only [hcm, if_true]
      split at hm5
      · rename_i hany
        simp only [hany, if_true]
        split at hm5
        · simp [m3f] at hm5
        · rename_i hr2
          simp only [hr2, if_false]
          have hok : r.2 = true := by simpa using hr2
          have hs4 : s4.os = mSet s3c.os idx n := by
            simp only [s4, r, osCommit] at hok ⊢
            cases ok
            · simp at hok
            · simp only [if_true]; rw [hp]
          have : s4.os k = true := by rw [hs4]; exact mSet_in _ _ _ _ hk
          by_cases hz : cz = true
          · simp only [hz, if_true]; exact this
          · simp only [hz, if_false]; exact this
      · rename_i hany
        simp only [hany, if_false]
        have hany' : bmAnyZero s3.committed idx n = false := by simpa [anyu] using hany
        rw [i3.1] at hany'
        show s3c.os k = true
        show s3.os k = true
        rw [i3.2.1]
        exact hcom k hk (bmAnyZero_false _ _ _ hi hn hany' k hk)
    · rename_i hcm
      simp only [hcm, Bool.false_eq_true, if_false]
      have hall : bmAllSet s3.committed idx n = true := by
        split at hm5 <;> simpa [m3n] using hm5
      rw [i3.1] at hall
      have hos : σ.os k = true := hcom k hk ((bmAllSet_iff _ _ _ hi hn).1 hall k hk)
      split
      · show s3.os k = true; rw [i3.2.1]; exact hos
      · show s3.os k = true; rw [i3.2.1]; exact hos

/-- **a refused arena commit is recorded (generated code)**: the memid says "not committed" and no block of the range stays recorded
    as committed -/
theorem gen_alloc_refused (σ : ArSt) (n : Int) (idx : Int) (cz : Bool) (hc : σ.hasCommitted = true)
    (hany : bmAnyZero σ.committed idx n = true) (b : Int) (m : MemId)
    (hres : (mi_arena_try_alloc_at σ n true true idx false cz).2 = some (b, m)) :
    m.initially_committed = false ∧ ∀ k, inRange idx n k = true → (mi_arena_try_alloc_at σ n true true idx false cz).1.committed k = false := by
  unfold mi_arena_try_alloc_at at hres ⊢
  split
  · rename_i hh; simp at hh
  · rename_i hh
    rw [if_neg hh] at hres
    revert hres
    alloc_lets
    intro hres
    have e2 : s2 = s1p ∨ s2 = s1 := by simp only [s2, jp]; split <;> simp
    have e3 : s3 = s2d ∨ s3 = s2 := by simp only [s3, jd]; split <;> simp
    have i2 : s2.committed = σ.committed ∧ s2.hasCommitted = σ.hasCommitted := by rcases e2 with e | e <;> rw [e] <;> exact ⟨rfl, rfl⟩
    have i3 : s3.committed = σ.committed ∧ s3.hasCommitted = σ.hasCommitted := by
      rcases e3 with e | e
      · rw [e]; exact i2
      · rw [e]; exact i2
    have hhc : (!s3.hasCommitted) = false := by rw [i3.2, hc]; rfl
    have hany' : anyu = true := by show bmAnyZero s3.committed idx n = true; rw [i3.1]; exact hany
    have hr2 : (!r.2) = true := by simp only [r, osCommit]; simp
    have hjc : jc = (s4u, m3f) := by
      simp only [jc, hhc, Bool.false_eq_true, if_false, if_true, hany', hr2]
    have hm5 : m = m5 := by simp only [Option.some.injEq, Prod.mk.injEq] at hres; exact hres.2.symm
    refine ⟨?_, ?_⟩
    · rw [hm5]; show jc.2.initially_committed = false; rw [hjc]
    · intro k hk
      show jc.1.committed k = false
      rw [hjc]
      exact mClr_in _ _ _ _ hk

/-- the invariant relative to a set `R` of blocks that are about to be released: free blocks *and the blocks of `R`* recorded as committed are accessible -/
def AInvR (R : Nat → Bool) (σ : ArSt) : Prop := ∀ k, (σ.inuse k = false ∨ R k = true) → σ.committed k = true → σ.os k = true

theorem AInvR_of (σ : ArSt) (h : AInvG σ) : AInvR (fun _ => false) σ := by
  intro k hk hc; rcases hk with hk | hk
  · exact h k hk hc
  · cases hk
theorem AInvG_of (σ : ArSt) (h : AInvR (fun _ => false) σ) : AInvG σ := fun k hk hc => h k (Or.inl hk) hc

theorem gen_purge_invR (R : Nat → Bool) (σ : ArSt) (idx n : Int) (nr1 g1 nr2 g2 : Bool) (hon1 : g1 = true → nr1 = true) (hon2 : g2 = true → nr2 = true)
    (h : AInvR R σ) : AInvR R (mi_arena_purge σ idx n nr1 g1 nr2 g2) := by
  have hb : blocksOf σ (blockStart σ idx) (n * 33554432) = (idx, n) := blocksOf_start σ idx n
  have key : ∀ (nr g : Bool), (g = true → nr = true) →
      AInvR R (if nr = true then
          { σ with os := if g then mClr σ.os idx n else σ.os, purge := mClr σ.purge idx n, committed := mClr σ.committed idx n }
        else { σ with os := if g then mClr σ.os idx n else σ.os, purge := mClr σ.purge idx n }) := by
    intro nr g hon k hk1 hk2
    cases g
    · cases nr
      · exact h k hk1 hk2
      · exact h k hk1 (mClr_true _ _ _ _ hk2).1
    · rw [hon rfl] at hk1 hk2 ⊢
      simp only [if_true] at hk1 hk2 ⊢
      obtain ⟨hc, hr⟩ := mClr_true _ _ _ _ hk2
      rw [mClr_out _ _ _ _ hr]
      exact h k hk1 hc
  unfold mi_arena_purge osPurge
  simp only [hb]
  split
  · have := key nr1 g1 hon1
    split at this <;> rename_i hh <;> simp only [hh, if_true, if_false] <;> exact this
  · have := key nr2 g2 hon2
    split at this <;> rename_i hh <;> simp only [hh, if_true, if_false] <;> exact this

theorem gen_schedule_invR (R : Nat → Bool) (σ : ArSt) (idx n delay : Int) (pre nr1 g1 nr2 g2 : Bool) (now : Int)
    (hon1 : g1 = true → nr1 = true) (hon2 : g2 = true → nr2 = true) (h : AInvR R σ) :
    AInvR R (mi_arena_schedule_purge σ idx n delay pre nr1 g1 nr2 g2 now) := by
  unfold mi_arena_schedule_purge
  simp only []
  split
  · exact h
  · split
    · exact gen_purge_invR R σ idx n nr1 g1 nr2 g2 hon1 hon2 h
    · split
      · split <;> exact h
      · exact h

/-- **generated mi_arena_purge keeps the invariant** provided access is revoked only when a re-commit is reported as needed (both call
    sites of the OS purge) -/
theorem gen_purge_inv (σ : ArSt) (idx n : Int) (nr1 g1 nr2 g2 : Bool) (hon1 : g1 = true → nr1 = true) (hon2 : g2 = true → nr2 = true)
    (h : AInvG σ) : AInvG (mi_arena_purge σ idx n nr1 g1 nr2 g2) := by
  have hb : blocksOf σ (blockStart σ idx) (n * 33554432) = (idx, n) := blocksOf_start σ idx n
  -- one call site: the state after the OS call and the two bitmap updates
  have key : ∀ (nr g : Bool), (g = true → nr = true) →
      AInvG (if nr = true then
          { σ with os := if g then mClr σ.os idx n else σ.os, purge := mClr σ.purge idx n, committed := mClr σ.committed idx n }
        else { σ with os := if g then mClr σ.os idx n else σ.os, purge := mClr σ.purge idx n }) := by
    intro nr g hon k hk1 hk2
    cases g
    · cases nr
      · exact h k hk1 hk2
      · exact h k hk1 (mClr_true _ _ _ _ hk2).1
    · rw [hon rfl] at hk1 hk2 ⊢
      simp only [if_true] at hk1 hk2 ⊢
      obtain ⟨hc, hr⟩ := mClr_true _ _ _ _ hk2
      rw [mClr_out _ _ _ _ hr]
      exact h k hk1 hc
  unfold mi_arena_purge osPurge
  simp only [hb]
  split
  · have := key nr1 g1 hon1
    split at this <;> rename_i hh <;> simp only [hh, if_true, if_false] <;> exact this
  · have := key nr2 g2 hon2
    split at this <;> rename_i hh <;> simp only [hh, if_true, if_false] <;> exact this

/-- **generated mi_arena_schedule_purge keeps the invariant**: it either purges at once (delay 0 / preloading) or only registers the range
    and the expiry times -/
theorem gen_schedule_inv (σ : ArSt) (idx n delay : Int) (pre nr1 g1 nr2 g2 : Bool) (now : Int)
    (hon1 : g1 = true → nr1 = true) (hon2 : g2 = true → nr2 = true) (h : AInvG σ) :
    AInvG (mi_arena_schedule_purge σ idx n delay pre nr1 g1 nr2 g2 now) := by
  unfold mi_arena_schedule_purge
  simp only []
  split
  · exact h
  · split
    · exact gen_purge_inv σ idx n nr1 g1 nr2 g2 hon1 hon2 h
    · split
      · split <;> exact h
      · exact h

/-- the expiry registered by the generated mi_arena_schedule_purge: a pending expiry is never changed by a later free, a new one is
    `now + delay` -/
theorem gen_schedule_expire (σ : ArSt) (idx n delay : Int) (nr1 g1 nr2 g2 : Bool) (now : Int) (hd : 0 < delay) :
    (mi_arena_schedule_purge σ idx n delay false nr1 g1 nr2 g2 now).expire = (if σ.expire = 0 then now + delay else σ.expire) := by
  unfold mi_arena_schedule_purge
  have h1 : ¬ (delay < 0) := by omega
  have h2 : ¬ (delay = 0) := by omega
  simp only [decide_eq_true_eq, h1, h2, if_false, Bool.false_or, decide_false, Bool.false_eq_true]
  split
  · split <;> rfl
  · rfl

/-- **generated core of _mi_arena_free keeps the invariant**: for an arena that tracks its commit state, releasing the blocks `[idx, idx+n)`
    keeps "free blocks recorded as committed are accessible", provided the caller reports `all_committed` only for a range that is
    accessible (for a segment: `full_mask_means_accessible`); a partly committed range is recorded as uncommitted before it is released -/
theorem gen_free_core_inv (σ : ArSt) (allc : Bool) (idx n delay : Int) (pre nr1 g1 nr2 g2 : Bool) (now : Int)
    (hon1 : g1 = true → nr1 = true) (hon2 : g2 = true → nr2 = true) (hc : σ.hasCommitted = true) (hp : σ.pinned = false)
    (h : AInvG σ) (hall : allc = true → ∀ k, inRange idx n k = true → σ.os k = true) :
    AInvG (_mi_arena_free_core σ allc idx n delay pre nr1 g1 nr2 g2 now) := by
  unfold _mi_arena_free_core
  have hcond : (σ.pinned || !σ.hasCommitted) = false := by rw [hp, hc]; rfl
  simp only [hcond, Bool.false_eq_true, if_false]
  -- the state after the `all_committed` test is sound on the range as well
  have h1 : AInvR (inRange idx n) (if (!allc) = true then { σ with committed := mClr σ.committed idx n } else σ) := by
    intro k hk hcm
    cases allc
    · simp only [Bool.not_false, if_true] at hcm ⊢
      obtain ⟨hc', hr⟩ := mClr_true _ _ _ _ hcm
      rcases hk with hk | hk
      · exact h k hk hc'
      · rw [hr] at hk; cases hk
    · simp only [Bool.not_true, Bool.false_eq_true, if_false] at hcm hk ⊢
      rcases hk with hk | hk
      · exact h k hk hcm
      · exact hall rfl k hk
  have h2 := gen_schedule_invR (inRange idx n) _ idx n delay pre nr1 g1 nr2 g2 now hon1 hon2 h1
  generalize mi_arena_schedule_purge (if (!allc) = true then { σ with committed := mClr σ.committed idx n } else σ) idx n delay pre nr1 g1 nr2 g2 now = τ at h2
  have h3 : AInvG { τ with inuse := mClr τ.inuse idx n } := by
    intro k hk hcm
    cases hr : inRange idx n k
    · have : τ.inuse k = false := by
        have e : mClr τ.inuse idx n k = τ.inuse k := mClr_out _ _ _ _ hr
        rw [← e]; exact hk
      exact h2 k (Or.inl this) hcm
    · exact h2 k (Or.inr hr) hcm
  split <;> exact h3

end C07A
