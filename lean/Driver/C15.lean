import MiVerif.Gen.Arena
/- translator validation for the suitability tests (C15): real results vs GenA on enumerated inputs -/
namespace C15Val
partial def loop (h : IO.FS.Stream) (n d : Nat) : IO (Nat × Nat) := do
  let line ← h.getLine
  if line.isEmpty then return (n, d)
  let ws := (line.trimAscii.toString.splitOn " ").filter (· ≠ "")
  match ws with
  | ["AS", a, ex, r, "->", res] =>
    let m := GenA.mi_arena_id_is_suitable a.toInt! ex.toNat! r.toInt!
    if toString m == res then loop h (n + 1) d else do IO.println s!"DIFF {line.trimAscii} || generated: {m}"; loop h (n + 1) (d + 1)
  | ["MS", k, a, ex, r, "->", res] =>
    let m := GenA._mi_arena_memid_is_suitable k.toNat! a.toInt! ex.toNat! 0 r.toInt!
    if toString m == res then loop h (n + 1) d else do IO.println s!"DIFF {line.trimAscii} || generated: {m}"; loop h (n + 1) (d + 1)
  | _ => loop h n d
def main (stdin : IO.FS.Stream) : IO UInt32 := do
  let (n, d) ← loop stdin 0 0
  IO.println s!"c15val cases {n} diffs {d}"
  return (if d == 0 then 0 else 1)
end C15Val
