"""C11 — freed memory is given back: OS regions unmapped, footprint does not creep
(T1: _mi_os_free_ex regenerated from os.c with its effect log + round-trip theorems; T2a: recorded memory ids and munmap
requests of the real OS functions through the OS shim; oracle: mapped bytes / mappings / purge state over repeated workloads)."""
import os
import vcommon as V

TRUSTED = ['Lean 4 kernel', 'translator extract/translate.py (GenO._mi_os_free_ex with effect log, validated against the munmap requests of the real function on every run)',
           'hand-written allocation side MiVerif/Model/Os.lean (which range stays mapped, which memid is recorded; Linux mmap path), compared with the real functions through the shim',
           'harness/oshim.h (macro renaming of mmap/munmap/mprotect/madvise when compiling src/static.c; mapping set and per-page purge state)',
           'resident-set size is not modelled (kernel behaviour): the claim is about the requests the allocator sends to the OS and the mapping set']

def run(chk):
    chk.trusted = TRUSTED
    chk.assumptions = ['release configuration, Linux primitives (mmap can free inside an allocation)', 'arenas are reserved address space and are never unmapped by design: the no-creep check is about mappings outside arenas plus the number of arena bytes',
                       'mi_collect(true) on the main thread after every round']
    chk.extra['rule'] = ('obligations = theorems of Props/C11.lean over GenO (regenerated); evaluations = real OS allocations/frees compared with the model + blocks/pages examined by the oracle; '
                         'distinct = distinct model lines + oracle configurations')
    chk.lean('MiVerif.Props.C11', groups=['Os'])
    okd, exe, log = V.build_driver()
    if not okd:
        chk.broken_tie('lean driver does not build', log[-1500:])
    thorough = chk.tier == 'thorough'
    with V.Scratch() as d:
        h = os.path.join(d, 'c11')
        ok, log = V.cc_harness(os.path.join(V.HARNESS, 'c11.c'), h, flags=list(V.RELEASE) + ['-DVERIF_STATIC_C="%s/src/static.c"' % V.REPO])
        if not ok:
            chk.broken_tie('C11 harness does not compile against the current tree', log[-1500:]); return
        # ---- T2a
        seeds = range(chk.seed, chk.seed + (6 if thorough else 2))
        outs = V.pmap([([h, 'model', str(sd)], None, 300) for sd in seeds])
        text = ''
        for sd, (rc, out, err) in zip(seeds, outs):
            if rc != 0 or 'DONE' not in out:
                chk.violation('C11/model-harness-crash', 'OS allocation functions crashed when driven directly (seed %d): %s' % (sd, (err or out)[-300:].replace('\n', ' ')), {'cmd': 'harness/c11 model %d' % sd}); continue
            text += out
            for l in out.splitlines():
                if l.startswith('FAIL'):
                    p = l.split(); chk.violation('C11/' + p[1], 'real OS layer: ' + ' '.join(p[2:])[:300], {'cmd': 'harness/c11 model %d' % sd, 'line': l})
        rc2, out2, err2 = V.run([exe, 'c11'], input=text, timeout=600) if okd else (1, '', 'driver not built')
        summary = [l for l in out2.splitlines() if l.startswith('c11val cases')]
        diffs = [l for l in out2.splitlines() if l.startswith('DIFF')]
        if summary:
            n = int(summary[0].split()[2]); chk.count(n); chk.extra['model_vs_impl_cases'] = n
        if rc2 != 0 or diffs or not summary:
            chk.broken_tie('correspondence: recorded memory ids / munmap requests of the real OS functions differ from OsM / GenO._mi_os_free_ex', '\n'.join(diffs[:8]) or (out2[-400:] + err2[-400:]))
        keys = set(l for l in text.splitlines() if l.startswith('M '))
        for l in sorted(keys)[::max(1, len(keys) // 3)][:3]:
            chk.sample('os alloc/free: ' + l)
        # ---- oracle
        rounds = 12 if thorough else 6
        jobs = []
        for sd in (range(chk.seed, chk.seed + (3 if thorough else 1))):
            for w in range(5):
                for am in range(3):
                    for pd in ((10, 0, -1) if thorough else (10,)):
                        jobs.append(([h, 'oracle', str(sd), str(w), str(am), str(rounds), str(pd)], None, 900))
        outs = V.pmap(jobs, workers=8)
        rows = 0
        for (cmd, _, _), (rc, out, err) in zip(jobs, outs):
            rows += 1
            args = {'cmd': 'harness/c11 ' + ' '.join(cmd[1:]), 'workload': cmd[3], 'arena_mode': cmd[4], 'rounds': cmd[5], 'purge_delay': cmd[6], 'seed': cmd[2],
                    'how_to_run': 'gcc -DNDEBUG -DMI_BUILD_RELEASE -I/repo/include -Iharness -DVERIF_STATIC_C=\\"/repo/src/static.c\\" harness/c11.c -lpthread; ./a.out ' + ' '.join(cmd[1:])}
            if rc != 0 or 'DONE' not in out:
                chk.violation('C11/oracle-crash', 'allocator crashed in the give-back workload (%s): %s' % (' '.join(cmd[1:]), (err or out)[-300:].replace('\n', ' ')), args); continue
            seen = set()
            for l in out.splitlines():
                p = l.split()
                if p and p[0] == 'FAIL':
                    if p[1] in seen:
                        continue
                    seen.add(p[1])
                    chk.violation('C11/' + p[1], ' '.join(p[2:])[:300], args)
                elif p and p[0] == 'STAT' and p[1] != 'final_mapped':
                    chk.extra['oracle_' + p[1]] = chk.extra.get('oracle_' + p[1], 0) + int(p[2])
                    if p[1] in ('blocks_checked', 'arena_pages_checked'):
                        chk.count(int(p[2]))
            chk.distinct(('oracle',) + tuple(cmd[2:]))
        chk.extra['oracle_configurations'] = rows
        chk.extra['rounds_per_configuration'] = rounds
        chk.cov['distinct_nontrivial'] = len(keys) + rows
        chk.log('correspondence %s; oracle rows %d' % (summary[0] if summary else 'none', rows))
