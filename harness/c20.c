// C20: option parsing and bounded output of the current tree, driven white-box (static functions are reachable because
// the harness includes src/static.c).  Compiled with -fsanitize=address: every output buffer is an exact-size heap
// block, so any store outside it aborts the run (reported by the check as a violation with the last line as replay).
//   O lines: real mi_option_init on an environment value  -> compared with OptM.parse by the Lean driver
//   P lines: real _mi_snprintf                            -> compared with PfM.vsnprintf
//   S lines: real _mi_strlcpy / _mi_strlcat               -> compared with PfM.strlcpy / strlcat
//   H lines: real mi_heap_buf_print on a caller buffer    -> compared with PfM.heapBufPrint
//   B lines: real mi_out_buf                              -> compared with PfM.outBuf
//   FAIL lines: property oracle independent of the Lean model (grammar recogniser written here; terminator / length checks)
#include VERIF_STATIC_C
#include <stdio.h>
#include <stdlib.h>
#include <limits.h>
static int nfail = 0;
#define FAIL(key, ...) do { if (nfail++ < 40) { printf("FAIL %s ", key); printf(__VA_ARGS__); printf("\n"); } } while (0)
static uint64_t rs = 88172645463325252ULL;
static uint64_t rnd(void) { rs ^= rs << 13; rs ^= rs >> 7; rs ^= rs << 17; return rs; }
static long n_eval = 0;
static void hex(const char* s, size_t n) { if (n == 0) { printf("-"); return; } for (size_t i = 0; i < n; i++) printf("%02x", (unsigned char)s[i]); }

// ---------------------------------------------------------------- options
// independent oracle: the documented grammar.  returns 0 malformed, 1 accepted with *val set
static int isword(const char* u, const char* const* ws) { for (; *ws; ws++) if (strcmp(u, *ws) == 0) return 1; return 0; }
static int doc_parse(const char* raw, int is_size, long* val) {
  char u[66]; size_t n = strlen(raw); if (n > 64) n = 64;
  for (size_t i = 0; i < n; i++) u[i] = (raw[i] >= 'a' && raw[i] <= 'z') ? raw[i] - 32 : raw[i];
  u[n] = 0;
  static const char* const T[] = { "1", "TRUE", "YES", "ON", NULL }; static const char* const F[] = { "0", "FALSE", "NO", "OFF", NULL };
  if (n == 0 || isword(u, T)) { *val = 1; return 1; }
  if (isword(u, F)) { *val = 0; return 1; }
  const char* p = u;
  while (*p == ' ' || (*p >= '\t' && *p <= '\r')) p++;     // strtol tolerates leading white space
  int neg = 0; if (*p == '-') { neg = 1; p++; } else if (*p == '+') p++;
  if (*p < '0' || *p > '9') return 0;
  __int128 v = 0; int sat = 0;
  while (*p >= '0' && *p <= '9') { v = v * 10 + (*p - '0'); if (v > ((__int128)1 << 100)) { sat = 1; v = (__int128)1 << 100; } p++; }
  (void)sat;
  if (!is_size) {
    if (*p != 0) return 0;
    __int128 s = neg ? -v : v; if (s > LONG_MAX) s = LONG_MAX; if (s < LONG_MIN) s = LONG_MIN; *val = (long)s; return 1;
  }
  __int128 kib; __int128 b = neg ? 0 : v;
  if (*p == 'K') { kib = b; p++; } else if (*p == 'M') { kib = b * 1024; p++; } else if (*p == 'G') { kib = b * 1024 * 1024; p++; }
  else if (*p == 'T') { kib = b * 1024 * 1024 * 1024; p++; } else { kib = (b + 1023) / 1024; }
  if (p[0] == 'I' && p[1] == 'B') p += 2; else if (*p == 'B') p++;
  if (*p != 0) return 0;
  if (kib > (__int128)MI_MAX_ALLOC_SIZE) kib = MI_MAX_ALLOC_SIZE / 1024;
  *val = (long)kib; return 1;
}
static void opt_case(int idx, const char* val) {
  mi_option_desc_t* d = &options[idx];
  long dflt = d->value; mi_init_t oinit = d->init;
  char name[128]; snprintf(name, sizeof name, "MIMALLOC_%s", d->name); for (char* p = name; *p; p++) if (*p >= 'a' && *p <= 'z') *p -= 32;
  setenv(name, val, 1);
  d->init = UNINIT; mi_option_init(d);
  int is_size = mi_option_has_size_in_kib(d->option);
  printf("O %d %ld ", is_size, dflt); hex(val, strlen(val)); printf(" -> %d %ld\n", (int)d->init, d->value); n_eval++;
  long dv = 0; int acc = doc_parse(val, is_size, &dv);
  if (!acc && (d->init != DEFAULTED || d->value != dflt)) FAIL("malformed_value_accepted", "option %s value \"%.70s\" -> init=%d value=%ld (default %ld)", d->name, val, (int)d->init, d->value, dflt);
  if (acc && (d->init != INITIALIZED || d->value != dv)) FAIL("wellformed_value_wrong", "option %s value \"%.70s\" -> init=%d value=%ld, documented %ld", d->name, val, (int)d->init, d->value, dv);
  if (mi_option_get(d->option) != d->value) FAIL("option_get", "option %s", d->name);
  unsetenv(name); d->value = dflt; d->init = oinit;
}
static void options_section(int thorough) {
  // which options: one plain number (purge_delay), one boolean-ish (verbose is special: skip warnings), both size options
  int idxs[8]; int ni = 0;
  for (int i = 0; i < _mi_option_last; i++) {
    if (mi_option_has_size_in_kib(options[i].option)) idxs[ni++] = i;
    else if (options[i].option == mi_option_purge_delay || options[i].option == mi_option_eager_commit) idxs[ni++] = i;
  }
  static const char A[] = "019-+KMGTIBEN; xo";
  int na = (int)strlen(A);
  char s[8];
  for (int k = 0; k < ni; k++) {
    opt_case(idxs[k], "");
    for (int a = 0; a < na; a++) { s[0] = A[a]; s[1] = 0; opt_case(idxs[k], s);
      for (int b = 0; b < na; b++) { s[1] = A[b]; s[2] = 0; opt_case(idxs[k], s);
        for (int c = 0; c < na; c++) { s[2] = A[c]; s[3] = 0; opt_case(idxs[k], s); } } }
  }
  static const char* const SPECIAL[] = { "1", "0", "true", "TRUE", "True", "yes", "on", "false", "no", "off", "Off", "oN", "tru", "rue", "ye", "es", "n", "o", "f", "t", "y", "e", ";",
    "1;", ";1", "1;true", "true;yes", "ON;", "0;FALSE", "yes no", " 1", "1 ", " 12", "12 ", "\t7", "+5", "-5", "+-5", "--5", "5-", "0x10", "1e3", "12.5", "1,000",
    "9223372036854775807", "9223372036854775808", "-9223372036854775808", "-9223372036854775809", "99999999999999999999999999", "-99999999999999999999999999",
    "00000000000000000000000000000000000000000000000000000000000000012", "000000000000000000000000000000000000000000000000000000000000000123",
    "1k", "1K", "1kb", "1KB", "1kib", "1KiB", "1Ki", "1iB", "1B", "1b", "1m", "1MiB", "1g", "1GiB", "1t", "1TiB", "4096", "4097", "1023", "1024", "1025",
    "17179869184", "17179869183K", "281474976579584", "281474976579585", "274877906816M", "274877906817M", "268435455G", "268435456G", "262143T", "262144T", "18014398509481984K",
    "17179869184T", "99999999999999999999T", "-1K", "-1", "K", "M", "G", "T", "KB", "KiB", "B", "iB", "kk", "1kk", "1KK", "1KBB", "1KiBB", "1K B", "1 K", "5P", "5E",
    "1GiBx", "x1GiB", "1Gi", "1IB", "1BI", NULL };
  for (int k = 0; k < ni; k++) for (int i = 0; SPECIAL[i]; i++) opt_case(idxs[k], SPECIAL[i]);
  // generated: well-formed per grammar with random digits, then mutated
  int ngen = thorough ? 20000 : 2500;
  char buf[9000];
  for (int g = 0; g < ngen; g++) {
    int k = idxs[rnd() % ni]; int p = 0;
    int kind = (int)(rnd() % 10);
    if (kind == 0) { // long garbage up to 8 KiB
      int len = 60 + (int)(rnd() % (g % 7 == 0 ? 8000 : 80));
      for (int i = 0; i < len; i++) buf[p++] = "0123456789KMGTIBx- "[rnd() % 19];
      if (rnd() % 2) { for (int i = 0; i < 64 && i < p; i++) buf[i] = '0' + (char)(rnd() % 10); }   // 64 digits then garbage: accepted prefix (scope note in DESIGN)
    } else {
      if (rnd() % 8 == 0) buf[p++] = ' ';
      int sg = (int)(rnd() % 6); if (sg == 0) buf[p++] = '-'; else if (sg == 1) buf[p++] = '+';
      int nd = 1 + (int)(rnd() % (rnd() % 4 == 0 ? 24 : 6));
      for (int i = 0; i < nd; i++) buf[p++] = '0' + (char)(rnd() % 10);
      int u = (int)(rnd() % 7); if (u < 4) buf[p++] = "KMGT"[u] + ((rnd() % 2) ? 32 : 0);
      int b = (int)(rnd() % 4); if (b == 0) { buf[p++] = (rnd() % 2) ? 'i' : 'I'; buf[p++] = 'B'; } else if (b == 1) buf[p++] = (rnd() % 2) ? 'b' : 'B';
      if (kind >= 7 && p > 0) { // mutate: insert / replace / delete one char
        int pos = (int)(rnd() % p); int m = (int)(rnd() % 3); char c = "KMGTIB;e 0-+x"[rnd() % 13];
        if (m == 0) { memmove(buf + pos + 1, buf + pos, p - pos); buf[pos] = c; p++; } else if (m == 1) buf[pos] = c; else { memmove(buf + pos, buf + pos + 1, p - pos - 1); p--; }
      }
    }
    buf[p] = 0; opt_case(k, buf);
  }
  // set / get round trip for every option
  for (int i = 0; i < _mi_option_last; i++) {
    long old = mi_option_get((mi_option_t)i);
    static const long V[] = { 0, 1, -1, 42, 1000000, LONG_MAX, LONG_MIN };
    for (int j = 0; j < 7; j++) {
      if (options[i].option == mi_option_guarded_min || options[i].option == mi_option_guarded_max) continue;   // coupled pair (min <= max enforced)
      mi_option_set((mi_option_t)i, V[j]); n_eval++;
      if (mi_option_get((mi_option_t)i) != V[j]) FAIL("option_roundtrip", "option %s set %ld get %ld", options[i].name, V[j], mi_option_get((mi_option_t)i));
    }
    mi_option_set((mi_option_t)i, old);
  }
  if (mi_option_get((mi_option_t)-1) != 0 || mi_option_get(_mi_option_last) != 0) FAIL("option_index", "out-of-range option index");
}

// ---------------------------------------------------------------- printf
typedef struct { char conv; char numtype; } conv_t;
// scan like _mi_vsnprintf does, to know which arguments the format consumes (only for choosing C argument types)
static int scan_format(const char* in, conv_t* cv, int max) {
  int n = 0; char c;
  #define NX() c = *in; if (c == 0) break; in++;
  while (1) {
    NX();
    if (c != '%') continue;
    NX();
    char numtype = 'd';
    if (c == '+' || c == ' ') { NX(); }
    if (c == '-') { NX(); }
    if (c == '0') { NX(); }
    if (c >= '1' && c <= '9') { NX(); while (c >= '0' && c <= '9') { NX(); } if (c == 0) break; }
    if (c == 'z' || c == 't' || c == 'L') { numtype = c; NX(); }
    else if (c == 'l') { numtype = c; NX(); if (c == 'l') { numtype = 'L'; NX(); } }
    if (c == 's' || c == 'p' || c == 'x' || c == 'u' || c == 'i' || c == 'd') { if (n < max) { cv[n].conv = c; cv[n].numtype = numtype; n++; } }
  }
  #undef NX
  return n;
}
static const long long IV[] = { 0, 1, -1, 9, 10, -10, 255, 123456, -123456, 2147483647LL, -2147483648LL, 4294967295LL, 4294967296LL, 281474976710655LL, 9223372036854775807LL, (-9223372036854775807LL - 1) };
#define NIV (sizeof(IV)/sizeof(IV[0]))
static const char LONGS[] = "the quick brown fox jumps over the lazy dog and keeps running for quite a while longer than any buffer here";
static const char* const SV[] = { "", "a", "hello", LONGS, NULL };
#define NSV 5
static void pf_case(const char* fmt, size_t bufsize, int variant) {
  conv_t cv[8]; int n = scan_format(fmt, cv, 8);
  uintptr_t a[8] = { 0 };
  char* buf = (char*)malloc(bufsize ? bufsize : 1);      // exact size: ASan catches any store past it
  if (bufsize) memset(buf, '#', bufsize);
  printf("P "); hex(fmt, strlen(fmt)); printf(" %zu %d", bufsize, n);
  for (int i = 0; i < n; i++) {
    if (cv[i].conv == 's') { const char* s = SV[(variant + i) % NSV]; a[i] = (uintptr_t)s; printf(" s "); if (s == NULL) printf("N"); else hex(s, strlen(s)); }
    else {
      long long v = IV[(variant * 3 + i * 5) % NIV];
      a[i] = (uintptr_t)v;
      int wide = (cv[i].numtype != 'd');
      if (cv[i].conv == 'p') printf(" n %llu", (unsigned long long)v);
      else if (cv[i].conv == 'i' || cv[i].conv == 'd') printf(" n %lld", wide ? v : (long long)(int)v);
      else printf(" n %llu", wide ? (unsigned long long)v : (unsigned long long)(unsigned int)v);
    }
  }
  int r = _mi_snprintf(buf, bufsize, fmt, a[0], a[1], a[2], a[3], a[4], a[5], a[6], a[7]);
  printf(" -> %d ", r); n_eval++;
  if (bufsize == 0) { printf("-\n"); if (r != 0) FAIL("vsnprintf_size0", "returned %d", r); free(buf); return; }
  if (r < 0 || (size_t)r >= bufsize) FAIL("vsnprintf_length", "fmt \"%s\" bufsize %zu returned %d", fmt, bufsize, r);
  else if (buf[r] != 0) FAIL("vsnprintf_terminator", "fmt \"%s\" bufsize %zu: no terminator at %d", fmt, bufsize, r);
  hex(buf, (r >= 0 && (size_t)r < bufsize) ? (size_t)r : 0); printf("\n");
  free(buf);
}
static void printf_section(const char* fmtfile, int thorough) {
  static const char* const EXTRA[] = { "%s", "%5s", "%-5s", "%12s", "[%-3s]", "%d", "%5d", "%-5d", "%05d", "%+d", "% d", "%i", "%+05d", "%-05d", "%12d", "%ld", "%8ld", "%lld", "%zd", "%td",
    "%u", "%x", "%08x", "%3x", "%lu", "%zu", "%zx", "%lx", "%llx", "%tx", "%20zu", "%-20zu|", "%p", "%20p", "%-20p|", "%3p", "%%", "%q", "%", "%5", "abc", "a\tb\nc\x01""d", "%-", "%05", "%l", "%ll", "%5q",
    "x=%s y=%d", "%3s|%-6d|", "%+", "% ", "%0", "%z", "%Lx", "%lli", "%100d", "%-100s|", "%099x", "%1000000d", "%999999999999999999d", "%s%s%s", "%d%d%d%d%d%d%d%d", "%+x", "% u", "%+p", NULL };
  char* fmts[400]; int nf = 0;
  for (int i = 0; EXTRA[i]; i++) fmts[nf++] = strdup(EXTRA[i]);
  FILE* f = fopen(fmtfile, "r");     // internal formats of the current tree, one hex-encoded format per line (written by the check from the AST)
  if (f) { char line[2000]; while (fgets(line, sizeof line, f) && nf < 390) { size_t n = strlen(line); while (n && (line[n-1] == '\n')) line[--n] = 0; char* s = (char*)malloc(n / 2 + 1); for (size_t i = 0; i + 1 < n; i += 2) { unsigned v; sscanf(line + i, "%2x", &v); s[i / 2] = (char)v; } s[n / 2] = 0; fmts[nf++] = s; } fclose(f); }
  for (int i = 0; i < nf; i++) {
    int nvar = thorough ? 16 : 6;
    for (int v = 0; v < nvar; v++) {
      for (size_t bs = 0; bs <= 40; bs++) pf_case(fmts[i], bs, v);
      pf_case(fmts[i], 64, v); pf_case(fmts[i], 100, v); pf_case(fmts[i], 257, v);
    }
  }
}

// ---------------------------------------------------------------- strlcpy / strlcat / heap_buf / out_buf
static void str_section(void) {
  char src[64];
  for (size_t sl = 0; sl <= 24; sl++) {
    for (size_t i = 0; i < sl; i++) src[i] = (char)('a' + (i % 26)); src[sl] = 0;
    for (size_t n = 0; n <= 26; n++) {
      char* d = (char*)malloc(n ? n : 1); if (n) memset(d, '#', n);
      _mi_strlcpy(d, src, n);
      printf("S cpy 0 "); hex(src, sl); printf(" %zu -> ", n); hex(d, n); printf("\n"); n_eval++;
      if (n > 0) { size_t k = (sl < n - 1 ? sl : n - 1); if (d[k] != 0) FAIL("strlcpy_terminator", "srclen %zu n %zu", sl, n); }
      free(d);
      for (size_t dl = 0; dl <= n + 1 && dl <= 12; dl++) {
        if (n == 0 && dl > 0) break;
        d = (char*)malloc(n ? n : 1); if (n) memset(d, '#', n);
        for (size_t i = 0; i < dl && i < n; i++) d[i] = 'd';
        if (dl < n) d[dl] = 0;
        _mi_strlcat(d, src, n);
        printf("S cat %zu ", dl); hex(src, sl); printf(" %zu -> ", n); hex(d, n); printf("\n"); n_eval++;
        if (n > 0 && strnlen(d, n) == n) FAIL("strlcat_terminator", "dlen %zu srclen %zu n %zu", dl, sl, n);
        free(d);
      }
    }
  }
  // mi_heap_buf_print on a caller buffer of every size, repeated prints
  static const char* const MSG[] = { "", "x", "{\n", "  \"elapsed_msecs\": 12345,\n", LONGS };
  for (size_t size = 0; size <= 48; size++) for (int m1 = 0; m1 < 5; m1++) for (int m2 = 0; m2 < 5; m2 += 2) {
    char* b = (char*)malloc(size ? size : 1); if (size) memset(b, 0, size);
    mi_heap_buf_t hb = { b, size, 0, false };
    if (size == 0) { hb.buf = NULL; }
    mi_heap_buf_print(&hb, MSG[m1]);
    printf("H %zu 0 ", size); hex(MSG[m1], strlen(MSG[m1])); printf(" -> %zu ", hb.used); hex(b, size); printf("\n"); n_eval++;
    size_t u1 = hb.used;
    mi_heap_buf_print(&hb, MSG[m2]);
    printf("H2 %zu %zu ", size, u1); hex(MSG[m2], strlen(MSG[m2])); printf(" -> %zu\n", hb.used); n_eval++;
    if (size > 0 && hb.used >= size) FAIL("heap_buf_used", "size %zu used %zu", size, hb.used);
    if (size > 1 && b[hb.used] != 0) FAIL("heap_buf_terminator", "size %zu used %zu", size, hb.used);
    free(b);
  }
  // mi_stats_get_json into caller buffers of every size
  for (size_t size = 0; size <= 4200; size += (size < 300 ? 1 : 37)) {
    char* b = (char*)malloc(size ? size : 1);
    char* r = mi_stats_get_json(size, size ? b : NULL); n_eval++;
    if (size > 0) { if (r != b) FAIL("stats_json_ptr", "size %zu", size); else if (memchr(b, 0, size) == NULL) FAIL("stats_json_terminator", "size %zu", size); }
    else if (r != NULL) { if (strlen(r) < 100) FAIL("stats_json_alloc", "short output"); mi_free(r); }
    free(b);
  }
  // mi_out_buf (the 16 KiB delayed output buffer): every fill level class x message lengths
  static char big[40000]; memset(big, 'm', sizeof big - 1);
  static const size_t OL[] = { 0, 1, 100, 16000, 16382, 16383, 16384, 16385, 20000, 100000 };
  static const size_t ML[] = { 0, 1, 2, 100, 383, 384, 385, 16383, 16384, 16385, 30000 };
  for (int i = 0; i < 10; i++) for (int j = 0; j < 11; j++) {
    mi_atomic_store_relaxed(&out_len, OL[i]);
    big[ML[j]] = 0; mi_out_buf(big, NULL); big[ML[j]] = 'm';
    printf("B %zu %zu -> %zu\n", OL[i], ML[j], mi_atomic_load_relaxed(&out_len)); n_eval++;
  }
  mi_atomic_store_relaxed(&out_len, 0);
}
static void out_nothing(const char* msg, void* arg) { (void)arg; if (msg) { size_t n = strlen(msg); if (n > 100000) FAIL("output_len", "%zu", n); } }

int main(int argc, char** argv) {
  uint64_t seed = argc > 1 ? strtoull(argv[1], 0, 10) : 1; int thorough = argc > 2 ? atoi(argv[2]) : 0;
  const char* fmtfile = argc > 3 ? argv[3] : "/nonexistent";
  rs ^= seed * 0x9E3779B97F4A7C15ULL; if (!rs) rs = 1; for (int i = 0; i < 8; i++) rnd();
  mi_register_output(&out_nothing, NULL);
  mi_register_error(NULL, NULL);
  void* p = mi_malloc(100); mi_free(p);
  options_section(thorough);
  printf_section(fmtfile, thorough);
  str_section();
  // the allocator's own diagnostics under ASan
  for (int i = 0; i < 200; i++) { void* q = mi_malloc(1 + (rnd() % 100000)); mi_free(q); }
  mi_stats_print_out(&out_nothing, NULL); mi_options_print(); mi_stats_print(NULL);
  _mi_warning_message("warn %s %d %zu %p\n", LONGS, -5, (size_t)77, (void*)&seed);
  _mi_verbose_message("%s%s%s%s%s\n", LONGS, LONGS, LONGS, LONGS, LONGS);
  _mi_error_message(EINVAL, "%s%s%s%s%s%s\n", LONGS, LONGS, LONGS, LONGS, LONGS, LONGS);
  n_eval += 6;
  printf("STAT evaluations %ld\n", n_eval);
  printf("DONE\n");
  fflush(stdout);
  return 0;
}
