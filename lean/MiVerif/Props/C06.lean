/- C06 — malformed or oversized requests fail cleanly.
   Statements about the public entry-point layer as regenerated from alloc.c / alloc-aligned.c /
   alloc-posix.c / page.c (MiVerif/Gen/Entry.lean): the allocator core underneath is an arbitrary
   oracle (every theorem is universally quantified over it), calls with side effects are an effect log.
   "returns NULL and has no effect" is literally "result 0, empty log, for every oracle". -/
import MiVerif.Gen.Entry
import MiVerif.Gen.Tables
import MiVerif.Lemmas.C06

namespace C06
open GenE

variable (gsp : Nat → Nat → Nat) (pmz : Nat → Nat → Nat → Nat → Nat) (gen : Nat → Nat → Nat → Nat → Nat)
  (us : Nat → Nat → Nat) (rdf : Nat → Nat) (pmzd pm : Nat → Nat → Nat → Nat) (bs : Nat → Nat) (ps : Nat)
  (ng : Nat → Nat → Nat → Nat) (pp : Nat → Nat) (dh : Nat)

/-- calloc: an overflowing count*size returns NULL, whatever the allocator underneath would do -/
theorem calloc_overflow (heap count size : Nat) (hc : count < 2^64) (hs : size < 2^64) (h : 2^64 ≤ count * size) :
    mi_heap_calloc gsp pmz gen heap count size = 0 := by
  unfold mi_heap_calloc
  simp [C06L.count_size_overflow_of_ge count size 1 hc hs h]

/-- calloc: otherwise it is exactly a zeroing allocation of the product -/
theorem calloc_exact (heap count size : Nat) (hc : count < 2^64) (hs : size < 2^64) (h : count * size < 2^64) :
    mi_heap_calloc gsp pmz gen heap count size = mi_heap_zalloc gsp pmz gen heap (count * size) := by
  have _ := hc; have _ := hs
  unfold mi_heap_calloc
  simp [C06L.count_size_overflow_of_lt count size 1 h]

theorem mallocn_overflow (heap count size : Nat) (hc : count < 2^64) (hs : size < 2^64) (h : 2^64 ≤ count * size) :
    mi_heap_mallocn gsp pmz gen heap count size = 0 := by
  unfold mi_heap_mallocn
  simp [C06L.count_size_overflow_of_ge count size 1 hc hs h]

/-- reallocn: overflow returns NULL with an empty effect log (old block neither freed nor copied) -/
theorem reallocn_overflow (heap p count size : Nat) (hc : count < 2^64) (hs : size < 2^64) (h : 2^64 ≤ count * size) :
    mi_heap_reallocn us gsp pmz gen heap p count size = (0, []) := by
  unfold mi_heap_reallocn
  simp [C06L.count_size_overflow_of_ge count size 1 hc hs h]

theorem recalloc_overflow (heap p count size : Nat) (hc : count < 2^64) (hs : size < 2^64) (h : 2^64 ≤ count * size) :
    mi_heap_recalloc us gsp pmz gen heap p count size = (0, []) := by
  unfold mi_heap_recalloc
  simp [C06L.count_size_overflow_of_ge count size 1 hc hs h]

theorem calloc_aligned_overflow (heap count size alignment offset : Nat) (hc : count < 2^64) (hs : size < 2^64) (h : 2^64 ≤ count * size) :
    mi_heap_calloc_aligned_at gsp rdf pmzd pm bs ps ng pmz gen pp us heap count size alignment offset = (0, []) := by
  unfold mi_heap_calloc_aligned_at
  rw [C06L.count_size_overflow_of_ge count size 1 hc hs h]
  rfl

theorem recalloc_aligned_overflow (heap p count size alignment offset : Nat) (hc : count < 2^64) (hs : size < 2^64) (h : 2^64 ≤ count * size) :
    mi_heap_recalloc_aligned_at us gsp pmz gen rdf pmzd pm bs ps ng pp heap p count size alignment offset = (0, []) := by
  unfold mi_heap_recalloc_aligned_at
  rw [C06L.count_size_overflow_of_ge count size 1 hc hs h]
  rfl

/-- reallocarray: overflow returns NULL, sets errno to ENOMEM (12) and does nothing else -/
theorem reallocarray_overflow (p count size : Nat) (hc : count < 2^64) (hs : size < 2^64) (h : 2^64 ≤ count * size) :
    mi_reallocarray dh us gsp pmz gen p count size = (0, [("store:__errno_location", [12])]) := by
  unfold mi_reallocarray mi_reallocn
  simp [reallocn_overflow gsp pmz gen us dh p count size hc hs h]

/-- aligned allocation: alignment 0 or not a power of two returns NULL before touching the heap -/
theorem aligned_bad_alignment (heap size alignment offset zero : Nat) (ha : alignment < 2^64)
    (h : alignment = 0 ∨ alignment &&& (alignment - 1) ≠ 0) :
    mi_heap_malloc_zero_aligned_at gsp rdf pmzd pm bs ps ng pmz gen pp us heap size alignment offset zero = (0, []) := by
  unfold mi_heap_malloc_zero_aligned_at
  exact if_pos (C06L.bad_alignment alignment ha h)

/-- aligned allocation: a size above MI_MAX_ALLOC_SIZE returns NULL before touching the heap -/
theorem aligned_oversize (heap size alignment offset zero : Nat) (hs : size < 2^64) (h : Gen.MI_MAX_ALLOC_SIZE < size) :
    mi_heap_malloc_zero_aligned_at gsp rdf pmzd pm bs ps ng pmz gen pp us heap size alignment offset zero = (0, []) := by
  have h' : size > 281474976579584 := h
  have h1 : ¬ ((size ≤ 1024) ∧ (alignment ≤ size)) := by omega
  -- the generic path refuses first (rewriting with the exact test keeps a changed test from
  -- sending `simp` into the whole function: the proof then fails at once instead of diverging)
  have hg : mi_heap_malloc_zero_aligned_at_generic bs ps ng gsp pmz gen pp us heap size alignment offset zero = (0, []) := by
    unfold mi_heap_malloc_zero_aligned_at_generic
    rw [if_pos h']
  unfold mi_heap_malloc_zero_aligned_at
  rw [hg]
  simp only [if_neg h1]
  split <;> rfl

/-- the generic allocation path refuses sizes above MI_MAX_ALLOC_SIZE (also after `size + padding` wrapped) -/
theorem find_page_oversize (lh : Nat → Nat → Nat → Nat) (ff : Nat → Nat → Nat) (heap size ha : Nat) (hs : size < 2^64)
    (h : Gen.MI_MAX_ALLOC_SIZE < size) : mi_find_page lh ff heap size ha = 0 := by
  have h' : size > 281474976579584 := h
  rw [C06L.two64] at hs
  have e : (size + 18446744073709551616 - 0) % 18446744073709551616 = size := by omega
  have h1 : (size > 65536) ∨ (ha > 0) := Or.inl (by omega)
  unfold mi_find_page
  simp only [e, if_pos h1, if_pos h']

/-- posix_memalign: invalid arguments give EINVAL (22), the out-parameter keeps its old value, no effect -/
theorem posix_memalign_einval (p alignment size p_in : Nat) (ha : alignment < 2^64)
    (h : p = 0 ∨ alignment % 8 ≠ 0 ∨ alignment = 0 ∨ alignment &&& (alignment - 1) ≠ 0) :
    mi_posix_memalign dh gsp rdf pmzd pm bs ps ng pmz gen pp us p alignment size p_in = (22, p_in, []) := by
  unfold mi_posix_memalign
  by_cases hp : p = 0
  · simp only [if_pos hp]
  · by_cases h8 : alignment % 8 ≠ 0
    · simp only [if_neg hp, if_pos h8]
    · have hb : alignment = 0 ∨ alignment &&& (alignment - 1) ≠ 0 := by
        rcases h with h | h | h | h
        · exact absurd h hp
        · exact absurd h h8
        · exact Or.inl h
        · exact Or.inr h
      simp only [if_neg hp, if_neg h8, if_pos (C06L.bad_alignment alignment ha hb)]

/-- posix_memalign: whenever it reports an error the out-parameter is unmodified; the codes are 0, EINVAL, ENOMEM -/
theorem posix_memalign_error_keeps_out (p alignment size p_in : Nat) :
    let r := mi_posix_memalign dh gsp rdf pmzd pm bs ps ng pmz gen pp us p alignment size p_in
    (r.1 = 0 ∨ r.1 = 12 ∨ r.1 = 22) ∧ (r.1 ≠ 0 → r.2.1 = p_in) := by
  unfold mi_posix_memalign
  by_cases hp : p = 0
  · simp [hp]
  · by_cases h8 : alignment % 8 ≠ 0
    · simp [hp, h8]
    · by_cases hb : (alignment = 0) ∨ (¬ ((_mi_is_power_of_two alignment) ≠ 0))
      · simp only [if_neg hp, if_neg h8, if_pos hb]; simp
      · simp only [if_neg hp, if_neg h8, if_neg hb]
        split <;> simp

/-- pvalloc: a size that overflows when rounded up to the page size returns NULL with no effect -/
theorem pvalloc_overflow (size : Nat) (hps : 0 < ps) (hps2 : ps < 2^64) (h : 2^64 - 1 - ps ≤ size) :
    mi_pvalloc ps dh gsp rdf pmzd pm bs ng pmz gen pp us size = (0, []) := by
  rw [C06L.two64] at hps2 h
  have hc : size ≥ (18446744073709551615 + 18446744073709551616 - ps) % 18446744073709551616 := by omega
  unfold mi_pvalloc
  simp only [if_pos hc]

/-- a failing realloc (NULL result) has an empty effect log: the old block is neither freed, copied from, nor zeroed -/
theorem realloc_fail_keeps_old (heap p newsize zero : Nat)
    (h : (_mi_heap_realloc_zero us gsp pmz gen heap p newsize zero).1 = 0) :
    (_mi_heap_realloc_zero us gsp pmz gen heap p newsize zero).2 = [] := by
  by_cases hin : newsize ≤ us p 0 ∧ us p 0 / 2 ≤ newsize ∧ 0 < newsize
  · rw [C06L.realloc_zero_inplace us gsp pmz gen heap p newsize zero hin]
  · by_cases hnew : mi_heap_malloc gsp pmz gen heap newsize = 0
    · rw [C06L.realloc_zero_fail us gsp pmz gen heap p newsize zero hin hnew]
    · rw [C06L.realloc_zero_moved us gsp pmz gen heap p newsize zero hin hnew] at h
      exact absurd h hnew

/-- reallocf: on failure the old block is freed (exactly that) -/
theorem reallocf_frees_on_failure (heap p newsize : Nat) (hp : p ≠ 0)
    (h : (mi_heap_realloc us gsp pmz gen heap p newsize).1 = 0) :
    mi_heap_reallocf us gsp pmz gen heap p newsize = (0, [("mi_free", [p])]) := by
  have e : mi_heap_realloc us gsp pmz gen heap p newsize = _mi_heap_realloc_zero us gsp pmz gen heap p newsize 0 := by
    unfold mi_heap_realloc; simp
  rw [e] at h
  have h2 := realloc_fail_keeps_old gsp pmz gen us heap p newsize 0 h
  unfold mi_heap_reallocf
  rw [e]
  generalize _mi_heap_realloc_zero us gsp pmz gen heap p newsize 0 = r at h h2
  obtain ⟨r1, r2⟩ := r
  simp only at h h2
  subst h h2
  simp [hp]

/-- non-vacuity: concrete arguments meeting the overflow hypotheses -/
example : (2^63 : Nat) < 2^64 ∧ (2 : Nat) < 2^64 ∧ 2^64 ≤ 2^63 * 2 := by decide
example : Gen.MI_MAX_ALLOC_SIZE < 2^63 ∧ (2^63 : Nat) < 2^64 := by decide
example : (3 : Nat) &&& (3 - 1) ≠ 0 := by decide

end C06
