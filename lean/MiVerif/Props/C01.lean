/- C01 — live blocks are disjoint, fully accessible and keep their contents (sequential bookkeeping).
   Property theorems only.  Models: MiVerif/Model/Page.lean (the three free lists of a page) and MiVerif/Model/Segment.lean
   (slice map and span queues of a segment); both are compared with the real functions of the current tree by direct drive
   (harness/c01.c: page micro-steps and span operations, state after every operation) and their invariants are evaluated on
   snapshots of real pages during long API histories (T2b).  The composition "every API call is a sequence of these micro-steps" is
   the tested part; the implementation-side shadow oracle (harness/seq.c) checks overlap and contents on the real allocator. -/
import MiVerif.Lemmas.PageMore
import MiVerif.Lemmas.SegReach
import MiVerif.Lemmas.ExtendLoop
import MiVerif.Lemmas.PageStart
import MiVerif.Lemmas.CalcSlices

namespace C01
open PageM

/-- every state of a page reachable by any sequence of micro-operations (pop, local free, remote free, take-over of the remote
    list, collect, forced collect, extension within `reserved`) satisfies the list invariant: every block index below `capacity`
    is in exactly one of {free, local_free, thread_free, live} -/
theorem page_invariant_reachable (reserved : Nat) (ops : List Op) : Inv (ops.foldl step (init reserved)) :=
  reachable_inv reserved ops

/-- the block an allocation pops was not live before (no double hand-out), and it is on no list afterwards -/
theorem malloc_fresh (p : Page) (h : Inv p) (b : Blk) (p' : Page) (hp : pop p = some (b, p')) :
    b ∉ p.live ∧ b ∈ p'.live ∧ b ∉ p'.free ∧ b ∉ p'.lf ∧ b ∉ p'.tf := by
  have h1 := pop_fresh p h b p' hp
  refine ⟨h1.1, ?_, ?_⟩
  · unfold pop at hp
    cases hf : p.free with
    | nil => simp [hf] at hp
    | cons b0 r => simp only [hf, Option.some.injEq, Prod.mk.injEq] at hp; obtain ⟨rfl, rfl⟩ := hp; simp
  · have hnd := h1.2.nodup
    have hmem : b ∈ p'.live := by
      unfold pop at hp
      cases hf : p.free with
      | nil => simp [hf] at hp
      | cons b0 r => simp only [hf, Option.some.injEq, Prod.mk.injEq] at hp; obtain ⟨rfl, rfl⟩ := hp; simp
    rw [nodup_iff_count] at hnd
    have hc := hnd b
    have hl : 1 ≤ p'.live.count b := List.count_pos_iff.mpr hmem
    simp only [List.count_append] at hc
    refine ⟨?_, ?_, ?_⟩ <;> (intro hx; have := List.count_pos_iff.mpr hx; omega)

/-- a block is never on a free list while it is live -/
theorem live_not_free (p : Page) (h : Inv p) (b : Blk) (hb : b ∈ p.live) : b ∉ p.free ∧ b ∉ p.lf ∧ b ∉ p.tf := by
  have hnd := h.nodup
  rw [nodup_iff_count] at hnd
  have hc := hnd b
  have hl : 1 ≤ p.live.count b := List.count_pos_iff.mpr hb
  simp only [List.count_append] at hc
  refine ⟨?_, ?_, ?_⟩ <;> (intro hx; have := List.count_pos_iff.mpr hx; omega)

/-- two different live blocks of one page occupy disjoint byte ranges inside the page's block area -/
theorem live_blocks_disjoint (p : Page) (h : Inv p) (start bsize area i j : Nat) (hi : i ∈ p.live) (hj : j ∈ p.live) (hij : i ≠ j)
    (harea : p.reserved * bsize ≤ area) :
    (blockAddr start bsize i + bsize ≤ blockAddr start bsize j ∨ blockAddr start bsize j + bsize ≤ blockAddr start bsize i) ∧
    blockAddr start bsize i + bsize ≤ start + area ∧ start ≤ blockAddr start bsize i := by
  have hbi : i < p.capacity := h.bound i (by simp [hi])
  refine ⟨?_, block_in_area start bsize p.capacity p.reserved i area hbi h.cap harea, by unfold blockAddr; omega⟩
  rcases Nat.lt_or_gt_of_ne hij with hlt | hgt
  · exact Or.inl (blocks_disjoint start bsize i j hlt)
  · exact Or.inr (blocks_disjoint start bsize j i hgt)

/-- the used counter is exact: `used - |thread_free|` is the number of live blocks (types.h l.302) -/
theorem used_exact (p : Page) (h : Inv p) : p.used - p.tf.length = p.live.length := by have := h.used; omega

open SegM in
/-- the spans of a segment (pages and free spans) tile the slice array: two different spans never share a slice -/
theorem spans_disjoint (g : Seg) (sp : List Span) (hr : Repr g sp) :
    ∀ x ∈ sp, ∀ y ∈ sp, x = y ∨ x.1 + x.2.1 ≤ y.1 ∨ y.1 + y.2.1 ≤ x.1 := hr.chain.disjoint

open SegM in
/-- page areas of two different spans are disjoint byte ranges inside the segment (slice `k` is `S + k * 64 KiB`) -/
theorem span_areas_disjoint (S sl : Nat) (x y : Span) (h : x.1 + x.2.1 ≤ y.1) : S + (x.1 + x.2.1) * sl ≤ S + y.1 * sl := by
  have := Nat.mul_le_mul_right sl h; omega

/-- **composition, same segment**: live blocks of two different pages of one segment are disjoint: the pages lie in different spans
    (`spans_disjoint`), each page's block area lies inside its span, and each live block lies inside its page's block area -/
theorem live_blocks_of_two_pages_disjoint (p q : Page) (hp : Inv p) (hq : Inv q) (S sl : Nat) (x y : SegM.Span) (hxy : x.1 + x.2.1 ≤ y.1)
    (startp bsp startq bsq i j : Nat) (hi : i ∈ p.live) (hj : j ∈ q.live)
    (hpa : startp + p.reserved * bsp ≤ S + (x.1 + x.2.1) * sl) (hqa : S + y.1 * sl ≤ startq) :
    blockAddr startp bsp i + bsp ≤ blockAddr startq bsq j := by
  have _ := hj; have _ := hq
  have hbi : i < p.capacity := hp.bound i (by simp [hi])
  have h2 := block_in_area startp bsp p.capacity p.reserved i (p.reserved * bsp) hbi hp.cap (Nat.le_refl _)
  have h3 := span_areas_disjoint S sl x y hxy
  have h4 : startq ≤ blockAddr startq bsq j := by unfold blockAddr; omega
  omega

/-- **composition, different segments**: segments are `segSize`-aligned regions of `segSize` bytes, so blocks inside two different
    segments are disjoint whatever the pages are -/
theorem live_blocks_of_two_segments_disjoint (segSize s1 s2 a1 n1 a2 : Nat) (h12 : s1 < s2)
    (h1 : a1 + n1 ≤ s1 * segSize + segSize) (h2 : s2 * segSize ≤ a2) : a1 + n1 ≤ a2 := by
  have h3 : (s1 + 1) * segSize ≤ s2 * segSize := Nat.mul_le_mul_right segSize h12
  have e : (s1 + 1) * segSize = s1 * segSize + segSize := Nat.succ_mul s1 segSize
  rw [e] at h3
  omega

open SegM in
/-- allocating a page in a free span writes exactly the entries of that span: the new span is well formed and every span
    disjoint from it keeps its entries (so no other page's back-pointers are touched) -/
theorem span_allocate_ok_frame (g : Seg) (s c : Nat) (hc : 0 < c) (hfit : s + c ≤ g.entries) (hsz : g.slices.size = g.entries + 1) :
    SpanOk (spanAllocate g s c) (s, c, true) ∧
    ∀ y : Span, 0 < y.2.1 → (y.1 + y.2.1 ≤ s ∨ s + c ≤ y.1) → SpanOk g y → SpanOk (spanAllocate g s c) y :=
  ⟨spanAllocate_ok g s c hc hfit hsz, fun y hy hd hok => spanAllocate_frame g s c hc hfit hsz y hy hd hok⟩

open SegM in
/-- freeing a span likewise -/
theorem span_free_ok_frame (g : Seg) (s c : Nat) (hc : 0 < c) (hfit : s + c ≤ g.entries) (hsz : g.slices.size = g.entries + 1) :
    SpanOk (spanFree g s c) (s, c, false) ∧
    ∀ y : Span, 0 < y.2.1 → (y.1 + y.2.1 ≤ s ∨ s + c ≤ y.1) → SpanOk g y → SpanOk (spanFree g s c) y :=
  ⟨spanFree_ok g s c hc hfit hsz, fun y hy hd hok => spanFree_frame g s c hc hfit hsz y hy hd hok⟩

open SegM in
/-- coalescing a freed page with a free successor keeps the representation invariant: the two spans become one free span and all
    other spans are untouched -/
theorem coalesce_with_next (g : Seg) (pre post : List Span) (s c nc : Nat) (u : Bool)
    (hr : Repr g (pre ++ (s, c, u) :: (s + c, nc, false) :: post)) (hn : coNext g s = true) (hp : coPrev g s = false) :
    Repr (coalesce g s).1 (pre ++ (s, c + nc, false) :: post) := coalesce_next_repr g pre post s c nc u hr hn hp

open SegM in
/-- freeing a page whose neighbours are both in use: only the flag of its span changes -/
theorem coalesce_alone (g : Seg) (pre post : List Span) (s c : Nat) (u : Bool)
    (hr : Repr g (pre ++ (s, c, u) :: post)) (hn : coNext g s = false) (hp : coPrev g s = false) :
    Repr (coalesce g s).1 (pre ++ (s, c, false) :: post) := coalesce_none_repr g pre post s c u hr hn hp

open SegM in
/-- ... with a free predecessor: the merged free span starts at the predecessor (found through the back offset of its last slice) -/
theorem coalesce_with_prev (g : Seg) (pre post : List Span) (ps pc c : Nat) (u : Bool)
    (hr : Repr g (pre ++ (ps, pc, false) :: (ps + pc, c, u) :: post)) (hn : coNext g (ps + pc) = false) (hp : coPrev g (ps + pc) = true) :
    Repr (coalesce g (ps + pc)).1 (pre ++ (ps, pc + c, false) :: post) := coalesce_prev_repr g pre post ps pc c u hr hn hp

open SegM in
/-- ... between two free spans: all three merge -/
theorem coalesce_with_both (g : Seg) (pre post : List Span) (ps pc c nc : Nat) (u : Bool)
    (hr : Repr g (pre ++ (ps, pc, false) :: (ps + pc, c, u) :: (ps + pc + c, nc, false) :: post))
    (hn : coNext g (ps + pc) = true) (hp : coPrev g (ps + pc) = true) :
    Repr (coalesce g (ps + pc)).1 (pre ++ (ps, pc + c + nc, false) :: post) := coalesce_both_repr g pre post ps pc c nc u hr hn hp

open SegM in
/-- **allocating a page keeps the tiling**: taking `k` slices at the start of any free span of a well-formed segment (exact fit or
    split; this is what mi_segments_page_find_and_allocate does with the span its queue search returns, `findAndAllocate_is_allocAt`)
    leaves a well-formed segment in which `(s, k)` is a page -/
theorem page_alloc_keeps_tiling (g : Seg) (sp : List Span) (s c k : Nat) (hr : Repr g sp) (hm : (s, c, false) ∈ sp) (hk : 0 < k) (hkc : k ≤ c) :
    ∃ sp', Repr (allocAt g s k) sp' ∧ (s, k, true) ∈ sp' := alloc_repr_exists g sp s c k hr hm hk hkc

open SegM in
/-- **freeing a page keeps the tiling**, whatever its neighbours are: the tests the code makes on the neighbours (next slice's block
    size, first slice of the previous span through the back offset) are determined by the invariant (`coNext_eq`, `coPrev_eq`), and
    each of the four outcomes (no merge, merge with next, with previous, with both) re-establishes it -/
theorem page_free_keeps_tiling (g : Seg) (sp : List Span) (s c : Nat) (u : Bool) (hr : Repr g sp) (hm : (s, c, u) ∈ sp) :
    ∃ sp', Repr (coalesce g s).1 sp' := by
  obtain ⟨pre, post, rfl⟩ := List.append_of_mem hm
  exact free_repr_exists g pre post s c u hr

open SegM in
/-- **every reachable segment state is tiled by disjoint spans**: from a fresh segment, after any sequence of page allocations and
    page frees, the slice array has a representation by spans that tile it (so no two pages ever share a slice: `spans_disjoint`) -/
theorem segment_tiling_reachable (entries info : Nat) (hi : 0 < info) (hie : info < entries) (ops : List SegOp)
    (hok : SegOpsOk (init entries info) ops) : ∃ sp, Repr (ops.foldl segStep (init entries info)) sp := by
  have h0 : ∃ sp, Repr (init entries info) sp := ⟨_, init_repr entries info hi hie⟩
  generalize init entries info = g at hok h0
  induction ops generalizing g with
  | nil => exact h0
  | cons op ops ih =>
    simp only [List.foldl_cons]
    obtain ⟨hen, hrest⟩ := hok
    apply ih _ hrest
    cases op with
    | alloc s k =>
      obtain ⟨sp, c, hr, hm, hk, hkc⟩ := hen
      obtain ⟨sp', hr', _⟩ := alloc_repr_exists g sp s c k hr hm hk hkc
      exact ⟨sp', hr'⟩
    | free s =>
      obtain ⟨sp, c, u, hr, hm⟩ := hen
      exact page_free_keeps_tiling g sp s c u hr hm

/-- **the block area of a page lies inside the page's own slices** (over `_mi_segment_page_start_from_slice` as regenerated from
    src/segment.c; `mi_page_init` takes `reserved = page_size / block_size` from it): for the page that starts at slice `idx` and
    spans `cnt` slices, block area start + reported page size is exactly the end of those slices, the start is not before their
    beginning, hence every one of the `page_size / bs` blocks lies inside `[seg + idx·64 KiB, seg + (idx + cnt)·64 KiB)` and no block
    reaches into the neighbouring page -/
theorem generated_page_area_inside_its_slices (cnt seg idx bs psz : Nat) (hseg : seg + 33554432 < 2^64) (hidx : idx < 512)
    (hp : psz ≠ 0) (hcnt : 1 ≤ cnt) (hfit : idx + cnt ≤ 512) (hbs : 0 < bs) (i : Nat)
    (hi : i < (Gen._mi_segment_page_start_from_slice cnt seg (seg + 288 + idx * 96) bs psz).2 / bs) :
    seg + idx * 65536 ≤ (Gen._mi_segment_page_start_from_slice cnt seg (seg + 288 + idx * 96) bs psz).1 + i * bs ∧
    (Gen._mi_segment_page_start_from_slice cnt seg (seg + 288 + idx * 96) bs psz).1 + (i + 1) * bs ≤ seg + (idx + cnt) * 65536 := by
  obtain ⟨hend, hstart⟩ := PageStartL.page_area_end cnt seg idx bs psz hseg hidx hp hcnt hfit
  generalize (Gen._mi_segment_page_start_from_slice cnt seg (seg + 288 + idx * 96) bs psz).1 = st at hend hstart ⊢
  generalize (Gen._mi_segment_page_start_from_slice cnt seg (seg + 288 + idx * 96) bs psz).2 = ps at hend hi ⊢
  have h1 : (i + 1) * bs ≤ ps / bs * bs := Nat.mul_le_mul_right bs hi
  have h2 : ps / bs * bs ≤ ps := Nat.div_mul_le_self ps bs
  constructor
  · omega
  · omega

/-- **the real free-list extension, regenerated from src/page.c** (`mi_page_free_list_extend`, a `while` loop translated by
    extract/translate.py to `whileN`; stores are the effect log): for a page whose block area starts at `ps page`, with `cap` blocks
    handed to the lists so far and `ext ≥ 1` fresh ones, the function makes exactly these stores — link fresh block `cap + i` to
    `cap + i + 1` for every `i < ext`, re-link the last fresh block to the old free list, set `page->free` to the first fresh block -/
theorem generated_free_list_extend_exact_stores (ps : Nat → Nat) (cap free page bs ext stats : Nat) (hbs : 0 < bs) (hext : 0 < ext)
    (hfit : ps page + (cap + ext + 1) * bs < 2^64) :
    GenL.mi_page_free_list_extend ps cap free page bs ext stats =
      ExtendL.links page (ps page + cap * bs) bs 0 ext ++
        [("mi_block_set_next", [page, ps page + (cap + ext - 1) * bs, free]), ("set:free", [page, ps page + cap * bs])] :=
  ExtendL.extend_exact ps cap free page bs ext stats hbs hext (by have : (2:Nat)^64 = 18446744073709551616 := by decide
                                                                  omega)

/-- … which is the page model's `extend`: afterwards `page->free` is block `cap`, the `next` of fresh block `cap + i` is block
    `cap + i + 1`, the `next` of the last fresh block is the old list: the free list is `[cap, …, cap + ext - 1] ++ old free`
    (`PageM.extend`) -/
theorem generated_free_list_extend_threads_fresh_blocks (ps : Nat → Nat) (cap free page bs ext stats : Nat) (hbs : 0 < bs) (hext : 0 < ext)
    (hfit : ps page + (cap + ext + 1) * bs < 2^64) :
    ExtendL.freeAfter (GenL.mi_page_free_list_extend ps cap free page bs ext stats) page = some (ps page + cap * bs) ∧
    ∀ i, i < ext → ExtendL.nextAfter (GenL.mi_page_free_list_extend ps cap free page bs ext stats) page (ps page + (cap + i) * bs)
      = some (if i + 1 < ext then ps page + (cap + i + 1) * bs else free) :=
  ExtendL.extend_chain ps cap free page bs ext stats hbs hext (by have : (2:Nat)^64 = 18446744073709551616 := by decide
                                                                  omega)

/-- … and it writes nowhere else: every `next` pointer it stores is stored into a fresh block (index `cap ≤ k < cap + ext`), never
    into a block that is live or already on a list -/
theorem generated_free_list_extend_writes_only_fresh_blocks (ps : Nat → Nat) (cap free page bs ext stats : Nat) (hbs : 0 < bs)
    (hext : 0 < ext) (hfit : ps page + (cap + ext + 1) * bs < 2^64) :
    ∀ c ∈ GenL.mi_page_free_list_extend ps cap free page bs ext stats,
      c = ("set:free", [page, ps page + cap * bs]) ∨
      ∃ k nx, cap ≤ k ∧ k < cap + ext ∧ c = ("mi_block_set_next", [page, ps page + k * bs, nx]) := by
  intro c hc
  rw [generated_free_list_extend_exact_stores ps cap free page bs ext stats hbs hext hfit] at hc
  rcases List.mem_append.mp hc with h | h
  · obtain ⟨i, _, hi, e⟩ := ExtendL.mem_links _ _ _ _ _ _ h
    right
    refine ⟨cap + i, ps page + cap * bs + (i + 1) * bs, by omega, by omega, ?_⟩
    rw [e, ExtendL.addr_split (ps page) cap i bs]
  · simp only [List.mem_cons, List.mem_nil_iff, or_false] at h
    rcases h with h | h
    · right; exact ⟨cap + ext - 1, free, by omega, by omega, h⟩
    · left; exact h

-- non-vacuity of `generated_page_area_inside_its_slices`: the page at slice 1 of a segment at 2^25, 8-byte blocks: the block area
-- starts 32 bytes into the slice (3 blocks skipped, rounded to 16) and the reported size is the rest of the slice
example : Gen._mi_segment_page_start_from_slice 1 33554432 (33554432 + 288 + 1 * 96) 8 1 = (33554432 + 65536 + 32, 65536 - 32) := by decide

-- non-vacuity of the three statements above: a page area at 2^16, 2 blocks of 16 bytes handed out, 3 fresh ones, old free list 77
example : GenL.mi_page_free_list_extend (fun _ => 65536) 2 77 1 16 3 0 =
    [("mi_block_set_next", [1, 65568, 65584]), ("mi_block_set_next", [1, 65584, 65600]), ("mi_block_set_next", [1, 65600, 65616]),
     ("mi_block_set_next", [1, 65600, 77]), ("set:free", [1, 65568])] := by decide

-- non-vacuity: a concrete reachable page state
example : Inv ([Op.extend 4, Op.pop, Op.pop, Op.freeLocal 0, Op.lfCollect].foldl step (init 8)) := page_invariant_reachable 8 _
example : ([Op.extend 4, Op.pop, Op.pop, Op.freeLocal 0].foldl step (init 8)).live = [1] := by decide

/-- **the size of a segment, as regenerated from `mi_segment_calculate_slices`** (release configuration, every page size dividing
    64 KiB, every request below 2^62): the segment header (`sizeof(mi_segment_t)`, 49536 bytes here) lies inside the info slices —
    exactly one 64 KiB slice, which no page ever covers (`page_area_inside_its_slices` starts pages at their own slices) —, a normal
    segment has 512 slices, and a segment made for a huge request has room for the whole request *behind* the info slices with less
    than one slice wasted: the huge block and the header never share a byte -/
theorem generated_segment_size_covers_header_and_request (ps required : Nat) (hps : 0 < ps) (hd : ps ∣ 65536) (hr : required < 2^62) :
    (Gen.mi_segment_calculate_slices ps required 1).2 = 1
    ∧ 49536 ≤ (Gen.mi_segment_calculate_slices ps required 1).2 * 65536
    ∧ (required = 0 → (Gen.mi_segment_calculate_slices ps required 1).1 = 512)
    ∧ (0 < required →
        required + (Gen.mi_segment_calculate_slices ps required 1).2 * 65536 ≤ (Gen.mi_segment_calculate_slices ps required 1).1 * 65536
        ∧ (Gen.mi_segment_calculate_slices ps required 1).1 * 65536 < required + (Gen.mi_segment_calculate_slices ps required 1).2 * 65536 + 65536) := by
  rw [CalcSlicesL.calc_eq ps required hps hd hr]
  refine ⟨rfl, (by show 49536 ≤ 1 * 65536; decide), fun h0 => by simp [h0], fun hpos => ?_⟩
  have h0 : required ≠ 0 := by omega
  simp only [if_neg h0]
  omega

example : Gen.mi_segment_calculate_slices 4096 (40 * 1048576) 1 = (641, 1) := by decide

end C01
