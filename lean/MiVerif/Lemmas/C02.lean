/- helper lemmas for Props/C02 and Props/C08 -/
import MiVerif.Lemmas.DelayedReach
import MiVerif.Lemmas.DelayedSound

namespace Delayed

/-! ### reachability -/

theorem Reach.trans {s t u : St} (h1 : Reach s t) (h2 : Reach t u) : Reach s u := by
  induction h2 with
  | refl => exact h1
  | step _ hs ih => exact Reach.step ih hs

theorem Reach.single {s t : St} (h : Step s t) : Reach s t := Reach.step (Reach.refl s) h

theorem Reach.head {s t u : St} (h : Step s t) (hr : Reach t u) : Reach s u :=
  Reach.trans (Reach.single h) hr

theorem inv_reach {s0 s : St} (h0 : Inv s0) (hr : Reach s0 s) : Inv s := by
  induction hr with
  | refl => exact h0
  | step _ hs ih => exact inv_step ih hs

/-! ### block conservation per step -/

theorem step_mem {s s' : St} (h : Step s s') : ∀ b, b ∈ allBlocks s' ↔ b ∈ allBlocks s := by
  intro x
  cases h with
  | start b hb =>
    simp only [allBlocks, held_cons, Flight.holds, List.mem_append, List.mem_cons, if_true, List.mem_nil_iff, or_false]
    by_cases hx : x = b
    · subst hx; simp [hb]
    · simp [List.mem_erase_of_ne hx, hx]
  | freeLocal b hb =>
    simp only [allBlocks, List.mem_append, List.mem_cons]
    by_cases hx : x = b
    · subst hx; simp [hb]
    · simp [List.mem_erase_of_ne hx, hx]
  | load pre post b h => simp [allBlocks, h, Flight.holds]
  | cas2fail pre post b hh ff h => simp [allBlocks, h, Flight.holds]
  | cas2push pre post b hh ff h heq hne => simp [allBlocks, h, Flight.holds]; grind
  | cas2delay pre post b hh ff h heq hu => simp [allBlocks, h, Flight.holds]
  | load4 pre post b h => simp [allBlocks, h, Flight.holds]
  | cas4fail pre post b d h => simp [allBlocks, h, Flight.holds]
  | cas4ok pre post b d h heq => simp [allBlocks, h, Flight.holds]; grind
  | load5 pre post b h => simp [allBlocks, h, Flight.holds]
  | cas5fail pre post b hh ff h => simp [allBlocks, h, Flight.holds]
  | cas5ok pre post b hh ff h heq => simp [allBlocks, h, Flight.holds]
  | tfCollect => simp [allBlocks]; grind
  | lfCollect h => simp [allBlocks, h]
  | malloc b rest h => simp [allBlocks, h]; grind
  | takeDl h ho => simp [allBlocks, h, ho]
  | procStart b rest h ho => simp [allBlocks, h, ho]; grind
  | procSetUse b ho h h' => simp [allBlocks, ho]
  | procNever b ho h' => simp [allBlocks, ho]
  | procGiveUp b ho => simp [allBlocks, ho]; grind
  | procFree b ho => simp [allBlocks, ho]; grind

theorem reach_mem {s0 s : St} (hr : Reach s0 s) : ∀ b, b ∈ allBlocks s ↔ b ∈ allBlocks s0 := by
  induction hr with
  | refl => intro b; exact Iff.rfl
  | step _ hs ih => intro b; exact (step_mem hs b).trans (ih b)

/-! ### consequences of `Nodup (allBlocks s)` -/

theorem malloc_fresh_of_nodup {s : St} (hnd : (allBlocks s).Nodup) {b : Blk} {rest : List Blk} (hf : s.free = b :: rest) :
    b ∉ s.live ∧ b ∉ held s.fl ∧ b ∉ s.tf ∧ b ∉ s.dl ∧ b ∉ s.pend ∧ b ∉ s.own.map (·.1) ∧ b ∉ s.lf ∧ b ∉ rest := by
  rw [nodup_iff_count] at hnd
  have hy := hnd b
  simp only [allBlocks, hf, List.count_append, List.count_cons, beq_self_eq_true, if_true] at hy
  refine ⟨?_, ?_, ?_, ?_, ?_, ?_, ?_, ?_⟩ <;>
    (intro hm; have := List.count_pos_iff.mpr hm; omega)

theorem live_unique_of_nodup {s : St} (hnd : (allBlocks s).Nodup) {b : Blk} (hb : b ∈ s.live) :
    b ∉ s.free ∧ b ∉ s.lf ∧ b ∉ s.tf ∧ b ∉ s.dl ∧ b ∉ s.pend ∧ b ∉ held s.fl ∧ s.live.count b = 1 := by
  rw [nodup_iff_count] at hnd
  have hy := hnd b
  have hl := List.count_pos_iff.mpr hb
  simp only [allBlocks, List.count_append] at hy
  refine ⟨?_, ?_, ?_, ?_, ?_, ?_, by omega⟩ <;>
    (intro hm; have := List.count_pos_iff.mpr hm; omega)

theorem live_only_by_malloc {s s' : St} (h : Step s s') {b : Blk} (hb : b ∈ s'.live) (hnb : b ∉ s.live) :
    s.free.head? = some b := by
  cases h with
  | start b' hb' => exact absurd (List.mem_of_mem_erase hb) hnb
  | freeLocal b' hb' => exact absurd (List.mem_of_mem_erase hb) hnb
  | malloc b' rest h =>
    rcases List.mem_cons.mp hb with rfl | hb
    · simp [h]
    · exact absurd hb hnb
  | _ => exact absurd hb hnb

/-! ### accepted logs -/

theorem foldlM_exec_reach {s : St} {ls : List Lbl} {s' : St} (h : ls.foldlM exec s = some s') : Reach s s' := by
  induction ls generalizing s with
  | nil => simp [List.foldlM] at h; subst h; exact Reach.refl _
  | cons l ls ih =>
    rw [List.foldlM_cons] at h
    cases he : exec s l with
    | none => rw [he] at h; simp at h
    | some t => rw [he] at h; exact Reach.head (exec_sound he) (ih h)

/-! ### liveness of a single remote free run alone -/

theorem ex_head {s t : St} {P : St → Prop} (h : Step s t) (hex : ∃ s', Reach t s' ∧ P s') : ∃ s', Reach s s' ∧ P s' := by
  obtain ⟨s', hr, hp⟩ := hex
  exact ⟨s', Reach.head h hr, hp⟩

theorem fin_r5 (s : St) (pre post : List Flight) (b : Blk) (hh : List Blk) (ff : Flag)
    (h : s.fl = pre ++ ⟨b, .r5 hh ff⟩ :: post) : ∃ s', Reach s s' ∧ s'.fl = pre ++ post :=
  ex_head (Step.cas5fail s pre post b hh ff h)
    ⟨_, Reach.single (Step.cas5ok _ pre post b s.tf s.flag rfl ⟨rfl, rfl⟩), rfl⟩

theorem fin_r5load (s : St) (pre post : List Flight) (b : Blk)
    (h : s.fl = pre ++ ⟨b, .r5load⟩ :: post) : ∃ s', Reach s s' ∧ s'.fl = pre ++ post :=
  ex_head (Step.load5 s pre post b h) (fin_r5 _ pre post b s.tf s.flag rfl)

theorem fin_r4 (s : St) (pre post : List Flight) (b : Blk) (d : List Blk)
    (h : s.fl = pre ++ ⟨b, .r4 d⟩ :: post) : ∃ s', Reach s s' ∧ s'.fl = pre ++ post :=
  ex_head (Step.cas4fail s pre post b d h)
    (ex_head (Step.cas4ok _ pre post b s.dl rfl rfl) (fin_r5load _ pre post b rfl))

theorem fin_r4load (s : St) (pre post : List Flight) (b : Blk)
    (h : s.fl = pre ++ ⟨b, .r4load⟩ :: post) : ∃ s', Reach s s' ∧ s'.fl = pre ++ post :=
  ex_head (Step.load4 s pre post b h) (fin_r4 _ pre post b s.dl rfl)

theorem fin_r2 (s : St) (pre post : List Flight) (b : Blk) (hh : List Blk) (ff : Flag)
    (h : s.fl = pre ++ ⟨b, .r2 hh ff⟩ :: post) : ∃ s', Reach s s' ∧ s'.fl = pre ++ post := by
  refine ex_head (Step.cas2fail s pre post b hh ff h) ?_
  by_cases hu : s.flag = .use
  · exact ex_head (Step.cas2delay _ pre post b s.tf s.flag rfl ⟨rfl, rfl⟩ hu) (fin_r4load _ pre post b rfl)
  · exact ⟨_, Reach.single (Step.cas2push _ pre post b s.tf s.flag rfl ⟨rfl, rfl⟩ hu), rfl⟩

theorem fin_r1 (s : St) (pre post : List Flight) (b : Blk)
    (h : s.fl = pre ++ ⟨b, .r1⟩ :: post) : ∃ s', Reach s s' ∧ s'.fl = pre ++ post :=
  ex_head (Step.load s pre post b h) (fin_r2 _ pre post b s.tf s.flag rfl)

theorem flight_completes {s : St} {pre post : List Flight} {x : Flight}
    (hx : s.fl = pre ++ x :: post) : ∃ s', Reach s s' ∧ s'.fl = pre ++ post := by
  obtain ⟨b, pc⟩ := x
  cases pc with
  | r1 => exact fin_r1 s pre post b hx
  | r2 hh ff => exact fin_r2 s pre post b hh ff hx
  | r4load => exact fin_r4load s pre post b hx
  | r4 d => exact fin_r4 s pre post b d hx
  | r5load => exact fin_r5load s pre post b hx
  | r5 hh ff => exact fin_r5 s pre post b hh ff hx

/-! ### quiescent drain by the owner -/

theorem drain_own (s : St) (hq : s.fl = []) (hfz : s.flag ≠ .freeing) (h1 : s.own.length ≤ 1) :
    ∃ s', Reach s s' ∧ s'.own = [] ∧ s'.fl = [] ∧ s'.flag ≠ .freeing ∧ s'.pend = s.pend ∧ s'.dl = s.dl ∧
      s'.tf = s.tf ∧ s'.live = s.live := by
  match ho : s.own with
  | [] => exact ⟨s, Reach.refl s, ho, hq, hfz, rfl, rfl, rfl, rfl⟩
  | [(b, true)] => exact ⟨_, Reach.single (Step.procFree s b ho), rfl, hq, hfz, rfl, rfl, rfl, rfl⟩
  | [(b, false)] =>
    by_cases hn : s.flag = .never
    · exact ⟨_, Reach.step (Reach.single (Step.procNever s b ho hn)) (Step.procFree _ b rfl),
        rfl, hq, hfz, rfl, rfl, rfl, rfl⟩
    · exact ⟨_, Reach.step (Reach.single (Step.procSetUse s b ho hfz hn)) (Step.procFree _ b rfl),
        rfl, hq, (by simp), rfl, rfl, rfl, rfl⟩
  | _ :: _ :: _ => rw [ho] at h1; simp at h1

theorem drain_pend (p : List Blk) : ∀ (s : St), s.pend = p → s.own = [] → s.fl = [] → s.flag ≠ .freeing →
    ∃ s', Reach s s' ∧ s'.pend = [] ∧ s'.own = [] ∧ s'.fl = [] ∧ s'.flag ≠ .freeing ∧ s'.dl = s.dl ∧
      s'.tf = s.tf ∧ s'.live = s.live := by
  induction p with
  | nil => intro s hp ho hq hfz; exact ⟨s, Reach.refl s, hp, ho, hq, hfz, rfl, rfl, rfl⟩
  | cons b rest ih =>
    intro s hp ho hq hfz
    have hst := Step.procStart s b rest hp ho
    obtain ⟨t, hrt, hto, htq, htf, htp, htd, htt, htl⟩ :=
      drain_own { s with pend := rest, own := [(b, false)] } hq hfz (by simp)
    obtain ⟨u, hru, hup, huo, huq, huf, hud, hut, hul⟩ := ih t htp hto htq htf
    exact ⟨u, Reach.head hst (Reach.trans hrt hru), hup, huo, huq, huf, hud.trans htd, hut.trans htt, hul.trans htl⟩

theorem quiescent_drain {s : St} (hinv : Inv s) (hq : s.fl = []) :
    ∃ s', Reach s s' ∧ s'.tf = [] ∧ s'.dl = [] ∧ s'.pend = [] ∧ s'.own = [] ∧ s'.fl = [] ∧ s'.live = s.live ∧
      (∀ b, b ∈ allBlocks s → b ∈ s'.free ++ s'.lf ++ s'.live) := by
  have hfz : s.flag ≠ .freeing := by
    intro hc; have := hinv.freeing1.1 hc; rw [hq] at this; simp at this
  obtain ⟨t, hrt, hto, htq, htf, _, _, _, htl⟩ := drain_own s hq hfz hinv.own1
  obtain ⟨u, hru, hup, huo, huq, huf, _, _, hul⟩ := drain_pend t.pend t rfl hto htq htf
  have hst := Step.takeDl u hup huo
  obtain ⟨v, hrv, hvp, hvo, hvq, hvf, hvd, _, hvl⟩ :=
    drain_pend u.dl { u with pend := u.dl, dl := [] } rfl huo huq huf
  have hst2 := Step.tfCollect v
  have hr : Reach s { v with tf := [], lf := v.tf ++ v.lf } :=
    Reach.step (Reach.trans hrt (Reach.trans hru (Reach.head hst hrv))) hst2
  refine ⟨_, hr, rfl, hvd, hvp, hvo, hvq, hvl.trans (hul.trans htl), ?_⟩
  intro b hb
  have hb' := (reach_mem hr b).mpr hb
  simp only [allBlocks, hvd, hvp, hvo, hvq, held_nil, List.map_nil, List.append_nil, List.nil_append] at hb'
  exact hb'

end Delayed
