/- C20 — options, environment parsing and diagnostic output are total and memory-safe.
   Property theorems only.  Models: MiVerif/Model/Options.lean (mi_option_init value parsing) and
   MiVerif/Model/Printf.lean (_mi_vsnprintf, _mi_strlcpy, _mi_strlcat); both are compared with the real static
   functions of the current tree on every run (harness/c20.c, under AddressSanitizer).  `Gen.internalFormats` is
   regenerated from the string literals of /repo/src. -/
import MiVerif.Lemmas.C20Opt
import MiVerif.Lemmas.C20Printf
import MiVerif.Gen.Formats
import MiVerif.Lemmas.StrLoops

namespace C20
open OptM PfM C20L

/-- the parser always terminates in one of two states: INITIALIZED with some value, or DEFAULTED with the default untouched -/
theorem parse_total (sz : Bool) (dflt : Int) (buf : List Char) :
    (∃ v, parseBuf sz dflt buf = (.initialized, v)) ∨ parseBuf sz dflt buf = (.defaulted, dflt) := by
  unfold parseBuf
  split
  · exact Or.inl ⟨_, rfl⟩
  · split
    · exact Or.inl ⟨_, rfl⟩
    · cases sz <;> simp only [Bool.false_eq_true, if_false, if_true] <;> split <;>
        first | exact Or.inl ⟨_, rfl⟩ | exact Or.inr rfl

/-- only at most 64 bytes of the environment value are parsed -/
theorem buffer_le_64 (raw : String) : (buffer raw).length ≤ 64 := by
  unfold buffer; simp [List.length_take]; omega

/-- an accepted value is empty, a whole boolean word (value 1 / 0), or a well-formed number
    `ws* [+-]? digits+ [K|M|G|T]? [IB|B]?` (unit suffixes only for the size options) -/
theorem accepted_is_wellformed (sz : Bool) (dflt v : Int) (buf : List Char) (h : parseBuf sz dflt buf = (.initialized, v)) :
    buf = [] ∨ (buf ∈ trueWords ∧ v = 1) ∨ (buf ∈ falseWords ∧ v = 0) ∨ WellFormedNum sz buf :=
  C20L.accepted_is_wellformed sz dflt v buf h

/-- a malformed value leaves the default in place -/
theorem malformed_keeps_default (sz : Bool) (dflt : Int) (buf : List Char)
    (h : ¬ (buf = [] ∨ buf ∈ trueWords ∨ buf ∈ falseWords ∨ WellFormedNum sz buf)) :
    parseBuf sz dflt buf = (.defaulted, dflt) := by
  rcases parse_total sz dflt buf with ⟨v, hv⟩ | hd
  · exfalso; apply h
    rcases C20L.accepted_is_wellformed sz dflt v buf hv with h1 | h1 | h1 | h1
    · exact Or.inl h1
    · exact Or.inr (Or.inl h1.1)
    · exact Or.inr (Or.inr (Or.inl h1.1))
    · exact Or.inr (Or.inr (Or.inr h1))
  · exact hd

/-- the boolean words (any case: the buffer is upper-cased) and the empty value -/
theorem bool_words (sz : Bool) (dflt : Int) :
    parseBuf sz dflt [] = (.initialized, 1) ∧
    (∀ b ∈ trueWords, parseBuf sz dflt b = (.initialized, 1)) ∧ (∀ b ∈ falseWords, parseBuf sz dflt b = (.initialized, 0)) := by
  refine ⟨rfl, ?_, ?_⟩
  · intro b hb; simp only [trueWords, List.mem_cons, List.not_mem_nil, or_false] at hb
    rcases hb with rfl | rfl | rfl | rfl <;> rfl
  · intro b hb; simp only [falseWords, List.mem_cons, List.not_mem_nil, or_false] at hb
    rcases hb with rfl | rfl | rfl | rfl <;> rfl

/-- decimal integers parse to their value, saturating at LONG_MAX / LONG_MIN -/
theorem parse_decimal (dflt : Int) (sgn ds : List Char) (hs : sgn = [] ∨ sgn = ['-'] ∨ sgn = ['+']) (hne : ds ≠ [])
    (hd : ∀ c ∈ ds, c.isDigit = true) (ht : sgn ++ ds ∉ trueWords) (hf : sgn ++ ds ∉ falseWords) :
    parseBuf false dflt (sgn ++ ds) = (.initialized, clampLong (if sgn = ['-'] then -(digitsVal ds : Int) else (digitsVal ds : Int))) :=
  C20L.parse_decimal dflt sgn ds hs hne hd ht hf

/-- sizes with K/M/G/T (+ optional iB / B) parse to the documented number of KiB, saturating at MI_MAX_ALLOC_SIZE/KiB
    (also when the multiplication overflows 64 bits or the digits overflow `long`) -/
theorem parse_size (dflt : Int) (ds u b : List Char) (hne : ds ≠ []) (hd : ∀ c ∈ ds, c.isDigit = true)
    (hu : u ∈ unitSuffixes) (hb : b ∈ byteSuffixes) (ht : ds ++ (u ++ b) ∉ trueWords) (hf : ds ++ (u ++ b) ∉ falseWords) :
    parseBuf true dflt (ds ++ (u ++ b)) = (.initialized, docKiB (kibOf (digitsVal ds) u)) :=
  C20L.parse_size dflt ds u b hne hd hu hb ht hf

/-- `_mi_vsnprintf` never stores outside its buffer, always terminates the string inside it and returns a length
    below the buffer size — for every buffer size, every format (well-formed or not) and every argument list -/
theorem vsnprintf_in_bounds (bufsize : Nat) (hb : 0 < bufsize) (fmt : List Char) (args : List Arg) :
    (vsnprintf bufsize fmt args).len ≤ bufsize - 1 ∧ (vsnprintf bufsize fmt args).termAt < bufsize ∧
    (vsnprintf bufsize fmt args).oob = false := by
  unfold vsnprintf
  rw [if_neg (by omega)]
  have h := (go_inv (fmt.length + 1) { out := [], cap := bufsize - 1 } fmt args ⟨by simp, rfl⟩)
  obtain ⟨⟨h1, h2⟩, h3⟩ := h
  simp only at h3
  rw [h3] at h1
  exact ⟨h1, by simp only; omega, h2⟩

/-- buffer size 0: nothing is written at all -/
theorem vsnprintf_zero (fmt : List Char) (args : List Arg) : (vsnprintf 0 fmt args).len = 0 ∧ (vsnprintf 0 fmt args).oob = false := ⟨rfl, rfl⟩

/-- the model's unbounded `width` agrees with the C `size_t` for every format the allocator itself uses:
    none of them has a width field of more than 18 digits (the table is regenerated from the sources) -/
theorem internal_formats_small_width : ∀ f ∈ Gen.internalFormatChars, widthsOk f = true := by decide +kernel

/-- `_mi_strlcpy` stores only below `n` and always stores the terminator (n > 0) -/
theorem strlcpy_in_bounds (src : List Char) (n : Nat) :
    (∀ p ∈ strlcpy src n, p.1 < n) ∧ (0 < n → (min src.length (n - 1), '\x00') ∈ strlcpy src n) := by
  unfold strlcpy
  split
  · rename_i h; subst h; exact ⟨by simp, by omega⟩
  · refine ⟨?_, fun _ => by simp⟩
    intro p hp
    simp only [List.mem_append, List.mem_map, List.mem_range, List.mem_singleton] at hp
    rcases hp with ⟨i, hi, rfl⟩ | rfl
    · simp only; omega
    · simp only; omega

/-- the same for **`_mi_strlcpy` as regenerated from src/libc.c** (the `while (*src != 0 && dest_size > 1) *dest++ = *src++` loop as
    `whileN`; loads through the oracle `ld8`, so for every content of memory and every source string, terminated or not): every store
    is a byte store inside `[dest, dest + dest_size)` and the last store is the terminating NUL -/
theorem generated_strlcpy_in_bounds (ld8 : Nat → Nat) (dest src dest_size : Nat) (hd : dest ≠ 0) (hs : src ≠ 0) (hn : 0 < dest_size)
    (hfit : dest + dest_size < 2^64) :
    (∀ c ∈ GenL._mi_strlcpy ld8 dest src dest_size, ∃ a v, c = ("store8", [a, v]) ∧ dest ≤ a ∧ a < dest + dest_size) ∧
    ∃ pre a, GenL._mi_strlcpy ld8 dest src dest_size = pre ++ [("store8", [a, 0])] :=
  StrL.strlcpy_in_bounds ld8 dest src dest_size hd hs hn (StrL.lt_M_of _ hfit)

/-- **`_mi_strlcat` as regenerated**: whatever is in the destination (terminated or not), it skips at most `dest_size - 1` bytes and
    copies into the rest: every store is inside `[dest, dest + dest_size)` and the last one is the terminating NUL -/
theorem generated_strlcat_in_bounds (ld8 : Nat → Nat) (dest src dest_size : Nat) (hd : dest ≠ 0) (hs : src ≠ 0) (hn : 0 < dest_size)
    (hfit : dest + dest_size < 2^64) :
    (∀ c ∈ GenL._mi_strlcat ld8 dest src dest_size, ∃ a v, c = ("store8", [a, v]) ∧ dest ≤ a ∧ a < dest + dest_size) ∧
    ∃ pre a, GenL._mi_strlcat ld8 dest src dest_size = pre ++ [("store8", [a, 0])] :=
  StrL.strlcat_in_bounds ld8 dest src dest_size hd hs hn (StrL.lt_M_of _ hfit)

/-- NULL arguments and an empty destination: nothing is stored -/
theorem generated_strlcpy_null (ld8 : Nat → Nat) (dest src dest_size : Nat) (h : dest = 0 ∨ src = 0 ∨ dest_size = 0) :
    GenL._mi_strlcpy ld8 dest src dest_size = [] ∧ GenL._mi_strlcat ld8 dest src dest_size = [] := by
  have hc : ((dest = 0) ∨ (src = 0)) ∨ (dest_size = 0) := by omega
  unfold GenL._mi_strlcpy GenL._mi_strlcat
  simp only [if_pos hc, and_self]

/-- **`_mi_strnlen` as regenerated** never reports more than `max_len` -/
theorem generated_strnlen_le (ld8 : Nat → Nat) (s max_len : Nat) (hm : max_len < 2^64) : GenL._mi_strnlen ld8 s max_len ≤ max_len :=
  StrL.strnlen_le ld8 s max_len (StrL.lt_M_of _ hm)

/-- `_mi_strlcat` stores only below `n`, whatever the current contents of the destination -/
theorem strlcat_in_bounds (dlen : Nat) (src : List Char) (n : Nat) : ∀ p ∈ strlcat dlen src n, p.1 < n := by
  unfold strlcat
  split
  · simp
  · intro p hp
    simp only [List.mem_map] at hp
    obtain ⟨q, hq, rfl⟩ := hp
    have := (strlcpy_in_bounds src (n - min dlen (n - 1))).1 q hq
    simp only; omega

theorem heapBufPrint_go_in_bounds (size used : Nat) (msg : List Char) (acc : List (Nat × Char)) (hu : used < size)
    (hacc : ∀ p ∈ acc, p.1 < size) :
    (∀ p ∈ (heapBufPrint.go size used msg acc).1, p.1 < size) ∧ (heapBufPrint.go size used msg acc).2 < size := by
  induction msg generalizing used acc with
  | nil =>
    unfold heapBufPrint.go
    refine ⟨?_, hu⟩
    intro p hp; simp only [List.mem_append, List.mem_singleton] at hp
    rcases hp with hp | rfl
    · exact hacc p hp
    · exact hu
  | cons c r ih =>
    unfold heapBufPrint.go
    split
    · refine ⟨?_, hu⟩
      split
      · intro p hp; simp only [List.mem_append, List.mem_singleton] at hp
        rcases hp with hp | rfl
        · exact hacc p hp
        · simp only; omega
      · exact hacc
    · apply ih (used + 1) _ (by omega)
      intro p hp; simp only [List.mem_append, List.mem_singleton] at hp
      rcases hp with hp | rfl
      · exact hacc p hp
      · exact hu

/-- `mi_heap_buf_print` on a caller buffer of any size (0 and 1 included) stores only inside it and keeps `used < size` -/
theorem heapBufPrint_in_bounds (size used : Nat) (msg : List Char) (hu : used < size ∨ size = 0) :
    (∀ p ∈ (heapBufPrint size used msg).1, p.1 < size) ∧ ((heapBufPrint size used msg).2 < size ∨ size = 0) := by
  unfold heapBufPrint
  split
  · exact ⟨by simp, hu⟩
  · rename_i h
    have := heapBufPrint_go_in_bounds size used msg [] (by omega) (by simp)
    exact ⟨this.1, Or.inl this.2⟩

/-- `mi_out_buf` copies only into `out_buf[0 .. MI_MAX_DELAY_OUTPUT)`, and the flush terminator lands inside the
    `MI_MAX_DELAY_OUTPUT + 1` bytes of the buffer, for every message length and every earlier fill level -/
theorem outBuf_in_bounds (outLen n : Nat) :
    (∀ r, (outBuf outLen n).1 = some r → r.1 + r.2 < MAX_DELAY_OUTPUT) ∧ outBufFlushIndex (outBuf outLen n).2 < MAX_DELAY_OUTPUT + 1 := by
  unfold outBuf outBufFlushIndex MAX_DELAY_OUTPUT
  split
  · exact ⟨by simp, by split <;> omega⟩
  · split
    · exact ⟨by simp, by split <;> omega⟩
    · refine ⟨?_, by simp only; split <;> omega⟩
      intro r hr; simp only [Option.some.injEq] at hr; subst hr; simp only; split <;> omega

-- non-vacuity: the hypotheses of the parse theorems are met by ordinary values, and the model computes
example : parseBuf false 10 "E".toList = (.defaulted, 10) := by decide
example : parseBuf true 5 "K".toList = (.defaulted, 5) := by decide
example : parseBuf false 10 "-25".toList = (.initialized, -25) := by decide
example : parseBuf true 0 "2GIB".toList = (.initialized, 2097152) := by decide
example : (vsnprintf 9 "ab%5dxyz".toList [Arg.num 42]).text = "ab   42x".toList := by decide
example : (vsnprintf 8 "ab%5dxyz".toList [Arg.num 42]).text = "ab42   ".toList := by decide   -- no room to align: as the C code

-- non-vacuity of `generated_strlcpy_in_bounds`: "hi" into a 2-byte buffer at 4096 keeps one character and the terminator
example : GenL._mi_strlcpy (fun a => if a = 8192 then 104 else if a = 8193 then 105 else 0) 4096 8192 2 =
    [("store8", [4096, 104]), ("store8", [4097, 0])] := by decide

end C20
