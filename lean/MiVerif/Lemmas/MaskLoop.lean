import MiVerif.Gen.Loops
/-! `mi_commit_mask_create` as regenerated from src/segment.c (a `while` loop over the 64-bit fields of the mask, `whileN`): the stores it
    makes into the (emptied) mask set exactly the bits `[bitidx, bitidx + bitcount)`. -/
namespace MaskL
open GenL

abbrev Eff := List (String × List Nat)
abbrev M : Nat := 18446744073709551616

/-- the value stored into one field: `count` ones starting at bit `ofs` (as the code computes it) -/
def fieldMask (count ofs : Nat) : Nat :=
  if count ≥ 64 then 18446744073709551615 else (((((((((1 * 2^count)) % M) + M - 1)) % M) * 2^ofs)) % M)

/-- the (field, value) pairs the loop stores, by recursion on a bound `n ≥ cnt` -/
def stores : Nat → Nat → Nat → Nat → List (Nat × Nat)
  | 0, _, _, _ => []
  | n + 1, i, ofs, cnt =>
    if cnt = 0 then [] else
      let c := if cnt > 64 - ofs then 64 - ofs else cnt
      (i, fieldMask c ofs) :: stores n (i + 1) 0 (cnt - c)

theorem stores_zero (n i ofs : Nat) : stores n i ofs 0 = [] := by
  cases n <;> simp [stores]

def toStore (cm : Nat) (p : Nat × Nat) : String × List Nat := ("store64", [cm + p.1 * 8, p.2])

/-- the loop makes exactly these stores (for any fuel that is not smaller than the number of bits left) -/
theorem loop_exact (cm : Nat) (hcm : cm + 64 < M)
    (c : Eff × Nat × Nat × Nat → Bool) (body : Eff × Nat × Nat × Nat → Eff × Nat × Nat × Nat)
    (hc : ∀ s, c s = decide (s.2.1 > 0))
    (hbody : ∀ s, body s =
      (s.1 ++ [("store64", [((((cm + 0) % M) + s.2.2.2 * 8) % M),
          (if (if s.2.1 > (((64 + M - s.2.2.1)) % M) then (((64 + M - s.2.2.1)) % M) else s.2.1) ≥ 64 then 18446744073709551615
           else (((((((((1 * 2^(if s.2.1 > (((64 + M - s.2.2.1)) % M) then (((64 + M - s.2.2.1)) % M) else s.2.1))) % M) + M - 1)) % M) * 2^s.2.2.1)) % M))])],
       (((s.2.1 + M - (if s.2.1 > (((64 + M - s.2.2.1)) % M) then (((64 + M - s.2.2.1)) % M) else s.2.1))) % M), 0, (((s.2.2.2 + 1)) % M))) :
    ∀ (n fuel : Nat) (eff : Eff) (cnt ofs i : Nat), cnt ≤ n → n ≤ fuel → ofs < 64 → i * 64 + ofs + cnt ≤ 512 →
      (whileN fuel c body (eff, cnt, ofs, i)).1 = eff ++ (stores n i ofs cnt).map (toStore cm) := by
  intro n
  induction n with
  | zero =>
    intro fuel eff cnt ofs i h1 _ _ _
    have : cnt = 0 := by omega
    subst this
    cases fuel with
    | zero => simp [whileN, stores]
    | succ f => unfold whileN; rw [hc]; simp [stores]
  | succ n ih =>
    intro fuel eff cnt ofs i h1 h2 h3 h4
    by_cases h0 : cnt = 0
    · subst h0
      rw [stores_zero]
      cases fuel with
      | zero => simp [whileN]
      | succ f => unfold whileN; rw [hc]; simp
    · cases fuel with
      | zero => omega
      | succ f =>
        have hav : (64 + M - ofs) % M = 64 - ofs := by
          have : 64 + M - ofs = (64 - ofs) + M := by unfold M; omega
          rw [this, Nat.add_mod_right]; exact Nat.mod_eq_of_lt (by unfold M; omega)
        unfold whileN
        rw [hc]
        have hpos : cnt > 0 := Nat.pos_of_ne_zero h0
        simp only [hpos, decide_true, if_true]
        rw [hbody]
        simp only [hav]
        generalize hcdef : (if cnt > 64 - ofs then 64 - ofs else cnt) = cc
        have hcc1 : 1 ≤ cc := by rw [← hcdef]; split <;> omega
        have hcc2 : cc ≤ cnt := by rw [← hcdef]; split <;> omega
        have hcc3 : ofs + cc ≤ 64 := by rw [← hcdef]; split <;> omega
        have hcc4 : cc = 64 - ofs ∨ cc = cnt := by rw [← hcdef]; split <;> omega
        have hi : i < 8 := by omega
        have haddr : ((cm + 0) % M + i * 8) % M = cm + i * 8 := by
          rw [Nat.add_zero, Nat.mod_eq_of_lt (by unfold M at hcm ⊢; omega), Nat.mod_eq_of_lt (by unfold M at hcm ⊢; omega)]
        have hcnt : (cnt + M - cc) % M = cnt - cc := by
          have : cnt + M - cc = (cnt - cc) + M := by unfold M; omega
          rw [this, Nat.add_mod_right]; exact Nat.mod_eq_of_lt (by unfold M; omega)
        have hi1 : (i + 1) % M = i + 1 := Nat.mod_eq_of_lt (by unfold M; omega)
        simp only [haddr, hcnt, hi1]
        rw [ih f _ (cnt - cc) 0 (i + 1) (by omega) (by omega) (by omega) (by rcases hcc4 with e | e <;> omega)]
        simp only [stores, if_neg h0, hcdef, List.map_cons, List.append_assoc, List.singleton_append, toStore, fieldMask]

theorem two64 : (2:Nat)^64 = M := by decide

/-- the bits of the value stored into one field -/
theorem fieldMask_bit (c ofs j : Nat) (hc : 1 ≤ c) (hfit : ofs + c ≤ 64) (hj : j < 64) :
    (fieldMask c ofs).testBit j = decide (ofs ≤ j ∧ j < ofs + c) := by
  unfold fieldMask
  by_cases h64 : c ≥ 64
  · have hc64 : c = 64 := by omega
    have ho : ofs = 0 := by omega
    subst hc64; subst ho
    rw [if_pos (by omega)]
    have : (18446744073709551615 : Nat) = 2^64 - 1 := by decide
    rw [this, Nat.testBit_two_pow_sub_one]
    simp [hj]
  · rw [if_neg h64]
    have hlt : 2^c < M := by rw [← two64]; exact Nat.pow_lt_pow_right (by decide) (by omega)
    have hpos : 0 < 2^c := Nat.two_pow_pos c
    have e1 : (1 * 2^c) % M = 2^c := by rw [Nat.one_mul]; exact Nat.mod_eq_of_lt hlt
    have e2 : (2^c + M - 1) % M = 2^c - 1 := by
      have : 2^c + M - 1 = (2^c - 1) + M := by omega
      rw [this, Nat.add_mod_right]; exact Nat.mod_eq_of_lt (by omega)
    have e3 : ((2^c - 1) * 2^ofs) % M = (2^c - 1) * 2^ofs := by
      apply Nat.mod_eq_of_lt
      have h1 : (2^c - 1) * 2^ofs < 2^c * 2^ofs := Nat.mul_lt_mul_of_pos_right (by omega) (Nat.two_pow_pos ofs)
      have h2 : 2^c * 2^ofs = 2^(c + ofs) := (Nat.pow_add 2 c ofs).symm
      have h3 : 2^(c + ofs) ≤ 2^64 := Nat.pow_le_pow_right (by decide) (by omega)
      rw [← two64]; omega
    rw [e1, e2, e3, Nat.testBit_mul_two_pow, Nat.testBit_two_pow_sub_one]
    by_cases h1 : ofs ≤ j
    · by_cases h2 : j < ofs + c
      · simp [h1, h2]; omega
      · simp [h1, h2]; omega
    · simp [h1]

/-- the field value the stores leave for the field of bit `k` (a later store wins; `none`: the field is untouched, i.e. still empty) -/
def fieldAfter (l : List (Nat × Nat)) (w : Nat) : Option Nat :=
  l.foldl (fun acc p => if p.1 = w then some p.2 else acc) none

def bitAfter (l : List (Nat × Nat)) (k : Nat) : Bool :=
  match fieldAfter l (k / 64) with
  | some m => m.testBit (k % 64)
  | none => false

theorem foldl_skip (w : Nat) : ∀ (n i ofs cnt : Nat) (acc : Option Nat), w < i →
    (stores n i ofs cnt).foldl (fun acc p => if p.1 = w then some p.2 else acc) acc = acc := by
  intro n
  induction n with
  | zero => intro i ofs cnt acc _; rfl
  | succ n ih =>
    intro i ofs cnt acc hw
    unfold stores
    by_cases h0 : cnt = 0
    · rw [if_pos h0]; rfl
    · rw [if_neg h0]
      simp only [List.foldl_cons]
      rw [if_neg (by omega), ih _ _ _ _ (by omega)]

/-- the stores set exactly the bits `[i*64 + ofs, i*64 + ofs + cnt)` among the bits of field `i` and above -/
theorem stores_bits (k : Nat) : ∀ (n i ofs cnt : Nat), cnt ≤ n → ofs < 64 → i * 64 + ofs + cnt ≤ 512 → i ≤ k / 64 →
    (match (stores n i ofs cnt).foldl (fun acc p => if p.1 = k / 64 then some p.2 else acc) none with
      | some m => m.testBit (k % 64)
      | none => false) = decide (i * 64 + ofs ≤ k ∧ k < i * 64 + ofs + cnt) := by
  intro n
  induction n with
  | zero =>
    intro i ofs cnt h1 _ _ _
    have : cnt = 0 := by omega
    subst this
    simp [stores]
  | succ n ih =>
    intro i ofs cnt h1 h2 h3 h4
    unfold stores
    by_cases h0 : cnt = 0
    · subst h0; simp
    · rw [if_neg h0]
      simp only [List.foldl_cons]
      generalize hcdef : (if cnt > 64 - ofs then 64 - ofs else cnt) = cc
      have hcc1 : 1 ≤ cc := by rw [← hcdef]; split <;> omega
      have hcc3 : ofs + cc ≤ 64 := by rw [← hcdef]; split <;> omega
      have hcc4 : (cc = 64 - ofs ∧ cnt > 64 - ofs) ∨ (cc = cnt ∧ cnt ≤ 64 - ofs) := by rw [← hcdef]; split <;> omega
      have hk := Nat.div_add_mod k 64
      have hkm : k % 64 < 64 := Nat.mod_lt _ (by decide)
      by_cases hik : i = k / 64
      · rw [if_pos hik, foldl_skip (k / 64) n (i + 1) 0 (cnt - cc) _ (by omega)]
        simp only []
        rw [fieldMask_bit cc ofs (k % 64) hcc1 hcc3 hkm]
        rcases hcc4 with ⟨e, hgt⟩ | ⟨e, hle⟩
        · by_cases hb : ofs ≤ k % 64 ∧ k % 64 < ofs + cc
          · rw [decide_eq_true hb, decide_eq_true (by omega)]
          · rw [decide_eq_false hb, decide_eq_false (by omega)]
        · by_cases hb : ofs ≤ k % 64 ∧ k % 64 < ofs + cc
          · rw [decide_eq_true hb, decide_eq_true (by omega)]
          · rw [decide_eq_false hb, decide_eq_false (by omega)]
      · rw [if_neg hik]
        have hlt : i + 1 ≤ k / 64 := by omega
        rw [ih (i + 1) 0 (cnt - cc) (by omega) (by omega) (by rcases hcc4 with ⟨e, _⟩ | ⟨e, _⟩ <;> omega) hlt]
        rcases hcc4 with ⟨e, hgt⟩ | ⟨e, hle⟩
        · by_cases hb : (i + 1) * 64 + 0 ≤ k ∧ k < (i + 1) * 64 + 0 + (cnt - cc)
          · rw [decide_eq_true hb, decide_eq_true (by omega)]
          · rw [decide_eq_false hb, decide_eq_false (by omega)]
        · by_cases hb : (i + 1) * 64 + 0 ≤ k ∧ k < (i + 1) * 64 + 0 + (cnt - cc)
          · rw [decide_eq_true hb, decide_eq_true (by omega)]
          · rw [decide_eq_false hb, decide_eq_false (by omega)]

/-- **`mi_commit_mask_create` builds exactly the bit range**: for `0 < bitcount < 512` and `bitidx + bitcount ≤ 512` the generated
    function empties the mask and then stores field values whose bits are exactly `[bitidx, bitidx + bitcount)` -/
theorem create_bits {α : Type} (full empty cm_in : α) (bitidx bitcount cm : Nat) (h1 : 0 < bitcount) (h2 : bitcount < 512)
    (h3 : bitidx + bitcount ≤ 512) (hcm : cm + 64 < M) :
    mi_commit_mask_create full empty cm_in bitidx bitcount cm =
      (empty, (stores bitcount (bitidx / 64) (bitidx % 64) bitcount).map (toStore cm)) ∧
    ∀ k, bitAfter (stores bitcount (bitidx / 64) (bitidx % 64) bitcount) k = decide (bitidx ≤ k ∧ k < bitidx + bitcount) := by
  have hb := Nat.div_add_mod bitidx 64
  have hbm : bitidx % 64 < 64 := Nat.mod_lt _ (by decide)
  constructor
  · unfold mi_commit_mask_create
    have hne : ¬ bitcount = 512 := by omega
    have hne0 : ¬ bitcount = 0 := by omega
    simp only [if_neg hne, if_neg hne0]
    have hl := loop_exact cm hcm _ _ (fun s => rfl) (fun s => rfl) bitcount 18446744073709551616 [] bitcount (bitidx % 64) (bitidx / 64)
      (Nat.le_refl _) (by omega) hbm (by omega)
    simp only [List.nil_append] at hl
    rw [hl]
  · intro k
    unfold bitAfter fieldAfter
    by_cases hk : bitidx / 64 ≤ k / 64
    · have := stores_bits k bitcount (bitidx / 64) (bitidx % 64) bitcount (Nat.le_refl _) hbm (by omega) hk
      rw [this]
      have hk2 := Nat.div_add_mod k 64
      by_cases hb2 : bitidx ≤ k ∧ k < bitidx + bitcount
      · rw [decide_eq_true hb2, decide_eq_true (by omega)]
      · rw [decide_eq_false hb2, decide_eq_false (by omega)]
    · rw [foldl_skip (k / 64) bitcount (bitidx / 64) (bitidx % 64) bitcount none (by omega)]
      have hk2 := Nat.div_add_mod k 64
      have hkm : k % 64 < 64 := Nat.mod_lt _ (by decide)
      rw [decide_eq_false (by omega)]

theorem create_full {α : Type} (full empty cm_in : α) (bitidx cm : Nat) :
    mi_commit_mask_create full empty cm_in bitidx 512 cm = (full, []) := by
  unfold mi_commit_mask_create; simp

theorem create_empty {α : Type} (full empty cm_in : α) (bitidx cm : Nat) :
    mi_commit_mask_create full empty cm_in bitidx 0 cm = (empty, []) := by
  unfold mi_commit_mask_create; simp

end MaskL
