// T3 for C02/C08: one page of the real allocator, one owner thread (virtual thread 0 = main thread) allocating,
// freeing locally and collecting, several remote threads freeing blocks of that page, under the baton scheduler
// with spurious weak-CAS failures.  Logs every atomic event on page->xthread_free, heap->thread_delayed_free and
// page->xheap (block indices, flag names) for validation against Model.Delayed, plus an end-of-run oracle.
// build: -DMI_VERIF_HOOKS='"<verif>/hooks/verif_hooks.h"' -DVERIF_STATIC_C='"<repo>/src/static.c"'
#include "vsched.h"
#include VERIF_STATIC_C
static int QUIET = 0;
static mi_page_t* PAGE; static mi_heap_t* HEAP; static uint8_t* PSTART; static size_t BS;
static long blk(unsigned long long p) { p &= ~3ULL; if (!p) return -1; return (long)((p - (uintptr_t)PSTART) / BS); }
static const char* FL[4] = { "use", "freeing", "no", "never" };
void verif_log(int kind, const volatile void* addr, unsigned long long a, unsigned long long b, int ok) {
  if (QUIET || !vs_enabled || vs_tid < 0 || !PAGE) return;
  static const char* K[] = { "", "casw", "cass", "load", "store", "xchg", "add", "and", "or", "", "", "sub" };
  char own[64] = "";   // owner events carry the heads of the owner-local lists, so that the validator can place owner-local steps
  if (vs_tid == 0) snprintf(own, sizeof(own), " | lf=%ld fr=%ld", blk((uintptr_t)PAGE->local_free), blk((uintptr_t)PAGE->free));
  if (addr == (void*)&PAGE->xthread_free) {
    if (kind <= 2) printf("E t%d %s xtf (%ld,%s)->(%ld,%s) %s%s\n", vs_tid, K[kind], blk(a), FL[a & 3], blk(b), FL[b & 3], ok ? "ok" : "fail", own);
    else printf("E t%d %s xtf (%ld,%s)%s\n", vs_tid, K[kind], blk(a), FL[a & 3], own); }
  else if (addr == (void*)&HEAP->thread_delayed_free) {
    if (kind <= 2) printf("E t%d %s dl %ld->%ld %s%s\n", vs_tid, K[kind], blk(a), blk(b), ok ? "ok" : "fail", own);
    else printf("E t%d %s dl %ld%s\n", vs_tid, K[kind], blk(a), own); }
  else if (addr == (void*)&PAGE->xheap) { printf("E t%d %s xheap\n", vs_tid, K[kind]); }
}
enum { NB = 40 }; static void* blocks[NB]; static volatile int given[NB];
static int OWNER_OPS = 60, REMOTE_OPS = 25;
static void owner(int tid) { (void)tid;
  for (int r = 0; r < OWNER_OPS; r++) { unsigned op = vs_rnd() % 10;
    if (op < 6) { unsigned cap0 = PAGE->capacity; void* p = mi_malloc(BS - 8);
      if (PAGE->capacity != cap0) { printf("B t0 extended %u %u\n", cap0, (unsigned)PAGE->capacity); }
      if (_mi_ptr_page(p) != PAGE) { if (!QUIET) printf("B t0 malloc-other-page\n"); mi_free(p); continue; }
      if (!QUIET) printf("B t0 malloc -> %ld\n", blk((uintptr_t)p));
      for (int i = 0; i < NB; i++) if (blocks[i] == p && !given[i]) { printf("FAIL double_handout block %ld is still held in slot %d\n", blk((uintptr_t)p), i); }
      int placed = 0; for (int i = 0; i < NB; i++) if (!blocks[i]) { blocks[i] = p; given[i] = 0; placed = 1; break; }
      if (!placed) { if (!QUIET) printf("B t0 freelocal %ld\n", blk((uintptr_t)p)); mi_free(p); } }
    else { if (!QUIET) printf("B t0 collect\n"); mi_collect(false); if (!QUIET) printf("X t0 collect-done\n"); } }
}
static void remote(int tid) {
  for (int r = 0; r < REMOTE_OPS; r++) { int i = (int)(vs_rnd() % NB);
    if (blocks[i] && !given[i]) { given[i] = 1; void* p = blocks[i]; if (!QUIET) printf("B t%d free %ld\n", tid, blk((uintptr_t)p)); mi_free(p); if (!QUIET) printf("X t%d free-done\n", tid); blocks[i] = NULL; } }
}
int main(int argc, char** argv) {
  uint64_t seed = argc > 1 ? strtoull(argv[1], 0, 10) : 1;
  int nth = argc > 2 ? atoi(argv[2]) : 3; if (nth < 2) nth = 2; if (nth > VS_MAXT) nth = VS_MAXT;
  QUIET = argc > 3 ? atoi(argv[3]) : 0;
  if (argc > 4) vs_spurious_pct = atoi(argv[4]);
  if (argc > 5) vs_stay_pct = atoi(argv[5]);
  if (argc > 6) { OWNER_OPS = atoi(argv[6]); REMOTE_OPS = OWNER_OPS / 2; }
  mi_option_set(mi_option_show_errors, 0); mi_option_set(mi_option_verbose, 0);
  BS = 64; for (int i = 0; i < NB; i++) { blocks[i] = mi_malloc(BS - 8); }
  PAGE = _mi_ptr_page(blocks[0]); PSTART = PAGE->page_start; BS = PAGE->block_size; HEAP = mi_heap_get_default();
  for (int i = 0; i < NB; i++) if (_mi_ptr_page(blocks[i]) != PAGE) { printf("SKIP initial blocks span pages\n"); return 0; }
  printf("page bs=%zu cap=%u reserved=%u\n", BS, PAGE->capacity, PAGE->reserved);
  printf("init live"); for (int i = 0; i < NB; i++) printf(" %ld", blk((uintptr_t)blocks[i]));
  printf(" free"); for (mi_block_t* b = PAGE->free; b != NULL; b = mi_block_next(PAGE, b)) printf(" %ld", blk((uintptr_t)b));
  printf(" lf"); for (mi_block_t* b = PAGE->local_free; b != NULL; b = mi_block_next(PAGE, b)) printf(" %ld", blk((uintptr_t)b));
  printf(" flag %s\n", FL[mi_atomic_load_relaxed(&PAGE->xthread_free) & 3]);
  vs_init(seed, nth);
  vs_fn bodies[VS_MAXT]; bodies[0] = owner; for (int i = 1; i < nth; i++) bodies[i] = remote;
  vs_run(bodies);
  mi_collect(true);
  int held = 0; for (int i = 0; i < NB; i++) if (blocks[i]) held++;
  // C08 oracle: every remotely freed block has come back to the owner: blocks still held == page->used
  printf("done points=%ld held=%d used=%u %s\n", vs_points, held, (unsigned)PAGE->used, held == (int)PAGE->used ? "OK" : "LOST");
  if (held != (int)PAGE->used) printf("FAIL lost_block held=%d used=%u\n", held, (unsigned)PAGE->used);
  return 0;
}
