/- C14 — concurrent arena claims are disjoint and leave nothing reserved behind.
   Property theorems only.  Model: MiVerif/Model/BitmapC.lean — abstract bits plus ghost ownership runs, one transition per atomic
   operation of the claim / roll-back / free code in src/bitmap.c (CAS of the next chunk, switch to roll-back, plain store 0 of a whole
   field during roll-back, CAS clear of the initial field, finish, free chunk by chunk), any number of threads.  Tie: the real functions
   are checked step by step against the sequential specification MiVerif/Model/BitSeq.lean (every successful claim sets exactly a
   previously clear run, every failed claim leaves the bitmap unchanged, every unclaim clears exactly its run), which is the sequential
   projection of the model (theorems `seq_claim` / `seq_free` below); for concurrent executions the log of every atomic operation on the
   arena's in-use bitmap, recorded from the hooked allocator under the deterministic scheduler, is replayed through the executable
   validator `BitmapC.exec` (proved sound: an accepted log is a model execution, theorem `validated_traces_satisfy_invariant`), and the
   end states are checked (disjointness, containment, nothing left claimed, whole arena allocatable again). -/
import MiVerif.Model.BitmapCExec
import MiVerif.Gen.Arith
import MiVerif.Gen.Loops
import MiVerif.Lemmas.BitmapMask
import MiVerif.Lemmas.C16Basic

namespace C14
open BitmapC

/-- reflexive-transitive closure of the atomic steps of all threads -/
inductive Steps : St → St → Prop where
  | refl (s) : Steps s s
  | tail {s t u} : Steps s t → Step t u → Steps s u

/-- the ownership invariant (every bit is owned exactly as often as it is set) holds along every interleaving -/
theorem inv_reachable {s s' : St} (h : Inv s) (hs : Steps s s') : Inv s' := by
  induction hs with
  | refl => exact h
  | tail _ hstep ih => exact inv_step ih hstep

/-- **disjoint claims**: in every reachable state no bit (arena block) belongs to two claims, completed or in flight -/
theorem claims_disjoint_reachable {s s' : St} (h : Inv s) (hs : Steps s s') (i : Nat) : cnt s'.owns i ≤ 1 :=
  claims_disjoint (inv_reachable h hs) i

/-- **nothing left reserved**: whenever every claim has been released and no operation is in flight, every bit is clear again
    (a failed or rolled-back claim leaves nothing behind) -/
theorem nothing_left_reserved {s s' : St} (h : Inv s) (hs : Steps s s') (hn : s'.owns = []) (i : Nat) : s'.bits i = false :=
  all_free_again (inv_reachable h hs) hn i

/-- every log accepted by the executable validator is an execution of the model: the invariant holds in every state along it -/
theorem validated_traces_satisfy_invariant {s s' : St} {ls : List Lbl} (hi : Inv s) (h : run s ls = some s') : Inv s' := run_inv hi h

/-- the empty bitmap satisfies the invariant -/
theorem empty_inv : Inv { bits := fun _ => false, owns := [] } := ⟨fun i => by simp, fun o ho => by cases ho⟩

/-- the sequential claim of a clear run `[a, b)` is an execution of the model: start, one successful CAS chunk, finish -/
theorem seq_claim (s : St) (a b : Nat) (hab : a < b) (hfree : ∀ i, a ≤ i → i < b → s.bits i = false) :
    Steps s { bits := setRange s.bits a b true, owns := ⟨a, b, 0⟩ :: s.owns } := by
  have s1 : Step s { s with owns := ⟨a, a, 1⟩ :: s.owns } := Step.start s a
  have s2 := Step.claimTop { s with owns := ⟨a, a, 1⟩ :: s.owns } [] s.owns ⟨a, a, 1⟩ b rfl rfl hab hfree
  have s3 := Step.finish { bits := setRange s.bits a b true, owns := [] ++ ⟨a, b, 1⟩ :: s.owns } [] s.owns ⟨a, b, 1⟩ rfl rfl
  exact Steps.tail (Steps.tail (Steps.tail (Steps.refl s) s1) s2) s3

/-- the sequential release of a completed claim is an execution of the model: freeStart, one chunk -/
theorem seq_free (s : St) (pre post : List Own) (a b : Nat) (hab : a < b) (h : s.owns = pre ++ ⟨a, b, 0⟩ :: post) :
    Steps s { bits := setRange s.bits a b false, owns := pre ++ post } := by
  have s1 := Step.freeStart s pre post ⟨a, b, 0⟩ h rfl
  have s2 := Step.freeChunk { s with owns := pre ++ ⟨a, b, 3⟩ :: post } pre post ⟨a, b, 3⟩ b rfl rfl hab (Nat.le_refl _)
  simp only [if_true, List.append_nil] at s2
  exact Steps.tail (Steps.tail (Steps.refl s) s1) s2

/-- address corollary: distinct block indices are distinct 32 MiB ranges inside the arena -/
theorem block_ranges_disjoint (start i j : Nat) (hij : i < j) : start + (i + 1) * 33554432 ≤ start + j * 33554432 := by
  have := Nat.mul_le_mul_right 33554432 (Nat.succ_le_of_lt hij); omega

-- non-vacuity: two claims in the empty bitmap are disjoint
example : Steps { bits := fun _ => false, owns := [] } { bits := setRange (fun _ => false) 3 9 true, owns := [⟨3, 9, 0⟩] } :=
  seq_claim _ 3 9 (by decide) (fun _ _ _ => rfl)

/-- **`mi_bitmap_mask_` as regenerated from the source**: the mask a claim of `count` bits at `bitidx` compares-and-swaps into a
    bitmap field has exactly the bits `[bitidx, bitidx + count)` — the range the claim models (`BitSeq.claim`, `BitmapC` owner runs)
    speak about (every non-empty claim that fits in a field) -/
theorem generated_bitmap_mask_is_the_bit_range (count bitidx j : Nat) (hc : 1 ≤ count) (hfit : bitidx + count ≤ 64) (hj : j < 64) :
    (Gen.mi_bitmap_mask_ count bitidx).testBit j = decide (bitidx ≤ j ∧ j < bitidx + count) :=
  BitmapMaskL.mask_bit count bitidx j hc hfit hj

/-- the claim test of the source, `(map & mask) == 0`, for two masks: claims of disjoint bit ranges never conflict and claims of
    overlapping ranges always do — a field value that contains an earlier claim's mask refuses every later overlapping claim -/
theorem generated_bitmap_masks_conflict_iff_ranges_overlap (c1 i1 c2 i2 : Nat) (h1 : 1 ≤ c1) (f1 : i1 + c1 ≤ 64) (h2 : 1 ≤ c2) (f2 : i2 + c2 ≤ 64) :
    Gen.mi_bitmap_mask_ c1 i1 &&& Gen.mi_bitmap_mask_ c2 i2 = 0 ↔ (i1 + c1 ≤ i2 ∨ i2 + c2 ≤ i1) := by
  constructor
  · intro h
    rcases Nat.lt_or_ge i2 (i1 + c1) with a | a
    · rcases Nat.lt_or_ge i1 (i2 + c2) with b | b
      · -- overlapping: the larger of the two starts is in both ranges
        have hj : max i1 i2 < 64 := by omega
        have t := congrArg (fun m => m.testBit (max i1 i2)) h
        simp only [Nat.testBit_and, Nat.zero_testBit] at t
        rw [BitmapMaskL.mask_bit c1 i1 _ h1 f1 hj, BitmapMaskL.mask_bit c2 i2 _ h2 f2 hj,
            decide_eq_true (by omega), decide_eq_true (by omega)] at t
        cases t
      · exact Or.inr b
    · exact Or.inl a
  · intro h
    apply Nat.eq_of_testBit_eq
    intro j
    rw [Nat.testBit_and, Nat.zero_testBit]
    rcases Nat.lt_or_ge j 64 with hj | hj
    · rw [BitmapMaskL.mask_bit c1 i1 j h1 f1 hj, BitmapMaskL.mask_bit c2 i2 j h2 f2 hj]
      by_cases a : i1 ≤ j ∧ j < i1 + c1
      · rw [decide_eq_true a, decide_eq_false (by omega)]; rfl
      · rw [decide_eq_false a]; rfl
    · have : (Gen.mi_bitmap_mask_ c1 i1).testBit j = false :=
        Nat.testBit_lt_two_pow (Nat.lt_of_lt_of_le (BitmapMaskL.mask_lt c1 i1) (Nat.pow_le_pow_right (by decide) hj))
      rw [this]; rfl

/-- bitmap indices as regenerated: `mi_bitmap_index_create field bit` is decomposed again by `mi_bitmap_index_field` /
    `mi_bitmap_index_bit_in_field` (bit < 64, no wrap-around), so the field a claim is released in is the field it was made in -/
theorem generated_bitmap_index_roundtrip (field bit : Nat) (hb : bit < 64) (hf : field * 64 + bit < 2^64) :
    Gen.mi_bitmap_index_field (GenL.mi_bitmap_index_create field bit) = field
    ∧ Gen.mi_bitmap_index_bit_in_field (GenL.mi_bitmap_index_create field bit) = bit := by
  have e64 : (2:Nat)^64 = 18446744073709551616 := by decide
  rw [e64] at hf
  unfold Gen.mi_bitmap_index_field Gen.mi_bitmap_index_bit_in_field GenL.mi_bitmap_index_create GenL.mi_bitmap_index_create_ex
  rw [Nat.mod_eq_of_lt (a := field * 64) (by omega), Nat.mod_eq_of_lt (by omega)]
  constructor <;> omega

-- non-vacuity: 3 bits at bit 5 = 0b11100000; claims [5,8) and [8,10) do not conflict, [5,8) and [7,9) do
example : Gen.mi_bitmap_mask_ 3 5 = 224 := by decide
example : Gen.mi_bitmap_mask_ 3 5 &&& Gen.mi_bitmap_mask_ 2 8 = 0 := by decide
example : Gen.mi_bitmap_mask_ 3 5 &&& Gen.mi_bitmap_mask_ 2 7 ≠ 0 := by decide

/-- **the number of arena blocks claimed for a request, as regenerated** (`mi_block_count_of_size`, `mi_arena_block_size`): the claimed
    blocks cover the requested size and waste less than one 32 MiB block — with `block_ranges_disjoint`, two successful claims are
    disjoint address ranges each large enough for its request (every size up to 2^63) -/
theorem generated_block_count_covers_the_request (size : Nat) (hs : size ≤ 2^63) :
    size ≤ Gen.mi_arena_block_size (Gen.mi_block_count_of_size size)
    ∧ Gen.mi_arena_block_size (Gen.mi_block_count_of_size size) < size + 33554432
    ∧ (0 < size → 0 < Gen.mi_block_count_of_size size) := by
  have e63 : (2:Nat)^63 = 9223372036854775808 := by decide
  have e64 : (2:Nat)^64 = 18446744073709551616 := by decide
  rw [e63] at hs
  unfold Gen.mi_arena_block_size Gen.mi_block_count_of_size
  rw [C16L.divide_up_eq size 33554432 (by decide) (by rw [e64]; omega)]
  have h1 := Nat.div_add_mod (size + 33554432 - 1) 33554432
  have h2 := Nat.mod_lt (size + 33554432 - 1) (by decide : 0 < 33554432)
  rw [Nat.mod_eq_of_lt (by omega)]
  refine ⟨by omega, by omega, fun h => ?_⟩
  exact Nat.div_pos (by omega) (by decide)

example : Gen.mi_block_count_of_size 73400320 = 3 ∧ Gen.mi_arena_block_size 3 = 100663296 := by decide

end C14
