/- C07 — operating-system refusals are survived without crash or corruption.
   Property theorems only.  Model: MiVerif/Model/Commit.lean.  The outcome of every OS request is an argument of the operations, so a
   statement for all arguments / all operation lists is a statement for every fault sequence (single, persistent, any pattern).
   What is proved: the bookkeeping (segment commit_mask, arena blocks_committed) never records memory whose commit did not succeed
   (anchor "must only record memory whose commit really succeeded"), a refused commit leaves the bookkeeping unchanged and is reported,
   and every page / arena range handed out as committed is accessible.  The range arithmetic is the regenerated
   `Gen.mi_segment_commit_mask` (liberal direction: Lemmas/C07Range.lean).
   The segment-level statements are proved twice: over the hand-written model (compared with the code step by step) and over
   `GenC.mi_segment_commit / _ensure_committed / _purge / _schedule_purge`, which are regenerated from src/segment.c on every run.
   Not modelled (covered by the fault enumeration on the real allocator only): the NULL propagation through segment / page / heap
   allocation, the retry after collect, thread metadata allocation, mmap / munmap refusals. -/
import MiVerif.Model.Commit
import MiVerif.Lemmas.C07Range
import MiVerif.Lemmas.C07Gen
import MiVerif.Lemmas.ArenaGenProofs
import MiVerif.Lemmas.MaskLoop
import MiVerif.Lemmas.CommittedSize

namespace C07
open CommitM

/-- a refused commit is reported and changes nothing; an accepted one may only add what the OS granted -/
theorem commit_refused (s : Seg) (D size : Nat) :
    ((segCommit s D size false).2 = false → (segCommit s D size false).1 = s) ∧
    (segCommit s D size false).1.commit = s.commit ∧ (segCommit s D size false).1.os = s.os := by
  unfold segCommit
  simp only []
  split
  · exact ⟨fun _ => rfl, rfl, rfl⟩
  · split
    · exact ⟨fun h => (by cases h), rfl, rfl⟩
    · simp

theorem commit_inv (s : Seg) (D size : Nat) (ok : Bool) (h : SInv s) : SInv (segCommit s D size ok).1 := by
  unfold segCommit
  simp only []
  split
  · exact h
  · split
    · exact h
    · cases ok
      · exact h
      · intro k hk
        simp only [if_true] at hk ⊢
        by_cases hr : (rangeOf s 0 D size).2.2.1 ≤ k ∧ k < (rangeOf s 0 D size).2.2.1 + (rangeOf s 0 D size).2.2.2
        · exact setR_in _ _ _ _ hr.1 hr.2
        · rw [setR_out _ _ _ _ hr] at hk ⊢; exact h k hk

theorem purge_inv (s : Seg) (D size : Nat) (nr og : Bool) (hon : og = true → nr = true) (h : SInv s) : SInv (segPurge s D size nr og) := by
  unfold segPurge
  simp only []
  split
  · exact h
  · split
    · intro k hk
      simp only [] at hk ⊢
      cases og
      · simp only [Bool.false_eq_true, if_false]
        cases nr
        · exact h k hk
        · exact h k (clrR_true _ _ _ _ hk)
      · rw [hon rfl] at hk
        simp only [if_true] at hk ⊢
        by_cases hr : (rangeOf s 1 D size).2.2.1 ≤ k ∧ k < (rangeOf s 1 D size).2.2.1 + (rangeOf s 1 D size).2.2.2
        · rw [clrR_in _ _ _ _ hr.1 hr.2] at hk; cases hk
        · rw [clrR_out _ _ _ _ hr] at hk ⊢; exact h k hk
    · exact h

theorem alloc_inv (s : Seg) (D size : Nat) (ok : Bool) (h : SInv s) : SInv (segAlloc s D size ok).1 := by
  unfold segAlloc
  split
  · exact h
  · simp only []
    split <;> exact commit_inv s D size ok h

/-- **every fault sequence**: whatever the OS answers to each request (`osOk`, `needsRecommit`, `osGone` are arbitrary in every step,
    constrained only by `honest`), the commit mask never records a unit that is not accessible -/
theorem seg_reachable_inv (ops : List SOp) (s : Seg) (hon : ∀ op ∈ ops, op.honest) (h : SInv s) : SInv (ops.foldl sStep s) := by
  induction ops generalizing s with
  | nil => exact h
  | cons op ops ih =>
    simp only [List.foldl_cons]
    apply ih
    · intro o ho; exact hon o (List.mem_cons_of_mem _ ho)
    · have hop := hon op List.mem_cons_self
      cases op with
      | commit D size ok => exact commit_inv s D size ok h
      | purge D size nr og => exact purge_inv s D size nr og hop h
      | alloc D size ok => exact alloc_inv s D size ok h
      | sched D size =>
        show SInv (segSchedule s D size)
        unfold segSchedule
        simp only []
        split <;> exact h

/-- **memory handed out is accessible**: when mi_segment_span_allocate hands out the range [D, D+size) of a normal segment — after any
    history and with any answer of the OS to this commit request — every byte of it lies in an accessible commit unit -/
theorem alloc_accessible (s : Seg) (D size : Nat) (ok : Bool) (h : SInv s)
    (hseg : s.base + 33554432 < 2^64) (hin : D + size ≤ s.slices * 65536) (hs : s.slices ≤ 512) (hinfo : s.info ≤ 512) (hsz : 0 < size)
    (hres : (segAlloc s D size ok).2 = some (D, size)) :
    ∀ x, D ≤ x → x < D + size → (segAlloc s D size ok).1.os (x / 65536) = true := by
  intro x hx1 hx2
  have hxs : x / 65536 < 512 := by omega
  unfold segAlloc at hres ⊢
  split at hres
  · rename_i hf
    rw [if_pos hf]
    have hfull : isFull s.commit = true := by
      cases h1 : isFull s.commit
      · rw [h1] at hf; simp at hf
      · rfl
    exact h _ ((allSet_iff _ _ _).1 hfull _ (Nat.zero_le _) (by omega))
  · rename_i hf
    rw [if_neg hf]
    simp only [] at hres ⊢
    split at hres
    · rename_i hok
      rw [if_pos hok]
      obtain ⟨st, en, h1, h2, h3, h4, h5, h6, heq⟩ := C07L.commit_range_covers s.info s.slices s.base D size 0 0 0 hseg hin hs hinfo hsz
      have hi : st / 65536 ≤ x / 65536 := Nat.div_le_div_right (by omega)
      have hn : x / 65536 < st / 65536 + (en - st) / 65536 := by omega
      have hnz : ¬ ((en - st) / 65536 = 0 ∨ en - st = 0) := by omega
      unfold segCommit at hok ⊢
      simp only [rangeOf, heq, if_neg hnz] at hok ⊢
      split
      · rename_i hall
        exact h _ ((allSet_iff _ _ _).1 hall _ hi hn)
      · rename_i hall
        rw [if_neg hall] at hok
        cases ok
        · simp at hok
        · simp only [if_true]
          exact setR_in _ _ _ _ hi hn
    · cases hres

/-! ### the same statements over the functions *generated from src/segment.c* (Gen/Commit.lean, extract/masktr.py): a change of the
    source changes these definitions and the proofs are re-checked against what the code says now -/
open GenC C07G in
/-- generated `mi_segment_commit`: the commit mask never records a unit the OS did not grant, whatever the OS answers -/
theorem generated_commit_keeps_invariant (σ : SegSt) (D size : Nat) (ok : Bool) (now d : Int) (g : Geo σ D size) (h : SInvG σ) :
    SInvG (GenC.mi_segment_commit σ ((σ.base + D : Nat) : Int) (size : Int) ok now d).1 := gen_commit_inv σ D size ok now d g h

open GenC C07G in
/-- generated `mi_segment_commit`: a refused commit is reported (`false`) and leaves commit mask and accessibility as they were -/
theorem generated_commit_refused (σ : SegSt) (p size : Int) (now d : Int) :
    ((GenC.mi_segment_commit σ p size false now d).2 = false → (GenC.mi_segment_commit σ p size false now d).1 = σ) ∧
    (GenC.mi_segment_commit σ p size false now d).1.commit = σ.commit ∧ (GenC.mi_segment_commit σ p size false now d).1.os = σ.os :=
  gen_commit_refused σ p size now d

open GenC C07G in
theorem generated_purge_keeps_invariant (σ : SegSt) (D size : Nat) (nr og : Bool) (hon : og = true → nr = true) (g : Geo σ D size) (h : SInvG σ) :
    SInvG (GenC.mi_segment_purge σ ((σ.base + D : Nat) : Int) (size : Int) nr og).1 := gen_purge_inv σ D size nr og hon g h

open GenC C07G in
theorem generated_schedule_purge_keeps_invariant (σ : SegSt) (D size : Nat) (delay : Int) (nr og : Bool) (now ext : Int) (tp : SegSt → SegSt)
    (hon : og = true → nr = true) (htp : ∀ τ, SInvG τ → SInvG (tp τ)) (g : Geo σ D size) (h : SInvG σ) :
    SInvG (GenC.mi_segment_schedule_purge σ ((σ.base + D : Nat) : Int) (size : Int) delay nr og now ext tp) :=
  gen_schedule_inv σ D size delay nr og now ext tp hon htp g h

open GenC C07G in
/-- generated `mi_segment_ensure_committed` (what mi_segment_span_allocate calls before it hands out a page): if it answers `true`, every
    byte of the block range lies in an accessible commit unit — after any history and with any answer of the OS -/
theorem generated_ensure_committed_accessible (σ : SegSt) (D size : Nat) (ok : Bool) (now d : Int) (h : SInvG σ)
    (hseg : σ.base + 33554432 < 2^64) (hin : D + size ≤ σ.slices * 65536) (hs : σ.slices ≤ 512) (hinfo : σ.info ≤ 512) (hsz : 0 < size)
    (hres : (GenC.mi_segment_ensure_committed σ ((σ.base + D : Nat) : Int) (size : Int) ok now d).2 = true) :
    ∀ x, D ≤ x → x < D + size → (GenC.mi_segment_ensure_committed σ ((σ.base + D : Nat) : Int) (size : Int) ok now d).1.os (x / 65536) = true :=
  gen_ensure_accessible σ D size ok now d h hseg hin hs hinfo hsz hres

/-! ### arena -/
theorem aAlloc_inv (a : Arena) (i n : Nat) (commit ok : Bool) (h : AInv a) : AInv (aAlloc a i n commit ok).1 := by
  have key : ∀ (c : Mask) (o : Mask), (∀ k, ¬ (i ≤ k ∧ k < i + n) → c k = true → a.committed k = true) → (∀ k, a.os k = true → o k = true) →
      AInv { inuse := setR a.inuse i n, committed := c, purge := clrR a.purge i n, os := o } := by
    intro c o hc ho k hk1 hk2
    simp only [] at hk1 hk2 ⊢
    by_cases hr : i ≤ k ∧ k < i + n
    · rw [setR_in _ _ _ _ hr.1 hr.2] at hk1; cases hk1
    · rw [setR_out _ _ _ _ hr] at hk1
      exact ho k (h k hk1 (hc k hr hk2))
  unfold aAlloc
  simp only []
  cases commit
  · simp only [Bool.false_eq_true, if_false]
    split
    · exact key _ _ (fun k _ hk => hk) (fun k hk => hk)
    · exact key _ _ (fun k hr hk => by rw [clrR_out _ _ _ _ hr] at hk; exact hk) (fun k hk => hk)
  · simp only [if_true]
    split
    · exact key _ _ (fun k _ hk => hk) (fun k hk => hk)
    · cases ok
      · exact key _ _ (fun k hr hk => by rw [clrR_out _ _ _ _ hr] at hk; exact hk) (fun k hk => hk)
      · exact key _ _ (fun k hr hk => by rw [setR_out _ _ _ _ hr] at hk; exact hk) (fun k hk => setR_of _ _ _ _ hk)

/-- a range handed out as `initially_committed` is accessible — with any answer of the OS to the commit request -/
theorem aAlloc_accessible (a : Arena) (i n : Nat) (commit ok : Bool) (h : AInv a) (hfree : ∀ k, i ≤ k → k < i + n → a.inuse k = false)
    (hres : (aAlloc a i n commit ok).2 = true) : ∀ k, i ≤ k → k < i + n → (aAlloc a i n commit ok).1.os k = true := by
  intro k h1 h2
  unfold aAlloc at hres ⊢
  simp only [] at hres ⊢
  cases commit
  · simp only [Bool.false_eq_true, if_false] at hres ⊢
    split at hres
    · rename_i hall
      rw [if_pos hall]
      exact h k (hfree k h1 h2) ((allSet_iff _ _ _).1 hall k h1 h2)
    · cases hres
  · simp only [if_true] at hres ⊢
    split at hres
    · rename_i hall
      rw [if_pos hall]
      exact h k (hfree k h1 h2) ((allSet_iff _ _ _).1 hall k h1 h2)
    · rename_i hall
      rw [if_neg hall]
      cases ok
      · simp at hres
      · simp only [if_true]; exact setR_in _ _ _ _ h1 h2

/-! the arena statements over the functions *generated from src/arena.c* (Gen/ArenaGen.lean, extract/arenatr.py) -/
open GenR C07A in
/-- generated `mi_arena_try_alloc_at`: free blocks recorded as committed stay accessible, whatever the claim and the OS answer -/
theorem generated_arena_alloc_keeps_invariant (σ : ArSt) (n : Int) (commit claimed : Bool) (idx : Int) (ok cz : Bool) (h : AInvG σ) :
    AInvG (GenR.mi_arena_try_alloc_at σ n commit claimed idx ok cz).1 := gen_alloc_inv σ n commit claimed idx ok cz h

open GenR C07A in
/-- generated `mi_arena_try_alloc_at`: a range handed out with `initially_committed` is accessible in every block -/
theorem generated_arena_alloc_accessible (σ : ArSt) (n : Int) (commit : Bool) (idx : Int) (ok cz : Bool) (h : AInvG σ)
    (hi : 0 ≤ idx) (hn : 0 ≤ n) (hc : σ.hasCommitted = true) (hfree : ∀ k, inRange idx n k = true → σ.inuse k = false)
    (b : Int) (m : MemId) (hres : (GenR.mi_arena_try_alloc_at σ n commit true idx ok cz).2 = some (b, m)) (hm : m.initially_committed = true) :
    ∀ k, inRange idx n k = true → (GenR.mi_arena_try_alloc_at σ n commit true idx ok cz).1.os k = true :=
  gen_alloc_accessible σ n commit idx ok cz h hi hn hc hfree b m hres hm

open GenR C07A in
/-- generated `mi_arena_try_alloc_at`: a refused commit is recorded — the memid says "not committed" and no block of the range stays
    recorded as committed (the repair 31fc4dc) -/
theorem generated_arena_refused_commit_recorded (σ : ArSt) (n : Int) (idx : Int) (cz : Bool) (hc : σ.hasCommitted = true)
    (hany : bmAnyZero σ.committed idx n = true) (b : Int) (m : MemId)
    (hres : (GenR.mi_arena_try_alloc_at σ n true true idx false cz).2 = some (b, m)) :
    m.initially_committed = false ∧ ∀ k, inRange idx n k = true → (GenR.mi_arena_try_alloc_at σ n true true idx false cz).1.committed k = false :=
  gen_alloc_refused σ n idx cz hc hany b m hres

open GenR C07A in
/-- generated `mi_arena_purge` and `mi_arena_schedule_purge` keep the invariant (honest OS layer) -/
theorem generated_arena_purge_keeps_invariant (σ : ArSt) (idx n : Int) (nr1 g1 nr2 g2 : Bool) (hon1 : g1 = true → nr1 = true)
    (hon2 : g2 = true → nr2 = true) (h : AInvG σ) : AInvG (GenR.mi_arena_purge σ idx n nr1 g1 nr2 g2) :=
  gen_purge_inv σ idx n nr1 g1 nr2 g2 hon1 hon2 h

open GenR C07A in
theorem generated_arena_schedule_purge_keeps_invariant (σ : ArSt) (idx n delay : Int) (pre nr1 g1 nr2 g2 : Bool) (now : Int)
    (hon1 : g1 = true → nr1 = true) (hon2 : g2 = true → nr2 = true) (h : AInvG σ) :
    AInvG (GenR.mi_arena_schedule_purge σ idx n delay pre nr1 g1 nr2 g2 now) :=
  gen_schedule_inv σ idx n delay pre nr1 g1 nr2 g2 now hon1 hon2 h

open GenR C07A in
/-- generated core of `_mi_arena_free` (commit-state test, schedule-purge, release of the in-use bits): keeps the invariant provided the
    caller reports `all_committed` only for an accessible range; a partly committed range is recorded as uncommitted before it is released -/
theorem generated_arena_free_keeps_invariant (σ : ArSt) (allc : Bool) (idx n delay : Int) (pre nr1 g1 nr2 g2 : Bool) (now : Int)
    (hon1 : g1 = true → nr1 = true) (hon2 : g2 = true → nr2 = true) (hc : σ.hasCommitted = true) (hp : σ.pinned = false)
    (h : AInvG σ) (hall : allc = true → ∀ k, inRange idx n k = true → σ.os k = true) :
    AInvG (GenR._mi_arena_free_core σ allc idx n delay pre nr1 g1 nr2 g2 now) :=
  gen_free_core_inv σ allc idx n delay pre nr1 g1 nr2 g2 now hon1 hon2 hc hp h hall

/-- a refused arena commit is recorded: the range is not handed out as committed -/
theorem aAlloc_refused (a : Arena) (i n : Nat) (hnot : allSet a.committed i n = false) : (aAlloc a i n true false).2 = false := by
  unfold aAlloc
  simp [hnot]

theorem aAlloc_refused_unrecorded (a : Arena) (i n : Nat) (hnot : allSet a.committed i n = false) :
    ∀ k, i ≤ k → k < i + n → (aAlloc a i n true false).1.committed k = false := by
  intro k h1 h2
  unfold aAlloc
  simp [hnot, clrR, h1, h2]

theorem aPurge_inv (a : Arena) (i n : Nat) (nr og : Bool) (hon : og = true → nr = true) (h : AInv a) : AInv (aPurge a i n nr og) := by
  intro k hk1 hk2
  unfold aPurge at hk1 hk2 ⊢
  simp only [] at hk1 hk2 ⊢
  cases og
  · simp only [Bool.false_eq_true, if_false]
    cases nr
    · exact h k hk1 hk2
    · exact h k hk1 (clrR_true _ _ _ _ hk2)
  · rw [hon rfl] at hk2
    simp only [if_true] at hk2 ⊢
    by_cases hr : i ≤ k ∧ k < i + n
    · rw [clrR_in _ _ _ _ hr.1 hr.2] at hk2; cases hk2
    · rw [clrR_out _ _ _ _ hr] at hk2 ⊢; exact h k hk1 hk2

/-- freeing keeps the invariant provided the caller passes `allCommitted` only for a range that really is accessible (for a segment:
    its commit mask is full, which by `seg_reachable_inv` implies accessibility); otherwise the range is recorded as uncommitted -/
theorem aFree_inv (a : Arena) (i n : Nat) (allc : Bool) (mode : Nat) (nr og : Bool) (hon : og = true → nr = true) (h : AInv a)
    (hall : allc = true → ∀ k, i ≤ k → k < i + n → a.os k = true) : AInv (aFree a i n allc mode nr og) := by
  unfold aFree
  simp only []
  -- after the `all_committed` test the committed bits are sound for the range itself as well, in use or not
  have h1 : ∀ k, (a.inuse k = false ∨ (i ≤ k ∧ k < i + n)) → (aMark a i n allc).committed k = true → (aMark a i n allc).os k = true := by
    intro k hk hc
    unfold aMark at hc ⊢
    cases allc
    · simp only [Bool.false_eq_true, if_false] at hc ⊢
      by_cases hr : i ≤ k ∧ k < i + n
      · rw [clrR_in _ _ _ _ hr.1 hr.2] at hc; cases hc
      · rw [clrR_out _ _ _ _ hr] at hc
        rcases hk with hk | hk
        · exact h k hk hc
        · exact absurd hk hr
    · simp only [if_true] at hc ⊢
      rcases hk with hk | hk
      · exact h k hk hc
      · exact hall rfl k hk.1 hk.2
  have hinu : (aMark a i n allc).inuse = a.inuse := by unfold aMark; cases allc <;> rfl
  rw [← hinu] at h1
  generalize aMark a i n allc = b at h1 ⊢
  -- scheduling / purging keeps that
  have h2 : ∀ k, ((aSched b i n mode nr og).inuse k = false ∨ (i ≤ k ∧ k < i + n)) → (aSched b i n mode nr og).committed k = true → (aSched b i n mode nr og).os k = true := by
    intro k hk hc
    unfold aSched at hk hc ⊢
    by_cases hm0 : mode = 0
    · simp only [hm0, if_true] at hk hc ⊢; exact h1 k hk hc
    · by_cases hm1 : mode = 1
      · simp only [hm1, if_neg (by decide : ¬ ((1:Nat) = 0)), if_true, aPurge] at hk hc ⊢
        cases og
        · simp only [Bool.false_eq_true, if_false]
          cases nr
          · exact h1 k hk hc
          · exact h1 k hk (clrR_true _ _ _ _ hc)
        · rw [hon rfl] at hc
          simp only [if_true] at hc ⊢
          by_cases hr : i ≤ k ∧ k < i + n
          · rw [clrR_in _ _ _ _ hr.1 hr.2] at hc; cases hc
          · rw [clrR_out _ _ _ _ hr] at hc ⊢; exact h1 k hk hc
      · simp only [if_neg hm0, if_neg hm1] at hk hc ⊢; exact h1 k hk hc
  generalize aSched b i n mode nr og = c at h2 ⊢
  intro k hk1 hk2
  simp only [] at hk1 hk2 ⊢
  by_cases hr : i ≤ k ∧ k < i + n
  · exact h2 k (Or.inr hr) hk2
  · rw [clrR_out _ _ _ _ hr] at hk1
    exact h2 k (Or.inl hk1) hk2

/-- **every fault sequence, arena level**: over every list of allocations, frees and purges with arbitrary answers of the OS, free
    blocks recorded as committed stay accessible -/
theorem arena_reachable_inv (ops : List AOp) (a : Arena) (hok : AOk a ops) (h : AInv a) : AInv (ops.foldl aStep a) := by
  induction ops generalizing a with
  | nil => exact h
  | cons op ops ih =>
    simp only [List.foldl_cons]
    obtain ⟨h1, h2⟩ := hok
    apply ih _ h2
    cases op with
    | alloc i n c ok => exact aAlloc_inv a i n c ok h
    | free i n allc mode nr og => exact aFree_inv a i n allc mode nr og h1.1 h h1.2
    | purge i n nr og => exact aPurge_inv a i n nr og h1 h

/-- the link between the two levels: a segment whose commit mask is full (the only case in which it reports `committed_size == size`
    when it is freed) is, by the segment invariant, accessible in every unit — the obligation `allCommitted → accessible` of `AOp.ok` -/
theorem full_mask_means_accessible (s : Seg) (h : SInv s) (hf : isFull s.commit = true) : ∀ k, k < 512 → s.os k = true :=
  fun k hk => h k ((allSet_iff _ _ _).1 hf k (Nat.zero_le _) (by omega))

-- non-vacuity: a lazily committed segment (info slice committed); a refused commit of the second slice leaves it unrecorded and the span is not handed out;
-- the retry with the OS granting succeeds and the unit is recorded and accessible
def seg0 : Seg := { commit := fun k => k == 0, purge := fun _ => false, os := fun k => k == 0, info := 1, slices := 512, base := 0x20000000000 }
example : SInv seg0 := by intro k hk; exact hk
example : (segAlloc seg0 65536 65536 false).2 = none ∧ (segAlloc seg0 65536 65536 false).1.commit 1 = false := by decide +kernel
example : (segAlloc seg0 65536 65536 true).2 = some (65536, 65536) ∧ (segAlloc seg0 65536 65536 true).1.commit 1 = true ∧ (segAlloc seg0 65536 65536 true).1.os 1 = true := by decide +kernel

/-- **the commit mask built by the generated `mi_commit_mask_create` is the bit range** (src/segment.c, a `while` loop over the 64-bit
    fields regenerated as `whileN`; `Gen/CommitPrelude.lean` interprets the mask a commit / purge request works on as `mRange i n`, and
    this is what justifies it): for `0 < bitcount < 512`, `bitidx + bitcount ≤ 512` the function empties the mask and then stores field
    values whose bits — a later store wins, an untouched field stays empty — are exactly the units `[bitidx, bitidx + bitcount)` -/
theorem generated_commit_mask_create_is_the_bit_range {α : Type} (full empty cm_in : α) (bitidx bitcount cm : Nat)
    (h1 : 0 < bitcount) (h2 : bitcount < 512) (h3 : bitidx + bitcount ≤ 512) (hcm : cm + 64 < 2^64) :
    ∃ l : List (Nat × Nat),
      GenL.mi_commit_mask_create full empty cm_in bitidx bitcount cm = (empty, l.map (MaskL.toStore cm)) ∧
      ∀ k, MaskL.bitAfter l k = GenC.mRange bitidx bitcount k := by
  have h := MaskL.create_bits full empty cm_in bitidx bitcount cm h1 h2 h3
    (by have : (2:Nat)^64 = 18446744073709551616 := by decide
        show cm + 64 < 18446744073709551616; omega)
  exact ⟨_, h.1, fun k => by rw [h.2 k]; rfl⟩

/-- the two remaining cases: all 512 units → the full mask, no unit → the empty mask (no store at all) -/
theorem generated_commit_mask_create_full_and_empty {α : Type} (full empty cm_in : α) (bitidx cm : Nat) :
    GenL.mi_commit_mask_create full empty cm_in bitidx 512 cm = (full, []) ∧
    GenL.mi_commit_mask_create full empty cm_in bitidx 0 cm = (empty, []) :=
  ⟨MaskL.create_full full empty cm_in bitidx cm, MaskL.create_empty full empty cm_in bitidx cm⟩

-- non-vacuity: 70 units from unit 60 on: field 0 gets its four top bits, field 1 all 64 bits, field 2 its two low bits
example : GenL.mi_commit_mask_create (1 : Nat) 0 2 60 70 4096 =
    (0, [("store64", [4096, 17293822569102704640]), ("store64", [4104, 18446744073709551615]), ("store64", [4112, 3])]) := by decide

/-- **the regenerated `_mi_commit_mask_committed_size` reports the whole size exactly for a full mask** (src/segment.c: a `for` loop over
    the eight fields with a bit-counting `for` loop inside, regenerated as nested `whileN`; `ld64` is the memory the mask is read from).
    `mi_segment_os_free` passes this value to `_mi_arena_free`, which treats the memory as completely committed — hence accessible —
    only when it equals the size (`full_mask_means_accessible` above is the model-side half of that argument) -/
theorem generated_committed_size_is_total_iff_mask_full (ld64 : Nat → Nat) (cm total : Nat)
    (hw : ∀ i, i < 8 → ld64 (CSizeL.fieldAddr cm i) < 2^64) (hdiv : total % 512 = 0) (hpos : 0 < total) (hlt : total < 2^64) :
    GenL._mi_commit_mask_committed_size ld64 cm total = total ↔ ∀ i, i < 8 → ld64 (CSizeL.fieldAddr cm i) = 18446744073709551615 := by
  have e : (2:Nat)^64 = CSizeL.M := by decide
  rw [e] at hw hlt
  exact ⟨fun h => CSizeL.total_only_if_full ld64 cm total hw hdiv hpos hlt h,
         fun h => CSizeL.full_reports_total ld64 cm total h hdiv hlt⟩

/-- in general it is `(total / 512) ·` the number of set bits (a full field counted as 64 without looking at its bits) -/
theorem generated_committed_size_value (ld64 : Nat → Nat) (cm total : Nat) (hw : ∀ i, i < 8 → ld64 (CSizeL.fieldAddr cm i) < 2^64) :
    GenL._mi_commit_mask_committed_size ld64 cm total = ((total / 512) * CSizeL.sumFrom (CSizeL.contrib ld64 cm) 0 8) % 2^64 := by
  have e : (2:Nat)^64 = CSizeL.M := by decide
  rw [e] at hw ⊢
  exact CSizeL.committed_size_eq ld64 cm total hw

-- non-vacuity of `generated_committed_size_is_total_iff_mask_full`: a full mask reports the 32 MiB, one cleared bit 64 KiB less
example : GenL._mi_commit_mask_committed_size (fun _ => 18446744073709551615) 4096 33554432 = 33554432 := by decide
example : GenL._mi_commit_mask_committed_size (fun a => if a = 4096 then 18446744073709551614 else 18446744073709551615) 4096 33554432 = 33488896 := by
  decide +kernel

end C07
