// Translator validation (tie T1): calls the compiled functions of the current tree and prints
// "<fn> <args> -> <results>" lines; the Lean driver evaluates the generated definitions on the same
// arguments and compares.  usage: trval <seed> <nrandom> <exhaustive 0|1>
#include VERIF_STATIC_C
#include <stdio.h>
#include <stdlib.h>
static uint64_t rs = 88172645463325252ULL;
static uint64_t rnd(void) { rs ^= rs << 13; rs ^= rs >> 7; rs ^= rs << 17; return rs; }
static const size_t B[] = {0,1,2,3,7,8,9,15,16,17,63,64,65,127,128,129,1023,1024,1025,4095,4096,4097,8191,8192,8193,
  65535,65536,65537,131071,131072,(size_t)1<<20,((size_t)1<<25)-1,(size_t)1<<25,((size_t)1<<25)+1,(size_t)1<<32,((size_t)1<<32)-1,
  ((size_t)1<<47),((size_t)1<<48)-(1<<17),((size_t)1<<48)-(1<<17)+1,PTRDIFF_MAX-1,PTRDIFF_MAX,(size_t)PTRDIFF_MAX+1,(size_t)PTRDIFF_MAX+2,
  SIZE_MAX-65536,SIZE_MAX-4096,SIZE_MAX-16,SIZE_MAX-8,SIZE_MAX-7,SIZE_MAX-1,SIZE_MAX};
#define NB (sizeof(B)/sizeof(B[0]))
static size_t pick(void) {
  uint64_t r = rnd();
  switch (r % 5) {
    case 0: return B[(r >> 8) % NB];
    case 1: return (r >> 8) % 200000;
    case 2: return (size_t)1 << ((r >> 8) % 64);
    case 3: return ((size_t)1 << ((r >> 8) % 64)) + (size_t)((int)((r >> 20) % 5) - 2);
    default: return rnd() >> ((r >> 8) % 64);
  }
}
static void one_size(size_t a) {
  printf("wsize %zu -> %zu\n", a, _mi_wsize_from_size(a));
  printf("bin %zu -> %zu\n", a, (size_t)mi_bin(a));
  printf("good %zu -> %zu\n", a, mi_good_size(a));
  printf("goodalloc %zu -> %zu\n", a, _mi_os_good_alloc_size(a));
  printf("ptrseg %zu -> %zu\n", a, (size_t)_mi_ptr_segment((void*)a));
  printf("pow2 %zu -> %d\n", a, (int)_mi_is_power_of_two(a));
  printf("bcount %zu -> %zu\n", a, mi_block_count_of_size(a));
  printf("absize %zu -> %zu\n", a, mi_arena_block_size(a));
}
int main(int argc, char** argv) {
  uint64_t seed = argc > 1 ? strtoull(argv[1], 0, 10) : 1;
  long nrand = argc > 2 ? atol(argv[2]) : 2000;
  int exhaustive = argc > 3 ? atoi(argv[3]) : 1;
  rs ^= seed * 0x9E3779B97F4A7C15ULL; if (rs == 0) rs = 1;
  printf("ospagesize %zu\n", _mi_os_page_size());
  mi_segment_t* seg = (mi_segment_t*)aligned_alloc(MI_SEGMENT_SIZE, MI_SEGMENT_SIZE);
  if (exhaustive) {
    // whole word-size table and a margin: every size 0 .. 2*MEDIUM_MAX+64
    for (size_t a = 0; a <= 2 * MI_MEDIUM_OBJ_SIZE_MAX + 64; a++) { printf("bin %zu -> %zu\n", a, (size_t)mi_bin(a)); printf("good %zu -> %zu\n", a, mi_good_size(a)); }
    for (size_t b = 0; b <= MI_BIN_FULL; b++) printf("binsize %zu -> %zu\n", b, _mi_bin_size((uint8_t)b));
    for (size_t c = 0; c <= 2 * MI_SLICES_PER_SEGMENT; c++) printf("slicebin %zu -> %zu\n", c, mi_slice_bin(c));
    for (size_t c = 0; c <= 64; c++) for (size_t i = 0; i + c <= 64 && i < 64; i++) printf("mask %zu %zu -> %zu\n", c, i, mi_bitmap_mask_(c, i));
    for (size_t d = 1; d <= 70000; d += (d < 4200 ? 1 : 97)) { uint64_t m; size_t s; mi_get_fast_divisor(d, &m, &s); printf("fastdiv %zu -> %zu %zu\n", d, (size_t)m, s); }
  }
  for (size_t i = 0; i < NB; i++) { one_size(B[i]); for (size_t j = 0; j < NB; j++) {
      size_t t = 12345; bool o = mi_count_size_overflow(B[i], B[j], &t); printf("cso %zu %zu -> %d %zu\n", B[i], B[j], (int)o, t);
      printf("alignup %zu %zu -> %zu\n", B[i], B[j], B[j] == 0 ? 0 : _mi_align_up(B[i], B[j]));
      printf("aligndown %zu %zu -> %zu\n", B[i], B[j], B[j] == 0 ? 0 : _mi_align_down(B[i], B[j]));
      printf("divup %zu %zu -> %zu\n", B[i], B[j], _mi_divide_up(B[i], B[j]));
      printf("natal %zu %zu -> %d\n", B[i], B[j], (int)mi_malloc_is_naturally_aligned(B[i], B[j]));
  } }
  for (long i = 0; i < nrand; i++) {
    size_t a = pick(), b = pick(), c = pick(), d = pick();
    one_size(a);
    { size_t info = 0; size_t r = mi_segment_calculate_slices(a, &info); printf("calc %zu -> %zu %zu\n", a, r, info); }
    { size_t idx = a % 512; size_t sc = 1 + (b % 512); seg->slices[idx].slice_count = (uint32_t)sc; size_t bs = (i & 1) ? c : _mi_bin_size((uint8_t)(1 + c % 72)); size_t ps = 0;
      uint8_t* r = _mi_segment_page_start_from_slice(seg, &seg->slices[idx], bs, &ps);
      printf("pstart %zu %zu %zu %zu -> %zu %zu\n", sc, (size_t)seg, (size_t)&seg->slices[idx], bs, (size_t)r, ps); }
    { mi_page_t pg; memset(&pg, 0, sizeof(pg)); size_t bsz = (i & 1) ? (b % 70000) + 8 : _mi_bin_size((uint8_t)(1 + b % 72)); pg.block_size = bsz;
      pg.block_size_shift = (_mi_is_power_of_two(bsz) ? (uint8_t)mi_ctz(bsz) : 0); pg.page_start = (uint8_t*)((size_t)seg + 65536 + (c % 1000) * 8);
      uint8_t* p = pg.page_start + (d % 1000000);
      printf("unalign %zu %zu %zu %zu %zu -> %zu\n", (size_t)pg.page_start, (size_t)pg.block_size_shift, bsz, (size_t)&pg, (size_t)p, (size_t)_mi_page_ptr_unalign(&pg, p)); }
    { size_t dv = (a % ((size_t)1 << 32)); if (dv > 0) { uint64_t m; size_t s; mi_get_fast_divisor(dv, &m, &s); printf("fastdiv %zu -> %zu %zu\n", dv, (size_t)m, s);
        size_t n = b % ((size_t)1 << 32); printf("fdiv %zu %zu %zu -> %zu\n", n, (size_t)m, s, mi_fast_divide(n, m, s)); } }
    { uintptr_t keys[2] = {a, b}; void* nul = (void*)c; void* p = (void*)d; mi_encoded_t e = mi_ptr_encode(nul, p, keys);
      printf("enc %zu %zu %zu %zu -> %zu\n", b, a, c, d, (size_t)e); printf("dec %zu %zu %zu %zu -> %zu\n", a, b, c, (size_t)e, (size_t)mi_ptr_decode(nul, e, keys));
      printf("dec %zu %zu %zu %zu -> %zu\n", a, b, c, d, (size_t)mi_ptr_decode(nul, d, keys));
      printf("canary %zu %zu %zu %zu -> %zu\n", b, a, c, d, (size_t)mi_ptr_encode_canary(nul, p, keys));
      printf("rotl %zu %zu -> %zu\n", a, b, (size_t)mi_rotl(a, b)); printf("rotr %zu %zu -> %zu\n", a, b, (size_t)mi_rotr(a, b)); }
    { size_t t = 12345; bool o = mi_count_size_overflow(a, b, &t); printf("cso %zu %zu -> %d %zu\n", a, b, (int)o, t); }
    { size_t ns = 0; void* r = mi_os_page_align_areax((a & 1) != 0, (void*)b, c, &ns); printf("area %zu %zu %zu -> %zu %zu\n", a & 1, b, c, (size_t)r, ns); }
    if (b != 0) { printf("alignup %zu %zu -> %zu\n", a, b, _mi_align_up(a, b)); printf("aligndown %zu %zu -> %zu\n", a, b, _mi_align_down(a, b)); }
    printf("divup %zu %zu -> %zu\n", a, b, _mi_divide_up(a, b));
    printf("clamp %zu %zu %zu -> %zu\n", a, b, c, _mi_clamp(a, b, c));
    printf("natal %zu %zu -> %d\n", a, b, (int)mi_malloc_is_naturally_aligned(a, b));
    printf("slicebin %zu -> %zu\n", a % 100000, mi_slice_bin(a % 100000));
    if (a != 0) { printf("bsr %zu -> %zu\n", a, mi_bsr(a)); printf("ctz %zu -> %zu\n", a, mi_ctz(a)); printf("clz %zu -> %zu\n", a, mi_clz(a)); }
    { // commit mask: (info slices, offset D, size, conservative) on a normal segment of 512 slices
      memset(seg, 0, sizeof(mi_segment_t)); seg->segment_slices = 512; seg->segment_info_slices = 1 + (a % 3); seg->kind = (i % 17 == 0 ? MI_SEGMENT_HUGE : MI_SEGMENT_NORMAL);
      size_t D = (b % 4 == 0 ? (b >> 8) % (512 * 65536) : seg->segment_info_slices * 65536 + ((b >> 8) % (500 * 65536)));
      size_t sz = (c % 3 == 0 ? c % 70000 : c % (512 * 65536 - D + 1)); if (D + sz > 512 * 65536) sz = 512 * 65536 - D;
      uint8_t* sp = NULL; size_t fs = 0; mi_commit_mask_t cm; int cons = (int)(d & 1);
      mi_segment_commit_mask(seg, cons != 0, (uint8_t*)seg + D, sz, &sp, &fs, &cm);
      size_t first = 0, cnt = 0, any = 0; for (size_t k = 0; k < MI_COMMIT_MASK_BITS; k++) { if (cm.mask[k / 64] & ((size_t)1 << (k % 64))) { if (!any) { first = k; any = 1; } cnt++; } }
      printf("cmask %zu %zu %zu %zu %zu %d -> %zu %zu %zu %zu\n", (size_t)seg->kind, (size_t)seg->segment_info_slices, (size_t)seg, D, sz, cons, (size_t)sp, fs, any ? first : 0, cnt); }
  }
  return 0;
}
