/- C03 — size and alignment contract, including interior (aligned) pointers.
   Property theorems only.  Subjects: `GenE.mi_heap_malloc_zero_aligned_at_overalloc` (the over-allocation path of every aligned entry
   point, regenerated from src/alloc-aligned.c with the allocator as oracle and flag updates as an effect log) and
   `Gen._mi_page_ptr_unalign` (interior pointer -> block start, proved in C16).  The remaining parts of the contract (usable size,
   minimal alignment, natural-alignment fast path, huge alignments, behaviour of free/realloc/expand on interior pointers) are
   checked on the real allocator by the shadow oracle harness/seq.c. -/
import MiVerif.Lemmas.PageStart
import MiVerif.Gen.Entry
import MiVerif.Props.C16
import MiVerif.Lemmas.OsAlign

namespace C03
open GenE

variable (fsp : Nat → Nat → Nat) (pmz gen : Nat → Nat → Nat → Nat → Nat) (ptr_page : Nat → Nat) (usable : Nat → Nat → Nat) (nog : Nat → Nat → Nat → Nat)

/-- **over-allocation path** (power-of-two alignment `2^k ≤ 16 MiB`, any offset): the returned pointer `r` satisfies
    `(r + offset) % alignment = 0`, lies at or after the underlying block `p` and less than one alignment unit into it (so the
    `size` bytes after `r` fit into the `max(size,16) + alignment - 1` bytes that were allocated), and whenever `r` is an interior pointer
    the page is flagged has-aligned — which is what makes free / usable_size / realloc map `r` back to its block. -/
theorem overalloc_aligned (heap size k offset zero_ p : Nat) (hk : k ≤ 24)
    (hpe : nog heap ((((if size < 16 then 16 else size) + 2^k) % 18446744073709551616 + 18446744073709551616 - 1) % 18446744073709551616) zero_ = p)
    (hbound : p + offset + 2^k < 2^63) (hp : p ≠ 0) :
    let res := mi_heap_malloc_zero_aligned_at_overalloc fsp pmz gen ptr_page usable nog heap size (2^k) offset zero_
    (res.1 + offset) % 2^k = 0 ∧ p ≤ res.1 ∧ res.1 < p + 2^k ∧
    (res.1 ≠ p → ("mi_page_set_has_aligned", [ptr_page p, 1]) ∈ res.2) := by
  intro res
  have hpow : (2:Nat)^k ≤ 16777216 := by
    calc (2:Nat)^k ≤ 2^24 := Nat.pow_le_pow_right (by decide) hk
      _ = 16777216 := by decide
  have hpos : 0 < (2:Nat)^k := Nat.two_pow_pos k
  have h1 : ¬ (2^k > 16777216) := by omega
  have hmask : (2^k + 18446744073709551616 - 1) % 18446744073709551616 = 2^k - 1 := by omega
  have hpo : (p + offset) % 18446744073709551616 = p + offset := by
    apply Nat.mod_eq_of_lt; omega
  have hres : res = mi_heap_malloc_zero_aligned_at_overalloc fsp pmz gen ptr_page usable nog heap size (2^k) offset zero_ := rfl
  unfold mi_heap_malloc_zero_aligned_at_overalloc at hres
  simp only [h1, if_false, hpe] at hres
  rw [if_neg hp] at hres
  simp only [hmask, hpo, Nat.and_two_pow_sub_one_eq_mod] at hres
  have hmod_lt : (p + offset) % 2^k < 2^k := Nat.mod_lt _ hpos
  by_cases h0 : (p + offset) % 2^k = 0
  · simp only [h0, if_true, Nat.add_zero] at hres
    have hpp : p % 18446744073709551616 = p := by apply Nat.mod_eq_of_lt; omega
    rw [hpp] at hres
    simp only [ne_eq, not_true_eq_false, if_false] at hres
    rw [hres]
    exact ⟨h0, Nat.le_refl _, by omega, fun h => absurd rfl h⟩
  · simp only [h0, if_false] at hres
    have hadj : (2^k + 18446744073709551616 - (p + offset) % 2^k) % 18446744073709551616 = 2^k - (p + offset) % 2^k := by omega
    rw [hadj] at hres
    have hal : (p + (2^k - (p + offset) % 2^k)) % 18446744073709551616 = p + (2^k - (p + offset) % 2^k) := by
      apply Nat.mod_eq_of_lt; omega
    rw [hal] at hres
    have hne : p + (2^k - (p + offset) % 2^k) ≠ p := by omega
    simp only [ne_eq, hne, not_false_eq_true, if_true] at hres
    rw [hres]
    refine ⟨?_, by simp only; omega, by simp only; omega, fun _ => by simp⟩
    simp only
    have e : p + (2^k - (p + offset) % 2^k) + offset = (p + offset) - (p + offset) % 2^k + 2^k := by
      have := Nat.mod_le (p + offset) (2^k); omega
    rw [e]
    have hd : (p + offset) - (p + offset) % 2^k = 2^k * ((p + offset) / 2^k) := by
      have := Nat.div_add_mod (p + offset) (2^k); omega
    rw [hd, Nat.add_mod, Nat.mul_mod_right, Nat.mod_self]; simp

/-- interior pointer → block start (re-stated from C16, where it is proved over the regenerated `_mi_page_ptr_unalign`): for every
    block size (power of two or not), block index and interior offset -/
theorem interior_pointer_to_block (start bsize shift page i o : Nat)
    (hb : 0 < bsize) (ho : o < bsize) (hfit : start + (i + 1) * bsize < 2^63)
    (hshift : (shift ≠ 0 → bsize = 2^shift ∧ shift < 64)) :
    Gen._mi_page_ptr_unalign start shift bsize page (start + i * bsize + o) = start + i * bsize :=
  C16.unalign_correct start bsize shift page i o hb ho hfit hshift

/-- **blocks of power-of-two size classes are naturally aligned**: in a page with a power-of-two block size (8 bytes … 64 KiB) every block
    starts at a multiple of the block size — over the regenerated `_mi_segment_page_start_from_slice`, for every 32 MiB-aligned segment,
    every slice index and every block index.  This is what `mi_malloc_is_naturally_aligned` and the fast path of the aligned entry points
    (a block of the size class is used as it is) rely on. -/
theorem page_blocks_naturally_aligned (cnt seg idx bs psz : Nat) (hseg0 : seg % 33554432 = 0) (hseg : seg + 33554432 < 2^64) (hidx : idx < 512)
    (hbs : bs ∈ [8, 16, 32, 64, 128, 256, 512, 1024, 2048, 4096, 8192, 16384, 32768, 65536]) (i : Nat) :
    ((Gen._mi_segment_page_start_from_slice cnt seg (seg + 288 + idx * 96) bs psz).1 + i * bs) % bs = 0 :=
  PageStartL.page_start_naturally_aligned cnt seg idx bs psz hseg0 hseg hidx hbs i

/-- **minimal alignment**: the block area of every page starts at a multiple of 16 (so blocks of a size class that is a multiple of 16
    are 16-byte aligned, as the C standard requires of malloc) -/
theorem page_start_is_16_aligned (cnt seg idx bs psz : Nat) (hseg0 : seg % 33554432 = 0) (hseg : seg + 33554432 < 2^64) (hidx : idx < 512) :
    (Gen._mi_segment_page_start_from_slice cnt seg (seg + 288 + idx * 96) bs psz).1 % 16 = 0 :=
  PageStartL.page_start_16_aligned cnt seg idx bs psz hseg0 hseg hidx

/-- **general form**: for every block size that is a multiple of 16 and at most 64 KiB (all size classes from 16 bytes up to the largest
    small-page class), in a page with room for the start adjustment, every block is aligned to every `a` that divides the block size —
    the exact claim behind `mi_malloc_is_naturally_aligned` (`bsize ≤ 64 KiB ∧ bsize & (alignment − 1) = 0`) -/
theorem page_blocks_aligned_to_divisors_of_size_class (cnt seg idx bs psz a : Nat) (hseg0 : seg % 33554432 = 0) (hseg : seg + 33554432 < 2^64)
    (hidx : idx < 512) (h16 : bs % 16 = 0) (hb0 : 0 < bs) (hb1 : bs ≤ 65536) (hroom : 2 * bs ≤ (cnt * 65536) % 18446744073709551616)
    (ha : a ∣ bs) (i : Nat) :
    ((Gen._mi_segment_page_start_from_slice cnt seg (seg + 288 + idx * 96) bs psz).1 + i * bs) % a = 0 := by
  have h := PageStartL.page_start_block_aligned cnt seg idx bs psz hseg0 hseg hidx h16 hb0 hb1 hroom
  have h2 : ((Gen._mi_segment_page_start_from_slice cnt seg (seg + 288 + idx * 96) bs psz).1 + i * bs) % bs = 0 := by
    rw [Nat.add_mul_mod_self_right]; exact h
  have := Nat.mod_mod_of_dvd ((Gen._mi_segment_page_start_from_slice cnt seg (seg + 288 + idx * 96) bs psz).1 + i * bs) ha
  rw [h2] at this; rw [← this]; exact Nat.zero_mod a

/-- **alignment at an offset for blocks that get their own OS allocation** (`_mi_os_alloc_aligned_at_offset` as regenerated from src/os.c;
    the aligned allocation underneath is an arbitrary function that returned an aligned, non-NULL `start`): the returned pointer `p`
    satisfies `(p + offset) mod alignment = 0`, lies at or after `start`, and `size` bytes from `p` fit into what was allocated — the
    OS-level half of `mi_malloc_aligned_at` for huge alignments, for every size, every alignment and every offset up to 32 MiB -/
theorem generated_os_alloc_at_offset_is_aligned (none : Nat) (allocA : Nat → Nat → Nat → Nat → Nat → Nat)
    (ps size alignment offset commit al memid start : Nat)
    (ho : 0 < offset) (ho2 : offset ≤ 33554432) (ha0 : 0 < alignment) (ha : alignment < 2^63) (hsz : size < 2^63)
    (hse : allocA ((size + ((GenO._mi_align_up offset alignment + 18446744073709551616 - offset) % 18446744073709551616)) % 18446744073709551616)
             alignment commit al memid = start)
    (hs0 : start ≠ 0) (hsa : start % alignment = 0) (hsfit : start + size + alignment + 33554432 < 2^64) :
    ((GenO._mi_os_alloc_aligned_at_offset none allocA ps size alignment offset commit al memid).1 + offset) % alignment = 0 ∧
    start ≤ (GenO._mi_os_alloc_aligned_at_offset none allocA ps size alignment offset commit al memid).1 ∧
    (GenO._mi_os_alloc_aligned_at_offset none allocA ps size alignment offset commit al memid).1 + size
      ≤ start + (size + ((offset + alignment - 1) / alignment * alignment - offset)) := by
  have e63 : (2:Nat)^63 = 9223372036854775808 := by decide
  have e64 : (2:Nat)^64 = 18446744073709551616 := by decide
  rw [e63] at ha hsz
  rw [e64] at hsfit
  exact OsAlignL.at_offset_aligned none allocA ps size alignment offset commit al memid start ho ho2 ha0 ha hsz hse hs0 hsa hsfit

-- non-vacuity: 1 MiB at offset 4096 aligned to 64 MiB, the allocation underneath at 2^40
example : (GenO._mi_os_alloc_aligned_at_offset 0 (fun _ _ _ _ _ => 1099511627776) 4096 1048576 67108864 4096 1 0 0).1 = 1099511627776 + 67108864 - 4096 := by
  decide

end C03
