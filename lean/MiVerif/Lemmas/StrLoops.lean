import MiVerif.Gen.Loops
/-! the bounded string functions of src/libc.c as regenerated (loops → `whileN`): they stay inside the destination buffer. -/
namespace StrL
open GenL

abbrev Eff := List (String × List Nat)
abbrev M : Nat := 18446744073709551616

theorem lt_M_of (x : Nat) (h : x < 2^64) : x < M := by
  have : (2:Nat)^64 = 18446744073709551616 := by decide
  show x < 18446744073709551616; omega

/-- a byte store inside the buffer `[dest, dest + size)` -/
def InBuf (dest size : Nat) (c : String × List Nat) : Prop :=
  ∃ a v, c = ("store8", [a, v]) ∧ dest ≤ a ∧ a < dest + size

/-- `_mi_strlcpy`: every store is a byte store inside `[dest, dest + dest_size)`, and the last one writes the terminating NUL -/
theorem strlcpy_in_bounds (ld8 : Nat → Nat) (dest src dest_size : Nat) (hd : dest ≠ 0) (hs : src ≠ 0) (hn : 0 < dest_size)
    (hfit : dest + dest_size < M) :
    (∀ c ∈ _mi_strlcpy ld8 dest src dest_size, InBuf dest dest_size c) ∧
    ∃ pre a, _mi_strlcpy ld8 dest src dest_size = pre ++ [("store8", [a, 0])] := by
  unfold _mi_strlcpy
  have hcond : ¬ (((dest = 0) ∨ (src = 0)) ∨ (dest_size = 0)) := by omega
  simp only [if_neg hcond]
  have key := whileN_inv (σ := Eff × Nat × Nat × Nat)
    (fun st => dest ≤ st.2.1 ∧ st.2.1 + st.2.2.2 = dest + dest_size ∧ 1 ≤ st.2.2.2 ∧ ∀ c ∈ st.1, InBuf dest dest_size c)
  generalize hr : whileN 18446744073709551616 _ _ (([] : Eff), dest, src, dest_size) = r
  have hinv : dest ≤ r.2.1 ∧ r.2.1 + r.2.2.2 = dest + dest_size ∧ 1 ≤ r.2.2.2 ∧ ∀ c ∈ r.1, InBuf dest dest_size c := by
    rw [← hr]
    apply key
    · intro st ⟨h1, h2, h3, h4⟩ hc
      simp only [decide_eq_true_eq] at hc
      have hgt := hc.2
      have hd1 : (st.2.1 + 1) % M = st.2.1 + 1 := Nat.mod_eq_of_lt (by omega)
      have hn1 : (st.2.2.2 + M - 1) % M = st.2.2.2 - 1 := by
        have : st.2.2.2 + M - 1 = (st.2.2.2 - 1) + M := by omega
        rw [this, Nat.add_mod_right]; exact Nat.mod_eq_of_lt (by omega)
      simp only [hd1, hn1]
      refine ⟨by omega, by omega, by omega, ?_⟩
      intro c hcm
      rcases List.mem_append.mp hcm with h | h
      · exact h4 c h
      · simp only [List.mem_singleton] at h
        exact ⟨st.2.1, _, h, h1, by omega⟩
    · exact ⟨Nat.le_refl _, rfl, hn, fun c hc => by cases hc⟩
  obtain ⟨h1, h2, h3, h4⟩ := hinv
  constructor
  · intro c hcm
    rcases List.mem_append.mp hcm with h | h
    · exact h4 c h
    · simp only [List.mem_singleton] at h
      exact ⟨r.2.1, 0, h, h1, by omega⟩
  · exact ⟨r.1, r.2.1, rfl⟩

/-- `_mi_strlcat`: it skips over the string already in the buffer and copies into the rest: every store is a byte store inside
    `[dest, dest + dest_size)` and the last one writes the terminating NUL -/
theorem strlcat_in_bounds (ld8 : Nat → Nat) (dest src dest_size : Nat) (hd : dest ≠ 0) (hs : src ≠ 0) (hn : 0 < dest_size)
    (hfit : dest + dest_size < M) :
    (∀ c ∈ _mi_strlcat ld8 dest src dest_size, InBuf dest dest_size c) ∧
    ∃ pre a, _mi_strlcat ld8 dest src dest_size = pre ++ [("store8", [a, 0])] := by
  unfold _mi_strlcat
  have hcond : ¬ (((dest = 0) ∨ (src = 0)) ∨ (dest_size = 0)) := by omega
  simp only [if_neg hcond]
  have key := whileN_inv (σ := Nat × Nat) (fun st => dest ≤ st.1 ∧ st.1 + st.2 = dest + dest_size ∧ 1 ≤ st.2)
  generalize hr : whileN 18446744073709551616 _ _ (dest, dest_size) = r
  have hinv : dest ≤ r.1 ∧ r.1 + r.2 = dest + dest_size ∧ 1 ≤ r.2 := by
    rw [← hr]
    apply key
    · intro st ⟨h1, h2, h3⟩ hc
      simp only [decide_eq_true_eq] at hc
      have hgt := hc.2
      have hd1 : (st.1 + 1) % M = st.1 + 1 := Nat.mod_eq_of_lt (by omega)
      have hn1 : (st.2 + M - 1) % M = st.2 - 1 := by
        have : st.2 + M - 1 = (st.2 - 1) + M := by omega
        rw [this, Nat.add_mod_right]; exact Nat.mod_eq_of_lt (by omega)
      simp only [hd1, hn1]
      omega
    · exact ⟨Nat.le_refl _, rfl, hn⟩
  obtain ⟨h1, h2, h3⟩ := hinv
  have hcp := strlcpy_in_bounds ld8 r.1 src r.2 (by omega) hs (by omega) (by omega)
  simp only [List.nil_append]
  refine ⟨fun c hc => ?_, hcp.2⟩
  obtain ⟨a, v, e, ha1, ha2⟩ := hcp.1 c hc
  exact ⟨a, v, e, by omega, by omega⟩

/-- `_mi_strnlen` never reports more than `max_len` (and reads only `s[0 .. max_len]`) -/
theorem strnlen_le (ld8 : Nat → Nat) (s max_len : Nat) (hm : max_len < M) : _mi_strnlen ld8 s max_len ≤ max_len := by
  unfold _mi_strnlen
  split
  · exact Nat.zero_le _
  · simp only []
    apply whileN_inv (fun len => len ≤ max_len)
    · intro len h hc
      simp only [decide_eq_true_eq] at hc
      have hlt := hc.2
      have : (len + 1) % M = len + 1 := Nat.mod_eq_of_lt (by omega)
      simp only [this]; omega
    · exact Nat.zero_le _

end StrL
