"""C08 — remotely freed memory is never lost; producer/consumer use stays bounded (T3 + boundedness oracle)."""
import os
import vcommon as V
from checks import t3common

TRUSTED = ['Lean 4 kernel', 'atomics are sequentially consistent in the model (C11 weak-memory effects and data races on non-atomic fields are outside the model)',
           'hooks/verif_hooks.h + harness/vsched.h (deterministic scheduler), harness/t3_delayed.c (event log), Driver/DelayedValidate.lean (mapping of logged events to model labels; owner-local steps placed from the observed list heads)',
           'the model covers one page with its owner and any number of remote frees; other pages/heaps are covered by the scheduler stress oracle and, for boundedness, by the producer/consumer oracle harness/c08_pc.c (heap areas per round with bounded live data) only']

def run(chk):
    chk.trusted = TRUSTED
    chk.assumptions = ['sequentially consistent atomics', 'x86-64 Linux, hooked build (MI_VERIF_HOOKS) in MI_DEBUG=3 and release configurations']
    chk.extra['rule'] = ('obligations = theorems of Props/C08.lean (all interleavings of the protocol model); evaluations = scheduler runs of the real allocator; a run is distinct by its '
                         'event log / (seed, mode, number of scheduling points); traces_validated_against_impl = logs accepted as model executions by the proved-sound validator')
    chk.lean('MiVerif.Props.C08')
    n = 24 if chk.tier == 'quick' else 400
    with V.Scratch() as d:
        t3common.delayed_traces(chk, d, n)
        t3common.stress(chk, d, 60 if chk.tier == 'quick' else 600, modes=(0, 4), keys=("blocks_left_behind", "abandoned_left_behind", "lost_block", "alloc_failed"))
        # boundedness oracle: owner allocates, a helper thread frees (semaphore hand-over), bounded live data, several rounds: the number of heap areas must not keep growing
        h = os.path.join(d, 'c08_pc')
        ok, log = V.cc_harness(os.path.join(V.HARNESS, 'c08_pc.c'), h, flags=list(V.RELEASE) + ['-DVERIF_STATIC_C="%s/src/static.c"' % V.REPO])
        if not ok:
            chk.broken_tie('producer/consumer harness does not compile against the current tree', log[-1500:]); return
        sizes = (16, 64, 300, 1000, 4000, 9000, 20000, 40000, 200000) if chk.tier == 'thorough' else (64, 1000, 9000, 40000)
        rounds = 16 if chk.tier == 'thorough' else 8
        jobs = [([h, str(pat), str(bs), str(rounds)], None, 300) for pat in (0, 1, 2) for bs in sizes]
        npc = 0
        for (cmd, _, _), (rc, out, err) in zip(jobs, V.pmap(jobs)):
            args = {'cmd': 'harness/c08_pc ' + ' '.join(cmd[1:]), 'pattern': cmd[1], 'block_size': cmd[2], 'rounds': cmd[3],
                    'how_to_run': 'gcc -DNDEBUG -DMI_BUILD_RELEASE -I/repo/include -DVERIF_STATIC_C=\\"/repo/src/static.c\\" harness/c08_pc.c -lpthread; ./a.out ' + ' '.join(cmd[1:])}
            if rc != 0 or 'DONE' not in out:
                chk.violation('C08/producer-consumer-crash', 'allocator crashed in the producer/consumer workload (%s): %s' % (' '.join(cmd[1:]), (err or out)[-300:].replace('\n', ' ')), args); continue
            for l in out.splitlines():
                if l.startswith('FAIL'):
                    chk.violation('C08/' + l.split()[1], l[5:400], args)
            r = [l for l in out.splitlines() if l.startswith('R ')]
            chk.count(len(r)); npc += len(r); chk.distinct(('pc',) + tuple(cmd[1:3]))
        chk.extra['producer_consumer_rounds'] = npc
        chk.log('producer/consumer rounds checked: %d' % npc)
