#!/usr/bin/env python3
"""writes MANIFEST.json from the table below (single source of truth for what is claimed)"""
import json, os
HERE = os.path.dirname(os.path.dirname(os.path.abspath(__file__)))
PROPS = [json.loads(l)['id'] for l in open(os.path.join(HERE, 'properties.jsonl'))]
TB = ('Lean 4.33 kernel (+ leanchecker in the thorough tier); axioms propext, Classical.choice, Quot.sound only; '
      'the C->Lean translator extract/translate.py (validated against the compiled functions on every run); ')
CLAIMED = {
    # id: (technique, level text, level note, design ref)
    'C16': ('Lean 4 theorems over definitions regenerated from the C source by a translator (validated against the compiled functions)',
            'Every statement of the property (block size >= request, monotone bins, <=25% fragmentation, good_size idempotent, interior pointer -> block start, pointer -> segment, fast division, span bins, align/divide/overflow helpers) is a Lean theorem, for all inputs, about definitions that extract/translate.py regenerates from /repo/src on every run; the translator is validated on ~370k inputs against the compiled functions; an exhaustive C oracle searches the failing input when a theorem stops checking.',
            TB + 'builtin semantics of clz/ctz/umull_overflow; release configuration; mi_good_size = usable size of mi_malloc is checked by the oracle on the real allocator (exhaustive up to 1100, sampled above), not proved.',
            'DESIGN.md §4 C16'),
}
NOT_YET = 'check not built yet (work in progress in this session; see DESIGN.md §12 implementation order)'
def main():
    checks = []
    for pid in PROPS:
        if pid in CLAIMED:
            tech, text, note, ref = CLAIMED[pid]
            checks.append({'property_id': pid, 'quick_cmd': 'bin/check %s --tier quick' % pid, 'thorough_cmd': 'bin/check %s --tier thorough' % pid,
                           'evidence_file': 'evidence/%s.json' % pid, 'replay_cmd_template': 'bin/check %s --replay {path}' % pid,
                           'engine': 'miverif', 'level_claimed': {'category': 'proof', 'text': text, 'design_ref': ref}, 'level_note': note, 'technique': tech})
    m = {'version': 1, 'setup_cmd': 'bin/setup',
         'hooks': {'guard': 'MI_VERIF_HOOKS', 'enable': 'checks compile /repo/src/static.c with -DMI_VERIF_HOOKS=\'"/verif/hooks/verif_hooks.h"\' (scheduler points at every atomic operation)',
                   'baseline_off_cmd': 'bin/baseline-off', 'source_commits': [], 'add_only': True},
         'engines': [{'name': 'miverif', 'path': 'bin/check', 'serves_properties': sorted(CLAIMED), 'kind_free_text': 'Lean 4 theorems over models regenerated from / compared with the C source (translator, white-box correspondence harnesses, trace validation)'}],
         'checks': checks,
         'notes': 'Machine-checked proof in Lean 4; see DESIGN.md. Every check regenerates lean/MiVerif/Gen from /repo, rebuilds the property module, audits axioms, and runs the correspondence / oracle harnesses against the current tree.',
         'not_applicable': [{'property_id': p, 'reason': NOT_YET} for p in PROPS if p not in CLAIMED]}
    hooks_file = os.path.join(HERE, 'hooks', 'source_commits.txt')
    if os.path.exists(hooks_file):
        m['hooks']['source_commits'] = [l.strip() for l in open(hooks_file) if l.strip()]
    json.dump(m, open(os.path.join(HERE, 'MANIFEST.json'), 'w'), indent=1)
if __name__ == '__main__':
    main()
