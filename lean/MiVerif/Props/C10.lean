/- C10 — first-class heaps: delete migrates, destroy frees exactly its own blocks.
   Property theorems only, over the ownership model MiVerif/Model/Heap.lean (compared with the real heap functions and ownership
   queries after every operation, harness/c10.c).  The concurrent clause (delete / collect while other threads free into the heap)
   rests on the delayed-free protocol proved in C02/C08 (the `delayed-freeing` state is waited out by mi_heap_absorb) and is searched
   by the scheduler stress oracle with heap deletion enabled. -/
import MiVerif.Model.Heap

namespace C10
open HeapM

/-- `mi_heap_delete` keeps every live block alive: the set of live blocks is unchanged, blocks of the deleted heap now belong to the
    backing heap, all other blocks keep their heap -/
theorem delete_migrates (s : St) (h : Nat) (hh : h ≠ 0) (hex : s.heaps.contains h = true) :
    (step s (.delete h)).owner.map (·.1) = s.owner.map (·.1) ∧
    (∀ b g, (b, g) ∈ s.owner → g = h → (b, 0) ∈ (step s (.delete h)).owner) ∧
    (∀ b g, (b, g) ∈ s.owner → g ≠ h → (b, g) ∈ (step s (.delete h)).owner) ∧
    (∀ p ∈ (step s (.delete h)).owner, p.2 ≠ h) := by
  have hmem : h ∈ s.heaps := by simpa using hex
  have hc : (h != 0 && s.heaps.contains h) = true := by simp [hh, hmem]
  simp only [step, hc, if_true, deleteHeap]
  refine ⟨?_, ?_, ?_, ?_⟩
  · rw [List.map_map]; apply List.map_congr_left; intro p _; simp only [Function.comp]; split <;> rfl
  · intro b g hm hg; subst hg; exact List.mem_map.mpr ⟨(b, g), hm, by simp⟩
  · intro b g hm hg; exact List.mem_map.mpr ⟨(b, g), hm, by simp [hg]⟩
  · intro p hp
    obtain ⟨q, _, rfl⟩ := List.mem_map.mp hp
    by_cases hq : q.2 = h
    · simp [hq]; exact fun e => hh e.symm
    · simp [hq]

/-- `mi_heap_destroy` releases every block of that heap and nothing else -/
theorem destroy_exact (s : St) (h : Nat) (hh : h ≠ 0) (hex : s.heaps.contains h = true) (hd : s.nod.contains h = false) :
    ∀ b g, (b, g) ∈ (step s (.destroy h)).owner ↔ ((b, g) ∈ s.owner ∧ g ≠ h) := by
  have hmem : h ∈ s.heaps := by simpa using hex
  have hc : (h != 0 && s.heaps.contains h) = true := by simp [hh, hmem]
  intro b g
  simp only [step, hc, if_true, hd, Bool.false_eq_true, if_false, List.mem_filter, bne_iff_ne, ne_eq]

/-- `mi_heap_destroy` of a heap that was not created with `allow_destroy` (it may hold pages reclaimed from other threads) frees nothing:
    it behaves exactly as `mi_heap_delete` -/
theorem destroy_of_nondestroyable_is_delete (s : St) (h : Nat) (hd : s.nod.contains h = true) :
    step s (.destroy h) = step s (.delete h) := by
  simp only [step, hd, if_true]

/-- when the default heap is deleted or destroyed, the default falls back to the backing heap; otherwise the default is unchanged -/
theorem default_falls_back (s : St) (h : Nat) (hh : h ≠ 0) (hex : s.heaps.contains h = true) :
    (step s (.delete h)).dflt = (if s.dflt = h then 0 else s.dflt) ∧ (step s (.destroy h)).dflt = (if s.dflt = h then 0 else s.dflt) := by
  have hmem : h ∈ s.heaps := by simpa using hex
  have hc : (h != 0 && s.heaps.contains h) = true := by simp [hh, hmem]
  simp only [step, hc, if_true, beq_iff_eq, deleteHeap]
  refine ⟨trivial, ?_⟩
  split <;> simp

/-- a block is attributed to exactly the heap it was allocated in: allocation records the heap, no other block changes owner -/
theorem alloc_owner (s : St) (h b : Nat) (hex : exists_ s h = true) (hfresh : s.owner.any (·.1 == b) = false) :
    (step s (.alloc h b)).owner = (b, h) :: s.owner := by
  simp [step, hex, hfresh]

/-- the default heap serves the entry points without a heap argument -/
theorem alloc_default_owner (s : St) (b : Nat) (hfresh : s.owner.any (·.1 == b) = false) :
    (step s (.allocDefault b)).owner = (b, s.dflt) :: s.owner := by
  simp [step, hfresh]

/-- invariant over every history: each live block is owned by an existing heap (the backing heap or a first-class heap that has not
    been deleted or destroyed), and the default heap exists -/
def Ok (s : St) : Prop := (∀ p ∈ s.owner, exists_ s p.2 = true) ∧ exists_ s s.dflt = true

theorem init_ok : Ok init := ⟨(fun p hp => by cases hp), rfl⟩

theorem exists_iff (s : St) (h : Nat) : exists_ s h = true ↔ h = 0 ∨ h ∈ s.heaps := by simp [exists_]

theorem deleteHeap_ok (s : St) (g : Nat) (h : Ok s) : Ok (deleteHeap s g) := by
  obtain ⟨h1, h2⟩ := h
  unfold Ok deleteHeap
  refine ⟨fun p hp => ?_, ?_⟩
  · obtain ⟨q, hq, rfl⟩ := List.mem_map.mp hp
    have := (exists_iff s q.2).mp (h1 q hq)
    rw [exists_iff]
    by_cases e : q.2 = g
    · simp [e]
    · simp only [beq_iff_eq, e, if_false, List.mem_filter, bne_iff_ne, ne_eq]
      rcases this with e0 | e1
      · exact Or.inl e0
      · exact Or.inr ⟨e1, by first | exact e | exact not_false⟩
  · have := (exists_iff s s.dflt).mp h2
    rw [exists_iff]
    by_cases e : s.dflt = g
    · simp [e]
    · simp only [beq_iff_eq, e, if_false, List.mem_filter, bne_iff_ne, ne_eq]
      rcases this with e0 | e1
      · exact Or.inl e0
      · exact Or.inr ⟨e1, by first | exact e | exact not_false⟩

theorem step_ok (s : St) (op : Op) (h : Ok s) : Ok (step s op) := by
  have h0 := h
  obtain ⟨h1, h2⟩ := h
  cases op with
  | new g =>
    unfold Ok
    simp only [step]; split
    · exact ⟨h1, h2⟩
    · refine ⟨fun p hp => ?_, ?_⟩
      · have := (exists_iff s p.2).mp (h1 p hp)
        rw [exists_iff]; simp only [List.mem_cons]; rcases this with e | e
        · exact Or.inl e
        · exact Or.inr (Or.inr e)
      · have := (exists_iff s s.dflt).mp h2
        rw [exists_iff]; simp only [List.mem_cons]; rcases this with e | e
        · exact Or.inl e
        · exact Or.inr (Or.inr e)
  | newNoDestroy g =>
    unfold Ok
    simp only [step]; split
    · exact ⟨h1, h2⟩
    · refine ⟨fun p hp => ?_, ?_⟩
      · have := (exists_iff s p.2).mp (h1 p hp)
        rw [exists_iff]; simp only [List.mem_cons]; rcases this with e | e
        · exact Or.inl e
        · exact Or.inr (Or.inr e)
      · have := (exists_iff s s.dflt).mp h2
        rw [exists_iff]; simp only [List.mem_cons]; rcases this with e | e
        · exact Or.inl e
        · exact Or.inr (Or.inr e)
  | alloc g b =>
    unfold Ok
    simp only [step]; split
    · rename_i hc; simp only [Bool.and_eq_true] at hc
      refine ⟨fun p hp => ?_, h2⟩
      rcases List.mem_cons.mp hp with rfl | hp
      · exact hc.1
      · exact h1 p hp
    · exact ⟨h1, h2⟩
  | allocDefault b =>
    unfold Ok
    simp only [step]; split
    · refine ⟨fun p hp => ?_, h2⟩
      rcases List.mem_cons.mp hp with rfl | hp
      · exact h2
      · exact h1 p hp
    · exact ⟨h1, h2⟩
  | free b => exact ⟨fun p hp => h1 p (List.mem_filter.mp hp).1, h2⟩
  | delete g =>
    simp only [step]; split
    · exact deleteHeap_ok s g h0
    · exact h0
  | destroy g =>
    simp only [step]; split
    · split
      · exact deleteHeap_ok s g h0
      · unfold Ok
        refine ⟨fun p hp => ?_, ?_⟩
        · obtain ⟨hq, hne⟩ := List.mem_filter.mp hp
          have := (exists_iff s p.2).mp (h1 p hq)
          simp only [bne_iff_ne, ne_eq] at hne
          rw [exists_iff]; simp only [List.mem_filter, bne_iff_ne, ne_eq]
          rcases this with e0 | e1
          · exact Or.inl e0
          · exact Or.inr ⟨e1, hne⟩
        · have := (exists_iff s s.dflt).mp h2
          rw [exists_iff]
          by_cases e : s.dflt = g
          · simp [e]
          · simp only [beq_iff_eq, e, if_false, List.mem_filter, bne_iff_ne, ne_eq]
            rcases this with e0 | e1
            · exact Or.inl e0
            · exact Or.inr ⟨e1, by first | exact e | exact not_false⟩
    · exact h0
  | setDefault g =>
    unfold Ok
    simp only [step]; split
    · rename_i hc; exact ⟨h1, hc⟩
    · exact ⟨h1, h2⟩

theorem reachable_ok (ops : List Op) : Ok (ops.foldl step init) := by
  suffices ∀ s, Ok s → Ok (ops.foldl step s) from this _ init_ok
  induction ops with
  | nil => intro s h; exact h
  | cons op ops ih => intro s h; exact ih _ (step_ok s op h)

-- non-vacuity
example : (([.new 1, .alloc 1 7, .allocDefault 8, .setDefault 1, .allocDefault 9, .delete 1] : List Op).foldl step init)
    = { heaps := [], owner := [(9, 0), (8, 0), (7, 0)], dflt := 0, nod := [] } := by decide
example : (([.newNoDestroy 2, .alloc 2 5, .destroy 2] : List Op).foldl step init) = { heaps := [], owner := [(5, 0)], dflt := 0, nod := [] } := by decide

end C10
