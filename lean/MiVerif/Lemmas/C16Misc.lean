/- helper lemmas for Props/C16: overflow-checked multiply, span bins, pointer arithmetic,
   fast division and mi_good_size -/
import MiVerif.Lemmas.C16Bin

namespace C16L
open Gen

/-! ### overflow-detecting multiply -/

theorem count_size (c s t : Nat) (hc : c < 2^64) (hs : s < 2^64) :
    ((mi_count_size_overflow c s t).1 = 1 ↔ 2^64 ≤ c * s) ∧
    ((mi_count_size_overflow c s t).1 = 0 ∨ (mi_count_size_overflow c s t).1 = 1) ∧
    ((mi_count_size_overflow c s t).1 = 0 → (mi_count_size_overflow c s t).2 = c * s) := by
  unfold mi_count_size_overflow mi_mul_overflow umull_overflow
  by_cases h1 : c = 1
  · subst h1
    simp
    omega
  · by_cases h2 : c * s ≥ 2^64
    · simp [h1, h2]
    · simp [h1, h2]
      omega

/-! ### span bins -/

theorem slice_small (c : Nat) (h : c ≤ 8) : mi_slice_bin c = c := by
  unfold mi_slice_bin mi_slice_bin8
  by_cases h1 : c ≤ 1
  · simp only [if_pos h1]
  · have e1 : (c + 18446744073709551616 - 1) % 18446744073709551616 = c - 1 := by omega
    have hv : c - 1 ≠ 0 := by omega
    have hs : Nat.log2 (c - 1) ≤ 2 := (log2_range (c - 1) 0 2 hv (by omega) (by omega)).2
    simp only [if_neg h1, e1, bsr_eq (c - 1) hv (by omega), if_pos hs]
    omega

theorem slice_mid (c : Nat) (h9 : 9 ≤ c) (h : c < 2^64) :
    ∃ s q, 3 ≤ s ∧ q < 4 ∧ mi_slice_bin c = 4 * s + q - 4 ∧ 2^s ≤ c - 1 ∧ c - 1 < 2^(s+1) ∧
      (4 + q) * 2^(s-2) ≤ c - 1 ∧ c - 1 < (5 + q) * 2^(s-2) := by
  have hv : c - 1 ≠ 0 := by omega
  have hb3 : 3 ≤ Nat.log2 (c - 1) := (Nat.le_log2 hv).mpr (by omega)
  have hb64 := log2_lt64 (c - 1) hv (by omega)
  obtain ⟨hlo, hhi⟩ := log2_bounds hv (rfl : Nat.log2 (c - 1) = _)
  obtain ⟨hq1, hq2⟩ := quad_char (c - 1) _ hv rfl (by omega)
  refine ⟨Nat.log2 (c - 1), (c - 1) / 2 ^ (Nat.log2 (c - 1) - 2) % 4, hb3, Nat.mod_lt _ (by omega), ?_, hlo, hhi, hq1, hq2⟩
  unfold mi_slice_bin mi_slice_bin8
  have h1 : ¬ c ≤ 1 := by omega
  have e1 : (c + 18446744073709551616 - 1) % 18446744073709551616 = c - 1 := by omega
  have hs : ¬ Nat.log2 (c - 1) ≤ 2 := by omega
  simp only [if_neg h1, e1, bsr_eq (c - 1) hv (by omega), if_neg hs, land_3]
  generalize Nat.log2 (c - 1) = s at *
  have e2 : (s + 18446744073709551616 - 2) % 18446744073709551616 = s - 2 := by omega
  have e3 : s * 2^2 % 18446744073709551616 = 2^2 * s := by omega
  have hq : (c - 1) / 2 ^ (s - 2) % 4 < 2^2 := Nat.mod_lt _ (by omega)
  rw [e2, e3, ← Nat.two_pow_add_eq_or_of_lt hq]
  omega

theorem quad_mono (v v' b b' q q' : Nat) (hvv : v ≤ v') (hq : q < 4)
    (hlo : 2^b ≤ v) (hhi' : v' < 2^(b'+1))
    (hX : (4 + q) * 2^(b-2) ≤ v) (hY' : v' < (5 + q') * 2^(b'-2)) : 4 * b + q ≤ 4 * b' + q' := by
  rcases Nat.lt_trichotomy b b' with hlt | heq | hgt
  · omega
  · subst heq
    rcases Nat.lt_or_ge q' q with hc | hc
    · have : (5 + q') * 2^(b-2) ≤ (4 + q) * 2^(b-2) := Nat.mul_le_mul_right _ (by omega)
      omega
    · omega
  · have : 2^(b'+1) ≤ 2^b := Nat.pow_le_pow_right (by omega) (by omega)
    omega

theorem span_formula : ∀ s, s < 9 → ∀ q, q < 4 → 3 ≤ s →
    spanQueueTable.getD (4 * s + q - 4) 0 = (5 + q) * 2^(s-2) := by decide

theorem span_small : ∀ c, c < 9 → c ≤ spanQueueTable.getD c 0 := by decide

theorem slice_bin_ok (c : Nat) (hc : c ≤ 512) :
    mi_slice_bin c ≤ 35 ∧ c ≤ spanQueueTable.getD (mi_slice_bin c) 0 := by
  rcases Nat.lt_or_ge c 9 with h8 | h9
  · rw [slice_small c (by omega)]
    exact ⟨by omega, span_small c h8⟩
  · obtain ⟨s, q, hs3, hq, e, hlo, hhi, hX, hY⟩ := slice_mid c h9 (by omega)
    have hs8 : s < 9 := by
      rcases Nat.lt_or_ge s 9 with g | g
      · exact g
      · have : 2^9 ≤ 2^s := Nat.pow_le_pow_right (by omega) g
        omega
    rw [e, span_formula s hs8 q hq hs3]
    omega

theorem slice_bin_mono (a b : Nat) (h : a ≤ b) (hb : b < 2^64) : mi_slice_bin a ≤ mi_slice_bin b := by
  rcases Nat.lt_or_ge b 9 with h8 | h9
  · rw [slice_small a (by omega), slice_small b (by omega)]; exact h
  · obtain ⟨s', q', hs3', hq', e', hlo', hhi', hX', hY'⟩ := slice_mid b h9 hb
    rcases Nat.lt_or_ge a 9 with g8 | g9
    · rw [slice_small a (by omega), e']; omega
    · obtain ⟨s, q, hs3, hq, e, hlo, hhi, hX, hY⟩ := slice_mid a g9 (by omega)
      have := quad_mono (a - 1) (b - 1) s s' q q' (by omega) hq hlo hhi' hX hY'
      rw [e, e']; omega

/-! ### pointer arithmetic -/

theorem unalign_eq (start bsize shift page D : Nat) (hD : start + D < 2^63)
    (hshift : shift ≠ 0 → bsize = 2^shift ∧ shift < 64) :
    _mi_page_ptr_unalign start shift bsize page (start + D) = start + D - D % bsize := by
  rw [h63] at hD
  have hD' : D < 9223372036854775808 := by omega
  have hm : D % bsize ≤ D := Nat.mod_le _ _
  have hp : start + D < 18446744073709551616 := by omega
  unfold _mi_page_ptr_unalign mi_page_block_size
  simp only [pdiff_eq start D hD', Int.toNat_natCast, Nat.one_mul]
  by_cases h0 : shift = 0
  · subst h0
    simp only [Int.natCast_zero, ne_eq, not_true_eq_false, if_false]
    exact wrap_sub _ _ (by omega) hp
  · obtain ⟨hbs, hs64⟩ := hshift h0
    have hc : ((shift : Nat) : Int) ≠ 0 := by omega
    have hlt : 2^shift < 18446744073709551616 := by
      rw [← h64]; exact Nat.pow_lt_pow_right (by omega) hs64
    have hpos : 0 < 2^shift := Nat.two_pow_pos _
    simp only [if_pos hc, Nat.mod_eq_of_lt hlt, wrap_sub1 _ hpos hlt, Nat.and_two_pow_sub_one_eq_mod]
    rw [← hbs]
    exact wrap_sub _ _ (by omega) hp

theorem ptr_segment_eq (S p : Nat) (hal : S % 33554432 = 0) (h0 : 0 < S) (hS : S + 33554432 ≤ 2^63)
    (h1 : S < p) (h2 : p ≤ S + 33554432) : _mi_ptr_segment p = S := by
  rw [h63] at hS
  have hp : p < 18446744073709551616 := by omega
  have hS' : S < 9223372036854775808 := by omega
  clear hS
  unfold _mi_ptr_segment
  have em : (18446744073675997184 : Nat) = 2^64 - 2^25 := by decide
  have e1 := wrap_sub1 p (by omega) hp
  have hp1 : p - 1 < 2^64 := by rw [h64]; omega
  have e2 : (p - 1) / 2^25 * 2^25 = S := by
    have : (2:Nat)^25 = 33554432 := by decide
    rw [this]; clear hp hp1 e1 hS'; omega
  simp only [e1, em, and_hi_mask (p - 1) 25 (by omega) hp1, e2, sw64_small S hS']
  have : ¬ ((S : Int) ≤ 0) := by omega
  simp only [if_neg this]

/-! ### fast division -/
def shiftOf (d : Nat) : Nat := if d - 1 = 0 then 0 else Nat.log2 (d - 1) + 1
def magic (d : Nat) : Nat := (2^32 * (2^(shiftOf d) - d)) / d + 1
def fdiv (n d : Nat) : Nat := ((n * magic d) / 2^32 + n) / 2^(shiftOf d)

theorem shift_bounds (d : Nat) (hd : 0 < d) : d ≤ 2^(shiftOf d) ∧ 2^(shiftOf d) < 2 * d := by
  unfold shiftOf
  by_cases h : d - 1 = 0
  · have : d = 1 := by omega
    subst this; simp
  · simp only [h, if_false]
    have h1 : 2^(Nat.log2 (d-1)) ≤ d - 1 := Nat.log2_self_le h
    have h2 : d - 1 < 2^(Nat.log2 (d-1) + 1) := Nat.lt_log2_self
    rw [Nat.pow_succ] at h2 ⊢
    omega

theorem div_magic (n d s : Nat) (hd : 0 < d) (hs1 : d ≤ 2^s) (hn : n < 2^32) :
    (n * ((2^32 * 2^s) / d + 1)) / (2^32 * 2^s) = n / d := by
  have hK : 0 < 2^32 * 2^s := Nat.mul_pos (by decide) (Nat.two_pow_pos _)
  generalize hKdef : 2^32 * 2^s = K at *
  have hdm := Nat.div_add_mod K d
  have hmod : K % d < d := Nat.mod_lt _ hd
  have hq := Nat.div_add_mod n d
  have hnm : n % d < d := Nat.mod_lt _ hd
  apply Nat.div_eq_of_lt_le
  · have : (n / d) * K * d ≤ n * (K / d + 1) * d := by
      have e1 : (n / d) * K * d = (d * (n / d)) * K := by
        rw [Nat.mul_comm (n/d) K, Nat.mul_assoc, Nat.mul_comm K, Nat.mul_comm (n/d) d]
      have e2 : n * (K / d + 1) * d = n * (d * (K / d) + d) := by
        rw [Nat.mul_assoc, Nat.add_mul, Nat.one_mul, Nat.mul_comm (K/d) d]
      rw [e1, e2]
      have h1 : d * (n / d) ≤ n := by omega
      have h2 : K ≤ d * (K / d) + d := by omega
      exact Nat.mul_le_mul h1 h2
    exact Nat.le_of_mul_le_mul_right this hd
  · have hne : n * (d - K % d) < K := by
      have h1 : d - K % d ≤ 2^s := by omega
      calc n * (d - K % d) ≤ n * 2^s := Nat.mul_le_mul_left _ h1
        _ < 2^32 * 2^s := Nat.mul_lt_mul_of_pos_right hn (Nat.two_pow_pos _)
        _ = K := hKdef
    have : n * (K / d + 1) * d < (n / d + 1) * K * d := by
      have e2 : n * (K / d + 1) * d = n * (d * (K / d) + d) := by
        rw [Nat.mul_assoc, Nat.add_mul, Nat.one_mul, Nat.mul_comm (K/d) d]
      have e3 : d * (K / d) + d = K + (d - K % d) := by omega
      have e4 : (n / d + 1) * K * d = (d * (n / d) + d) * K := by
        rw [Nat.mul_comm ((n/d+1)) K, Nat.mul_assoc, Nat.mul_comm K, Nat.add_mul, Nat.one_mul, Nat.mul_comm (n/d) d]
      rw [e2, e3, e4, Nat.mul_add]
      have h3 : n + 1 ≤ d * (n / d) + d := by omega
      calc n * K + n * (d - K % d) < n * K + K := by omega
        _ = (n + 1) * K := by rw [Nat.add_mul, Nat.one_mul]
        _ ≤ (d * (n / d) + d) * K := Nat.mul_le_mul_right _ h3
    exact Nat.lt_of_mul_lt_mul_right this

theorem fdiv_correct (n d : Nat) (hd : 0 < d) (hn : n < 2^32) : fdiv n d = n / d := by
  obtain ⟨hs1, hs2⟩ := shift_bounds d hd
  unfold fdiv magic
  generalize shiftOf d = s at *
  have e1 : (2^32 * (2^s - d)) / d = (2^32 * 2^s) / d - 2^32 := by
    rw [Nat.mul_sub, Nat.mul_comm (2^32) d, Nat.sub_mul_div_of_le]
    rw [Nat.mul_comm d]; exact Nat.mul_le_mul_left _ hs1
  have hge : 2^32 ≤ (2^32 * 2^s) / d := by
    rw [Nat.le_div_iff_mul_le hd]
    exact Nat.mul_le_mul_left _ hs1
  rw [e1]
  have e2 : (n * ((2^32 * 2^s) / d - 2^32 + 1)) / 2^32 + n = (n * ((2^32 * 2^s) / d + 1)) / 2^32 := by
    have : n * ((2^32 * 2^s) / d + 1) = n * ((2^32 * 2^s) / d - 2^32 + 1) + n * 2^32 := by
      rw [← Nat.mul_add]; congr 1; omega
    rw [this, Nat.add_mul_div_right _ _ (by decide : 0 < 2^32)]
  rw [e2, Nat.div_div_eq_div_mul]
  exact div_magic n d s hd hs1 hn

theorem shift_gen (d : Nat) (hd : 0 < d) (hd2 : d < 2^32) :
    (64 + 18446744073709551616 - mi_clz ((d + 18446744073709551616 - 1) % 18446744073709551616)) % 18446744073709551616
      = shiftOf d := by
  have e1 : (d + 18446744073709551616 - 1) % 18446744073709551616 = d - 1 := by omega
  rw [e1]
  unfold shiftOf
  by_cases h : d - 1 = 0
  · simp only [h, if_true]; unfold mi_clz; simp
  · have hl := log2_lt64 (d - 1) h (by omega)
    simp only [h, if_false, clz_eq (d - 1) h (by omega)]
    omega

theorem magic_le (d : Nat) (hd : 0 < d) : magic d ≤ 2^32 := by
  obtain ⟨hs1, hs2⟩ := shift_bounds d hd
  unfold magic
  have : 2^32 * (2^(shiftOf d) - d) < d * 2^32 := by
    rw [Nat.mul_comm d]
    exact Nat.mul_lt_mul_of_pos_left (by omega) (by decide)
  have := Nat.div_lt_of_lt_mul this
  omega

theorem fast_divisor_gen (d : Nat) (hd : 0 < d) (hd2 : d < 2^32) :
    mi_get_fast_divisor d 1 1 = (magic d, shiftOf d) := by
  obtain ⟨hs1, hs2⟩ := shift_bounds d hd
  have hm := magic_le d hd
  unfold mi_get_fast_divisor
  simp only [shift_gen d hd hd2, Nat.one_mul]
  unfold magic at hm ⊢
  have hs33 : 2^(shiftOf d) < 2^33 := by omega
  generalize 2^(shiftOf d) = P at *
  have e1 : P % 18446744073709551616 = P := Nat.mod_eq_of_lt (by omega)
  have e2 : (P + 18446744073709551616 - d) % 18446744073709551616 = P - d := wrap_sub P d hs1 (by omega)
  have h32 : (2:Nat)^32 = 4294967296 := by decide
  rw [h32] at hm ⊢
  have e3 : 4294967296 * (P - d) % 18446744073709551616 = 4294967296 * (P - d) := Nat.mod_eq_of_lt (by omega)
  have e4 : (4294967296 * (P - d) / d + 1) % 18446744073709551616 = 4294967296 * (P - d) / d + 1 :=
    Nat.mod_eq_of_lt (by omega)
  simp only [e1, e2, e3, e4]

theorem fast_divide_gen (n d : Nat) (hd : 0 < d) (hn : n < 2^32) :
    mi_fast_divide n (magic d) (shiftOf d) = fdiv n d := by
  have hm := magic_le d hd
  unfold mi_fast_divide fdiv
  generalize magic d = m at *
  have hnm : n * m < 4294967296 * 4294967296 :=
    Nat.lt_of_le_of_lt (Nat.mul_le_mul_left _ hm) (Nat.mul_lt_mul_of_pos_right hn (by decide))
  have hhi : n * m / 2^32 < 4294967296 := Nat.div_lt_of_lt_mul hnm
  have e1 : n * m % 18446744073709551616 = n * m := Nat.mod_eq_of_lt hnm
  have e2 : (n * m / 2^32 + n) % 18446744073709551616 = n * m / 2^32 + n := Nat.mod_eq_of_lt (by omega)
  simp only [e1, e2]

/-! ### mi_good_size -/

theorem good_small (ps n : Nat) (h : n ≤ 65536) :
    mi_good_size _mi_bin_size ps n = _mi_bin_size (mi_bin n) := by
  unfold mi_good_size
  simp only [if_pos h, Nat.add_zero, Nat.mod_eq_of_lt (show n < 18446744073709551616 by omega)]

theorem good_large (ps n : Nat) (h : 65536 < n) (h2 : n < 2^64) :
    mi_good_size _mi_bin_size ps n = _mi_align_up n ps := by
  unfold mi_good_size
  rw [h64] at h2
  have c : ¬ n ≤ 65536 := by omega
  simp only [if_neg c, Nat.add_zero, Nat.mod_eq_of_lt h2]

theorem page_fits (n k : Nat) (hk2 : k ≤ 30) (hn : n ≤ 2^63 - 1 + 2^30) : n + 2^k < 2^64 := by
  have : 2^k ≤ 2^30 := Nat.pow_le_pow_right (by omega) hk2
  omega

theorem good_ge (n k : Nat) (hk2 : k ≤ 30) (hn : n ≤ 2^63 - 1) :
    n ≤ mi_good_size _mi_bin_size (2^k) n := by
  rcases Nat.lt_or_ge 65536 n with h | h
  · have hf := page_fits n k hk2 (by omega)
    have hP : 0 < 2^k := Nat.two_pow_pos _
    rw [good_large _ n h (by omega), align_up_eq n _ hP hf]
    have := (div_mul_bounds (n + 2^k - 1) _ hP).2
    omega
  · rw [good_small _ n h]; exact bin_ge n h

theorem good_idem (n k : Nat) (hk2 : k ≤ 30) (hn : n ≤ 2^63 - 1) :
    mi_good_size _mi_bin_size (2^k) (mi_good_size _mi_bin_size (2^k) n) = mi_good_size _mi_bin_size (2^k) n := by
  rcases Nat.lt_or_ge 65536 n with h | h
  · have hf := page_fits n k hk2 (by omega)
    have hP : 0 < 2^k := Nat.two_pow_pos _
    have hP30 : 2^k ≤ 2^30 := Nat.pow_le_pow_right (by omega) hk2
    rw [good_large _ n h (by omega), align_up_eq n _ hP hf]
    obtain ⟨b1, b2⟩ := div_mul_bounds (n + 2^k - 1) _ hP
    generalize (n + 2^k - 1) / 2^k = m at *
    generalize 2^k = P at *
    have hg : 65536 < m * P := by omega
    have hf2 : m * P + P < 2^64 := by omega
    rw [good_large _ _ hg (by omega), align_up_eq _ _ hP hf2]
    have : (m * P + P - 1) / P = m := by
      apply Nat.div_eq_of_lt_le
      · omega
      · rw [Nat.succ_mul]; omega
    rw [this]
  · obtain ⟨u1, u2, _⟩ := bin_used n h
    rw [good_small _ n h, good_small _ _ (binsize_le_medium _ u1 u2), bin_idem n h]

end C16L
