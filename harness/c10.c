// C10 correspondence: random programs over first-class heaps; after every operation the ownership table (which heap contains each
// live block, as the REAL mi_heap_contains_block / mi_heap_check_owned answer) and the default heap are printed -> replayed by HeapM
#include VERIF_STATIC_C
#include <stdio.h>
static uint64_t rs = 88172645463325252ULL;
static uint64_t rnd(void) { rs ^= rs << 13; rs ^= rs >> 7; rs ^= rs << 17; return rs; }
enum { NH = 4, NB = 300 };
static mi_heap_t* heaps[NH + 1]; static void* blk[NB]; static size_t bsz[NB];
static int nod[NH + 1];   // heap created without allow_destroy: mi_heap_destroy must behave as mi_heap_delete (release builds; debug builds assert)
static int nfail = 0;
static void dump(void) {
  mi_heap_t* d = mi_heap_get_default(); int di = -9; for (int i = 0; i <= NH; i++) if (heaps[i] == d) di = i;
  printf(" -> default=%d owners=[", di); int first = 1;
  for (int b = NB - 1; b >= 0; b--) if (blk[b]) { int own = -9, cnt = 0;
      for (int i = 0; i <= NH; i++) if (heaps[i] && mi_heap_contains_block(heaps[i], blk[b])) { own = i; cnt++; if (!mi_heap_check_owned(heaps[i], blk[b])) own = -8; }
      if (cnt != 1) own = -7;
      printf("%s%d:%d", first ? "" : ",", b, own); first = 0;
      for (size_t k = 0; k < bsz[b]; k += 7) if (((uint8_t*)blk[b])[k] != (uint8_t)(b * 31 + 7)) { if (nfail++ < 10) printf("\nFAIL c10_content block %d byte %zu\n", b, k); break; } }
  printf("]\n");
}
int main(int argc, char** argv) {
  uint64_t seed = argc > 1 ? strtoull(argv[1], 0, 10) : 1; long ops = argc > 2 ? atol(argv[2]) : 2000;
  rs ^= seed * 0x9E3779B97F4A7C15ULL; if (!rs) rs = 1; for (int i = 0; i < 8; i++) rnd();
  heaps[0] = mi_heap_get_backing();
  printf("H init"); dump();
  for (long i = 0; i < ops; i++) {
    unsigned op = (unsigned)(rnd() % 100); int h = 1 + (int)(rnd() % NH); int b = (int)(rnd() % NB);
    static const size_t SZ[] = { 8, 24, 64, 200, 640, 1024, 3000, 9000, 70000, 300000 };
    size_t n = SZ[rnd() % 10];
    if (op < 10) { int nd = 0;
#ifdef NDEBUG
      nd = (rnd() % 3 == 0);
#endif
      if (!heaps[h]) { heaps[h] = nd ? mi_heap_new_ex(0, false, _mi_arena_id_none()) : mi_heap_new(); nod[h] = nd; } else nd = nod[h];
      printf("H %s %d", nd ? "newnod" : "new", h); }
    else if (op < 45) { int hh = (int)(rnd() % (NH + 1)); if (heaps[hh] && !blk[b]) { blk[b] = mi_heap_malloc(heaps[hh], n); bsz[b] = n; memset(blk[b], b * 31 + 7, n); } printf("H alloc %d %d", hh, b); }
    else if (op < 60) { if (!blk[b]) { blk[b] = (rnd() % 2) ? mi_malloc(n) : mi_zalloc_aligned(n, 64); bsz[b] = n; memset(blk[b], b * 31 + 7, n); } printf("H allocdefault %d", b); }
    else if (op < 85) { if (blk[b]) { mi_free(blk[b]); blk[b] = NULL; } printf("H free %d", b); }
    else if (op < 90) { if (heaps[h]) { mi_heap_delete(heaps[h]); heaps[h] = NULL; nod[h] = 0; } printf("H delete %d", h); }
    else if (op < 94) { if (heaps[h]) { if (!nod[h]) { for (int k = 0; k < NB; k++) if (blk[k] && mi_heap_contains_block(heaps[h], blk[k])) blk[k] = NULL; }
        mi_heap_destroy(heaps[h]); heaps[h] = NULL; nod[h] = 0; } printf("H destroy %d", h); }
    else if (op < 98) { int hh = (int)(rnd() % (NH + 1)); if (heaps[hh]) mi_heap_set_default(heaps[hh]); printf("H setdefault %d", hh); }
    else { mi_collect(rnd() % 2); printf("H collect"); }
    dump();
  }
  printf("DONE\n"); fflush(stdout);
  return 0;
}
