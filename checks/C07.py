"""C07 — operating-system refusals are survived without crash or corruption
(Lean theorems over a commit-bookkeeping model whose range arithmetic is regenerated from the source; direct-drive correspondence of the
real segment commit / purge and arena allocation / free functions with refusals injected; exhaustive single / persistent refusal
enumeration over the OS-request sequence of several workloads and option rows, release and MI_DEBUG builds)."""
import os
import vcommon as V

TRUSTED = ['Lean 4 kernel', 'extract/translate.py for the loop functions in Gen/Loops.lean (mi_commit_mask_create, _mi_commit_mask_committed_size), validated against the running functions on every run (harness/c07 cmask|csize -> Driver/C07cm)', 'extract/translate.py for Gen.mi_segment_commit_mask (validated by the translator-validation harness of C16)',
           'hand-written Model/Commit.lean (segment commit/purge/ensure-committed, arena alloc/free/purge at bookkeeping-unit granularity); tied to the code by the step-wise correspondence (harness/c07.c seg / arena modes vs Driver/C07.lean)',
           'harness/oshim.h (macro renaming of mmap/munmap/mprotect/madvise when compiling src/static.c; per-page accessibility record; refusal injection)',
           'NULL propagation through segment / page / heap allocation, retry after collect, thread metadata, mmap / munmap refusals: covered by the refusal enumeration on the real allocator only (no model)']
ROWS = {0: 'defaults', 1: 'eager_commit=0 arena_eager_commit=0 purge_delay=0', 2: 'disallow_arena_alloc purge_delay=0', 3: 'arena_reserve=64MiB purge_delay=1 purge_decommits=0 arena_eager_commit=0', 4: 'arena_eager_commit=0 purge_delay=10'}

def run(chk):
    chk.trusted = TRUSTED
    chk.assumptions = ['a refused request has no effect on the address space (the shim does not forward it)', 'refusal patterns: one refused request at position k, or every request from position k on',
                       'in the model the OS layer is "honest": access is revoked by a purge only when it also reports that a re-commit is needed (checked on every direct-drive step)']
    chk.extra['rule'] = ('obligations = theorems of Props/C07.lean; evaluations = direct-drive steps replayed through the model + children of the refusal enumeration; distinct = (build, workload, row, mode, k) and step lines')
    chk.lean('MiVerif.Props.C07', ['Arith', 'Commit', 'ArenaGen', 'Loops'])
    okd, exe, log = V.build_driver()
    if not okd:
        chk.broken_tie('lean driver does not build', log[-1500:])
    thorough = chk.tier == 'thorough'
    with V.Scratch() as d:
        hs = {}
        for tag, flags in (('rel', list(V.RELEASE)), ('dbg', ['-DMI_DEBUG=2'])):
            h = os.path.join(d, 'c07_' + tag)
            ok, log = V.cc_harness(os.path.join(V.HARNESS, 'c07.c'), h, flags=flags + ['-DVERIF_STATIC_C="%s/src/static.c"' % V.REPO])
            if not ok:
                chk.broken_tie('C07 harness (%s) does not compile against the current tree' % tag, log[-1500:])
            else:
                hs[tag] = h
        how = 'gcc -O1 %s -I/repo/include -I/repo/src -Iharness -DVERIF_STATIC_C=\\"/repo/src/static.c\\" harness/c07.c -lpthread; ./a.out %s'
        # ---- tie: direct drive of the commit / purge / arena functions, replayed through the model
        jobs = []
        nseed = 8 if thorough else 3
        for tag, h in hs.items():
            for sd in range(chk.seed, chk.seed + nseed):
                jobs.append((tag, [h, 'seg', str(sd), '400']))
                for dl in ('0', '10', '-1'):
                    jobs.append((tag, [h, 'arena', str(sd), '300', dl]))
        outs = V.pmap([(cmd, None, 300) for _, cmd in jobs])
        steps = 0; diffs = 0
        for (tag, cmd), (rc, out, err) in zip(jobs, outs):
            args = {'build': tag, 'cmd': 'harness/c07 ' + ' '.join(cmd[1:]), 'how_to_run': how % ('-DMI_DEBUG=2' if tag == 'dbg' else '-DNDEBUG -DMI_BUILD_RELEASE', ' '.join(cmd[1:]) + ' | lean/.lake/build/bin/midriver c07')}
            if rc != 0 or 'DONE' not in out:
                chk.violation('C07/direct-drive-crash', 'commit / arena functions crashed when driven directly with refusals (%s build, %s): %s' % (tag, ' '.join(cmd[1:]), (err or out)[-300:].replace('\n', ' ')), args); continue
            for l in out.splitlines():
                if l.startswith('FAIL'):
                    chk.violation('C07/' + l.split()[1], 'real allocator, %s build, %s: %s' % (tag, ' '.join(cmd[1:]), l[5:300]), args)
            if 'SKIP' in out:
                chk.log('direct drive skipped: ' + [l for l in out.splitlines() if l.startswith('SKIP')][0]); continue
            if okd:
                rc2, out2, err2 = V.run([exe, 'c07'], input=out, timeout=300)
                summ = [l for l in out2.splitlines() if l.startswith('c07val cases')]
                dl = [l for l in out2.splitlines() if l.startswith('DIFF')]
                if summ:
                    steps += int(summ[0].split()[2])
                for l in out.splitlines():
                    if l[:2] in ('S ', 'A '):
                        chk.count(); chk.distinct(('step', l.split('|')[0]))
                if dl or not summ or rc2 != 0:
                    diffs += len(dl) or 1
                    # the model and the code disagree on a concrete step: that step is the replay; whether the property fails on it is decided by
                    # the harness's own state invariant (FAIL lines above) - otherwise the tie is broken without a failing input
                    chk.broken_tie('correspondence Model.Commit vs src/segment.c / src/arena.c (%s build, %s)' % (tag, ' '.join(cmd[1:])), ((dl or [err2 or out2])[0])[:600] + ' | ' + args['how_to_run'])
        chk.extra['direct_drive_steps_replayed'] = steps
        # ---- translator validation of the loop translation: the real mi_commit_mask_create (every start bit x 14 lengths -> the eight
        # fields) against the regenerated function (Gen/Loops.lean)
        if okd and 'rel' in hs:
            cmd = [hs['rel'], 'cmask', str(chk.seed), '8000']
            rc, out, err = V.run(cmd, timeout=120)
            if rc == 0 and 'DONE' in out:       # and _mi_commit_mask_committed_size on full / nearly full / sparse / random masks
                rcs, outs, errs = V.run([hs['rel'], 'csize', str(chk.seed), '4000'], timeout=120)
                rc, out, err = rcs, out + outs, err + errs
            args = {'cmd': 'harness/c07 ' + ' '.join(cmd[1:]), 'how_to_run': 'harness/c07 %s | lean/.lake/build/bin/midriver c07cm' % ' '.join(cmd[1:])}
            if rc != 0 or 'DONE' not in out:
                chk.violation('C07/commit-mask-create-crash', 'mi_commit_mask_create / _mi_commit_mask_committed_size crashed when driven directly: %s' % (err or out)[-300:].replace('\n', ' '), args)
            else:
                for l in out.splitlines():
                    if l.startswith('FAIL'):
                        chk.violation('C07/' + l.split()[1], 'real commit-mask function: %s' % l[5:300], args)
                rc2, out2, err2 = V.run([exe, 'c07cm'], input=out, timeout=300)
                summ = [l for l in out2.splitlines() if l.startswith('c07cmval cases')]
                dl = [l for l in out2.splitlines() if l.startswith('DIFF')]
                if summ:
                    chk.count(int(summ[0].split()[2])); chk.extra['commit_mask_create_cases_compared'] = int(summ[0].split()[2])
                if rc2 != 0 or dl or not summ:
                    chk.broken_tie('translator validation: regenerated mi_commit_mask_create / _mi_commit_mask_committed_size and the real functions disagree', ((dl or [err2 or out2])[0])[:500] + ' | ' + args['how_to_run'])
                chk.log('commit-mask translator validation (create + committed_size): %s' % (summ[0] if summ else 'no summary'))
        chk.log('direct drive: %d steps replayed through the model, %d disagreements' % (steps, diffs))
        if steps == 0 and not chk.broken:
            chk.broken_tie('direct drive', 'no step was replayed')
        # ---- search / oracle: refusal enumeration
        plan = []
        for tag, h in hs.items():
            rows = (0, 1, 2, 3, 4) if (thorough or tag == 'rel') else (1, 3)
            for w in (0, 1, 2):
                for row in rows:
                    plan.append((tag, h, w, row))
        counts = V.pmap([([h, 'count', str(w), str(row)], None, 120) for tag, h, w, row in plan])
        jobs = []
        for (tag, h, w, row), (rc, out, err) in zip(plan, counts):
            c = [l for l in out.splitlines() if l.startswith('COUNT')]
            if rc != 0 or not c:
                chk.violation('C07/workload-crash', 'workload %d row %d crashed without any refusal (%s build): %s' % (w, row, tag, (err or out)[-300:].replace('\n', ' ')), {'cmd': 'harness/c07 count %d %d' % (w, row), 'build': tag}); continue
            n = int(c[0].split()[1])
            for f in [l for l in out.splitlines() if l.startswith('FAIL')]:
                chk.violation('C07/' + f.split()[1], 'workload %d row %d without any refusal (%s build): %s' % (w, row, tag, f[5:300]), {'cmd': 'harness/c07 count %d %d' % (w, row), 'build': tag})
            chunk = 12
            for pers in (0, 1):
                for k0 in range(0, n, chunk):
                    jobs.append((tag, h, w, row, pers, k0, min(n, k0 + chunk)))
        outs = V.pmap([([h, 'enum', str(w), str(row), str(pers), str(k0), str(k1)], None, 600) for tag, h, w, row, pers, k0, k1 in jobs])
        children = 0; fired = 0; nulls = 0
        hist = {}
        for (tag, h, w, row, pers, k0, k1), (rc, out, err) in zip(jobs, outs):
            base = {'build': tag, 'workload': w, 'row': row, 'row_options': ROWS[row], 'persistent': pers}
            def args_for(k):
                a = dict(base); a['k'] = k; a['cmd'] = 'harness/c07 one %d %d %d %d %d' % (w, row, pers, k, k + 1)
                a['how_to_run'] = how % ('-DMI_DEBUG=2' if tag == 'dbg' else '-DNDEBUG -DMI_BUILD_RELEASE', 'one %d %d %d %d %d   (C07_TRACE=1 prints the OS request log)' % (w, row, pers, k, k + 1)); return a
            if rc != 0 or 'DONE' not in out:
                chk.violation('C07/enumeration-crash', 'enumeration driver died (%s build, workload %d row %d mode %d, k %d..%d): %s' % (tag, w, row, pers, k0, k1, (err or out)[-300:].replace('\n', ' ')), args_for(k0)); continue
            lines = out.splitlines(); pend = []
            for l in lines + err.splitlines():
                if l.startswith('FAIL'):
                    pend.append(l)
                elif l.startswith('mimalloc: assertion failed') or l.strip().startswith('assertion:'):
                    pend.append('ASSERT ' + l.strip())
                elif l.startswith('K '):
                    p = l.split(); k = int(p[1]); children += 1; fired += int(p[3]); nulls += int(p[5])
                    chk.count(); chk.distinct((tag, w, row, pers, k))
                    hist['%s w%d r%d' % (tag, w, row)] = hist.get('%s w%d r%d' % (tag, w, row), 0) + 1
                    for f in pend:
                        if f.startswith('FAIL'):
                            chk.violation('C07/' + f.split()[1], '%s build, workload %d, options [%s], %s at OS request %d: %s' % (tag, w, ROWS[row], 'every request refused from' if pers else 'single refusal', k, f[5:300]), args_for(k))
                    pend = []
                elif l.startswith('CRASH'):
                    p = l.split(); k = int(p[2]); children += 1
                    chk.count(); chk.distinct((tag, w, row, pers, k))
                    why = ' '.join(x for x in pend if x.startswith('ASSERT'))[:300]
                    chk.violation('C07/crash', '%s build, workload %d, options [%s], %s at OS request %d: the process died (%s) %s' % (tag, w, ROWS[row], 'every request refused from' if pers else 'single refusal', k, ' '.join(p[3:]), why), args_for(k))
                    pend = []
        chk.extra['enumeration_children'] = children
        chk.extra['refusals_fired'] = fired
        chk.extra['api_calls_that_returned_null'] = nulls
        chk.extra['children_per_build_workload_row'] = hist
        chk.log('refusal enumeration: %d children, %d refusals fired, %d NULL results' % (children, fired, nulls))
        if children == 0 and not chk.broken:
            chk.broken_tie('refusal enumeration', 'no child ran')
