"""C06 — malformed or oversized requests fail cleanly (T1 over the regenerated entry-point layer + real-allocator oracle)."""
import os
import vcommon as V

TRUSTED = ['Lean 4 kernel', 'translator extract/translate.py (entry-point layer with allocator oracles and effect log), validated against decisions of the real entry points on every run',
           'oracle calls are modelled as pure functions of their arguments (each translated entry point calls an allocator oracle at most once per path)',
           'harness/entry.c (what the generated wrappers are compared with; the implementation-side oracle)']

from checks.C05 import entry_harness      # one implementation (bounded run time, hang reported as such)

def run(chk):
    chk.trusted = TRUSTED
    chk.assumptions = ['release configuration of src/static.c', 'the operating system grants the moderate requests of the well-formed section (no fault injection here; see C07)',
                       'mi_new_n / mi_new_reallocn abort or throw on overflow by their C++ contract and are not "returns NULL" entry points']
    chk.extra['rule'] = ('obligations = theorems of Props/C06.lean over the regenerated entry-point layer (for every allocator oracle); evaluations = decisions of the real '
                         'entry points compared with the generated wrappers + calls checked by the real-allocator oracle; distinct = distinct (entry point, argument tuple) lines')
    chk.lean('MiVerif.Props.C06', groups=['Entry', 'Tables'])
    with V.Scratch() as d:
        out = entry_harness(chk, d)
        if out is None:
            return
        keys = set()
        for l in out.splitlines():
            p = l.split()
            if not p:
                continue
            if p[0] == 'FAIL':
                key = p[1]
                prop_of = {'realloc_content': 'C05', 'realloc_block_count': 'C05', 'expand_moved': 'C05', 'expand_ok_iff': 'C05', 'realloc_lost_alignment': 'C05'}
                if prop_of.get(key, 'C06') == chk.pid or key in ('usable_lt_size', 'misaligned', 'neighbour_corrupted'):
                    chk.violation('%s/%s' % (chk.pid, key), 'real allocator violates %s: %s' % (key, ' '.join(p[2:])), {'statement': key, 'input': ' '.join(p[2:]), 'how_to_run': 'harness/entry.c, seed %d' % chk.seed})
            elif p[0] == 'STAT':
                chk.extra['oracle_' + p[1]] = int(p[2]); 
                if p[1] == 'evaluations': chk.count(int(p[2]))
            elif p[0] in ('E', 'R'):
                keys.add(l)
        chk.cov['distinct_nontrivial'] = len(keys)
        for l in sorted(keys)[::max(1, len(keys) // 5)][:6]:
            chk.sample(l)
