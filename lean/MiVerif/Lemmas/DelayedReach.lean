/- reachability for the delayed-free protocol model -/
import MiVerif.Lemmas.DelayedInv
namespace Delayed
/-- executions: any finite sequence of atomic steps of any threads -/
inductive Reach : St → St → Prop where
  | refl (s) : Reach s s
  | step {s t u} : Reach s t → Step t u → Reach s u
end Delayed
