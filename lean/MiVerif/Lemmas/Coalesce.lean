import MiVerif.Lemmas.SpanFree
namespace SegM

theorem Chain.append {i m e : Nat} {a b : List Span} (h1 : Chain i a m) (h2 : Chain m b e) : Chain i (a ++ b) e := by
  induction h1 with
  | nil i => simpa using h2
  | cons hc _ ih => exact Chain.cons hc (ih h2)

/-- a chain through `pre ++ x :: post` passes through the start of `x` -/
theorem Chain.split_at {i e : Nat} {pre post : List Span} {x : Span} (h : Chain i (pre ++ x :: post) e) :
    Chain i pre x.1 ∧ Chain x.1 (x :: post) e := by
  induction pre generalizing i with
  | nil =>
    cases h with
    | cons hc hr => exact ⟨Chain.nil _, Chain.cons hc hr⟩
  | cons p ps ih =>
    cases h with
    | cons hc hr =>
      obtain ⟨a, b⟩ := ih hr
      exact ⟨Chain.cons hc a, b⟩

/-- coalescing two adjacent spans keeps the chain (any flag for the merged span) -/
theorem Chain.merge {i e a ca cb : Nat} {ua ub u : Bool} {pre post : List Span}
    (h : Chain i (pre ++ (a, ca, ua) :: (a + ca, cb, ub) :: post) e) :
    Chain i (pre ++ (a, ca + cb, u) :: post) e := by
  obtain ⟨h1, h2⟩ := h.split_at
  cases h2 with
  | cons hca hr =>
    cases hr with
    | cons hcb hr2 =>
      refine h1.append (Chain.cons (by omega) ?_)
      rw [Nat.add_assoc] at hr2; exact hr2

/-- splitting a span in two keeps the chain -/
theorem Chain.split {i e a c k : Nat} {u u1 u2 : Bool} {pre post : List Span}
    (h : Chain i (pre ++ (a, c, u) :: post) e) (hk : 0 < k) (hkc : k < c) :
    Chain i (pre ++ (a, k, u1) :: (a + k, c - k, u2) :: post) e := by
  obtain ⟨h1, h2⟩ := h.split_at
  cases h2 with
  | cons hc hr =>
    refine h1.append (Chain.cons hk (Chain.cons (by omega) ?_))
    have : a + k + (c - k) = a + c := by omega
    rw [this]; exact hr

/-- changing only the flag -/
theorem Chain.reflag {i e a c : Nat} {u u' : Bool} {pre post : List Span}
    (h : Chain i (pre ++ (a, c, u) :: post) e) : Chain i (pre ++ (a, c, u') :: post) e := by
  obtain ⟨h1, h2⟩ := h.split_at
  cases h2 with
  | cons hc hr => exact h1.append (Chain.cons hc hr)

/-- the span before position `a` in a chain ends exactly at `a`: this is what `mi_slice_first(slice − 1)` finds -/
theorem Chain.prev_ends {i e ps pc xs xc : Nat} {pu xu : Bool} {pre post : List Span}
    (h : Chain i (pre ++ (ps, pc, pu) :: (xs, xc, xu) :: post) e) : ps + pc = xs := by
  obtain ⟨_, h2⟩ := h.split_at
  cases h2 with
  | cons _ hr => cases hr with
    | cons _ _ => rfl


theorem queueDelete_get (g : Seg) (i j : Nat) (hi : i < g.slices.size) :
    get (queueDelete g i) j = if i = j then { get g i with bs := 1 } else get g j := by
  unfold queueDelete
  rw [get_set _ _ _ _ (by simpa using hi)]
  simp only [get_queues_irrel]

@[simp] theorem queueDelete_entries (g : Seg) (i : Nat) : (queueDelete g i).entries = g.entries := rfl
@[simp] theorem queueDelete_size (g : Seg) (i : Nat) : (queueDelete g i).slices.size = g.slices.size := by
  unfold queueDelete; simp

theorem spanFree_entries (g : Seg) (s c : Nat) : (spanFree g s c).entries = g.entries := by
  unfold spanFree queuePush
  by_cases h : (if c = 0 then 1 else c) > 1 <;> simp [h]
theorem spanFree_size (g : Seg) (s c : Nat) : (spanFree g s c).slices.size = g.slices.size := by
  unfold spanFree queuePush
  by_cases h : (if c = 0 then 1 else c) > 1 <;> simp [h]

/-- result index and count of `coalesce`, as pure functions of what it reads -/
def coNext (g : Seg) (idx : Nat) : Bool :=
  decide (idx + (get g idx).count < g.entries ∧ (get g (idx + (get g idx).count)).bs = 0)
def coPrev (g : Seg) (idx : Nat) : Bool :=
  decide (idx > 0 ∧ (get g (sliceFirst g (idx - 1))).bs = 0)

/-- case: no free neighbour -/
theorem coalesce_none (g : Seg) (idx : Nat) (hn : coNext g idx = false) (hp : coPrev g idx = false) :
    coalesce g idx = (spanFree g idx (get g idx).count, idx) := by
  unfold coNext at hn; unfold coPrev at hp
  simp only [decide_eq_false_iff_not] at hn hp
  unfold coalesce
  simp only [hn, if_false]
  by_cases h0 : idx > 0
  · have : ¬ (get g (sliceFirst g (idx - 1))).bs = 0 := fun h => hp ⟨h0, h⟩
    simp [h0, this]
  · simp [h0]

/-- case: only the next span is free -/
theorem coalesce_next (g : Seg) (idx : Nat) (hn : coNext g idx = true) (hp : coPrev g idx = false)
    (hsz : g.slices.size = g.entries + 1) :
    coalesce g idx =
      (spanFree (queueDelete g (idx + (get g idx).count)) idx
        ((get g idx).count + (get g (idx + (get g idx).count)).count), idx) := by
  unfold coNext at hn; unfold coPrev at hp
  simp only [decide_eq_true_eq] at hn
  simp only [decide_eq_false_iff_not] at hp
  unfold coalesce
  simp only [hn, and_self, if_true]
  -- the prev test reads through the queueDelete, which changed only entry `next`
  have hsz' : idx + (get g idx).count < g.slices.size := by omega
  by_cases h0 : idx > 0
  · -- entries idx-1 and its first slice are different from `next`
    have hne : ¬ (idx + (get g idx).count = idx - 1) := by omega
    have hl : get (queueDelete g (idx + (get g idx).count)) (idx - 1) = get g (idx - 1) := by
      rw [queueDelete_get _ _ _ hsz', if_neg hne]
    have hsf : sliceFirst (queueDelete g (idx + (get g idx).count)) (idx - 1) = sliceFirst g (idx - 1) := by
      unfold sliceFirst; rw [hl]
    have hne2 : ¬ (idx + (get g idx).count = sliceFirst g (idx - 1)) := by unfold sliceFirst; omega
    have hb : (get (queueDelete g (idx + (get g idx).count)) (sliceFirst g (idx - 1))).bs = (get g (sliceFirst g (idx - 1))).bs := by
      rw [queueDelete_get _ _ _ hsz', if_neg hne2]
    have : ¬ (get g (sliceFirst g (idx - 1))).bs = 0 := fun h => hp ⟨h0, h⟩
    simp only [h0, if_true, hsf, hb, this, if_false]
  · simp [h0]

/-- Repr is preserved when a used span with a free successor is freed: the two merge -/
theorem coalesce_next_repr (g : Seg) (pre post : List Span) (s c nc : Nat) (u : Bool)
    (hr : Repr g (pre ++ (s, c, u) :: (s + c, nc, false) :: post))
    (hn : coNext g s = true) (hp : coPrev g s = false) :
    Repr (coalesce g s).1 (pre ++ (s, c + nc, false) :: post) := by
  obtain ⟨hsz, hch, hok⟩ := hr
  have hx := hok (s, c, u) (by simp)
  have hy := hok (s + c, nc, false) (by simp)
  have hcnt : (get g s).count = c := hx.1
  have hncnt : (get g (s + c)).count = nc := hy.1
  have hb := hch.bounds
  have hxb := hb.2 (s, c, u) (by simp)
  have hyb := hb.2 (s + c, nc, false) (by simp)
  simp only [] at hxb hyb
  rw [coalesce_next g s hn hp hsz, hcnt, hncnt]
  simp only []
  have hsz1 : (queueDelete g (s + c)).slices.size = (queueDelete g (s + c)).entries + 1 := by simp [hsz]
  have hfit : s + (c + nc) ≤ (queueDelete g (s + c)).entries := by simp; omega
  refine ⟨?_, ?_, ?_⟩
  · -- size
    rw [spanFree_size, spanFree_entries]; exact hsz1
  · -- chain
    rw [spanFree_entries]; exact hch.merge
  · intro z hz
    rcases List.mem_append.mp hz with hz | hz
    · -- spans before: disjoint from [s, s+c+nc)
      have hzm : z ∈ pre ++ (s, c, u) :: (s + c, nc, false) :: post := List.mem_append.mpr (Or.inl hz)
      have hzok := hok z hzm
      have hd := hch.disjoint z hzm (s, c, u) (by simp)
      have hzb := hb.2 z hzm
      obtain ⟨hp1, _⟩ := hch.split_at
      have hzpre := hp1.bounds.2 z hz
      apply spanFree_frame _ _ _ (by omega) hfit hsz1 z hzb.2.2 (Or.inl (by simp only [] at hzpre; omega))
      -- queueDelete changed only entry s+c, outside z
      obtain ⟨zs, zc, zu⟩ := z
      simp only [] at hzpre hzb
      unfold SpanOk at hzok ⊢
      simp only [] at hzok ⊢
      have hq : ∀ j, j < s → get (queueDelete g (s + c)) j = get g j := by
        intro j hj; rw [queueDelete_get _ _ _ (by omega), if_neg (by omega)]
      obtain ⟨o1, o2, o3, o4, o5⟩ := hzok
      refine ⟨by rw [hq _ (by omega)]; exact o1, by rw [hq _ (by omega)]; exact o2, by rw [hq _ (by omega)]; exact o3, ?_, ?_⟩
      · intro h; rw [hq _ (by omega)]; exact o4 h
      · intro hu k hk1 hk2; rw [hq _ (by omega)]; exact o5 hu k hk1 hk2
    · rcases List.mem_cons.mp hz with rfl | hz
      · exact spanFree_ok _ _ _ (by omega) hfit hsz1
      · -- spans after
        have hzm : z ∈ pre ++ (s, c, u) :: (s + c, nc, false) :: post := by simp [hz]
        have hzok := hok z hzm
        have hzb := hb.2 z hzm
        obtain ⟨_, hp2⟩ := hch.split_at
        cases hp2 with
        | cons _ hp3 => cases hp3 with
          | cons _ hp4 =>
            have hzpost := hp4.bounds.2 z hz
            apply spanFree_frame _ _ _ (by omega) hfit hsz1 z hzb.2.2 (Or.inr (by simp only [] at hzpost; omega))
            obtain ⟨zs, zc, zu⟩ := z
            simp only [] at hzpost hzb
            unfold SpanOk at hzok ⊢
            simp only [] at hzok ⊢
            have hq : ∀ j, s + c + nc ≤ j → get (queueDelete g (s + c)) j = get g j := by
              intro j hj; rw [queueDelete_get _ _ _ (by omega), if_neg (by omega)]
            obtain ⟨o1, o2, o3, o4, o5⟩ := hzok
            refine ⟨by rw [hq _ (by omega)]; exact o1, by rw [hq _ (by omega)]; exact o2, by rw [hq _ (by omega)]; exact o3, ?_, ?_⟩
            · intro h; rw [hq _ (by omega)]; exact o4 h
            · intro hu k hk1 hk2; rw [hq _ (by omega)]; exact o5 hu k hk1 hk2

/-- case: only the previous span is free -/
theorem coalesce_prev (g : Seg) (idx : Nat) (hn : coNext g idx = false) (hp : coPrev g idx = true) :
    coalesce g idx =
      (spanFree (queueDelete (set g idx { get g idx with count := 0, off := idx - sliceFirst g (idx - 1) }) (sliceFirst g (idx - 1)))
        (sliceFirst g (idx - 1)) ((get g idx).count + (get g (sliceFirst g (idx - 1))).count), sliceFirst g (idx - 1)) := by
  unfold coNext at hn; unfold coPrev at hp
  simp only [decide_eq_false_iff_not] at hn
  simp only [decide_eq_true_eq] at hp
  unfold coalesce
  simp only [hn, if_false, hp.1, hp.2, if_true]

/-- Repr is preserved when a used span with a free predecessor is freed: the two merge into one free span starting at the predecessor -/
theorem coalesce_prev_repr (g : Seg) (pre post : List Span) (ps pc c : Nat) (u : Bool)
    (hr : Repr g (pre ++ (ps, pc, false) :: (ps + pc, c, u) :: post))
    (hn : coNext g (ps + pc) = false) (hp : coPrev g (ps + pc) = true) :
    Repr (coalesce g (ps + pc)).1 (pre ++ (ps, pc + c, false) :: post) := by
  obtain ⟨hsz, hch, hok⟩ := hr
  have hx := hok (ps, pc, false) (by simp)
  have hy := hok (ps + pc, c, u) (by simp)
  have hb := hch.bounds
  have hxb := hb.2 (ps, pc, false) (by simp)
  have hyb := hb.2 (ps + pc, c, u) (by simp)
  simp only [] at hxb hyb
  have hcnt : (get g (ps + pc)).count = c := hy.1
  have hpcnt : (get g ps).count = pc := hx.1
  -- mi_slice_first(slice - 1) finds the start of the previous span
  have hsf : sliceFirst g (ps + pc - 1) = ps := by
    unfold sliceFirst
    by_cases h1 : pc > 1
    · have := (hx.2.2.2.1 h1).1
      simp only [] at this
      rw [this]; omega
    · have hpc1 : pc = 1 := by omega
      subst hpc1
      have : (get g ps).off = 0 := hx.2.1
      have e : ps + 1 - 1 = ps := by omega
      rw [e, this]; omega
  rw [coalesce_prev g (ps + pc) hn hp, hsf, hcnt, hpcnt]
  simp only []
  have hidx : ps + pc < g.slices.size := by omega
  have hps : ps < g.slices.size := by omega
  -- the two intermediate writes touch only entries ps + pc and ps, both inside the merged span
  have hq : ∀ j, j ≠ ps + pc → j ≠ ps →
      get (queueDelete (set g (ps + pc) { get g (ps + pc) with count := 0, off := ps + pc - ps }) ps) j = get g j := by
    intro j h1 h2
    rw [queueDelete_get _ _ _ (by simp; exact hps), if_neg (by omega), get_set _ _ _ _ hidx, if_neg (by omega)]
  have hsz1 : (queueDelete (set g (ps + pc) { get g (ps + pc) with count := 0, off := ps + pc - ps }) ps).slices.size
      = (queueDelete (set g (ps + pc) { get g (ps + pc) with count := 0, off := ps + pc - ps }) ps).entries + 1 := by simp [hsz]
  have hfit : ps + (c + pc) ≤ (queueDelete (set g (ps + pc) { get g (ps + pc) with count := 0, off := ps + pc - ps }) ps).entries := by simp; omega
  have hcomm : pc + c = c + pc := Nat.add_comm _ _
  rw [hcomm]
  refine ⟨?_, ?_, ?_⟩
  · rw [spanFree_size, spanFree_entries]; exact hsz1
  · rw [spanFree_entries]
    have := hch.merge (u := false)
    rw [hcomm] at this
    simpa using this
  · intro z hz
    rcases List.mem_append.mp hz with hz | hz
    · have hzm : z ∈ pre ++ (ps, pc, false) :: (ps + pc, c, u) :: post := List.mem_append.mpr (Or.inl hz)
      have hzok := hok z hzm
      have hzb := hb.2 z hzm
      obtain ⟨hp1, _⟩ := hch.split_at
      have hzpre := hp1.bounds.2 z hz
      apply spanFree_frame _ _ _ (by omega) hfit hsz1 z hzb.2.2 (Or.inl (by simp only [] at hzpre; omega))
      obtain ⟨zs, zc, zu⟩ := z
      simp only [] at hzpre hzb
      unfold SpanOk at hzok ⊢
      simp only [] at hzok ⊢
      obtain ⟨o1, o2, o3, o4, o5⟩ := hzok
      refine ⟨by rw [hq _ (by omega) (by omega)]; exact o1, by rw [hq _ (by omega) (by omega)]; exact o2, by rw [hq _ (by omega) (by omega)]; exact o3, ?_, ?_⟩
      · intro h; rw [hq _ (by omega) (by omega)]; exact o4 h
      · intro hu k hk1 hk2; rw [hq _ (by omega) (by omega)]; exact o5 hu k hk1 hk2
    · rcases List.mem_cons.mp hz with rfl | hz
      · exact spanFree_ok _ _ _ (by omega) hfit hsz1
      · have hzm : z ∈ pre ++ (ps, pc, false) :: (ps + pc, c, u) :: post := by simp [hz]
        have hzok := hok z hzm
        have hzb := hb.2 z hzm
        obtain ⟨_, hp2⟩ := hch.split_at
        cases hp2 with
        | cons _ hp3 => cases hp3 with
          | cons _ hp4 =>
            have hzpost := hp4.bounds.2 z hz
            apply spanFree_frame _ _ _ (by omega) hfit hsz1 z hzb.2.2 (Or.inr (by simp only [] at hzpost; omega))
            obtain ⟨zs, zc, zu⟩ := z
            simp only [] at hzpost hzb
            unfold SpanOk at hzok ⊢
            simp only [] at hzok ⊢
            obtain ⟨o1, o2, o3, o4, o5⟩ := hzok
            refine ⟨by rw [hq _ (by omega) (by omega)]; exact o1, by rw [hq _ (by omega) (by omega)]; exact o2, by rw [hq _ (by omega) (by omega)]; exact o3, ?_, ?_⟩
            · intro h; rw [hq _ (by omega) (by omega)]; exact o4 h
            · intro hu k hk1 hk2; rw [hq _ (by omega) (by omega)]; exact o5 hu k hk1 hk2

/-- case: both neighbours are free -/
theorem coalesce_both (g : Seg) (idx : Nat) (hn : coNext g idx = true) (hp : coPrev g idx = true)
    (hsz : g.slices.size = g.entries + 1) (hcpos : 0 < (get g idx).count) :
    coalesce g idx =
      (spanFree (queueDelete (set (queueDelete g (idx + (get g idx).count)) idx
            { get g idx with count := 0, off := idx - sliceFirst g (idx - 1) }) (sliceFirst g (idx - 1)))
        (sliceFirst g (idx - 1)) ((get g idx).count + (get g (idx + (get g idx).count)).count + (get g (sliceFirst g (idx - 1))).count),
       sliceFirst g (idx - 1)) := by
  unfold coNext at hn; unfold coPrev at hp
  simp only [decide_eq_true_eq] at hn hp
  unfold coalesce
  simp only [hn, and_self, if_true]
  have hsz' : idx + (get g idx).count < g.slices.size := by omega
  have h0 := hp.1
  have hne : ¬ (idx + (get g idx).count = idx - 1) := by omega
  have hl : get (queueDelete g (idx + (get g idx).count)) (idx - 1) = get g (idx - 1) := by
    rw [queueDelete_get _ _ _ hsz', if_neg hne]
  have hsf : sliceFirst (queueDelete g (idx + (get g idx).count)) (idx - 1) = sliceFirst g (idx - 1) := by
    unfold sliceFirst; rw [hl]
  have hne2 : ¬ (idx + (get g idx).count = sliceFirst g (idx - 1)) := by unfold sliceFirst; omega
  have hb : get (queueDelete g (idx + (get g idx).count)) (sliceFirst g (idx - 1)) = get g (sliceFirst g (idx - 1)) := by
    rw [queueDelete_get _ _ _ hsz', if_neg hne2]
  have hne3 : ¬ (idx + (get g idx).count = idx) := by omega
  have hi : get (queueDelete g (idx + (get g idx).count)) idx = get g idx := by
    rw [queueDelete_get _ _ _ hsz', if_neg hne3]
  simp only [h0, if_true, hsf, hb, hp.2, hi]

/-- Repr is preserved when a used span between two free spans is freed: the three merge -/
theorem coalesce_both_repr (g : Seg) (pre post : List Span) (ps pc c nc : Nat) (u : Bool)
    (hr : Repr g (pre ++ (ps, pc, false) :: (ps + pc, c, u) :: (ps + pc + c, nc, false) :: post))
    (hn : coNext g (ps + pc) = true) (hp : coPrev g (ps + pc) = true) :
    Repr (coalesce g (ps + pc)).1 (pre ++ (ps, pc + c + nc, false) :: post) := by
  obtain ⟨hsz, hch, hok⟩ := hr
  have hx := hok (ps, pc, false) (by simp)
  have hy := hok (ps + pc, c, u) (by simp)
  have hz := hok (ps + pc + c, nc, false) (by simp)
  have hb := hch.bounds
  have hxb := hb.2 (ps, pc, false) (by simp)
  have hyb := hb.2 (ps + pc, c, u) (by simp)
  have hzb := hb.2 (ps + pc + c, nc, false) (by simp)
  simp only [] at hxb hyb hzb
  have hcnt : (get g (ps + pc)).count = c := hy.1
  have hpcnt : (get g ps).count = pc := hx.1
  have hncnt : (get g (ps + pc + c)).count = nc := hz.1
  have hsf : sliceFirst g (ps + pc - 1) = ps := by
    unfold sliceFirst
    by_cases h1 : pc > 1
    · have := (hx.2.2.2.1 h1).1
      simp only [] at this
      rw [this]; omega
    · have hpc1 : pc = 1 := by omega
      subst hpc1
      have : (get g ps).off = 0 := hx.2.1
      have e : ps + 1 - 1 = ps := by omega
      rw [e, this]; omega
  rw [coalesce_both g (ps + pc) hn hp hsz (by rw [hcnt]; omega), hsf, hcnt, hncnt, hpcnt]
  simp only []
  have hidx : ps + pc < g.slices.size := by omega
  have hps : ps < g.slices.size := by omega
  have hnx : ps + pc + c < g.slices.size := by omega
  -- the three intermediate writes touch only entries ps + pc + c, ps + pc and ps, all inside the merged span
  have hq : ∀ j, j ≠ ps + pc + c → j ≠ ps + pc → j ≠ ps →
      get (queueDelete (set (queueDelete g (ps + pc + c)) (ps + pc) { get g (ps + pc) with count := 0, off := ps + pc - ps }) ps) j = get g j := by
    intro j h1 h2 h3
    rw [queueDelete_get _ _ _ (by simp; exact hps), if_neg (by omega), get_set _ _ _ _ (by simp; exact hidx), if_neg (by omega),
      queueDelete_get _ _ _ hnx, if_neg (by omega)]
  have hsz1 : (queueDelete (set (queueDelete g (ps + pc + c)) (ps + pc) { get g (ps + pc) with count := 0, off := ps + pc - ps }) ps).slices.size
      = (queueDelete (set (queueDelete g (ps + pc + c)) (ps + pc) { get g (ps + pc) with count := 0, off := ps + pc - ps }) ps).entries + 1 := by simp [hsz]
  have hfit : ps + (c + nc + pc) ≤ (queueDelete (set (queueDelete g (ps + pc + c)) (ps + pc) { get g (ps + pc) with count := 0, off := ps + pc - ps }) ps).entries := by simp; omega
  have hcomm : pc + c + nc = c + nc + pc := by omega
  rw [hcomm]
  refine ⟨?_, ?_, ?_⟩
  · rw [spanFree_size, spanFree_entries]; exact hsz1
  · rw [spanFree_entries]
    -- merge the last two, then the first two
    have m1 : Chain 0 ((pre ++ [(ps, pc, false)]) ++ (ps + pc, c + nc, false) :: post) g.entries := by
      have h' : Chain 0 ((pre ++ [(ps, pc, false)]) ++ (ps + pc, c, u) :: (ps + pc + c, nc, false) :: post) g.entries := by simpa using hch
      exact h'.merge
    have m1' : Chain 0 (pre ++ (ps, pc, false) :: (ps + pc, c + nc, false) :: post) g.entries := by simpa using m1
    have m2 := m1'.merge (u := false)
    have e : pc + (c + nc) = c + nc + pc := by omega
    rw [e] at m2
    simpa using m2
  · intro z hz
    rcases List.mem_append.mp hz with hz | hz
    · have hzm : z ∈ pre ++ (ps, pc, false) :: (ps + pc, c, u) :: (ps + pc + c, nc, false) :: post := List.mem_append.mpr (Or.inl hz)
      have hzok := hok z hzm
      have hzb' := hb.2 z hzm
      obtain ⟨hp1, _⟩ := hch.split_at
      have hzpre := hp1.bounds.2 z hz
      apply spanFree_frame _ _ _ (by omega) hfit hsz1 z hzb'.2.2 (Or.inl (by simp only [] at hzpre; omega))
      obtain ⟨zs, zc, zu⟩ := z
      simp only [] at hzpre hzb'
      unfold SpanOk at hzok ⊢
      simp only [] at hzok ⊢
      obtain ⟨o1, o2, o3, o4, o5⟩ := hzok
      refine ⟨by rw [hq _ (by omega) (by omega) (by omega)]; exact o1, by rw [hq _ (by omega) (by omega) (by omega)]; exact o2, by rw [hq _ (by omega) (by omega) (by omega)]; exact o3, ?_, ?_⟩
      · intro h; rw [hq _ (by omega) (by omega) (by omega)]; exact o4 h
      · intro hu k hk1 hk2; rw [hq _ (by omega) (by omega) (by omega)]; exact o5 hu k hk1 hk2
    · rcases List.mem_cons.mp hz with rfl | hz
      · exact spanFree_ok _ _ _ (by omega) hfit hsz1
      · have hzm : z ∈ pre ++ (ps, pc, false) :: (ps + pc, c, u) :: (ps + pc + c, nc, false) :: post := by simp [hz]
        have hzok := hok z hzm
        have hzb' := hb.2 z hzm
        obtain ⟨_, hp2⟩ := hch.split_at
        cases hp2 with
        | cons _ hp3 => cases hp3 with
          | cons _ hp4 => cases hp4 with
            | cons _ hp5 =>
              have hzpost := hp5.bounds.2 z hz
              apply spanFree_frame _ _ _ (by omega) hfit hsz1 z hzb'.2.2 (Or.inr (by simp only [] at hzpost; omega))
              obtain ⟨zs, zc, zu⟩ := z
              simp only [] at hzpost hzb'
              unfold SpanOk at hzok ⊢
              simp only [] at hzok ⊢
              obtain ⟨o1, o2, o3, o4, o5⟩ := hzok
              refine ⟨by rw [hq _ (by omega) (by omega) (by omega)]; exact o1, by rw [hq _ (by omega) (by omega) (by omega)]; exact o2, by rw [hq _ (by omega) (by omega) (by omega)]; exact o3, ?_, ?_⟩
              · intro h; rw [hq _ (by omega) (by omega) (by omega)]; exact o4 h
              · intro hu k hk1 hk2; rw [hq _ (by omega) (by omega) (by omega)]; exact o5 hu k hk1 hk2

/-- Repr is preserved when a used span without free neighbours is freed: only its flag changes -/
theorem coalesce_none_repr (g : Seg) (pre post : List Span) (s c : Nat) (u : Bool)
    (hr : Repr g (pre ++ (s, c, u) :: post)) (hn : coNext g s = false) (hp : coPrev g s = false) :
    Repr (coalesce g s).1 (pre ++ (s, c, false) :: post) := by
  obtain ⟨hsz, hch, hok⟩ := hr
  have hx := hok (s, c, u) (by simp)
  have hb := hch.bounds
  have hxb := hb.2 (s, c, u) (by simp)
  simp only [] at hxb
  have hcnt : (get g s).count = c := hx.1
  rw [coalesce_none g s hn hp, hcnt]
  simp only []
  have hfit : s + c ≤ g.entries := by omega
  refine ⟨?_, ?_, ?_⟩
  · rw [spanFree_size, spanFree_entries]; exact hsz
  · rw [spanFree_entries]; exact hch.reflag
  · intro z hz
    rcases List.mem_append.mp hz with hz | hz
    · have hzm : z ∈ pre ++ (s, c, u) :: post := List.mem_append.mpr (Or.inl hz)
      have hzb := hb.2 z hzm
      obtain ⟨hp1, _⟩ := hch.split_at
      have hzpre := hp1.bounds.2 z hz
      exact spanFree_frame _ _ _ (by omega) hfit hsz z hzb.2.2 (Or.inl (by simp only [] at hzpre; omega)) (hok z hzm)
    · rcases List.mem_cons.mp hz with rfl | hz
      · exact spanFree_ok _ _ _ (by omega) hfit hsz
      · have hzm : z ∈ pre ++ (s, c, u) :: post := by simp [hz]
        have hzb := hb.2 z hzm
        obtain ⟨_, hp2⟩ := hch.split_at
        cases hp2 with
        | cons _ hp3 =>
          have hzpost := hp3.bounds.2 z hz
          exact spanFree_frame _ _ _ (by omega) hfit hsz z hzb.2.2 (Or.inr (by simp only [] at hzpost; omega)) (hok z hzm)

end SegM
