/- first-class heaps at the level of block ownership (C10): which heap owns each live block, which heap is the default.
   `-1` (here: heap id 0) is the backing heap of the thread.  Compared with the real mi_heap_new / mi_heap_malloc / mi_free /
   mi_heap_delete / mi_heap_destroy / mi_heap_set_default and the ownership queries after every operation (harness/c10.c). -/
namespace HeapM

structure St where
  heaps : List Nat             -- existing first-class heaps (ids ≥ 1); the backing heap 0 always exists
  owner : List (Nat × Nat)     -- live block id ↦ heap id
  dflt : Nat                   -- the heap that serves mi_malloc
  nod : List Nat := []         -- heaps created without allow_destroy (mi_heap_new_ex(.., false, ..), mi_heap_new_in_arena): they may hold
                               -- pages reclaimed from other threads, so mi_heap_destroy falls back to mi_heap_delete for them
deriving Repr, DecidableEq

def init : St := { heaps := [], owner := [], dflt := 0, nod := [] }

inductive Op where
  | new (h : Nat)
  | newNoDestroy (h : Nat)
  | alloc (h : Nat) (b : Nat)          -- allocate block `b` from heap `h`
  | allocDefault (b : Nat)             -- mi_malloc
  | free (b : Nat)
  | delete (h : Nat)
  | destroy (h : Nat)
  | setDefault (h : Nat)
deriving Repr

def exists_ (s : St) (h : Nat) : Bool := h == 0 || s.heaps.contains h

def deleteHeap (s : St) (h : Nat) : St :=
  { heaps := s.heaps.filter (· != h), owner := s.owner.map (fun p => if p.2 == h then (p.1, 0) else p), dflt := if s.dflt == h then 0 else s.dflt,
    nod := s.nod.filter (· != h) }

def step (s : St) : Op → St
  | .new h => if exists_ s h then s else { s with heaps := h :: s.heaps }
  | .newNoDestroy h => if exists_ s h then s else { s with heaps := h :: s.heaps, nod := h :: s.nod }
  | .alloc h b => if exists_ s h && !(s.owner.any (·.1 == b)) then { s with owner := (b, h) :: s.owner } else s
  | .allocDefault b => if !(s.owner.any (·.1 == b)) then { s with owner := (b, s.dflt) :: s.owner } else s
  | .free b => { s with owner := s.owner.filter (·.1 != b) }
  | .delete h =>
    if h != 0 && s.heaps.contains h then deleteHeap s h else s
  | .destroy h =>
    if h != 0 && s.heaps.contains h then
      if s.nod.contains h then deleteHeap s h            -- not created with allow_destroy: behaves as mi_heap_delete
      else { heaps := s.heaps.filter (· != h), owner := s.owner.filter (·.2 != h), dflt := if s.dflt == h then 0 else s.dflt, nod := s.nod }
    else s
  | .setDefault h => if exists_ s h then { s with dflt := h } else s

end HeapM
