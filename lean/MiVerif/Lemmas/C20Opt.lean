/- helper lemmas for the option-parsing theorems of C20 (model: MiVerif/Model/Options.lean) -/
import MiVerif.Model.Options
namespace C20L
open OptM


def trueWords : List (List Char) := ["1".toList, "TRUE".toList, "YES".toList, "ON".toList]
def falseWords : List (List Char) := ["0".toList, "FALSE".toList, "NO".toList, "OFF".toList]
theorem words_true : splitWords "1;TRUE;YES;ON".toList = trueWords := by decide
theorem words_false : splitWords "0;FALSE;NO;OFF".toList = falseWords := by decide

def unitSuffixes : List (List Char) := [[], ['K'], ['M'], ['G'], ['T']]
def byteSuffixes : List (List Char) := [[], ['I','B'], ['B']]

theorem stripUnit_cases (r : List Char) : ∃ u ∈ unitSuffixes, r = u ++ (stripUnit r).2 := by
  unfold stripUnit; split <;> simp [unitSuffixes]
theorem stripBytes_cases (r : List Char) : ∃ b ∈ byteSuffixes, r = b ++ stripBytes r := by
  unfold stripBytes; split <;> simp [byteSuffixes]

theorem sizeKiB_rest_nil (v : Int) (r : List Char) (h : (sizeKiB v r).2 = []) :
    ∃ u ∈ unitSuffixes, ∃ b ∈ byteSuffixes, r = u ++ b := by
  obtain ⟨u, hu, e1⟩ := stripUnit_cases r
  obtain ⟨b, hb, e2⟩ := stripBytes_cases (stripUnit r).2
  refine ⟨u, hu, b, hb, ?_⟩
  have : stripBytes (stripUnit r).2 = [] := h
  rw [this, List.append_nil] at e2
  rw [← e2]; exact e1

/-- what the buffer of an accepted numeric value looks like -/
def WellFormedNum (sz : Bool) (buf : List Char) : Prop :=
  ∃ ws sgn ds suf, buf = ws ++ (sgn ++ (ds ++ suf)) ∧ (∀ c ∈ ws, isSpace c = true) ∧ (sgn = [] ∨ sgn = ['-'] ∨ sgn = ['+']) ∧
    ds ≠ [] ∧ (∀ c ∈ ds, c.isDigit = true) ∧
    (if sz then ∃ u ∈ unitSuffixes, ∃ b ∈ byteSuffixes, suf = u ++ b else suf = [])

theorem stripSign_cases (t : List Char) : ∃ sgn, t = sgn ++ (stripSign t).2 ∧ (sgn = [] ∨ sgn = ['-'] ∨ sgn = ['+']) := by
  unfold stripSign; split
  · exact ⟨['-'], rfl, by simp⟩
  · exact ⟨['+'], rfl, by simp⟩
  · exact ⟨[], rfl, by simp⟩

theorem mem_takeWhile {p : Char → Bool} {l : List Char} {c : Char} (hc : c ∈ l.takeWhile p) : p c = true := by
  have := @List.all_takeWhile _ p l
  rw [List.all_eq_true] at this; exact this c hc

theorem strtol_shape (buf : List Char) (v : Int) (rest : List Char) (h : strtol buf = (v, rest, true)) :
    ∃ ws sgn ds, buf = ws ++ (sgn ++ (ds ++ rest)) ∧ (∀ c ∈ ws, isSpace c = true) ∧ (sgn = [] ∨ sgn = ['-'] ∨ sgn = ['+']) ∧
    ds ≠ [] ∧ (∀ c ∈ ds, c.isDigit = true) := by
  unfold strtol at h
  simp only at h
  split at h
  · simp at h
  · rename_i hne
    simp only [Prod.mk.injEq, and_true] at h
    obtain ⟨_, hrest⟩ := h
    have hb : buf = buf.takeWhile isSpace ++ buf.dropWhile isSpace := (List.takeWhile_append_dropWhile).symm
    have hws : ∀ c ∈ buf.takeWhile isSpace, isSpace c = true := fun c hc => mem_takeWhile hc
    obtain ⟨sgn, ht, hs⟩ := stripSign_cases (buf.dropWhile isSpace)
    refine ⟨_, sgn, (stripSign (buf.dropWhile isSpace)).2.takeWhile Char.isDigit, ?_, hws, hs, ?_, ?_⟩
    · rw [← hrest, List.takeWhile_append_dropWhile, ← ht]; exact hb
    · intro h0; apply hne; simp [h0]
    · intro c hc; exact mem_takeWhile hc

/-- a value that is accepted (INITIALIZED) is empty, a whole boolean word, or a well-formed number -/
theorem accepted_is_wellformed (sz : Bool) (dflt v : Int) (buf : List Char) (h : parseBuf sz dflt buf = (.initialized, v)) :
    buf = [] ∨ (buf ∈ trueWords ∧ v = 1) ∨ (buf ∈ falseWords ∧ v = 0) ∨ WellFormedNum sz buf := by
  unfold parseBuf at h
  split at h
  · rename_i h1
    simp only [Bool.or_eq_true, List.isEmpty_iff] at h1
    rcases h1 with h1 | h1
    · exact Or.inl h1
    · right; left
      simp only [isWord, words_true, Bool.and_eq_true, List.contains_iff_mem] at h1
      refine ⟨h1.2, ?_⟩; simp at h; exact h.symm
  · split at h
    · rename_i h2
      right; right; left
      simp only [isWord, words_false, Bool.and_eq_true, List.contains_iff_mem] at h2
      refine ⟨h2.2, ?_⟩; simp at h; exact h.symm
    · right; right; right
      cases sz with
      | false =>
        simp only [Bool.false_eq_true, if_false] at h
        split at h
        · rename_i hok
          simp only [Bool.and_eq_true, List.isEmpty_iff] at hok
          obtain ⟨hnil, hd⟩ := hok
          have hst : strtol buf = ((strtol buf).1, [], true) := by
            rw [← hnil, ← hd]
          obtain ⟨ws, sgn, ds, e, h1, h2, h3, h4⟩ := strtol_shape buf _ _ hst
          exact ⟨ws, sgn, ds, [], e, h1, h2, h3, h4, by simp⟩
        · simp at h
      | true =>
        simp only [if_true] at h
        split at h
        · rename_i hok
          simp only [Bool.and_eq_true, List.isEmpty_iff] at hok
          obtain ⟨hnil, hd⟩ := hok
          have hst : strtol buf = ((strtol buf).1, (strtol buf).2.1, true) := by
            rw [← hd]
          obtain ⟨ws, sgn, ds, e, h1, h2, h3, h4⟩ := strtol_shape buf _ _ hst
          exact ⟨ws, sgn, ds, _, e, h1, h2, h3, h4, by simpa using sizeKiB_rest_nil _ _ hnil⟩
        · simp at h



/-- a suffix that `strtol` stops at: empty or starting with a non-digit -/
def StopsDigits (suf : List Char) : Prop := ∀ c r, suf = c :: r → c.isDigit = false

theorem takeWhile_digits (ds suf : List Char) (hd : ∀ c ∈ ds, c.isDigit = true) (hs : StopsDigits suf) :
    (ds ++ suf).takeWhile Char.isDigit = ds ∧ (ds ++ suf).dropWhile Char.isDigit = suf := by
  induction ds with
  | nil =>
    cases suf with
    | nil => simp
    | cons c r => have := hs c r rfl; simp [this]
  | cons d ds ih =>
    have hd' : d.isDigit = true := hd d (by simp)
    have := ih (fun c hc => hd c (by simp [hc]))
    simp [hd', this]

theorem digit_not_space (c : Char) (h : c.isDigit = true) : isSpace c = false ∧ c ≠ '-' ∧ c ≠ '+' := by
  simp only [Char.isDigit, Bool.and_eq_true, decide_eq_true_eq] at h
  have h1 : 48 ≤ c.val.toNat := by have := h.1; exact UInt32.le_iff_toNat_le.mp this
  refine ⟨?_, ?_, ?_⟩
  · simp only [isSpace, Bool.decide_or, Bool.or_eq_false_iff, decide_eq_false_iff_not]
    refine ⟨?_, ?_, ?_, ?_, ?_, ?_⟩ <;> (intro e; subst e; simp at h1)
  · intro e; subst e; simp at h1
  · intro e; subst e; simp at h1

/-- `strtol` on sign ++ digits ++ suffix -/
theorem strtol_num (sgn ds suf : List Char) (hs : sgn = [] ∨ sgn = ['-'] ∨ sgn = ['+']) (hne : ds ≠ [])
    (hd : ∀ c ∈ ds, c.isDigit = true) (hsuf : StopsDigits suf) :
    strtol (sgn ++ (ds ++ suf)) = (clampLong (if sgn = ['-'] then -(digitsVal ds : Int) else (digitsVal ds : Int)), suf, true) := by
  obtain ⟨d0, ds', rfl⟩ := List.exists_cons_of_ne_nil hne
  have hd0 := digit_not_space d0 (hd d0 (by simp))
  obtain ⟨tw, dw⟩ := takeWhile_digits (d0 :: ds') suf hd hsuf
  rcases hs with rfl | rfl | rfl
  · have e1 : ([] ++ (d0 :: ds' ++ suf)).dropWhile isSpace = d0 :: ds' ++ suf := by
      simp [hd0.1]
    have e2 : stripSign (d0 :: ds' ++ suf) = (false, d0 :: ds' ++ suf) := by
      simp only [List.cons_append]
      unfold stripSign; split
      · rename_i h; simp at h; exact absurd h.1 hd0.2.1
      · rename_i h; simp at h; exact absurd h.1 hd0.2.2
      · rfl
    unfold strtol; simp only [e1, e2, tw, dw]; simp
  · have e1 : (['-'] ++ (d0 :: ds' ++ suf)).dropWhile isSpace = '-' :: (d0 :: ds' ++ suf) := by
      simp [isSpace]
    have e2 : stripSign ('-' :: (d0 :: ds' ++ suf)) = (true, d0 :: ds' ++ suf) := rfl
    unfold strtol; simp only [e1, e2, tw, dw]; simp
  · have e1 : (['+'] ++ (d0 :: ds' ++ suf)).dropWhile isSpace = '+' :: (d0 :: ds' ++ suf) := by
      simp [isSpace]
    have e2 : stripSign ('+' :: (d0 :: ds' ++ suf)) = (false, d0 :: ds' ++ suf) := rfl
    unfold strtol; simp only [e1, e2, tw, dw]; simp



/-- documented value of a size in KiB: saturates at MI_MAX_ALLOC_SIZE / KiB -/
def docKiB (kib : Nat) : Int := if kib > MAX_ALLOC then ((MAX_ALLOC / 1024 : Nat) : Int) else (kib : Int)

theorem size_of_clamp (n : Nat) : (if clampLong (n : Int) < 0 then 0 else (clampLong (n : Int)).toNat) = min n 9223372036854775807 := by
  unfold clampLong LONG_MAX LONG_MIN
  by_cases h : (n:Int) > 9223372036854775807
  · rw [if_pos h, if_neg (by omega)]; omega
  · rw [if_neg h, if_neg (by omega), if_neg (by omega)]; omega

theorem sat_mul (n k : Nat) (hk : k = 1 ∨ k = 1024 ∨ k = 1024 * 1024 ∨ k = 1024 * 1024 * 1024) :
    satKiB (decide (min n 9223372036854775807 * k ≥ 2^64)) (min n 9223372036854775807 * k % 2^64) = docKiB (n * k) := by
  unfold satKiB docKiB MAX_ALLOC LONG_MAX
  have h64 : (2:Nat)^64 = 18446744073709551616 := by decide
  rw [h64]
  rcases hk with rfl | rfl | rfl | rfl <;>
  · by_cases hn : n ≤ 281474976710656
    · have : min n 9223372036854775807 = n := by omega
      rw [this]
      simp only [Bool.or_eq_true, decide_eq_true_eq]
      split <;> split <;> omega
    · have : min n 9223372036854775807 ≥ 281474976710656 := by omega
      simp only [Bool.or_eq_true, decide_eq_true_eq]
      split <;> split <;> omega

theorem sat_div (n : Nat) :
    satKiB false ((min n 9223372036854775807 + 1023) / 1024) = docKiB ((n + 1023) / 1024) := by
  unfold satKiB docKiB MAX_ALLOC LONG_MAX
  simp only [Bool.false_or, decide_eq_true_eq]
  by_cases hn : n ≤ 9223372036854775807
  · have : min n 9223372036854775807 = n := by omega
    rw [this]; split <;> split <;> omega
  · have : min n 9223372036854775807 = 9223372036854775807 := by omega
    rw [this]; split <;> split <;> omega

/-- KiB denoted by `n` with unit suffix `u` (no unit: bytes, rounded up) -/
def kibOf (n : Nat) (u : List Char) : Nat :=
  if u = ['K'] then n else if u = ['M'] then n * 1024 else if u = ['G'] then n * (1024 * 1024)
  else if u = ['T'] then n * (1024 * 1024 * 1024) else (n + 1023) / 1024

theorem not_words (buf : List Char) (h1 : buf ≠ []) (ht : buf ∉ trueWords) (hf : buf ∉ falseWords) :
    (buf.isEmpty || isWord "1;TRUE;YES;ON".toList buf) = false ∧ isWord "0;FALSE;NO;OFF".toList buf = false := by
  simp only [isWord, words_true, words_false, Bool.or_eq_false_iff, Bool.and_eq_false_iff, List.isEmpty_eq_false_iff, List.contains_eq_mem]
  exact ⟨⟨h1, Or.inr (by simpa using ht)⟩, Or.inr (by simpa using hf)⟩

theorem parse_decimal (dflt : Int) (sgn ds : List Char) (hs : sgn = [] ∨ sgn = ['-'] ∨ sgn = ['+']) (hne : ds ≠ [])
    (hd : ∀ c ∈ ds, c.isDigit = true) (ht : sgn ++ ds ∉ trueWords) (hf : sgn ++ ds ∉ falseWords) :
    parseBuf false dflt (sgn ++ ds) = (.initialized, clampLong (if sgn = ['-'] then -(digitsVal ds : Int) else (digitsVal ds : Int))) := by
  have hnw := not_words (sgn ++ ds) (by simp [hne]) ht hf
  have hst := strtol_num sgn ds [] hs hne hd (by intro c r h; cases h)
  rw [List.append_nil] at hst
  unfold parseBuf
  rw [hnw.1, hnw.2, hst]
  simp

theorem parse_size (dflt : Int) (ds u b : List Char) (hne : ds ≠ []) (hd : ∀ c ∈ ds, c.isDigit = true)
    (hu : u ∈ unitSuffixes) (hb : b ∈ byteSuffixes) (ht : ds ++ (u ++ b) ∉ trueWords) (hf : ds ++ (u ++ b) ∉ falseWords) :
    parseBuf true dflt (ds ++ (u ++ b)) = (.initialized, docKiB (kibOf (digitsVal ds) u)) := by
  have hnw := not_words (ds ++ (u ++ b)) (by simp [hne]) ht hf
  have hstop : StopsDigits (u ++ b) := by
    intro c r h
    simp only [unitSuffixes, byteSuffixes, List.mem_cons, List.not_mem_nil, or_false] at hu hb
    rcases hu with rfl | rfl | rfl | rfl | rfl <;> rcases hb with rfl | rfl | rfl <;> simp at h <;> (obtain ⟨rfl, _⟩ := h; decide)
  have hst := strtol_num [] ds (u ++ b) (Or.inl rfl) hne hd hstop
  simp only [List.nil_append, List.cons_ne_nil, if_false] at hst
  unfold parseBuf
  rw [hnw.1, hnw.2, hst]
  simp only [Bool.false_eq_true, if_false, if_true]
  have hsz := size_of_clamp (digitsVal ds)
  simp only [unitSuffixes, byteSuffixes, List.mem_cons, List.not_mem_nil, or_false] at hu hb
  have hK := sat_mul (digitsVal ds) 1 (Or.inl rfl)
  have hM := sat_mul (digitsVal ds) 1024 (Or.inr (Or.inl rfl))
  have hG := sat_mul (digitsVal ds) (1024*1024) (Or.inr (Or.inr (Or.inl rfl)))
  have hT := sat_mul (digitsVal ds) (1024*1024*1024) (Or.inr (Or.inr (Or.inr rfl)))
  have hN := sat_div (digitsVal ds)
  rcases hu with rfl | rfl | rfl | rfl | rfl <;> rcases hb with rfl | rfl | rfl <;>
    simp [sizeKiB, stripUnit, stripBytes, kibOf, hsz, hK, hM, hG, hT, hN] <;> simp_all

end C20L
