import MiVerif.Lemmas.PageMore
import MiVerif.Model.SegmentInv
/- correspondence driver for C01: replays the micro-steps of real pages / a real segment through PageM / SegM and compares the
   state after every step; evaluates the executable invariants on every state and on snapshots of real pages -/
namespace C01Val
open PageM

def parseList (s : String) : List Nat :=       -- "name=[1,2,3]"
  match s.splitOn "=[" with
  | [_, r] => let body := (r.dropEnd 1).toString
              if body.isEmpty then [] else (body.splitOn ",").map String.toNat!
  | _ => []
def parseKV (s : String) : Nat := match s.splitOn "=" with | [_, v] => v.toNat! | _ => 0

structure PState where
  cap : Nat
  res : Nat
  used : Nat
  free : List Nat
  lf : List Nat
  tf : List Nat
deriving BEq

def parsePState (ws : List String) : Option PState :=
  match ws with
  | [c, r, u, f, l, t] => some { cap := parseKV c, res := parseKV r, used := parseKV u, free := parseList f, lf := parseList l, tf := parseList t }
  | _ => none

def obs (p : Page) : PState := { cap := p.capacity, res := p.reserved, used := p.used, free := p.free, lf := p.lf, tf := p.tf }

structure St where
  page : Option Page := none
  seg : Option SegM.Seg := none
  pending : Option (String × String) := none     -- expected S/Q lines of the segment model
  n : Nat := 0
  d : Nat := 0
  invBad : Nat := 0
  snaps : Nat := 0

def pageOp (p : Page) (op : List String) : Option Page :=
  match op with
  | ["pop", i] => match pop p with
      | some (b, p') => if b == i.toNat! then some p' else none
      | none => none
  | ["free", i] => if i.toNat! ∈ p.live then some (freeLocal p i.toNat!) else none
  | ["rfree", i] => if i.toNat! ∈ p.live then some (freeRemote p i.toNat!) else none
  | ["tfcollect"] => some (tfCollect p)
  | ["collect", "0"] => some (lfCollect (tfCollect p))
  | ["collect", "1"] => some (lfCollectForce (tfCollect p))
  | ["collect+extend", n] => let q := lfCollect (tfCollect p); if q.capacity + n.toNat! ≤ q.reserved ∧ q.free.isEmpty then some (extend q n.toNat!) else none
  | ["extend", n] => if p.capacity + n.toNat! ≤ p.reserved then some (extend p n.toNat!) else none
  | ["visit", u, l] =>
      -- _mi_heap_area_visit_blocks first force-collects the page, then reports every block that is not on the free list, in address order
      let q := lfCollectForce (tfCollect p)
      let vis := visitList q
      let seen := parseList ("x=" ++ l)
      -- (`area.used` is taken before the collect: it still counts blocks on the thread-free list)
      if vis == seen && parseKV u == p.used then some q else none
  | ["nop"] => some p
  | _ => none

partial def loop (h : IO.FS.Stream) (st : St) : IO St := do
  let line ← h.getLine
  if line.isEmpty then return st
  let line := line.trimAscii.toString
  let ws := (line.splitOn " ").filter (· ≠ "")
  match ws with
  | "PG" :: rest =>
    match rest.span (· ≠ "->") with
    | (op, _ :: obsWs) =>
      match parsePState obsWs with
      | none => IO.println s!"UNPARSED {line.take 200}"; loop h { st with d := st.d + 1 }
      | some o =>
        if op.head? == some "new" then
          -- initial state of a fresh page as the implementation reports it: block 0 is held
          let p : Page := { reserved := o.res, capacity := o.cap, used := o.used, free := o.free, lf := o.lf, tf := o.tf, live := [0] }
          let bad := if invB p then 0 else 1
          if bad == 1 && st.invBad < 5 then IO.println s!"INVARIANT {line.take 300}"
          loop h { st with page := some p, n := st.n + 1, invBad := st.invBad + bad }
        else
          match st.page with
          | none => loop h st
          | some p =>
            match pageOp p op with
            | none =>
              if st.d < 20 then IO.println s!"DIFF {line.take 300} || operation not enabled in the model"
              loop h { st with page := none, n := st.n + 1, d := st.d + 1 }
            | some p' =>
              let ok := obs p' == o
              if !ok && st.d < 20 then IO.println s!"DIFF {line.take 300} || model: cap={p'.capacity} used={p'.used} free={p'.free.take 12} lf={p'.lf.take 12} tf={p'.tf.take 12}"
              let bad := if invB p' then 0 else 1
              if bad == 1 && st.invBad < 5 then IO.println s!"INVARIANT {line.take 300}"
              loop h { st with page := if ok then some p' else none, n := st.n + 1, d := if ok then st.d else st.d + 1, invBad := st.invBad + bad }
    | _ => loop h st
  | ["SEG", "init", e, i] =>
    let g := SegM.init e.toNat! i.toNat!
    loop h { st with seg := some g, pending := some (SegM.dumpS g, SegM.dumpQ g) }
  | "SEG" :: op =>
    match st.seg with
    | none => loop h st
    | some g =>
      let (g', okRes) := match op with
        | ["alloc", n, "->", r] => let (g', res) := SegM.findAndAllocate g n.toNat!
                                   (g', (match res with | some i => toString i | none => "-1") == r)
        | ["clear", i] => (SegM.pageClear g i.toNat!, true)
        | _ => (g, true)
      if !okRes && st.d < 20 then IO.println s!"DIFF {line} || model result differs"
      let bad := if SegM.tilingOk g' then 0 else 1
      if bad == 1 && st.invBad < 5 then IO.println s!"INVARIANT tilingOk fails after {line}"
      loop h { st with seg := some g', pending := some (SegM.dumpS g', SegM.dumpQ g'), n := st.n + 1, d := if okRes then st.d else st.d + 1, invBad := st.invBad + bad }
  | "S" :: _ =>
    match st.pending with
    | some (s, _) =>
      let ok := s.trimAscii.toString == line
      if !ok && st.d < 20 then IO.println s!"DIFF slices {line.take 200} || model {s.take 200}"
      loop h { st with d := if ok then st.d else st.d + 1, seg := if ok then st.seg else none }
    | none => loop h st
  | "Q" :: _ =>
    match st.pending with
    | some (_, q) =>
      let ok := q.trimAscii.toString == line
      if !ok && st.d < 20 then IO.println s!"DIFF queues {line.take 200} || model {q.take 200}"
      loop h { st with d := if ok then st.d else st.d + 1, pending := none, seg := if ok then st.seg else none }
    | none => loop h st
  | "PS" :: rest =>
    match rest with
    | [c, r, u, f, l, t, lv] =>
      let p : Page := { reserved := parseKV r, capacity := parseKV c, used := parseKV u, free := parseList f, lf := parseList l, tf := parseList t, live := parseList lv }
      let bad := if invB p then 0 else 1
      if bad == 1 && st.invBad < 5 then IO.println s!"INVARIANT {line.take 300}"
      loop h { st with snaps := st.snaps + 1, invBad := st.invBad + bad }
    | _ => loop h st
  | _ => loop h st

def main (stdin : IO.FS.Stream) : IO UInt32 := do
  let st ← loop stdin {}
  IO.println s!"c01val steps {st.n} diffs {st.d} snapshots {st.snaps} invariant_violations {st.invBad}"
  return (if st.d == 0 && st.invBad == 0 then 0 else 1)

end C01Val
