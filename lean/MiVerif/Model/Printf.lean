-- executable model of the bounded string writers of src/libc.c: _mi_strlcpy, _mi_strlcat, _mi_vsnprintf
-- (mi_outc / mi_outs / mi_out_fill / mi_out_alignright / mi_out_num and the format loop with its MI_NEXTC early exits).
-- `out` is the list of characters written so far (its length is the C pointer `out - buf`), `cap = bufsize - 1`
-- (the C pointer `end - buf`); `oob` records any store at an index ≥ the number of characters written, i.e. outside
-- the part of the buffer the writer owns.  Tied to the real functions by harness/c20.c under AddressSanitizer.
namespace PfM

inductive Arg where
  | str (s : Option (List Char))
  | num (v : Int)          -- already converted to the C type the conversion reads
deriving Inhabited

structure W where
  out : List Char
  cap : Nat
  oob : Bool := false

def outc (w : W) (c : Char) : W := if w.out.length < w.cap then { w with out := w.out ++ [c] } else w
def outs (w : W) (s : List Char) : W := s.foldl outc w
/-- mi_out_fill: the loop `for (i = 0; i < n && p < end; i++)` runs `min n (cap - length)` times -/
def outFill (w : W) (fill : Char) (n : Nat) : W := outs w (List.replicate (min n (w.cap - w.out.length)) fill)

/-- mi_out_alignright: move `len` chars at `start` right by `extra`, fill the gap -/
def alignRight (w : W) (fill : Char) (start len extra : Nat) : W :=
  if len = 0 ∨ extra = 0 then w
  else if start + len + extra ≥ w.cap then w
  else
    let a := (List.range len).foldl (fun (a : List Char) k => a.set (start + len + extra - (k + 1)) (a.getD (start + len - (k + 1)) ' ')) w.out
    let a := (List.range extra).foldl (fun (a : List Char) i => a.set (start + i) fill) a
    { w with out := a, oob := w.oob || decide (start + len + extra > w.out.length) }

def digitChar (d : Nat) : Char := if d ≤ 9 then Char.ofNat (48 + d) else Char.ofNat (65 + d - 10)

def digits (base : Nat) : Nat → Nat → W → W
  | 0, _, w => w
  | fuel + 1, x, w => if x = 0 then w else digits base fuel (x / base) (outc w (digitChar (x % base)))

def outPre (w : W) (pre : Option Char) : W := match pre with | some p => outc w p | none => w

/-- mi_out_num -/
def outNum (w : W) (x : Nat) (base : Nat) (pre : Option Char) : W :=
  if x = 0 ∨ base = 0 ∨ base > 16 then outc (outPre w pre) '0'
  else
    let start := w.out.length
    let w := outPre (digits base 70 x w) pre
    { w with out := w.out.take start ++ (w.out.drop start).reverse }   -- reverse in place

def printable (c : Char) : Bool := (' ' ≤ c ∧ c ≤ '~') || c = '\n' || c = '\r' || c = '\t'

def UINT32_MAX : Nat := 4294967295

structure Spec where
  numplus : Option Char
  alignright : Bool
  fill : Char
  width : Nat
  conv : Char

/-- MI_NEXTC: the next character, or stop at the end of the format -/
def next : List Char → Option (Char × List Char)
  | [] => none
  | c :: r => some (c, r)

def widthLoop : Nat → Nat → Char → List Char → Option (Nat × Char × List Char)
  | 0, width, c, inp => some (width, c, inp)
  | fuel + 1, width, c, inp =>
    if '0' ≤ c ∧ c ≤ '9' then
      match next inp with
      | none => none
      | some (d, r) => widthLoop fuel (10 * width + (c.toNat - 48)) d r
    else some (width, c, inp)

/-- flags, width and length modifier after a `%`; `c` is the character after the `%` -/
def parseSpec (c : Char) (inp : List Char) : Option (Spec × List Char) := do
  let (numplus, c, inp) ← if c = '+' ∨ c = ' ' then (do let (d, r) ← next inp; pure (some c, d, r)) else pure (none, c, inp)
  let (alignright, c, inp) ← if c = '-' then (do let (d, r) ← next inp; pure (false, d, r)) else pure (true, c, inp)
  let (fill, c, inp) ← if c = '0' then (do let (d, r) ← next inp; pure ('0', d, r)) else pure (' ', c, inp)
  let (width, c, inp) ← if '1' ≤ c ∧ c ≤ '9' then (do let (d, r) ← next inp; widthLoop (r.length + 1) (c.toNat - 48) d r) else pure (0, c, inp)
  let (c, inp) ←
    if c = 'z' ∨ c = 't' ∨ c = 'L' then next inp
    else if c = 'l' then (do let (d, r) ← next inp; if d = 'l' then next r else pure (d, r))
    else pure (c, inp)
  pure ({ numplus, alignright, fill, width, conv := c }, inp)

def popNum : List Arg → Int × List Arg
  | Arg.num v :: rest => (v, rest)
  | _ :: rest => (0, rest)
  | [] => (0, [])

structure Conv where
  w : W
  start : Nat
  width : Nat
  fill : Char
  args : List Arg

/-- `%p`: the `0x` prefix, start after it, width reduced by 2 -/
def ptrPrefix (w : W) (width : Nat) : W × Nat × Nat :=
  let w := outs w ['0', 'x']; (w, w.out.length, if width ≥ 2 then width - 2 else 0)

/-- default width / fill of `%x` and `%p` without an explicit width -/
def hexWidth (c : Char) (x width : Nat) (fill : Char) : Nat × Char :=
  if width = 0 ∧ (c = 'x' ∨ c = 'p') then
    let width := if c = 'p' then 2 * (if x ≤ UINT32_MAX then 4 else if x / 65536 ≤ UINT32_MAX then 6 else 8) else width
    (if width = 0 then 2 else width, '0')
  else (width, fill)

/-- the conversion proper -/
def convert (w : W) (sp : Spec) (args : List Arg) : Conv :=
  let c := sp.conv
  if c = 's' then
    match args with
    | Arg.str (some s) :: rest => { w := outs w s, start := w.out.length, width := sp.width, fill := sp.fill, args := rest }
    | _ :: rest => { w := w, start := w.out.length, width := sp.width, fill := sp.fill, args := rest }
    | [] => { w := w, start := w.out.length, width := sp.width, fill := sp.fill, args := [] }
  else if c = 'p' ∨ c = 'x' ∨ c = 'u' then
    let x := (popNum args).1.toNat
    let pw : W × Nat × Nat := if c = 'p' then ptrPrefix w sp.width else (w, w.out.length, sp.width)
    let wf := hexWidth c x pw.2.2 sp.fill
    { w := outNum pw.1 x (if c = 'x' ∨ c = 'p' then 16 else 10) sp.numplus, start := pw.2.1, width := wf.1, fill := wf.2, args := (popNum args).2 }
  else if c = 'i' ∨ c = 'd' then
    let x := (popNum args).1
    { w := outNum w x.natAbs 10 (if x < 0 then some '-' else sp.numplus), start := w.out.length, width := sp.width, fill := sp.fill, args := (popNum args).2 }
  else if ' ' ≤ c ∧ c ≤ '~' then
    { w := outc (outc w '%') c, start := w.out.length, width := sp.width, fill := sp.fill, args := args }
  else { w := w, start := w.out.length, width := sp.width, fill := sp.fill, args := args }

/-- fill & align after a conversion that started at `start` -/
def fillAlign (w : W) (start width : Nat) (fill : Char) (ar : Bool) : W :=
  let len := w.out.length - start
  if len < width then
    let w := outFill w fill (width - len)
    if ar then alignRight w fill start len (width - len) else w
  else w

/-- one conversion: output, then fill & align -/
def emit (w : W) (sp : Spec) (args : List Arg) : W × List Arg :=
  let r := convert w sp args
  (fillAlign r.w r.start r.width r.fill sp.alignright, r.args)

/-- the format loop (fuel = an upper bound on the number of iterations) -/
def go : Nat → W → List Char → List Arg → W
  | 0, w, _, _ => w
  | fuel + 1, w, inp, args =>
    if w.out.length ≥ w.cap then w else
    match inp with
    | [] => w
    | c :: inp =>
      if c ≠ '%' then go fuel (if printable c then outc w c else w) inp args
      else
        match inp with
        | [] => w
        | c :: inp =>
          match parseSpec c inp with
          | none => w
          | some (sp, inp) => go fuel (emit w sp args).1 inp (emit w sp args).2

structure Result where
  len : Nat            -- return value
  text : List Char     -- buf[0..len)
  termAt : Nat         -- index of the terminating NUL store
  oob : Bool           -- some store outside the owned part of the buffer

def vsnprintf (bufsize : Nat) (fmt : List Char) (args : List Arg) : Result :=
  if bufsize = 0 then { len := 0, text := [], termAt := 0, oob := false } else
    let w := go (fmt.length + 1) { out := [], cap := bufsize - 1 } fmt args
    { len := w.out.length, text := w.out, termAt := w.out.length, oob := w.oob }

/-- every width field of the format has at most 18 digits (so `width` cannot wrap a 64-bit `size_t`) -/
def widthsOk : List Char → Bool
  | [] => true
  | c :: r => (((c :: r).takeWhile Char.isDigit).length ≤ 18) && widthsOk r

/-- _mi_strlcpy(dest, src, n): list of stores (index, char); 0 is the terminator -/
def strlcpy (src : List Char) (n : Nat) : List (Nat × Char) :=
  if n = 0 then [] else
    let k := min src.length (n - 1)
    (List.range k).map (fun i => (i, src.getD i ' ')) ++ [(k, '\x00')]

/-- _mi_strlcat(dest, src, n) with `dlen` = current length of the string in dest -/
def strlcat (dlen : Nat) (src : List Char) (n : Nat) : List (Nat × Char) :=
  if n = 0 then [] else
    let d := min dlen (n - 1)
    (strlcpy src (n - d)).map (fun p => (d + p.1, p.2))

/-- mi_heap_buf_print on a caller-supplied buffer (can_realloc = false): (stores as indices with their char, new `used`).
    `mi_heap_buf_expand` only writes the terminator at `size-1` and fails. -/
def heapBufPrint (size used : Nat) (msg : List Char) : List (Nat × Char) × Nat :=
  if used + 1 ≥ size then ([], used) else go size used msg []
where
  go (size used : Nat) : List Char → List (Nat × Char) → List (Nat × Char) × Nat
    | [], acc => (acc ++ [(used, '\x00')], used)
    | c :: r, acc =>
      if used + 1 ≥ size then (if size > 0 then acc ++ [(size - 1, '\x00')] else acc, used)
      else go size (used + 1) r (acc ++ [(used, c)])

def MAX_DELAY_OUTPUT : Nat := 16 * 1024

/-- mi_out_buf: (index range [start, start+n) copied into out_buf[MAX_DELAY_OUTPUT+1], new out_len) -/
def outBuf (outLen n : Nat) : Option (Nat × Nat) × Nat :=
  if outLen ≥ MAX_DELAY_OUTPUT then (none, outLen)
  else if n = 0 then (none, outLen)
  else
    let start := outLen
    let n' := if start + n ≥ MAX_DELAY_OUTPUT then MAX_DELAY_OUTPUT - start - 1 else n
    (some (start, n'), outLen + n)

/-- mi_out_buf_flush: index of the terminator store -/
def outBufFlushIndex (outLen : Nat) : Nat := if outLen > MAX_DELAY_OUTPUT then MAX_DELAY_OUTPUT else outLen

end PfM
