// C01 correspondence harness (white box: includes src/static.c).
//   mode "page <seed> <steps>": direct drive of the page micro-steps (_mi_page_malloc_zero, mi_free -> mi_free_block_local,
//        remote free from another thread, _mi_page_thread_free_collect, _mi_page_free_collect(force 0/1), mi_page_extend_free)
//        on pages of several size classes; the three lists, capacity, reserved, used are printed after every step  -> PageM
//   mode "seg <seed> <steps>": direct drive of mi_segments_page_find_and_allocate / mi_segment_page_clear on a dedicated
//        segment; raw slice array and all span queues after every step                                              -> SegM
//   mode "snap <seed> <ops>": random API history; every page of every heap of the thread is dumped at sampled points together
//        with the shadow set of blocks the program holds                                                           -> PageM.invB
#include VERIF_STATIC_C
#include <stdio.h>
#include <pthread.h>
static uint64_t rs = 88172645463325252ULL;
static uint64_t rnd(void) { rs ^= rs << 13; rs ^= rs >> 7; rs ^= rs << 17; return rs; }

// ---------------------------------------------------------------- page
static void dump_list(const char* name, mi_page_t* page, mi_block_t* b) {
  printf(" %s=[", name); int first = 1; size_t guard = 0;
  uint8_t* start = mi_page_start(page); size_t bs = mi_page_block_size(page);
  for (; b != NULL && guard < 70000; b = mi_block_next(page, b), guard++) { printf("%s%zu", first ? "" : ",", (size_t)(((uint8_t*)b - start) / bs)); first = 0; }
  printf("]");
}
static void dump_page(mi_page_t* page) {
  printf(" -> cap=%u res=%u used=%u", (unsigned)page->capacity, (unsigned)page->reserved, (unsigned)page->used);
  dump_list("free", page, page->free); dump_list("lf", page, page->local_free);
  dump_list("tf", page, mi_tf_block(mi_atomic_load_relaxed(&page->xthread_free)));
  printf("\n");
}
static void* remote_free(void* p) { mi_free(p); return NULL; }
// heap walk of one page (C12): the indices handed to the visitor
static size_t vis_idx[70000]; static size_t vis_n; static uint8_t* vis_start; static size_t vis_bs;
static bool vis_fn(const mi_heap_t* h, const mi_heap_area_t* a, void* b, size_t bsz, void* arg) { (void)h; (void)a; (void)bsz; (void)arg; if (b && vis_n < 70000) vis_idx[vis_n++] = (size_t)(((uint8_t*)b - vis_start) / vis_bs); return true; }
static void page_mode(long steps) {
  static const size_t BS[] = { 8, 16, 48, 64, 112, 320, 1024, 4096, 20000, 70000 };
  for (int c = 0; c < 10; c++) {
    mi_heap_t* h = mi_heap_new();
    size_t bsize = BS[c];
    enum { MAXH = 9000 }; static void* held[MAXH]; int nh = 0;
    held[nh++] = mi_heap_malloc(h, bsize);
    mi_page_t* page = _mi_ptr_page(held[0]);
    uint8_t* start = mi_page_start(page); size_t bs = mi_page_block_size(page);
    // remote frees of this harness take the direct push on the page's thread-free list (the delayed route through the heap is
    // the subject of C02/C08): establish the corresponding flag state first
    _mi_page_use_delayed_free(page, MI_NO_DELAYED_FREE, false);
    printf("PG new %zu", bs); dump_page(page);
    long per = steps / 10;
    for (long st = 0; st < per; st++) {
      unsigned op = (unsigned)(rnd() % 100);
      if (op < 45 && nh < MAXH) {
        if (page->free != NULL) {
          void* b = _mi_page_malloc_zero(h, page, bsize, false);
          held[nh++] = b; printf("PG pop %zu", (size_t)(((uint8_t*)b - start) / bs));
        } else {
          _mi_page_free_collect(page, false);
          if (page->free != NULL) { printf("PG collect 0"); }
          else if (page->capacity < page->reserved) { unsigned c0 = page->capacity; mi_page_extend_free(h, page, h->tld); printf("PG collect+extend %u", (unsigned)(page->capacity - c0)); }
          else { printf("PG collect 0"); }
        }
      } else if (op < 75) {
        if (nh <= 1) { printf("PG nop"); } else { int k = 1 + (int)(rnd() % (nh - 1)); void* b = held[k]; held[k] = held[--nh]; mi_free(b); printf("PG free %zu", (size_t)(((uint8_t*)b - start) / bs)); }
      } else if (op < 85) {
        if (nh <= 1) { printf("PG nop"); } else { int k = 1 + (int)(rnd() % (nh - 1)); void* b = held[k]; held[k] = held[--nh]; pthread_t t; pthread_create(&t, NULL, &remote_free, b); pthread_join(t, NULL); printf("PG rfree %zu", (size_t)(((uint8_t*)b - start) / bs)); }
      } else if (op < 87) { _mi_page_thread_free_collect(page); printf("PG tfcollect");
      } else if (op < 90) { mi_heap_area_ex_t xa; _mi_heap_area_init(&xa.area, page); xa.page = page; vis_n = 0; vis_start = start; vis_bs = bs;
        _mi_heap_area_visit_blocks(&xa.area, page, &vis_fn, NULL);
        printf("PG visit used=%zu [", xa.area.used); for (size_t i = 0; i < vis_n; i++) printf("%s%zu", i ? "," : "", vis_idx[i]); printf("]");
      } else if (op < 95) { _mi_page_free_collect(page, false); printf("PG collect 0");
      } else if (op < 98) { _mi_page_free_collect(page, true); printf("PG collect 1");
      } else { if (page->capacity < page->reserved) { unsigned c0 = page->capacity; mi_page_extend_free(h, page, h->tld); printf("PG extend %u", (unsigned)(page->capacity - c0)); } else printf("PG nop"); }
      dump_page(page);
    }
    for (int i = 0; i < nh; i++) mi_free(held[i]);
    mi_heap_delete(h);
  }
}

// ---------------------------------------------------------------- free-list extension (translator validation for the loop translation)
// mode "ext <seed> <n>": the real mi_page_free_list_extend on pages of several size classes, with 1..40 fresh blocks at a time and
// whatever free list the page has; prints area, capacity, block size, count, old list head -> new head, the chain, what follows it
static void ext_mode(long n) {
  static const size_t BS[] = { 8, 16, 48, 64, 112, 320, 1024, 4096 };
  long lines = 0;
  for (int c = 0; c < 8 && lines < n; c++) {
    mi_heap_t* h = mi_heap_new();
    size_t bsize = BS[c];
    void* first = mi_heap_malloc(h, bsize);
    mi_page_t* page = _mi_ptr_page(first);
    uint8_t* start = mi_page_start(page); size_t bs = mi_page_block_size(page);
    while (page->capacity < page->reserved && lines < n) {
      size_t room = (size_t)(page->reserved - page->capacity);
      size_t ext = 1 + (size_t)(rnd() % 40); if (ext > room) ext = room;
      size_t cap = page->capacity; mi_block_t* old = page->free;
      mi_page_free_list_extend(page, bs, ext, &h->tld->stats);
      page->capacity = (uint16_t)(page->capacity + ext);
      printf("EXT %zu %zu %zu %zu %zu ->", (size_t)(uintptr_t)start, cap, bs, ext, (size_t)(uintptr_t)old);
      mi_block_t* b = page->free;
      for (size_t i = 0; i < ext && b != NULL; i++) { printf(" %zu", (size_t)(uintptr_t)b); b = mi_block_next(page, b); }
      printf(" | %zu\n", (size_t)(uintptr_t)b);
      lines++;
      if (rnd() % 3 == 0) page->free = NULL;        // the usual situation at the call site: the free list is empty (blocks dropped here are never used)
    }
    // the page is not used again: blocks dropped from the list above would otherwise be lost to it (the heap is abandoned to process exit)
  }
}

// ---------------------------------------------------------------- pages filled to capacity (implementation-side oracle)
// mode "fill <seed> <n>": for every small / medium size class a fresh heap allocates enough blocks to fill several pages completely
// (interleaved with blocks of other classes, so that neighbouring pages are in use), writes a pattern over the whole usable size of
// every block, and checks that no two live blocks overlap and that every pattern is intact
typedef struct fb_s { uint8_t* p; size_t us; uint32_t pat; } fb_t;
static int fb_cmp(const void* a, const void* b) { const fb_t* x = (const fb_t*)a; const fb_t* y = (const fb_t*)b; return x->p < y->p ? -1 : (x->p > y->p ? 1 : 0); }
static int nfill_fail = 0;
static void fill_mode(long n) {
  static const size_t BS[] = { 8, 16, 24, 32, 40, 48, 56, 64, 80, 96, 112, 128, 160, 192, 256, 320, 512, 1024, 2048, 4096, 8192 };
  static fb_t blk[140000];
  for (int c = 0; c < 21; c++) {
    mi_heap_t* h = mi_heap_new();
    size_t bs = BS[c];
    size_t pagesz = (bs <= MI_SMALL_OBJ_SIZE_MAX ? MI_SMALL_PAGE_SIZE : MI_MEDIUM_PAGE_SIZE);
    long want = (long)(3 * pagesz / bs) + 64; if (want > 100000) want = 100000; if (n > 0 && want > n) want = n;
    long nb = 0;
    for (long i = 0; i < want; i++) {
      size_t req = bs - (size_t)(rnd() % (bs < 16 ? bs : 8));                     // any request size of the class
      uint8_t* p = (uint8_t*)mi_heap_malloc(h, req ? req : 1);
      if (p == NULL) { printf("FAIL c01_alloc_failed fill class %zu\n", bs); nfill_fail++; break; }
      blk[nb].p = p; blk[nb].us = mi_usable_size(p); blk[nb].pat = (uint32_t)rnd(); nb++;
      if (i % 97 == 0) { size_t o = BS[(c + 5 + i / 97) % 21]; uint8_t* q = (uint8_t*)mi_heap_malloc(h, o); if (q) { blk[nb].p = q; blk[nb].us = mi_usable_size(q); blk[nb].pat = (uint32_t)rnd(); nb++; } }
    }
    for (long i = 0; i < nb; i++) memset(blk[i].p, (int)(blk[i].pat & 0xff), blk[i].us);
    long bad = 0;
    for (long i = 0; i < nb && bad < 3; i++) for (size_t j = 0; j < blk[i].us; j += (blk[i].us > 64 ? 61 : 1)) if (blk[i].p[j] != (uint8_t)(blk[i].pat & 0xff)) { printf("FAIL c01_content_changed fill class %zu: block %ld [%p,+%zu) byte %zu was overwritten by a later block\n", bs, i, (void*)blk[i].p, blk[i].us, j); bad++; nfill_fail++; break; }
    qsort(blk, (size_t)nb, sizeof(fb_t), fb_cmp);
    for (long i = 0; i + 1 < nb; i++) if (blk[i].p + blk[i].us > blk[i + 1].p) { printf("FAIL c01_overlap fill class %zu: live blocks [%p,+%zu) and [%p,+%zu) overlap (%ld blocks of the class allocated)\n", bs, (void*)blk[i].p, blk[i].us, (void*)blk[i + 1].p, blk[i + 1].us, want); nfill_fail++; break; }
    printf("FILL %zu %ld\n", bs, nb);
    for (long i = 0; i < nb; i++) mi_free(blk[i].p);
    mi_heap_delete(h);
  }
  printf("STAT fill_failures %d\n", nfill_fail);
}

// ---------------------------------------------------------------- segment
static mi_segment_t* SEG; static mi_segments_tld_t* TLD;
static void dump_seg(void) {
  printf("S used=%zu entries=%zu :", SEG->used, SEG->slice_entries);
  for (size_t i = 0; i <= SEG->slice_entries; i++) { mi_slice_t* s = &SEG->slices[i]; if (s->slice_count || s->slice_offset || s->block_size) printf(" %zu:%u,%zu,%d", i, s->slice_count, (size_t)s->slice_offset / sizeof(mi_slice_t), s->block_size > 0); }
  printf("\nQ");
  for (int b = 0; b <= MI_SEGMENT_BIN_MAX; b++) { mi_slice_t* s = TLD->spans[b].first; if (!s) continue; printf(" %d:[", b); for (; s; s = s->next) printf("%zu%s", (size_t)(s - SEG->slices), s->next ? "," : ""); printf("]"); }
  printf("\n");
}
static void seg_mode(long steps) {
  mi_option_set(mi_option_purge_delay, -1);     // the slice map is the subject here, not purging
  static mi_tld_t tld0; static mi_segments_tld_t* t;
  mi_heap_t* h = mi_heap_get_default();
  // a private span-queue table so that only our dedicated segment is in the queues
  static mi_segments_tld_t mytld; mytld = h->tld->segments; for (int b = 0; b <= MI_SEGMENT_BIN_MAX; b++) { mytld.spans[b].first = NULL; mytld.spans[b].last = NULL; }
  TLD = &mytld; (void)tld0; (void)t;
  SEG = mi_segment_alloc(0, 0, _mi_arena_id_none(), TLD, NULL);
  printf("SEG init %zu %zu\n", SEG->slice_entries, SEG->segment_info_slices); dump_seg();
  enum { MAXP = 600 }; static mi_page_t* pages[MAXP]; int np = 0;
  for (long st = 0; st < steps; st++) {
    unsigned op = (unsigned)(rnd() % 100);
    if ((op < 55 && np < MAXP) || np == 0) {
      size_t n; unsigned k = (unsigned)(rnd() % 10); if (k < 5) n = 1; else if (k < 8) n = 8; else if (k < 9) n = 1 + (size_t)(rnd() % 40); else n = 1 + (size_t)(rnd() % 256);
      // only search our own segment: the queues of `mytld` hold no other segment
      mi_page_t* p = mi_segments_page_find_and_allocate(n, _mi_arena_id_none(), TLD);
      printf("SEG alloc %zu -> %ld\n", n, p ? (long)((mi_slice_t*)p - SEG->slices) : -1L);
      if (p) pages[np++] = p;
    } else {
      int i = (int)(rnd() % np); mi_page_t* p = pages[i]; pages[i] = pages[--np];
      if (SEG->used == 1) { pages[np++] = p; printf("SEG nop\n"); }     // clearing the last page would free the segment
      else { printf("SEG clear %ld\n", (long)((mi_slice_t*)p - SEG->slices)); mi_segment_page_clear(p, TLD); }
    }
    dump_seg();
  }
}

// ---------------------------------------------------------------- snapshots of API histories
enum { NL = 3000 };
static struct { uint8_t* p; size_t n; } live[NL]; static int nlive = 0;
static long snap_pages = 0;
static bool snap_page(mi_heap_t* heap, mi_page_queue_t* pq, mi_page_t* page, void* a1, void* a2) { (void)heap; (void)pq; (void)a1; (void)a2;
  uint8_t* start = mi_page_start(page); size_t bs = mi_page_block_size(page);
  if (bs == 0 || page->reserved > 70000) return true;
  printf("PS cap=%u res=%u used=%u", (unsigned)page->capacity, (unsigned)page->reserved, (unsigned)page->used);
  dump_list("free", page, page->free); dump_list("lf", page, page->local_free); dump_list("tf", page, mi_tf_block(mi_atomic_load_relaxed(&page->xthread_free)));
  printf(" live=["); int first = 1;
  uint8_t* end = start + (size_t)page->reserved * bs;
  for (int i = 0; i < nlive; i++) if (live[i].p >= start && live[i].p < end) { printf("%s%zu", first ? "" : ",", (size_t)((live[i].p - start) / bs)); first = 0; }
  // the descriptors of the thread's other heaps are blocks of the backing heap
  for (mi_heap_t* h = heap->tld->heaps; h != NULL; h = h->next) if ((uint8_t*)h >= start && (uint8_t*)h < end) { printf("%s%zu", first ? "" : ",", (size_t)(((uint8_t*)h - start) / bs)); first = 0; }
  printf("]\n"); snap_pages++;
  return true;
}
static void snapshot(void) { mi_heap_t* d = mi_heap_get_default(); for (mi_heap_t* h = d->tld->heaps; h != NULL; h = h->next) mi_heap_visit_pages(h, &snap_page, NULL, NULL); }
static void snap_mode(long ops) {
  mi_heap_t* heaps[4] = { NULL, NULL, NULL, NULL };
  for (long i = 0; i < ops; i++) {
    unsigned op = (unsigned)(rnd() % 100);
    if (op < 50 && nlive < NL) {
      size_t n; unsigned k = (unsigned)(rnd() % 10); if (k < 6) n = 1 + (size_t)(rnd() % 512); else if (k < 9) n = 512 + (size_t)(rnd() % 20000); else n = 20000 + (size_t)(rnd() % 300000);
      int hi = (int)(rnd() % 5); void* p;
      unsigned v = (unsigned)(rnd() % 8);
      mi_heap_t* h = (hi < 4) ? heaps[hi] : NULL;
      if (v == 0) p = h ? mi_heap_zalloc(h, n) : mi_zalloc(n);
      else if (v == 1 && n < 100000) p = h ? mi_heap_malloc_aligned(h, n, (size_t)16 << (rnd() % 6)) : mi_malloc_aligned(n, (size_t)16 << (rnd() % 6));
      else p = h ? mi_heap_malloc(h, n) : mi_malloc(n);
      if (p) { live[nlive].p = (uint8_t*)p; live[nlive].n = n; nlive++; }
    } else if (op < 85 && nlive > 0) {
      int k = (int)(rnd() % nlive); if (rnd() % 6 == 0) { void* q = mi_realloc(live[k].p, live[k].n + (size_t)(rnd() % 300)); if (q) { live[k].p = (uint8_t*)q; } } else { mi_free(live[k].p); live[k] = live[--nlive]; }
    } else if (op < 88) { int hi = (int)(rnd() % 4); if (!heaps[hi]) heaps[hi] = mi_heap_new(); }
    else if (op < 90) { int hi = (int)(rnd() % 4); if (heaps[hi]) { mi_heap_delete(heaps[hi]); heaps[hi] = NULL; } }
    else if (op < 93) mi_collect(rnd() % 2);
    if (i % 97 == 0) snapshot();
  }
  snapshot();
  printf("STAT snapshot_pages %ld\n", snap_pages);
}

int main(int argc, char** argv) {
  if (argc < 4) { fprintf(stderr, "usage: c01 page|seg|snap <seed> <steps>\n"); return 2; }
  uint64_t seed = strtoull(argv[2], 0, 10); long steps = atol(argv[3]);
  rs ^= seed * 0x9E3779B97F4A7C15ULL; if (!rs) rs = 1; for (int i = 0; i < 8; i++) rnd();
  if (strcmp(argv[1], "page") == 0) page_mode(steps); else if (strcmp(argv[1], "ext") == 0) ext_mode(steps); else if (strcmp(argv[1], "fill") == 0) fill_mode(steps); else if (strcmp(argv[1], "seg") == 0) seg_mode(steps); else snap_mode(steps);
  printf("DONE\n"); fflush(stdout);
  return 0;
}
