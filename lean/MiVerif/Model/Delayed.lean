-- probe: delayed-free protocol (one page, one heap), any number of in-flight remote frees, any interleaving
namespace Delayed

abbrev Blk := Nat
inductive Flag where | use | freeing | no | never deriving DecidableEq, Repr

inductive Pc where
  | r1                                     -- about to load xthread_free
  | r2 (h : List Blk) (f : Flag)           -- loaded word (h,f); about to CAS
  | r4load                                 -- won CAS with use_delayed (flag now freeing); about to load heap.delayed
  | r4 (d : List Blk)                      -- loaded delayed head; about to CAS-push
  | r5load                                 -- pushed on heap.delayed; about to load xthread_free
  | r5 (h : List Blk) (f : Flag)           -- about to CAS flag := no
deriving DecidableEq

structure Flight where
  b  : Blk
  pc : Pc

def Flight.holds (x : Flight) : Bool :=      -- does the flight still hold its block privately?
  match x.pc with
  | .r1 | .r2 _ _ | .r4load | .r4 _ => true
  | .r5load | .r5 _ _ => false               -- already pushed on heap.delayed

def Flight.isFreeing (x : Flight) : Bool :=
  match x.pc with
  | .r4load | .r4 _ | .r5load | .r5 _ _ => true
  | _ => false

structure St where
  tf   : List Blk
  flag : Flag
  dl   : List Blk          -- heap.thread_delayed_free
  pend : List Blk          -- owner-local: delayed list taken over, not yet processed
  own  : List (Blk × Bool) -- owner is processing this delayed block (length ≤ 1); Bool: flag already re-armed
  free : List Blk
  lf   : List Blk
  live : List Blk
  fl   : List Flight

def held (fl : List Flight) : List Blk := (fl.filter (·.holds)).map (·.b)

def allBlocks (s : St) : List Blk := s.tf ++ s.dl ++ s.pend ++ s.own.map (·.1) ++ s.free ++ s.lf ++ s.live ++ held s.fl

inductive Step : St → St → Prop where
  -- program on any thread starts a remote free of a live block
  | start (s) (b) (hb : b ∈ s.live) :
      Step s { s with live := s.live.erase b, fl := ⟨b, .r1⟩ :: s.fl }
  | load (s) (pre post) (b) (h : s.fl = pre ++ ⟨b, .r1⟩ :: post) :
      Step s { s with fl := pre ++ ⟨b, .r2 s.tf s.flag⟩ :: post }
  | cas2fail (s) (pre post) (b hh ff) (h : s.fl = pre ++ ⟨b, .r2 hh ff⟩ :: post) :   -- mismatch or spurious
      Step s { s with fl := pre ++ ⟨b, .r2 s.tf s.flag⟩ :: post }
  | cas2push (s) (pre post) (b hh ff) (h : s.fl = pre ++ ⟨b, .r2 hh ff⟩ :: post)
      (heq : s.tf = hh ∧ s.flag = ff) (hne : ff ≠ .use) :
      Step s { s with tf := b :: s.tf, fl := pre ++ post }
  | cas2delay (s) (pre post) (b hh ff) (h : s.fl = pre ++ ⟨b, .r2 hh ff⟩ :: post)
      (heq : s.tf = hh ∧ s.flag = ff) (hu : ff = .use) :
      Step s { s with flag := .freeing, fl := pre ++ ⟨b, .r4load⟩ :: post }
  | load4 (s) (pre post) (b) (h : s.fl = pre ++ ⟨b, .r4load⟩ :: post) :
      Step s { s with fl := pre ++ ⟨b, .r4 s.dl⟩ :: post }
  | cas4fail (s) (pre post) (b d) (h : s.fl = pre ++ ⟨b, .r4 d⟩ :: post) :
      Step s { s with fl := pre ++ ⟨b, .r4 s.dl⟩ :: post }
  | cas4ok (s) (pre post) (b d) (h : s.fl = pre ++ ⟨b, .r4 d⟩ :: post) (heq : s.dl = d) :
      Step s { s with dl := b :: s.dl, fl := pre ++ ⟨b, .r5load⟩ :: post }
  | load5 (s) (pre post) (b) (h : s.fl = pre ++ ⟨b, .r5load⟩ :: post) :
      Step s { s with fl := pre ++ ⟨b, .r5 s.tf s.flag⟩ :: post }
  | cas5fail (s) (pre post) (b hh ff) (h : s.fl = pre ++ ⟨b, .r5 hh ff⟩ :: post) :
      Step s { s with fl := pre ++ ⟨b, .r5 s.tf s.flag⟩ :: post }
  | cas5ok (s) (pre post) (b hh ff) (h : s.fl = pre ++ ⟨b, .r5 hh ff⟩ :: post) (heq : s.tf = hh ∧ s.flag = ff) :
      Step s { s with flag := .no, fl := pre ++ post }
  -- owner
  | tfCollect (s) :
      Step s { s with tf := [], lf := s.tf ++ s.lf }
  | lfCollect (s) (h : s.free = []) :
      Step s { s with free := s.lf, lf := [] }
  | malloc (s) (b rest) (h : s.free = b :: rest) :
      Step s { s with free := rest, live := b :: s.live }
  | freeLocal (s) (b) (hb : b ∈ s.live) :
      Step s { s with live := s.live.erase b, lf := b :: s.lf }
  | takeDl (s) (h : s.pend = []) (ho : s.own = []) :
      Step s { s with pend := s.dl, dl := [] }
  | procStart (s) (b rest) (h : s.pend = b :: rest) (ho : s.own = []) :
      Step s { s with pend := rest, own := [(b,false)] }
  | procSetUse (s) (b) (ho : s.own = [(b,false)]) (h : s.flag ≠ .freeing) (h' : s.flag ≠ .never) :
      Step s { s with flag := .use, own := [(b,true)] }
  | procNever (s) (b) (ho : s.own = [(b,false)]) (h' : s.flag = .never) :
      Step s { s with own := [(b,true)] }
  | procGiveUp (s) (b) (ho : s.own = [(b,false)]) :      -- the owner saw `freeing` during its 4 yields and re-pushes (the flag may have changed since)
      Step s { s with dl := b :: s.dl, own := [] }
  | procFree (s) (b) (ho : s.own = [(b,true)]) :
      Step s { s with lf := b :: s.lf, own := [] }

def nFreeing (fl : List Flight) : Nat := (fl.filter (·.isFreeing)).length

structure Inv (s : St) : Prop where
  nodup    : (allBlocks s).Nodup
  freeing1 : (s.flag = .freeing → nFreeing s.fl = 1) ∧ (s.flag ≠ .freeing → nFreeing s.fl = 0)
  pushed   : ∀ x ∈ s.fl, x.isFreeing = true → x.holds = false → x.b ∈ s.dl ++ s.pend ++ s.own.map (·.1)
  ownOk    : ∀ b, (b,true) ∈ s.own → ∀ x ∈ s.fl, x.isFreeing = true → x.holds = false → x.b ≠ b
  noDelay  : s.flag = .no → s.dl ++ s.pend ++ (s.own.filter (fun p => !p.2)).map (·.1) ≠ []
  own1     : s.own.length ≤ 1

end Delayed
