import MiVerif.Lemmas.Coalesce
/-! page allocation inside a free span (the tail of mi_segments_page_find_and_allocate: take the span off its queue, split off the
    remainder, mark the page) keeps the representation invariant of the segment -/
namespace SegM

/-- `SpanOk` only reads the entries of the span itself -/
theorem SpanOk.congr {g g' : Seg} {z : Span} (hz0 : 0 < z.2.1) (h : ∀ j, z.1 ≤ j → j < z.1 + z.2.1 → get g' j = get g j)
    (hok : SpanOk g z) : SpanOk g' z := by
  obtain ⟨zs, zc, zu⟩ := z
  unfold SpanOk at hok ⊢
  simp only [] at hok hz0 h ⊢
  obtain ⟨o1, o2, o3, o4, o5⟩ := hok
  refine ⟨?_, ?_, ?_, ?_, ?_⟩
  · rw [h zs (by omega) (by omega)]; exact o1
  · rw [h zs (by omega) (by omega)]; exact o2
  · rw [h zs (by omega) (by omega)]; exact o3
  · intro hh; rw [h (zs + zc - 1) (by omega) (by omega)]; exact o4 hh
  · intro hu k hk1 hk2; rw [h (zs + k) (by omega) (by omega)]; exact o5 hu k hk1 hk2

/-- the tail of mi_segments_page_find_and_allocate once the span at `i` has been chosen -/
def allocAt (g : Seg) (i count : Nat) : Seg :=
  let g := queueDelete g i
  let g := if (get g i).count > count then sliceSplit g i count else g
  spanAllocate g i (get g i).count

theorem sliceSplit_entries (g : Seg) (i k : Nat) : (sliceSplit g i k).entries = g.entries := by
  unfold sliceSplit; split
  · rfl
  · simp [spanFree_entries]
theorem sliceSplit_size (g : Seg) (i k : Nat) : (sliceSplit g i k).slices.size = g.slices.size := by
  unfold sliceSplit; split
  · rfl
  · simp [spanFree_size]

/-- allocating the whole free span -/
theorem allocate_exact_repr (g : Seg) (pre post : List Span) (s c : Nat)
    (hr : Repr g (pre ++ (s, c, false) :: post)) : Repr (allocAt g s c) (pre ++ (s, c, true) :: post) := by
  obtain ⟨hsz, hch, hok⟩ := hr
  have hx := hok (s, c, false) (by simp)
  have hb := hch.bounds
  have hxb := hb.2 (s, c, false) (by simp)
  simp only [] at hxb
  have hs : s < g.slices.size := by omega
  have hcnt : (get (queueDelete g s) s).count = c := by
    rw [queueDelete_get _ _ _ hs, if_pos rfl]; exact hx.1
  unfold allocAt
  simp only [hcnt, Nat.lt_irrefl, if_false]
  have hsz1 : (queueDelete g s).slices.size = (queueDelete g s).entries + 1 := by simp [hsz]
  have hfit : s + c ≤ (queueDelete g s).entries := by simp; omega
  have hq : ∀ j, j ≠ s → get (queueDelete g s) j = get g j := by
    intro j hj; rw [queueDelete_get _ _ _ hs, if_neg (by omega)]
  refine ⟨?_, ?_, ?_⟩
  · rw [spanAllocate_eq]; unfold spanAllocate'
    simp only []
    split <;> simp [setFollowers_size, setFollowers_entries, hsz]
  · have : (spanAllocate (queueDelete g s) s c).entries = g.entries := by
      rw [spanAllocate_eq]; unfold spanAllocate'; simp only []; split <;> simp [setFollowers_entries]
    rw [this]; exact hch.reflag
  · intro z hz
    rcases List.mem_append.mp hz with hz | hz
    · have hzm : z ∈ pre ++ (s, c, false) :: post := List.mem_append.mpr (Or.inl hz)
      have hzb := hb.2 z hzm
      obtain ⟨hp1, _⟩ := hch.split_at
      have hzpre := hp1.bounds.2 z hz
      simp only [] at hzpre
      apply spanAllocate_frame _ _ _ (by omega) hfit hsz1 z hzb.2.2 (Or.inl (by omega))
      exact SpanOk.congr hzb.2.2 (fun j h1 h2 => hq j (by omega)) (hok z hzm)
    · rcases List.mem_cons.mp hz with rfl | hz
      · exact spanAllocate_ok _ _ _ (by omega) hfit hsz1
      · have hzm : z ∈ pre ++ (s, c, false) :: post := by simp [hz]
        have hzb := hb.2 z hzm
        obtain ⟨_, hp2⟩ := hch.split_at
        cases hp2 with
        | cons _ hp3 =>
          have hzpost := hp3.bounds.2 z hz
          simp only [] at hzpost
          apply spanAllocate_frame _ _ _ (by omega) hfit hsz1 z hzb.2.2 (Or.inr (by omega))
          exact SpanOk.congr hzb.2.2 (fun j h1 h2 => hq j (by omega)) (hok z hzm)

/-- allocating the first `k` slices of a larger free span: the remainder becomes a free span of its own -/
theorem allocate_split_repr (g : Seg) (pre post : List Span) (s c k : Nat) (hk : 0 < k) (hkc : k < c)
    (hr : Repr g (pre ++ (s, c, false) :: post)) :
    Repr (allocAt g s k) (pre ++ (s, k, true) :: (s + k, c - k, false) :: post) := by
  obtain ⟨hsz, hch, hok⟩ := hr
  have hx := hok (s, c, false) (by simp)
  have hb := hch.bounds
  have hxb := hb.2 (s, c, false) (by simp)
  simp only [] at hxb
  have hs : s < g.slices.size := by omega
  have hcnt : (get (queueDelete g s) s).count = c := by
    rw [queueDelete_get _ _ _ hs, if_pos rfl]; exact hx.1
  have hsz1 : (queueDelete g s).slices.size = (queueDelete g s).entries + 1 := by simp [hsz]
  have hfit1 : s + k + (c - k) ≤ (queueDelete g s).entries := by simp; omega
  have hq : ∀ j, j ≠ s → get (queueDelete g s) j = get g j := by
    intro j hj; rw [queueDelete_get _ _ _ hs, if_neg (by omega)]
  -- state after the split
  have hsplit : sliceSplit (queueDelete g s) s k =
      set (spanFree (queueDelete g s) (s + k) (c - k)) s { get (spanFree (queueDelete g s) (s + k) (c - k)) s with count := k } := by
    unfold sliceSplit
    rw [hcnt, if_neg (by omega)]
  have hs2 : s < (spanFree (queueDelete g s) (s + k) (c - k)).slices.size := by rw [spanFree_size]; simp; exact hs
  have hcnt2 : (get (sliceSplit (queueDelete g s) s k) s).count = k := by
    rw [hsplit, get_set _ _ _ _ hs2, if_pos rfl]
  unfold allocAt
  simp only [hcnt, hkc, if_true, hcnt2]
  have hsz2 : (sliceSplit (queueDelete g s) s k).slices.size = (sliceSplit (queueDelete g s) s k).entries + 1 := by
    rw [sliceSplit_size, sliceSplit_entries]; exact hsz1
  have hfit2 : s + k ≤ (sliceSplit (queueDelete g s) s k).entries := by rw [sliceSplit_entries]; simp; omega
  -- entries outside [s, s + c) are those of g
  have hout : ∀ j, (j < s ∨ s + c ≤ j) → get (sliceSplit (queueDelete g s) s k) j = get g j := by
    intro j hj
    rw [hsplit, get_set _ _ _ _ hs2, if_neg (by omega), spanFree_get _ _ _ _ (by omega) hfit1 hsz1, if_neg (by omega), if_neg (by omega)]
    exact hq j (by omega)
  have hent : (spanAllocate (sliceSplit (queueDelete g s) s k) s k).entries = g.entries := by
    rw [spanAllocate_eq]; unfold spanAllocate'; simp only []
    split <;> simp [setFollowers_entries, sliceSplit_entries]
  refine ⟨?_, ?_, ?_⟩
  · rw [spanAllocate_eq]; unfold spanAllocate'
    simp only []
    split <;> simp [setFollowers_size, setFollowers_entries, sliceSplit_size, sliceSplit_entries, hsz]
  · rw [hent]; exact hch.split hk hkc
  · intro z hz
    rcases List.mem_append.mp hz with hz | hz
    · have hzm : z ∈ pre ++ (s, c, false) :: post := List.mem_append.mpr (Or.inl hz)
      have hzb := hb.2 z hzm
      obtain ⟨hp1, _⟩ := hch.split_at
      have hzpre := hp1.bounds.2 z hz
      simp only [] at hzpre
      apply spanAllocate_frame _ _ _ hk hfit2 hsz2 z hzb.2.2 (Or.inl (by omega))
      exact SpanOk.congr hzb.2.2 (fun j h1 h2 => hout j (Or.inl (by omega))) (hok z hzm)
    · rcases List.mem_cons.mp hz with rfl | hz
      · exact spanAllocate_ok _ _ _ hk hfit2 hsz2
      · rcases List.mem_cons.mp hz with rfl | hz
        · -- the remainder: written by spanFree, untouched by the later writes
          apply spanAllocate_frame _ _ _ hk hfit2 hsz2 _ (by show 0 < c - k; omega) (Or.inr (by show s + k ≤ s + k; omega))
          have h1 : SpanOk (spanFree (queueDelete g s) (s + k) (c - k)) (s + k, c - k, false) := spanFree_ok _ _ _ (by omega) hfit1 hsz1
          refine SpanOk.congr (by show 0 < c - k; omega) ?_ h1
          intro j hj1 hj2
          simp only [] at hj1 hj2
          rw [hsplit, get_set _ _ _ _ hs2, if_neg (by omega)]
        · have hzm : z ∈ pre ++ (s, c, false) :: post := by simp [hz]
          have hzb := hb.2 z hzm
          obtain ⟨_, hp2⟩ := hch.split_at
          cases hp2 with
          | cons _ hp3 =>
            have hzpost := hp3.bounds.2 z hz
            simp only [] at hzpost
            apply spanAllocate_frame _ _ _ hk hfit2 hsz2 z hzb.2.2 (Or.inr (by omega))
            exact SpanOk.congr hzb.2.2 (fun j h1 h2 => hout j (Or.inr (by omega))) (hok z hzm)

end SegM
