import MiVerif.Model.Options
namespace OptVal
partial def loop (h : IO.FS.Stream) : IO Unit := do
  let line ← h.getLine
  if line.isEmpty then return ()
  let line := if line.endsWith "\n" then (line.dropEnd 1).toString else line
  match line.splitOn "\t" with
  | [idx, v] =>
      let isSize := idx == "23" || idx == "9"
      let dflt : Int := if idx == "15" then 10 else if idx == "23" then 1048576 else 0
      let (i, x) := OptM.parse isSize dflt v
      IO.println s!"{match i with | .defaulted => 1 | .initialized => 2} {x}"
  | _ => pure ()
  loop h
def main (stdin : IO.FS.Stream) : IO UInt32 := do loop stdin; return 0

end OptVal
