// C04 oracle on the real allocator: zero-initialising entry points return zeros over the requested size on memory that was
// used, dirtied and freed before (locally, by another thread, by heap destroy, after purge), for every size class incl. huge
// and over-aligned; growth chains of rezalloc/recalloc (in place or moving, plain and aligned) expose only zeros between
// the previous and the new requested size.   usage: c04 <seed> <thorough> <config-row>
#include VERIF_STATIC_C
#include <stdio.h>
#include <stdlib.h>
#include <pthread.h>
static int nfail = 0;
#define FAIL(key, ...) do { if (nfail++ < 30) { printf("FAIL %s ", key); printf(__VA_ARGS__); printf("\n"); } } while (0)
static uint64_t rs = 88172645463325252ULL;
static uint64_t rnd(void) { rs ^= rs << 13; rs ^= rs >> 7; rs ^= rs << 17; return rs; }
static long n_eval = 0, n_chain_steps = 0, n_inplace = 0, n_moved = 0;
static void dirty(void* p, size_t n) { memset(p, 0xAB, n); __asm__ volatile("" : : "r"(p) : "memory"); }
static size_t first_nonzero(const uint8_t* p, size_t lo, size_t hi) { for (size_t i = lo; i < hi; i++) if (p[i] != 0) return i; return (size_t)-1; }

static size_t pick_size(void) {
  switch (rnd() % 10) {
    case 0: return (size_t)(rnd() % 17);
    case 1: case 2: case 3: return 1 + (size_t)(rnd() % 1024);
    case 4: case 5: return 1024 + (size_t)(rnd() % 130000);
    case 6: return 128 * 1024 + (size_t)(rnd() % (2 << 20));
    case 7: return (size_t)(4 << 20) + (size_t)(rnd() % (14 << 20));
    case 8: { static const size_t E[] = { 8, 16, 24, 32, 48, 64, 112, 128, 1024, 8192, 65536, 131072, 524288 }; return E[rnd() % 13] + (size_t)(rnd() % 3) - 1; }
    default: return (size_t)(16 << 20) + (size_t)(rnd() % (24 << 20));   // huge
  }
}
// make dirty free memory of roughly this size class available (same heap unless `h` is given)
static void make_dirty(mi_heap_t* h, size_t n, int how) {
  enum { K = 24 }; void* q[K]; int k = (n > (1 << 20)) ? 2 : K;
  for (int i = 0; i < k; i++) { q[i] = h ? mi_heap_malloc(h, n) : mi_malloc(n); if (q[i]) dirty(q[i], mi_usable_size(q[i])); }
  if (how == 1 && n <= (1 << 20)) { // free in reverse / interleaved order
    for (int i = k - 1; i >= 0; i -= 2) mi_free(q[i]);
    for (int i = k - 2; i >= 0; i -= 2) mi_free(q[i]);
  } else for (int i = 0; i < k; i++) mi_free(q[i]);
  if (how == 2) mi_collect(false);
  if (how == 3) mi_collect(true);
}
static void* freer(void* arg) { void** q = (void**)arg; for (int i = 0; q[i]; i++) mi_free(q[i]); return NULL; }
static void make_dirty_remote(size_t n) {  // blocks dirtied here and freed by another thread
  static void* q[34]; int k = (n > (1 << 20)) ? 2 : 32; for (int i = 0; i < k; i++) { q[i] = mi_malloc(n); if (q[i]) dirty(q[i], mi_usable_size(q[i])); } q[k] = NULL;
  pthread_t t; pthread_create(&t, NULL, &freer, q); pthread_join(t, NULL);
}
static void make_dirty_destroy(size_t n) { // a whole heap of dirty blocks destroyed
  mi_heap_t* h = mi_heap_new(); if (!h) return; int k = (n > (1 << 20)) ? 2 : 20;
  for (int i = 0; i < k; i++) { void* p = mi_heap_malloc(h, n); if (p) dirty(p, mi_usable_size(p)); }
  mi_heap_destroy(h);
}
static const char* const ENTRY[] = { "zalloc", "calloc", "zalloc_small", "zalloc_aligned", "zalloc_aligned_at", "calloc_aligned", "heap_zalloc", "heap_calloc", "heap_zalloc_aligned", "recalloc_null", "rezalloc_null", "heap_calloc_aligned_at" };
static void* zentry(int e, mi_heap_t* h, size_t n, size_t* al, size_t* off) {
  *al = 0; *off = 0;
  size_t a = (size_t)1 << (rnd() % 5 == 0 ? 16 + rnd() % 11 : rnd() % 13); size_t o = (rnd() % 2) ? 0 : ((size_t)(rnd() % 64)) * 8;
  if (a > MI_BLOCK_ALIGNMENT_MAX) o = 0;
  switch (e) {
    case 0: return mi_zalloc(n);
    case 1: { size_t c = 1 + (size_t)(rnd() % 7); void* p = mi_calloc(c, (n + c - 1) / c); return p; }
    case 2: return (n <= MI_SMALL_SIZE_MAX) ? mi_zalloc_small(n) : mi_zalloc(n);
    case 3: *al = a; return mi_zalloc_aligned(n, a);
    case 4: *al = a; *off = o; return mi_zalloc_aligned_at(n, a, o);
    case 5: *al = a; return mi_calloc_aligned(1, n, a);
    case 6: return mi_heap_zalloc(h, n);
    case 7: return mi_heap_calloc(h, 1, n);
    case 8: *al = a; return mi_heap_zalloc_aligned(h, n, a);
    case 9: return mi_recalloc(NULL, 1, n);
    case 10: return mi_rezalloc(NULL, n);
    default: *al = a; *off = o; return mi_heap_calloc_aligned_at(h, 1, n, a, o);
  }
}
static size_t next_size(size_t n, size_t usable) {
  switch (rnd() % 6) {
    case 0: return n + 1 + (size_t)(rnd() % 8);                       // tiny step, often in place
    case 1: return (usable > n) ? n + 1 + (size_t)(rnd() % (usable - n)) : n + 1;   // up to the usable size: in place
    case 2: return usable + 1 + (size_t)(rnd() % 64);                 // just beyond: moves
    case 3: return n * 2 + (size_t)(rnd() % 100);                     // doubling
    case 4: return n + (size_t)(rnd() % 5000);
    default: return n + 1 + (size_t)(rnd() % (n / 3 + 2));
  }
}
int main(int argc, char** argv) {
  uint64_t seed = argc > 1 ? strtoull(argv[1], 0, 10) : 1; int thorough = argc > 2 ? atoi(argv[2]) : 0; int row = argc > 3 ? atoi(argv[3]) : 0;
  rs ^= seed * 0x9E3779B97F4A7C15ULL; if (!rs) rs = 1; for (int i = 0; i < 8; i++) rnd();
  // configuration rows (option settings that change commit / purge / arena behaviour)
  if (row == 1) { mi_option_set(mi_option_purge_delay, 0); }
  if (row == 2) { mi_option_set(mi_option_eager_commit, 0); mi_option_set(mi_option_arena_eager_commit, 0); mi_option_set(mi_option_purge_delay, 1); }
  if (row == 3) { mi_option_set(mi_option_disallow_arena_alloc, 1); mi_option_set(mi_option_purge_decommits, 0); }
  mi_heap_t* h2 = mi_heap_new();
  int iters = thorough ? 6000 : 1200;
  long per_entry[12] = { 0 };
  for (int it = 0; it < iters; it++) {
    size_t n = pick_size(); if (n == 0 && rnd() % 2) n = 1;
    int how = (int)(rnd() % 7);
    if (how <= 3) make_dirty((rnd() % 3 == 0) ? h2 : NULL, n, how); else if (how == 4) make_dirty_remote(n); else if (how == 5) make_dirty_destroy(n); /* 6: whatever is there */
    int e = (int)(rnd() % 12); size_t al, off;
    if (n > (8u << 20) && (e == 3 || e == 4 || e == 5 || e == 8 || e == 11) && rnd() % 4) e = 0;
    uint8_t* p = (uint8_t*)zentry(e, h2, n, &al, &off);
    per_entry[e]++; n_eval++;
    if (p == NULL) { if (n < ((size_t)64 << 20)) FAIL("zalloc_failed", "%s(%zu) align %zu off %zu returned NULL", ENTRY[e], n, al, off); continue; }
    size_t bad = first_nonzero(p, 0, n);
    if (bad != (size_t)-1) { FAIL("zalloc_not_zero", "%s(%zu) align %zu offset %zu (dirty memory made by method %d, config row %d): byte %zu is 0x%02x", ENTRY[e], n, al, off, how, row, bad, p[bad]); }
    if (al && (((uintptr_t)p + off) % al) != 0) FAIL("zalloc_misaligned", "%s(%zu) align %zu off %zu", ENTRY[e], n, al, off);
    // growth chain
    int steps = (n > (4u << 20)) ? 2 : 2 + (int)(rnd() % 5);
    int aligned_chain = (al != 0 && al <= 4096 && rnd() % 2);
    size_t cur = n;
    for (int s = 0; s < steps && p; s++) {
      if (cur > 0) memset(p, 0x5C, cur);                  // the program uses what it asked for
      size_t us = mi_usable_size(p);
      size_t nn = next_size(cur, us); if (nn > ((size_t)48 << 20)) break;
      if (rnd() % 4 == 0) make_dirty(NULL, nn, (int)(rnd() % 2));    // dirty free blocks of the target class
      uint8_t* q;
      int v = (int)(rnd() % 4);
      if (aligned_chain) q = (uint8_t*)(v < 2 ? mi_rezalloc_aligned_at(p, nn, al, off) : mi_recalloc_aligned_at(p, 1, nn, al, off));
      else q = (uint8_t*)(v == 0 ? mi_rezalloc(p, nn) : v == 1 ? mi_recalloc(p, 1, nn) : v == 2 ? mi_heap_rezalloc(h2, p, nn) : mi_heap_recalloc(h2, p, 1, nn));
      n_chain_steps++; n_eval++;
      if (q == NULL) { FAIL("rezalloc_failed", "step %d %zu -> %zu", s, cur, nn); break; }
      if (q == p) n_inplace++; else n_moved++;
      size_t b2 = first_nonzero(q, cur, nn);
      if (b2 != (size_t)-1) { FAIL("rezalloc_tail_not_zero", "chain started by %s(%zu), step %d: %s %zu -> %zu (%s, old usable %zu, new usable %zu, config row %d): byte %zu is 0x%02x", ENTRY[e], n, s, aligned_chain ? "rezalloc_aligned_at" : "rezalloc", cur, nn, q == p ? "in place" : "moved", us, mi_usable_size(q), row, b2, q[b2]); p = q; break; }
      for (size_t i = 0; i < cur; i += (cur > 4096 ? 509 : 1)) if (q[i] != 0x5C) { FAIL("rezalloc_lost_contents", "step %d %zu -> %zu byte %zu", s, cur, nn, i); break; }
      if (aligned_chain && (((uintptr_t)q + off) % al) != 0) FAIL("rezalloc_lost_alignment", "step %d %zu -> %zu align %zu off %zu", s, cur, nn, al, off);
      p = q; cur = nn;
    }
    if (p) { dirty(p, cur); mi_free(p); }
    if (it % 97 == 0) mi_collect(it % 2 == 0);
  }
  printf("STAT evaluations %ld\nSTAT chain_steps %ld\nSTAT in_place %ld\nSTAT moved %ld\n", n_eval, n_chain_steps, n_inplace, n_moved);
  printf("ENTRIES"); for (int i = 0; i < 12; i++) printf(" %s=%ld", ENTRY[i], per_entry[i]); printf("\n");
  printf("DONE\n"); fflush(stdout);
  return 0;
}
