/- C19 — drop-in override: every standard entry point is served by one allocator.
   Property theorems only.  `GenV` (Gen/Override.lean) is regenerated on every run from (1) `nm` on the libmimalloc.so and mimalloc.o that
   cmake builds from the current tree and (2) the clang AST of src/alloc-override.c compiled with MI_MALLOC_OVERRIDE: for every function
   defined there, the function it forwards to and the parameters it passes on.  `GenE` (Gen/Entry.lean) is the translation of the
   mimalloc API functions behind them.  The list `required` is the specification: the entry points of the platform (x86-64 Linux, glibc,
   Itanium C++ ABI) named by the property, each with the mimalloc function that implements it.
   realpath is not defined by the library on Linux (glibc's realpath allocates through the overridden malloc): covered by the run-time check. -/
import MiVerif.Gen.Override
import MiVerif.Gen.Entry

namespace C19

/-- (entry point, implementing mimalloc function, its own parameters passed on in order) -/
def required : List (String × String × List Nat) := [
  ("malloc", "mi_malloc", [0]), ("calloc", "mi_calloc", [0, 1]), ("realloc", "mi_realloc", [0, 1]), ("free", "mi_free", [0]),
  ("posix_memalign", "mi_posix_memalign", [0, 1, 2]), ("aligned_alloc", "mi_aligned_alloc", [0, 1]), ("memalign", "mi_memalign", [0, 1]),
  ("valloc", "mi_valloc", [0]), ("pvalloc", "mi_pvalloc", [0]), ("reallocarray", "mi_reallocarray", [0, 1, 2]),
  ("malloc_usable_size", "mi_usable_size", [0]), ("cfree", "mi_free", [0]),
  ("strdup", "mi_strdup", [0]), ("strndup", "mi_strndup", [0, 1]),
  -- operator new / new[] : plain, nothrow, aligned, aligned nothrow
  ("_Znwm", "mi_new", [0]), ("_Znam", "mi_new", [0]),
  ("_ZnwmRKSt9nothrow_t", "mi_new_nothrow", [0]), ("_ZnamRKSt9nothrow_t", "mi_new_nothrow", [0]),
  ("_ZnwmSt11align_val_t", "mi_new_aligned", [0, 1]), ("_ZnamSt11align_val_t", "mi_new_aligned", [0, 1]),
  ("_ZnwmSt11align_val_tRKSt9nothrow_t", "mi_new_aligned_nothrow", [0, 1]), ("_ZnamSt11align_val_tRKSt9nothrow_t", "mi_new_aligned_nothrow", [0, 1]),
  -- operator delete / delete[] : plain, sized, aligned, sized aligned, nothrow, aligned nothrow
  ("_ZdlPv", "mi_free", [0]), ("_ZdaPv", "mi_free", [0]),
  ("_ZdlPvm", "mi_free_size", [0, 1]), ("_ZdaPvm", "mi_free_size", [0, 1]),
  ("_ZdlPvSt11align_val_t", "mi_free_aligned", [0, 1]), ("_ZdaPvSt11align_val_t", "mi_free_aligned", [0, 1]),
  ("_ZdlPvmSt11align_val_t", "mi_free_size_aligned", [0, 1, 2]), ("_ZdaPvmSt11align_val_t", "mi_free_size_aligned", [0, 1, 2]),
  ("_ZdlPvRKSt9nothrow_t", "mi_free", [0]), ("_ZdaPvRKSt9nothrow_t", "mi_free", [0]),
  ("_ZdlPvSt11align_val_tRKSt9nothrow_t", "mi_free_aligned", [0, 1]), ("_ZdaPvSt11align_val_tRKSt9nothrow_t", "mi_free_aligned", [0, 1]),
  -- the names glibc itself calls
  ("__libc_malloc", "mi_malloc", [0]), ("__libc_calloc", "mi_calloc", [0, 1]), ("__libc_realloc", "mi_realloc", [0, 1]), ("__libc_free", "mi_free", [0]),
  ("__libc_memalign", "mi_memalign", [0, 1]), ("__libc_valloc", "mi_valloc", [0]), ("__libc_pvalloc", "mi_pvalloc", [0]), ("__posix_memalign", "mi_posix_memalign", [0, 1, 2])
]

/-- every entry point is defined by the override source and forwards, with its arguments unchanged and in order, to the designated function of the one allocator -/
theorem every_entry_point_forwards_to_mimalloc : ∀ r ∈ required, r ∈ GenV.forwards := by decide +kernel

/-- ... and the preloadable shared library really exports it (so the dynamic linker binds the program's and libc's / libstdc++'s calls to it) -/
theorem every_entry_point_exported_by_shared_library : ∀ r ∈ required, r.1 ∈ GenV.exportedSo ∧ r.2.1 ∈ GenV.exportedSo := by decide +kernel

/-- ... and so does the single object file used for the static override -/
theorem every_entry_point_exported_by_static_object : ∀ r ∈ required, r.1 ∈ GenV.exportedObj ∧ r.2.1 ∈ GenV.exportedObj := by decide +kernel

/-- the extractor understood every function of the override source (none has a body other than one forwarding call) -/
theorem override_source_fully_understood : GenV.notUnderstood = [] := by decide

/-- no overriding symbol is implemented by anything but a function of the allocator's own API -/
theorem all_forwards_stay_inside_mimalloc : ∀ f ∈ GenV.forwards, f.2.1 ∈ GenV.exportedSo ∧ f.2.1.startsWith "mi_" = true := by decide +kernel

/-! the release and query functions behind the entry points are one function: memory from any entry point can be released or queried through any other -/
theorem sized_delete_is_free (p n : Nat) : GenE.mi_free_size p n = [("mi_free", [p])] := rfl
theorem aligned_delete_is_free (p al : Nat) : GenE.mi_free_aligned p al = [("mi_free", [p])] := rfl
theorem sized_aligned_delete_is_free (p n al : Nat) : GenE.mi_free_size_aligned p n al = [("mi_free", [p])] := rfl
theorem usable_size_entries_agree (us : Nat → Nat → Nat) (p : Nat) :
    GenE.mi_malloc_usable_size us p = GenE.mi_usable_size us p ∧ GenE.mi_malloc_size us p = GenE.mi_usable_size us p := ⟨rfl, rfl⟩

/-- operator new returns the block `mi_malloc` returns; only when that fails does the new-handler protocol run, and the nothrow forms
    pass `nothrow = true` to it (so they return NULL instead of throwing / aborting) -/
theorem new_is_malloc (hp : Nat) (a : Nat → Nat → Nat) (b : Nat → Nat → Nat → Nat → Nat) (c : Nat → Nat → Nat → Nat → Nat) (tn : Nat → Nat → Nat → Nat) (size : Nat)
    (h : GenE.mi_malloc hp a b c size ≠ 0) : GenE.mi_new hp a b c tn size = GenE.mi_malloc hp a b c size := by
  unfold GenE.mi_new GenE.mi_heap_alloc_new
  unfold GenE.mi_malloc at h ⊢
  simp only [if_neg h]
theorem new_nothrow_is_malloc_or_handler (hp : Nat) (a : Nat → Nat → Nat) (b : Nat → Nat → Nat → Nat → Nat) (c : Nat → Nat → Nat → Nat → Nat) (tn : Nat → Nat → Nat) (size : Nat) :
    GenE.mi_new_nothrow hp a b c tn size = if GenE.mi_malloc hp a b c size = 0 then tn size 1 else GenE.mi_malloc hp a b c size := by
  unfold GenE.mi_new_nothrow
  simp
/-- strdup / strndup (entry points of the override): the block requested from the allocator has room for the string *and* its terminator,
    exactly `len` bytes are copied to its start and the terminating zero is stored at offset `len` — nothing is written outside the block -/
theorem strndup_stays_inside_its_block (sl : Nat → Nat → Nat) (a : Nat → Nat → Nat) (b : Nat → Nat → Nat → Nat → Nat) (c : Nat → Nat → Nat → Nat → Nat)
    (heap s n : Nat) (hs : s ≠ 0) (hlen : sl s n + 1 < 2^64) (ht : GenE.mi_heap_malloc a b c heap (sl s n + 1) ≠ 0)
    (hno : GenE.mi_heap_malloc a b c heap (sl s n + 1) + sl s n < 2^64) :
    GenE.mi_heap_strndup sl a b c heap s n =
      (GenE.mi_heap_malloc a b c heap (sl s n + 1),
        [("_mi_memcpy", [GenE.mi_heap_malloc a b c heap (sl s n + 1), s, sl s n]), ("store8", [GenE.mi_heap_malloc a b c heap (sl s n + 1) + sl s n, 0])]) := by
  have h64 : (2:Nat)^64 = 18446744073709551616 := by decide
  rw [h64] at hlen hno
  unfold GenE.mi_heap_strndup
  simp only [if_neg hs, Nat.mod_eq_of_lt hlen, if_neg ht, Nat.mul_one, Nat.mod_eq_of_lt hno, List.nil_append, List.cons_append]

theorem strdup_stays_inside_its_block (sl : Nat → Nat) (a : Nat → Nat → Nat) (b : Nat → Nat → Nat → Nat → Nat) (c : Nat → Nat → Nat → Nat → Nat)
    (heap s : Nat) (hs : s ≠ 0) (hlen : sl s + 1 < 2^64) (ht : GenE.mi_heap_malloc a b c heap (sl s + 1) ≠ 0)
    (hno : GenE.mi_heap_malloc a b c heap (sl s + 1) + sl s < 2^64) :
    GenE.mi_heap_strdup sl a b c heap s =
      (GenE.mi_heap_malloc a b c heap (sl s + 1),
        [("_mi_memcpy", [GenE.mi_heap_malloc a b c heap (sl s + 1), s, sl s]), ("store8", [GenE.mi_heap_malloc a b c heap (sl s + 1) + sl s, 0])]) := by
  have h64 : (2:Nat)^64 = 18446744073709551616 := by decide
  rw [h64] at hlen hno
  unfold GenE.mi_heap_strdup
  simp only [if_neg hs, Nat.mod_eq_of_lt hlen, if_neg ht, Nat.mul_one, Nat.mod_eq_of_lt hno, List.nil_append, List.cons_append]

end C19
