/- C15 — arena-bound heaps stay inside their arena; exclusive arenas stay private.
   Property theorems only.  `GenA.mi_arena_id_is_suitable` and `GenA._mi_arena_memid_is_suitable` are regenerated from src/arena.c on
   every run: they are the test every path that can hand memory to a heap performs (fresh arena allocation, span re-use in
   mi_segments_page_find_and_allocate, both reclaim paths, and - after the repair in /repo - the forced reclaim of the main
   thread).  That every such path calls the test is covered by the arena-mode shadow oracle (harness/seq.c flags=1). -/
import MiVerif.Gen.Arena
import MiVerif.Props.C16

namespace C15
open GenA

/-- an exclusive arena is suitable only for a request that names exactly that arena -/
theorem exclusive_stays_private (arena_id req : Int) :
    mi_arena_id_is_suitable arena_id 1 req = 1 ↔ arena_id = req := by
  unfold mi_arena_id_is_suitable; simp

/-- a heap bound to arena `req` (`req ≠ none`) is only ever served from arena `req` -/
theorem bound_heap_only_its_arena (arena_id req : Int) (excl : Nat) (hreq : req ≠ _mi_arena_id_none) :
    mi_arena_id_is_suitable arena_id excl req = 1 ↔ arena_id = req := by
  unfold mi_arena_id_is_suitable
  have : ¬ (req = _mi_arena_id_none) := hreq
  simp [this]

/-- a heap that is not bound to any arena may use exactly the non-exclusive arenas (and memory that is not from an arena) -/
theorem unbound_heap_nonexclusive (arena_id : Int) (excl : Nat) (ha : arena_id ≠ _mi_arena_id_none) :
    mi_arena_id_is_suitable arena_id excl _mi_arena_id_none = 1 ↔ excl = 0 := by
  unfold mi_arena_id_is_suitable
  have : ¬ (arena_id = _mi_arena_id_none) := ha
  simp [this]

/-- memory that did not come from an arena (OS segments) is never suitable for an arena-bound heap: a bound heap gets NULL instead of
    an OS fallback, and never adopts OS segments -/
theorem os_memory_not_for_bound_heap (kind : Nat) (id : Int) (ex mem : Nat) (req : Int) (hk : kind ≠ 6) (hreq : req ≠ _mi_arena_id_none) :
    _mi_arena_memid_is_suitable kind id ex mem req = 0 := by
  unfold _mi_arena_memid_is_suitable mi_arena_id_is_suitable
  have h1 : ¬ (kind = Int.toNat (6 % 4294967296)) := by simpa using hk
  have h2 : ¬ (req = _mi_arena_id_none) := hreq
  have h3 : ¬ (_mi_arena_id_none = req) := fun e => hreq e.symm
  simp [h2, h3]
  intro hk6; exact absurd hk6 hk

/-- a segment inside an exclusive arena is never suitable for a heap that is not bound to it (default heap, other arenas' heaps) -/
theorem exclusive_segment_rejected (id req : Int) (mem : Nat) (hne : id ≠ req) :
    _mi_arena_memid_is_suitable 6 id 1 mem req = 0 := by
  unfold _mi_arena_memid_is_suitable mi_arena_id_is_suitable
  simp [hne]

/-- memory handed to `mi_manage_os_memory_ex` is only used inside the bounds given: the arena starts at the aligned-up start and its
    `bcount = (size - diff) / 32 MiB` blocks end at or before `start + size` (arithmetic of mi_manage_os_memory_ex2 with the regenerated
    `_mi_align_up`) -/
theorem managed_region_bounds (start size : Nat) (hs : start + 33554432 < 2^64) (hfit : start + size < 2^64)
    (hbig : Gen._mi_align_up start 33554432 - start < size) :
    let astart := Gen._mi_align_up start 33554432
    let bcount := (size - (astart - start)) / 33554432
    start ≤ astart ∧ astart + bcount * 33554432 ≤ start + size := by
  have h := C16.align_up_spec start 33554432 (by decide) hs
  simp only
  obtain ⟨h1, h2, h3⟩ := h
  refine ⟨h1, ?_⟩
  have := Nat.div_mul_le_self (size - (Gen._mi_align_up start 33554432 - start)) 33554432
  omega

-- non-vacuity
example : mi_arena_id_is_suitable 3 1 3 = 1 ∧ mi_arena_id_is_suitable 3 1 0 = 0 ∧ mi_arena_id_is_suitable 3 0 0 = 1 := by decide

end C15
