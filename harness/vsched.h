// Deterministic baton scheduler for the hooked build (tie T3).  Virtual threads are real pthreads, exactly one
// is runnable; every atomic operation / yield / lock wait of the allocator is a scheduling point at which the
// next thread is drawn from a seeded PRNG.  Weak CAS may be told to fail spuriously.
#ifndef VSCHED_H
#define VSCHED_H
#define _GNU_SOURCE
#include <pthread.h>
#include <semaphore.h>
#include <stdio.h>
#include <stdlib.h>
#include <stdint.h>
#include <string.h>
enum { VS_MAXT = 8 };
static sem_t vs_sem[VS_MAXT];
static volatile int vs_alive[VS_MAXT];
static int vs_n = 0;
static __thread int vs_tid = -1;
static volatile int vs_enabled = 0;
static uint64_t vs_rs = 12345;
static long vs_points = 0;
static int vs_spurious_pct = 20;
static int vs_stay_pct = 0;           // probability (percent) of staying on the current thread at a point
static pthread_t vs_th[VS_MAXT];
typedef void (*vs_fn)(int tid);
static vs_fn vs_body[VS_MAXT];
static uint64_t vs_rnd(void) { vs_rs ^= vs_rs << 13; vs_rs ^= vs_rs >> 7; vs_rs ^= vs_rs << 17; return vs_rs; }
static int vs_pick(void) { int c[VS_MAXT], n = 0; for (int i = 0; i < vs_n; i++) if (vs_alive[i]) c[n++] = i; if (n == 0) return -1; return c[vs_rnd() % n]; }
void verif_sched_point(int kind, const volatile void* addr) {
  (void)kind; (void)addr;
  if (!vs_enabled || vs_tid < 0) return;
  vs_points++;
  if (vs_stay_pct > 0 && kind != 9 && kind != 10 && (int)(vs_rnd() % 100) < vs_stay_pct) return;
  int nxt = vs_pick();
  if (nxt == vs_tid || nxt < 0) return;
  sem_post(&vs_sem[nxt]); sem_wait(&vs_sem[vs_tid]);
}
int verif_spurious_fail(void) { if (!vs_enabled || vs_tid < 0) return 0; return (int)(vs_rnd() % 100) < vs_spurious_pct; }
static int vs_self(void) { return vs_tid; }
// explicit yield of the test program itself (between API calls)
static void vs_yield(void) { verif_sched_point(0, 0); }
static void vs_finish_thread(void) {   // hand the baton over for good
  int me = vs_tid; vs_alive[me] = 0; int nxt = vs_pick(); vs_tid = -1; if (nxt >= 0) sem_post(&vs_sem[nxt]);
}
static void* vs_tramp(void* a) { int t = (int)(intptr_t)a; vs_tid = t; sem_wait(&vs_sem[t]); vs_body[t](t); vs_finish_thread(); return NULL; }
static void vs_init(uint64_t seed, int nthreads) {
  vs_rs = seed * 2654435761u + 7; if (vs_rs == 0) vs_rs = 1; for (int i = 0; i < 5; i++) vs_rnd();
  vs_n = nthreads; vs_points = 0;
  for (int i = 0; i < nthreads; i++) { sem_init(&vs_sem[i], 0, 0); vs_alive[i] = 1; }
}
// runs body[0] on the calling (main) thread and body[1..n-1] on new pthreads; returns when all are done
static void vs_run(vs_fn* bodies) {
  for (int i = 0; i < vs_n; i++) vs_body[i] = bodies[i];
  for (int i = 1; i < vs_n; i++) pthread_create(&vs_th[i], NULL, vs_tramp, (void*)(intptr_t)i);
  vs_enabled = 1; vs_tid = 0; sem_post(&vs_sem[0]); sem_wait(&vs_sem[0]);
  vs_body[0](0);
  vs_finish_thread();
  for (int i = 1; i < vs_n; i++) pthread_join(vs_th[i], NULL);
  vs_enabled = 0;
}
#endif
