/- `_mi_os_good_alloc_size` as regenerated from src/os.c (`GenO`): the size the OS layer rounds a request to — and the
   size `_mi_os_free_ex` falls back to when a memory id records none.  Helper lemmas for Props/C11. -/
import MiVerif.Gen.Os
import MiVerif.Lemmas.OsAlign
import MiVerif.Lemmas.C16

namespace OsGoodL

/-- rounding up to a multiple of `a`: at least the argument, less than one `a` more, a multiple of `a` -/
theorem roundup_facts (s a : Nat) (ha : 0 < a) :
    s ≤ (s + a - 1) / a * a ∧ (s + a - 1) / a * a < s + a ∧ (s + a - 1) / a * a % a = 0 := by
  have h1 := Nat.div_add_mod (s + a - 1) a
  have h2 := Nat.mod_lt (s + a - 1) ha
  have h3 : (s + a - 1) / a * a = a * ((s + a - 1) / a) := Nat.mul_comm _ _
  refine ⟨by omega, by omega, ?_⟩
  exact Nat.mul_mod_left _ _

/-- the alignment `_mi_os_good_alloc_size` picks for a size -/
def goodAlign (ps size : Nat) : Nat :=
  if size < 524288 then ps else if size < 2097152 then 65536 else if size < 8388608 then 262144
  else if size < 33554432 then 1048576 else 4194304

theorem goodAlign_pos (ps size : Nat) (hps : 0 < ps) : 0 < goodAlign ps size := by
  unfold goodAlign; repeat' split
  all_goals omega

/-- the generated function is "round up to `goodAlign`" for every request below 2^63 -/
theorem good_eq (ps size : Nat) (hps : 0 < ps) (hps2 : ps ≤ 65536) (hs : size < 2^63) :
    GenO._mi_os_good_alloc_size ps size = (size + goodAlign ps size - 1) / goodAlign ps size * goodAlign ps size := by
  have h63 : (2:Nat)^63 = 9223372036854775808 := by decide
  rw [h63] at hs
  have hal : goodAlign ps size ≤ 4194304 := by
    unfold goodAlign; repeat' split
    all_goals omega
  have hpos := goodAlign_pos ps size hps
  have key : ∀ a, 0 < a → a ≤ 4194304 →
      (if size ≥ (18446744073709551615 + 18446744073709551616 - a) % 18446744073709551616 then size
        else GenO._mi_align_up size a) = (size + a - 1) / a * a := by
    intro a ha0 ha
    have : ¬ size ≥ (18446744073709551615 + 18446744073709551616 - a) % 18446744073709551616 := by omega
    rw [if_neg this, OsAlignL.align_up_same, C16L.align_up_eq size a ha0 (by
      have h64 : (2:Nat)^64 = 18446744073709551616 := by decide
      rw [h64]; omega)]
  unfold GenO._mi_os_good_alloc_size goodAlign
  by_cases c1 : size < 524288
  · simp only [c1, if_true]; exact key ps hps (by omega)
  · by_cases c2 : size < 2097152
    · simp only [c1, c2, if_true, if_false]; exact key 65536 (by omega) (by omega)
    · by_cases c3 : size < 8388608
      · simp only [c1, c2, c3, if_true, if_false]; exact key 262144 (by omega) (by omega)
      · by_cases c4 : size < 33554432
        · simp only [c1, c2, c3, c4, if_true, if_false]; exact key 1048576 (by omega) (by omega)
        · simp only [c1, c2, c3, c4, if_false]; exact key 4194304 (by omega) (by omega)

/-- every alignment the function can pick is a multiple of the page size when the page size divides 64 KiB -/
theorem ps_dvd_goodAlign (ps size : Nat) (hd : ps ∣ 65536) : ps ∣ goodAlign ps size := by
  unfold goodAlign
  split
  · exact Nat.dvd_refl _
  · split
    · exact hd
    · split
      · exact Nat.dvd_trans hd ⟨4, by decide⟩
      · split
        · exact Nat.dvd_trans hd ⟨16, by decide⟩
        · exact Nat.dvd_trans hd ⟨64, by decide⟩

end OsGoodL
