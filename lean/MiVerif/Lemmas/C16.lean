/- helper lemmas for Props/C16 (see C16Basic, C16Bin, C16Misc) -/
import MiVerif.Gen.Arith
import MiVerif.Gen.Tables
import MiVerif.Lemmas.C16Basic
import MiVerif.Lemmas.C16Bin
import MiVerif.Lemmas.C16Misc
