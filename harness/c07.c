// C07: operating-system refusals are survived.  Through the OS shim (harness/oshim.h):
//   c07 seg <seed> <n>        direct drive of mi_segment_commit / mi_segment_purge / mi_segment_schedule_purge / mi_segment_ensure_committed on a
//                             lazily committed segment with refusals injected; prints every step (request, refusal fired?, result, commit mask, purge
//                             mask, accessibility of every commit unit as seen by the shim) -> replayed by the Lean model (Driver/C07.lean)
//   c07 arena <seed> <n> <purge_delay>
//                             direct drive of _mi_arena_alloc_aligned / _mi_arena_free / _mi_arenas_collect on a private arena that tracks commit
//                             state, with refusals injected; prints in-use / committed / purge bitmaps and block accessibility -> Lean model
//   c07 count <workload> <row>            number of OS requests of the workload (phase 1)
//   c07 enum <workload> <row> <persistent> <k0> <k1>
//                             for every k in [k0,k1): a forked child runs the workload with OS request k refused (or every request from k on), checks
//                             after every API call that results are NULL or usable, live blocks keep their contents, every commit unit recorded as
//                             committed is accessible; then, with the OS granting again, a second workload must succeed and everything is given back
#include "oshim.h"
#include VERIF_STATIC_C
#include <pthread.h>
#include <sys/wait.h>
static int nfail = 0;
#define FAIL(key, ...) do { if (nfail++ < 12) { printf("FAIL %s ", key); printf(__VA_ARGS__); printf("\n"); fflush(stdout); } } while (0)
static uint64_t rs = 88172645463325252ULL;
static uint64_t rnd(void) { rs ^= rs << 13; rs ^= rs >> 7; rs ^= rs << 17; return rs; }

// every page of [a, a+n) mapped and accessible according to the shim?
static int vm_all_rw(uintptr_t a, size_t n) {
  uintptr_t p = a & ~(uintptr_t)(VM_PAGE - 1), end = a + n;
  while (p < end) {
    vm_map_t* m = NULL;
    for (int i = 0; i < vm_nmaps; i++) if (vm_maps[i].live && p >= vm_maps[i].base && p < vm_maps[i].base + vm_maps[i].size) { m = &vm_maps[i]; break; }
    if (!m) return 0;
    uintptr_t hi = m->base + m->size < end ? m->base + m->size : end;
    for (; p < hi; p += VM_PAGE) if (!(m->st[(p - m->base) / VM_PAGE] & VP_RW)) return 0;
  }
  return 1;
}
static void print_mask(const char* tag, const mi_commit_mask_t* m) { printf(" | %s", tag); for (int i = 0; i < MI_COMMIT_MASK_FIELD_COUNT; i++) printf(" %zx", m->mask[i]); }
static void print_os_units(mi_segment_t* seg) {
  printf(" | O");
  for (int w = 0; w < MI_COMMIT_MASK_FIELD_COUNT; w++) { size_t bits = 0;
    for (int b = 0; b < 64; b++) { size_t k = (size_t)w * 64 + b; if (k < seg->segment_slices && vm_all_rw((uintptr_t)seg + k * MI_COMMIT_SIZE, MI_COMMIT_SIZE)) bits |= (size_t)1 << b; }
    printf(" %zx", bits); }
}
// ---------------------------------------------------------------------------------------------------------------- seg
static void seg_mode(int n) {
  mi_option_set(mi_option_eager_commit, 0); mi_option_set(mi_option_arena_eager_commit, 0); mi_option_set(mi_option_eager_commit_delay, 0);
  mi_option_set(mi_option_purge_decommits, 1); mi_option_set(mi_option_purge_delay, 10);
  uint8_t* blk = (uint8_t*)mi_malloc(100); memset(blk, 0x77, 100);
  mi_segment_t* seg = _mi_ptr_segment(blk);
  if (seg->kind != MI_SEGMENT_NORMAL || !seg->allow_purge || !seg->allow_decommit) { printf("SKIP segment not purgeable (kind %d allow_purge %d)\n", (int)seg->kind, (int)seg->allow_purge); return; }
  printf("I %zu %zu %zu", (size_t)seg, seg->segment_info_slices, seg->segment_slices); print_mask("C", &seg->commit_mask); print_mask("P", &seg->purge_mask); print_os_units(seg); printf("\n");
  const size_t lo = 4 * MI_COMMIT_SIZE;     // keep away from the page that holds `blk`
  const size_t total = seg->segment_slices * MI_SEGMENT_SLICE_SIZE;
  for (int it = 0; it < n; it++) {
    unsigned op = (unsigned)(rnd() % 10);
    size_t D = lo + (size_t)(rnd() % (total - lo - 1));
    size_t size; switch (rnd() % 4) { case 0: size = 1 + (size_t)(rnd() % 4096); break; case 1: size = MI_COMMIT_SIZE * (1 + (size_t)(rnd() % 8)); break; case 2: size = 1 + (size_t)(rnd() % (4 << 20)); break; default: size = MI_COMMIT_SIZE - 1 + (size_t)(rnd() % 3); }
    if (rnd() % 3 == 0) D = D / MI_COMMIT_SIZE * MI_COMMIT_SIZE;
#if MI_DEBUG
    if (op >= 6) { D = D / MI_COMMIT_SIZE * MI_COMMIT_SIZE; size = _mi_align_up(size, MI_COMMIT_SIZE); }   // the allocator only purges whole slices (asserted in debug builds)
#endif
    if (D + size > total) size = total - D;
    int inject = ((rnd() % 5) < 2) && !getenv("C07_NOINJECT");   // C13 drives the same steps without refusals
    long c0 = verif_calls, f0 = verif_faults_fired, e0 = vm_nev;
    verif_fail_from = 0; verif_fail_at = inject ? verif_calls : -1;
    const char* name; int ret = 1;
    if (op < 4)      { name = "commit"; ret = mi_segment_commit(seg, (uint8_t*)seg + D, size); }
    else if (op < 6) { name = "ensure"; ret = mi_segment_ensure_committed(seg, (uint8_t*)seg + D, size); }
    else if (op < 9) { name = "purge";  ret = mi_segment_purge(seg, (uint8_t*)seg + D, size); }
    else             { name = "sched";  mi_segment_schedule_purge(seg, (uint8_t*)seg + D, size); }
    verif_fail_at = -1;
    int gone = 0; for (long e = e0; e < vm_nev; e++) if (vm_ev[e].ok && vm_ev[e].kind == VM_MPROTECT && !(vm_ev[e].arg & PROT_WRITE)) gone = 1;
    printf("S %s %zu %zu -> %d calls %ld refused %ld gone %d", name, D, size, ret, verif_calls - c0, verif_faults_fired - f0, gone);
    print_mask("C", &seg->commit_mask); print_mask("P", &seg->purge_mask); print_os_units(seg); printf("\n");
    // the state invariant itself, on the real state
    for (size_t k = 0; k < seg->segment_slices; k++) if ((seg->commit_mask.mask[k / 64] >> (k % 64)) & 1) if (!vm_all_rw((uintptr_t)seg + k * MI_COMMIT_SIZE, MI_COMMIT_SIZE)) { FAIL("commit_mask_claims_inaccessible", "after %s(%zu,%zu) refused=%ld: commit unit %zu is recorded as committed but is not accessible", name, D, size, verif_faults_fired - f0, k); break; }
    if ((op < 6) && ret && size > 0 && !vm_all_rw((uintptr_t)seg + D, size)) FAIL("commit_ok_but_inaccessible", "%s(%zu,%zu) returned true but the range is not accessible", name, D, size);
  }
  for (int i = 0; i < 100; i++) if (blk[i] != 0x77) { FAIL("content_changed", "live block byte %d", i); break; }
  mi_free(blk);
}
// ---------------------------------------------------------------------------------------------------------------- arena
enum { AB = 8 };
static void print_arena(mi_arena_t* a) {
  size_t os = 0; for (size_t k = 0; k < AB; k++) if (vm_all_rw((uintptr_t)a->start + k * MI_ARENA_BLOCK_SIZE, MI_ARENA_BLOCK_SIZE)) os |= (size_t)1 << k;
  printf(" | U %zx C %zx P %zx O %zx", mi_atomic_load_relaxed(&a->blocks_inuse[0]), a->blocks_committed ? mi_atomic_load_relaxed(&a->blocks_committed[0]) : (size_t)-1, a->blocks_purge ? mi_atomic_load_relaxed(&a->blocks_purge[0]) : 0, os);
}
static void arena_mode(int n, long purge_delay) {
  mi_option_set(mi_option_purge_decommits, 1); mi_option_set(mi_option_purge_delay, purge_delay); mi_option_set(mi_option_arena_purge_mult, 1);
  void* warm = mi_malloc(8); mi_free(warm);
  size_t asize = (size_t)AB * MI_ARENA_BLOCK_SIZE;
  uint8_t* raw = (uint8_t*)mmap(NULL, asize + MI_SEGMENT_ALIGN, PROT_NONE, MAP_PRIVATE | MAP_ANONYMOUS | MAP_NORESERVE, -1, 0);
  if (raw == MAP_FAILED) { printf("SKIP cannot reserve\n"); return; }
  uint8_t* start = (uint8_t*)_mi_align_up((uintptr_t)raw, MI_SEGMENT_ALIGN);
  mi_arena_id_t aid;
  if (!mi_manage_os_memory_ex(start, asize, false /*committed*/, false, true, -1, true /*exclusive*/, &aid)) { printf("SKIP manage failed\n"); return; }
  mi_arena_t* a = mi_arena_from_index(mi_arena_id_index(aid));
  if (a->blocks_committed == NULL || a->block_count != AB) { printf("SKIP arena does not track commit (%zu blocks)\n", a->block_count); return; }
  printf("I %ld", purge_delay); print_arena(a); printf("\n");
  struct { void* p; size_t blocks; mi_memid_t memid; int committed; } held[AB]; int nheld = 0;
  for (int it = 0; it < n; it++) {
    unsigned op = (unsigned)(rnd() % 10);
    int inject = ((rnd() % 5) < 2) && !getenv("C07_NOINJECT");   // C13 drives the same steps without refusals
    long f0 = verif_faults_fired, c0 = verif_calls, e0 = vm_nev;
    if (op < 5 && nheld < AB) {
      size_t blocks = 1 + (size_t)(rnd() % 3); int commit = (rnd() % 4) != 0;
      mi_memid_t memid = _mi_memid_none();
      verif_fail_from = 0; verif_fail_at = inject ? verif_calls : -1;
      void* p = _mi_arena_alloc_aligned(blocks * MI_ARENA_BLOCK_SIZE, MI_SEGMENT_ALIGN, 0, commit, false, aid, &memid);
      verif_fail_at = -1;
      if (p == NULL || memid.memkind != MI_MEM_ARENA) { printf("A alloc %zu %d -> none 0 0 refused %ld", blocks, commit, verif_faults_fired - f0); if (p) { _mi_arena_free(p, blocks * MI_ARENA_BLOCK_SIZE, 0, memid); } }
      else {
        size_t idx = (size_t)((uint8_t*)p - (uint8_t*)a->start) / MI_ARENA_BLOCK_SIZE;
        printf("A alloc %zu %d -> %zu %d calls %ld refused %ld", blocks, commit, idx, (int)memid.initially_committed, verif_calls - c0, verif_faults_fired - f0);
        if (memid.initially_committed) { if (!vm_all_rw((uintptr_t)p, blocks * MI_ARENA_BLOCK_SIZE)) FAIL("arena_committed_but_inaccessible", "blocks %zu+%zu handed out as committed are not accessible (refused %ld)", idx, blocks, verif_faults_fired - f0); else { ((volatile uint8_t*)p)[0] = 1; ((volatile uint8_t*)p)[blocks * MI_ARENA_BLOCK_SIZE - 1] = 1; } }
        held[nheld].p = p; held[nheld].blocks = blocks; held[nheld].memid = memid; held[nheld].committed = memid.initially_committed; nheld++;
      }
    }
    else if (op < 9 && nheld > 0) {
      int j = (int)(rnd() % nheld); size_t size = held[j].blocks * MI_ARENA_BLOCK_SIZE; size_t csize;
      size_t idx = (size_t)((uint8_t*)held[j].p - (uint8_t*)a->start) / MI_ARENA_BLOCK_SIZE;
      if (held[j].committed) csize = size;        // the holder reports "all committed" only when that is true
      else { unsigned v = (unsigned)(rnd() % 3); if (v == 0) csize = 0; else { // like a segment, the holder committed a part itself
          size_t part = MI_COMMIT_SIZE * (1 + (size_t)(rnd() % 64)); bool z; if (_mi_os_commit(held[j].p, part, &z)) csize = part; else csize = 0; } }
      f0 = verif_faults_fired; c0 = verif_calls; e0 = vm_nev;
      verif_fail_from = 0; verif_fail_at = inject ? verif_calls : -1;
      _mi_arena_free(held[j].p, size, csize, held[j].memid);
      verif_fail_at = -1;
      int gone = 0; for (long e = e0; e < vm_nev; e++) if (vm_ev[e].ok && vm_ev[e].kind == VM_MPROTECT && !(vm_ev[e].arg & PROT_WRITE)) gone = 1;
      printf("A free %zu %zu %d -> calls %ld refused %ld gone %d", idx, held[j].blocks, (int)(csize == size), verif_calls - c0, verif_faults_fired - f0, gone);
      held[j] = held[--nheld];
    }
    else {
      verif_advance_ms(50);
      _mi_arenas_collect(true);
      printf("A collect -> calls %ld", verif_calls - c0);
    }
    print_arena(a); printf("\n");
    // the state invariant on the real state: a free block recorded as committed is accessible
    size_t inuse = mi_atomic_load_relaxed(&a->blocks_inuse[0]), com = mi_atomic_load_relaxed(&a->blocks_committed[0]);
    for (size_t k = 0; k < AB; k++) if (!((inuse >> k) & 1) && ((com >> k) & 1) && !vm_all_rw((uintptr_t)a->start + k * MI_ARENA_BLOCK_SIZE, MI_ARENA_BLOCK_SIZE)) { FAIL("arena_committed_bit_claims_inaccessible", "free arena block %zu is recorded as committed but is not accessible", k); break; }
  }
}
// ---------------------------------------------------------------------------------------------------------------- enum
typedef struct { uint8_t* p; size_t n; uint8_t pat; } blk_t;
static blk_t B[2000]; static int nb = 0; static long n_null = 0, n_api = 0;
static mi_heap_t* extra_heap = NULL;
static int in_phase2 = 0;
static void check_segments_of(mi_heap_t* h) {
  if (h == NULL || !mi_heap_is_initialized(h)) return;
  mi_segment_t* seen[64]; int ns = 0;
  for (size_t b = 0; b <= MI_BIN_FULL; b++) for (mi_page_t* pg = h->pages[b].first; pg != NULL; pg = pg->next) {
    mi_segment_t* s = _mi_page_segment(pg); int dup = 0; for (int i = 0; i < ns; i++) if (seen[i] == s) dup = 1; if (dup || ns >= 64) continue; seen[ns++] = s;
    if (s->kind == MI_SEGMENT_HUGE) { if (!vm_all_rw((uintptr_t)s, mi_segment_size(s))) FAIL("huge_segment_inaccessible", "huge segment %p (%zu bytes) in use is not entirely accessible", (void*)s, mi_segment_size(s)); continue; }
    for (size_t k = 0; k < s->segment_slices && k < MI_COMMIT_MASK_BITS; k++) if ((s->commit_mask.mask[k / 64] >> (k % 64)) & 1) if (!vm_all_rw((uintptr_t)s + k * MI_COMMIT_SIZE, MI_COMMIT_SIZE)) { FAIL("commit_mask_claims_inaccessible", "segment %p: commit unit %zu is recorded as committed but is not accessible", (void*)s, k); break; }
  }
}
static void check_arenas(void) {
  for (size_t i = 0; i < mi_atomic_load_relaxed(&mi_arena_count); i++) { mi_arena_t* a = mi_atomic_load_ptr_relaxed(mi_arena_t, &mi_arenas[i]); if (!a || a->blocks_committed == NULL) continue;
    for (size_t k = 0; k < a->block_count; k++) { size_t f = k / MI_BITMAP_FIELD_BITS, b = k % MI_BITMAP_FIELD_BITS;
      if (!((mi_atomic_load_relaxed(&a->blocks_inuse[f]) >> b) & 1) && ((mi_atomic_load_relaxed(&a->blocks_committed[f]) >> b) & 1) && !vm_all_rw((uintptr_t)a->start + k * MI_ARENA_BLOCK_SIZE, MI_ARENA_BLOCK_SIZE))
        { FAIL("arena_committed_bit_claims_inaccessible", "arena %zu: free block %zu is recorded as committed but is not accessible", i, k); return; } } }
}
static void after_api(void) { n_api++; check_segments_of(mi_prim_get_default_heap()); check_segments_of(extra_heap); }
static void add(void* p, size_t n, int zeroed, size_t align) {
  after_api();
  if (!p) { n_null++; if (in_phase2) FAIL("unusable_after_recovery", "allocation of %zu bytes failed although the OS grants every request again", n); return; }
  if (align && ((uintptr_t)p % align) != 0) FAIL("misaligned", "%zu bytes alignment %zu", n, align);
  if (mi_usable_size(p) < n) FAIL("usable_lt_size", "%zu", n);
  if (!vm_all_rw((uintptr_t)p, n ? n : 1)) { FAIL("handed_out_inaccessible", "block %p of %zu bytes lies (partly) in memory the OS did not make accessible", p, n); return; }
  if (zeroed) for (size_t k = 0; k < n; k += (n > 65536 ? 4093 : 1)) if (((uint8_t*)p)[k] != 0) { FAIL("zalloc_not_zero", "%zu bytes, byte %zu", n, k); break; }
  for (int i = 0; i < nb; i++) if ((uint8_t*)p < B[i].p + B[i].n && B[i].p < (uint8_t*)p + n) { FAIL("double_handout", "block of %zu bytes overlaps live block %d", n, i); break; }
  if (nb >= 2000) { mi_free(p); return; }
  B[nb].p = (uint8_t*)p; B[nb].n = n; B[nb].pat = (uint8_t)(nb * 7 + 1); memset(p, B[nb].pat, n); nb++;
}
static void check_contents(const char* when) { for (int i = 0; i < nb; i++) for (size_t k = 0; k < B[i].n; k += (B[i].n > 4096 ? 997 : 1)) if (B[i].p[k] != B[i].pat) { FAIL("content_changed", "%s: live block %d (%zu bytes) byte %zu", when, i, B[i].n, k); return; } }
static void free_some(int step) { for (int i = 0; i < nb; i += step) { mi_free(B[i].p); B[i] = B[--nb]; } after_api(); }
static void free_all(void) { for (int i = 0; i < nb; i++) mi_free(B[i].p); nb = 0; after_api(); }
static void* thread_fn(void* arg) { (void)arg; void* q[40]; for (int i = 0; i < 40; i++) { q[i] = mi_malloc(100 + (size_t)i * 300); if (q[i]) memset(q[i], 3, 100); } for (int i = 0; i < 40; i += 2) mi_free(q[i]);
  void** keep = (void**)mi_malloc(20 * sizeof(void*)); if (!keep) { for (int i = 1; i < 40; i += 2) mi_free(q[i]); return NULL; } for (int i = 0; i < 20; i++) keep[i] = q[2 * i + 1]; return keep; }
static void workload(int w) {
  if (w == 0) {
    for (int i = 0; i < 60; i++) add(mi_malloc(50 + (size_t)i * 37), 50 + (size_t)i * 37, 0, 0);
    for (int i = 0; i < 20; i++) add(mi_malloc(9000 + (size_t)i * 3000), 9000 + (size_t)i * 3000, 0, 0);
    add(mi_malloc(3 << 20), 3 << 20, 0, 0); add(mi_malloc(10 << 20), 10 << 20, 0, 0); add(mi_malloc(40 << 20), 40 << 20, 0, 0);
    add(mi_malloc_aligned(1000, 1 << 16), 1000, 0, 1 << 16); add(mi_malloc_aligned(100000, 1 << 22), 100000, 0, 1 << 22); add(mi_malloc_aligned(5000, (size_t)64 << 20), 5000, 0, (size_t)64 << 20);
    check_contents("after allocation");
    free_some(2); mi_collect(true); after_api();
    for (int i = 0; i < 30; i++) add(mi_zalloc(200000 + (size_t)i * 50000), 200000 + (size_t)i * 50000, 1, 0);
    check_contents("after second wave");
  }
  else if (w == 1) {
    extra_heap = mi_heap_new(); after_api();
    for (int i = 0; i < 80; i++) { size_t n = 16 + (size_t)i * 211; add(extra_heap ? mi_heap_malloc(extra_heap, n) : mi_malloc(n), n, 0, 0); }
    pthread_t th; void* res = NULL;
    if (pthread_create(&th, NULL, &thread_fn, NULL) == 0) { pthread_join(th, &res); if (res) { void** keep = (void**)res; for (int i = 0; i < 20; i++) mi_free(keep[i]); mi_free(keep); } }
    after_api();
    for (int i = 0; i < 12; i++) { size_t n = 70000 + (size_t)i * 90000; add(mi_calloc(1, n), n, 1, 0); }
    // growth chain through realloc
    { size_t n = 1000; uint8_t* p = (uint8_t*)mi_malloc(n); after_api(); if (p) memset(p, 0x31, n);
      for (int s = 0; s < 12 && p; s++) { size_t nn = n * 2 + 17; uint8_t* q = (uint8_t*)mi_realloc(p, nn); after_api();
        if (!q) { n_null++; for (size_t k = 0; k < n; k += 61) if (p[k] != 0x31) { FAIL("content_changed", "failed realloc changed the old block"); break; } break; }
        for (size_t k = 0; k < n; k += 61) if (q[k] != 0x31) { FAIL("content_changed", "realloc %zu -> %zu lost byte %zu", n, nn, k); break; }
        if (!vm_all_rw((uintptr_t)q, nn)) { FAIL("handed_out_inaccessible", "realloc result of %zu bytes", nn); p = q; break; }
        memset(q, 0x31, nn); p = q; n = nn; }
      mi_free(p); }
    check_contents("after realloc chain");
    if (extra_heap) { mi_heap_delete(extra_heap); extra_heap = NULL; after_api(); }
    check_contents("after heap delete");
    free_some(3); mi_collect(false); after_api();
    for (int i = 0; i < 30; i++) add(mi_malloc(3000 + (size_t)i * 5000), 3000 + (size_t)i * 5000, 0, 0);
  }
  else {
    // repeated fill / free / collect: purges (decommit, reset) and re-commits of the same memory
    for (int round = 0; round < 3; round++) {
      for (int i = 0; i < 40; i++) { size_t n = 20000 + (size_t)((i * 7919 + round * 104729) % 400000); add(mi_malloc(n), n, 0, 0); }
      add(mi_malloc((size_t)34 << 20), (size_t)34 << 20, 0, 0);
      check_contents("fill");
      free_some(round == 1 ? 1 : 2); verif_advance_ms(200); mi_collect(round != 0); after_api();
      for (int i = 0; i < 15; i++) { size_t n = 1 << (10 + i % 9); add(mi_zalloc_aligned(n, 4096), n, 1, 4096); }
      verif_advance_ms(200);
    }
    check_contents("after rounds");
  }
}
static void set_row(int row) {
  if (row == 1) { mi_option_set(mi_option_eager_commit, 0); mi_option_set(mi_option_arena_eager_commit, 0); mi_option_set(mi_option_purge_delay, 0); }
  if (row == 2) { mi_option_set(mi_option_disallow_arena_alloc, 1); mi_option_set(mi_option_purge_delay, 0); mi_option_set(mi_option_eager_commit_delay, 0); }
  if (row == 3) { mi_option_set(mi_option_arena_reserve, 64 * 1024); mi_option_set(mi_option_purge_delay, 1); mi_option_set(mi_option_purge_decommits, 0); mi_option_set(mi_option_arena_eager_commit, 0); }
  if (row == 4) { mi_option_set(mi_option_arena_eager_commit, 0); mi_option_set(mi_option_purge_delay, 10); }
}
static bool count_live(const mi_heap_t* h, const mi_heap_area_t* a, void* b, size_t sz, void* arg) { (void)h; (void)a; (void)sz; if (b) (*(long*)arg)++; return true; }
static int is_arena_addr(uintptr_t p) { for (size_t i = 0; i < mi_atomic_load_relaxed(&mi_arena_count); i++) { mi_arena_t* a = mi_atomic_load_ptr_relaxed(mi_arena_t, &mi_arenas[i]); if (a && p >= (uintptr_t)a->start && p < (uintptr_t)a->start + a->block_count * MI_ARENA_BLOCK_SIZE) return 1; } return 0; }
// one child: phase 1 under refusals, phase 2 with the OS granting again, then everything must be given back
static int child(int w, int row, int persistent, long k, long base) {
  verif_fail_from = persistent; verif_fail_at = base + k;
  workload(w);
  long fired = verif_faults_fired;
  verif_fail_at = -1; verif_fail_from = 0;
  check_contents("end of phase 1"); check_arenas();
  in_phase2 = 1;
  workload(w == 0 ? 1 : 0);
  check_contents("end of phase 2");
  // remember where the live blocks were, free everything, collect
  static uintptr_t addr[2000]; int na = nb; for (int i = 0; i < nb; i++) addr[i] = (uintptr_t)B[i].p;
  free_all(); mi_collect(true); verif_advance_ms(1000); mi_collect(true);
  long live = 0; mi_heap_visit_blocks(mi_heap_get_default(), true, &count_live, &live);
  if (live != 0) FAIL("blocks_left_behind", "%ld blocks still live in the heap after everything was freed and collected", live);
  long still = 0; uintptr_t ex = 0; long refused_unmaps = 0;
  for (long e = 0; e < vm_nev; e++) if (vm_ev[e].kind == VM_MUNMAP && !vm_ev[e].ok) refused_unmaps++;
  for (int i = 0; i < na; i++) if (!is_arena_addr(addr[i]) && vm_page_state(addr[i]) >= 0) {
    int excused = 0; for (long e = 0; e < vm_nev; e++) if (vm_ev[e].kind == VM_MUNMAP && !vm_ev[e].ok && addr[i] >= vm_ev[e].addr && addr[i] < vm_ev[e].addr + vm_ev[e].size) excused = 1;   // the OS refused to take it back
    if (!excused) { still++; if (!ex) ex = addr[i]; } }
  if (still > 0) FAIL("os_region_not_unmapped", "%ld blocks obtained outside any arena are still mapped after free + collect (e.g. %p)", still, (void*)ex);
  size_t inuse = 0; for (size_t i = 0; i < mi_atomic_load_relaxed(&mi_arena_count); i++) { mi_arena_t* a = mi_atomic_load_ptr_relaxed(mi_arena_t, &mi_arenas[i]); if (!a) continue; for (size_t b = 0; b < a->block_count; b++) if ((mi_atomic_load_relaxed(&a->blocks_inuse[b / MI_BITMAP_FIELD_BITS]) >> (b % MI_BITMAP_FIELD_BITS)) & 1) inuse++; }
  if (vm_foreign_unmaps > 0) FAIL("unmap_of_memory_not_owned", "%ld munmap calls covered memory the allocator had not mapped or had already unmapped (first: %p + %zu, of which %zu bytes were its own)", vm_foreign_unmaps, (void*)vm_foreign_addr, vm_foreign_size, vm_foreign_covered);
  if (inuse > 0) FAIL("arena_blocks_still_inuse", "%zu arena blocks still claimed after everything was freed and collected", inuse);
  check_arenas();
  if (getenv("C07_TRACE")) { for (long e = 0; e < vm_nev; e++) printf("EV %ld kind %d addr %zx size %zx arg %d ok %d\n", e, vm_ev[e].kind, (size_t)vm_ev[e].addr, vm_ev[e].size, vm_ev[e].arg, vm_ev[e].ok);
    for (size_t i = 0; i < mi_atomic_load_relaxed(&mi_arena_count); i++) { mi_arena_t* a = mi_atomic_load_ptr_relaxed(mi_arena_t, &mi_arenas[i]); if (a) printf("ARENA %zu start %zx blocks %zu inuse %zx committed %zx purge %zx\n", i, (size_t)a->start, a->block_count, a->blocks_inuse[0], a->blocks_committed ? a->blocks_committed[0] : 0, a->blocks_purge ? a->blocks_purge[0] : 0);
        for (size_t b = 0; a && b < a->block_count && b < 64; b++) if ((a->blocks_inuse[0] >> b) & 1) { mi_segment_t* sg = (mi_segment_t*)((uint8_t*)a->start + b * MI_ARENA_BLOCK_SIZE); if (vm_all_rw((uintptr_t)sg, 4096)) printf("SEG block %zu used %zu abandoned %zu thread_id %zx kind %d slices %zu cookie_ok %d\n", b, sg->used, sg->abandoned, (size_t)sg->thread_id, (int)sg->kind, sg->segment_slices, (int)(sg->cookie == _mi_ptr_cookie(sg))); } } }
  printf("K %ld fired %ld nulls %ld api %ld fails %d\n", k, fired, n_null, n_api, nfail); fflush(stdout);
  return nfail ? 3 : 0;
}
// prange <seed> <n>: the real mi_arena_purge_range on a 64-block arena (field 0) with random start / length / purge mask; the ranges it
// hands to the OS (one purge request per mi_arena_purge) are printed for the comparison with the regenerated function (Gen/PurgeRange.lean)
static void prange_mode(int n) {
  mi_option_set(mi_option_purge_decommits, 0); mi_option_set(mi_option_purge_delay, 0); mi_option_set(mi_option_arena_purge_mult, 1);
  void* warm = mi_malloc(8); mi_free(warm);
  const size_t NB = 64; size_t asize = NB * MI_ARENA_BLOCK_SIZE;
  uint8_t* raw = (uint8_t*)mmap(NULL, asize + MI_SEGMENT_ALIGN, PROT_READ | PROT_WRITE, MAP_PRIVATE | MAP_ANONYMOUS | MAP_NORESERVE, -1, 0);
  if (raw == MAP_FAILED) { printf("SKIP cannot reserve\n"); return; }
  uint8_t* start = (uint8_t*)_mi_align_up((uintptr_t)raw, MI_SEGMENT_ALIGN);
  mi_arena_id_t aid;
  if (!mi_manage_os_memory_ex(start, asize, true /*committed*/, false, true, -1, true /*exclusive*/, &aid)) { printf("SKIP manage failed\n"); return; }
  mi_arena_t* a = mi_arena_from_index(mi_arena_id_index(aid));
  if (a->block_count != NB || a->field_count != 1) { printf("SKIP arena shape (%zu blocks, %zu fields)\n", a->block_count, a->field_count); return; }
  for (int it = 0; it < n; it++) {
    size_t startidx = (size_t)(rnd() % 64), bitlen = 1 + (size_t)(rnd() % (64 - startidx));
    uint64_t purge;
    switch (rnd() % 6) {
      case 0: purge = rnd(); break;
      case 1: purge = rnd() | rnd() | rnd(); break;                                  // dense
      case 2: purge = rnd() & rnd() & rnd(); break;                                  // sparse
      case 3: purge = ~(uint64_t)0; break;
      case 4: purge = (bitlen >= 64 ? ~(uint64_t)0 : ((((uint64_t)1 << bitlen) - 1) << startidx)); break;   // exactly the range
      default: { purge = 0; int runs = 1 + (int)(rnd() % 4); for (int r = 0; r < runs; r++) { unsigned b = (unsigned)(rnd() % 64), l = 1 + (unsigned)(rnd() % 16); for (unsigned j = b; j < b + l && j < 64; j++) purge |= (uint64_t)1 << j; } }
    }
    long e0 = vm_nev;
    bool all = mi_arena_purge_range(a, 0, startidx, bitlen, (size_t)purge);
    printf("PR %zu %zu %llu -> %d", startidx, bitlen, (unsigned long long)purge, (int)all);
    uintptr_t la = 0; size_t ls = 0; size_t rb[130], rc_[130]; int nr = 0, outside = 0;
    for (long e = e0; e < vm_nev; e++) {
      if (vm_ev[e].kind != VM_MADVISE && vm_ev[e].kind != VM_MPROTECT && vm_ev[e].kind != VM_MMAP) continue;
      if (vm_ev[e].addr == la && vm_ev[e].size == ls) continue;       // a second system call for the same purge request
      la = vm_ev[e].addr; ls = vm_ev[e].size;
      if (la < (uintptr_t)a->start || la + ls > (uintptr_t)a->start + asize || (la - (uintptr_t)a->start) % MI_ARENA_BLOCK_SIZE != 0 || ls % MI_ARENA_BLOCK_SIZE != 0) { outside++; continue; }
      if (nr < 130) { rb[nr] = (la - (uintptr_t)a->start) / MI_ARENA_BLOCK_SIZE; rc_[nr] = ls / MI_ARENA_BLOCK_SIZE; printf(" %zu %zu", rb[nr], rc_[nr]); nr++; }
    }
    printf("\n");
    if (outside) FAIL("purge_range_outside_arena", "purge_range(%zu,%zu,%llx): %d requests outside the arena or not block-aligned", startidx, bitlen, (unsigned long long)purge, outside);
    for (int r = 0; r < nr; r++) {
      size_t b = rb[r], c = rc_[r];
      if (b < startidx || b + c > startidx + bitlen) FAIL("purge_outside_claimed_range", "purge_range(%zu,%zu,%llx) purged blocks %zu+%zu", startidx, bitlen, (unsigned long long)purge, b, c);
      for (size_t j = b; j < b + c && j < 64; j++) if (!((purge >> j) & 1)) { FAIL("purge_of_unscheduled_block", "purge_range(%zu,%zu,%llx) purged block %zu", startidx, bitlen, (unsigned long long)purge, j); break; }
    }
  }
}

// cmask <seed> <n>: the real mi_commit_mask_create for every start bit and a set of lengths (edges of the 64-bit fields, the rest of the
// mask, random ones); prints the eight fields for the comparison with the regenerated function (Gen/Loops.lean)
static void cmask_mode(int n) {
  long lines = 0;
  for (size_t bitidx = 0; bitidx < MI_COMMIT_MASK_BITS; bitidx++) {
    size_t room = MI_COMMIT_MASK_BITS - bitidx;
    size_t lens[14] = { 0, 1, 2, 63, 64, 65, 127, 128, 129, room, room > 1 ? room - 1 : 1, 1 + (size_t)(rnd() % room), 1 + (size_t)(rnd() % room), 1 + (size_t)(rnd() % room) };
    for (int j = 0; j < 14 && lines < n; j++) {
      size_t bitcount = lens[j]; if (bitcount > room) continue;
      if (bitcount == MI_COMMIT_MASK_BITS && bitidx != 0) continue;
      mi_commit_mask_t cm; for (size_t i = 0; i < MI_COMMIT_MASK_FIELD_COUNT; i++) cm.mask[i] = 0x5a5a5a5a5a5a5a5aULL;   // whatever was there before
      mi_commit_mask_create(bitidx, bitcount, &cm);
      printf("CM %zu %zu ->", bitidx, bitcount);
      for (size_t i = 0; i < MI_COMMIT_MASK_FIELD_COUNT; i++) printf(" %llu", (unsigned long long)cm.mask[i]);
      printf("\n"); lines++;
      for (size_t k = 0; k < MI_COMMIT_MASK_BITS; k++) { int bit = (int)((cm.mask[k / 64] >> (k % 64)) & 1); int want = (k >= bitidx && k < bitidx + bitcount); if (bit != want) { FAIL("commit_mask_create_wrong_bit", "create(%zu,%zu): bit %zu is %d", bitidx, bitcount, k, bit); break; } }
    }
  }
}

// csize <seed> <n>: the real _mi_commit_mask_committed_size on full, nearly full, sparse, random and empty masks
static void csize_mode(int n) {
  static const size_t TOT[] = { MI_SEGMENT_SIZE, 512, 0, 512 * 4096, (size_t)1 << 40, 1000 };
  for (int it = 0; it < n; it++) {
    mi_commit_mask_t cm;
    unsigned shape = (unsigned)(rnd() % 8);
    for (size_t i = 0; i < MI_COMMIT_MASK_FIELD_COUNT; i++) {
      uint64_t w;
      switch (shape) {
        case 0: w = ~(uint64_t)0; break;
        case 1: w = ~(uint64_t)0; break;                     // one bit cleared below
        case 2: w = 0; break;
        case 3: w = rnd() & rnd() & rnd(); break;
        case 4: w = rnd() | rnd() | rnd(); break;
        case 5: w = (rnd() & 1) ? ~(uint64_t)0 : rnd(); break;
        default: w = rnd();
      }
      cm.mask[i] = (size_t)w;
    }
    if (shape == 1) { size_t k = (size_t)(rnd() % 512); cm.mask[k / 64] &= ~((size_t)1 << (k % 64)); }
    size_t total = TOT[rnd() % 6];
    size_t r = _mi_commit_mask_committed_size(&cm, total);
    printf("CS %zu", total);
    for (size_t i = 0; i < MI_COMMIT_MASK_FIELD_COUNT; i++) printf(" %llu", (unsigned long long)cm.mask[i]);
    printf(" -> %zu\n", r);
    int full = 1; for (size_t i = 0; i < MI_COMMIT_MASK_FIELD_COUNT; i++) if (~cm.mask[i] != 0) full = 0;
    if (total > 0 && total % 512 == 0 && (r == total) != (full != 0)) FAIL("committed_size_total_without_full_mask", "total %zu result %zu full %d", total, r, full);
  }
}

int main(int argc, char** argv) {
  if (argc < 3) { fprintf(stderr, "usage: c07 seg|arena|count|enum ...\n"); return 2; }
  setvbuf(stdout, NULL, _IOLBF, 0);
  mi_option_set(mi_option_show_errors, 0); mi_option_set(mi_option_verbose, 0);
  if (strcmp(argv[1], "csize") == 0) {
    uint64_t seed = strtoull(argv[2], 0, 10); rs ^= seed * 0x9E3779B97F4A7C15ULL; if (!rs) rs = 1; for (int i = 0; i < 8; i++) rnd();
    csize_mode(argc > 3 ? atoi(argv[3]) : 4000); printf("DONE fails %d\n", nfail); return 0;
  }
  if (strcmp(argv[1], "cmask") == 0) {
    uint64_t seed = strtoull(argv[2], 0, 10); rs ^= seed * 0x9E3779B97F4A7C15ULL; if (!rs) rs = 1; for (int i = 0; i < 8; i++) rnd();
    cmask_mode(argc > 3 ? atoi(argv[3]) : 8000); printf("DONE fails %d\n", nfail); return 0;
  }
  if (strcmp(argv[1], "prange") == 0) {
    uint64_t seed = strtoull(argv[2], 0, 10); rs ^= seed * 0x9E3779B97F4A7C15ULL; if (!rs) rs = 1; for (int i = 0; i < 8; i++) rnd();
    prange_mode(argc > 3 ? atoi(argv[3]) : 500); printf("DONE fails %d\n", nfail); return 0;
  }
  if (strcmp(argv[1], "seg") == 0 || strcmp(argv[1], "arena") == 0) {
    uint64_t seed = strtoull(argv[2], 0, 10); rs ^= seed * 0x9E3779B97F4A7C15ULL; if (!rs) rs = 1; for (int i = 0; i < 8; i++) rnd();
    if (argv[1][0] == 's') seg_mode(argc > 3 ? atoi(argv[3]) : 300); else arena_mode(argc > 3 ? atoi(argv[3]) : 300, argc > 4 ? atol(argv[4]) : 0);
    printf("DONE fails %d\n", nfail); return 0;
  }
  int w = atoi(argv[2]); int row = argc > 3 ? atoi(argv[3]) : 0;
  set_row(row);
  long base = verif_calls;          // no warm-up: the very first reservations of the process are part of the enumeration
  if (strcmp(argv[1], "count") == 0) {
    workload(w); printf("COUNT %ld nulls %ld fails %d\n", verif_calls - base, n_null, nfail);
    for (long e = 0; e < vm_nev; e++) if (vm_ev[e].kind >= 1 && vm_ev[e].kind <= 4) { static long kc[5]; kc[vm_ev[e].kind]++; if (e == vm_nev - 1) printf("KINDS mmap %ld munmap %ld mprotect %ld madvise %ld\n", kc[1], kc[2], kc[3], kc[4]); }
    return 0;
  }
  int persistent = atoi(argv[4]); long k0 = atol(argv[5]), k1 = atol(argv[6]);
  if (strcmp(argv[1], "one") == 0) { int r = child(w, row, persistent, k0, base); printf("DONE\n"); return r; }   // in-process replay of one case (for debuggers)
  for (long k = k0; k < k1; k++) {
    fflush(stdout);
    pid_t c = fork();
    if (c == 0) { int r = child(w, row, persistent, k, base); fflush(stdout); _exit(r); }
    int st = 0; waitpid(c, &st, 0);
    if (WIFSIGNALED(st)) printf("CRASH k %ld signal %d\n", k, WTERMSIG(st));
    else if (WEXITSTATUS(st) != 0 && WEXITSTATUS(st) != 3) printf("CRASH k %ld exit %d\n", k, WEXITSTATUS(st));
  }
  printf("DONE\n");
  return 0;
}
