import MiVerif.Lemmas.SegProof
namespace SegM

@[simp] theorem set_used (g : Seg) (i : Nat) (v : Slice) : (set g i v).used = g.used := rfl

theorem get_queues_irrel (g : Seg) (q : Array (List Nat)) (j : Nat) : get { g with queues := q } j = get g j := rfl

/-- state after `spanFree` (c > 0, span inside the segment), pointwise: first entry, last entry, rest unchanged -/
theorem spanFree_get (g : Seg) (s c j : Nat) (hc : 0 < c) (hfit : s + c ≤ g.entries)
    (hsz : g.slices.size = g.entries + 1) :
    get (spanFree g s c) j =
      if j = s then { count := c, off := 0, bs := 0 }
      else if j = s + c - 1 then { count := 0, off := c - 1, bs := 0 }
      else get g j := by
  unfold spanFree queuePush
  have hc0 : ¬ c = 0 := by omega
  simp only [hc0, if_false, set_entries]
  have hmin : min (s + c - 1) g.entries = s + c - 1 := by omega
  rw [hmin]
  by_cases h1 : c > 1
  · simp only [h1, if_true]
    rw [get_set _ _ _ _ (by simp [hsz]; omega)]
    simp only [get_queues_irrel]
    rw [get_set _ _ _ _ (by simp [hsz]; omega), get_set _ _ _ _ (by simp [hsz]; omega)]
    rw [get_set _ _ _ _ (by simp [hsz]; omega), get_set _ _ _ _ (by simp [hsz]; omega)]
    by_cases hj : s = j
    · subst hj
      have : ¬ (s + c - 1 = s) := by omega
      simp [this]
    · have hj' : ¬ j = s := fun h => hj h.symm
      simp only [hj, hj', if_false]
      by_cases hl : s + c - 1 = j
      · subst hl; simp
      · have hl' : ¬ j = s + c - 1 := fun h => hl h.symm
        simp [hl, hl']
  · have hc1 : c = 1 := by omega
    subst hc1
    simp only [h1, if_false]
    rw [get_set _ _ _ _ (by simp [hsz]; omega)]
    simp only [get_queues_irrel]
    rw [get_set _ _ _ _ (by simp [hsz]; omega), get_set _ _ _ _ (by simp [hsz]; omega)]
    by_cases hj : s = j
    · subst hj; simp
    · have hj' : ¬ j = s := fun h => hj h.symm
      have h2 : ¬ j = s + 1 - 1 := by omega
      simp [hj, hj', h2]

theorem spanFree_ok (g : Seg) (s c : Nat) (hc : 0 < c) (hfit : s + c ≤ g.entries)
    (hsz : g.slices.size = g.entries + 1) : SpanOk (spanFree g s c) (s, c, false) := by
  unfold SpanOk
  simp only []
  refine ⟨?_, ?_, ?_, ?_, ?_⟩
  · rw [spanFree_get g s c s hc hfit hsz]; simp
  · rw [spanFree_get g s c s hc hfit hsz]; simp
  · rw [spanFree_get g s c s hc hfit hsz]; simp
  · intro h1
    rw [spanFree_get g s c (s + c - 1) hc hfit hsz]
    have : ¬ (s + c - 1 = s) := by omega
    simp [this]
  · intro h; cases h

/-- frame: a span whose *defined* entries are outside {s, s+c-1} keeps them -/
theorem spanFree_frame (g : Seg) (s c : Nat) (hc : 0 < c) (hfit : s + c ≤ g.entries)
    (hsz : g.slices.size = g.entries + 1) (y : Span) (hy0 : 0 < y.2.1)
    (hdis : y.1 + y.2.1 ≤ s ∨ s + c ≤ y.1) (hok : SpanOk g y) : SpanOk (spanFree g s c) y := by
  have hout : ∀ j, y.1 ≤ j → j < y.1 + y.2.1 → get (spanFree g s c) j = get g j := by
    intro j h1 h2
    rw [spanFree_get g s c j hc hfit hsz]
    have a : ¬ j = s := by omega
    have b : ¬ j = s + c - 1 := by omega
    simp [a, b]
  obtain ⟨ys, yc, yu⟩ := y
  unfold SpanOk at hok ⊢
  simp only [] at hok hy0 hdis hout ⊢
  obtain ⟨o1, o2, o3, o4, o5⟩ := hok
  refine ⟨?_, ?_, ?_, ?_, ?_⟩
  · rw [hout ys (by omega) (by omega)]; exact o1
  · rw [hout ys (by omega) (by omega)]; exact o2
  · rw [hout ys (by omega) (by omega)]; exact o3
  · intro h; rw [hout (ys + yc - 1) (by omega) (by omega)]; exact o4 h
  · intro hu k hk1 hk2; rw [hout (ys + k) (by omega) (by omega)]; exact o5 hu k hk1 hk2

end SegM


