"""C18 — unused memory is purged after the configured delay without a forced collect
(T1 guard extraction + decision-logic theorems; T2a direct-drive correspondence of the purge functions under a
virtual clock; API-level oracle through the OS shim)."""
import os
import vcommon as V

TRUSTED = ['Lean 4 kernel', 'guard extraction of extract/translate.py (the `if` conditions of arena.c / segment.c purge code as Lean predicates)',
           'hand-written sequencing between the guards (MiVerif/Model/Purge.lean), compared with the real functions after every operation (harness/c18.c model mode)',
           'harness/oshim.h: macro renaming of mmap/munmap/mprotect/madvise/clock_gettime when compiling src/static.c; per-page purge bookkeeping of the shim',
           'one arena / one segment, single-threaded; several arenas sharing the global expiry are outside the theorem (DESIGN.md C18, partial)']

def run(chk):
    chk.trusted = TRUSTED
    chk.assumptions = ['release configuration, Linux primitives (purge = madvise(MADV_DONTNEED / MADV_FREE) or mprotect(PROT_NONE))', 'time is the virtual clock served by the shim',
                       'a segment is purged without force when a page of that segment is freed or allocated at or after the expiry (mi_collect(false) does not visit segments) - this is how the code defines "ordinary later activity"; arenas are purged by _mi_arena_free and by mi_collect(false)']
    chk.extra['rule'] = ('obligations = theorems of Props/C18.lean over guards regenerated from the source; evaluations = operations of the real purge functions replayed by the model '
                         '+ oracle checks (pages of freed memory examined); distinct = distinct operation lines / configurations')
    chk.lean('MiVerif.Props.C18', groups=['Purge', 'Arith', 'Commit', 'ArenaGen'])
    okd, exe, log = V.build_driver()
    if not okd:
        chk.broken_tie('lean driver does not build (generated guards changed shape?)', log[-1500:])
    thorough = chk.tier == 'thorough'
    with V.Scratch() as d:
        h = os.path.join(d, 'c18')
        ok, log = V.cc_harness(os.path.join(V.HARNESS, 'c18.c'), h, flags=list(V.RELEASE) + ['-DVERIF_STATIC_C="%s/src/static.c"' % V.REPO])
        if not ok:
            chk.broken_tie('C18 harness does not compile against the current tree', log[-1500:]); return
        # ---- T2a: model correspondence
        delays = (10, 3, 0, -1, 25) if thorough else (10, 3, 0, -1)
        seeds = range(chk.seed * 100, chk.seed * 100 + (12 if thorough else 3))
        jobs = [([h, 'model', str(sd), str(dl), str(which)], None, 120) for dl in delays for sd in seeds for which in (0, 1)]
        outs = V.pmap(jobs)
        log_all = []
        for (cmd, _, _), (rc, out, err) in zip(jobs, outs):
            if rc != 0 or 'DONE' not in out:
                chk.violation('C18/model-harness-crash', 'purge functions crashed when driven directly: %s: %s' % (' '.join(cmd[1:]), (err or out)[-300:].replace('\n', ' ')), {'cmd': ' '.join(['harness/c18'] + cmd[1:])})
                continue
            log_all.append(out)
        text = ''.join(log_all)
        rc2, out2, err2 = V.run([exe, 'c18'], input=text, timeout=600) if okd else (1, '', 'driver not built')
        summary = [l for l in out2.splitlines() if l.startswith('c18val cases')]
        diffs = [l for l in out2.splitlines() if l.startswith('DIFF')]
        if summary:
            n = int(summary[0].split()[2]); chk.count(n); chk.extra['model_vs_impl_operations'] = n
        if rc2 != 0 or diffs or not summary:
            chk.broken_tie('correspondence: PurgeM and the real mi_arena_schedule_purge / mi_arenas_try_purge / mi_segment_schedule_purge / mi_segment_try_purge disagree',
                           '\n'.join(diffs[:10]) or (out2[-400:] + err2[-400:]))
        keys = set(l for l in text.splitlines() if l[:2] in ('A ', 'G '))
        skipped = [l for l in text.splitlines() if l.startswith('SKIP')]
        if skipped:
            chk.notes.append('model runs skipped: %d (%s)' % (len(skipped), skipped[0]))
        for l in sorted(keys)[::max(1, len(keys) // 4)][:4]:
            chk.sample('direct drive: ' + l)
        # ---- oracle on the real allocator
        jobs = []
        odelays = (-1, 0, 3, 10)
        for sd in (range(chk.seed, chk.seed + (6 if thorough else 2))):
            for dl in odelays:
                for dc in (1, 0):
                    for w in (0, 1, 2, 3):       # 3: staggered frees of whole segments (a pending arena expiry must not be pushed back)
                        jobs.append(([h, 'oracle', str(sd), str(dl), str(dc), str(w)], None, 300))
        outs = V.pmap(jobs)
        rows = 0
        for (cmd, _, _), (rc, out, err) in zip(jobs, outs):
            args = {'cmd': 'harness/c18 ' + ' '.join(cmd[1:]), 'purge_delay': cmd[3], 'purge_decommits': cmd[4], 'workload': cmd[5], 'seed': cmd[2],
                    'how_to_run': 'gcc -DNDEBUG -DMI_BUILD_RELEASE -I/repo/include -Iharness -DVERIF_STATIC_C=\\"/repo/src/static.c\\" harness/c18.c -lpthread; ./a.out ' + ' '.join(cmd[1:])}
            rows += 1
            if rc != 0 or 'DONE' not in out:
                chk.violation('C18/oracle-crash', 'allocator crashed in the purge workload (%s): %s' % (' '.join(cmd[1:]), (err or out)[-300:].replace('\n', ' ')), args); continue
            for l in out.splitlines():
                p = l.split()
                if p and p[0] == 'FAIL':
                    chk.violation('C18/' + p[1], 'purge_delay=%s purge_decommits=%s workload=%s seed=%s: %s' % (cmd[3], cmd[4], cmd[5], cmd[2], ' '.join(p[2:])[:300]), args)
                elif p and p[0] == 'STAT':
                    chk.extra['oracle_' + p[1]] = chk.extra.get('oracle_' + p[1], 0) + int(p[2])
                    if p[1] in ('seg_pages_checked', 'arena_pages_checked'):
                        chk.count(int(p[2]))
            chk.distinct(('oracle',) + tuple(cmd[2:]))
        chk.extra['oracle_configurations'] = rows
        chk.cov['distinct_nontrivial'] = len(keys) + rows
        chk.log('correspondence %s; oracle rows %d' % (summary[0] if summary else 'none', rows))
