/- Translator validation: evaluates the generated definitions on the argument lines printed by
   harness/trval.c and compares with the results of the compiled C functions. -/
import MiVerif.Gen.Arith
import MiVerif.Gen.Tables
open Gen

namespace TrVal
def b2 (p : Nat × Nat) : String := s!"{p.1} {p.2}"

def eval (ps : Nat) (fn : String) (a : List Nat) : Option String :=
  match fn, a with
  | "wsize", [x] => some (toString (_mi_wsize_from_size x))
  | "bin", [x] => some (toString (mi_bin x))
  | "good", [x] => some (toString (mi_good_size _mi_bin_size ps x))
  | "goodalloc", [x] => some (toString (_mi_os_good_alloc_size ps x))
  | "ptrseg", [x] => some (toString (_mi_ptr_segment x))
  | "pow2", [x] => some (toString (_mi_is_power_of_two x))
  | "bcount", [x] => some (toString (mi_block_count_of_size x))
  | "absize", [x] => some (toString (mi_arena_block_size x))
  | "binsize", [x] => some (toString (_mi_bin_size x))
  | "slicebin", [x] => some (toString (mi_slice_bin x))
  | "mask", [c, i] => some (toString (mi_bitmap_mask_ c i))
  | "fastdiv", [d] => some (b2 (mi_get_fast_divisor d 1 1))
  | "fdiv", [n, m, s] => some (toString (mi_fast_divide n m s))
  | "cso", [x, y] => some (b2 (mi_count_size_overflow x y 1))
  | "alignup", [x, y] => some (toString (if y = 0 then 0 else _mi_align_up x y))
  | "aligndown", [x, y] => some (toString (if y = 0 then 0 else _mi_align_down x y))
  | "divup", [x, y] => some (toString (_mi_divide_up x y))
  | "clamp", [x, y, z] => some (toString (_mi_clamp x y z))
  | "natal", [x, y] => some (toString (mi_malloc_is_naturally_aligned _mi_bin_size ps x y))
  | "calc", [x] => some (b2 (mi_segment_calculate_slices ps x 1))
  | "pstart", [sc, seg, sl, bs] => some (b2 (_mi_segment_page_start_from_slice sc seg sl bs 1))
  | "unalign", [st, sh, bsz, pg, p] => some (toString (_mi_page_ptr_unalign st sh bsz pg p))
  | "enc", [k1, k0, n, p] => some (toString (mi_ptr_encode k1 k0 n p 1))
  | "dec", [k0, k1, n, x] => some (toString (mi_ptr_decode k0 k1 n x 1))
  | "canary", [k1, k0, n, p] => some (toString (mi_ptr_encode_canary k1 k0 n p 1))
  | "rotl", [x, s] => some (toString (mi_rotl x s))
  | "rotr", [x, s] => some (toString (mi_rotr x s))
  | "area", [c, x, s] => some (b2 (mi_os_page_align_areax ps c x s 1))
  | "bsr", [x] => some (toString (mi_bsr x))
  | "ctz", [x] => some (toString (mi_ctz x))
  | "clz", [x] => some (toString (mi_clz x))
  | "cmask", [kind, info, seg, d, sz, cons] =>
      let r := mi_segment_commit_mask (α_cm := Nat × Nat) (0, 0) kind info (fun _ => 512 * 65536)
                 (fun i c => (i, c)) (0, 0) seg cons (seg + d) sz 1 1 1
      let first := if r.2.2.2 = 0 then 0 else r.2.2.1
      some s!"{r.1} {r.2.1} {first} {r.2.2.2}"
  | _, _ => none

def main (stdin : IO.FS.Stream) : IO UInt32 := do
  let mut ps := 4096
  let mut n := 0
  let mut bad := 0
  let mut unparsed := 0
  let mut perFn : List (String × Nat) := []
  repeat
    let line ← stdin.getLine
    if line.isEmpty then break
    let l := line.trimAscii.toString
    if l.isEmpty then continue
    match l.splitOn " -> " with
    | [lhs, want] =>
      match lhs.splitOn " " with
      | fn :: args =>
        n := n + 1
        match eval ps fn (args.map String.toNat!) with
        | some r =>
          perFn := match perFn.find? (·.1 == fn) with
            | some _ => perFn.map (fun p => if p.1 == fn then (p.1, p.2 + 1) else p)
            | none => (fn, 1) :: perFn
          if r != want then
            bad := bad + 1
            if bad ≤ 20 then IO.println s!"DIFF {l}  lean={r}"
        | none => unparsed := unparsed + 1; if unparsed ≤ 5 then IO.println s!"UNPARSED {l}"
      | [] => pure ()
    | [one] =>
      match one.splitOn " " with
      | ["ospagesize", v] => ps := v.toNat!
      | _ => unparsed := unparsed + 1
    | _ => unparsed := unparsed + 1
  IO.println s!"trval cases {n} differences {bad} unparsed {unparsed}"
  IO.println ("trval perfn " ++ " ".intercalate (perFn.map (fun p => s!"{p.1}={p.2}")))
  return (if bad = 0 ∧ unparsed = 0 then 0 else 1)
end TrVal
