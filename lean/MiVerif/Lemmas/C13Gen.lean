import MiVerif.Lemmas.C07Gen
import MiVerif.Lemmas.C13Range
import MiVerif.Lemmas.ArenaGenProofs
/-! C13 over the *generated* `mi_segment_purge` (Gen/Commit.lean, extract/masktr.py): what a purge of the block range
    `[base + D, base + D + size)` can change lies inside that range, unit by unit. -/
namespace C13G
open GenC C07G

/-- unit `k` (64 KiB) lies completely inside the byte range `[D, D + size)` of the segment -/
def unitInside (D size k : Nat) : Prop := D ≤ k * 65536 ∧ (k + 1) * 65536 ≤ D + size

set_option maxRecDepth 16384 in
/-- the conservative range in closed form: from `D` rounded up to `D + size` rounded down -/
theorem purge_mask_exact (info slices seg D size a b c : Nat)
    (hseg : seg + 33554432 < 2^64) (hin : D + size ≤ slices * 65536) (hs : slices ≤ 512)
    (hinfo : info * 65536 ≤ D) (hsz : 0 < size) :
    Gen.mi_segment_commit_mask (0, 0) 0 info (fun _ => slices * 65536) (fun i n => (i, n)) (0, 0) seg 1 (seg + D) size a b c =
      if (D + size) / 65536 * 65536 > (D + 65535) / 65536 * 65536
      then (seg + (D + 65535) / 65536 * 65536, (D + size) / 65536 * 65536 - (D + 65535) / 65536 * 65536,
            ((D + 65535) / 65536 * 65536 / 65536, ((D + size) / 65536 * 65536 - (D + 65535) / 65536 * 65536) / 65536))
      else ((seg + (D + 65535) / 65536 * 65536) % 18446744073709551616, 0, (0, 0)) := by
  unfold Gen.mi_segment_commit_mask Gen.mi_segment_info_size
  have hDs : D ≤ 33554432 := by omega
  have hSs : D + size ≤ 33554432 := by omega
  have hD : D < 9223372036854775808 := Nat.lt_of_le_of_lt hDs (by decide)
  obtain ⟨b2, b3, b4, b5⟩ : slices * 65536 < 18446744073709551616 ∧ info * 65536 < 18446744073709551616 ∧
      seg + slices * 65536 < 18446744073709551616 ∧ D + size < 18446744073709551616 := by
    have h64 : (2:Nat)^64 = 18446744073709551616 := by decide
    rw [h64] at hseg
    refine ⟨by omega, by omega, by omega, by omega⟩
  have h64' : (2:Nat)^64 = 18446744073709551616 := by decide
  have e6 := C13L.align_up_64k D (by rw [h64']; omega)
  have e7 := C13L.align_down_64k (D + size) (by rw [h64']; omega)
  clear h64'
  have e8 : Int.toNat (1 % 4294967296) = 1 := by decide
  have h10 : (1:Nat) ≠ 0 := by decide
  have h1 : ¬ ((size = 0 ∨ size > 33554432) ∨ (0 : Nat) = 1) := by omega
  have h2 : ¬ (seg + D ≥ seg + slices * 65536) := by omega
  have h3 : ¬ (D ≥ info * 65536 ∧ (D + 65535) / 65536 * 65536 < info * 65536) := by omega
  have h4 : ¬ ((D + size) / 65536 * 65536 > slices * 65536) := by omega
  simp only [C13L.pstart_eq seg D hD, Nat.mod_eq_of_lt b3, Nat.mod_eq_of_lt b4, Nat.mod_eq_of_lt b5, e6, e7, e8,
    if_pos h10, if_neg h1, if_neg h2, if_neg h3, if_neg h4]
  clear e6 e7 b2 b3 b4 b5 hD h1 h2 h3 h4
  by_cases h5 : (D + size) / 65536 * 65536 > (D + 65535) / 65536 * 65536
  · have e9 : ((D + size) / 65536 * 65536 + 18446744073709551616 - (D + 65535) / 65536 * 65536) % 18446744073709551616
        = (D + size) / 65536 * 65536 - (D + 65535) / 65536 * 65536 := by
      have : (D + size) / 65536 * 65536 + 18446744073709551616 - (D + 65535) / 65536 * 65536
          = ((D + size) / 65536 * 65536 - (D + 65535) / 65536 * 65536) + 18446744073709551616 := by omega
      rw [this, Nat.add_mod_right]; exact Nat.mod_eq_of_lt (by omega)
    have e10 : (seg + (D + 65535) / 65536 * 65536) % 18446744073709551616 = seg + (D + 65535) / 65536 * 65536 :=
      Nat.mod_eq_of_lt (by have h64 : (2:Nat)^64 = 18446744073709551616 := by decide
                           rw [h64] at hseg; omega)
    have h6 : ¬ ((D + size) / 65536 * 65536 - (D + 65535) / 65536 * 65536 = 0) := by omega
    simp only [if_pos h5, e9, e10, if_neg h6]
  · simp only [if_neg h5, if_true]

/-- a unit in the rounded range lies inside the byte range -/
theorem range_unit_inside (D size k : Nat) (h : mRange ((D + 65535) / 65536 * 65536 / 65536)
      (((D + size) / 65536 * 65536 - (D + 65535) / 65536 * 65536) / 65536) k = true) : unitInside D size k := by
  unfold mRange at h
  simp only [decide_eq_true_eq] at h
  have e1 : (D + 65535) / 65536 * 65536 / 65536 = (D + 65535) / 65536 := Nat.mul_div_cancel _ (by decide)
  have e2 : ((D + size) / 65536 * 65536 - (D + 65535) / 65536 * 65536) / 65536 = (D + size) / 65536 - (D + 65535) / 65536 := by
    rw [← Nat.sub_mul]; exact Nat.mul_div_cancel _ (by decide)
  rw [e1, e2] at h
  unfold unitInside
  omega

/-- the mask and the OS range of a conservative request cover only units inside the byte range -/
theorem purge_request_inside (σ : SegSt) (D size : Nat) (g : Geo σ D size) (hin : D + size ≤ σ.slices * 65536)
    (hinfo : σ.info * 65536 ≤ D) (k : Nat) :
    let r := commitMask σ 1 ((σ.base + D : Nat) : Int) (size : Int)
    (r.2.2 k = true → unitInside D size k) ∧ (r.2.1 ≠ 0 → unitsOf σ r.1 r.2.1 k = true → unitInside D size k) := by
  intro r
  have hex := purge_mask_exact σ.info σ.slices σ.base D size 0 0 0 g.hseg hin g.hs hinfo g.hsz
  have hr : r = commitMask σ 1 ((σ.base + D : Nat) : Int) (size : Int) := rfl
  unfold commitMask at hr
  simp only [Int.toNat_natCast] at hr
  rw [hex] at hr
  by_cases h5 : (D + size) / 65536 * 65536 > (D + 65535) / 65536 * 65536
  · rw [if_pos h5] at hr
    simp only [] at hr
    rw [hr]
    refine ⟨fun h => range_unit_inside D size k h, fun _ h => ?_⟩
    apply range_unit_inside D size k
    unfold unitsOf at h
    simp only [Int.toNat_natCast] at h
    rw [Nat.add_sub_cancel_left] at h
    exact h
  · rw [if_neg h5] at hr
    simp only [] at hr
    rw [hr]
    refine ⟨fun h => ?_, fun h0 _ => absurd rfl h0⟩
    unfold mRange at h
    simp at h

/-- **generated `mi_segment_purge` stays inside the range it was given**: a commit unit that does not lie completely inside the freed
    byte range keeps its commit bit and its accessibility, whatever the OS layer answers (decommit or reset, honest or not) -/
theorem gen_purge_frame (σ : SegSt) (D size : Nat) (nr og : Bool) (g : Geo σ D size) (hin : D + size ≤ σ.slices * 65536)
    (hinfo : σ.info * 65536 ≤ D) (k : Nat) (hk : ¬ unitInside D size k) :
    (mi_segment_purge σ ((σ.base + D : Nat) : Int) (size : Int) nr og).1.os k = σ.os k ∧
    (mi_segment_purge σ ((σ.base + D : Nat) : Int) (size : Int) nr og).1.commit k = σ.commit k := by
  have hreq := purge_request_inside σ D size g hin hinfo k
  simp only [] at hreq
  unfold mi_segment_purge
  simp only []
  generalize commitMask σ 1 ((σ.base + D : Nat) : Int) (size : Int) = r at hreq ⊢
  have hm : r.2.2 k = false := by
    cases h : r.2.2 k
    · rfl
    · exact absurd (hreq.1 h) hk
  split
  · exact ⟨rfl, rfl⟩
  · split
    · exact ⟨rfl, rfl⟩
    · rename_i _ hne
      have hfull : r.2.1 ≠ 0 := by
        intro h0; apply hne; simp [h0]
      have hu : unitsOf σ r.1 r.2.1 k = false := by
        cases h : unitsOf σ r.1 r.2.1 k
        · rfl
        · exact absurd (hreq.2 hfull h) hk
      split
      · unfold osPurge
        simp only []
        cases og <;> cases nr <;> simp [mDiff, hm, hu]
      · exact ⟨rfl, rfl⟩

end C13G

namespace C13A
open GenR C07A

/-- **generated `mi_arena_purge` stays inside the block range it was given**: a block outside `[idx, idx + n)` keeps its accessibility,
    its committed bit and its in-use bit, whatever the OS layer answers at either call site -/
theorem gen_arena_purge_frame (σ : ArSt) (idx n : Int) (nr1 g1 nr2 g2 : Bool) (k : Nat) (hk : inRange idx n k = false) :
    (mi_arena_purge σ idx n nr1 g1 nr2 g2).os k = σ.os k ∧
    (mi_arena_purge σ idx n nr1 g1 nr2 g2).committed k = σ.committed k ∧
    (mi_arena_purge σ idx n nr1 g1 nr2 g2).inuse k = σ.inuse k := by
  have hb : blocksOf σ (blockStart σ idx) (n * 33554432) = (idx, n) := blocksOf_start σ idx n
  unfold mi_arena_purge osPurge
  simp only [hb]
  split
  · cases g1 <;> cases nr1 <;> simp [mClr_out _ _ _ _ hk]
  · cases g2 <;> cases nr2 <;> simp [mClr_out _ _ _ _ hk]

/-- the same for `mi_arena_schedule_purge` (which purges at once when the delay is 0 or while preloading) -/
theorem gen_arena_schedule_frame (σ : ArSt) (idx n delay : Int) (pre nr1 g1 nr2 g2 : Bool) (now : Int) (k : Nat)
    (hk : inRange idx n k = false) :
    (mi_arena_schedule_purge σ idx n delay pre nr1 g1 nr2 g2 now).os k = σ.os k ∧
    (mi_arena_schedule_purge σ idx n delay pre nr1 g1 nr2 g2 now).committed k = σ.committed k ∧
    (mi_arena_schedule_purge σ idx n delay pre nr1 g1 nr2 g2 now).inuse k = σ.inuse k := by
  unfold mi_arena_schedule_purge
  simp only []
  split
  · exact ⟨rfl, rfl, rfl⟩
  · split
    · exact gen_arena_purge_frame σ idx n nr1 g1 nr2 g2 k hk
    · split
      · split <;> exact ⟨rfl, rfl, rfl⟩
      · exact ⟨rfl, rfl, rfl⟩

end C13A
