/- C04 — zero-initialising allocation really returns zeros, also when growing.
   Property theorems only.  Subject: `GenE._mi_heap_realloc_zero` and `GenE.mi_heap_realloc_zero_aligned_at`, regenerated from
   src/alloc.c / src/alloc-aligned.c on every run, with the allocator underneath as universally quantified oracles and
   the memory operations (`_mi_memzero`, `_mi_memcpy`, `mi_free`) as an effect log.  The effect log is interpreted over a
   byte memory `Nat → Nat`; the theorems say what a *zeroing* re-allocation leaves in the new block. -/
import MiVerif.Gen.Entry

namespace C04
open GenE

abbrev Mem := Nat → Nat     -- address ↦ byte

/-- interpretation of one logged memory operation -/
def applyEff (m : Mem) (e : String × List Nat) : Mem :=
  match e with
  | ("_mi_memzero", [a, n]) => fun x => if a ≤ x ∧ x < a + n then 0 else m x
  | ("_mi_memcpy", [d, s, n]) => fun x => if d ≤ x ∧ x < d + n then m (s + (x - d)) else m x
  | ("_mi_memcpy_aligned", [d, s, n]) => fun x => if d ≤ x ∧ x < d + n then m (s + (x - d)) else m x
  | ("store8", [a, v]) => fun x => if x = a then v else m x
  | _ => m

theorem ae_zero (m : Mem) (a n : Nat) : applyEff m ("_mi_memzero", [a, n]) = fun x => if a ≤ x ∧ x < a + n then 0 else m x := rfl
theorem ae_cpy (m : Mem) (d s n : Nat) : applyEff m ("_mi_memcpy", [d, s, n]) = fun x => if d ≤ x ∧ x < d + n then m (s + (x - d)) else m x := rfl
theorem ae_cpya (m : Mem) (d s n : Nat) : applyEff m ("_mi_memcpy_aligned", [d, s, n]) = fun x => if d ≤ x ∧ x < d + n then m (s + (x - d)) else m x := rfl
theorem ae_free (m : Mem) (p : Nat) : applyEff m ("mi_free", [p]) = m := rfl

def applyEffs (m : Mem) (es : List (String × List Nat)) : Mem := es.foldl applyEff m

/-- the bytes `[lo, hi)` of the block at `p` are zero -/
def ZeroRange (m : Mem) (p lo hi : Nat) : Prop := ∀ i, lo ≤ i → i < hi → m (p + i) = 0

variable (usable : Nat → Nat → Nat) (fsp : Nat → Nat → Nat) (pmz : Nat → Nat → Nat → Nat → Nat) (gen : Nat → Nat → Nat → Nat → Nat)

/-- **one growth step of rezalloc/recalloc** (plain variant).  If before the call the old block `p` (usable size `U`) holds
    zeros from its requested size `req` up to `U` (the slack invariant), and the call grows it to `newsize ≥ req`, then in the
    result block `r` (usable size `U'`): the first `req` bytes are the old contents, and *everything* from `req` up to the
    usable size `U'` is zero — in particular every byte between the previous and the new requested size, and the new slack, so
    the invariant holds again for the next step, whether the block moved or stayed in place.
    (`hfresh`, `hdis`: a newly allocated block is not, and does not overlap, the old one; sizes are far below 2^63 so the 64-bit
    arithmetic does not wrap.) -/
theorem rezalloc_step (heap p req newsize : Nat) (m : Mem)
    (hp : p ≠ 0) (hreq : req ≤ newsize) (hrU : req ≤ usable p 0)
    (hslack : ZeroRange m p req (usable p 0))
    (hb1 : usable p 0 < 2^62) (hb2 : newsize < 2^62) (hb3 : p < 2^62)
    (r : Nat) (eff : List (String × List Nat))
    (hcall : _mi_heap_realloc_zero usable fsp pmz gen heap p newsize 1 = (r, eff))
    (hr : r ≠ 0) (hr2 : r < 2^62) (hU' : usable r 0 < 2^62) (hfit : newsize ≤ usable r 0)
    (hfresh : mi_heap_malloc fsp pmz gen heap newsize ≠ p)      -- the allocator never returns a block that is still live (C01)
    (hdis : r ≠ p → (r + usable r 0 ≤ p ∨ p + usable p 0 ≤ r)) :
    (∀ i, i < req → applyEffs m eff (r + i) = m (p + i)) ∧ ZeroRange (applyEffs m eff) r req (usable r 0) := by
  unfold _mi_heap_realloc_zero at hcall
  simp only at hcall
  split at hcall
  · -- in place
    simp only [Prod.mk.injEq] at hcall
    obtain ⟨rfl, rfl⟩ := hcall
    exact ⟨fun i _ => rfl, hslack⟩
  · rename_i hnot
    simp only [Prod.mk.injEq] at hcall
    obtain ⟨hrr, heff⟩ := hcall
    subst hrr
    generalize hnp : mi_heap_malloc fsp pmz gen heap newsize = np at *
    first | subst heff | (rw [if_pos hr, if_pos (by decide : (1:Nat) ≠ 0), if_pos hp] at heff; subst heff)
    -- cs = number of bytes copied
    generalize hcs : (if newsize > usable p 0 then usable p 0 else newsize) = cs
    have hcs1 : cs ≤ usable p 0 := by rw [← hcs]; split <;> omega
    have hcs2 : cs ≤ newsize := by rw [← hcs]; split <;> omega
    have hcs3 : req ≤ cs := by rw [← hcs]; split <;> omega
    have hd := hdis hfresh
    try rw [if_pos hr, if_pos (by decide : (1:Nat) ≠ 0)]
    simp only [applyEffs, List.nil_append, List.append_assoc, List.cons_append, List.foldl_cons, List.foldl_nil, ae_zero, ae_cpy, ae_free, mi_usable_size]
    by_cases h8 : cs ≥ 8
    · simp only [if_pos h8]
      have e1 : (cs + 18446744073709551616 - 8) % 18446744073709551616 = cs - 8 := by omega
      have e2 : (np + (cs - 8)) % 18446744073709551616 = np + (cs - 8) := by omega
      have e3 : (usable np 0 + 18446744073709551616 - (cs - 8)) % 18446744073709551616 = usable np 0 - (cs - 8) := by omega
      rw [e1, e2, e3]
      refine ⟨?_, ?_⟩
      · intro i hi
        have : np ≤ np + i ∧ np + i < np + cs := by omega
        rw [if_pos this]
        have e : p + (np + i - np) = p + i := by omega
        rw [e]
        have : ¬ (np + (cs - 8) ≤ p + i ∧ p + i < np + (cs - 8) + (usable np 0 - (cs - 8))) := by omega
        rw [if_neg this]
      · intro i h1 h2
        show (fun x => _) (np + i) = 0
        simp only []
        by_cases hin : i < cs
        · have : np ≤ np + i ∧ np + i < np + cs := by omega
          rw [if_pos this]
          have e : p + (np + i - np) = p + i := by omega
          rw [e]
          have : ¬ (np + (cs - 8) ≤ p + i ∧ p + i < np + (cs - 8) + (usable np 0 - (cs - 8))) := by omega
          rw [if_neg this]
          exact hslack i h1 (by omega)
        · have : ¬ (np ≤ np + i ∧ np + i < np + cs) := by omega
          rw [if_neg this]
          have : np + (cs - 8) ≤ np + i ∧ np + i < np + (cs - 8) + (usable np 0 - (cs - 8)) := by omega
          rw [if_pos this]
    · simp only [if_neg h8]
      have e2 : (np + 0) % 18446744073709551616 = np := by omega
      have e3 : (usable np 0 + 18446744073709551616 - 0) % 18446744073709551616 = usable np 0 := by omega
      rw [e2, e3]
      refine ⟨?_, ?_⟩
      · intro i hi
        have : np ≤ np + i ∧ np + i < np + cs := by omega
        rw [if_pos this]
        have e : p + (np + i - np) = p + i := by omega
        rw [e]
        have : ¬ (np ≤ p + i ∧ p + i < np + usable np 0) := by omega
        rw [if_neg this]
      · intro i h1 h2
        show (fun x => _) (np + i) = 0
        simp only []
        by_cases hin : i < cs
        · have : np ≤ np + i ∧ np + i < np + cs := by omega
          rw [if_pos this]
          have e : p + (np + i - np) = p + i := by omega
          rw [e]
          have : ¬ (np ≤ p + i ∧ p + i < np + usable np 0) := by omega
          rw [if_neg this]
          exact hslack i h1 (by omega)
        · have : ¬ (np ≤ np + i ∧ np + i < np + cs) := by omega
          rw [if_neg this]
          have : np ≤ np + i ∧ np + i < np + usable np 0 := by omega
          rw [if_pos this]

/-- aligned variant: when a zeroing aligned re-allocation moves the block, the log contains the zeroing of everything beyond the
    copied bytes up to the usable size of the new block (same rule as the plain variant) -/
theorem realloc_aligned_move_zeroes_tail
    (rd_free : Nat → Nat) (pmzd : Nat → Nat → Nat → Nat) (pm : Nat → Nat → Nat → Nat) (bs : Nat → Nat) (ps : Nat) (nog : Nat → Nat → Nat → Nat) (ptr_page : Nat → Nat)
    (heap p newsize alignment offset : Nat) (hal : 8 < alignment) (hp : p ≠ 0)
    (hmove : ¬ ((newsize ≤ usable p 0 ∧ newsize ≥ (usable p 0 + 18446744073709551616 - usable p 0 / 2) % 18446744073709551616) ∧ (p + offset) % 18446744073709551616 % alignment = 0))
    (hnew : (mi_heap_malloc_aligned_at fsp rd_free pmzd pm bs ps nog pmz gen ptr_page usable heap newsize alignment offset).1 ≠ 0) :
    let r := mi_heap_realloc_zero_aligned_at usable fsp pmz gen rd_free pmzd pm bs ps nog ptr_page heap p newsize alignment offset 1
    let cs := if newsize > usable p 0 then usable p 0 else newsize
    let start := if cs ≥ 8 then (cs + 18446744073709551616 - 8) % 18446744073709551616 else 0
    ("_mi_memzero", [(r.1 + start) % 18446744073709551616, (usable r.1 0 + 18446744073709551616 - start) % 18446744073709551616]) ∈ r.2 ∧
    ("_mi_memcpy_aligned", [r.1, p, cs]) ∈ r.2 := by
  have h1 : ¬ alignment ≤ 8 := by omega
  simp only [mi_heap_realloc_zero_aligned_at, h1, hp, hmove, if_false, mi_usable_size]
  rw [if_pos hnew]
  simp

-- non-vacuity / the defect witness repaired in /repo: zalloc(1) -> rezalloc(2) moves inside the 8-byte class; the log now
-- zeroes the whole new block beyond the copied bytes
example : (_mi_heap_realloc_zero (fun _ _ => 8) (fun _ _ => 0) (fun _ _ _ _ => 2000) (fun _ _ _ _ => 2000) 0 1000 2 1)
    = (2000, [("_mi_memzero", [2000, 8]), ("_mi_memcpy", [2000, 1000, 2]), ("mi_free", [1000])]) := by decide

end C04
