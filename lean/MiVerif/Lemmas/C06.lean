/- helper lemmas for Props/C06 and Props/C05 -/
import MiVerif.Gen.Entry
import MiVerif.Gen.Tables
