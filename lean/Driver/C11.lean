import MiVerif.Model.Os
/- correspondence driver for C11: the memory id recorded by the real OS allocation functions and the munmap requests of the real
   _mi_os_free are compared with OsM (allocation side, hand-written) and GenO._mi_os_free_ex (release side, generated) -/
namespace C11Val
open OsM

partial def loop (h : IO.FS.Stream) (cur : Option (Nat × Nat × Nat × Memid)) (n d : Nat) : IO (Nat × Nat) := do
  let line ← h.getLine
  if line.isEmpty then return (n, d)
  let line := line.trimAscii.toString
  let ws := (line.splitOn " ").filter (· ≠ "")
  match ws with
  | ["M", kind, ps, size, align, offset, "->", ptr, mk, mb, ms, mapb, maps] =>
    let ps := ps.toNat!; let size := size.toNat!; let align := align.toNat!; let offset := offset.toNat!; let ptr := ptr.toNat!
    let a : Alloc :=
      if kind == "0" then osAlloc ps ptr size
      else if kind == "1" then osAllocAligned ps ptr size
      else osAllocAlignedAtOffset ps (ptr - (GenO._mi_align_up offset (GenO._mi_align_up align ps) - offset)) size (GenO._mi_align_up align ps) offset
    let real : Memid := { kind := mk.toNat!, base := mb.toNat!, size := ms.toNat! }
    -- kind 2 also through the regenerated _mi_os_alloc_aligned_at_offset (Gen/Os.lean), the aligned allocation underneath being the recorded base
    let okg := kind != "2" || (GenO._mi_os_alloc_aligned_at_offset 0 (fun _ _ _ _ _ => mb.toNat!) ps size align offset 1 0 0).1 == ptr
    let ok := a.memid == real && a.ptr == ptr && a.mapped == (mapb.toNat!, maps.toNat!) && okg
    if !ok && d < 20 then IO.println s!"DIFF {line} || generated at_offset ok: {okg}; model: ptr {a.ptr} memid {a.memid.kind} {a.memid.base} {a.memid.size} mapped {a.mapped.1} {a.mapped.2}"
    loop h (some (ps, ptr, size, real)) (n + 1) (if ok then d else d + 1)
  | "U" :: rest =>
    match cur with
    | some (ps, ptr, size, m) =>
      let req := osFreeRequests ps ptr size m
      let rec pairs : List String → List (Nat × Nat)
        | a :: b :: r => (a.toNat!, b.toNat!) :: pairs r
        | _ => []
      let seen := pairs rest
      let ok := req == seen
      if !ok && d < 20 then IO.println s!"DIFF {line} || generated _mi_os_free_ex requests: {req}"
      loop h none (n + 1) (if ok then d else d + 1)
    | none => loop h none n d
  | "AA" :: ps :: size :: align :: commit :: "->" :: ptr :: base :: "M" :: rest =>
    -- translator validation of the regenerated mi_os_prim_alloc_aligned: the addresses the OS handed out are the allocation oracle
    let maps := (rest.takeWhile (· ≠ "U")).map String.toNat!
    let rec pairs2 : List String → List (Nat × Nat)
      | a :: b :: r => (a.toNat!, b.toNat!) :: pairs2 r
      | _ => []
    let unmaps := pairs2 ((rest.dropWhile (· ≠ "U")).drop 1)
    let a1 := maps.getD 0 0; let a2 := maps.getD 1 0
    let r := GenO.mi_os_prim_alloc_aligned ps.toNat! (fun _ al _ _ _ _ => if al == 1 then a2 else a1) 1 size.toNat! align.toNat! commit.toNat! 0 0 0 0
    let frees := r.2.2.map (fun c => match c with
      | ("mi_os_prim_free", [a, sz, _]) => (a, sz)
      | _ => (0, 0))
    let ok := toString r.1 == ptr && toString r.2.1 == base && frees == unmaps
    if !ok && d < 20 then IO.println s!"DIFF {line} || generated: ptr {r.1} base {r.2.1} frees {frees}"
    loop h cur (n + 1) (if ok then d else d + 1)
  | _ => loop h cur n d

def main (stdin : IO.FS.Stream) : IO UInt32 := do
  let (n, d) ← loop stdin none 0 0
  IO.println s!"c11val cases {n} diffs {d}"
  return (if d == 0 then 0 else 1)

end C11Val
