# Constant folding of closed C integer expressions from the clang JSON AST (C semantics, LP64).
class NotConst(Exception):
    pass

def bits_of(t):
    t = t.replace('const ', '').replace('volatile ', '').strip()
    if t in ('size_t', 'unsigned long', 'uintptr_t', 'unsigned long long', 'mi_encoded_t', 'uint64_t',
             'mi_threadid_t', 'mi_bitmap_field_t', 'mi_bitmap_index_t', 'mi_arena_id_t_u', 'mi_thread_free_t'):
        return ('u', 64)
    if t in ('unsigned int', 'uint32_t'):
        return ('u', 32)
    if t in ('int', 'int32_t', 'mi_arena_id_t'):
        return ('s', 32)
    if t in ('long', 'long long', 'intptr_t', 'ptrdiff_t', 'int64_t', 'mi_ssize_t', 'mi_msecs_t', 'ssize_t'):
        return ('s', 64)
    if t in ('_Bool', 'bool'):
        return ('u', 1)
    if t in ('uint8_t', 'unsigned char', 'char'):
        return ('u', 8)
    if t in ('uint16_t', 'unsigned short'):
        return ('u', 16)
    if t in ('short', 'int16_t'):
        return ('s', 16)
    if t.endswith('*'):
        return ('u', 64)
    raise NotConst('type ' + t)

SIZEOF = {'uintptr_t': 8, 'size_t': 8, 'intptr_t': 8, 'void *': 8, 'int': 4, 'mi_block_t': 8, 'unsigned long': 8,
          'long': 8, 'unsigned long long': 8, 'unsigned int': 4, 'uint32_t': 4, 'uint64_t': 8, 'uint8_t': 1,
          'char': 1, 'unsigned char': 1, 'mi_encoded_t': 8, 'ptrdiff_t': 8, 'uint16_t': 2, 'mi_bitmap_field_t': 8}

def normv(v, t):
    k, b = t
    if k == 'u':
        return v % (2 ** b)
    return ((v + 2 ** (b - 1)) % 2 ** b) - 2 ** (b - 1)

def ceval(n, sizes=None):
    k = n['kind']
    if k in ('ParenExpr', 'ConstantExpr'):
        return ceval(n['inner'][0], sizes)
    if k == 'IntegerLiteral':
        return int(n['value'])
    if k == 'CharacterLiteral':
        return int(n['value'])
    if k == 'UnaryExprOrTypeTraitExpr':
        if n.get('name') != 'sizeof':
            raise NotConst()
        t = (n.get('argType') or n['inner'][0]['type'])['qualType'].replace('const ', '')
        if t in SIZEOF:
            return SIZEOF[t]
        if sizes and t in sizes:
            return sizes[t]
        raise NotConst()
    if k in ('ImplicitCastExpr', 'CStyleCastExpr'):
        ck = n.get('castKind')
        if ck in ('NoOp',):
            return ceval(n['inner'][0], sizes)
        if ck == 'IntegralCast':
            return normv(ceval(n['inner'][0], sizes), bits_of(n['type'].get('desugaredQualType', n['type']['qualType'])))
        raise NotConst()
    if k == 'UnaryOperator':
        a = ceval(n['inner'][0], sizes)
        t = bits_of(n['type'].get('desugaredQualType', n['type']['qualType']))
        op = n['opcode']
        if op == '~':
            return normv(~a, t)
        if op == '-':
            return normv(-a, t)
        if op == '+':
            return normv(a, t)
        if op == '!':
            return 0 if a else 1
        raise NotConst()
    if k == 'BinaryOperator':
        op = n['opcode']
        if op in ('&&', '||', ',', '='):
            raise NotConst()
        a = ceval(n['inner'][0], sizes)
        b = ceval(n['inner'][1], sizes)
        t = bits_of(n['type'].get('desugaredQualType', n['type']['qualType']))
        if op == '+': return normv(a + b, t)
        if op == '-': return normv(a - b, t)
        if op == '*': return normv(a * b, t)
        if op == '/':
            if b == 0: raise NotConst()
            q = abs(a) // abs(b)
            return normv(q if (a < 0) == (b < 0) else -q, t)
        if op == '%':
            if b == 0: raise NotConst()
            return normv((abs(a) % abs(b)) * (1 if a >= 0 else -1), t)
        if op == '<<': return normv(a << b, t)
        if op == '>>': return normv(a >> b, t)
        if op == '&': return normv(a & b, t)
        if op == '|': return normv(a | b, t)
        if op == '^': return normv(a ^ b, t)
        if op == '<': return int(a < b)
        if op == '<=': return int(a <= b)
        if op == '>': return int(a > b)
        if op == '>=': return int(a >= b)
        if op == '==': return int(a == b)
        if op == '!=': return int(a != b)
        raise NotConst()
    raise NotConst()
