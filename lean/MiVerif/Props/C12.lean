/- C12 — heap walking reports exactly the live blocks.
   Property theorems only.  The page model is MiVerif/Model/Page.lean (compared with the real `_mi_heap_area_visit_blocks` by direct
   drive: the indices handed to the visitor and `area.used` after every walk); the index arithmetic of the walk (`mi_fast_divide`
   with the magic number of `mi_get_fast_divisor`) is regenerated from src/heap.c and proved exact in C16.fast_divide_correct,
   which is re-stated here because the walk relies on it. -/
import MiVerif.Lemmas.PageMore
import MiVerif.Props.C16

namespace C12
open PageM

/-- the walk force-collects the page first: afterwards the local and the thread free list are empty, the invariant still holds and
    the set of live blocks is unchanged -/
theorem collect_before_walk (p : Page) (h : Inv p) :
    let q := lfCollectForce (tfCollect p)
    Inv q ∧ q.lf = [] ∧ q.tf = [] ∧ q.live = p.live :=
  ⟨lfCollectForce_inv _ (tfCollect_inv p h), rfl, rfl, rfl⟩

/-- **exactness**: on a collected page (no pending cross-thread frees) the walk reports exactly the live blocks -/
theorem walk_reports_exactly_live (p : Page) (h : Inv p) (hlf : p.lf = []) (htf : p.tf = []) (i : Nat) :
    i ∈ visitList p ↔ i ∈ p.live := by
  unfold visitList
  simp only [List.mem_filter, List.mem_range, Bool.not_eq_true', List.contains_eq_mem, decide_eq_false_iff_not]
  have hnd := h.nodup
  rw [nodup_iff_count] at hnd
  constructor
  · rintro ⟨hi, hnf⟩
    -- i < capacity and the lists cover all indices below capacity: i is on one of them; not free, lf = tf = [] ⇒ live
    have hcov := h.cover
    have hb := h.bound
    -- pigeonhole: a duplicate-free list of `capacity` numbers below `capacity` contains every such number
    have hall : ∀ j, j < p.capacity → j ∈ p.free ++ p.lf ++ p.tf ++ p.live := by
      intro j hj
      by_cases hin : j ∈ p.free ++ p.lf ++ p.tf ++ p.live
      · exact hin
      · exfalso
        have hsub : (p.free ++ p.lf ++ p.tf ++ p.live) ⊆ (List.range p.capacity).erase j := by
          intro x hx
          have hne : x ≠ j := fun e => hin (e ▸ hx)
          exact (List.mem_erase_of_ne hne).mpr (List.mem_range.mpr (hb x hx))
        have hlen := List.Nodup.length_le_of_subset h.nodup hsub
        rw [List.length_erase_of_mem (List.mem_range.mpr hj), List.length_range, hcov] at hlen
        omega
    have := hall i hi
    simp only [hlf, htf, List.append_nil, List.mem_append] at this
    rcases this with hf | hl
    · exact absurd hf hnf
    · exact hl
  · intro hl
    refine ⟨h.bound i (by simp [hl]), ?_⟩
    intro hf
    have := hnd i
    have h1 : 1 ≤ p.live.count i := List.count_pos_iff.mpr hl
    have h2 : 1 ≤ p.free.count i := List.count_pos_iff.mpr hf
    simp only [List.count_append] at this
    omega

/-- every block is reported once, in increasing address order -/
theorem walk_no_duplicates (p : Page) : (visitList p).Nodup ∧ (visitList p).Pairwise (· < ·) := by
  unfold visitList
  refine ⟨List.Nodup.sublist List.filter_sublist List.nodup_range, ?_⟩
  exact List.Pairwise.filter _ (List.pairwise_lt_range)

/-- the per-area `used` count equals the number of reported blocks -/
theorem walk_used_count (p : Page) (h : Inv p) (hlf : p.lf = []) (htf : p.tf = []) : (visitList p).length = p.used := by
  have hu := h.used
  rw [htf] at hu
  simp only [List.length_nil, Nat.zero_add] at hu
  rw [hu]
  have h1 := walk_no_duplicates p
  have hperm : (visitList p).Perm p.live := by
    rw [List.perm_ext_iff_of_nodup h1.1]
    · intro a; exact walk_reports_exactly_live p h hlf htf a
    · have hnd := h.nodup
      simp only [hlf, htf, List.append_nil] at hnd
      exact (List.nodup_append.mp hnd).2.1
  exact hperm.length_eq

/-- the block index the walk computes with the multiply-shift division is the true quotient (offset / block size) on its whole domain -/
theorem walk_index_arithmetic (d n : Nat) (hd : 0 < d) (hd2 : d < 2^32) (hn : n < 2^32) :
    Gen.mi_fast_divide n (Gen.mi_get_fast_divisor d 1 1).1 (Gen.mi_get_fast_divisor d 1 1).2 = n / d :=
  C16.fast_divide_correct d n hd hd2 hn

-- non-vacuity
example : visitList ([Op.extend 6, Op.pop, Op.pop, Op.pop, Op.freeLocal 1, Op.lfCollectForce].foldl step (init 8)) = [0, 2] := by decide

end C12
