import MiVerif.Model.AbandonExec
/- trace validator for C09: the log of atomic operations on one abandoned segment (owner id, its bit in the arena's abandoned
   bitmap, the abandoned counter), as recorded from the hooked allocator, must be an execution of the proved hand-over model -/
namespace C09Val

def label (s : St) (t : Nat) (op : String) (arg : Nat) : Option Lbl :=
  if op == "store" then
    if arg == 0 then (if s.owner = t then some (.markStore t) else if .c2 t ∈ s.fl then some (.reMarkStore t) else none)
    else if arg == t then (if .c2 t ∈ s.fl then some (.clearOwn t) else some (.ownAgain t))
    else none
  else if op == "or" then
    if (arg == 1) != s.bit then none      -- the value the real fetch-or saw differs from the model's bit
    else if .m1 t ∈ s.fl then some (.markOr t) else if .c1 t ∈ s.fl then some (.remark t) else none
  else if op == "inc" then some .markInc
  else if op == "and" then (if arg == 1 then some (.clearAnd t) else some .clearMiss)
  else if op == "dec" then some (.clearDec t)
  else none

partial def loop (h : IO.FS.Stream) (cur : Option St) (hdr : String) (runs ev bad : Nat) : IO (Nat × Nat × Nat) := do
  let line ← h.getLine
  if line.isEmpty then return (runs, ev, bad)
  let line := line.trimAscii.toString
  let ws := (line.splitOn " ").filter (· ≠ "")
  match ws with
  | "RUN" :: _ => loop h none line runs ev bad
  | ["INIT", "owner", k] => loop h (some { owner := k.toNat!, bit := false, cnt := 0, fl := [] }) hdr (runs + 1) ev bad
  | ["E", t, op] | ["E", t, op, _] =>
    match cur with
    | none => loop h cur hdr runs ev bad
    | some s =>
      let arg := match ws with | [_, _, _, a] => a.toNat! | _ => 0
      match (label s t.toNat! op arg).bind (exec s) with
      | some s' => loop h (some s') hdr runs (ev + 1) bad
      | none =>
        IO.println s!"DIFF {hdr} || event '{line}' is not a step of the hand-over model from state owner={s.owner} bit={s.bit} count={s.cnt} in-flight={s.fl.length}"
        loop h none hdr runs ev (bad + 1)
  | "done" :: _ =>
    match cur with
    | some s =>
      if s.fl.length != 0 then
        IO.println s!"DIFF {hdr} || the run ended with a hand-over step still in flight"
        loop h none hdr runs ev (bad + 1)
      else loop h none hdr runs ev bad
    | none => loop h none hdr runs ev bad
  | _ => loop h cur hdr runs ev bad

def main (stdin : IO.FS.Stream) : IO UInt32 := do
  let (runs, ev, bad) ← loop stdin none "" 0 0 0
  IO.println s!"c09val runs {runs} events {ev} rejected {bad}"
  return (if bad == 0 then 0 else 1)
end C09Val
