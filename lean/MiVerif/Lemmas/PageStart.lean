import MiVerif.Lemmas.C16Basic
/-! alignment of the start of a page's block area (the regenerated `_mi_segment_page_start_from_slice`) -/
namespace PageStartL
open Gen C16L

theorem slice_index (seg idx : Nat) (hseg : seg + 33554432 < 2^64) (hidx : idx < 512) :
    Int.toNat (((sw64 (((seg + 288 + idx * 96 : Nat) : Int) - ((((seg + 288) % 18446744073709551616 : Nat)) : Int))).tdiv 96) % 18446744073709551616) = idx := by
  have h64 : (2:Nat)^64 = 18446744073709551616 := by decide
  rw [h64] at hseg
  have e1 : (seg + 288) % 18446744073709551616 = seg + 288 := Nat.mod_eq_of_lt (by omega)
  rw [e1]
  have e2 : ((seg + 288 + idx * 96 : Nat) : Int) - ((seg + 288 : Nat) : Int) = ((idx * 96 : Nat) : Int) := by omega
  rw [e2, sw64_small (idx * 96) (by omega)]
  have e3 : ((idx * 96 : Nat) : Int).tdiv 96 = (idx : Int) := by
    have : ((idx * 96 : Nat) : Int) = (idx : Int) * 96 := by omega
    rw [this, Int.mul_tdiv_cancel _ (by decide)]
  rw [e3]; omega

/-- the start-offset part of the generated function, as a function of the block size and the (64 KiB aligned) page start -/
def startOffset (pstart psize bs : Nat) : Nat :=
  let so := (if (bs > 0) ∧ (bs ≤ 65536) then
    (if ((bs + 18446744073709551616 - (pstart % bs)) % 18446744073709551616 < bs) ∧ (psize ≥ ((bs + (bs + 18446744073709551616 - (pstart % bs)) % 18446744073709551616) % 18446744073709551616)) then
      ((0 + (bs + 18446744073709551616 - (pstart % bs)) % 18446744073709551616) % 18446744073709551616) else 0) else 0)
  let so := (if bs ≥ 8 then (if bs ≤ 64 then ((so + ((3 * bs) % 18446744073709551616)) % 18446744073709551616) else (if bs ≤ 512 then ((so + bs) % 18446744073709551616) else so)) else so)
  _mi_align_up so 16

theorem page_start_eq (cnt seg idx bs psz : Nat) (hseg : seg + 33554432 < 2^64) (hidx : idx < 512) :
    (_mi_segment_page_start_from_slice cnt seg (seg + 288 + idx * 96) bs psz).1 =
      (seg + idx * 65536 + startOffset (seg + idx * 65536) ((cnt * 65536) % 18446744073709551616) bs) % 18446744073709551616 := by
  have h64 : (2:Nat)^64 = 18446744073709551616 := by decide
  have hseg' := hseg; rw [h64] at hseg'
  have e1 : (idx * 65536) % 18446744073709551616 = idx * 65536 := Nat.mod_eq_of_lt (by omega)
  have e2 : (seg + idx * 65536) % 18446744073709551616 = seg + idx * 65536 := Nat.mod_eq_of_lt (by omega)
  unfold _mi_segment_page_start_from_slice startOffset
  simp only [slice_index seg idx hseg hidx, e1, e2]

/-- for a power-of-two block size up to 64 KiB the offset of the first block is a multiple of the block size -/
theorem startOffset_pow2 (pstart psize bs : Nat) (hp : pstart % 65536 = 0)
    (hbs : bs ∈ [8, 16, 32, 64, 128, 256, 512, 1024, 2048, 4096, 8192, 16384, 32768, 65536]) :
    startOffset pstart psize bs % bs = 0 ∧ startOffset pstart psize bs ≤ 1024 := by
  have hm : ∀ b, b ∣ 65536 → pstart % b = 0 := by
    intro b hb
    have := Nat.mod_mod_of_dvd pstart hb
    rw [hp] at this; rw [← this]; exact Nat.zero_mod b
  -- the first adjustment vanishes: the page start is already a multiple of the block size
  have h0 : ∀ b, b ∣ 65536 → 0 < b → b ≤ 65536 →
      (if (b > 0) ∧ (b ≤ 65536) then
        (if ((b + 18446744073709551616 - (pstart % b)) % 18446744073709551616 < b) ∧ (psize ≥ ((b + (b + 18446744073709551616 - (pstart % b)) % 18446744073709551616) % 18446744073709551616)) then
          ((0 + (b + 18446744073709551616 - (pstart % b)) % 18446744073709551616) % 18446744073709551616) else 0) else 0) = 0 := by
    intro b hb hb0 hb1
    rw [hm b hb]
    have e : (b + 18446744073709551616 - 0) % 18446744073709551616 = b := by
      rw [Nat.sub_zero, Nat.add_mod_right]; exact Nat.mod_eq_of_lt (by omega)
    rw [e]
    have : ¬ (b < b ∧ psize ≥ (b + b) % 18446744073709551616) := fun h => Nat.lt_irrefl _ h.1
    simp only [this, if_false]
    split <;> rfl
  simp only [List.mem_cons, List.mem_nil_iff, or_false] at hbs
  unfold startOffset
  rcases hbs with rfl | rfl | rfl | rfl | rfl | rfl | rfl | rfl | rfl | rfl | rfl | rfl | rfl | rfl
  all_goals (first
    | (simp only [h0 8 (by decide) (by decide) (by decide)]; decide) | (simp only [h0 16 (by decide) (by decide) (by decide)]; decide)
    | (simp only [h0 32 (by decide) (by decide) (by decide)]; decide) | (simp only [h0 64 (by decide) (by decide) (by decide)]; decide)
    | (simp only [h0 128 (by decide) (by decide) (by decide)]; decide) | (simp only [h0 256 (by decide) (by decide) (by decide)]; decide)
    | (simp only [h0 512 (by decide) (by decide) (by decide)]; decide) | (simp only [h0 1024 (by decide) (by decide) (by decide)]; decide)
    | (simp only [h0 2048 (by decide) (by decide) (by decide)]; decide) | (simp only [h0 4096 (by decide) (by decide) (by decide)]; decide)
    | (simp only [h0 8192 (by decide) (by decide) (by decide)]; decide) | (simp only [h0 16384 (by decide) (by decide) (by decide)]; decide)
    | (simp only [h0 32768 (by decide) (by decide) (by decide)]; decide) | (simp only [h0 65536 (by decide) (by decide) (by decide)]; decide))

/-- **the block area of a page with a power-of-two block size (8 bytes … 64 KiB) starts at a multiple of the block size**, hence every
    block of such a page is naturally aligned (what `mi_malloc_is_naturally_aligned` promises to the aligned-allocation fast path) -/
theorem page_start_naturally_aligned (cnt seg idx bs psz : Nat) (hseg0 : seg % 33554432 = 0) (hseg : seg + 33554432 < 2^64) (hidx : idx < 512)
    (hbs : bs ∈ [8, 16, 32, 64, 128, 256, 512, 1024, 2048, 4096, 8192, 16384, 32768, 65536]) (i : Nat) :
    ((_mi_segment_page_start_from_slice cnt seg (seg + 288 + idx * 96) bs psz).1 + i * bs) % bs = 0 := by
  rw [page_start_eq cnt seg idx bs psz hseg hidx]
  have hp : (seg + idx * 65536) % 65536 = 0 := by omega
  obtain ⟨h1, h2⟩ := startOffset_pow2 (seg + idx * 65536) ((cnt * 65536) % 18446744073709551616) bs hp hbs
  have h64 : (2:Nat)^64 = 18446744073709551616 := by decide
  rw [h64] at hseg
  have e : (seg + idx * 65536 + startOffset (seg + idx * 65536) ((cnt * 65536) % 18446744073709551616) bs) % 18446744073709551616
      = seg + idx * 65536 + startOffset (seg + idx * 65536) ((cnt * 65536) % 18446744073709551616) bs := Nat.mod_eq_of_lt (by omega)
  rw [e]
  have hd : bs ∣ 65536 := by
    simp only [List.mem_cons, List.mem_nil_iff, or_false] at hbs
    rcases hbs with rfl | rfl | rfl | rfl | rfl | rfl | rfl | rfl | rfl | rfl | rfl | rfl | rfl | rfl <;> decide
  have hpm : (seg + idx * 65536) % bs = 0 := by
    have := Nat.mod_mod_of_dvd (seg + idx * 65536) hd
    rw [hp] at this; rw [← this]; exact Nat.zero_mod bs
  generalize startOffset (seg + idx * 65536) ((cnt * 65536) % 18446744073709551616) bs = so at h1 h2
  rw [Nat.add_mul_mod_self_right, Nat.add_mod, hpm, h1]
  simp

/-- for every block size the block area starts at a multiple of 16 (MI_MAX_ALIGN_SIZE) -/
theorem page_start_16_aligned (cnt seg idx bs psz : Nat) (hseg0 : seg % 33554432 = 0) (hseg : seg + 33554432 < 2^64) (hidx : idx < 512) :
    (_mi_segment_page_start_from_slice cnt seg (seg + 288 + idx * 96) bs psz).1 % 16 = 0 := by
  rw [page_start_eq cnt seg idx bs psz hseg hidx]
  have h64 : (2:Nat)^64 = 18446744073709551616 := by decide
  rw [h64] at hseg
  unfold startOffset
  simp only []
  -- bound the offset before the final rounding
  generalize hso1 : (if (bs > 0) ∧ (bs ≤ 65536) then
    (if ((bs + 18446744073709551616 - ((seg + idx * 65536) % bs)) % 18446744073709551616 < bs) ∧ ((cnt * 65536) % 18446744073709551616 ≥ ((bs + (bs + 18446744073709551616 - ((seg + idx * 65536) % bs)) % 18446744073709551616) % 18446744073709551616)) then
      ((0 + (bs + 18446744073709551616 - ((seg + idx * 65536) % bs)) % 18446744073709551616) % 18446744073709551616) else 0) else 0) = so1
  have b1 : so1 ≤ 65536 := by
    rw [← hso1]
    split
    · rename_i hb
      split
      · rename_i hc
        have : (bs + 18446744073709551616 - (seg + idx * 65536) % bs) % 18446744073709551616 < 65536 + 1 := by omega
        rw [Nat.zero_add, Nat.mod_mod]; omega
      · omega
    · omega
  generalize hso2 : (if bs ≥ 8 then (if bs ≤ 64 then ((so1 + ((3 * bs) % 18446744073709551616)) % 18446744073709551616) else (if bs ≤ 512 then ((so1 + bs) % 18446744073709551616) else so1)) else so1) = so2
  have b2 : so2 ≤ 65536 + 512 := by
    rw [← hso2]
    split
    · split
      · have : (3 * bs) % 18446744073709551616 = 3 * bs := Nat.mod_eq_of_lt (by omega)
        rw [this, Nat.mod_eq_of_lt (by omega)]; omega
      · split
        · rw [Nat.mod_eq_of_lt (by omega)]; omega
        · omega
    · omega
  rw [C16L.align_up_eq so2 16 (by decide) (by rw [h64]; omega)]
  have e : (seg + idx * 65536 + (so2 + 16 - 1) / 16 * 16) % 18446744073709551616 = seg + idx * 65536 + (so2 + 16 - 1) / 16 * 16 :=
    Nat.mod_eq_of_lt (by omega)
  rw [e]
  omega

theorem add_adjust_mod (p b : Nat) (hb : 0 < b) : (p + (b - p % b)) % b = 0 := by
  have h1 : p % b < b := Nat.mod_lt _ hb
  have h2 : p = b * (p / b) + p % b := (Nat.div_add_mod p b).symm
  have h3 : p + (b - p % b) = b * (p / b + 1) := by
    rw [Nat.mul_add, Nat.mul_one]; omega
  rw [h3]; exact Nat.mul_mod_right _ _

/-- **general form**: for every block size that is a multiple of 16 and at most 64 KiB — all size classes from 16 bytes up to the largest
    small-page class are — the block area starts at a multiple of the block size whenever the page has room for the adjustment; so every
    block is aligned to every power of two that divides its size class -/
theorem page_start_block_aligned (cnt seg idx bs psz : Nat) (hseg0 : seg % 33554432 = 0) (hseg : seg + 33554432 < 2^64) (hidx : idx < 512)
    (h16 : bs % 16 = 0) (hb0 : 0 < bs) (hb1 : bs ≤ 65536) (hroom : 2 * bs ≤ (cnt * 65536) % 18446744073709551616) :
    (_mi_segment_page_start_from_slice cnt seg (seg + 288 + idx * 96) bs psz).1 % bs = 0 := by
  rw [page_start_eq cnt seg idx bs psz hseg hidx]
  have h64 : (2:Nat)^64 = 18446744073709551616 := by decide
  rw [h64] at hseg
  have hp16 : (seg + idx * 65536) % 16 = 0 := by omega
  generalize hP : seg + idx * 65536 = P at hp16
  have hPb : P < 18446744073709551616 - 33554432 + 33554432 := by omega
  have hPb2 : P + 200000 < 18446744073709551616 := by omega
  unfold startOffset
  simp only []
  have hm : P % bs < bs := Nat.mod_lt _ hb0
  -- the adjustment
  have ea : (bs + 18446744073709551616 - P % bs) % 18446744073709551616 = bs - P % bs := by
    have : bs + 18446744073709551616 - P % bs = (bs - P % bs) + 18446744073709551616 := by omega
    rw [this, Nat.add_mod_right]; exact Nat.mod_eq_of_lt (by omega)
  have hc1 : (bs > 0) ∧ (bs ≤ 65536) := ⟨hb0, hb1⟩
  simp only [hc1, and_self, if_true, ea]
  have e2 : (bs + (bs - P % bs)) % 18446744073709551616 = bs + (bs - P % bs) := Nat.mod_eq_of_lt (by omega)
  have e3 : (0 + (bs - P % bs)) % 18446744073709551616 = bs - P % bs := by rw [Nat.zero_add]; exact Nat.mod_eq_of_lt (by omega)
  simp only [e2, e3]
  -- so1: the adjustment or 0, in both cases P + so1 is a multiple of bs and so1 a multiple of 16
  have key : ∀ so1, (P + so1) % bs = 0 → so1 ≤ 65536 → so1 % 16 = 0 →
      ((P + _mi_align_up (if bs ≥ 8 then (if bs ≤ 64 then ((so1 + ((3 * bs) % 18446744073709551616)) % 18446744073709551616) else (if bs ≤ 512 then ((so1 + bs) % 18446744073709551616) else so1)) else so1) 16) % 18446744073709551616) % bs = 0 := by
    intro so1 hs1 hs2 hs3
    have h8 : bs ≥ 8 := by omega
    simp only [h8, if_true]
    have hgen : ∀ so2, (P + so2) % bs = 0 → so2 ≤ 65536 + 3 * 65536 → so2 % 16 = 0 → ((P + _mi_align_up so2 16) % 18446744073709551616) % bs = 0 := by
      intro so2 g1 g2 g3
      rw [C16L.align_up_eq so2 16 (by decide) (by rw [h64]; omega)]
      have e1 : (so2 + 16 - 1) / 16 * 16 = so2 := by omega
      have e2 : (P + so2) % 18446744073709551616 = P + so2 := Nat.mod_eq_of_lt (by omega)
      rw [e1, e2]; exact g1
    split
    · have e : (3 * bs) % 18446744073709551616 = 3 * bs := Nat.mod_eq_of_lt (by omega)
      have e' : (so1 + 3 * bs) % 18446744073709551616 = so1 + 3 * bs := Nat.mod_eq_of_lt (by omega)
      rw [e, e']
      apply hgen
      · have : P + (so1 + 3 * bs) = (P + so1) + 3 * bs := by omega
        rw [this, Nat.add_mul_mod_self_right]; exact hs1
      · omega
      · omega
    · split
      · have e' : (so1 + bs) % 18446744073709551616 = so1 + bs := Nat.mod_eq_of_lt (by omega)
        rw [e']
        apply hgen
        · have : P + (so1 + bs) = (P + so1) + 1 * bs := by omega
          rw [this, Nat.add_mul_mod_self_right]; exact hs1
        · omega
        · omega
      · exact hgen so1 hs1 (by omega) hs3
  by_cases hadj : (bs - P % bs < bs) ∧ ((cnt * 65536) % 18446744073709551616 ≥ bs + (bs - P % bs))
  · -- adjusted
    simp only [hadj, and_self, if_true]
    apply key
    · exact add_adjust_mod P bs hb0
    · omega
    · -- 16 | bs and 16 | P, hence 16 | P % bs and the adjustment
      have hq : P % bs % 16 = 0 := by
        have hd : (16 : Nat) ∣ bs := Nat.dvd_of_mod_eq_zero h16
        have := Nat.mod_mod_of_dvd P hd
        omega
      omega
  · -- not adjusted: then P is already a multiple of bs (the room condition holds by assumption)
    simp only [hadj, if_false]
    have hz : P % bs = 0 := by
      by_cases h0 : P % bs = 0
      · exact h0
      · exfalso; apply hadj; exact ⟨by omega, by omega⟩
    apply key
    · simpa using hz
    · omega
    · rfl

/-- the page-size part of the generated function: what is left of the page's slices after the start offset -/
theorem page_size_eq (cnt seg idx bs psz : Nat) (hseg : seg + 33554432 < 2^64) (hidx : idx < 512) (hp : psz ≠ 0) :
    (_mi_segment_page_start_from_slice cnt seg (seg + 288 + idx * 96) bs psz).2 =
      ((cnt * 65536) % 18446744073709551616 + 18446744073709551616
        - startOffset (seg + idx * 65536) ((cnt * 65536) % 18446744073709551616) bs) % 18446744073709551616 := by
  have h64 : (2:Nat)^64 = 18446744073709551616 := by decide
  have hseg' := hseg; rw [h64] at hseg'
  have e1 : (idx * 65536) % 18446744073709551616 = idx * 65536 := Nat.mod_eq_of_lt (by omega)
  have e2 : (seg + idx * 65536) % 18446744073709551616 = seg + idx * 65536 := Nat.mod_eq_of_lt (by omega)
  unfold _mi_segment_page_start_from_slice startOffset
  simp only [slice_index seg idx hseg hidx, e1, e2, if_pos hp]

/-- the start offset never exceeds the page's slices -/
theorem startOffset_le (pstart psize bs : Nat) (hps : 65536 ≤ psize) (hps2 : psize ≤ 33554432) (h16 : psize % 16 = 0) :
    startOffset pstart psize bs ≤ psize := by
  unfold startOffset
  simp only []
  -- the offset before rounding
  generalize hso1 : (if (bs > 0) ∧ (bs ≤ 65536) then
    (if ((bs + 18446744073709551616 - (pstart % bs)) % 18446744073709551616 < bs) ∧ (psize ≥ ((bs + (bs + 18446744073709551616 - (pstart % bs)) % 18446744073709551616) % 18446744073709551616)) then
      ((0 + (bs + 18446744073709551616 - (pstart % bs)) % 18446744073709551616) % 18446744073709551616) else 0) else 0) = so1
  have hb1 : so1 = 0 ∨ (0 < bs ∧ bs ≤ 65536 ∧ so1 < bs ∧ bs + so1 ≤ psize) := by
    rw [← hso1]
    by_cases hbs : (bs > 0) ∧ (bs ≤ 65536)
    · rw [if_pos hbs]
      generalize (bs + 18446744073709551616 - (pstart % bs)) % 18446744073709551616 = adj
      by_cases hc : adj < bs ∧ psize ≥ (bs + adj) % 18446744073709551616
      · rw [if_pos hc]
        right
        have e : (bs + adj) % 18446744073709551616 = bs + adj := Nat.mod_eq_of_lt (by omega)
        have e0 : (0 + adj) % 18446744073709551616 = adj := by rw [Nat.zero_add]; exact Nat.mod_eq_of_lt (by omega)
        rw [e] at hc; rw [e0]
        exact ⟨hbs.1, hbs.2, hc.1, hc.2⟩
      · rw [if_neg hc]; left; rfl
    · rw [if_neg hbs]; left; rfl
  generalize hso2 : (if bs ≥ 8 then (if bs ≤ 64 then ((so1 + ((3 * bs) % 18446744073709551616)) % 18446744073709551616) else (if bs ≤ 512 then ((so1 + bs) % 18446744073709551616) else so1)) else so1) = so2
  have hb2 : so2 ≤ psize - 15 ∨ so2 ≤ psize ∧ so2 % 16 = 0 ∨ so2 + 15 ≤ psize := by
    rw [← hso2]
    rcases hb1 with h0 | ⟨h1, h2, h3, h4⟩
    · subst h0
      by_cases h8 : bs ≥ 8
      · rw [if_pos h8]
        by_cases h64 : bs ≤ 64
        · rw [if_pos h64]; left
          rw [Nat.mod_eq_of_lt (by omega : 3 * bs < 18446744073709551616), Nat.zero_add, Nat.mod_eq_of_lt (by omega)]; omega
        · rw [if_neg h64]
          by_cases h512 : bs ≤ 512
          · rw [if_pos h512]; left; rw [Nat.zero_add, Nat.mod_eq_of_lt (by omega)]; omega
          · rw [if_neg h512]; left; omega
      · rw [if_neg h8]; left; omega
    · by_cases h8 : bs ≥ 8
      · rw [if_pos h8]
        by_cases h64 : bs ≤ 64
        · rw [if_pos h64]; left
          rw [Nat.mod_eq_of_lt (by omega : 3 * bs < 18446744073709551616), Nat.mod_eq_of_lt (by omega)]; omega
        · rw [if_neg h64]
          by_cases h512 : bs ≤ 512
          · rw [if_pos h512]; left; rw [Nat.mod_eq_of_lt (by omega)]; omega
          · rw [if_neg h512]; right; right; omega
      · rw [if_neg h8]; left; omega
  have hlt : so2 + 16 < 2^64 := by
    have : (2:Nat)^64 = 18446744073709551616 := by decide
    rw [this]
    rcases hb2 with h | h | h <;> omega
  rw [align_up_eq so2 16 (by decide) hlt]
  rcases hb2 with h | h | h <;> omega

/-- **the block area ends exactly where the page's slices end**: start + page size = segment + (idx + cnt) · 64 KiB -/
theorem page_area_end (cnt seg idx bs psz : Nat) (hseg : seg + 33554432 < 2^64) (hidx : idx < 512) (hp : psz ≠ 0)
    (hcnt : 1 ≤ cnt) (hfit : idx + cnt ≤ 512) :
    (_mi_segment_page_start_from_slice cnt seg (seg + 288 + idx * 96) bs psz).1 +
      (_mi_segment_page_start_from_slice cnt seg (seg + 288 + idx * 96) bs psz).2 = seg + (idx + cnt) * 65536 ∧
    seg + idx * 65536 ≤ (_mi_segment_page_start_from_slice cnt seg (seg + 288 + idx * 96) bs psz).1 := by
  rw [page_start_eq cnt seg idx bs psz hseg hidx, page_size_eq cnt seg idx bs psz hseg hidx hp]
  have h64 : (2:Nat)^64 = 18446744073709551616 := by decide
  rw [h64] at hseg
  have hps : (cnt * 65536) % 18446744073709551616 = cnt * 65536 := Nat.mod_eq_of_lt (by omega)
  rw [hps]
  have hle := startOffset_le (seg + idx * 65536) (cnt * 65536) bs (by omega) (by omega) (by omega)
  generalize startOffset (seg + idx * 65536) (cnt * 65536) bs = so at hle ⊢
  have e1 : (seg + idx * 65536 + so) % 18446744073709551616 = seg + idx * 65536 + so := Nat.mod_eq_of_lt (by omega)
  have e2 : (cnt * 65536 + 18446744073709551616 - so) % 18446744073709551616 = cnt * 65536 - so := by
    have : cnt * 65536 + 18446744073709551616 - so = (cnt * 65536 - so) + 18446744073709551616 := by omega
    rw [this, Nat.add_mod_right]; exact Nat.mod_eq_of_lt (by omega)
  rw [e1, e2, Nat.add_mul]
  omega

end PageStartL
