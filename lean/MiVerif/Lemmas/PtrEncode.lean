/- rotate / encode / decode law at the translator's output shape (Nat with explicit % 2^64) -/
namespace PtrEnc
def rotl (x s : Nat) : Nat :=
  let s := s % 64
  if s = 0 then x else ((x * 2^s) % 2^64) ||| (x / 2^(64 - s))
def rotr (x s : Nat) : Nat :=
  let s := s % 64
  if s = 0 then x else (x / 2^s) ||| ((x * 2^(64 - s)) % 2^64)

theorem testBit_mul_pow_mod (x s i : Nat) :
    ((x * 2^s) % 2^64).testBit i = (decide (i < 64) && (decide (s ≤ i) && x.testBit (i - s))) := by
  rw [Nat.testBit_mod_two_pow, ← Nat.shiftLeft_eq, Nat.testBit_shiftLeft]

theorem testBit_div_pow (x s i : Nat) : (x / 2^s).testBit i = x.testBit (s + i) := by
  rw [← Nat.shiftRight_eq_div_pow, Nat.testBit_shiftRight]

theorem tb_hi {x j : Nat} (hx : x < 2^64) (hj : 64 ≤ j) : x.testBit j = false :=
  Nat.testBit_lt_two_pow (Nat.lt_of_lt_of_le hx (Nat.pow_le_pow_right (by decide) hj))

theorem rotr_rotl (x s : Nat) (hx : x < 2^64) : rotr (rotl x s) s = x := by
  unfold rotr rotl
  simp only []
  by_cases h : s % 64 = 0
  · simp [h]
  · simp only [h, if_false]
    have hs : s % 64 < 64 := Nat.mod_lt _ (by decide)
    generalize s % 64 = k at *
    apply Nat.eq_of_testBit_eq
    intro i
    simp only [Nat.testBit_or, testBit_mul_pow_mod, testBit_div_pow]
    by_cases hi : i < 64
    · by_cases h1 : k + i < 64
      · have h3 : ¬ (64 - k ≤ i) := by omega
        have e : k + i - k = i := by omega
        have h5 : x.testBit (64 - k + (k + i)) = false := tb_hi hx (by omega)
        simp [hi, h1, h3, e, h5]
      · have h3 : 64 - k ≤ i := by omega
        have e : 64 - k + (i - (64 - k)) = i := by omega
        have h5 : x.testBit (64 - k + (k + i)) = false := tb_hi hx (by omega)
        have h6 : ¬ (k ≤ i - (64 - k)) := by omega
        simp [hi, h1, h3, e, h5, h6]
    · have h0 : x.testBit i = false := tb_hi hx (by omega)
      have h4 : ¬ (k + i < 64) := by omega
      have h5 : x.testBit (64 - k + (k + i)) = false := tb_hi hx (by omega)
      simp [hi, h0, h4, h5]

theorem rotl_lt (x s : Nat) (hx : x < 2^64) : rotl x s < 2^64 := by
  unfold rotl
  simp only []
  split
  · exact hx
  · apply Nat.or_lt_two_pow
    · exact Nat.mod_lt _ (by decide)
    · exact Nat.lt_of_le_of_lt (Nat.div_le_self _ _) hx

-- encode / decode exactly in translator output shape
def enc (null p k0 k1 : Nat) : Nat :=
  let x := if p = 0 then null else p
  (rotl (x ^^^ k1) k0 + k0) % 2^64
def dec (null e k0 k1 : Nat) : Nat :=
  let p := rotr ((e + 2^64 - k0) % 2^64) k0 ^^^ k1
  if p = null then 0 else p

theorem xor_lt {a b : Nat} (ha : a < 2^64) (hb : b < 2^64) : a ^^^ b < 2^64 := Nat.xor_lt_two_pow ha hb

theorem dec_enc (null p k0 k1 : Nat) (hn : null < 2^64) (hp : p < 2^64) (h0 : k0 < 2^64) (h1 : k1 < 2^64) :
    dec null (enc null p k0 k1) k0 k1 = if p = 0 ∨ p = null then 0 else p := by
  unfold dec enc
  simp only []
  have hx : (if p = 0 then null else p) < 2^64 := by split <;> assumption
  have key : ∀ x, x < 2^64 → rotr (((rotl (x ^^^ k1) k0 + k0) % 2^64 + 2^64 - k0) % 2^64) k0 ^^^ k1 = x := by
    intro x hx
    have hr := rotl_lt (x ^^^ k1) k0 (xor_lt hx h1)
    have : ((rotl (x ^^^ k1) k0 + k0) % 2^64 + 2^64 - k0) % 2^64 = rotl (x ^^^ k1) k0 := by omega
    rw [this, rotr_rotl _ _ (xor_lt hx h1), Nat.xor_assoc, Nat.xor_self, Nat.xor_zero]
  rw [key _ hx]
  by_cases hp0 : p = 0
  · simp [hp0]
  · simp [hp0]
end PtrEnc
