// C14: arena bitmap claims.
//   mode "seq <seed> <steps>"  : the real _mi_bitmap_try_find_from_claim_across / _mi_bitmap_try_find_from_claim / _mi_bitmap_try_claim /
//        _mi_bitmap_unclaim_across / _mi_bitmap_claim_across on a private 3-field bitmap (left-over bits pre-set as mi_manage_os_memory does);
//        all fields are printed before and after every call -> the Lean driver checks every step against the claim/unclaim specification (BitSeq)
//   mode "conc <seed> <threads> <ops> <spurious%> <stay%>" (hooked build, deterministic scheduler): threads allocate and free 1-5 block
//        regions in a 70-block arena through _mi_arena_alloc_aligned / _mi_arena_free (purge_delay 0: purges claim concurrently);
//        oracle: live regions are pairwise disjoint and inside the arena, nothing stays claimed, the whole arena can be claimed again
#ifdef MI_VERIF_HOOKS
#include "vsched.h"
#endif
#include VERIF_STATIC_C
#include <stdio.h>
#include <sys/mman.h>
static int nfail = 0;
#define FAIL(key, ...) do { if (nfail++ < 20) { printf("FAIL %s ", key); printf(__VA_ARGS__); printf("\n"); fflush(stdout); } } while (0)
#ifdef MI_VERIF_HOOKS
// trace of every atomic operation on the arena's blocks_inuse fields (validated against Model.BitmapC by `midriver c14c`)
static volatile void* INUSE = NULL; static size_t INUSE_FIELDS = 0; static int TRACE = 0;
void verif_log(int kind, const volatile void* addr, unsigned long long a, unsigned long long b, int ok) {
  if (!TRACE || INUSE == NULL || vs_tid < 0) return;
  if ((uintptr_t)addr < (uintptr_t)INUSE || (uintptr_t)addr >= (uintptr_t)INUSE + INUSE_FIELDS * sizeof(size_t)) return;
  size_t f = ((uintptr_t)addr - (uintptr_t)INUSE) / sizeof(size_t);
  if (kind == 1 || kind == 2) printf("T %d C %zu %llx %llx %d\n", vs_tid, f, a, b, ok);
  else if (kind == 4) printf("T %d S %zu %llx\n", vs_tid, f, a);
  else if (kind == 7) printf("T %d A %zu %llx %llx\n", vs_tid, f, a, b);
  else if (kind == 8) printf("T %d O %zu %llx %llx\n", vs_tid, f, a, b);
}
#define RND() vs_rnd()
#else
static uint64_t rs = 88172645463325252ULL;
static uint64_t rnd_(void) { rs ^= rs << 13; rs ^= rs >> 7; rs ^= rs << 17; return rs; }
#define RND() rnd_()
#endif

#ifndef MI_VERIF_HOOKS
enum { NF = 3, NBITS = 150 };   // 150 valid bits in 3 fields: the top 42 bits of the last field are left-over (claimed for ever)
static _Atomic(size_t) bm[NF];
static void dump(const char* tag) { printf("%s", tag); for (int i = 0; i < NF; i++) printf(" %016zx", (size_t)bm[i]); }
static void seq_mode(long steps) {
  for (int i = 0; i < NF; i++) bm[i] = 0;
  { size_t post = NF * 64 - NBITS; mi_bitmap_index_t pi = mi_bitmap_index_create(NF - 1, 64 - post); _mi_bitmap_claim(bm, NF, post, pi, NULL); }
  struct { size_t idx, cnt; } own[200]; int nown = 0;
  for (long st = 0; st < steps; st++) {
    unsigned op = (unsigned)(RND() % 100);
    dump("B"); 
    if (op < 45 && nown < 200) {
      size_t cnt; unsigned k = (unsigned)(RND() % 10); cnt = k < 4 ? 1 + RND() % 2 : k < 8 ? 3 + RND() % 6 : 9 + RND() % 70;
      size_t startf = (size_t)(RND() % NF); mi_bitmap_index_t idx = 0;
      bool ok = (RND() % 4 == 0 && cnt <= 64) ? _mi_bitmap_try_find_from_claim(bm, NF, startf, cnt, &idx) : _mi_bitmap_try_find_from_claim_across(bm, NF, startf, cnt, &idx);
      printf(" | claim %zu %zu -> %d %zu |", startf, cnt, (int)ok, ok ? mi_bitmap_index_bit(idx) : 0);
      if (ok) { own[nown].idx = mi_bitmap_index_bit(idx); own[nown].cnt = cnt; nown++; }
    } else if (op < 55) {   // try to claim a specific run (used by the purge)
      size_t bit = (size_t)(RND() % NBITS), cnt = 1 + (size_t)(RND() % 5); if ((bit % 64) + cnt > 64) cnt = 64 - bit % 64;
      bool ok = _mi_bitmap_try_claim(bm, NF, cnt, mi_bitmap_index_create_from_bit(bit));
      printf(" | tryclaim %zu %zu -> %d %zu |", bit, cnt, (int)ok, bit);
      if (ok && nown < 200) { own[nown].idx = bit; own[nown].cnt = cnt; nown++; }
    } else if (nown > 0) {
      int k = (int)(RND() % nown); size_t idx = own[k].idx, cnt = own[k].cnt; own[k] = own[--nown];
      bool all = _mi_bitmap_unclaim_across(bm, NF, cnt, mi_bitmap_index_create_from_bit(idx));
      printf(" | unclaim %zu %zu -> %d %zu |", idx, cnt, (int)all, idx);
    } else { printf(" | nop 0 0 -> 1 0 |"); }
    dump(" A"); printf("\n");
  }
}
#else
// ---------------------------------------------------------------- concurrent
enum { ABLOCKS = 70, NREG = 64 };
static mi_arena_id_t AID; static uint8_t* ASTART; static size_t ASIZE;
typedef struct { uint8_t* p; size_t blocks; mi_memid_t memid; int state; } reg_t;   // state 0 empty, 1 live, 3 busy
static reg_t regs[NREG];
static long n_alloc = 0, n_fail = 0, n_free = 0, n_cross = 0;
static int OPS = 60;
static void body(int tid) {
  for (int r = 0; r < OPS; r++) {
    unsigned op = (unsigned)(vs_rnd() % 100);
    if (op < 55) {
      int i; for (i = 0; i < NREG; i++) if (regs[i].state == 0) break; if (i == NREG) continue;
      regs[i].state = 3;
      size_t blocks = 1 + (size_t)(vs_rnd() % 5); size_t size = blocks * MI_ARENA_BLOCK_SIZE;
      if (TRACE) printf("T %d B claim %zu\n", tid, blocks);
      mi_memid_t memid; uint8_t* p = (uint8_t*)_mi_arena_alloc_aligned(size, MI_SEGMENT_ALIGN, 0, false, false, AID, &memid);
      if (TRACE) { if (p) printf("T %d X claim %zu %zu\n", tid, blocks, (size_t)(p - ASTART) / MI_ARENA_BLOCK_SIZE); else printf("T %d X claim %zu -1\n", tid, blocks); }
      if (p == NULL) { n_fail++; regs[i].state = 0; continue; }
      n_alloc++;
      if (p < ASTART || p + size > ASTART + ASIZE) FAIL("claim_outside_arena", "t%d got [%p,+%zu) outside the arena [%p,+%zu)", tid, (void*)p, size, (void*)ASTART, ASIZE);
      if (((size_t)(p - ASTART) / MI_ARENA_BLOCK_SIZE) / 64 != ((size_t)(p - ASTART) / MI_ARENA_BLOCK_SIZE + blocks - 1) / 64) n_cross++;
      for (int j = 0; j < NREG; j++) if (j != i && regs[j].state == 1 && p < regs[j].p + regs[j].blocks * MI_ARENA_BLOCK_SIZE && regs[j].p < p + size)
        FAIL("claims_overlap", "t%d got blocks [%zu,+%zu) overlapping the live region [%zu,+%zu)", tid, (size_t)(p - ASTART) / MI_ARENA_BLOCK_SIZE, blocks, (size_t)(regs[j].p - ASTART) / MI_ARENA_BLOCK_SIZE, regs[j].blocks);
      regs[i].p = p; regs[i].blocks = blocks; regs[i].memid = memid; regs[i].state = 1;
    } else if (op < 95) {
      int start = (int)(vs_rnd() % NREG);
      for (int k = 0; k < NREG; k++) { int i = (start + k) % NREG; if (regs[i].state == 1) { regs[i].state = 3; n_free++;
          if (TRACE) printf("T %d B free %zu %zu\n", tid, (size_t)(regs[i].p - ASTART) / MI_ARENA_BLOCK_SIZE, regs[i].blocks);
          _mi_arena_free(regs[i].p, regs[i].blocks * MI_ARENA_BLOCK_SIZE, 0, regs[i].memid);
          if (TRACE) printf("T %d X free\n", tid);
          regs[i].state = 0; break; } }
    } else vs_yield();
  }
}
// the same protocol on a private 3-field bitmap with claims of up to 130 bits: exercises intermediate fields (CAS 0 -> all ones) and
// their roll-back by a plain store of 0 when a later field cannot be claimed
static _Atomic(size_t) PBM[3];
static struct { size_t idx, count; int state; } pregs[NREG];
static void body_bm(int tid) {
  for (int r = 0; r < OPS; r++) {
    unsigned op = (unsigned)(vs_rnd() % 100);
    if (op < 55) {
      int i; for (i = 0; i < NREG; i++) if (pregs[i].state == 0) break; if (i == NREG) continue;
      pregs[i].state = 3;
      size_t count = (vs_rnd() % 3 == 0) ? 60 + (size_t)(vs_rnd() % 70) : 1 + (size_t)(vs_rnd() % 40);
      mi_bitmap_index_t bi = 0;
      if (TRACE) printf("T %d B claim %zu\n", tid, count);
      bool ok = _mi_bitmap_try_find_from_claim_across((mi_bitmap_t)PBM, 3, (size_t)(vs_rnd() % 3), count, &bi);
      if (TRACE) { if (ok) printf("T %d X claim %zu %zu\n", tid, count, (size_t)bi); else printf("T %d X claim %zu -1\n", tid, count); }
      if (!ok) { n_fail++; pregs[i].state = 0; continue; }
      n_alloc++; if (bi / 64 != (bi + count - 1) / 64) n_cross++;
      for (int j = 0; j < NREG; j++) if (j != i && pregs[j].state == 1 && bi < pregs[j].idx + pregs[j].count && pregs[j].idx < bi + count)
        FAIL("claims_overlap", "t%d got bits [%zu,+%zu) overlapping the live claim [%zu,+%zu)", tid, (size_t)bi, count, pregs[j].idx, pregs[j].count);
      pregs[i].idx = bi; pregs[i].count = count; pregs[i].state = 1;
    } else if (op < 95) {
      int start = (int)(vs_rnd() % NREG);
      for (int k = 0; k < NREG; k++) { int i = (start + k) % NREG; if (pregs[i].state == 1) { pregs[i].state = 3; n_free++;
          if (TRACE) printf("T %d B free %zu %zu\n", tid, pregs[i].idx, pregs[i].count);
          _mi_bitmap_unclaim_across((mi_bitmap_t)PBM, 3, pregs[i].count, pregs[i].idx);
          if (TRACE) printf("T %d X free\n", tid);
          pregs[i].state = 0; break; } }
    } else vs_yield();
  }
}
#endif

int main(int argc, char** argv) {
  if (argc < 3) { fprintf(stderr, "usage: c14 seq <seed> <steps> | c14 conc <seed> <threads> <ops> <spurious%%> <stay%%>\n"); return 2; }
  uint64_t seed = strtoull(argv[2], 0, 10);
#ifndef MI_VERIF_HOOKS
  rs ^= seed * 0x9E3779B97F4A7C15ULL; if (!rs) rs = 1; for (int i = 0; i < 8; i++) rnd_();
  seq_mode(argc > 3 ? atol(argv[3]) : 2000);
  printf("DONE\n"); fflush(stdout); return 0;
#else
  int nth = argc > 3 ? atoi(argv[3]) : 3; if (nth < 2) nth = 2; if (nth > VS_MAXT) nth = VS_MAXT;
  if (argc > 4) OPS = atoi(argv[4]); if (argc > 5) vs_spurious_pct = atoi(argv[5]); if (argc > 6) vs_stay_pct = atoi(argv[6]);
  mi_option_set(mi_option_show_errors, 0); mi_option_set(mi_option_verbose, 0);
  mi_option_set(mi_option_purge_delay, (seed % 3 == 0) ? -1 : 0);
  void* warm = mi_malloc(8); mi_free(warm);
  if (argc > 8 && atoi(argv[8])) {    // private bitmap variant
    INUSE = PBM; INUSE_FIELDS = 3;
    if (argc > 7 && atoi(argv[7])) { setvbuf(stdout, NULL, _IOLBF, 0); for (size_t f = 0; f < 3; f++) printf("INIT %zu 0\n", f); TRACE = 1; }
    vs_init(seed, nth);
    vs_fn bodies[VS_MAXT]; for (int i = 0; i < nth; i++) bodies[i] = body_bm;
    vs_run(bodies);
    TRACE = 0;
    for (int i = 0; i < NREG; i++) if (pregs[i].state == 1) _mi_bitmap_unclaim_across((mi_bitmap_t)PBM, 3, pregs[i].count, pregs[i].idx);
    for (int f = 0; f < 3; f++) if (mi_atomic_load_relaxed(&PBM[f]) != 0) { FAIL("blocks_left_reserved", "field %d of the private bitmap is %zx after every claim was released", f, mi_atomic_load_relaxed(&PBM[f])); break; }
    printf("STAT points %ld\nSTAT claims %ld\nSTAT failed_claims %ld\nSTAT frees %ld\nSTAT cross_word_claims %ld\n", vs_points, n_alloc, n_fail, n_free, n_cross);
    printf("DONE fails %d\n", nfail); fflush(stdout);
    return 0;
  }
  ASIZE = (size_t)ABLOCKS * MI_ARENA_BLOCK_SIZE;
  uint8_t* raw = (uint8_t*)mmap(NULL, ASIZE + MI_SEGMENT_ALIGN, PROT_NONE, MAP_PRIVATE | MAP_ANONYMOUS | MAP_NORESERVE, -1, 0);
  if (raw == MAP_FAILED) { printf("SKIP mmap\nDONE fails 0\n"); return 0; }
  ASTART = (uint8_t*)_mi_align_up((uintptr_t)raw, MI_SEGMENT_ALIGN);
  if (!mi_manage_os_memory_ex(ASTART, ASIZE, false, false, true, -1, true, &AID)) { printf("SKIP manage\nDONE fails 0\n"); return 0; }
  { mi_arena_t* ar = mi_arena_from_index(mi_arena_id_index(AID)); INUSE = ar->blocks_inuse; INUSE_FIELDS = ar->field_count;
    if (argc > 7 && atoi(argv[7])) { setvbuf(stdout, NULL, _IOLBF, 0); for (size_t f = 0; f < INUSE_FIELDS; f++) printf("INIT %zu %zx\n", f, mi_atomic_load_relaxed(&ar->blocks_inuse[f])); TRACE = 1; } }
  vs_init(seed, nth);
  vs_fn bodies[VS_MAXT]; for (int i = 0; i < nth; i++) bodies[i] = body;
  vs_run(bodies);
  TRACE = 0;
  for (int i = 0; i < NREG; i++) if (regs[i].state == 1) { _mi_arena_free(regs[i].p, regs[i].blocks * MI_ARENA_BLOCK_SIZE, 0, regs[i].memid); regs[i].state = 0; }
  // nothing may stay reserved, and the arena can be allocated completely again
  mi_arena_t* arena = mi_arena_from_index(mi_arena_id_index(AID));
  size_t left = 0; for (size_t b = 0; b < arena->block_count; b++) if ((mi_atomic_load_relaxed(&arena->blocks_inuse[b / 64]) >> (b % 64)) & 1) left++;
  if (left != 0) FAIL("blocks_left_reserved", "%zu of %zu arena blocks are still claimed after every region was freed", left, arena->block_count);
  mi_memid_t mm; void* all = _mi_arena_alloc_aligned(ASIZE, MI_SEGMENT_ALIGN, 0, false, false, AID, &mm);
  if (all == NULL && left == 0) FAIL("arena_not_allocatable_again", "a claim of all %d blocks failed although no block is in use", ABLOCKS);
  printf("STAT points %ld\nSTAT claims %ld\nSTAT failed_claims %ld\nSTAT frees %ld\nSTAT cross_word_claims %ld\n", vs_points, n_alloc, n_fail, n_free, n_cross);
  printf("DONE fails %d\n", nfail); fflush(stdout);
  return 0;
#endif
}
