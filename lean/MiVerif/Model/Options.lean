-- executable model of option value parsing (mi_option_init + mi_option_is_word, src/options.c)
-- tied to the real static function by the differential harness harness/c20.c (every check run)
namespace OptM

def toUpper (c : Char) : Char := if 'a' ≤ c ∧ c ≤ 'z' then Char.ofNat (c.toNat - 32) else c

/-- split a `;`-separated word list (the loop of `mi_option_is_word`) -/
def splitWords : List Char → List (List Char)
  | [] => []
  | cs => go cs []
where
  go : List Char → List Char → List (List Char)
    | [], acc => [acc.reverse]
    | c :: r, acc => if c = ';' then acc.reverse :: (match r with | [] => [] | _ => go r []) else go r (c :: acc)

/-- `mi_option_is_word(words, s)`: `s` is non-empty and equals one of the `;`-separated words -/
def isWord (words s : List Char) : Bool := !s.isEmpty && (splitWords words).contains s

def isSpace (c : Char) : Bool := c = ' ' ∨ c = '\t' ∨ c = '\n' ∨ c = '\x0b' ∨ c = '\x0c' ∨ c = '\r'

def LONG_MAX : Int := 9223372036854775807
def LONG_MIN : Int := -9223372036854775808
def MAX_ALLOC : Nat := 65536 * 4294967294

def digitsVal (ds : List Char) : Nat := ds.foldl (fun a c => a * 10 + (c.toNat - 48)) 0
def clampLong (v : Int) : Int := if v > LONG_MAX then LONG_MAX else if v < LONG_MIN then LONG_MIN else v

/-- optional sign: (negative?, rest) -/
def stripSign : List Char → Bool × List Char
  | '-' :: r => (true, r)
  | '+' :: r => (false, r)
  | r => (false, r)

/-- strtol(s, &end, 10): returns (value, rest, consumed-a-digit); no digits ⇒ (0, s, false) -/
def strtol (s : List Char) : Int × List Char × Bool :=
  let t1 := (stripSign (s.dropWhile isSpace)).2
  let ds := t1.takeWhile Char.isDigit
  if ds.isEmpty then (0, s, false) else
    let v : Int := if (stripSign (s.dropWhile isSpace)).1 then -(digitsVal ds : Int) else (digitsVal ds : Int)
    (clampLong v, t1.dropWhile Char.isDigit, true)

inductive Init where | defaulted | initialized deriving Repr, DecidableEq

/-- the unit letter of a size value: (multiplier in KiB if present, rest) -/
def stripUnit : List Char → Option Nat × List Char
  | 'K' :: r => (some 1, r)
  | 'M' :: r => (some 1024, r)
  | 'G' :: r => (some (1024 * 1024), r)
  | 'T' :: r => (some (1024 * 1024 * 1024), r)
  | r => (none, r)

/-- the optional `iB` / `B` after the unit letter -/
def stripBytes : List Char → List Char
  | 'I' :: 'B' :: r => r
  | 'B' :: r => r
  | r => r

/-- saturation of a size in KiB: `overflow || size > MI_MAX_ALLOC_SIZE` ⇒ `MI_MAX_ALLOC_SIZE / KiB`, then clamp to `long` -/
def satKiB (overflow : Bool) (size : Nat) : Int :=
  let size := if overflow || size > MAX_ALLOC then MAX_ALLOC / 1024 else size
  if (size : Int) > LONG_MAX then LONG_MAX else (size : Int)

/-- the `size in KiB` post-processing of the parsed number: (value, rest) ↦ (value in KiB, rest) -/
def sizeKiB (value : Int) (rest : List Char) : Int × List Char :=
  let size : Nat := if value < 0 then 0 else value.toNat
  let v := match (stripUnit rest).1 with
    | some k => satKiB (decide (size * k ≥ 2^64)) (size * k % 2^64)     -- mi_mul_overflow(size, k, &size)
    | none => satKiB false ((size + 1023) / 1024)
  (v, stripBytes (stripUnit rest).2)

/-- the upper-cased, truncated buffer `mi_option_init` parses (`_mi_getenv` copies at most 64 bytes) -/
def buffer (raw : String) : List Char := (raw.toList.take 64).map toUpper

/-- parsing of the buffer: (init state, value); `dflt` is the value before parsing -/
def parseBuf (sizeInKiB : Bool) (dflt : Int) (buf : List Char) : Init × Int :=
  if buf.isEmpty || isWord "1;TRUE;YES;ON".toList buf then (.initialized, 1)
  else if isWord "0;FALSE;NO;OFF".toList buf then (.initialized, 0)
  else
    let (value, rest, hasDigits) := strtol buf
    let (value, rest) := if sizeInKiB then sizeKiB value rest else (value, rest)
    if rest.isEmpty && hasDigits then (.initialized, value) else (.defaulted, dflt)

def parse (sizeInKiB : Bool) (dflt : Int) (raw : String) : Init × Int :=
  parseBuf sizeInKiB dflt (buffer raw)

end OptM
