/- Validation of the generated entry-point layer (Gen/Entry.lean) against decisions of the real entry points
   recorded by harness/entry.c.  The allocator core is replaced by stand-in oracles: an allocation of at most
   MI_MAX_ALLOC_SIZE bytes succeeds with a well-aligned address, anything larger fails. -/
import MiVerif.Gen.Entry
import MiVerif.Gen.Tables
open GenE

namespace EntryVal
def P : Nat := 2^40
structure Env where
  maxAlloc : Nat
  ps : Nat
  usable : Nat

def b01 (x : Nat) : String := if x = 0 then "1" else "0"     -- "is NULL?"

def evalE (e : Env) (fn : String) (a b c : Nat) : Option String :=
  let dh := 1
  let gsp : Nat → Nat → Nat := fun _ _ => 4096
  let pmz : Nat → Nat → Nat → Nat → Nat := fun _ _ _ _ => P
  let gen : Nat → Nat → Nat → Nat → Nat := fun _ size _ _ => if size > e.maxAlloc then 0 else P
  let rdf : Nat → Nat := fun _ => P
  let pm3 : Nat → Nat → Nat → Nat := fun _ _ _ => P
  let ng : Nat → Nat → Nat → Nat := fun _ size _ => if size > e.maxAlloc then 0 else P
  let pp : Nat → Nat := fun _ => 4096
  let us : Nat → Nat → Nat := fun p _ => if p = 0 then 0 else e.usable
  let bs := Gen._mi_bin_size
  match fn with
  | "calloc" => some (b01 (mi_calloc dh gsp pmz gen a b))
  | "mallocn" => some (b01 (mi_mallocn dh gsp pmz gen a b))
  | "calloc_aligned" => some (b01 (mi_calloc_aligned dh gsp rdf pm3 pm3 bs e.ps ng pmz gen pp us a b c).1)
  | "calloc_aligned_at" => some (b01 (mi_calloc_aligned_at dh gsp rdf pm3 pm3 bs e.ps ng pmz gen pp us a b c 8).1)
  | "reallocn" => some (b01 (mi_reallocn dh us gsp pmz gen 12345 a b).1)
  | "recalloc" => some (b01 (mi_recalloc dh us gsp pmz gen 12345 a b).1)
  | "recalloc_aligned" => some (b01 (mi_recalloc_aligned dh us gsp pmz gen rdf pm3 pm3 bs e.ps ng pp 12345 a b c).1)
  | "reallocarray" => some (b01 (mi_reallocarray dh us gsp pmz gen 12345 a b).1)
  | "malloc" => some (b01 (mi_malloc dh gsp pmz gen a))
  | "zalloc" => some (b01 (mi_zalloc dh gsp pmz gen a))
  | "malloc_small" => some (b01 (mi_malloc_small dh gsp pmz a))
  | "zalloc_small" => some (b01 (mi_zalloc_small dh gsp pmz a))
  | "malloc_aligned" => some (b01 (mi_malloc_aligned dh gsp rdf pm3 pm3 bs e.ps ng pmz gen pp us a b).1)
  | "zalloc_aligned" => some (b01 (mi_zalloc_aligned dh gsp rdf pm3 pm3 bs e.ps ng pmz gen pp us a b).1)
  | "zalloc_aligned_at" => some (b01 (mi_zalloc_aligned_at dh gsp rdf pm3 pm3 bs e.ps ng pmz gen pp us a b c).1)
  | "malloc_aligned_at" => some (b01 (mi_malloc_aligned_at dh gsp rdf pm3 pm3 bs e.ps ng pmz gen pp us a b c).1)
  | "memalign" => some (b01 (mi_memalign dh gsp rdf pm3 pm3 bs e.ps ng pmz gen pp us b a).1)
  | "aligned_alloc" => some (b01 (mi_aligned_alloc dh gsp rdf pm3 pm3 bs e.ps ng pmz gen pp us b a).1)
  | "realloc" => some (b01 (mi_realloc dh us gsp pmz gen 0 a).1)
  | "reallocn0" => some (b01 (mi_reallocn dh us gsp pmz gen 0 a b).1)
  | "rezalloc" => some (b01 (mi_rezalloc dh us gsp pmz gen 0 a).1)
  | "realloc_aligned" => some (b01 (mi_realloc_aligned dh us gsp pmz gen rdf pm3 pm3 bs e.ps ng pp 0 a b).1)
  | "posix_memalign" => some (toString (mi_posix_memalign dh gsp rdf pm3 pm3 bs e.ps ng pmz gen pp us 1 b a 4660).1)
  | "valloc" => some (b01 (mi_valloc e.ps dh gsp rdf pm3 pm3 bs ng pmz gen pp us a).1)
  | "pvalloc" => some (b01 (mi_pvalloc e.ps dh gsp rdf pm3 pm3 bs ng pmz gen pp us a).1)
  | _ => none

def evalR (e : Env) (fn : String) (args : List Nat) : Option String :=
  let dh := 1
  let gsp : Nat → Nat → Nat := fun _ _ => 4096
  let pmz : Nat → Nat → Nat → Nat → Nat := fun _ _ _ _ => P
  let gen : Nat → Nat → Nat → Nat → Nat := fun _ _ _ _ => P
  let rdf : Nat → Nat := fun _ => P
  let pm3 : Nat → Nat → Nat → Nat := fun _ _ _ => P
  let ng : Nat → Nat → Nat → Nat := fun _ _ _ => P
  let pp : Nat → Nat := fun _ => 4096
  let bs := Gen._mi_bin_size
  match fn, args with
  | "realloc", [u, n] =>
      let us : Nat → Nat → Nat := fun _ _ => u
      some (if (mi_realloc dh us gsp pmz gen 5000 n).1 = 5000 then "0" else "1")
  | "realloc_aligned", [u, n, al, pmod] =>
      let us : Nat → Nat → Nat := fun _ _ => u
      let p := 2^41 + pmod
      some (if (mi_realloc_aligned dh us gsp pmz gen rdf pm3 pm3 bs e.ps ng pp p n al).1 = p then "0" else "1")
  | "expand", [u, n] =>
      let us : Nat → Nat → Nat := fun _ _ => u
      some (b01 (mi_expand us 5000 n))
  | _, _ => none

def main (stdin : IO.FS.Stream) : IO UInt32 := do
  let mut env : Env := { maxAlloc := 0, ps := 4096, usable := 100 }
  let mut n := 0
  let mut bad := 0
  let mut unparsed := 0
  repeat
    let line ← stdin.getLine
    if line.isEmpty then break
    let l := line.trimAscii.toString
    let ws := l.splitOn " "
    match ws with
    | ["consts", m, ps] => env := { env with maxAlloc := m.toNat!, ps := ps.toNat! }
    | ["E", fn, a, b, c, "->", want] =>
      n := n + 1
      -- mi_reallocn / mi_realloc with a NULL old block are printed under the same name by the well-formed tests
      match evalE env fn a.toNat! b.toNat! c.toNat! with
      | some r => if r != want then
                    -- `reallocn NULL` in the well-formed section: retry with a NULL old pointer
                    let r2 := if fn == "reallocn" then evalE env "reallocn0" a.toNat! b.toNat! c.toNat! else none
                    if r2 != some want then
                      bad := bad + 1
                      if bad ≤ 20 then IO.println s!"DIFF {l}  lean={r}"
      | none => unparsed := unparsed + 1; if unparsed ≤ 5 then IO.println s!"UNPARSED {l}"
    | "R" :: fn :: rest =>
      match rest.reverse with
      | want :: "->" :: argsRev =>
        n := n + 1
        match evalR env fn (argsRev.reverse.map String.toNat!) with
        | some r => if r != want then
                      bad := bad + 1
                      if bad ≤ 20 then IO.println s!"DIFF {l}  lean={r}"
        | none => unparsed := unparsed + 1; if unparsed ≤ 5 then IO.println s!"UNPARSED {l}"
      | _ => unparsed := unparsed + 1
    | _ => pure ()
  IO.println s!"entryval cases {n} differences {bad} unparsed {unparsed}"
  return (if bad = 0 ∧ unparsed = 0 then 0 else 1)
end EntryVal
