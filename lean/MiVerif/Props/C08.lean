/- C08 — remotely freed memory is never lost.
   Same model as C02 (MiVerif/Model/Delayed.lean).  The comment at types.h l.313-319 ("`MI_NO_DELAYED_FREE` may only be
   set while a block of that page is, or is about to be, on the owner's delayed list") is the `noDelay` conjunct. -/
import MiVerif.Lemmas.DelayedReach
import MiVerif.Lemmas.C02

namespace C08
open Delayed

/-- the documented flag invariant, in every reachable state: NO_DELAYED_FREE implies a block of the page is on the heap's
    delayed list, on the list the owner took over, or is the block the owner is processing and has not re-armed the flag for -/
theorem no_delayed_inv {s0 s : St} (h0 : Inv s0) (hr : Reach s0 s) (hf : s.flag = .no) :
    s.dl ++ s.pend ++ (s.own.filter (fun p => !p.2)).map (·.1) ≠ [] :=
  (inv_reach h0 hr).noDelay hf

/-- a remote free that has pushed its block on the heap's delayed list keeps it pending until it has reset the flag -/
theorem pushed_block_pending {s0 s : St} (h0 : Inv s0) (hr : Reach s0 s) :
    ∀ x ∈ s.fl, x.isFreeing = true → x.holds = false → x.b ∈ s.dl ++ s.pend ++ s.own.map (·.1) :=
  (inv_reach h0 hr).pushed

/-- never lost: every block of the page is, in every reachable state, still somewhere the allocator will find it -/
theorem never_lost {s0 s : St} (h0 : Inv s0) (hr : Reach s0 s) : ∀ b, b ∈ allBlocks s ↔ b ∈ allBlocks s0 :=
  have _ := h0; reach_mem hr

/-- quiescent collect: with no remote free in flight the owner alone can drain everything — there is an execution of owner
    steps (take over the delayed list, process each block, collect the page's thread-free list) after which every block
    that is not live is on the owner's free or local-free list, i.e. reusable by the owning thread -/
theorem quiescent_collect_recovers {s0 s : St} (h0 : Inv s0) (hr : Reach s0 s) (hq : s.fl = []) :
    ∃ s', Reach s s' ∧ s'.tf = [] ∧ s'.dl = [] ∧ s'.pend = [] ∧ s'.own = [] ∧ s'.fl = [] ∧ s'.live = s.live ∧
      (∀ b, b ∈ allBlocks s → b ∈ s'.free ++ s'.lf ++ s'.live) :=
  quiescent_drain (inv_reach h0 hr) hq

/-- hence: once all blocks have been freed (by whichever threads) and the owner collects, the page holds no live block
    and every block of it is free — the page can be released -/
theorem all_freed_then_page_empty {s0 s : St} (h0 : Inv s0) (hr : Reach s0 s) (hq : s.fl = []) (hl : s.live = []) :
    ∃ s', Reach s s' ∧ s'.live = [] ∧ (∀ b, b ∈ allBlocks s0 → b ∈ s'.free ++ s'.lf) := by
  obtain ⟨s', hr', _, _, _, _, _, hl', hall⟩ := quiescent_drain (inv_reach h0 hr) hq
  refine ⟨s', hr', hl'.trans hl, fun b hb => ?_⟩
  have := hall b ((reach_mem hr b).mpr hb)
  rwa [hl'.trans hl, List.append_nil] at this

/-- a remote free never blocks for ever on its own: run alone from any reachable state, an in-flight free completes -/
theorem remote_free_completes {s0 s : St} (h0 : Inv s0) (hr : Reach s0 s) {pre post : List Flight} {x : Flight}
    (hx : s.fl = pre ++ x :: post) : ∃ s', Reach s s' ∧ s'.fl = pre ++ post :=
  have _ := h0; have _ := hr; flight_completes hx

end C08
