import MiVerif.Gen.Arith
import MiVerif.Lemmas.C16Basic
/-! `mi_os_page_align_areax` as regenerated from src/os.c: the page-aligned area the OS is asked to decommit / reset (conservative) lies
    inside the requested range, the one it is asked to commit (liberal) covers it. -/
namespace OsAreaL
open Gen

theorem area_eq (ps cons addr size : Nat) (hps : 0 < ps) (hps2 : ps ≤ 1073741824) (ha : addr ≠ 0) (hs : size ≠ 0)
    (hfit : addr + size + ps < 9223372036854775808) :
    mi_os_page_align_areax ps cons addr size 1 =
      (if cons ≠ 0 then
         (if (addr + size) / ps * ps > (addr + ps - 1) / ps * ps then ((addr + ps - 1) / ps * ps, (addr + size) / ps * ps - (addr + ps - 1) / ps * ps) else (0, 0))
       else
         (if (addr + size + ps - 1) / ps * ps > addr / ps * ps then (addr / ps * ps, (addr + size + ps - 1) / ps * ps - addr / ps * ps) else (0, 0))) := by
  have h64 : (2:Nat)^64 = 18446744073709551616 := by decide
  have eas : (addr + size) % 18446744073709551616 = addr + size := Nat.mod_eq_of_lt (by omega)
  have u1 := C16L.align_up_eq addr ps hps (by rw [h64]; omega)
  have u2 := C16L.align_up_eq (addr + size) ps hps (by rw [h64]; omega)
  have d1 := C16L.align_down_eq addr ps hps (by rw [h64]; omega) (by rw [h64]; omega)
  have d2 := C16L.align_down_eq (addr + size) ps hps (by rw [h64]; omega) (by rw [h64]; omega)
  -- bounds of the four roundings
  have b1 : (addr + ps - 1) / ps * ps ≤ addr + ps - 1 := Nat.div_mul_le_self _ _
  have b2 : (addr + size + ps - 1) / ps * ps ≤ addr + size + ps - 1 := Nat.div_mul_le_self _ _
  have b3 : addr / ps * ps ≤ addr := Nat.div_mul_le_self _ _
  have b4 : (addr + size) / ps * ps ≤ addr + size := Nat.div_mul_le_self _ _
  unfold mi_os_page_align_areax mi_align_up_ptr mi_align_down_ptr
  have c0 : ¬ ((size = 0) ∨ (addr = 0)) := by omega
  simp only [if_neg c0, eas, u1, u2, d1, d2]
  by_cases hc : cons ≠ 0
  · simp only [if_pos hc]
    generalize hS : (addr + ps - 1) / ps * ps = S at b1 ⊢
    generalize hE : (addr + size) / ps * ps = E at b4 ⊢
    by_cases hgt : E > S
    · have e : ((E : Nat) : Int) - ((S : Nat) : Int) = ((E - S : Nat) : Int) := by omega
      rw [e, C16L.sw64_small (E - S) (by omega), Int.tdiv_one]
      have hpos : ¬ (((E - S : Nat) : Int) ≤ 0) := by omega
      simp only [if_neg hpos, if_pos hgt]
      have : (Int.toNat (((E - S : Nat) : Int) % 18446744073709551616)) = E - S := by omega
      simp [this]
    · have hle : ((E : Nat) : Int) - ((S : Nat) : Int) ≤ 0 := by omega
      have hsw : sw64 (((E : Nat) : Int) - ((S : Nat) : Int)) ≤ 0 := by
        unfold sw64
        have : (2:Int)^63 = 9223372036854775808 := by decide
        have : (2:Int)^64 = 18446744073709551616 := by decide
        omega
      rw [Int.tdiv_one]
      simp only [if_pos hsw, if_neg hgt]
      simp
  · simp only [if_neg hc]
    generalize hS : addr / ps * ps = S at b3 ⊢
    generalize hE : (addr + size + ps - 1) / ps * ps = E at b2 ⊢
    by_cases hgt : E > S
    · have e : ((E : Nat) : Int) - ((S : Nat) : Int) = ((E - S : Nat) : Int) := by omega
      rw [e, C16L.sw64_small (E - S) (by omega), Int.tdiv_one]
      have hpos : ¬ (((E - S : Nat) : Int) ≤ 0) := by omega
      simp only [if_neg hpos, if_pos hgt]
      have : (Int.toNat (((E - S : Nat) : Int) % 18446744073709551616)) = E - S := by omega
      simp [this]
    · have hle : ((E : Nat) : Int) - ((S : Nat) : Int) ≤ 0 := by omega
      have hsw : sw64 (((E : Nat) : Int) - ((S : Nat) : Int)) ≤ 0 := by
        unfold sw64
        have : (2:Int)^63 = 9223372036854775808 := by decide
        have : (2:Int)^64 = 18446744073709551616 := by decide
        omega
      rw [Int.tdiv_one]
      simp only [if_pos hsw, if_neg hgt]
      simp

end OsAreaL

namespace OsAreaL
open Gen

theorem up_ge (x ps : Nat) (hps : 0 < ps) : x ≤ (x + ps - 1) / ps * ps ∧ (x + ps - 1) / ps * ps < x + ps := by
  have h1 := Nat.div_add_mod (x + ps - 1) ps
  have h2 := Nat.mod_lt (x + ps - 1) hps
  have h3 : ps * ((x + ps - 1) / ps) = (x + ps - 1) / ps * ps := Nat.mul_comm _ _
  omega

theorem down_le (x ps : Nat) (hps : 0 < ps) : x / ps * ps ≤ x ∧ x < x / ps * ps + ps := by
  have h1 := Nat.div_add_mod x ps
  have h2 := Nat.mod_lt x hps
  have h3 : ps * (x / ps) = x / ps * ps := Nat.mul_comm _ _
  omega

/-- conservative (decommit / reset): nothing, or a page-aligned range inside the request -/
theorem conservative_inside (ps addr size : Nat) (hps : 0 < ps) (hps2 : ps ≤ 1073741824) (ha : addr ≠ 0) (hs : size ≠ 0)
    (hfit : addr + size + ps < 9223372036854775808) :
    (mi_os_page_align_areax ps 1 addr size 1).2 = 0 ∨
    (addr ≤ (mi_os_page_align_areax ps 1 addr size 1).1 ∧
     (mi_os_page_align_areax ps 1 addr size 1).1 + (mi_os_page_align_areax ps 1 addr size 1).2 ≤ addr + size ∧
     (mi_os_page_align_areax ps 1 addr size 1).1 % ps = 0 ∧ (mi_os_page_align_areax ps 1 addr size 1).2 % ps = 0) := by
  rw [area_eq ps 1 addr size hps hps2 ha hs hfit]
  simp only [if_pos (by decide : (1:Nat) ≠ 0)]
  have hu := up_ge addr ps hps
  have hd := down_le (addr + size) ps hps
  by_cases hgt : (addr + size) / ps * ps > (addr + ps - 1) / ps * ps
  · rw [if_pos hgt]
    right
    refine ⟨hu.1, by simp only []; omega, Nat.mul_mod_left _ _, ?_⟩
    simp only []
    rw [← Nat.sub_mul]; exact Nat.mul_mod_left _ _
  · rw [if_neg hgt]; left; rfl

/-- liberal (commit): a page-aligned range that covers the request -/
theorem liberal_covers (ps addr size : Nat) (hps : 0 < ps) (hps2 : ps ≤ 1073741824) (ha : addr ≠ 0) (hs : size ≠ 0)
    (hfit : addr + size + ps < 9223372036854775808) :
    (mi_os_page_align_areax ps 0 addr size 1).1 ≤ addr ∧
    addr + size ≤ (mi_os_page_align_areax ps 0 addr size 1).1 + (mi_os_page_align_areax ps 0 addr size 1).2 ∧
    (mi_os_page_align_areax ps 0 addr size 1).1 % ps = 0 := by
  rw [area_eq ps 0 addr size hps hps2 ha hs hfit]
  simp only [if_neg (by decide : ¬ (0:Nat) ≠ 0)]
  have hd := down_le addr ps hps
  have hu := up_ge (addr + size) ps hps
  have hgt : (addr + size + ps - 1) / ps * ps > addr / ps * ps := by omega
  rw [if_pos hgt]
  refine ⟨hd.1, by simp only []; omega, Nat.mul_mod_left _ _⟩

end OsAreaL
