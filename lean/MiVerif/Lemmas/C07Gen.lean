import MiVerif.Gen.Commit
import MiVerif.Lemmas.C07Shape
/-! invariants of the commit-bookkeeping functions as *generated from src/segment.c* (Gen/Commit.lean, extract/masktr.py) -/
namespace C07G
open GenC

/-- the bookkeeping never claims more than the OS granted -/
def SInvG (σ : SegSt) : Prop := ∀ k, σ.commit k = true → σ.os k = true

/-- well-formed segment geometry and a block range that starts inside the segment -/
structure Geo (σ : SegSt) (D size : Nat) : Prop where
  hseg : σ.base + 33554432 < 2^64
  hs   : σ.slices ≤ 512
  hD   : D < σ.slices * 65536
  hsz  : 0 < size
  hsz2 : size ≤ 33554432

/-- the units the OS call is asked about are exactly the bits of the mask (whenever the request is made at all) -/
theorem commitMask_units (σ : SegSt) (cons D size : Nat) (g : Geo σ D size) :
    (commitMask σ cons ((σ.base + D : Nat) : Int) (size : Int)).2.1 = 0 ∨
    unitsOf σ (commitMask σ cons ((σ.base + D : Nat) : Int) (size : Int)).1 (commitMask σ cons ((σ.base + D : Nat) : Int) (size : Int)).2.1
      = (commitMask σ cons ((σ.base + D : Nat) : Int) (size : Int)).2.2 := by
  unfold commitMask
  simp only [Int.toNat_natCast]
  rw [C07L.commit_mask_eq_tail σ.info σ.slices σ.base D size cons 0 0 0 g.hseg g.hD g.hs g.hsz g.hsz2]
  have h64 : (2:Nat)^64 = 18446744073709551616 := by decide
  have hseg' := g.hseg; rw [h64] at hseg'
  have hss : σ.slices * 65536 ≤ 33554432 := Nat.le_trans (Nat.mul_le_mul_right _ g.hs) (by decide)
  have hsh := C07L.tailOf_shape σ.base (σ.info * 65536 % 18446744073709551616) (σ.slices * 65536) D
    (if cons ≠ 0 then Gen._mi_align_up D 65536 else Gen._mi_align_down D 65536)
    (if cons ≠ 0 then Gen._mi_align_down ((D + size) % 18446744073709551616) 65536 else Gen._mi_align_up ((D + size) % 18446744073709551616) 65536)
    hseg' hss
  generalize C07L.tailOf σ.base (σ.info * 65536 % 18446744073709551616) (σ.slices * 65536) D
    (if cons ≠ 0 then Gen._mi_align_up D 65536 else Gen._mi_align_down D 65536)
    (if cons ≠ 0 then Gen._mi_align_down ((D + size) % 18446744073709551616) 65536 else Gen._mi_align_up ((D + size) % 18446744073709551616) 65536) = r at hsh ⊢
  rcases hsh with h0 | ⟨st, h1, h2, h3⟩
  · left; rw [h0]; rfl
  · right
    unfold unitsOf
    simp only [Int.toNat_natCast]
    rw [h2, h3]
    have : σ.base + st - σ.base = st := by omega
    rw [this]

theorem mUnion_inv {c o m u : Mask} (h : ∀ k, c k = true → o k = true) (hu : u = m) :
    ∀ k, mUnion c m k = true → mUnion o u k = true := by
  intro k hk
  subst hu
  unfold mUnion at hk ⊢
  cases hm : u k
  · rw [hm, Bool.or_false] at hk; rw [h k hk]; rfl
  · simp

theorem mDiff_inv {c o m u : Mask} (h : ∀ k, c k = true → o k = true) (hu : u = m) :
    ∀ k, mDiff c m k = true → mDiff o u k = true := by
  intro k hk
  subst hu
  unfold mDiff at hk ⊢
  cases hm : u k
  · rw [hm] at hk; simp at hk; simp [h k hk]
  · rw [hm] at hk; simp at hk

theorem mDiff_sub {c m : Mask} : ∀ k, mDiff c m k = true → c k = true := by
  intro k hk; unfold mDiff at hk; cases hc : c k
  · rw [hc] at hk; simp at hk
  · rfl

/-- **generated mi_segment_commit keeps the invariant**, whatever the OS answers -/
theorem gen_commit_inv (σ : SegSt) (D size : Nat) (ok : Bool) (now d : Int) (g : Geo σ D size) (h : SInvG σ) :
    SInvG (mi_segment_commit σ ((σ.base + D : Nat) : Int) (size : Int) ok now d).1 := by
  have hu := commitMask_units σ 0 D size g
  unfold mi_segment_commit
  simp only []
  generalize commitMask σ 0 ((σ.base + D : Nat) : Int) (size : Int) = r at hu ⊢
  split
  · exact h
  · rename_i hne
    have hfull : ¬ r.2.1 = 0 := by
      intro h0; apply hne; simp [h0]
    have hun : unitsOf σ r.1 r.2.1 = r.2.2 := by
      rcases hu with h0 | h1
      · exact absurd h0 hfull
      · exact h1
    split
    · unfold osCommit
      cases ok
      · simp only [Bool.false_eq_true, if_false, Bool.not_false, if_true]; exact h
      · simp only [if_true, Bool.not_true, Bool.false_eq_true, if_false]
        split <;> exact mUnion_inv h hun
    · split <;> exact h

/-- a refused commit is reported and leaves the bookkeeping as it was -/
theorem gen_commit_refused (σ : SegSt) (p size : Int) (now d : Int) :
    ((mi_segment_commit σ p size false now d).2 = false → (mi_segment_commit σ p size false now d).1 = σ) ∧
    (mi_segment_commit σ p size false now d).1.commit = σ.commit ∧ (mi_segment_commit σ p size false now d).1.os = σ.os := by
  unfold mi_segment_commit
  simp only []
  split
  · exact ⟨fun _ => rfl, rfl, rfl⟩
  · split
    · unfold osCommit
      simp
    · split <;> exact ⟨fun hh => (by cases hh), rfl, rfl⟩

/-- **generated mi_segment_purge keeps the invariant** provided access is revoked only when a re-commit is reported as needed -/
theorem gen_purge_inv (σ : SegSt) (D size : Nat) (nr og : Bool) (hon : og = true → nr = true) (g : Geo σ D size) (h : SInvG σ) :
    SInvG (mi_segment_purge σ ((σ.base + D : Nat) : Int) (size : Int) nr og).1 := by
  have hu := commitMask_units σ 1 D size g
  unfold mi_segment_purge
  simp only []
  generalize commitMask σ 1 ((σ.base + D : Nat) : Int) (size : Int) = r at hu ⊢
  split
  · exact h
  · split
    · exact h
    · rename_i _ hne
      have hfull : ¬ r.2.1 = 0 := by
        intro h0; apply hne; simp [h0]
      have hun : unitsOf σ r.1 r.2.1 = r.2.2 := by
        rcases hu with h0 | h1
        · exact absurd h0 hfull
        · exact h1
      split
      · unfold osPurge
        simp only []
        cases og
        · simp only [Bool.false_eq_true, if_false]
          cases nr
          · simp only [Bool.false_eq_true, if_false]; exact h
          · simp only [if_true]; intro k hk; exact h k (mDiff_sub k hk)
        · rw [hon rfl]
          simp only [if_true]
          exact mDiff_inv h hun
      · exact h

/-- **generated mi_segment_ensure_committed keeps the invariant** -/
theorem gen_ensure_inv (σ : SegSt) (D size : Nat) (ok : Bool) (now d : Int) (g : Geo σ D size) (h : SInvG σ) :
    SInvG (mi_segment_ensure_committed σ ((σ.base + D : Nat) : Int) (size : Int) ok now d).1 := by
  unfold mi_segment_ensure_committed
  split
  · exact h
  · exact gen_commit_inv σ D size ok now d g h

/-- **generated mi_segment_schedule_purge keeps the invariant** (for any `mi_segment_try_purge` that keeps it) -/
theorem gen_schedule_inv (σ : SegSt) (D size : Nat) (delay : Int) (nr og : Bool) (now ext : Int) (tp : SegSt → SegSt)
    (hon : og = true → nr = true) (htp : ∀ τ, SInvG τ → SInvG (tp τ)) (g : Geo σ D size) (h : SInvG σ) :
    SInvG (mi_segment_schedule_purge σ ((σ.base + D : Nat) : Int) (size : Int) delay nr og now ext tp) := by
  unfold mi_segment_schedule_purge
  simp only []
  split
  · exact h
  · split
    · exact gen_purge_inv σ D size nr og hon g h
    · split
      · exact h
      · have h1 : SInvG { σ with purge := mUnion σ.purge (mInter σ.commit (commitMask σ 1 ((σ.base + D : Nat) : Int) (size : Int)).2.2) } := h
        split
        · exact h1
        · split
          · split
            · exact htp _ h1
            · exact h1
          · exact h1

theorem mFull_iff (m : Mask) : mFull m = true ↔ ∀ k, k < 512 → m k = true := by
  unfold mFull; rw [List.all_eq_true]
  exact ⟨fun h k hk => h k (List.mem_range.2 hk), fun h k hk => h k (List.mem_range.1 hk)⟩

theorem mAllSet_iff (a cm : Mask) : mAllSet a cm = true ↔ ∀ k, k < 512 → cm k = true → a k = true := by
  unfold mAllSet; rw [List.all_eq_true]
  constructor
  · intro h k hk hc; have := h k (List.mem_range.2 hk); rw [hc] at this; simpa using this
  · intro h k hk; cases hc : cm k
    · simp
    · simp [h k (List.mem_range.1 hk) hc]

theorem mEmpty_range (i n : Nat) (hn : 0 < n) (hi : i < 512) : mEmpty (mRange i n) = false := by
  unfold mEmpty
  have : (List.range 512).any (mRange i n) = true := by
    rw [List.any_eq_true]; exact ⟨i, List.mem_range.2 hi, by unfold mRange; simp; omega⟩
  rw [this]; rfl

/-- **memory handed out is accessible (generated code)**: when the generated mi_segment_ensure_committed answers `true` for a block range
    inside the segment — after any history (`SInvG`) and with any answer of the OS — every byte of the range lies in an accessible unit -/
theorem gen_ensure_accessible (σ : SegSt) (D size : Nat) (ok : Bool) (now d : Int) (h : SInvG σ)
    (hseg : σ.base + 33554432 < 2^64) (hin : D + size ≤ σ.slices * 65536) (hs : σ.slices ≤ 512) (hinfo : σ.info ≤ 512) (hsz : 0 < size)
    (hres : (mi_segment_ensure_committed σ ((σ.base + D : Nat) : Int) (size : Int) ok now d).2 = true) :
    ∀ x, D ≤ x → x < D + size → (mi_segment_ensure_committed σ ((σ.base + D : Nat) : Int) (size : Int) ok now d).1.os (x / 65536) = true := by
  intro x hx1 hx2
  have hxs : x / 65536 < 512 := by omega
  unfold mi_segment_ensure_committed at hres ⊢
  split
  · rename_i hf
    have hfull : mFull σ.commit = true := by
      cases h1 : mFull σ.commit
      · rw [h1] at hf; simp at hf
      · rfl
    exact h _ ((mFull_iff _).1 hfull _ hxs)
  · rename_i hf
    rw [if_neg hf] at hres
    obtain ⟨st, en, h1, h2, h3, h4, h5, h6, heq⟩ := C07L.commit_range_covers σ.info σ.slices σ.base D size 0 0 0 hseg hin hs hinfo hsz
    have hi : st / 65536 ≤ x / 65536 := Nat.div_le_div_right (by omega)
    have hn : x / 65536 < st / 65536 + (en - st) / 65536 := by omega
    have hcm : commitMask σ 0 ((σ.base + D : Nat) : Int) (size : Int) = (((σ.base + st : Nat) : Int), ((en - st : Nat) : Int), mRange (st / 65536) ((en - st) / 65536)) := by
      unfold commitMask
      simp only [Int.toNat_natCast]
      rw [heq]
    have hmx : mRange (st / 65536) ((en - st) / 65536) (x / 65536) = true := by unfold mRange; simp; omega
    have hne : mEmpty (mRange (st / 65536) ((en - st) / 65536)) = false := mEmpty_range _ _ (by omega) (by omega)
    have hfs : ¬ (((en - st : Nat) : Int) = 0) := by omega
    have hun : unitsOf σ ((σ.base + st : Nat) : Int) ((en - st : Nat) : Int) = mRange (st / 65536) ((en - st) / 65536) := by
      unfold unitsOf; simp only [Int.toNat_natCast]
      have : σ.base + st - σ.base = st := by omega
      rw [this]
    unfold mi_segment_commit at hres ⊢
    simp only [hcm, hne, hfs, Bool.false_or, decide_false, Bool.false_eq_true, if_false] at hres ⊢
    split
    · -- the commit mask did not cover the range: the OS was asked
      rename_i hna
      have hna' : mAllSet σ.commit (mRange (st / 65536) ((en - st) / 65536)) = false := by simpa using hna
      unfold osCommit at hres ⊢
      cases ok
      · simp [hna'] at hres
      · simp only [if_true, Bool.not_true, Bool.false_eq_true, if_false]
        have : mUnion σ.os (unitsOf σ ((σ.base + st : Nat) : Int) ((en - st : Nat) : Int)) (x / 65536) = true := by
          rw [hun]; unfold mUnion; rw [hmx]; simp
        split <;> exact this
    · rename_i hall
      have hall' : mAllSet σ.commit (mRange (st / 65536) ((en - st) / 65536)) = true := by
        cases h1 : mAllSet σ.commit (mRange (st / 65536) ((en - st) / 65536))
        · rw [h1] at hall; simp at hall
        · rfl
      have hc := (mAllSet_iff _ _).1 hall' _ hxs hmx
      split <;> exact h _ hc

end C07G
