#!/usr/bin/env python3
"""C (clang-14 JSON AST of src/static.c) -> Lean 4 translator (tie T1 of DESIGN.md).

Target representation: Nat with explicit wrap-around (value always < 2^w), Int for signed
sub-expressions, pointers as Nat addresses.  Calls to functions outside the translated set become
function parameters (oracles); statement-level external calls and stores through subscripts are
appended to an effect log; in memory mode struct fields are read/written through a write buffer.
Anything outside the supported subset raises TranslateError (the caller treats this like a broken proof).
"""
import json, sys, re, subprocess, os, hashlib
from ceval import ceval as _ceval, NotConst

class TranslateError(Exception):
    pass

KW = {'end', 'at', 'from', 'with', 'in', 'do', 'then', 'else', 'if', 'fun', 'let', 'have', 'show', 'open', 'where',
      'by', 'section', 'namespace', 'variable', 'instance', 'class', 'structure', 'deriving', 'mutual', 'theorem',
      'def', 'local', 'prefix', 'infix', 'notation', 'macro', 'syntax', 'match', 'return', 'this', 'Type', 'Prop',
      'Sort', 'max', 'min', 'abs', 'cast', 'id', 'pure', 'zero', 'succ'}
IGNORED_CALLS = ('_mi_warning_message', '_mi_error_message', '_mi_verbose_message', '_mi_trace_message')

def ind(s):
    return '\n'.join('  ' + l for l in s.split('\n'))

def strip(n):
    while n['kind'] in ('ParenExpr', 'ImplicitCastExpr', 'CStyleCastExpr', 'ConstantExpr'):
        n = n['inner'][0]
    return n

def dq(n):
    t = n['type']
    return t.get('desugaredQualType', t['qualType'])

def arrow_split(n):
    """MemberExpr chain -> (arrow base expr node, 'f_g_h') or None when the chain has no arrow."""
    names = []
    while n['kind'] == 'MemberExpr':
        names.append(n['name'])
        b = n['inner'][0]
        while b['kind'] in ('ParenExpr', 'ImplicitCastExpr') and b.get('castKind') in (None, 'LValueToRValue', 'NoOp'):
            b = b['inner'][0]
        if n.get('isArrow'):
            return (n['inner'][0], '_'.join(reversed(names)))
        n = b
    return None


class TU:
    """One translation unit: the AST of static.c under a flag set + sizeof/offsetof table."""

    def __init__(self, repo='/repo', flags=('-DNDEBUG', '-DMI_BUILD_RELEASE'), workdir=None, cc='clang-14'):
        self.repo = repo
        self.flags = list(flags)
        self.workdir = workdir
        src = os.path.join(repo, 'src', 'static.c')
        p = subprocess.run([cc, '-std=gnu11', '-fsyntax-only', '-Xclang', '-ast-dump=json', '-I' + os.path.join(repo, 'include')]
                           + self.flags + [src], capture_output=True, text=True)
        if p.returncode != 0:
            raise TranslateError('clang failed: ' + p.stderr[-2000:])
        self.ast = json.loads(p.stdout)
        self.FNS = {}
        self.ENUM = {}
        self.TYPEDEF = {}
        self.RECORDS = {}    # tag or typedef name -> [field names]
        self.SIG = {}
        self.fnfile = {}
        curfile = None
        for o in self.ast.get('inner', []):
            k = o.get('kind')
            loc = o.get('loc', {})
            f = loc.get('file') or loc.get('expansionLoc', {}).get('file') or loc.get('spellingLoc', {}).get('file')
            if f:
                curfile = f
            if k == 'FunctionDecl' and any(c['kind'] == 'CompoundStmt' for c in o.get('inner', [])):
                self.FNS[o['name']] = o
                self.fnfile[o['name']] = curfile
            elif k == 'EnumDecl':
                self._enum(o)
            elif k == 'TypedefDecl':
                t = o['type']
                self.TYPEDEF[o['name']] = t.get('desugaredQualType', t['qualType'])
                for c in o.get('inner', []):
                    self._scan_types(c)
            elif k == 'RecordDecl':
                self._record(o)
        self.SIZES = {}
        self.OFFS = {}
        self.log_errors = False
        self._sizes()

    def _enum(self, o):
        v = -1
        for c in o.get('inner', []):
            if c['kind'] == 'EnumConstantDecl':
                if 'inner' in c:
                    try:
                        v = _ceval(c['inner'][0])
                    except Exception:
                        x = c['inner'][0]
                        while 'value' not in x and 'inner' in x:
                            x = x['inner'][0]
                        v = int(x['value'])
                else:
                    v += 1
                self.ENUM[c['name']] = v

    def _scan_types(self, c):
        if c.get('kind') == 'EnumDecl':
            self._enum(c)
        if c.get('kind') == 'RecordDecl':
            self._record(c)
        for x in c.get('inner', []) if isinstance(c, dict) else []:
            if isinstance(x, dict) and x.get('kind') in ('ElaboratedType', 'RecordType', 'EnumType'):
                if 'ownedTagDecl' in x:
                    pass

    def _record(self, o):
        if not o.get('completeDefinition'):
            return
        name = o.get('name')
        fields = [c for c in o.get('inner', []) if c.get('kind') == 'FieldDecl']
        if name:
            self.RECORDS[name] = fields
        for c in o.get('inner', []):
            if c.get('kind') == 'EnumDecl':
                self._enum(c)

    def _sizes(self):
        """sizeof / offsetof for every named record with a `mi_` typedef, by compiling a generated program."""
        names = []
        for td, ty in self.TYPEDEF.items():
            m = re.match(r'^(struct|union) (\w+)$', ty)
            if m and m.group(2) in self.RECORDS and td.startswith('mi_'):
                names.append((td, m.group(2)))
        lines = ['#include "%s"' % os.path.join(self.repo, 'src', 'static.c'), '#include <stdio.h>', '#include <stddef.h>',
                 'int main(void){']
        for td, tagn in names:
            lines.append('printf("S %s %%zu\\n", sizeof(%s));' % (td, td))
            for fd in self.RECORDS[tagn]:
                if fd.get('isBitfield') or not fd.get('name'):
                    continue
                lines.append('printf("O %s %s %%zu\\n", offsetof(%s,%s));' % (td, fd['name'], td, fd['name']))
        lines.append('return 0;}')
        wd = self.workdir or '/tmp'
        tag = hashlib.md5((' '.join(self.flags)).encode()).hexdigest()[:8]
        src = os.path.join(wd, 'sizes_%s.c' % tag)
        exe = os.path.join(wd, 'sizes_%s' % tag)
        open(src, 'w').write('\n'.join(lines))
        p = subprocess.run(['gcc', '-w', '-O0', '-I' + os.path.join(self.repo, 'include')] + self.flags + [src, '-o', exe, '-lpthread'],
                           capture_output=True, text=True)
        if p.returncode != 0:
            raise TranslateError('sizes program failed: ' + p.stderr[-1500:])
        out = subprocess.run([exe], capture_output=True, text=True).stdout
        for l in out.splitlines():
            p = l.split()
            if p[0] == 'S':
                self.SIZES[p[1]] = int(p[2])
            else:
                self.OFFS[(p[1], p[2])] = int(p[3])
        for td, tagn in names:
            self.SIZES[tagn] = self.SIZES[td]
            for fd in self.RECORDS[tagn]:
                if (td, fd.get('name')) in self.OFFS:
                    self.OFFS[(tagn, fd['name'])] = self.OFFS[(td, fd['name'])]
        self.SIZES.update({'uint8_t': 1, 'char': 1, 'void': 1, 'size_t': 8, 'uintptr_t': 8, 'unsigned char': 1,
                           'unsigned long': 8, 'long': 8, 'int': 4, 'unsigned int': 4, 'unsigned short': 2,
                           'unsigned long long': 8, 'long long': 8, '_Bool': 1, 'bool': 1})
        try:
            os.unlink(src); os.unlink(exe)
        except OSError:
            pass

    # ---- type helpers
    def resolve(self, t):
        for _ in range(10):
            m = re.match(r'^(\w+)(.*)$', t)
            if m and m.group(1) in self.TYPEDEF:
                t = self.TYPEDEF[m.group(1)] + m.group(2)
            else:
                break
        return t

    def clean(self, t):
        t = re.sub(r'\b(const|volatile|restrict|_Atomic)\b', '', t)
        t = re.sub(r'_Atomic\((.*?)\)', r'\1', t)
        t = t.replace('struct ', 'struct ').replace('  ', ' ').strip()
        t = self.resolve(t)
        t = re.sub(r'\b(const|volatile|restrict)\b', '', t).replace('  ', ' ').strip()
        return t

    def tag(self, t):
        t = t.replace('struct ', '').replace('union ', '').strip()
        return t

    def bits(self, t):
        t = self.clean(t)
        if t.endswith('*') or '(*)' in t:
            return ('u', 64)
        if t.startswith('enum '):
            return ('u', 32)
        if t in ('unsigned long', 'unsigned long long'):
            return ('u', 64)
        if t in ('unsigned int',):
            return ('u', 32)
        if t == 'int':
            return ('s', 32)
        if t in ('long', 'long long'):
            return ('s', 64)
        if t in ('_Bool', 'bool'):
            return ('u', 1)
        if t in ('unsigned char', 'char'):
            return ('u', 8)
        if t in ('signed char',):
            return ('s', 8)
        if t in ('unsigned short',):
            return ('u', 16)
        if t in ('short',):
            return ('s', 16)
        if re.match(r'^(union .*|struct .*)$', t):
            return ('u', 64)   # by-value record: placeholder, fields arrive as extra parameters
        raise TranslateError('type ' + t)

    def pointee_size(self, t):
        t = self.clean(t)
        if not t.endswith('*'):
            raise TranslateError('pointee of non-pointer ' + t)
        b = t[:-1].strip()
        if b.endswith('*'):
            return 8
        tg = self.tag(b)
        if tg in self.SIZES:
            return self.SIZES[tg]
        raise TranslateError('pointee size of ' + b)

    def ceval(self, n):
        return _ceval(n, self.SIZES)

    # ---- driver
    def callees(self, n, acc):
        if n.get('kind') == 'CallExpr':
            f = strip(n['inner'][0])
            if 'referencedDecl' in f:
                acc.add(f['referencedDecl']['name'])
        for c in n.get('inner', []):
            callees_ = self.callees(c, acc)
        return acc

    def translate(self, names, mem=False, explicit_in=(), namespace='Gen', imports=('MiVerif.Gen.Prelude',), strict=True, header='', log_errors=False):
        names = list(names)
        self.log_errors = log_errors
        missing = [n for n in names if n not in self.FNS]
        if missing:
            raise TranslateError('functions not found in the translation unit: ' + ', '.join(missing))
        order = []
        seen = set()
        def visit(nm):
            if nm in seen or nm not in names:
                return
            seen.add(nm)
            for c in sorted(self.callees(self.FNS[nm], set())):
                visit(c)
            order.append(nm)
        for nm in names:
            visit(nm)
        self.SIG = {}
        out = ['-- GENERATED by /verif/extract/translate.py from %s/src/static.c (flags %s). DO NOT EDIT.' % (self.repo, ' '.join(self.flags))]
        out += ['import ' + i for i in imports]
        if header:
            out.append(header)
        out.append('namespace ' + namespace)
        bad = []
        for nm in order:
            try:
                fn = Fn(self, json.loads(json.dumps(self.FNS[nm])), set(names), mem=mem, explicit_in=(nm in explicit_in))
                out.append(fn.emit())
                out.append('')
            except TranslateError as e:
                bad.append((nm, str(e)))
            except (KeyError, IndexError, AssertionError) as e:
                bad.append((nm, 'internal: ' + repr(e)))
        out.append('end ' + namespace)
        if bad and strict:
            raise TranslateError('cannot translate: ' + '; '.join('%s (%s)' % b for b in bad))
        return '\n'.join(out) + '\n', bad


class Fn:
    def __init__(self, tu, f, translated, mem=False, explicit_in=False):
        self.tu = tu
        self.mem = mem
        self.explicit_in = explicit_in
        def ren(n):
            if isinstance(n, dict):
                if n.get('name') in KW and n.get('kind') in ('VarDecl', 'ParmVarDecl'):
                    n['name'] += '_'
                rd = n.get('referencedDecl')
                if rd and rd.get('name') in KW and rd.get('kind') in ('VarDecl', 'ParmVarDecl'):
                    rd['name'] += '_'
                for c in n.get('inner', []):
                    ren(c)
        ren(f)
        self.f = f
        self.translated = translated
        self.params = [p for p in f.get('inner', []) if p['kind'] == 'ParmVarDecl']
        self.pnames = [p['name'] for p in self.params]
        self.locals = set()
        self.extra = []      # (name, leantype, origin) implicit parameters: struct fields, array cells, external functions
        self.outs = []       # names of pointer params written through
        self.walked = set()  # pointer params the function itself moves (p++, p = ...): memory pointers, not out-parameters
        def find_walked(n):
            k = n.get('kind')
            if (k == 'UnaryOperator' and n.get('opcode') in ('++', '--')) or k == 'CompoundAssignOperator' or (k == 'BinaryOperator' and n.get('opcode') == '='):
                t = strip(n['inner'][0])
                if t.get('kind') == 'DeclRefExpr' and tu.clean(dq(t)).endswith('*'):
                    self.walked.add(t['referencedDecl']['name'])
            for c in n.get('inner', []):
                find_walked(c)
        find_walked(f)
        self.pre = []
        self.tmp = 0
        self.pre_eff = []
        self.abs = {}
        self.eff = False
        self._join = []
        self.local_arrays = {}
        self.find_local_arrays(f)
        self.find_outs(f)
        if not mem:
            self.find_abs(f)
        self.find_eff(f)

    # ---- analysis passes
    def find_local_arrays(self, n):
        if n.get('kind') == 'VarDecl' and 'type' in n:
            m = re.match(r'^(.*)\[(\d+)\]$', self.tu.clean(dq(n)))
            if m:
                self.local_arrays[n['name']] = (m.group(1).strip(), int(m.group(2)))
        for c in n.get('inner', []):
            self.find_local_arrays(c)

    def find_outs(self, n):
        if n.get('kind') in ('BinaryOperator', 'CompoundAssignOperator') and (n.get('opcode') == '=' or n['kind'] == 'CompoundAssignOperator'):
            l = n['inner'][0]
            while l['kind'] == 'ParenExpr':
                l = l['inner'][0]
            if l['kind'] == 'UnaryOperator' and l['opcode'] == '*':
                b = strip(l['inner'][0])
                if b['kind'] == 'DeclRefExpr' and b['referencedDecl']['name'] in self.pnames and b['referencedDecl']['name'] not in self.outs and b['referencedDecl']['name'] not in self.walked:
                    self.outs.append(b['referencedDecl']['name'])
        if n.get('kind') == 'CallExpr':
            fn = strip(n['inner'][0]).get('referencedDecl', {}).get('name', '')
            if fn == '__builtin_umull_overflow':
                a = strip(n['inner'][3])
                if a['kind'] == 'DeclRefExpr' and a['referencedDecl']['name'] in self.pnames and a['referencedDecl']['name'] not in self.outs:
                    self.outs.append(a['referencedDecl']['name'])
        for c in n.get('inner', []):
            self.find_outs(c)

    def find_abs(self, n):
        # statement-level calls `g(..., cm)` where cm is a pointer-to-struct parameter of ours: abstract result
        if n.get('kind') == 'CompoundStmt':
            for c in n.get('inner', []):
                if c.get('kind') == 'CallExpr':
                    fn = strip(c['inner'][0]).get('referencedDecl', {}).get('name', '')
                    if self.ignored(fn):
                        continue
                    if fn in self.translated:
                        continue
                    for a in c['inner'][1:]:
                        a = strip(a)
                        at = self.tu.clean(dq(a)) if 'type' in a else ''
                        if a.get('kind') == 'DeclRefExpr' and a['referencedDecl']['name'] in self.pnames and at.endswith('*') and re.match(r'^(struct |union )', at) and 'mi_commit_mask' in at:
                            nm = a['referencedDecl']['name']
                            self.abs[nm] = 'α_' + nm
                            if nm not in self.outs:
                                self.outs.append(nm)
        for c in n.get('inner', []):
            self.find_abs(c)

    def ignored(self, fn):
        if fn.startswith('_mi_assert'):
            return True
        if fn == '_mi_error_message' and self.tu.log_errors:
            return False
        return fn in IGNORED_CALLS

    def callee_name(self, c):
        return strip(c['inner'][0]).get('referencedDecl', {}).get('name', '')

    def is_eff_call(self, c):
        if c.get('kind') != 'CallExpr':
            return False
        fn = self.callee_name(c)
        if self.ignored(fn) or fn.startswith('__builtin'):
            return False
        if fn in self.translated:
            return False
        for a in c['inner'][1:]:
            a = strip(a)
            if a.get('kind') == 'DeclRefExpr' and a['referencedDecl']['name'] in self.abs:
                return False
        return True

    def lhs_member(self, n):
        if not self.mem or not n.get('inner'):
            return None
        l = n['inner'][0]
        while l['kind'] == 'ParenExpr':
            l = l['inner'][0]
        if l['kind'] == 'MemberExpr':
            return arrow_split(l)
        return None

    def is_mem_store(self, n):
        if not (n.get('kind') == 'BinaryOperator' and n.get('opcode') == '='):
            return False
        l = n['inner'][0]
        while l['kind'] == 'ParenExpr':
            l = l['inner'][0]
        if l['kind'] == 'ArraySubscriptExpr':
            b = strip(l['inner'][0])
            if b['kind'] == 'DeclRefExpr' and b['referencedDecl']['name'] in self.local_arrays:
                return False
            return True
        if l['kind'] == 'MemberExpr' and not self.mem and arrow_split(l):
            return True
        if l['kind'] == 'UnaryOperator' and l['opcode'] == '*':
            b = strip(l['inner'][0])
            if b['kind'] == 'CallExpr':      # *f() = v  (errno)
                return True
            if b['kind'] == 'DeclRefExpr' and (b['referencedDecl']['name'] not in self.pnames or b['referencedDecl']['name'] in self.walked):
                return True                  # *local = v, *walked_param = v
            if b['kind'] == 'UnaryOperator' and b.get('opcode') == '++' and b.get('isPostfix') and strip(b['inner'][0]).get('kind') == 'DeclRefExpr':
                return True                  # *p++ = v
        return False

    def find_eff(self, n):
        if self.is_mem_store(n):
            self.eff = True
        if n.get('kind') == 'CallExpr':
            fn = self.callee_name(n)
            if self.tu.SIG.get(fn, {}).get('eff'):
                self.eff = True
        if n.get('kind') in ('CompoundStmt', 'IfStmt'):
            for c in n.get('inner', []):
                if self.is_eff_call(c):
                    self.eff = True
        for c in n.get('inner', []):
            self.find_eff(c)

    def addx(self, name, ty, origin=None):
        if origin is None:
            origin = ('ext', name)
        if name not in [e[0] for e in self.extra] and name not in self.locals:
            self.extra.append((name, ty, origin))
        return name

    def lty(self, t):
        return 'Nat' if self.tu.bits(t)[0] == 'u' else 'Int'

    # ---- expressions
    def expr(self, n):
        try:
            v = self.tu.ceval(n)
            return str(v) if v >= 0 else f'(-{-v} : Int)'
        except TranslateError:
            raise
        except Exception:
            pass
        return self.expr0(n)

    def norm(self, e, t):
        return f'(({e}) % {2**t[1]})' if t[0] == 'u' else f'(sw{t[1]} {e})'

    def member_path(self, n):
        if n['kind'] == 'MemberExpr':
            b = n['inner'][0]
            while b['kind'] in ('ParenExpr', 'ImplicitCastExpr'):
                b = b['inner'][0]
            return self.member_path(b) + '_' + n['name']
        if n['kind'] == 'DeclRefExpr':
            return n['referencedDecl']['name']
        raise TranslateError('member base ' + n['kind'])

    def root(self, a):
        while a['kind'] != 'DeclRefExpr':
            if not a.get('inner'):
                raise TranslateError('no root for ' + a['kind'])
            a = strip(a['inner'][0])
        return a['referencedDecl']['name']

    def expr0(self, n):
        tu = self.tu
        k = n['kind']
        if k in ('ParenExpr', 'ConstantExpr'):
            return self.expr(n['inner'][0])
        if k in ('ImplicitCastExpr', 'CStyleCastExpr'):
            ck = n.get('castKind')
            inner = n['inner'][0]
            if ck in ('LValueToRValue', 'NoOp', 'FunctionToPointerDecay', 'BuiltinFnToFnPtr', 'BitCast', 'AtomicToNonAtomic', 'NonAtomicToAtomic'):
                return self.expr(inner)
            if ck == 'PointerToIntegral':
                return self.cast(self.expr(inner), ('u', 64), tu.bits(dq(n)))
            if ck == 'IntegralToPointer':
                return self.cast(self.expr(inner), tu.bits(dq(inner)), ('u', 64))
            if ck == 'NullToPointer':
                return '0'
            if ck == 'ArrayToPointerDecay':
                i = inner
                while i['kind'] == 'ParenExpr':
                    i = i['inner'][0]
                if i['kind'] == 'MemberExpr':   # address of an embedded array: base + offsetof
                    b = i['inner'][0]
                    bt = tu.tag(tu.clean(dq(b)).rstrip('*').strip())
                    off = tu.OFFS.get((bt, i['name']))
                    if off is None:
                        raise TranslateError(f'offsetof {bt}.{i["name"]}')
                    if not i.get('isArrow'):
                        raise TranslateError('array member of by-value struct')
                    return f'(({self.expr(b)} + {off}) % {2**64})'
                if i['kind'] == 'StringLiteral':
                    return '0'
                if i['kind'] == 'DeclRefExpr' and i['referencedDecl']['name'] in self.local_arrays:
                    return '1'      # address of a local array: only its elements (scalars) are used
                raise TranslateError('array decay of ' + i['kind'])
            if ck == 'IntegralCast':
                return self.cast(self.expr(inner), tu.bits(dq(inner)), tu.bits(dq(n)))
            if ck in ('IntegralToBoolean', 'PointerToBoolean'):
                return f'(if {self.expr(inner)} ≠ 0 then 1 else 0)'
            if ck == 'ToVoid':
                return '()'
            raise TranslateError('cast ' + str(ck))
        if k == 'IntegerLiteral':
            return n['value']
        if k == 'CharacterLiteral':
            return str(n['value'])
        if k == 'UnaryExprOrTypeTraitExpr':
            t = tu.clean((n.get('argType') or n['inner'][0]['type'])['qualType'])
            if tu.tag(t) in tu.SIZES:
                return str(tu.SIZES[tu.tag(t)])
            raise TranslateError('sizeof ' + t)
        if k == 'DeclRefExpr':
            d = n['referencedDecl']
            if d['kind'] == 'EnumConstantDecl':
                return str(tu.ENUM[d['name']])
            if d['kind'] == 'VarDecl' and d['name'] not in self.locals and d['name'] not in self.pnames:
                # global variable read: oracle value
                return self.addx('g_' + d['name'], self.lty(dq(n)), ('ext', 'g_' + d['name']))
            return d['name']
        if k == 'MemberExpr' and self.mem and arrow_split(n):
            b, fld = arrow_split(n)
            return f'(rdm rd0 mem_out "{fld}" {self.expr(b)})'
        if k == 'MemberExpr':
            try:
                r = self.root(n)
            except TranslateError:
                r = None
            if r is None or r not in self.pnames:
                # read through a computed pointer: oracle `rd_<field> : Nat → T`
                sp = arrow_split(n)
                if not sp:
                    b0 = strip(n['inner'][0])
                    if (not n.get('isArrow')) and b0.get('kind') == 'DeclRefExpr' and b0['referencedDecl'].get('kind') == 'VarDecl' \
                            and b0['referencedDecl']['name'] not in self.locals and b0['referencedDecl']['name'] not in self.pnames:
                        # field of a global struct variable (`mi_os_mem_config.has_partial_free`): oracle value
                        gn = 'g_' + b0['referencedDecl']['name'] + '_' + n['name']
                        return self.addx(gn, self.lty(dq(n)), ('ext', gn))
                    raise TranslateError('member of local struct')
                b, fld = sp
                nm = 'rd_' + fld
                self.addx(nm, 'Nat → ' + self.lty(dq(n)), ('ext', nm))
                return f'({nm} {self.expr(b)})'
            p = self.member_path(n)
            return self.addx(p, self.lty(dq(n)), ('field', r, p[len(r):]))
        if k == 'ArraySubscriptExpr' and strip(n['inner'][0])['kind'] == 'DeclRefExpr' and strip(n['inner'][0])['referencedDecl']['name'] in self.local_arrays:
            try:
                iv = tu.ceval(n['inner'][1])
            except Exception:
                raise TranslateError('non-constant index into local array')
            return f'{strip(n["inner"][0])["referencedDecl"]["name"]}_{iv}'
        if k == 'ArraySubscriptExpr':
            b, i = n['inner']
            bb = strip(b)
            try:
                iv = tu.ceval(i)
            except (NotConst, KeyError):
                iv = None
            if iv is not None and bb['kind'] in ('MemberExpr', 'DeclRefExpr') and self.root(bb) in self.pnames and not (self.mem and bb['kind'] == 'MemberExpr'):
                nm = self.member_path(bb)
                r = self.root(bb)
                return self.addx(f'{nm}_{iv}', self.lty(dq(n)), ('field', r, f'{nm}_{iv}'[len(r):]))
            # general load through a computed address: read oracle by element size
            sz = tu.pointee_size(tu.clean(dq(b))) if tu.clean(dq(b)).endswith('*') else None
            if sz is None:
                raise TranslateError('subscript base')
            nm = f'ld{sz*8}'
            self.addx(nm, 'Nat → ' + self.lty(dq(n)), ('ext', nm))
            return f'({nm} (({self.expr(b)} + {self.expr(i)} * {sz}) % {2**64}))'
        if k == 'UnaryOperator':
            op = n['opcode']
            t = tu.bits(dq(n))
            if op == '*':
                b = strip(n['inner'][0])
                if b['kind'] == 'DeclRefExpr' and b['referencedDecl']['name'] in self.outs:
                    return b['referencedDecl']['name'] + '_out'
                sz = tu.pointee_size(tu.clean(dq(n['inner'][0])))
                nm = f'ld{sz*8}'
                self.addx(nm, 'Nat → ' + self.lty(dq(n)), ('ext', nm))
                return f'({nm} {self.expr(n["inner"][0])})'
            if op == '&':
                return self.addr_of(n['inner'][0])
            if op in ('--', '++'):
                tgt = n['inner'][0]
                while tgt['kind'] == 'ParenExpr':
                    tgt = tgt['inner'][0]
                if self.mem and tgt['kind'] == 'MemberExpr' and arrow_split(tgt):
                    b, fld = arrow_split(tgt)
                    be = self.expr(b)
                    old = f'(rdm rd0 mem_out "{fld}" {be})'
                    tt = tu.bits(dq(tgt))
                    new = self.norm(f'({old} + {2**tt[1]} - 1)' if op == '--' else f'({old} + 1)', tt)
                    self.tmp += 1
                    v = f'v{self.tmp}'
                    if n.get('isPostfix'):
                        self.pre.append(f'let {v} := {old}\nlet mem_out := wrm mem_out "{fld}" {be} {new}\n')
                    else:
                        self.pre.append(f'let {v} := {new}\nlet mem_out := wrm mem_out "{fld}" {be} {v}\n')
                    return v
                raise TranslateError('inc/dec in expression')
            a = self.expr(n['inner'][0])
            if op == '~':
                return self.norm(f'({2**t[1]-1} - {a})' if t[0] == 'u' else f'(-({a}) - 1)', t)
            if op == '!':
                return f'(if {a} = 0 then 1 else 0)'
            if op == '-':
                return self.norm(f'(0 - {a})' if t[0] == 's' else f'({2**t[1]} - {a})', t)
            if op == '+':
                return a
            raise TranslateError('unop ' + op)
        if k == 'BinaryOperator':
            op = n['opcode']
            l, r = n['inner']
            if op in ('<', '<=', '>', '>=', '==', '!=', '&&', '||'):
                return f'(if {self.cond(n)} then 1 else 0)'
            a = self.expr(l)
            b = self.expr(r)
            tl = tu.clean(dq(l)); trr = tu.clean(dq(r)); tn = tu.clean(dq(n))
            lp = tl.endswith('*'); rp = trr.endswith('*')
            if op in ('+', '-') and lp and not rp:
                sz = tu.pointee_size(tl)
                signed = tu.bits(trr)[0] == 's'
                bi = self.cast(b, tu.bits(trr), ('s', 64)) if signed else b
                sc = f'({bi} * {sz})' if sz != 1 else bi
                if signed:
                    return f'(Int.toNat (((({a} : Nat) : Int) {op} {sc}) % {2**64}))'
                return f'(({a} + {sc}) % {2**64})' if op == '+' else f'(({a} + {2**64} - ({sc}) % {2**64}) % {2**64})'
            if op == '+' and rp and not lp:
                sz = tu.pointee_size(trr)
                if tu.bits(tl)[0] == 's':
                    raise TranslateError('int + ptr')
                sc = f'({a} * {sz})' if sz != 1 else a
                return f'(({b} + {sc}) % {2**64})'
            if op == '-' and lp and rp:
                sz = tu.pointee_size(tl)
                return f'(Int.tdiv (sw64 ((({a} : Nat) : Int) - (({b} : Nat) : Int))) {sz})'
            t = tu.bits(tn)
            if op in ('+', '*'):
                return self.norm(f'({a} {op} {b})', t)
            if op == '-':
                return self.norm(f'({a} + {2**t[1]} - {b})' if t[0] == 'u' else f'({a} - {b})', t)
            if op == '/':
                return f'({a} / {b})' if t[0] == 'u' else f'(Int.tdiv {a} {b})'
            if op == '%':
                return f'({a} % {b})' if t[0] == 'u' else f'(Int.tmod {a} {b})'
            if op == '&':
                return f'({a} &&& {b})' if t[0] == 'u' else f'(landS {a} {b})'
            if op == '|':
                if t[0] != 'u': raise TranslateError('signed |')
                return f'({a} ||| {b})'
            if op == '^':
                if t[0] != 'u': raise TranslateError('signed ^')
                return f'({a} ^^^ {b})'
            if op in ('<<', '>>'):
                rt = tu.bits(trr)
                bb = b if rt[0] == 'u' else (b if b.isdigit() else f'(Int.toNat {b})')
                if t[0] != 'u':
                    if op == '<<':
                        return self.norm(f'({a} * 2^{bb})', t)
                    return f'(Int.fdiv {a} (2^{bb}))'
                return self.norm(f'({a} * 2^{bb})', t) if op == '<<' else f'({a} / 2^{bb})'
            if op == ',':
                return b
            raise TranslateError('binop ' + op)
        if k == 'ConditionalOperator':
            c, a, b = n['inner']
            cc = self.cond(c)
            sv = self.pre; self.pre = []
            ea = self.expr(a); pa = self.pre; self.pre = []
            eb = self.expr(b); pb = self.pre
            self.pre = sv
            if pa or pb:
                raise TranslateError('call with out-parameters inside ?:')
            return f'(if {cc} then {ea} else {eb})'
        if k == 'CallExpr':
            e, outs = self.call(n)
            if not outs:
                return e
            self.tmp += 1
            t = f'r{self.tmp}'
            self.pre.append(f'let ({", ".join([t]+outs)}) := {e}\n')
            return t
        if k == 'StringLiteral':
            return '0'
        raise TranslateError('expr ' + k)

    def addr_of(self, l):
        tu = self.tu
        while l['kind'] == 'ParenExpr':
            l = l['inner'][0]
        if l['kind'] == 'ArraySubscriptExpr':
            b, i = l['inner']
            bt = tu.clean(dq(b))
            sz = tu.pointee_size(bt) if bt.endswith('*') else None
            if sz is None:
                raise TranslateError('address-of subscript base')
            ie = self.expr(i)
            if tu.bits(dq(i))[0] == 's':
                ie = f'(Int.toNat (({ie}) % {2**64}))'
            return f'(({self.expr(b)} + {ie} * {sz}) % {2**64})'
        if l['kind'] == 'MemberExpr' and l.get('isArrow'):
            b = l['inner'][0]
            bt = tu.tag(tu.clean(dq(b)).rstrip('*').strip())
            off = tu.OFFS.get((bt, l['name']))
            if off is None:
                raise TranslateError(f'offsetof {bt}.{l["name"]}')
            return f'(({self.expr(b)} + {off}) % {2**64})'
        if l['kind'] == 'UnaryOperator' and l['opcode'] == '*':
            return self.expr(l['inner'][0])
        raise TranslateError('address-of ' + l['kind'])

    def flush(self):
        p = ''.join(self.pre)
        self.pre = []
        for et in self.pre_eff:
            p += f'let eff_out := eff_out ++ {et}\n'
        self.pre_eff = []
        return p

    def call(self, n):
        tu = self.tu
        f = strip(n['inner'][0])
        if 'referencedDecl' not in f:
            raise TranslateError('indirect call')
        fn = f['referencedDecl']['name']
        argn = n['inner'][1:]
        if fn == '__builtin_expect':
            return (self.expr(argn[0]), [])
        if fn == '__builtin_umull_overflow':
            tgt = strip(argn[2])
            if tgt['kind'] == 'UnaryOperator' and tgt['opcode'] == '&':
                nm = strip(tgt['inner'][0])['referencedDecl']['name']
            else:
                nm = tgt['referencedDecl']['name'] + '_out'
            return (f'(umull_overflow {self.expr(argn[0])} {self.expr(argn[1])})', [nm])
        outs = []; args = []; xs = []
        sig = tu.SIG.get(fn)
        if fn in self.translated and sig is None:
            raise TranslateError('callee %s failed to translate' % fn)
        for i, x in enumerate(argn):
            s = strip(x)
            if s['kind'] == 'UnaryOperator' and s['opcode'] == '&' and sig and sig['pnames'][i] in sig['outs']:
                v = strip(s['inner'][0])
                if v['kind'] != 'DeclRefExpr':
                    raise TranslateError('&(non-variable) as out argument')
                outs.append(v['referencedDecl']['name'])
                args.append('1')
            elif sig and sig['pnames'][i] in sig['outs'] and s['kind'] == 'DeclRefExpr' and s['referencedDecl']['name'] in self.pnames:
                nm = s['referencedDecl']['name']
                if nm not in self.outs:
                    self.outs.append(nm)
                outs.append(nm + '_out')
                args.append(nm)
            elif sig and sig['pnames'][i] in sig['outs'] and strip(x)['kind'] != 'DeclRefExpr':
                # out-parameter fed with NULL or a computed pointer: result is dropped
                outs.append('_'); args.append(self.expr(x))
            elif s['kind'] == 'UnaryOperator' and s['opcode'] == '&':
                raise TranslateError('address-of argument to external ' + fn)
            else:
                args.append(self.expr(x))
        if sig:
            for (xn, xt, origin) in sig['extra']:
                if origin[0] == 'ext':
                    xs.append(self.addx(xn, xt, origin))
                else:
                    kind, pn, suffix = origin
                    a = strip(argn[sig['pnames'].index(pn)])
                    if a['kind'] == 'DeclRefExpr' and a['referencedDecl']['name'] in self.local_arrays:
                        xs.append(a['referencedDecl']['name'] + suffix)
                        continue
                    ok = a['kind'] in ('DeclRefExpr', 'MemberExpr')
                    if ok:
                        try:
                            ok = self.root(a) in self.pnames
                        except TranslateError:
                            ok = False
                    if not ok:
                        nm = 'rd' + suffix
                        self.addx(nm, 'Nat → ' + xt, ('ext', nm))
                        xs.append(f'({nm} {self.expr(argn[sig["pnames"].index(pn)])})')
                        continue
                    xs.append(self.addx(self.member_path(a) + suffix, xt, ('field', self.root(a), self.member_path(a)[len(self.root(a)):] + suffix)))
        elif not fn.startswith('__builtin'):
            ps = [self.lty(dq(x)) for x in argn]
            rt = tu.clean(n['type'].get('desugaredQualType', n['type']['qualType']))
            if rt == 'void':
                raise TranslateError('void external %s in expression position' % fn)
            self.addx(fn, ' → '.join(ps + [self.lty(rt)]), ('ext', fn))
        if sig:
            if self.mem:
                xs = ['rd0', 'mem_out'] + xs
            if sig.get('explicit_in'):
                args = args + ['0' for _ in sig['outs']]
            if sig.get('eff'):
                self.tmp += 1
                et = f'e{self.tmp}'
                self.pre_eff.append(et)
                outs = outs + [et]
            if self.mem:
                outs = outs + ['mem_out']
        return ('(' + ' '.join([fn] + xs + args) + ')', outs)

    def cast(self, e, src, dst):
        if src == dst:
            return e
        if dst[0] == 'u':
            if dst[1] == 1:
                return f'(if {e} ≠ 0 then 1 else 0)'
            if src[0] == 'u' and src[1] <= dst[1]:
                return e
            if src[0] == 'u':
                return f'({e} % {2**dst[1]})'
            return f'(Int.toNat (({e}) % {2**dst[1]}))'
        else:
            if src[0] == 'u' and src[1] < dst[1]:
                return f'(({e} : Nat) : Int)'
            if src[0] == 'u':
                return f'(sw{dst[1]} (({e} : Nat) : Int))'
            return e if src[1] <= dst[1] else f'(sw{dst[1]} {e})'

    def cond(self, n):
        k = n['kind']
        if k == 'ParenExpr':
            return self.cond(n['inner'][0])
        if k == 'ImplicitCastExpr' and n.get('castKind') == 'IntegralCast':
            return self.cond(n['inner'][0])
        if k == 'CallExpr' and strip(n['inner'][0]).get('referencedDecl', {}).get('name') == '__builtin_expect':
            return self.cond(n['inner'][1])
        if k == 'UnaryOperator' and n['opcode'] == '!':
            inner = n['inner'][0]
            while inner['kind'] == 'ParenExpr':
                inner = inner['inner'][0]
            if inner['kind'] == 'UnaryOperator' and inner['opcode'] == '!':
                return self.cond(inner['inner'][0])
            return f'¬ ({self.cond(inner)})'
        if k == 'BinaryOperator' and n['opcode'] in ('<', '<=', '>', '>=', '==', '!='):
            l, r = n['inner']
            lop = {'==': '=', '!=': '≠', '<=': '≤', '>=': '≥'}.get(n['opcode'], n['opcode'])
            return f'{self.expr(l)} {lop} {self.expr(r)}'
        if k == 'BinaryOperator' and n['opcode'] in ('&&', '||'):
            a = self.cond(n['inner'][0])
            sv = self.pre; self.pre = []
            b = self.cond(n['inner'][1])
            hoisted = self.pre
            self.pre = sv
            if hoisted:
                raise TranslateError('call with out-parameters in short-circuit operand')
            return f'({a}) {"∧" if n["opcode"]=="&&" else "∨"} ({b})'
        return f'{self.expr(n)} ≠ 0'

    # ---- statements (continuation passing)
    def ret(self, e):
        outs = [o + '_out' for o in self.pnames if o in self.outs] + (['eff_out'] if self.eff else []) + (['mem_out'] if self.mem else [])
        if e is None:
            if not outs:
                return '()'
            return '(' + ', '.join(outs) + ')' if len(outs) != 1 else outs[0]
        return '(' + ', '.join([e] + outs) + ')' if outs else e

    def assign_target(self, l):
        while l['kind'] == 'ParenExpr':
            l = l['inner'][0]
        if l['kind'] == 'ArraySubscriptExpr':
            b = strip(l['inner'][0])
            if b['kind'] == 'DeclRefExpr' and b['referencedDecl']['name'] in self.local_arrays:
                try:
                    iv = self.tu.ceval(l['inner'][1])
                except Exception:
                    raise TranslateError('non-constant index into local array')
                return f'{b["referencedDecl"]["name"]}_{iv}'
        if l['kind'] == 'DeclRefExpr':
            if l['referencedDecl']['name'] not in self.locals and l['referencedDecl']['name'] not in self.pnames:
                raise TranslateError('assignment to global ' + l['referencedDecl']['name'])
            return l['referencedDecl']['name']
        if l['kind'] == 'UnaryOperator' and l['opcode'] == '*':
            b = strip(l['inner'][0])
            if b['kind'] == 'DeclRefExpr' and b['referencedDecl']['name'] in self.outs:
                return b['referencedDecl']['name'] + '_out'
        raise TranslateError('assign to ' + l['kind'])

    def stmts_join(self, ss, tup):
        self._join.append(tup)
        try:
            return self.stmts(ss)
        finally:
            self._join.pop()

    def store_effect(self, s):
        tu = self.tu
        l = s['inner'][0]
        while l['kind'] == 'ParenExpr':
            l = l['inner'][0]
        val = self.expr(s['inner'][1])
        if tu.bits(dq(s))[0] == 's' and l['kind'] != 'UnaryOperator':
            val = f'(Int.toNat (({val}) % {2**64}))'
        if l['kind'] == 'MemberExpr':
            b, fld = arrow_split(l)
            return f'let eff_out := eff_out ++ [("set:{fld}", [{self.expr(b)}, {val}])]\n'
        if l['kind'] == 'ArraySubscriptExpr':
            b, i = l['inner']
            sz = tu.pointee_size(tu.clean(dq(b)))
            addr = f'(({self.expr(b)} + {self.expr(i)} * {sz}) % {2**64})'
            return f'let eff_out := eff_out ++ [("store{sz*8}", [{addr}, {val}])]\n'
        b = strip(l['inner'][0])   # *f() = v   or   *local = v
        if b['kind'] == 'DeclRefExpr':
            sz = tu.pointee_size(tu.clean(dq(l['inner'][0])))
            return f'let eff_out := eff_out ++ [("store{sz*8}", [{self.expr(l["inner"][0])}, {val}])]\n'
        fn = self.callee_name(b)
        if tu.bits(dq(s))[0] == 's':
            val = f'(Int.toNat (({val}) % {2**32}))'
        return f'let eff_out := eff_out ++ [("store:{fn}", [{val}])]\n'

    def has_ret(self, n):
        if n is None:
            return False
        if n.get('kind') == 'ReturnStmt':
            return True
        return any(self.has_ret(x) for x in n.get('inner', []))

    def assigned_in(self, branches):
        """variables (incl. eff_out / mem_out / out-parameters) a statement list may assign, minus the ones it declares itself"""
        tu = self.tu
        vs = []
        def add(v):
            if v not in vs:
                vs.append(v)
        def assigned(n):
            if n is None:
                return
            k = n.get('kind')
            if (k == 'BinaryOperator' and n.get('opcode') == '=') or k == 'CompoundAssignOperator' or (k == 'UnaryOperator' and n.get('opcode') in ('++', '--')):
                try:
                    add(self.assign_target(n['inner'][0]))
                except TranslateError:
                    pass
            if self.is_mem_store(n):
                add('eff_out')
                def incs(m):         # `*p++ = *q++`: the pointers that move
                    if m.get('kind') == 'UnaryOperator' and m.get('opcode') in ('++', '--'):
                        try:
                            add(self.assign_target(m['inner'][0]))
                        except TranslateError:
                            pass
                    for x in m.get('inner', []):
                        incs(x)
                incs(n)
                return
            if self.mem and ((k in ('BinaryOperator', 'CompoundAssignOperator', 'UnaryOperator') and (n.get('opcode') in ('=', '++', '--') or k == 'CompoundAssignOperator') and self.lhs_member(n)) or (k == 'CallExpr' and self.callee_name(n) in tu.SIG)):
                add('mem_out')
            if k == 'CallExpr':
                cn = self.callee_name(n)
                sg = tu.SIG.get(cn)
                if sg and sg.get('eff'):
                    add('eff_out')
                if sg:
                    for i, a in enumerate(n['inner'][1:]):
                        a2 = strip(a)
                        if sg['pnames'][i] in sg['outs']:
                            if a2.get('kind') == 'UnaryOperator' and a2.get('opcode') == '&':
                                v = strip(a2['inner'][0])
                                if v.get('kind') == 'DeclRefExpr':
                                    add(v['referencedDecl']['name'])
                            elif a2.get('kind') == 'DeclRefExpr' and a2['referencedDecl']['name'] in self.pnames:
                                add(a2['referencedDecl']['name'] + '_out')
                if cn == '__builtin_umull_overflow':
                    a2 = strip(n['inner'][3])
                    if a2.get('kind') == 'UnaryOperator':
                        add(strip(a2['inner'][0])['referencedDecl']['name'])
                    else:
                        add(a2['referencedDecl']['name'] + '_out')
            if k in ('CompoundStmt', 'IfStmt'):
                for x in n.get('inner', []):
                    if self.is_eff_call(x):
                        add('eff_out')
            if k == 'CallExpr':
                for a in n['inner'][1:]:
                    a2 = strip(a)
                    if a2.get('kind') == 'DeclRefExpr' and a2['referencedDecl']['name'] in self.abs:
                        add(a2['referencedDecl']['name'] + '_out')
            for x in n.get('inner', []):
                assigned(x)
        for br in branches:
            assigned(br)
        for br in branches:
            if br is not None and self.is_eff_call(br):
                add('eff_out')
        decl = set()
        def declared(n):
            if n is None:
                return
            if n.get('kind') == 'VarDecl':
                decl.add(n['name'])
            for x in n.get('inner', []):
                declared(x)
        for br in branches:
            declared(br)
        vs = [v for v in vs if v not in decl]
        return vs

    def stmts(self, ss):
        tu = self.tu
        if not ss:
            if self._join:
                return self._join[-1]
            if self.void:
                return self.ret(None)
            raise TranslateError('control reaches end of non-void function')
        s = ss[0]; rest = ss[1:]; kd = s['kind']
        if kd == 'CompoundStmt':
            return self.stmts(s.get('inner', []) + rest)
        if kd == 'NullStmt':
            return self.stmts(rest)
        if kd == 'DeclStmt':
            out = ''
            for v in s['inner']:
                if v.get('kind') != 'VarDecl':
                    continue
                self.locals.add(v['name'])
                if v['name'] in self.local_arrays:
                    if 'inner' in v and v['inner']:
                        raise TranslateError('initialised local array')
                    for i in range(self.local_arrays[v['name']][1]):
                        out += f'let {v["name"]}_{i} := 0\n'
                        self.locals.add(f'{v["name"]}_{i}')
                    continue
                if 'inner' in v and v['inner'] and v['inner'][-1].get('kind') not in ('InitListExpr',):
                    e = self.expr(v['inner'][-1])
                    out += self.flush() + f'let {v["name"]} := {e}\n'
                elif 'inner' in v and v['inner']:
                    raise TranslateError('initialiser list')
                else:
                    out += f'let {v["name"]} := 0\n'
            return out + self.stmts(rest)
        if kd == 'ReturnStmt':
            if self._join:
                raise TranslateError('return inside join region')
            e = self.expr(s['inner'][0]) if s.get('inner') else None
            return self.flush() + self.ret(e)
        if kd == 'IfStmt':
            c = s['inner'][0]; th = s['inner'][1]; el = s['inner'][2] if len(s['inner']) > 2 else None
            cc = self.cond(c)
            pre = self.flush()
            if not self.has_ret(th) and not self.has_ret(el):
                vs = self.assigned_in([th, el])
                if vs:
                    tup = '(' + ', '.join(vs) + ')' if len(vs) > 1 else vs[0]
                    saved_locals = set(self.locals)
                    a = self.stmts_join([th], tup) if th is not None else tup
                    self.locals = set(saved_locals)
                    b = self.stmts_join([el], tup) if el is not None else tup
                    self.locals = saved_locals
                    return pre + f'let {tup} := (if {cc} then\n{ind(a)}\nelse\n{ind(b)})\n' + self.stmts(rest)
                else:
                    return pre + self.stmts(rest)
            if self._join:
                raise TranslateError('return inside join region')
            saved_locals = set(self.locals)
            a = self.stmts([th] + rest)
            self.locals = set(saved_locals)
            b = self.stmts([el] + rest) if el else self.stmts(rest)
            return pre + f'if {cc} then\n{ind(a)}\nelse\n{ind(b)}'
        if kd == 'ForStmt':
            # `for (init; c; inc) body` = `init; while (c) { body; inc; }` (a `continue` in the body is refused by the while rule)
            init, _condvar, c, inc, body = (s['inner'] + [None] * 5)[:5]
            if c is None or not c:
                raise TranslateError('for loop without condition')
            wbody = {'kind': 'CompoundStmt', 'inner': [x for x in (body, inc) if x]}
            w = {'kind': 'WhileStmt', 'inner': [c, wbody]}
            return self.stmts(([init] if init else []) + [w] + rest)
        if kd == 'WhileStmt':
            # `while (c) body` (no return / break / continue / goto inside; `c` without side effects): the variables the body assigns are
            # the loop state; the loop is `whileN fuel cond step state` (Gen/Prelude.lean) with fuel 2^64 - more iterations than any
            # loop over a size_t counter can make
            c = s['inner'][0]; body = s['inner'][1]
            def jumps(n):
                if n is None:
                    return False
                if n.get('kind') in ('ReturnStmt', 'BreakStmt', 'ContinueStmt', 'GotoStmt'):
                    return True
                return any(jumps(x) for x in n.get('inner', []))
            if jumps(body):
                raise TranslateError('jump inside while loop')
            vs = self.assigned_in([body])
            if not vs:
                raise TranslateError('while loop without state')
            if self.pre:
                raise TranslateError('pending effects before while')
            saved_locals = set(self.locals)
            cc = self.cond(c)
            if self.pre:
                raise TranslateError('while condition with side effects')
            tup = '(' + ', '.join(vs) + ')' if len(vs) > 1 else vs[0]
            def proj(i):
                if len(vs) == 1:
                    return 'st_'
                return 'st_' + '.2' * i + ('.1' if i < len(vs) - 1 else '')
            unpack = ''.join(f'let {v} := {proj(i)}\n' for i, v in enumerate(vs))
            b = self.stmts_join([body], tup)
            self.locals = saved_locals
            loop = f'whileN {2**64} (fun st_ =>\n{ind(unpack + "decide (" + cc + ")")}) (fun st_ =>\n{ind(unpack + b)}) {tup}'
            if len(vs) == 1:
                return f'let {vs[0]} := {loop}\n' + self.stmts(rest)
            # the result is taken apart with projections, not with a tuple pattern: a `match` on the loop makes the kernel unfold
            # `whileN` on its literal fuel whenever it has to compare two forms of the term (2^64 levels deep)
            self.tmp += 1
            lp = f'lp{self.tmp}_'
            def rproj(i):
                return lp + '.2' * i + ('.1' if i < len(vs) - 1 else '')
            return f'let {lp} := {loop}\n' + ''.join(f'let {v} := {rproj(i)}\n' for i, v in enumerate(vs)) + self.stmts(rest)
        if kd == 'UnaryOperator' and s['opcode'] in ('--', '++') and self.lhs_member(s):
            self.expr(s)
            return self.flush() + self.stmts(rest)
        if kd == 'UnaryOperator' and s['opcode'] in ('--', '++'):
            v = self.assign_target(s['inner'][0]); t = tu.bits(dq(s))
            if tu.clean(dq(s)).endswith('*'):
                sz = tu.pointee_size(tu.clean(dq(s)))
                e = f'(({v} + {sz}) % {2**64})' if s['opcode'] == '++' else f'(({v} + {2**64} - {sz}) % {2**64})'
            else:
                e = self.norm(f'({v} + {2**t[1]} - 1)' if s['opcode'] == '--' else f'({v} + 1)', t) if t[0] == 'u' else self.norm(f'({v} - 1)' if s['opcode'] == '--' else f'({v} + 1)', t)
            return f'let {v} := {e}\n' + self.stmts(rest)
        if kd in ('BinaryOperator', 'CompoundAssignOperator') and (s.get('opcode') == '=' or kd == 'CompoundAssignOperator') and self.lhs_member(s):
            b, fld = self.lhs_member(s)
            be = self.expr(b)
            if kd == 'CompoundAssignOperator':
                fake = {'kind': 'BinaryOperator', 'opcode': s['opcode'][:-1], 'type': s['type'], 'inner': s['inner']}
                val = self.expr(fake)
            else:
                val = self.expr(s['inner'][1])
            return self.flush() + f'let mem_out := wrm mem_out "{fld}" {be} {val}\n' + self.stmts(rest)
        if kd == 'BinaryOperator' and s['opcode'] == '=' and self.is_mem_store(s):
            l0 = s['inner'][0]
            while l0['kind'] == 'ParenExpr':
                l0 = l0['inner'][0]
            d0 = strip(l0['inner'][0]) if l0['kind'] == 'UnaryOperator' and l0.get('opcode') == '*' else None
            if d0 is not None and d0.get('kind') == 'UnaryOperator' and d0.get('opcode') == '++' and d0.get('isPostfix'):
                # `*D++ = E;` with E free of side effects or of the form `*S++`: store at D, then advance D (and S)
                dref = strip(d0['inner'][0]); dn = self.assign_target(dref)
                dsz = tu.pointee_size(tu.clean(dq(dref)))
                r0 = strip(s['inner'][1]); post = ''
                if r0.get('kind') == 'UnaryOperator' and r0.get('opcode') == '*' and strip(r0['inner'][0]).get('kind') == 'UnaryOperator' and strip(r0['inner'][0]).get('opcode') == '++' and strip(r0['inner'][0]).get('isPostfix'):
                    sref = strip(strip(r0['inner'][0])['inner'][0]); sn = self.assign_target(sref)
                    ssz = tu.pointee_size(tu.clean(dq(sref)))
                    fake = dict(r0); fake['inner'] = [sref]
                    val = self.expr(fake)
                    post = f'let {sn} := (({sn} + {ssz}) % {2**64})\n'
                else:
                    val = self.expr(s['inner'][1])
                if tu.bits(dq(s))[0] == 's':
                    val = f'(Int.toNat (({val}) % {2**(8*dsz)}))'
                return (self.flush() + f'let eff_out := eff_out ++ [("store{dsz*8}", [{dn}, {val}])]\n' + f'let {dn} := (({dn} + {dsz}) % {2**64})\n' + post + self.stmts(rest))
            e = self.store_effect(s)
            return self.flush() + e + self.stmts(rest)
        if kd == 'BinaryOperator' and s['opcode'] == '=':
            v = self.assign_target(s['inner'][0])
            e = self.expr(s["inner"][1])
            return self.flush() + f'let {v} := {e}\n' + self.stmts(rest)
        if kd == 'CompoundAssignOperator':
            v = self.assign_target(s['inner'][0]); op = s['opcode'][:-1]
            fake = {'kind': 'BinaryOperator', 'opcode': op, 'type': s['type'], 'inner': s['inner']}
            # compound assignment computes in the promoted type and converts back
            ct = s.get('computeResultType', s['type'])
            fake['type'] = ct
            e = self.expr(fake)
            e = self.cast(e, tu.bits(ct.get('desugaredQualType', ct['qualType'])), tu.bits(dq(s)))
            return self.flush() + f'let {v} := {e}\n' + self.stmts(rest)
        if kd in ('ParenExpr', 'ConditionalOperator', 'CStyleCastExpr'):
            return self.stmts(rest)   # asserts, (void)x
        if kd == 'CallExpr':
            fn = self.callee_name(s)
            if self.ignored(fn):
                return self.stmts(rest)
            if fn == '_mi_error_message':
                return self.flush() + f'let eff_out := eff_out ++ [("_mi_error_message", [{self.expr(s["inner"][1])}])]\n' + self.stmts(rest)
            if fn in self.translated:
                sig = tu.SIG.get(fn)
                if sig is None:
                    raise TranslateError('callee %s failed to translate' % fn)
                e, outs = self.call(s)
                if not outs and not sig.get('void'):
                    return self.stmts(rest)     # pure call, value discarded
                if not outs:
                    return self.stmts(rest)
                self.tmp += 1
                names = ([] if sig.get('void') else [f'_r{self.tmp}']) + outs
                pat = '(' + ', '.join(names) + ')' if len(names) > 1 else names[0]
                pre = ''.join(self.pre); self.pre = []
                return pre + f'let {pat} := {e}\n' + self.flush() + self.stmts(rest)
            if self.is_eff_call(s):
                args = []
                for a in s['inner'][1:]:
                    ea = self.expr(a)
                    if self.tu.bits(dq(a))[0] == 's':
                        ea = f'(Int.toNat (({ea}) % {2**64}))'
                    args.append(ea)
                return self.flush() + f'let eff_out := eff_out ++ [("{fn}", [{", ".join(args)}])]\n' + self.stmts(rest)
            tgt = [strip(a)['referencedDecl']['name'] for a in s['inner'][1:] if strip(a).get('kind') == 'DeclRefExpr' and strip(a)['referencedDecl']['name'] in self.abs]
            if len(tgt) == 1:
                others = [a for a in s['inner'][1:] if not (strip(a).get('kind') == 'DeclRefExpr' and strip(a)['referencedDecl']['name'] in self.abs)]
                args = [self.expr(a) for a in others]
                ty = ' → '.join([self.lty(dq(a)) for a in others] + [self.abs[tgt[0]]])
                self.addx(fn, ty, ('ext', fn))
                return self.flush() + f'let {tgt[0]}_out := ' + ('(' + ' '.join([fn] + args) + ')' if args else fn) + '\n' + self.stmts(rest)
            raise TranslateError('call statement ' + fn)
        raise TranslateError('stmt ' + kd)

    def emit(self):
        tu = self.tu
        f = self.f
        body = [c for c in f['inner'] if c['kind'] == 'CompoundStmt'][0]
        rt = tu.clean(f['type'].get('desugaredQualType', f['type']['qualType']).split('(')[0])
        self.void = (rt == 'void')
        for p in self.params:
            self.locals.add(p['name'])
        bodys_main = self.stmts([body])
        ins = []
        b = []
        for o in [p for p in self.pnames if p in self.outs]:
            if o in self.abs:
                b.append(f'let {o}_out := {o}_in')
            elif self.explicit_in:
                b.append(f'let {o}_out := {o}_in')
                ins.append(f'({o}_in : Nat)')
            else:
                b.append(f'let {o}_out := 0')
        if self.eff:
            b.append('let eff_out : List (String × List Nat) := []')
        if self.mem:
            b.append('let mem_out := mem_in')
        bodys = '\n'.join(b + [bodys_main])
        ps = ' '.join(f'({p["name"]} : {self.lty(dq(p))})' for p in self.params)
        xs = ' '.join(f'({n} : {t})' for n, t, _ in self.extra)
        if self.mem:
            xs = ('(rd0 : String → Nat → Nat) (mem_in : Mem) ' + xs).strip()
        tu.SIG[f['name']] = {'void': self.void, 'pnames': self.pnames, 'outs': [o for o in self.pnames if o in self.outs],
                             'extra': list(self.extra), 'eff': self.eff, 'explicit_in': self.explicit_in and bool(ins),
                             'ret': None if self.void else self.lty(rt)}
        outt = []
        for p in self.params:
            if p['name'] in self.outs:
                if p['name'] in self.abs:
                    outt.append(self.abs[p['name']])
                else:
                    pt = tu.clean(dq(p))
                    outt.append(self.lty(pt[:-1].strip()) if pt.endswith('*') else 'Nat')
        tv = ' '.join('{' + v + ' : Type}' for v in self.abs.values())
        xs = (tv + ' ' + xs + ' ' + ' '.join(f'({o}_in : {self.abs[o]})' for o in self.abs)).strip()
        rts = ([] if self.void else [self.lty(rt)]) + outt + (['List (String × List Nat)'] if self.eff else []) + (['Mem'] if self.mem else [])
        if not rts:
            rts = ['Unit']
        sigline = ' '.join(x for x in [f['name'], xs, ps, ' '.join(ins)] if x)
        return f'def {sigline} : {" × ".join(rts)} :=\n' + ind(bodys)


def extract_guard(tu, fname, idents, then_shape='return', allow_extra=False, then_any=False, index=None):
    """Guard extraction: the condition of the unique IfStmt in `fname` whose condition mentions exactly the
    identifier set `idents` and whose then-branch is a (bare) return; emitted as a Bool-valued Lean def whose
    parameters are the identifiers (Int for signed, Nat for unsigned)."""
    f = tu.FNS.get(fname)
    if f is None:
        raise TranslateError('guard: function %s not found' % fname)
    found = []
    def ids(n, acc):
        if n.get('kind') == 'DeclRefExpr' and n['referencedDecl'].get('kind') in ('VarDecl', 'ParmVarDecl'):
            acc[n['referencedDecl']['name']] = dq(n)
        for c in n.get('inner', []):
            ids(c, acc)
        return acc
    def is_ret(n):
        if n.get('kind') == 'ReturnStmt':
            return True
        if n.get('kind') == 'CompoundStmt' and len(n.get('inner', [])) == 1:
            return is_ret(n['inner'][0])
        return False
    def walk(n):
        if n.get('kind') == 'IfStmt':
            acc = ids(n['inner'][0], {})
            if set(acc) == set(idents) and (then_any or is_ret(n['inner'][1])):
                found.append((n, acc))
        for c in n.get('inner', []):
            walk(c)
    walk(f)
    if index is not None:
        if index >= len(found):
            raise TranslateError('guard: only %d matching if-statements in %s for %s (wanted #%d)' % (len(found), fname, sorted(idents), index))
        found = [found[index]]
    if len(found) != 1:
        raise TranslateError('guard: %d matching if-statements in %s for %s' % (len(found), fname, sorted(idents)))
    n, acc = found[0]
    fn = Fn(tu, {'kind': 'FunctionDecl', 'name': 'guard', 'inner': [], 'type': {'qualType': 'void (void)'}}, set())
    fn.pnames = list(idents)
    fn.locals = set(idents)
    c = fn.cond(json.loads(json.dumps(n['inner'][0])))
    if fn.extra and not allow_extra:
        raise TranslateError('guard condition of %s is not closed over %s' % (fname, sorted(idents)))
    ps = ' '.join(f'({i} : {fn.lty(acc[i])})' for i in idents if not (allow_extra and i in [e[2][1] if isinstance(e[2], tuple) and len(e[2]) > 1 else None for e in fn.extra]))
    if allow_extra:
        ps = ' '.join(f'({i} : {fn.lty(acc[i])})' for i in idents) + ''.join(' (%s : %s)' % (e[0], fn.lty(e[1]) if isinstance(e[1], str) and '→' not in e[1] and e[1] not in ('Nat', 'Int') else e[1]) for e in fn.extra)
    return ps, c
