"""C16 — size-class and address arithmetic (T1: theorems over regenerated definitions + translator validation)."""
import os, json
import vcommon as V

TRUSTED = ['Lean 4 kernel', 'translator extract/translate.py + clang-14 AST (validated against the compiled functions on every run)',
           'semantics assumed for __builtin_clzl/__builtin_ctzl/__builtin_umull_overflow (Gen/Prelude.lean)',
           'gcc compiles the C functions as the C standard says']

def trval(chk, d, flags=V.RELEASE, nrand=3000, tag='release'):
    """translator validation: compiled C vs generated Lean on the same inputs"""
    ok, exe, log = V.build_driver()
    if not ok:
        chk.broken_tie('lean driver does not build (generated signatures changed?)', log[-1500:])
        return False
    h = os.path.join(d, 'trval_' + tag)
    ok, log = V.cc_harness(os.path.join(V.HARNESS, 'trval.c'), h, flags=list(flags) + ['-DVERIF_STATIC_C="%s/src/static.c"' % V.REPO])
    if not ok:
        chk.broken_tie('translator-validation harness does not compile against the current tree', log[-1500:])
        return False
    rc, out, err = V.run([h, str(chk.seed), str(nrand), '1'], timeout=600)
    if rc != 0:
        chk.broken_tie('translator-validation harness crashed', (out[-300:] + err[-300:]))
        return False
    rc2, out2, err2 = V.run([exe, 'trval'], input=out, timeout=900)
    summary = [l for l in out2.splitlines() if l.startswith('trval cases')]
    diffs = [l for l in out2.splitlines() if l.startswith('DIFF') or l.startswith('UNPARSED')]
    if summary:
        n = int(summary[0].split()[2]); chk.count(n)
        chk.extra['translator_validation_cases'] = chk.extra.get('translator_validation_cases', 0) + n
        per = [l for l in out2.splitlines() if l.startswith('trval perfn')]
        if per:
            chk.extra['translator_validation_per_function'] = per[0][len('trval perfn '):]
    if rc2 != 0 or diffs or not summary:
        chk.broken_tie('translator validation: generated Lean and compiled C disagree', '\n'.join(diffs[:10]) or (out2[-500:] + err2[-500:]))
        return False
    lines = out.splitlines()
    for l in lines[5:8]:
        chk.sample('trval: ' + l)
    chk.log('translator validation: %s' % summary[0])
    return True

def oracle(chk, d):
    h = os.path.join(d, 'c16_oracle')
    ok, log = V.cc_harness(os.path.join(V.HARNESS, 'c16_oracle.c'), h, flags=list(V.RELEASE) + ['-DVERIF_STATIC_C="%s/src/static.c"' % V.REPO])
    if not ok:
        chk.broken_tie('C16 oracle does not compile against the current tree', log[-1500:]); return
    rc, out, err = V.run([h, str(chk.seed), '1' if chk.tier == 'thorough' else '0'], timeout=1200)
    if rc != 0 or 'DONE' not in out:
        chk.violation('C16/oracle-crash', 'the arithmetic oracle crashed (exit %d): %s' % (rc, (out[-200:] + err[-200:]).replace('\n', ' ')), {'cmd': 'harness/c16_oracle %d' % chk.seed})
        return
    st = {}
    for l in out.splitlines():
        p = l.split()
        if p[0] == 'STAT':
            st[p[1]] = int(p[2]); chk.count(int(p[2]))
        elif p[0] == 'FAIL':
            chk.violation('C16/' + p[1], 'compiled function violates %s: %s' % (p[1], ' '.join(p[2:])),
                          {'statement': p[1], 'input': ' '.join(p[2:]), 'how_to_run': 'compile harness/c16_oracle.c with -DVERIF_STATIC_C=\\"/repo/src/static.c\\" and run it'})
    chk.extra['oracle_domains'] = st
    chk.extra['exhaustive'] = True
    chk.cov['distinct_nontrivial'] = sum(st.values())
    chk.sample('oracle: every size 0..2*MI_MEDIUM_OBJ_SIZE_MAX+64 through mi_bin/_mi_bin_size/mi_good_size; all bins x 3 page starts x 6 indices x 6 offsets through _mi_page_ptr_unalign')
    chk.log('oracle domains', st)

def run(chk):
    chk.trusted = TRUSTED
    chk.assumptions = ['release configuration (-DNDEBUG -DMI_BUILD_RELEASE) of src/static.c on x86-64 LP64', 'OS page size is a power of two between 4 KiB and 1 GiB']
    chk.extra['rule'] = ('obligations = theorems of MiVerif/Props/C16.lean over definitions regenerated from the source; evaluations = translator-validation cases '
                         '(compiled C vs generated Lean) + oracle evaluations of the compiled functions; every input is distinct by construction of the enumeration')
    chk.lean('MiVerif.Props.C16', groups=['Arith', 'Tables'])
    with V.Scratch() as d:
        trval(chk, d)
        oracle(chk, d)
