import MiVerif.Gen.Loops
/- translator validation for the loop translation (C07 / C13): replays the `CM` lines of `harness/c07 cmask` (the real
   mi_commit_mask_create: start bit, length -> the eight 64-bit fields) through the regenerated function; its stores are applied to
   the emptied (or filled) mask -/
namespace C07cmVal

def base : Nat := 4096

def apply (m : List Nat) (eff : List (String × List Nat)) : List Nat :=
  eff.foldl (fun m c => match c with
    | ("store64", [a, v]) => m.set ((a - base) / 8) v
    | _ => m) m

partial def loop (h : IO.FS.Stream) (n d : Nat) : IO (Nat × Nat) := do
  let line ← h.getLine
  if line.isEmpty then return (n, d)
  let line := line.trimAscii.toString
  let ws := (line.splitOn " ").filter (· ≠ "")
  match ws with
  | "CM" :: bitidx :: bitcount :: "->" :: rest =>
    -- the two mask constructors the function calls are oracles: 1 = "all ones", 0 = "all zeros"; 2 = what was there before
    let r := GenL.mi_commit_mask_create (1 : Nat) 0 2 bitidx.toNat! bitcount.toNat! base
    let start : List Nat := if r.1 == 1 then List.replicate 8 18446744073709551615 else if r.1 == 0 then List.replicate 8 0 else List.replicate 8 6510615555426900570
    let got := apply start r.2
    let ok := got == rest.map String.toNat!
    if !ok && d < 20 then IO.println s!"DIFF {line} || generated: {got}"
    loop h (n + 1) (if ok then d else d + 1)
  | "CS" :: total :: rest =>
    let ws := (rest.takeWhile (· ≠ "->")).map String.toNat!
    let want := ((rest.dropWhile (· ≠ "->")).drop 1).map String.toNat!
    let r := GenL._mi_commit_mask_committed_size (fun a => ws.getD ((a - base) / 8) 0) base total.toNat!
    let ok := want == [r]
    if !ok && d < 20 then IO.println s!"DIFF {line} || generated: {r}"
    loop h (n + 1) (if ok then d else d + 1)
  | _ => loop h n d

def main (stdin : IO.FS.Stream) : IO UInt32 := do
  let (n, d) ← loop stdin 0 0
  IO.println s!"c07cmval cases {n} differences {d}"
  return (if d == 0 then 0 else 1)

end C07cmVal
