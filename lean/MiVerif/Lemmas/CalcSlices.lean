/- `mi_segment_calculate_slices` as regenerated from src/segment.c (`Gen`): how many slices a segment gets and how many of them hold
   the segment header.  Helper lemmas for Props/C01. -/
import MiVerif.Gen.Arith
import MiVerif.Lemmas.C16Basic
import MiVerif.Lemmas.OsGood

namespace CalcSlicesL
open Gen

/-- the header (`sizeof(mi_segment_t)` = 49536 in this configuration) rounded up to pages stays within one 64 KiB slice when the
    page size divides 64 KiB -/
theorem header_pages (ps : Nat) (hps : 0 < ps) (hd : ps ∣ 65536) :
    49536 ≤ (49536 + ps - 1) / ps * ps ∧ (49536 + ps - 1) / ps * ps ≤ 65536 := by
  obtain ⟨f1, _, _⟩ := OsGoodL.roundup_facts 49536 ps hps
  refine ⟨f1, ?_⟩
  obtain ⟨m, hm⟩ := hd
  have hle : (49536 + ps - 1) / ps ≤ (65536 + ps - 1) / ps := Nat.div_le_div_right (by omega)
  have hm' : (65536 + ps - 1) / ps = m := by
    have h1 : 65536 + ps - 1 = (ps - 1) + ps * m := by omega
    rw [h1, Nat.add_mul_div_left _ _ hps, Nat.div_eq_of_lt (by omega)]; omega
  rw [hm'] at hle
  calc (49536 + ps - 1) / ps * ps ≤ m * ps := Nat.mul_le_mul_right ps hle
    _ = 65536 := by rw [Nat.mul_comm]; exact hm.symm

theorem calc_eq (ps required : Nat) (hps : 0 < ps) (hd : ps ∣ 65536) (hr : required < 2^62) :
    mi_segment_calculate_slices ps required 1
      = ((if required = 0 then 33554432 else (required + 65536 + 65536 - 1) / 65536 * 65536) / 65536, 1) := by
  have e62 : (2:Nat)^62 = 4611686018427387904 := by decide
  have e64 : (2:Nat)^64 = 18446744073709551616 := by decide
  rw [e62] at hr
  have hps2 : ps ≤ 65536 := Nat.le_of_dvd (by decide) hd
  obtain ⟨h1, h2⟩ := header_pages ps hps hd
  have a1 : _mi_align_up 49536 ps = (49536 + ps - 1) / ps * ps := C16L.align_up_eq 49536 ps hps (by rw [e64]; omega)
  have a2 : _mi_align_up ((49536 + ps - 1) / ps * ps % 18446744073709551616) 65536 = 65536 := by
    rw [Nat.mod_eq_of_lt (by omega), C16L.align_up_eq _ 65536 (by decide) (by rw [e64]; omega)]
    omega
  unfold mi_segment_calculate_slices
  simp only [a1, a2, Nat.lt_irrefl, if_false, Nat.add_zero, ne_eq, Nat.succ_ne_zero, not_false_eq_true, if_true]
  by_cases h0 : required = 0
  · rw [if_pos h0, if_pos h0]
  · rw [if_neg h0, if_neg h0, Nat.mod_mod, Nat.mod_eq_of_lt (a := required + 65536) (by omega),
        C16L.align_up_eq _ 65536 (by decide) (by rw [e64]; omega)]

end CalcSlicesL
