import MiVerif.Model.Abandon
/-! executable validator for the hand-over model, proved sound w.r.t. the `Step` relation -/
inductive Lbl where
  | markStore (t : Nat) | markOr (t : Nat) | markInc | clearAnd (t : Nat) | clearMiss
  | remark (t : Nat) | clearDec (t : Nat) | clearOwn (t : Nat) | reMarkStore (t : Nat) | ownAgain (t : Nat)
deriving Repr

def exec (s : St) : Lbl → Option St
  | .markStore t => if s.owner = t ∧ t ≠ 0 then some { s with owner := 0, fl := .m1 t :: s.fl } else none
  | .markOr t    => if .m1 t ∈ s.fl then some { s with bit := true, fl := .m2 :: s.fl.erase (.m1 t) } else none
  | .markInc     => if .m2 ∈ s.fl then some { s with cnt := s.cnt + 1, fl := s.fl.erase .m2 } else none
  | .clearAnd t  => if s.bit = true ∧ t ≠ 0 then some { s with bit := false, fl := .c1 t :: s.fl } else none
  | .clearMiss   => if s.bit = false then some s else none
  | .remark t    => if .c1 t ∈ s.fl then some { s with bit := true, fl := s.fl.erase (.c1 t) } else none
  | .clearDec t  => if .c1 t ∈ s.fl then some { s with cnt := s.cnt - 1, fl := .c2 t :: s.fl.erase (.c1 t) } else none
  | .clearOwn t  => if .c2 t ∈ s.fl then some { s with owner := t, fl := s.fl.erase (.c2 t) } else none
  | .reMarkStore t => if .c2 t ∈ s.fl then some { s with fl := .m1 t :: s.fl.erase (.c2 t) } else none
  | .ownAgain t  => if s.owner = t then some s else none

theorem exec_sound {s s' : St} {l : Lbl} (h : exec s l = some s') : Step s s' := by
  cases l with
  | markStore t =>
    simp only [exec] at h
    split at h
    · rename_i hc; cases h; exact Step.markStore s t hc.1 hc.2
    · cases h
  | markOr t =>
    simp only [exec] at h
    split at h
    · rename_i hc; cases h; exact Step.markOr s t hc
    · cases h
  | markInc =>
    simp only [exec] at h
    split at h
    · rename_i hc; cases h; exact Step.markInc s hc
    · cases h
  | clearAnd t =>
    simp only [exec] at h
    split at h
    · rename_i hc; cases h; exact Step.clearAnd s t hc.1 hc.2
    · cases h
  | clearMiss =>
    simp only [exec] at h
    split at h
    · rename_i hc; cases h; exact Step.clearMiss s hc
    · cases h
  | remark t =>
    simp only [exec] at h
    split at h
    · rename_i hc; cases h; exact Step.remark s t hc
    · cases h
  | clearDec t =>
    simp only [exec] at h
    split at h
    · rename_i hc; cases h; exact Step.clearDec s t hc
    · cases h
  | clearOwn t =>
    simp only [exec] at h
    split at h
    · rename_i hc; cases h; exact Step.clearOwn s t hc
    · cases h
  | reMarkStore t =>
    simp only [exec] at h
    split at h
    · rename_i hc; cases h; exact Step.reMarkStore s t hc
    · cases h
  | ownAgain t =>
    simp only [exec] at h
    split at h
    · rename_i hc; cases h; exact Step.ownAgain s t hc
    · cases h

def run (s : St) : List Lbl → Option St
  | [] => some s
  | l :: ls => match exec s l with
    | some s' => run s' ls
    | none => none

/-- every state reached by an accepted log satisfies the invariant (hence `single_adopter`) -/
theorem run_inv {s s' : St} {ls : List Lbl} (hi : AInv s) (h : run s ls = some s') : AInv s' := by
  induction ls generalizing s with
  | nil => simp [run] at h; subst h; exact hi
  | cons l ls ih =>
    simp only [run] at h
    cases he : exec s l with
    | none => simp [he] at h
    | some s1 => rw [he] at h; exact ih (inv_step hi (exec_sound he)) h

-- a log as the scheduler would produce it: t7 abandons; t9 and t8 race for the clear; t9 wins
#eval (run { owner := 7, bit := false, cnt := 0, fl := [] }
  [.markStore 7, .markOr 7, .clearAnd 9, .clearMiss, .clearDec 9, .markInc, .clearOwn 9]).map (fun s => (s.owner, s.bit, s.cnt))
-- a log the model rejects: two successful clears of one mark
#eval (run { owner := 7, bit := false, cnt := 0, fl := [] }
  [.markStore 7, .markOr 7, .clearAnd 9, .clearAnd 8]).isSome
#print axioms run_inv
