"""shared by the T3 checks (C02, C08, C09, C10): delayed-free trace validation and scheduler stress runs"""
import os
import vcommon as V

def delayed_traces(chk, d, nseeds, threads=(3, 4), builds=(('dbg', ('-DMI_DEBUG=3',)), ('rel', V.RELEASE))):
    """runs harness/t3_delayed.c under the scheduler and validates every log against Model.Delayed"""
    ok, exe, log = V.build_driver()
    if not ok:
        chk.broken_tie('lean driver does not build', log[-1500:]); return
    accepted = skipped = 0
    samples = []
    for tag, flags in builds:
        h = os.path.join(d, 't3_delayed_' + tag)
        ok, log = V.cc_harness(os.path.join(V.HARNESS, 't3_delayed.c'), h, flags=V.hooked_flags(flags))
        if not ok:
            chk.broken_tie('t3_delayed harness (%s) does not compile against the current tree' % tag, log[-1500:]); continue
        runs = []
        for i in range(nseeds):
            sd = chk.seed * 1000 + i
            nth = threads[i % len(threads)]
            sp = (0, 20, 40)[i % 3]
            stay = (0, 50, 90)[(i // 3) % 3]
            runs.append((sd, nth, sp, stay))
        outs = V.pmap([([h, str(sd), str(nth), '0', str(sp), str(stay)], None, 120) for sd, nth, sp, stay in runs])
        vals = V.pmap([([exe, 'delayed'], o[1], 300) for o in outs])
        for (sd, nth, sp, stay), (rc, out, err), (rc2, out2, err2) in zip(runs, outs, vals):
            chk.count()
            args = {'harness': 't3_delayed', 'build': tag, 'seed': sd, 'threads': nth, 'spurious_pct': sp, 'stay_pct': stay,
                    'how_to_run': 'gcc -I/repo/include -Iharness %s harness/t3_delayed.c; ./a.out %d %d 0 %d %d | lean/.lake/build/bin/midriver delayed' % (' '.join(flags), sd, nth, sp, stay)}
            fails = [l for l in out.splitlines() if l.startswith('FAIL')]
            if rc != 0 or 'done points' not in out:
                chk.violation('%s/t3_delayed-crash' % chk.pid, 'allocator crashed / asserted under schedule seed %d (%s build): %s' % (sd, tag, (err or out)[-300:].replace('\n', ' ')), args)
                continue
            for f in fails:
                key = f.split()[1]
                chk.violation('%s/%s' % (chk.pid, key), 'schedule seed %d (%s build, %d threads): %s' % (sd, tag, nth, f), args)
            if rc2 == 0:
                accepted += 1
                chk.distinct(('trace', out))
                if len(samples) < 2:
                    samples.append({'schedule_seed': sd, 'build': tag, 'threads': nth, 'validator': out2.strip().splitlines()[-1][:160], 'first_events': out.splitlines()[2:10]})
            elif rc2 == 3:
                skipped += 1
            else:
                msg = (out2.strip().splitlines() or ['?'])[-1][:400]
                chk.broken_tie('trace validation (Model.Delayed vs hooked allocator): log of seed %d (%s, %d threads) is not a model execution' % (sd, tag, nth), msg + ' | ' + str(args))
    chk.extra['traces_validated_against_impl'] = chk.extra.get('traces_validated_against_impl', 0) + accepted
    chk.extra['traces_outside_model_skipped'] = chk.extra.get('traces_outside_model_skipped', 0) + skipped
    for s in samples:
        chk.sample(s)
    chk.log('delayed-free traces: %d accepted, %d skipped (page extension)' % (accepted, skipped))
    if accepted == 0 and not chk.broken:
        chk.broken_tie('trace validation', 'no trace was validated')

def stress(chk, d, nseeds, modes, ops=200, builds=(('dbg', ('-DMI_DEBUG=3',)), ('rel', V.RELEASE)), keys=None):
    total = 0
    for tag, flags in builds:
        h = os.path.join(d, 't3_stress_' + tag)
        ok, log = V.cc_harness(os.path.join(V.HARNESS, 't3_stress.c'), h, flags=V.hooked_flags(flags))
        if not ok:
            chk.broken_tie('t3_stress harness (%s) does not compile against the current tree' % tag, log[-1500:]); continue
        runs = []
        for i in range(nseeds):
            for m in modes:
                sd = chk.seed * 1000 + i
                runs.append((sd, 3 + (i % 2), m, (0, 20)[i % 2], (0, 50, 90, 99)[i % 4]))
        outs = V.pmap([([h, str(sd), str(nth), str(ops), str(m), str(sp), str(stay)], None, 300) for sd, nth, m, sp, stay in runs])
        for (sd, nth, m, sp, stay), (rc, out, err) in zip(runs, outs):
            chk.count(); total += 1
            args = {'harness': 't3_stress', 'build': tag, 'seed': sd, 'threads': nth, 'ops': ops, 'mode': m, 'spurious_pct': sp, 'stay_pct': stay,
                    'how_to_run': 'gcc -I/repo/include -Iharness %s harness/t3_stress.c; ./a.out %d %d %d %d %d %d' % (' '.join(flags), sd, nth, ops, m, sp, stay)}
            if rc != 0 or 'DONE' not in out:
                chk.violation('%s/t3_stress-crash' % chk.pid, 'allocator crashed / asserted under schedule seed %d mode %d (%s build): %s' % (sd, m, tag, (err or out)[-300:].replace('\n', ' ')), args)
                continue
            for f in [l for l in out.splitlines() if l.startswith('FAIL')]:
                key = f.split()[1]
                if keys is None or key in keys:
                    chk.violation('%s/%s' % (chk.pid, key), 'schedule seed %d mode %d (%s build, %d threads): %s' % (sd, m, tag, nth, f), args)
            st = dict((l.split()[1], int(l.split()[2])) for l in out.splitlines() if l.startswith('STAT'))
            chk.distinct(('stress', tag, sd, m, st.get('points')))
            for k, v in st.items():
                chk.extra['stress_' + k] = chk.extra.get('stress_' + k, 0) + v
    chk.log('scheduler stress runs: %d' % total)
