import MiVerif.Lemmas.ExtendLoop
/- translator validation for the loop translation (C01): replays the `EXT` lines of `harness/c01 ext` (the real
   mi_page_free_list_extend: area, capacity, block size, count, old list head -> the new chain | what follows it) through the
   regenerated function, whose stores are interpreted by `ExtendL.freeAfter` / `ExtendL.nextAfter` (the definitions the theorems use) -/
namespace C01extVal

def chain (eff : ExtendL.Eff) : Nat → Option Nat → List Nat × Option Nat
  | 0, cur => ([], cur)
  | n + 1, cur =>
    match cur with
    | none => ([], none)
    | some a => let r := chain eff n (ExtendL.nextAfter eff 1 a); (a :: r.1, r.2)

partial def loop (h : IO.FS.Stream) (n d : Nat) : IO (Nat × Nat) := do
  let line ← h.getLine
  if line.isEmpty then return (n, d)
  let line := line.trimAscii.toString
  let ws := (line.splitOn " ").filter (· ≠ "")
  match ws with
  | "EXT" :: area :: cap :: bs :: ext :: old :: "->" :: rest =>
    let eff := GenL.mi_page_free_list_extend (fun _ => area.toNat!) cap.toNat! old.toNat! 1 bs.toNat! ext.toNat! 0
    let r := chain eff ext.toNat! (ExtendL.freeAfter eff 1)
    let real := (rest.takeWhile (· ≠ "|")).map String.toNat!
    let tail := ((rest.dropWhile (· ≠ "|")).drop 1).map String.toNat!
    let ok := r.1 == real && tail == [r.2.getD 18446744073709551615]
    if !ok && d < 20 then IO.println s!"DIFF {line.take 200} || generated: {r.1.take 6} … then {r.2}"
    loop h (n + 1) (if ok then d else d + 1)
  | _ => loop h n d

def main (stdin : IO.FS.Stream) : IO UInt32 := do
  let (n, d) ← loop stdin 0 0
  IO.println s!"c01extval cases {n} differences {d}"
  return (if d == 0 then 0 else 1)

end C01extVal
