"""C09 — thread exit: live blocks survive; abandoned memory adopted once, never leaked
(T3-style hand-over model with invariant proof over all interleavings and a proved-sound validator; scheduler stress oracle on the
real allocator with thread exit, adoption, reclaim-on-free, OS-list segments and forced abandonment)."""
import os
import vcommon as V
from checks import t3common

def abandon_traces(chk, d, nseeds, builds=(('dbg', ('-DMI_DEBUG=3',)), ('rel', V.RELEASE))):
    """harness/t3_abandon.c under the scheduler: every atomic operation on one abandoned segment's owner id, abandoned bit and the
    abandoned counter is logged and replayed through the proved-sound validator of Model.Abandon (Driver/C09.lean)"""
    ok, exe, log = V.build_driver()
    if not ok:
        chk.broken_tie('lean driver does not build', log[-1500:]); return
    accepted = events = 0
    hist = {}
    for tag, flags in builds:
        h = os.path.join(d, 't3_abandon_' + tag)
        ok, log = V.cc_harness(os.path.join(V.HARNESS, 't3_abandon.c'), h, flags=V.hooked_flags(flags))
        if not ok:
            chk.broken_tie('t3_abandon harness (%s) does not compile against the current tree' % tag, log[-1500:]); continue
        runs = []
        for i in range(nseeds):
            for mode in (0, 1):
                runs.append((chk.seed * 1000 + i, 3 + i % 3, mode, (0, 20)[i % 2], (0, 50, 90)[(i // 2) % 3]))
        outs = V.pmap([([h, str(sd), str(nth), str(m), str(sp), str(stay)], None, 120) for sd, nth, m, sp, stay in runs])
        vals = V.pmap([([exe, 'c09'], 'RUN %s seed %d threads %d mode %d\n' % (tag, r[0], r[1], r[2]) + o[1], 120) for r, o in zip(runs, outs)])
        for (sd, nth, m, sp, stay), (rc, out, err), (rc2, out2, err2) in zip(runs, outs, vals):
            chk.count()
            args = {'harness': 't3_abandon', 'build': tag, 'seed': sd, 'threads': nth, 'mode': m, 'spurious_pct': sp, 'stay_pct': stay,
                    'how_to_run': 'gcc -I/repo/include -Iharness -Ihooks -DMI_VERIF_HOOKS %s harness/t3_abandon.c; ./a.out %d %d %d %d %d | lean/.lake/build/bin/midriver c09' % (' '.join(flags), sd, nth, m, sp, stay)}
            if rc != 0 or 'done points' not in out:
                diff = [l for l in out2.splitlines() if l.startswith('DIFF')]
                if diff:
                    chk.violation('%s/handover_trace_rejected' % chk.pid, 'before the allocator crashed, its log of atomic operations on the abandoned segment left the hand-over model: ' + diff[0][:500], dict(args, events=[l for l in out.splitlines() if l.startswith('E ')][:60]))
                chk.violation('%s/t3_abandon-crash' % chk.pid, 'allocator crashed / asserted under schedule seed %d mode %d (%s build): %s' % (sd, m, tag, (err or out)[-300:].replace('\n', ' ')), args)
                continue
            for f in [l for l in out.splitlines() if l.startswith('FAIL')]:
                chk.violation('%s/%s' % (chk.pid, f.split()[1]), 'schedule seed %d mode %d (%s build, %d threads): %s' % (sd, m, tag, nth, f), args)
            ev = [l for l in out.splitlines() if l.startswith('E ')]
            if rc2 == 0 and 'rejected 0' in out2:
                if 'SKIP' in out:
                    continue
                accepted += 1; events += len(ev)
                chk.distinct(('abandon-trace', tuple(ev)))
                for l in ev:
                    k = ' '.join(l.split()[2:4]) if l.split()[2] in ('and', 'or') else l.split()[2]
                    hist[k] = hist.get(k, 0) + 1
                if accepted == 1:
                    chk.sample(dict(args, first_events=ev[:14]))
            else:
                diff = [l for l in out2.splitlines() if l.startswith('DIFF')]
                msg = (diff or out2.strip().splitlines() or [err2 or '?'])[0][:500]
                # a rejected log is a concrete schedule on which the real hand-over leaves the proved model: the trace is the failing history
                chk.violation('%s/handover_trace_rejected' % chk.pid, 'the log of atomic operations on an abandoned segment is not an execution of the hand-over model (two adopters, or a count change without a won bit): ' + msg, dict(args, events=ev[:60]))
    chk.extra['handover_traces_validated'] = accepted
    chk.extra['handover_events'] = events
    chk.extra['handover_event_histogram'] = hist
    chk.log('hand-over traces: %d accepted, %d events, %s' % (accepted, events, hist))
    if accepted == 0 and not chk.broken:
        chk.broken_tie('hand-over trace validation', 'no trace was validated')

TRUSTED = ['Lean 4 kernel', 'hand-written hand-over model MiVerif/Model/Abandon.lean (arena-bit variant; the OS-list variant replaces the fetch-and/or by list removal/insertion under a lock)',
           'tie 1: logs of every atomic operation on one abandoned arena segment (owner id, abandoned bit, abandoned counter), recorded from the hooked allocator under the deterministic scheduler, are replayed through the validator `exec` (proved sound: exec_sound, run_inv) - a log that is not a model execution is reported with the schedule as replay',
           'tie 2: scheduler search on the real allocator (end-of-run oracles: contents, no live block left, no abandoned segment left, abandoned_count not underflowed)',
           'sequentially consistent atomics; hooks/verif_hooks.h + harness/vsched.h; blocks surviving the exit and remote frees into abandoned pages rest on the C02/C08 protocol theorems']

def run(chk):
    chk.trusted = TRUSTED
    chk.assumptions = ['sequentially consistent atomics', 'virtual threads end with mi_thread_done() (the function the pthread destructor calls)', '"released instead of leaked" is relative to a later forced collect by a surviving thread, as in the code']
    chk.extra['rule'] = ('obligations = theorems of Props/C09.lean (all interleavings of the hand-over model); evaluations = scheduler runs of the real allocator; distinct = (seed, mode, points)')
    chk.lean('MiVerif.Props.C09')
    thorough = chk.tier == 'thorough'
    with V.Scratch() as d:
        abandon_traces(chk, d, 500 if thorough else 150)
        # modes: 1 thread exit; +8 reclaim on free; +16 OS segments; +32 forced abandonment; +64 only frees adopt; +4 huge/aligned mix
        modes = (1, 9, 17, 25, 33, 73, 5) if thorough else (1, 9, 25, 73, 33)
        t3common.stress(chk, d, 300 if thorough else 40, modes=modes, ops=160,
                        keys=('double_handout', 'content_changed', 'blocks_left_behind', 'abandoned_left_behind', 'abandoned_count_underflow', 'alloc_failed', 'misaligned', 'usable_lt_size'))
