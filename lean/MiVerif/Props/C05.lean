/- C05 — re-allocation preserves contents and releases the old block exactly once.
   The decision logic of the realloc family (in place or move; what is copied, zeroed and freed) as
   regenerated from alloc.c / alloc-aligned.c (MiVerif/Gen/Entry.lean), over an arbitrary allocator core.
   The effect log lists, in order, the calls `_mi_memzero dst n`, `_mi_memcpy dst src n`, `mi_free p`. -/
import MiVerif.Gen.Entry
import MiVerif.Lemmas.C06

namespace C05
open GenE

variable (gsp : Nat → Nat → Nat) (pmz : Nat → Nat → Nat → Nat → Nat) (gen : Nat → Nat → Nat → Nat → Nat)
  (us : Nat → Nat → Nat) (rdf : Nat → Nat) (pmzd pm : Nat → Nat → Nat → Nat) (bs : Nat → Nat) (ps : Nat)
  (ng : Nat → Nat → Nat → Nat) (pp : Nat → Nat) (dh : Nat)

/-- in place exactly when the new size fits and wastes at most 50%: same pointer, nothing copied or freed -/
theorem realloc_inplace (heap p newsize zero : Nat)
    (h : newsize ≤ us p 0 ∧ us p 0 / 2 ≤ newsize ∧ 0 < newsize) :
    _mi_heap_realloc_zero us gsp pmz gen heap p newsize zero = (p, []) := by
  exact C06L.realloc_zero_inplace us gsp pmz gen heap p newsize zero h

/-- otherwise a new block is allocated; if that succeeds (non-zeroing variant) the first min(old usable, new) bytes
    are copied and the old block is freed exactly once, after the copy -/
theorem realloc_moved (heap p newsize : Nat) (hp : p ≠ 0) (hn : 0 < newsize)
    (hnot : ¬ (newsize ≤ us p 0 ∧ us p 0 / 2 ≤ newsize ∧ 0 < newsize))
    (hnew : mi_heap_malloc gsp pmz gen heap newsize ≠ 0) :
    _mi_heap_realloc_zero us gsp pmz gen heap p newsize 0 =
      (mi_heap_malloc gsp pmz gen heap newsize,
       [("_mi_memcpy", [mi_heap_malloc gsp pmz gen heap newsize, p, min (us p 0) newsize]), ("mi_free", [p])]) := by
  rw [C06L.realloc_zero_moved us gsp pmz gen heap p newsize 0 hnot hnew]
  have hn0 : newsize ≠ 0 := by omega
  simp [C06L.reallocInit, hp, hn0]

/-- the old block is released at most once, and exactly when a different non-NULL pointer is returned for a non-NULL input -/
theorem realloc_frees_iff_moved (heap p newsize zero : Nat) :
    let r := _mi_heap_realloc_zero us gsp pmz gen heap p newsize zero
    (r.2.filter (fun e => e.1 == "mi_free")) = (if p ≠ 0 ∧ r.1 ≠ 0 ∧ ¬ (newsize ≤ us p 0 ∧ us p 0 / 2 ≤ newsize ∧ 0 < newsize) then [("mi_free", [p])] else []) := by
  intro r
  by_cases hin : newsize ≤ us p 0 ∧ us p 0 / 2 ≤ newsize ∧ 0 < newsize
  · simp [r, C06L.realloc_zero_inplace us gsp pmz gen heap p newsize zero hin, hin]
  · by_cases hnew : mi_heap_malloc gsp pmz gen heap newsize = 0
    · simp [r, C06L.realloc_zero_fail us gsp pmz gen heap p newsize zero hin hnew]
    · simp only [r, C06L.realloc_zero_moved us gsp pmz gen heap p newsize zero hin hnew, List.filter_append,
        C06L.reallocInit_no_free, List.nil_append]
      by_cases hp : p = 0 <;> simp [hp, hnew, hin]

/-- a NULL input behaves as an allocation (usable size of NULL is 0); nothing is copied or freed -/
theorem realloc_null_is_malloc (heap newsize : Nat) (hus : us 0 0 = 0) :
    (_mi_heap_realloc_zero us gsp pmz gen heap 0 newsize 0).1 = mi_heap_malloc gsp pmz gen heap newsize ∧
    ∀ e ∈ (_mi_heap_realloc_zero us gsp pmz gen heap 0 newsize 0).2, e.1 ≠ "mi_free" ∧ e.1 ≠ "_mi_memcpy" := by
  have hin : ¬ (newsize ≤ us 0 0 ∧ us 0 0 / 2 ≤ newsize ∧ 0 < newsize) := by
    rw [hus]; omega
  by_cases hnew : mi_heap_malloc gsp pmz gen heap newsize = 0
  · rw [C06L.realloc_zero_fail us gsp pmz gen heap 0 newsize 0 hin hnew]
    simp [hnew]
  · rw [C06L.realloc_zero_moved us gsp pmz gen heap 0 newsize 0 hin hnew]
    refine ⟨rfl, ?_⟩
    by_cases hn : newsize = 0 <;> simp [C06L.reallocInit, hn]

/-- a zero size still allocates a (minimal) block and releases the old one -/
theorem realloc_zero_size (heap p : Nat) (hp : p ≠ 0) (hnew : mi_heap_malloc gsp pmz gen heap 0 ≠ 0) :
    (_mi_heap_realloc_zero us gsp pmz gen heap p 0 0).1 = mi_heap_malloc gsp pmz gen heap 0 ∧
    ("mi_free", [p]) ∈ (_mi_heap_realloc_zero us gsp pmz gen heap p 0 0).2 := by
  have hin : ¬ ((0:Nat) ≤ us p 0 ∧ us p 0 / 2 ≤ 0 ∧ 0 < (0:Nat)) := by omega
  rw [C06L.realloc_zero_moved us gsp pmz gen heap p 0 0 hin hnew]
  simp [hp]

/-- mi_expand never moves a block … -/
theorem expand_never_moves (p newsize : Nat) : mi_expand us p newsize = p ∨ mi_expand us p newsize = 0 := by
  unfold mi_expand
  by_cases hp : p = 0
  · simp [hp]
  · by_cases hn : newsize > us p 0 <;> simp [hp, hn]

/-- … and succeeds exactly up to the usable size -/
theorem expand_ok_iff (p newsize : Nat) (hp : p ≠ 0) : mi_expand us p newsize = p ↔ newsize ≤ us p 0 := by
  unfold mi_expand
  by_cases hn : newsize > us p 0
  · simp only [if_neg hp, if_pos hn]
    constructor
    · intro e; exact absurd e.symm hp
    · intro e; omega
  · simp only [if_neg hp, if_neg hn]
    constructor
    · intro _; omega
    · intro _; trivial

/-- aligned variant, alignment > 8: in place only if it fits, wastes < 50% and (p+offset) is still aligned -/
theorem realloc_aligned_inplace (heap p newsize alignment offset zero : Nat) (ha : 8 < alignment) (hp : p ≠ 0)
    (h : newsize ≤ us p 0 ∧ (us p 0 + 2^64 - us p 0 / 2) % 2^64 ≤ newsize ∧ ((p + offset) % 2^64) % alignment = 0) :
    mi_heap_realloc_zero_aligned_at us gsp pmz gen rdf pmzd pm bs ps ng pp heap p newsize alignment offset zero = (p, []) := by
  rw [C06L.two64] at h
  have ha' : ¬ alignment ≤ 8 := by omega
  have hc : ((newsize ≤ us p 0) ∧ (newsize ≥ (((us p 0 + 18446744073709551616 - (us p 0 / 2))) % 18446744073709551616))) ∧ (((((p + offset)) % 18446744073709551616) % alignment) = 0) :=
    ⟨⟨h.1, h.2.1⟩, h.2.2⟩
  unfold mi_heap_realloc_zero_aligned_at mi_usable_size
  simp only [if_neg ha', if_neg hp, if_pos hc]

/-- aligned variant: a failing re-allocation leaves the old block alone (no free, no copy of the old block) -/
theorem realloc_aligned_fail_keeps_old (heap p newsize alignment offset zero : Nat) (ha : 8 < alignment) (hp : p ≠ 0)
    (hnot : ¬ (newsize ≤ us p 0 ∧ (us p 0 + 2^64 - us p 0 / 2) % 2^64 ≤ newsize ∧ ((p + offset) % 2^64) % alignment = 0))
    (hfail : (mi_heap_malloc_aligned_at gsp rdf pmzd pm bs ps ng pmz gen pp us heap newsize alignment offset).1 = 0) :
    (mi_heap_realloc_zero_aligned_at us gsp pmz gen rdf pmzd pm bs ps ng pp heap p newsize alignment offset zero).1 = 0 ∧
    (mi_heap_realloc_zero_aligned_at us gsp pmz gen rdf pmzd pm bs ps ng pp heap p newsize alignment offset zero).2 =
      (mi_heap_malloc_aligned_at gsp rdf pmzd pm bs ps ng pmz gen pp us heap newsize alignment offset).2 := by
  rw [C06L.two64] at hnot
  have ha' : ¬ alignment ≤ 8 := by omega
  have hc : ¬ (((newsize ≤ us p 0) ∧ (newsize ≥ (((us p 0 + 18446744073709551616 - (us p 0 / 2))) % 18446744073709551616))) ∧ (((((p + offset)) % 18446744073709551616) % alignment) = 0)) :=
    fun hc => hnot ⟨hc.1.1, hc.1.2, hc.2⟩
  unfold mi_heap_realloc_zero_aligned_at mi_usable_size
  simp only [if_neg ha', if_neg hp, if_neg hc]
  generalize mi_heap_malloc_aligned_at gsp rdf pmzd pm bs ps ng pmz gen pp us heap newsize alignment offset = a at hfail
  obtain ⟨a1, a2⟩ := a
  simp only at hfail
  subst hfail
  simp

/-- aligned variant: on a successful move the copy of min(old usable, new) bytes precedes the single free of the old block -/
theorem realloc_aligned_moved (heap p newsize alignment offset : Nat) (ha : 8 < alignment) (hp : p ≠ 0)
    (hnot : ¬ (newsize ≤ us p 0 ∧ (us p 0 + 2^64 - us p 0 / 2) % 2^64 ≤ newsize ∧ ((p + offset) % 2^64) % alignment = 0))
    (hok : (mi_heap_malloc_aligned_at gsp rdf pmzd pm bs ps ng pmz gen pp us heap newsize alignment offset).1 ≠ 0) :
    let a := mi_heap_malloc_aligned_at gsp rdf pmzd pm bs ps ng pmz gen pp us heap newsize alignment offset
    mi_heap_realloc_zero_aligned_at us gsp pmz gen rdf pmzd pm bs ps ng pp heap p newsize alignment offset 0 =
      (a.1, a.2 ++ [("_mi_memcpy_aligned", [a.1, p, min (us p 0) newsize]), ("mi_free", [p])]) := by
  dsimp only
  rw [C06L.two64] at hnot
  have ha' : ¬ alignment ≤ 8 := by omega
  have hc : ¬ (((newsize ≤ us p 0) ∧ (newsize ≥ (((us p 0 + 18446744073709551616 - (us p 0 / 2))) % 18446744073709551616))) ∧ (((((p + offset)) % 18446744073709551616) % alignment) = 0)) :=
    fun hc => hnot ⟨hc.1.1, hc.1.2, hc.2⟩
  have hmin : (if newsize > us p 0 then us p 0 else newsize) = min (us p 0) newsize := by
    split <;> omega
  unfold mi_heap_realloc_zero_aligned_at mi_usable_size
  simp only [if_neg ha', if_neg hp, if_neg hc, hmin]
  revert hok
  generalize mi_heap_malloc_aligned_at gsp rdf pmzd pm bs ps ng pmz gen pp us heap newsize alignment offset = a
  obtain ⟨a1, a2⟩ := a
  intro hok
  simp only at hok
  simp [hok]

/-- non-vacuity -/
example : (100 : Nat) ≤ 112 ∧ 112 / 2 ≤ 100 ∧ 0 < 100 := by decide

end C05
