"""C04 — zero-initialising allocation really returns zeros, also when growing
(T1: realloc entry points regenerated with their effect log, slack-invariant step theorem over a byte memory; oracle on the
real allocator over dirtied memory and growth chains, per option row)."""
import os
import vcommon as V
from checks import C05

TRUSTED = ['Lean 4 kernel', 'translator extract/translate.py (entry-point layer with allocator oracles and effect log; decisions validated against the real entry points on every run)',
           'interpretation of the effect log over a byte memory (memzero / memcpy semantics) in Props/C04.lean',
           'the allocator underneath (fresh blocks do not overlap live ones, the first zalloc zeroes the whole block) is an oracle here: C01 and the implementation-side oracle harness/c04.c',
           'the operating system returns zero pages for fresh mappings and after MADV_DONTNEED']

def run(chk):
    chk.trusted = TRUSTED
    chk.assumptions = ['release configuration of src/static.c', 'growth chains are monotone in the requested size (the property\'s quantifier); the program writes only below the requested size']
    chk.extra['rule'] = ('obligations = theorems of Props/C04.lean over the regenerated realloc functions; evaluations = zeroing allocations + growth steps checked on the real allocator '
                         '+ wrapper decisions compared; distinct = (option row, seed) runs x entry points')
    chk.lean('MiVerif.Props.C04', groups=['Entry', 'Tables'])
    thorough = chk.tier == 'thorough'
    with V.Scratch() as d:
        C05.entry_harness(chk, d)      # validation of the generated wrappers (decisions of the realloc family incl. rezalloc)
        h = os.path.join(d, 'c04')
        ok, log = V.cc_harness(os.path.join(V.HARNESS, 'c04.c'), h, flags=list(V.RELEASE) + ['-DVERIF_STATIC_C="%s/src/static.c"' % V.REPO])
        if not ok:
            chk.broken_tie('C04 harness does not compile against the current tree', log[-1500:]); return
        jobs = [([h, str(sd), '1' if thorough else '0', str(row)], None, 1800 if thorough else 400) for row in range(4) for sd in range(chk.seed, chk.seed + (4 if thorough else 1))]
        outs = V.pmap(jobs)
        for (cmd, _, _), (rc, out, err) in zip(jobs, outs):
            args = {'cmd': 'harness/c04 ' + ' '.join(cmd[1:]), 'seed': cmd[1], 'config_row': cmd[3],
                    'how_to_run': 'gcc -DNDEBUG -DMI_BUILD_RELEASE -I/repo/include -DVERIF_STATIC_C=\\"/repo/src/static.c\\" harness/c04.c -lpthread; ./a.out ' + ' '.join(cmd[1:])}
            if rc != 0 or 'DONE' not in out:
                last = [l for l in out.splitlines() if l][-1:] or ['']
                chk.violation('C04/oracle-crash', 'allocator crashed in the zeroing workload (row %s seed %s): %s %s' % (cmd[3], cmd[1], last[0][:200], err[-200:].replace('\n', ' ')), args); continue
            seen = set()
            for l in out.splitlines():
                p = l.split()
                if not p:
                    continue
                if p[0] == 'FAIL' and p[1] not in seen:
                    seen.add(p[1]); chk.violation('C04/' + p[1], ' '.join(p[2:])[:400], args)
                elif p[0] == 'STAT':
                    chk.extra['oracle_' + p[1]] = chk.extra.get('oracle_' + p[1], 0) + int(p[2])
                    if p[1] == 'evaluations':
                        chk.count(int(p[2]))
                elif p[0] == 'ENTRIES':
                    for kv in p[1:]:
                        k, v = kv.split('='); chk.extra.setdefault('entry_points', {}); chk.extra['entry_points'][k] = chk.extra['entry_points'].get(k, 0) + int(v)
                        if int(v) > 0:
                            chk.distinct((cmd[3], cmd[1], k))
            chk.sample('oracle run: ' + ' '.join(cmd[1:]) + ' -> ' + ' '.join(l for l in out.splitlines() if l.startswith('STAT'))[:160])
