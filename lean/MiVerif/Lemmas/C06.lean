/- helper lemmas for Props/C06 and Props/C05 -/
import MiVerif.Gen.Entry
import MiVerif.Gen.Tables

namespace C06L
open GenE

theorem two64 : (2:Nat)^64 = 18446744073709551616 := by decide

/-- overflowing product: flag 1 (and the saturated total) -/
theorem count_size_overflow_of_ge (count size t : Nat) (hc : count < 2^64) (hs : size < 2^64)
    (h : 2^64 ≤ count * size) :
    mi_count_size_overflow count size t = (1, 18446744073709551615) := by
  have h1 : ¬ count = 1 := by
    intro e; subst e; omega
  have h2 : count * size ≥ 2^64 := h
  unfold mi_count_size_overflow mi_mul_overflow umull_overflow
  simp [h1, h2]

/-- non-overflowing product: flag 0 and the exact product -/
theorem count_size_overflow_of_lt (count size t : Nat) (h : count * size < 2^64) :
    mi_count_size_overflow count size t = (0, count * size) := by
  unfold mi_count_size_overflow mi_mul_overflow umull_overflow
  by_cases h1 : count = 1
  · subst h1; simp
  · have h2 : ¬ (count * size ≥ 2^64) := by omega
    simp [h1, h2, Nat.mod_eq_of_lt h]

/-- C's `_mi_is_power_of_two` (true for 0) -/
theorem is_pow2_eq (x : Nat) (hx : x < 2^64) (h0 : x ≠ 0) :
    _mi_is_power_of_two x = 0 ↔ x &&& (x - 1) ≠ 0 := by
  rw [two64] at hx
  have e : (x + 18446744073709551616 - 1) % 18446744073709551616 = x - 1 := by omega
  unfold _mi_is_power_of_two
  rw [e]
  by_cases h : x &&& (x - 1) = 0 <;> simp [h]

/-- the argument check shared by the aligned entry points -/
theorem bad_alignment (alignment : Nat) (ha : alignment < 2^64)
    (h : alignment = 0 ∨ alignment &&& (alignment - 1) ≠ 0) :
    (alignment = 0) ∨ (¬ ((_mi_is_power_of_two alignment) ≠ 0)) := by
  by_cases h0 : alignment = 0
  · exact Or.inl h0
  · right
    rcases h with h | h
    · exact absurd h h0
    · simp [(is_pow2_eq alignment ha h0).2 h]

/-- the decision structure of `_mi_heap_realloc_zero`, in place -/
theorem realloc_zero_inplace (us : Nat → Nat → Nat) (gsp : Nat → Nat → Nat) (pmz gen : Nat → Nat → Nat → Nat → Nat)
    (heap p newsize zero_ : Nat)
    (h : newsize ≤ us p 0 ∧ us p 0 / 2 ≤ newsize ∧ 0 < newsize) :
    _mi_heap_realloc_zero us gsp pmz gen heap p newsize zero_ = (p, []) := by
  have hc : ((newsize ≤ us p 0) ∧ (newsize ≥ (us p 0 / 2))) ∧ (newsize > 0) := ⟨⟨h.1, h.2.1⟩, h.2.2⟩
  unfold _mi_heap_realloc_zero
  simp only [if_pos hc]

/-- … allocation failed -/
theorem realloc_zero_fail (us : Nat → Nat → Nat) (gsp : Nat → Nat → Nat) (pmz gen : Nat → Nat → Nat → Nat → Nat)
    (heap p newsize zero_ : Nat)
    (hnot : ¬ (newsize ≤ us p 0 ∧ us p 0 / 2 ≤ newsize ∧ 0 < newsize))
    (hnew : mi_heap_malloc gsp pmz gen heap newsize = 0) :
    _mi_heap_realloc_zero us gsp pmz gen heap p newsize zero_ = (0, []) := by
  have hc : ¬ (((newsize ≤ us p 0) ∧ (newsize ≥ (us p 0 / 2))) ∧ (newsize > 0)) := fun hc => hnot ⟨hc.1.1, hc.1.2, hc.2⟩
  unfold _mi_heap_realloc_zero
  simp only [if_neg hc, hnew, ne_eq, not_true_eq_false, if_false]

/-- what is written into the new block before the copy (zeroing of everything beyond the copied bytes up to the usable size of
    the new block / the terminator of a 0-sized block) -/
def reallocInit (us : Nat → Nat → Nat) (p newsize zero_ newp : Nat) : List (String × List Nat) :=
  if zero_ ≠ 0 then
    [("_mi_memzero", [(newp + (if min (us p 0) newsize ≥ 8 then (min (us p 0) newsize + 18446744073709551616 - 8) % 18446744073709551616 else 0)) % 18446744073709551616,
        (us newp 0 + 18446744073709551616 - (if min (us p 0) newsize ≥ 8 then (min (us p 0) newsize + 18446744073709551616 - 8) % 18446744073709551616 else 0)) % 18446744073709551616])]
  else if newsize = 0 then [("store8", [(newp + 0 * 1) % 18446744073709551616, 0])] else []

theorem reallocInit_no_free (us : Nat → Nat → Nat) (p newsize zero_ newp : Nat) :
    (reallocInit us p newsize zero_ newp).filter (fun e => e.1 == "mi_free") = [] := by
  unfold reallocInit
  split
  · simp
  · split <;> simp

/-- … allocation succeeded -/
theorem realloc_zero_moved (us : Nat → Nat → Nat) (gsp : Nat → Nat → Nat) (pmz gen : Nat → Nat → Nat → Nat → Nat)
    (heap p newsize zero_ : Nat)
    (hnot : ¬ (newsize ≤ us p 0 ∧ us p 0 / 2 ≤ newsize ∧ 0 < newsize))
    (hnew : mi_heap_malloc gsp pmz gen heap newsize ≠ 0) :
    _mi_heap_realloc_zero us gsp pmz gen heap p newsize zero_ =
      (mi_heap_malloc gsp pmz gen heap newsize,
        reallocInit us p newsize zero_ (mi_heap_malloc gsp pmz gen heap newsize) ++
        (if p ≠ 0 then [("_mi_memcpy", [mi_heap_malloc gsp pmz gen heap newsize, p, min (us p 0) newsize]), ("mi_free", [p])] else [])) := by
  have hc : ¬ (((newsize ≤ us p 0) ∧ (newsize ≥ (us p 0 / 2))) ∧ (newsize > 0)) := fun hc => hnot ⟨hc.1.1, hc.1.2, hc.2⟩
  have hmin : (if newsize > us p 0 then us p 0 else newsize) = min (us p 0) newsize := by
    split <;> omega
  unfold _mi_heap_realloc_zero reallocInit
  simp only [if_neg hc, if_pos hnew, hmin]
  congr 1
  by_cases hp : p = 0 <;> by_cases hz : zero_ = 0 <;> by_cases hn : newsize = 0 <;>
    simp [hp, hz, hn, mi_usable_size]

end C06L
