/- executable model of the segment slice map and the span queues (every write of mi_segment_span_free / span_free_coalesce /
   span_allocate / slice_split / page_clear / find_and_allocate in src/segment.c).  Compared with the real functions by direct drive
   (harness/c01.c mode seg): slice arrays and all span queues after every operation. -/
-- executable model of the segment slice map + span queues (faithful to every write of segment.c)
namespace SegM

structure Slice where
  count : Nat := 0
  off   : Nat := 0       -- slice_offset / sizeof(mi_slice_t)
  bs    : Nat := 0       -- block_size (0 = free, 1 = used marker, else page size in bytes)
deriving Repr, BEq, Inhabited

structure Seg where
  slices  : Array Slice
  entries : Nat
  used    : Nat
  queues  : Array (List Nat)     -- span queues per bin: slice indices, first → last
deriving Repr

def bsr (x : Nat) : Nat := Nat.log2 x

def sliceBin8 (c : Nat) : Nat :=
  if c ≤ 1 then c else
    let c := c - 1
    let s := bsr c
    if s ≤ 2 then c + 1 else ((s * 4) ||| ((c / 2^(s-2)) &&& 3)) - 4

def maxOffsetCount : Nat := 255

def get (g : Seg) (i : Nat) : Slice := g.slices[i]!
def set (g : Seg) (i : Nat) (s : Slice) : Seg := { g with slices := g.slices.set! i s }

def queuePush (g : Seg) (i : Nat) (count : Nat) : Seg :=
  let b := sliceBin8 count
  let g := { g with queues := g.queues.set! b (i :: g.queues[b]!) }
  set g i { get g i with bs := 0 }

def queueDelete (g : Seg) (i : Nat) : Seg :=
  let b := sliceBin8 (get g i).count
  let g := { g with queues := g.queues.set! b ((g.queues[b]!).erase i) }
  set g i { get g i with bs := 1 }

-- mi_segment_span_free (normal, owned segment; purge ignored here)
def spanFree (g : Seg) (idx count : Nat) : Seg :=
  let count' := if count = 0 then 1 else count
  let g := set g idx { get g idx with count := count', off := 0 }
  let g := if count' > 1 then
      let last := min (idx + count' - 1) g.entries
      set g last { get g last with count := 0, off := count' - 1, bs := 0 }
    else g
  queuePush g idx count

-- mi_slice_first
def sliceFirst (g : Seg) (i : Nat) : Nat := i - (get g i).off

-- mi_segment_span_free_coalesce (normal, owned)
def coalesce (g : Seg) (idx : Nat) : Seg × Nat :=
  let sc := (get g idx).count
  let next := idx + sc
  let (g, sc) :=
    if next < g.entries ∧ (get g next).bs = 0 then
      let nc := (get g next).count
      (queueDelete g next, sc + nc)
    else (g, sc)
  let (g, idx, sc) :=
    if idx > 0 then
      let prev := sliceFirst g (idx - 1)
      if (get g prev).bs = 0 then
        let pc := (get g prev).count
        let g := set g idx { get g idx with count := 0, off := idx - prev }
        let g := queueDelete g prev
        (g, prev, sc + pc)
      else (g, idx, sc)
    else (g, idx, sc)
  (spanFree g idx sc, idx)

-- mi_segment_span_allocate (commit ignored)
def spanAllocate (g : Seg) (idx count : Nat) : Seg :=
  let g := set g idx { get g idx with off := 0, count := count, bs := count * 65536 }
  let extra := min (count - 1) maxOffsetCount
  let extra := if idx + extra ≥ g.entries then g.entries - idx - 1 else extra
  let g := (List.range extra).foldl (fun g k => let i := k + 1; set g (idx + i) { get g (idx + i) with off := i, count := 0, bs := 1 }) g
  let last := min (idx + count - 1) g.entries
  let g := if last > idx then set g last { get g last with off := last - idx, count := 0, bs := 1 } else g
  { g with used := g.used + 1 }

-- mi_segment_slice_split
def sliceSplit (g : Seg) (idx count : Nat) : Seg :=
  if (get g idx).count ≤ count then g else
    let nextIdx := idx + count
    let nextCount := (get g idx).count - count
    let g := spanFree g nextIdx nextCount
    set g idx { get g idx with count := count }

-- mi_segments_page_find_and_allocate (single segment, always suitable, commit always succeeds)
def findAndAllocate (g : Seg) (count : Nat) : Seg × Option Nat :=
  let b0 := sliceBin8 count
  let count := if count = 0 then 1 else count
  let rec scanBins (fuel b : Nat) : Option Nat :=
    match fuel with
    | 0 => none
    | fuel+1 =>
      if b > 35 then none else
        match (g.queues[b]!).find? (fun i => (get g i).count ≥ count) with
        | some i => some i
        | none => scanBins fuel (b+1)
  match scanBins 40 b0 with
  | none => (g, none)
  | some i =>
    let g := queueDelete g i
    let g := if (get g i).count > count then sliceSplit g i count else g
    (spanAllocate g i (get g i).count, some i)

-- mi_segment_page_clear: zero page fields from `capacity` on, block_size := 1, coalesce, used--
def pageClear (g : Seg) (idx : Nat) : Seg :=
  let g := set g idx { get g idx with bs := 1 }
  let (g, _) := coalesce g idx
  { g with used := g.used - 1 }

def init (entries info : Nat) : Seg :=
  let g : Seg := { slices := Array.replicate (entries + 1) {}, entries := entries, used := 0, queues := Array.replicate 36 [] }
  let g := spanAllocate g 0 info
  let g := { g with used := 0 }
  spanFree g info (entries - info)

def dumpS (g : Seg) : String :=
  let body := (List.range (g.entries + 1)).foldl (fun acc i =>
    let s := get g i
    if s.count ≠ 0 ∨ s.off ≠ 0 ∨ s.bs ≠ 0 then acc ++ s!" {i}:{s.count},{s.off},{if s.bs > 0 then 1 else 0}" else acc) ""
  s!"S used={g.used} entries={g.entries} :{body}"

def dumpQ (g : Seg) : String :=
  let body := (List.range 36).foldl (fun acc b =>
    let q := g.queues[b]!
    if q.isEmpty then acc else acc ++ s!" {b}:[" ++ ",".intercalate (q.map toString) ++ "]") ""
  "Q" ++ body

end SegM

