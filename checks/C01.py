"""C01 — live blocks are disjoint, fully accessible and keep their contents
(T2: page free-list model and segment slice-map model with invariant proofs; direct-drive correspondence of the page micro-steps and
span operations; invariant evaluated on snapshots of real pages; shadow-model oracle on the real allocator)."""
import os
import vcommon as V
from checks import seqcommon
from checks.C16 import trval

TRUSTED = ['Lean 4 kernel', 'translator extract/translate.py for Gen/Loops.lean (mi_page_free_list_extend, a while loop -> whileN with fuel 2^64; stores as effect log), validated against the running function on every run (harness/c01 ext -> Driver/C01ext)', 'hand-written models MiVerif/Model/Page.lean and MiVerif/Model/Segment.lean (compared with the real functions after every micro-step, every run)',
           'harness/c01.c (direct drive of static functions through #include of src/static.c; abstraction of a page to block indices)',
           'the statement "every public API call is a composition of the modelled micro-steps" is not proved: it is covered by the snapshot validation (PageM.invB on every page of every heap during API histories) and by the shadow oracle harness/seq.c',
           'byte-level contents: the frame argument (writes only to the block being popped / pushed) is checked by the oracle, not proved']

def run(chk):
    chk.trusted = TRUSTED
    chk.assumptions = ['single-threaded histories (the property\'s quantifier); concurrent frees are C02', 'release configuration for the correspondence; release and MI_DEBUG=2 builds for the oracle']
    chk.extra['rule'] = ('obligations = theorems of Props/C01.lean; evaluations = micro-steps of real pages / the real segment replayed by the models + snapshot pages evaluated + API calls checked by the shadow oracle; '
                         'distinct = distinct oracle runs + correspondence lines')
    chk.lean('MiVerif.Props.C01', groups=['Loops', 'Arith'])
    okd, exe, log = V.build_driver()
    if not okd:
        chk.broken_tie('lean driver does not build', log[-1500:])
    thorough = chk.tier == 'thorough'
    with V.Scratch() as d:
        # T1 for the segment-size arithmetic (mi_segment_calculate_slices, page start): generated Lean vs compiled C
        trval(chk, d, nrand=1000)
        h = os.path.join(d, 'c01')
        ok, log = V.cc_harness(os.path.join(V.HARNESS, 'c01.c'), h, flags=list(V.RELEASE) + ['-DVERIF_STATIC_C="%s/src/static.c"' % V.REPO])
        if not ok:
            chk.broken_tie('C01 correspondence harness does not compile against the current tree', log[-1500:])
        else:
            seeds = range(chk.seed, chk.seed + (8 if thorough else 3))
            jobs = []
            for sd in seeds:
                jobs += [([h, 'page', str(sd), '6000'], None, 120), ([h, 'seg', str(sd), '3000'], None, 120), ([h, 'snap', str(sd), '12000'], None, 120)]
            outs = V.pmap(jobs)
            texts = []
            for (cmd, _, _), (rc, out, err) in zip(jobs, outs):
                if rc != 0 or 'DONE' not in out:
                    chk.violation('C01/direct-drive-crash', 'allocator crashed when its page / segment functions were driven directly (%s): %s' % (' '.join(cmd[1:]), (err or out)[-300:].replace('\n', ' ')), {'cmd': 'harness/c01 ' + ' '.join(cmd[1:])}); continue
                texts.append(out)
            vals = V.pmap([([exe, 'c01'], t, 600) for t in texts]) if okd else []
            steps = snaps = 0
            for (cmd, _, _), (rc2, out2, err2) in zip(jobs, vals):
                summ = [l for l in out2.splitlines() if l.startswith('c01val steps')]
                bad = [l for l in out2.splitlines() if l.startswith('DIFF') or l.startswith('INVARIANT') or l.startswith('UNPARSED')]
                if summ:
                    p = summ[0].split(); steps += int(p[2]); snaps += int(p[6])
                if rc2 != 0 or bad or not summ:
                    chk.broken_tie('correspondence (%s): the page / segment model and the real functions disagree, or the invariant fails on a real state' % ' '.join(cmd[1:]), '\n'.join(bad[:6]) or (out2[-300:] + err2[-300:]))
            chk.count(steps + snaps)
            chk.extra['micro_steps_replayed'] = steps; chk.extra['snapshot_pages_checked'] = snaps
            for t in texts[:1]:
                for l in [x for x in t.splitlines() if x.startswith('PG ')][5:8]:
                    chk.sample(l[:160])
            chk.log('correspondence: %d micro-steps, %d snapshot pages' % (steps, snaps))
            # implementation-side oracle for the page level: every small / medium size class with several pages filled to capacity
            fj = [([h, 'fill', str(sd), '0'], None, 120) for sd in seeds]
            nfill = 0
            for (cmd, _, _), (rc, out, err) in zip(fj, V.pmap(fj)):
                args = {'cmd': 'harness/c01 ' + ' '.join(cmd[1:]), 'how_to_run': 'gcc -DNDEBUG -DMI_BUILD_RELEASE -I/repo/include -I/repo/src -DVERIF_STATIC_C=\\"/repo/src/static.c\\" harness/c01.c -lpthread; ./a.out ' + ' '.join(cmd[1:])}
                if rc != 0 or 'DONE' not in out:
                    chk.violation('C01/fill-crash', 'allocator crashed while pages were filled to capacity (%s): %s' % (' '.join(cmd[1:]), (err or out)[-300:].replace('\n', ' ')), args); continue
                for l in out.splitlines():
                    if l.startswith('FAIL'):
                        chk.violation('C01/' + l.split()[1], 'real allocator, pages filled to capacity (%s): %s' % (' '.join(cmd[1:]), l[5:300]), args)
                    elif l.startswith('FILL'):
                        nfill += int(l.split()[2]); chk.count(int(l.split()[2]))
            chk.extra['blocks_in_filled_pages_checked'] = nfill
            chk.log('filled pages: %d live blocks checked for overlap and contents' % nfill)
            # translator validation of the loop translation: the real mi_page_free_list_extend (area, capacity, block size, count, old
            # list -> the chain it builds) against the regenerated function (Gen/Loops.lean), its stores interpreted by the definitions the
            # theorems use (ExtendL.freeAfter / nextAfter)
            ej = [([h, 'ext', str(sd), '4000'], None, 120) for sd in seeds]
            ncase = 0
            for (cmd, _, _), (rc, out, err) in zip(ej, V.pmap(ej)):
                args = {'cmd': 'harness/c01 ' + ' '.join(cmd[1:]), 'how_to_run': 'harness/c01 %s | lean/.lake/build/bin/midriver c01ext' % ' '.join(cmd[1:])}
                if rc != 0 or 'DONE' not in out:
                    chk.violation('C01/free-list-extend-crash', 'mi_page_free_list_extend crashed when driven directly (%s): %s' % (' '.join(cmd[1:]), (err or out)[-300:].replace('\n', ' ')), args); continue
                if not okd:
                    continue
                rc2, out2, err2 = V.run([exe, 'c01ext'], input=out, timeout=300)
                summ = [l for l in out2.splitlines() if l.startswith('c01extval cases')]
                dl = [l for l in out2.splitlines() if l.startswith('DIFF')]
                if summ:
                    ncase += int(summ[0].split()[2]); chk.count(int(summ[0].split()[2]))
                if rc2 != 0 or dl or not summ:
                    chk.broken_tie('translator validation: regenerated mi_page_free_list_extend and the real function disagree (%s)' % ' '.join(cmd[1:]), ((dl or [err2 or out2])[0])[:500] + ' | ' + args['how_to_run'])
            chk.extra['free_list_extend_cases_compared'] = ncase
            chk.log('free-list-extend translator validation: %d cases' % ncase)
            if okd and ncase == 0 and not chk.broken and not chk.violations:
                chk.broken_tie('free-list-extend translator validation', 'no case was compared')
        # ---- oracle (the quick tier stops here when the direct drive already produced a concrete failing input: the verdict is settled and a
        # corrupted allocator tends to hang the oracle until its time limit)
        if chk.violations and not thorough:
            chk.log('oracle skipped: the direct drive already found a failing input')
            return
        hs = seqcommon.build(chk, d)
        hd = seqcommon.build(chk, d, flags=('-DMI_DEBUG=2',), tag='dbg')
        n = 10 if thorough else 3
        ops = 40000 if thorough else 15000
        pre = ('c01_',)
        if hs:
            seqcommon.run(chk, hs, [(chk.seed * 10 + i, ops, 0, 0) for i in range(n)] + [(chk.seed * 10 + 5, ops, 1, 1)], pre)
        if hd:
            seqcommon.run(chk, hd, [(chk.seed * 10 + i, ops // 2, 0, 0) for i in range(max(1, n // 2))], pre, tag='dbg')
