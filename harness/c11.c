// C11: memory is given back.  Through the OS shim (harness/oshim.h):
//   mode "model"  : real _mi_os_alloc / _mi_os_alloc_aligned / _mi_os_alloc_aligned_at_offset + _mi_os_free; prints the recorded
//                   memory id, the mapping the shim sees for it and the munmap requests of the free -> replayed by OsM / GenO (T2a)
//   mode "oracle" : workload x arena setting, N rounds of allocate-everything / free-everything / mi_collect(true):
//                   mapped bytes must not grow from round to round, direct OS regions must be unmapped, arena memory purged
#include "oshim.h"
#include VERIF_STATIC_C
#include <pthread.h>
static int nfail = 0;
#define FAIL(key, ...) do { if (nfail++ < 30) { printf("FAIL %s ", key); printf(__VA_ARGS__); printf("\n"); } } while (0)
static uint64_t rs = 88172645463325252ULL;
static uint64_t rnd(void) { rs ^= rs << 13; rs ^= rs >> 7; rs ^= rs << 17; return rs; }
static long n_eval = 0;

static void find_map(uintptr_t p, uintptr_t* b, size_t* n) { *b = 0; *n = 0; for (int i = 0; i < vm_nmaps; i++) { vm_map_t* m = &vm_maps[i]; if (m->live && p >= m->base && p < m->base + m->size) { *b = m->base; *n = m->size; return; } } }
static void model_mode(void) {
  const size_t ps = _mi_os_page_size();
  static const size_t SZ[] = { 1, 4096, 4097, 65536, 100000, 524288, 600000, 2097152, 3000000, 8388608, 40000000, 33554432, 104857600 };
  static const size_t AL[] = { 4096, 65536, 1 << 20, 4 << 20, 32 << 20, 64 << 20 };
  for (int round = 0; round < 2; round++) for (size_t i = 0; i < sizeof(SZ) / sizeof(SZ[0]); i++) {
    size_t size = SZ[i] + (round ? (size_t)(rnd() % 5000) : 0);
    for (int kind = 0; kind < 3; kind++) for (size_t a = 0; a < (kind == 0 ? 1 : sizeof(AL) / sizeof(AL[0])); a++) {
      size_t align = AL[a], offset = 0; mi_memid_t memid; void* p = NULL;
      if (kind == 0) p = _mi_os_alloc(size, &memid);
      else if (kind == 1) p = _mi_os_alloc_aligned(size, align, true, false, &memid);
      else { offset = (size_t)(8 + (rnd() % 4000) * 8); if (offset > size) offset = size & ~(size_t)7; if (offset == 0) continue; p = _mi_os_alloc_aligned_at_offset(size, align, offset, true, false, &memid); }
      if (p == NULL) { printf("SKIP os alloc failed\n"); continue; }
      memset(p, 1, size < 8192 ? size : 8192);
      uintptr_t mb; size_t mn; find_map((uintptr_t)p, &mb, &mn);
      printf("M %d %zu %zu %zu %zu -> %zu %d %zu %zu %zu %zu\n", kind, ps, size, align, offset, (size_t)p, (int)memid.memkind, (size_t)memid.mem.os.base, memid.mem.os.size, (size_t)mb, mn);
      if (kind > 0 && (((uintptr_t)p + offset) % align) != 0) FAIL("os_alloc_misaligned", "kind %d size %zu align %zu offset %zu p %p", kind, size, align, offset, p);
      long ev0 = vm_nev;
      _mi_os_free(p, size, memid);
      printf("U");
      for (long e = ev0; e < vm_nev; e++) if (vm_ev[e].kind == VM_MUNMAP) printf(" %zu %zu", (size_t)vm_ev[e].addr, vm_ev[e].size);
      printf("\n"); n_eval++;
      if (vm_foreign_unmaps > 0) { FAIL("unmap_of_memory_not_owned", "kind %d size %zu align %zu offset %zu: _mi_os_free unmapped %p + %zu, of which only %zu bytes were mapped by the allocator", kind, size, align, offset, (void*)vm_foreign_addr, vm_foreign_size, vm_foreign_covered); vm_foreign_unmaps = 0; }
      if (vm_page_state((uintptr_t)p) >= 0) FAIL("os_region_still_mapped", "kind %d size %zu align %zu offset %zu: %p still mapped after _mi_os_free", kind, size, align, offset, p);
    }
  }
}

// translator validation for the regenerated mi_os_prim_alloc_aligned (Gen/Os.lean): the first OS request of the call (the address-hinted
// mmap, where a hint is used) is refused, so that the unhinted retry comes back unaligned and the over-allocate-and-trim fallback runs;
// printed: what the function returned and recorded, the addresses the OS handed out, the ranges it was asked to unmap
static void aalign_section(void) {
  const size_t ps = _mi_os_page_size();
  static const size_t SZ[] = { 4096, 65536, 1 << 20, 3 << 20, 32 << 20, (32 << 20) + 4096 };
  static const size_t AL[] = { 4096, 65536, 1 << 20, 4 << 20, 32 << 20, 64 << 20 };
  for (int rep = 0; rep < 2; rep++) for (size_t i = 0; i < 6; i++) for (size_t a = 0; a < 6; a++) for (int commit = 0; commit < 2; commit++) {
    size_t size = SZ[i] + (rep ? ps * (size_t)(rnd() % 64) : 0), align = AL[a];
    bool is_large = false, is_zero = false; void* base = NULL;
    long ev0 = vm_nev;
    verif_fail_from = 0; verif_fail_mask = (1 << VM_MMAP); verif_fail_at = (rep == 0 || (rnd() % 4) != 0) ? verif_calls : -1;
    void* p = mi_os_prim_alloc_aligned(size, align, commit != 0, false, &is_large, &is_zero, &base);
    verif_fail_at = -1; verif_fail_mask = 0x1e;
    printf("AA %zu %zu %zu %d -> %zu %zu M", ps, size, align, commit, (size_t)(uintptr_t)p, (size_t)(uintptr_t)base);
    for (long e = ev0; e < vm_nev; e++) if (vm_ev[e].kind == VM_MMAP && vm_ev[e].ok) printf(" %zu", (size_t)vm_ev[e].addr);
    printf(" U");
    for (long e = ev0; e < vm_nev; e++) if (vm_ev[e].kind == VM_MUNMAP) printf(" %zu %zu", (size_t)vm_ev[e].addr, vm_ev[e].size);
    printf("\n"); n_eval++;
    if (p != NULL) {
      if (((uintptr_t)p % align) != 0) FAIL("os_alloc_misaligned", "mi_os_prim_alloc_aligned(%zu, %zu) = %p", size, align, p);
      if (base != p && vm_page_state((uintptr_t)base) < 0) FAIL("os_base_not_mapped", "mi_os_prim_alloc_aligned(%zu, %zu): recorded base %p is not mapped (returned %p)", size, align, base, p);
      mi_os_prim_free(p, size, commit ? size : 0);
    }
    if (vm_foreign_unmaps > 0) { FAIL("unmap_of_memory_not_owned", "mi_os_prim_alloc_aligned(%zu, %zu)", size, align); vm_foreign_unmaps = 0; }
  }
}

// ------------------------------------------------------------------ oracle
typedef struct { uint8_t* p; size_t n; } blk_t;
static blk_t blocks[6000]; static int nblocks = 0;
static blk_t everused[40000]; static int neverused = 0;
static void hold(void* p, size_t n) { if (!p) return; memset(p, 0x5A, n); blocks[nblocks].p = (uint8_t*)p; blocks[nblocks].n = n; nblocks++; if (neverused < 40000) { everused[neverused].p = (uint8_t*)p; everused[neverused].n = n; neverused++; } }
static void* thread_body(void* arg) {
  uint64_t r = (uint64_t)(uintptr_t)arg * 2654435761u + 1; void* q[200];
  for (int i = 0; i < 200; i++) { r ^= r << 13; r ^= r >> 7; r ^= r << 17; q[i] = mi_malloc(16 + (size_t)(r % 30000)); if (q[i]) memset(q[i], 7, 16); }
  for (int i = 0; i < 200; i += 2) mi_free(q[i]);
  void** keep = (void**)mi_malloc(100 * sizeof(void*)); for (int i = 0; i < 100; i++) keep[i] = q[2 * i + 1];
  return keep;   // the odd ones are freed by the main thread after this thread has exited
}
static void workload(int w) {
  nblocks = 0;
  if (w == 0) { for (int i = 0; i < 3000; i++) hold(mi_malloc(8 + (size_t)(rnd() % 2000)), 8); for (int i = 0; i < 300; i++) { size_t n = 8 + (size_t)(rnd() % 2000); hold(mi_zalloc(n), n); } }
  else if (w == 1) { for (int i = 0; i < 60; i++) { size_t n = 200000 + (size_t)(rnd() % 3000000); hold(mi_malloc(n), n); } }
  else if (w == 2) { for (int i = 0; i < 6; i++) { size_t n = ((size_t)40 << 20) + (size_t)(rnd() % (60 << 20)); hold(mi_malloc(n), n > (1 << 20) ? (1 << 20) : n); } }
  else if (w == 3) { hold(mi_malloc_aligned(1000, (size_t)64 << 20), 1000); hold(mi_malloc_aligned_at(5000000, (size_t)32 << 20, 4096), 5000000); hold(mi_malloc_aligned((size_t)70 << 20, (size_t)16 << 20), 4096);
                     hold(mi_malloc_aligned_at(100000, (size_t)128 << 20, 64), 100000); }
  else {
    // several waves of short-lived threads: later waves re-use cached thread metadata, the forced collect releases the cache
    for (int wave = 0; wave < 3; wave++) {
      pthread_t th[6]; void* res[6];
      for (int t = 0; t < 6; t++) pthread_create(&th[t], NULL, &thread_body, (void*)(uintptr_t)(t + 1 + rnd() % 1000));
      for (int t = 0; t < 6; t++) pthread_join(th[t], &res[t]);
      for (int t = 0; t < 6; t++) { void** keep = (void**)res[t]; for (int i = 0; i < 100; i++) mi_free(keep[i]); mi_free(keep); }
    }
    for (int i = 0; i < 40; i++) { size_t n = 100000 + (size_t)(rnd() % 800000); hold(mi_malloc(n), n); }
  }
  for (int i = 0; i < nblocks; i++) if (blocks[i].p[0] != 0x5A) FAIL("block_content", "block %d", i);
  // free in a shuffled order
  for (int i = nblocks - 1; i > 0; i--) { int j = (int)(rnd() % (i + 1)); blk_t t = blocks[i]; blocks[i] = blocks[j]; blocks[j] = t; }
  for (int i = 0; i < nblocks; i++) mi_free(blocks[i].p);
  nblocks = 0;
}
static int is_arena_range(uintptr_t p) {
  for (size_t i = 0; i < mi_atomic_load_relaxed(&mi_arena_count); i++) { mi_arena_t* a = mi_atomic_load_ptr_relaxed(mi_arena_t, &mi_arenas[i]); if (a && p >= (uintptr_t)a->start && p < (uintptr_t)a->start + a->block_count * MI_ARENA_BLOCK_SIZE) return 1; }
  return 0;
}
static size_t arena_bytes(void) { size_t t = 0; for (size_t i = 0; i < mi_atomic_load_relaxed(&mi_arena_count); i++) { mi_arena_t* a = mi_atomic_load_ptr_relaxed(mi_arena_t, &mi_arenas[i]); if (a) t += a->block_count * MI_ARENA_BLOCK_SIZE; } return t; }
static size_t arena_blocks_inuse(void) { size_t t = 0;
  for (size_t i = 0; i < mi_atomic_load_relaxed(&mi_arena_count); i++) { mi_arena_t* a = mi_atomic_load_ptr_relaxed(mi_arena_t, &mi_arenas[i]); if (!a) continue;
    for (size_t b = 0; b < a->block_count; b++) if ((mi_atomic_load_relaxed(&a->blocks_inuse[b / MI_BITMAP_FIELD_BITS]) >> (b % MI_BITMAP_FIELD_BITS)) & 1) t++; }
  return t; }
static void oracle(int w, int arena_mode, int rounds, long purge_delay) {
  const uint64_t rs0 = rs;
  if (arena_mode == 1) mi_option_set(mi_option_disallow_arena_alloc, 1);
  if (arena_mode == 2) mi_option_set(mi_option_arena_reserve, 64 * 1024);   // 64 MiB: too small for the huge workloads
  mi_option_set(mi_option_purge_delay, purge_delay);
  void* warm = mi_malloc(64); mi_free(warm);
  size_t base_mapped = 0; long base_maps = 0;
  size_t base_arena = 0;
  for (int r = 0; r < rounds; r++) {
    rs = rs0;                      // the SAME workload every round
    workload(w);
    mi_collect(true);
    verif_advance_ms(7);
    size_t ab = arena_bytes(); size_t mapped = vm_mapped_bytes - ab; long maps = vm_live_maps();   // arenas are reserved address space and are never unmapped by design
    printf("R %d mapped_outside_arenas %zu arena_bytes %zu maps %ld\n", r, mapped, ab, maps); n_eval++;
    if (r == 1) { base_mapped = mapped; base_maps = maps; base_arena = ab; }
    // creep = the footprint outside arenas grows round after round (three increases in a row); a one-off step (thread metadata
    // cache, segment-map part) is not creep
    { static size_t hist[64]; hist[r % 64] = mapped;
      if (r >= 4 && hist[r] > hist[r - 1] && hist[r - 1] > hist[r - 2] && hist[r - 2] > hist[r - 3])
        FAIL("mapped_memory_grows", "workload %d arena_mode %d: bytes mapped outside arenas grew in three consecutive rounds: %zu < %zu < %zu < %zu (round %d)", w, arena_mode, hist[r - 3], hist[r - 2], hist[r - 1], hist[r], r); }
    // proliferation = the reserved arena space grows round after round although every arena block is free again at the end of each round
    // (three increases in a row); a one-off step is not (threads of a later round may overlap more and need more segments at the same time)
    { static size_t ahist[64]; ahist[r % 64] = ab;
      if (r >= 4 && ahist[r] > ahist[r - 1] && ahist[r - 1] > ahist[r - 2] && ahist[r - 2] > ahist[r - 3] && ab > base_arena)
        { FAIL((w == 2 || w == 3) ? "arena_proliferation_multiblock" : "arena_proliferation", "workload %d arena_mode %d: the reserved arena space grew in three consecutive rounds (%zu < %zu < %zu < %zu bytes, round %d) although every arena block was free again after each round", w, arena_mode, ahist[r - 3], ahist[r - 2], ahist[r - 1], ahist[r], r); base_arena = ab; } }
    size_t inuse = arena_blocks_inuse();
    if (inuse > 0) FAIL("arena_blocks_still_inuse", "workload %d arena_mode %d round %d: %zu arena blocks still claimed after everything was freed and collected", w, arena_mode, r, inuse);
  }
  // direct OS regions: every block the program ever got that is NOT inside an arena must be unmapped now (or belong to
  // a segment that is still alive: the main heap keeps none once everything is freed)
  long still = 0, arena_unpurged = 0, arena_pages = 0; uintptr_t ex = 0, exa = 0;
  for (int i = 0; i < neverused; i++) {
    uintptr_t p = (uintptr_t)everused[i].p; size_t n = everused[i].n;
    if (is_arena_range(p)) {
      size_t lo = _mi_align_up(p, VM_PAGE), hi = (p + n) & ~(uintptr_t)(VM_PAGE - 1);
      if (hi > lo) { arena_pages += (long)((hi - lo) / VM_PAGE); size_t u = vm_unpurged_pages(lo, hi - lo); if (u) { arena_unpurged += (long)u; if (!exa) exa = lo; } }
    } else if (vm_page_state(p) >= 0) { still++; if (!ex) ex = p; }
  }
  n_eval += neverused;
  if (still > 0) FAIL("os_region_not_unmapped", "workload %d arena_mode %d: %ld blocks obtained outside any arena are still mapped after free + mi_collect(true) (e.g. %p)", w, arena_mode, still, (void*)ex);
  if (purge_delay >= 0 && arena_unpurged > 0) FAIL("arena_memory_still_committed", "workload %d arena_mode %d: %ld of %ld arena pages that held blocks were not purged by the forced collect (e.g. %p)", w, arena_mode, arena_unpurged, arena_pages, (void*)exa);
  printf("STAT blocks_checked %d\nSTAT arena_pages_checked %ld\nSTAT munmaps %ld\nSTAT final_mapped %zu\n", neverused, arena_pages, vm_count_events(0, VM_MUNMAP, 1), vm_mapped_bytes);
}


// search side of `generated_good_alloc_size_is_whole_pages`: the statement of the theorem evaluated on the compiled
// _mi_os_good_alloc_size around every threshold of its alignment table, on page / alignment boundaries and on random sizes
static void good_section(void) {
  const size_t ps = _mi_os_page_size();
  static const size_t TH[] = { 1, 4096, 65536, 512u << 10, 2u << 20, 8u << 20, 32u << 20, 64u << 20, (size_t)1 << 32, (size_t)1 << 40, (size_t)1 << 62 };
  for (size_t t = 0; t < sizeof(TH) / sizeof(TH[0]); t++) for (int d = -70000; d <= 70000; d += (d > -3 && d < 3) ? 1 : 4099) for (int r = 0; r < 2; r++) {
    size_t size = TH[t] + (size_t)(long)d + (r ? (size_t)(rnd() % (TH[t] + 1)) : 0);
    if (size == 0 || size >= ((size_t)1 << 63)) continue;
    size_t g = _mi_os_good_alloc_size(size); n_eval++;
    if (g < size || g % ps != 0 || g >= size + size / 8 + ps)
      FAIL("good_alloc_size_not_whole_pages", "_mi_os_good_alloc_size(%zu) = %zu with page size %zu (must be >= the request, a multiple of the page size, < request + request/8 + page)", size, g, ps);
  }
}

int main(int argc, char** argv) {
  if (argc < 3) { fprintf(stderr, "usage: c11 model <seed> | c11 oracle <seed> <workload> <arena_mode> <rounds> [purge_delay]\n"); return 2; }
  uint64_t seed = strtoull(argv[2], 0, 10);
  rs ^= seed * 0x9E3779B97F4A7C15ULL; if (!rs) rs = 1; for (int i = 0; i < 8; i++) rnd();
  if (strcmp(argv[1], "model") == 0) { model_mode(); aalign_section(); good_section(); }
  else oracle(atoi(argv[3]), atoi(argv[4]), atoi(argv[5]), argc > 6 ? atol(argv[6]) : 10);
  printf("STAT evaluations %ld\nDONE\n", n_eval);
  fflush(stdout);
  return 0;
}
